import PyCliffordModel.Proofs.ReachLemmas
import PyCliffordModel.Proofs.PlaceLemmas
/-! # Proofs/GroupLemmas — helper lemmas for the second parts of C05/C06/C12/C19

Layout:
* §1 all `2N` phases stay even: the post-measurement state (`pivotState_allHerm`), one measurement
  (`measure1_allHerm`), lists (`measure_allHerm`), post-selection (`postselect_allHerm`), row-wise maps (`allHerm_map`);
* §2 the encoding map of a tableau (`toMap_valid`);
* §3 lists of observables: every stabilizer commuting with all observables is kept (`measure_keeps`), the full
  description of a list measurement (`measure_list_full`), measuring a list of stabilizers (`measure_of_all_inGroup`);
* §4 `stabilizer_state`: one projection step on a state whose active strings commute with the new string
  (`project1_step`), the fold (`project_activeIs`), the commutation check (`acqMat_all_zero`).
-/
namespace PC
namespace Gr
open Ms

/-! ## §1 all phases stay even -/

/-- **all `2n` phases of the post-measurement state are even**, provided the stabilizer partner of a destabilizer pivot
    commutes with the observable (true for the pivots chosen by `stabilizer_measure` and `stabilizer_postselection`) -/
theorem pivotState_allHerm (st : State) (n : Nat) (obs : PStr) (p : Nat) (c : Int) (h : TabInv st n)
    (hh : AllHerm st.rows) (hp : p < n + st.r)
    (hpart : ∀ k, k < n → k + n = p → anti (gAt st.rows k) obs = false) (hc : c % 2 = 0) :
    AllHerm (pivotState st obs true p c).rows := by
  obtain ⟨_, s2, _, s4⟩ := pivotState_spec st n obs p c h hp
  have hr := h.2.1
  intro R hR
  obtain ⟨k, hk, rfl⟩ := exists_rowAt_of_mem _ R hR
  rw [s2] at hk
  rw [s4 k hk]
  split
  · exact hc
  · have hk' : (rowAt st.rows k).p % 2 = 0 := hh _ (rowAt_mem _ k (by rw [h.1]; exact hk))
    have hp' : (rowAt st.rows p).p % 2 = 0 := hh _ (rowAt_mem _ p (by rw [h.1]; omega))
    by_cases hkn : n ≤ k
    · rw [updRow_p_keep _ _ _ _ _ _ _ (Or.inr hkn)]; exact hk'
    · by_cases hkp : k + n = p
      · have := hpart k (by omega) hkp
        unfold gAt at this
        rw [updRow_of_comm _ _ _ _ _ _ _ this]; exact hk'
      · apply updRow_p_even _ _ _ _ _ _ _ hk' hp'
        rw [h.2.2.2.1 k p hk (by omega), if_neg (by omega)]

/-- the pivot of `stabilizer_measure` satisfies the hypothesis of `pivotState_allHerm` -/
theorem isMeasPivot_partner (st : State) (n : Nat) (obs : PStr) (p : Nat) (h : TabInv st n)
    (hpiv : IsMeasPivot st obs p) : ∀ k, k < n → k + n = p → anti (gAt st.rows k) obs = false := by
  have hN := h.N_eq
  intro k hk hkp
  rcases hpiv.2 with ⟨_, h2, _⟩ | ⟨_, _, h3⟩
  · rw [hN] at h2; omega
  · exact h3 k (by omega)

/-- one measurement keeps all `2n` phases even -/
theorem measure1_allHerm (st st' : State) (n : Nat) (obs : Pauli) (coin : Bool) (out : Int) (rnd : Bool)
    (h : TabInv st n) (hh : AllHerm st.rows) (ho : obs.g.length = n)
    (hm : measure1 st obs coin = .ok (st', out, rnd)) : AllHerm st'.rows := by
  rcases measure1_cases_inv st n obs coin h ho with ⟨p, hpiv, hpl, he⟩ | ⟨_, he⟩
  · rw [he] at hm
    injection hm with hm
    injection hm with h1 _
    subst h1
    exact pivotState_allHerm st n obs.g p _ h hh hpl (isMeasPivot_partner st n obs.g p h hpiv)
      (by cases coin <;> rfl)
  · rw [he] at hm
    injection hm with hm
    injection hm with h1 _
    subst h1
    exact hh

/-- lists of observables, every coin sequence -/
theorem measure_allHerm (n : Nat) (obs : List Pauli) : ∀ (st st' : State) (coins rest : List Bool) (outs : List Int)
    (k : Nat), TabInv st n → AllHerm st.rows → (∀ o ∈ obs, o.g.length = n ∧ o.p % 2 = 0) →
    measure st obs coins = .ok (st', outs, k, rest) → AllHerm st'.rows := by
  induction obs with
  | nil =>
    intro st st' coins rest outs k _ hh _ hm
    simp only [measure] at hm
    injection hm with hm
    injection hm with h1 _
    subst h1
    exact hh
  | cons o os ih =>
    intro st st' coins rest outs k h hh ho hm
    have ho1 := ho o (by simp)
    have hos : ∀ o' ∈ os, o'.g.length = n ∧ o'.p % 2 = 0 := fun o' ho' => ho o' (by simp [ho'])
    simp only [measure] at hm
    cases h1 : measure1 st o (coins.headD false) with
    | error e => rw [h1] at hm; exact absurd hm (by simp)
    | ok res =>
      obtain ⟨st1, out, rnd⟩ := res
      rw [h1] at hm
      simp only at hm
      have i1 := measure1_inv st st1 n o _ out rnd h ho1.1 h1
      have i2 := measure1_allHerm st st1 n o _ out rnd h hh ho1.1 h1
      split at hm
      · exact absurd hm (by simp)
      · cases h2 : measure st1 os (if rnd then coins.tail else coins) with
        | error e => rw [h2] at hm; exact absurd hm (by simp)
        | ok res2 =>
          obtain ⟨st2, outs2, k2, cs⟩ := res2
          rw [h2] at hm
          simp only at hm
          injection hm with hm
          injection hm with e1 _
          subst e1
          exact ih st1 st2 _ cs outs2 k2 i1 i2 hos h2

/-- post-selection keeps all `2n` phases even -/
theorem postselect_allHerm (st st' : State) (n : Nat) (P : Pauli) (res : Nat) (t : Dy) (h : TabInv st n)
    (hh : AllHerm st.rows) (hp : P.p % 2 = 0) (hm : postselect st P res = .ok (st', t)) : AllHerm st'.rows := by
  have hN := h.N_eq
  have hr : st.r = 0 := by
    by_cases e : st.r = 0
    · exact e
    · unfold postselect at hm
      have : (st.r != 0) = true := by simp [e]
      simp only [this] at hm
      exact absurd hm (by simp)
  rcases postselect_cases st P res hr with ⟨p, hp1, _, _, he⟩ | ⟨_, he⟩
  · rw [he] at hm
    injection hm with hm
    injection hm with h1 _
    subst h1
    rw [hN] at hp1
    exact pivotState_allHerm st n P.g p _ h hh (by omega) (fun k _ hk => by omega) (by omega)
  · rw [he] at hm
    split at hm
    · injection hm with hm
      injection hm with h1 _
      subst h1
      exact hh
    · exact absurd hm (by simp)

/-- a row-wise operation that keeps even phases keeps `AllHerm` -/
theorem allHerm_map (T : List Pauli) (f : Pauli → Pauli) (hh : AllHerm T)
    (hf : ∀ P ∈ T, P.p % 2 = 0 → (f P).p % 2 = 0) : AllHerm (T.map f) := by
  intro R hR
  obtain ⟨P, hP, rfl⟩ := List.mem_map.1 hR
  exact hf P hP (hh P hP)

theorem rotateMasked_p_even (G : Pauli) (m : List Bool) (P : Pauli) (hG : G.p % 2 = 0) (hP : P.p % 2 = 0) :
    (rotateMasked G m P).p % 2 = 0 := by
  rw [rotateMasked_eq_rotate_embedGen G P m]
  exact rotate_p_even _ P hG hP

/-! ## §2 the encoding map -/

/-- **the encoding map of a tableau with the Gram pattern and even phases is a valid Clifford map** -/
theorem toMap_valid (st : State) (n : Nat) (h : TabInv st n) (hh : AllHerm st.rows) :
    ValidMap (stateToMap st.rows) n := by
  obtain ⟨hl, _, hlen, hg, _⟩ := h
  have hn : st.rows.length / 2 = n := by omega
  have hrow : ∀ i, i < 2 * n → rowAt (stateToMap st.rows) i
      = if i % 2 = 0 then rowAt st.rows (n + i / 2) else rowAt st.rows (i / 2) := by
    intro i hi
    rcases Nat.mod_two_eq_zero_or_one i with he | he
    · rw [if_pos he]
      have e : i = 2 * (i / 2) := by omega
      conv => lhs; rw [e]
      rw [St.rowAt_stateToMap_even _ _ (by omega), hn]
    · rw [if_neg (by omega)]
      have e : i = 2 * (i / 2) + 1 := by omega
      conv => lhs; rw [e]
      rw [St.rowAt_stateToMap_odd _ _ (by omega)]
  have hmem : ∀ j, j < 2 * n → rowAt st.rows j ∈ st.rows := fun j hj => rowAt_mem _ j (by omega)
  refine ⟨by rw [St.length_stateToMap, hn], ?_, ?_⟩
  · intro R hR
    obtain ⟨i, hi, rfl⟩ := exists_rowAt_of_mem _ R hR
    rw [St.length_stateToMap, hn] at hi
    rw [hrow i hi]
    split
    · exact ⟨hlen _ (hmem _ (by omega)), hh _ (hmem _ (by omega))⟩
    · exact ⟨hlen _ (hmem _ (by omega)), hh _ (hmem _ (by omega))⟩
  · intro i j hi hj
    rw [hrow i hi, hrow j hj]
    by_cases h1 : i % 2 = 0 <;> by_cases h2 : j % 2 = 0
    · rw [if_pos h1, if_pos h2, hg _ _ (by omega) (by omega)]
      split <;> split <;> omega
    · rw [if_pos h1, if_neg h2, hg _ _ (by omega) (by omega)]
      split <;> split <;> omega
    · rw [if_neg h1, if_pos h2, hg _ _ (by omega) (by omega)]
      split <;> split <;> omega
    · rw [if_neg h1, if_neg h2, hg _ _ (by omega) (by omega)]
      split <;> split <;> omega

/-! ## §3 lists of observables -/

/-- **the full description of a list measurement**: one bit per observable; every stabilizer of the initial state that
    commutes with all observables is kept; if the observables commute pairwise, each of them with the sign of its recorded
    outcome stabilizes the final state -/
theorem measure_list_full (n : Nat) (obs : List Pauli) : ∀ (st st' : State) (coins rest : List Bool) (outs : List Int)
    (k : Nat), TabInv st n → (∀ o ∈ obs, o.g.length = n ∧ o.p % 2 = 0) →
    measure st obs coins = .ok (st', outs, k, rest) →
    TabInv st' n ∧ outs.length = obs.length ∧
    (∀ P : Pauli, InGroup st P → (∀ o ∈ obs, acq P.g o.g = 0) → InGroup st' P) ∧
    ((∀ a ∈ obs, ∀ b ∈ obs, acq a.g b.g = 0) → ∀ i, i < obs.length →
      (outs.getD i 0 = 0 ∨ outs.getD i 0 = 1) ∧
      InGroup st' ⟨(rowAt obs i).g, (rowAt obs i).p + 2 * outs.getD i 0⟩) := by
  induction obs with
  | nil =>
    intro st st' coins rest outs k h _ hm
    simp only [measure] at hm
    injection hm with hm
    injection hm with h1 h2
    injection h2 with h2 _
    subst h1 h2
    exact ⟨h, rfl, fun P hP _ => hP, fun _ i hi => absurd hi (by simp)⟩
  | cons o os ih =>
    intro st st' coins rest outs k h ho hm
    have ho1 := ho o (by simp)
    have hos : ∀ o' ∈ os, o'.g.length = n ∧ o'.p % 2 = 0 := fun o' ho' => ho o' (by simp [ho'])
    simp only [measure] at hm
    cases h1 : measure1 st o (coins.headD false) with
    | error e => rw [h1] at hm; exact absurd hm (by simp)
    | ok res =>
      obtain ⟨st1, out, rnd⟩ := res
      rw [h1] at hm
      simp only at hm
      have i1 := measure1_inv st st1 n o _ out rnd h ho1.1 h1
      -- the first measurement
      have hfirst : (out = 0 ∨ out = 1) ∧ InGroup st1 ⟨o.g, o.p + 2 * out⟩ ∧
          ∀ P : Pauli, InGroup st P → acq P.g o.g = 0 → InGroup st1 P := by
        cases rnd with
        | false =>
          obtain ⟨e, hout, hin⟩ := C06_determined st st1 n o _ out h ho1.1 ho1.2 h1
          subst e
          exact ⟨hout, hin, fun P hP _ => hP⟩
        | true =>
          obtain ⟨_, _, hout, hin, hkeep, _⟩ := C06_random st st1 n o _ out h ho1.1 ho1.2 h1
          exact ⟨hout, hin, hkeep⟩
      split at hm
      · exact absurd hm (by simp)
      · cases h2 : measure st1 os (if rnd then coins.tail else coins) with
        | error e => rw [h2] at hm; exact absurd hm (by simp)
        | ok res2 =>
          obtain ⟨st2, outs2, k2, cs⟩ := res2
          rw [h2] at hm
          simp only at hm
          injection hm with hm
          injection hm with e1 e2
          injection e2 with e2 _
          subst e1 e2
          obtain ⟨j1, j2, j3, j4⟩ := ih st1 st2 _ cs outs2 k2 i1 hos h2
          refine ⟨j1, by simp [j2], ?_, ?_⟩
          · intro P hP hcm
            exact j3 P (hfirst.2.2 P hP (hcm o (by simp))) (fun o' ho' => hcm o' (by simp [ho']))
          · intro hc i hi
            have hcs : ∀ a ∈ os, ∀ b ∈ os, acq a.g b.g = 0 :=
              fun a ha b hb => hc a (by simp [ha]) b (by simp [hb])
            cases i with
            | zero =>
              rw [rowAt_cons_zero]
              simp only [List.getD_cons_zero]
              refine ⟨hfirst.1, j3 _ hfirst.2.1 ?_⟩
              intro o' ho'
              exact hc o (by simp) o' (by simp [ho'])
            | succ i =>
              rw [rowAt_cons_succ]
              simp only [List.getD_cons_succ]
              exact j4 hcs i (by simpa using hi)

/-- **measuring a list of signed stabilizers**: the recorded outcomes are returned with certainty, no coin is used and the
    state is unchanged -/
theorem measure_of_all_inGroup (st : State) (n : Nat) (h : TabInv st n) : ∀ (obs : List Pauli) (outs : List Int)
    (coins : List Bool), outs.length = obs.length →
    (∀ i, i < obs.length → (rowAt obs i).g.length = n ∧ (outs.getD i 0 = 0 ∨ outs.getD i 0 = 1) ∧
      InGroup st ⟨(rowAt obs i).g, (rowAt obs i).p + 2 * outs.getD i 0⟩) →
    measure st obs coins = .ok (st, outs, 0, coins) := by
  intro obs
  induction obs with
  | nil =>
    intro outs coins hl _
    have : outs = [] := List.eq_nil_of_length_eq_zero (by simpa using hl)
    subst this
    rfl
  | cons o os ih =>
    intro outs coins hl hall
    cases outs with
    | nil => simp at hl
    | cons out outs2 =>
      have h0 := hall 0 (by simp)
      rw [rowAt_cons_zero] at h0
      simp only [List.getD_cons_zero] at h0
      have hm1 := measure1_of_inGroup st n o (coins.headD false) out h h0.1 h0.2.1 h0.2.2
      have hrest := ih outs2 coins (by simpa using hl) (fun i hi => by
        have := hall (i + 1) (by simpa using hi)
        rw [rowAt_cons_succ] at this
        simpa only [List.getD_cons_succ] using this)
      simp only [measure, hm1]
      simp [hrest]

/-! ## §4 `stabilizer_state` -/

/-- the commutation check of `stabilizer_state` passed: the strings commute pairwise -/
theorem acqMat_all_zero (gs : List PStr) (h : ((acqMat gs).any fun row => row.any (· != 0)) = false) :
    ∀ a ∈ gs, ∀ b ∈ gs, acq a b = 0 := by
  intro a ha b hb
  rw [List.any_eq_false] at h
  have h1 := h (gs.map fun b => acq a b) (by unfold acqMat; exact List.mem_map.2 ⟨a, ha, rfl⟩)
  have h1' : ((gs.map fun b => acq a b).any (· != 0)) = false := by simpa using h1
  rw [List.any_eq_false] at h1'
  have h2 := h1' (acq a b) (List.mem_map.2 ⟨b, hb, rfl⟩)
  simpa using h2

/-- the strings after scan (no phases) and `install`: pivot update followed by the slot permutation -/
theorem project1_pivot_strings (T0 : List Pauli) (n r : Nat) (obs : PStr) (p : Nat) (hl : T0.length = 2 * n)
    (hr : r ≤ n) (hp : p < 2 * n) (k : Nat) (hk : k < 2 * n) :
    gAt (install (T0.mapIdx (updRow obs n false p (rowAt T0 p))) obs n r p (rowAt T0 p).g).1 k
      = pivF n p obs (gAt T0) (installPerm n r p k) := by
  have hr' : r - 1 < 2 * n := by omega
  have hTl : (T0.mapIdx (updRow obs n false p (rowAt T0 p))).length = 2 * n := by
    rw [List.length_mapIdx]; exact hl
  obtain ⟨_, _, _, _, s5⟩ :=
    install_spec (T0.mapIdx (updRow obs n false p (rowAt T0 p))) obs n r p (rowAt T0 p).g hTl hp hr'
  rw [s5 k, installBase_scan T0 obs n p false hl _ (installPerm_lt n r p k hp hr' hk)]

/-- **one projection step with a string that commutes with all active strings**: either nothing changes, or the rank
    drops by one, the new string lands in the new first active slot and the other active strings stay in their slots -/
theorem project1_step (st : State) (n : Nat) (obs : PStr) (h : TabInv st n) (ho : obs.length = n)
    (hcomm : ∀ k, st.r ≤ k → k < n → anti (gAt st.rows k) obs = false) :
    project1 st obs = st ∨
    ((project1 st obs).r + 1 = st.r ∧ gAt (project1 st obs).rows (project1 st obs).r = obs ∧
      ∀ k, st.r ≤ k → k < n → gAt (project1 st obs).rows k = gAt st.rows k) := by
  have hN := h.N_eq
  obtain ⟨hl, hr, hg, _⟩ := (tabInv_iff st n).1 h
  rcases project1_cases st obs with ⟨p, hp, ha, _, he⟩ | ⟨_, he⟩
  · right
    rw [hN] at hp he
    have hp2 : p < 2 * n := by omega
    have hc : ¬ (st.r ≤ p ∧ p < n) := by
      intro hc
      rw [hcomm p hc.1 hc.2] at ha
      exact absurd ha (by simp)
    have hr1 : 1 ≤ st.r := by
      apply Classical.byContradiction
      intro hn
      exact hc ⟨by omega, by omega⟩
    obtain ⟨_, _, _, _, c5, _⟩ := pivot_install_core st.rows n st.r obs false p hl hg hr ho hp2 ha
    have hrank : installRank n st.r p = st.r - 1 := by unfold installRank; rw [if_neg hc]
    have hslot : installSlot n st.r p = st.r - 1 := by unfold installSlot; rw [if_neg hc]
    rw [he]
    simp only
    refine ⟨by rw [hrank]; omega, by rw [hrank, ← hslot]; exact c5, fun k hk1 hk2 => ?_⟩
    rw [project1_pivot_strings st.rows n st.r obs p hl hr hp2 k (by omega),
      installPerm_active_fix n st.r p k hr hp hc hk1 hk2]
    have hkp : k ≠ p := fun e => hc ⟨by omega, by omega⟩
    have hkq : k ≠ partner n p := by
      have := partner_cases n p hp2
      omega
    rw [pivF_other n p obs _ k hkp hkq, hcomm k hk1 hk2]
    simp
  · exact Or.inl he

/-- the active strings of `st` are the list `A` (in slot order) -/
def ActiveIs (st : State) (n : Nat) (A : List PStr) : Prop :=
  st.r + A.length = n ∧ ∀ i, i < A.length → gAt st.rows (st.r + i) = A.getD i []

/-- **the projection fold of `stabilizer_state`**: projecting pairwise commuting strings that commute with the active
    strings lowers the rank by at most one per string, and when it drops every time the active strings afterwards are
    the new strings in reverse order of processing followed by the old ones -/
theorem project_activeIs (n : Nat) (l : List PStr) : ∀ (st : State) (A : List PStr), TabInv st n → AllHerm st.rows →
    ActiveIs st n A → (∀ a ∈ l ++ A, a.length = n) → (∀ a ∈ l ++ A, ∀ b ∈ l ++ A, acq a b = 0) →
    st.r ≤ (project st l).r + l.length ∧
    ((project st l).r + l.length = st.r → ActiveIs (project st l) n (l.reverse ++ A)) := by
  induction l with
  | nil =>
    intro st A _ _ hA _ _
    exact ⟨by simp [project], fun _ => by simpa [project] using hA⟩
  | cons o os ih =>
    intro st A h hh hA hlen hcm
    have hproj : project st (o :: os) = project (project1 st o) os := by simp [project]
    have hol : o.length = n := hlen o (by simp)
    have hsub : ∀ a, a ∈ os ++ A → a ∈ o :: os ++ A := by
      intro a ha
      rcases List.mem_append.1 ha with ha | ha
      · simp [ha]
      · simp [ha]
    obtain ⟨t1, t2⟩ := C05_project1_inv st n o h hh hol
    have hcomm : ∀ k, st.r ≤ k → k < n → anti (gAt st.rows k) o = false := by
      intro k hk1 hk2
      have hi : k - st.r < A.length := by have := hA.1; omega
      have := hA.2 (k - st.r) hi
      rw [show st.r + (k - st.r) = k by omega] at this
      rw [this, anti_eq_false_iff]
      have hmem : A.getD (k - st.r) [] ∈ A := by
        rw [List.getD_eq_getElem?_getD, List.getElem?_eq_getElem hi]
        exact List.getElem_mem hi
      exact hcm _ (List.mem_append.2 (Or.inr hmem)) o (by simp)
    rw [hproj]
    rcases project1_step st n o h hol hcomm with e | ⟨e1, e2, e3⟩
    · rw [e]
      obtain ⟨q1, _⟩ := ih st A h hh hA (fun a ha => hlen a (hsub a ha))
        (fun a ha b hb => hcm a (hsub a ha) b (hsub b hb))
      refine ⟨by simp only [List.length_cons]; omega, fun hq => ?_⟩
      simp only [List.length_cons] at hq
      omega
    · have hA1 : ActiveIs (project1 st o) n (o :: A) := by
        refine ⟨by have := hA.1; simp only [List.length_cons]; omega, fun i hi => ?_⟩
        cases i with
        | zero => simpa using e2
        | succ i =>
          simp only [List.length_cons] at hi
          have hi' : i < A.length := by omega
          have := hA.1
          rw [show (project1 st o).r + (i + 1) = st.r + i by omega, e3 _ (by omega) (by omega), hA.2 i hi']
          simp
      have hsub2 : ∀ a, a ∈ os ++ o :: A → a ∈ o :: os ++ A := by
        intro a ha
        rcases List.mem_append.1 ha with ha | ha
        · simp [ha]
        · rcases List.mem_cons.1 ha with ha | ha
          · simp [ha]
          · simp [ha]
      obtain ⟨q1, q2⟩ := ih (project1 st o) (o :: A) t1 t2 hA1 (fun a ha => hlen a (hsub2 a ha))
        (fun a ha b hb => hcm a (hsub2 a ha) b (hsub2 b hb))
      refine ⟨by simp only [List.length_cons]; omega, fun hq => ?_⟩
      simp only [List.length_cons] at hq
      have := q2 (by omega)
      rw [List.reverse_cons, List.append_assoc]
      exact this

theorem activeIs_maximallyMixed (N : Nat) : ActiveIs (maximallyMixed N) N [] :=
  ⟨rfl, fun i hi => absurd hi (by simp)⟩

/-- `stabilizer_state(list)` has the invariant whenever it succeeds (as `C05_stabilizerState_inv`, restated here so that this
    file does not depend on `Properties/C05b`) -/
theorem stabilizerState_inv (N : Nat) (stabs : List Pauli) (st : State) (hl : ∀ s ∈ stabs, s.g.length = N ∧ s.p % 2 = 0)
    (hs : stabilizerState N stabs = .ok st) : TabInv st N := by
  have hobs : ∀ o ∈ (stabs.map (·.g)).reverse, o.length = N := by
    intro o ho
    rw [List.mem_reverse, List.mem_map] at ho
    obtain ⟨s, hs', rfl⟩ := ho
    exact (hl s hs').1
  have h0 : TabInv (maximallyMixed N) N := C05_toState_inv (idMap N) N N (C05_idMap_valid N) (Nat.le_refl N)
  obtain ⟨hP, _⟩ := Rc.project_inv N _ (maximallyMixed N) h0 (Rc.allHerm_maximallyMixed N) hobs
  have hev : ∀ k, (rowAt stabs k).p % 2 = 0 := Rc.rowAt_p_even stabs (fun s hs' => (hl s hs').2)
  unfold stabilizerState at hs
  simp only at hs
  split at hs
  · exact absurd hs (by simp)
  · split at hs
    · injection hs with hs
      subst hs
      apply Rc.tabInv_mapIdx_phase _ N _ hP
      · intro i R; split <;> rfl
      · intro i R h1 h2
        rw [if_pos (by simp [h1, h2])]
        exact hev _
    · split at hs
      · injection hs with hs
        subst hs
        apply Rc.tabInv_mapIdx_phase _ N _ hP
        · intro i R; split <;> rfl
        · intro i R h1 h2
          rw [if_pos (by simp [h1, h2])]
          exact hev _
      · exact absurd hs (by simp)

end Gr
end PC
