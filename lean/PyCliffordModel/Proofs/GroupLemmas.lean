import PyCliffordModel.Proofs.ReachLemmas
import PyCliffordModel.Proofs.PlaceLemmas
/-! # Proofs/GroupLemmas — helper lemmas for the second parts of C05/C06/C12/C19 -/
namespace PC

end PC
