import PyCliffordModel.Proofs.GroupLemmas
/-! # Proofs/DiagLemmas — helper lemmas for causal diagonalisation of an operator and diagonalisation of a state -/
namespace PC
namespace Dg

/-! ## an operation applied to the qubits `≥ i0` only -/

/-- apply `f` to the part of `P` on qubits `≥ i0`, keep the first `i0` qubits -/
def liftAct (i0 : Nat) (f : Pauli → Pauli) (P : Pauli) : Pauli :=
  ⟨P.g.take i0 ++ (f ⟨P.g.drop i0, P.p⟩).g, (f ⟨P.g.drop i0, P.p⟩).p⟩

theorem liftAct_comp (i0 : Nat) (f1 f2 : Pauli → Pauli) (P : Pauli) (h : i0 ≤ P.g.length) :
    liftAct i0 f2 (liftAct i0 f1 P) = liftAct i0 (fun X => f2 (f1 X)) P := by
  have hl : (P.g.take i0).length = i0 := by rw [List.length_take]; omega
  simp only [liftAct]
  rw [List.take_left' hl, List.drop_left' hl]

theorem rotateMasked_false_prefix (G : Pauli) (k : Nat) (m : List Bool) (a b : PStr) (p : Int) (ha : a.length = k) :
    rotateMasked G (List.replicate k false ++ m) ⟨a ++ b, p⟩ =
      ⟨a ++ (rotateMasked G m ⟨b, p⟩).g, (rotateMasked G m ⟨b, p⟩).p⟩ := by
  unfold rotateMasked
  simp only
  rw [Pl.gather_false_prefix k a m b ha, Pl.scatter_false_prefix k a m b _ ha]

/-! ## the qubit list and mask of a causal rotation gate -/

theorem causal_qubits (h : PStr) (i0 : Nat) :
    (rotationGate ⟨h, 0⟩ (some ((List.range h.length).map (· + i0)))).qubits = (condense h).2.map (· + i0) := by
  show (condense h).2.map (fun i => ((List.range h.length).map (· + i0)).getD i 0) = _
  apply List.map_congr_left
  intro i hi
  have hi' : i < h.length := List.mem_range.1 (List.mem_filter.1 hi).1
  simp [List.getD_eq_getElem?_getD, hi']

theorem maskOf_shift (qs : List Nat) (i0 k : Nat) :
    maskOf (qs.map (· + i0)) (i0 + k) = List.replicate i0 false ++ maskOf qs k := by
  unfold maskOf
  rw [List.range_add, List.map_append, List.map_map]
  congr 1
  · rw [List.eq_replicate_iff]
    refine ⟨by simp, ?_⟩
    intro b hb
    obtain ⟨i, hi, rfl⟩ := List.mem_map.1 hb
    have hi := List.mem_range.1 hi
    cases hc : (qs.map (· + i0)).contains i with
    | false => rfl
    | true =>
      rw [List.contains_iff_mem] at hc
      obtain ⟨q, _, hq⟩ := List.mem_map.1 hc
      omega
  · apply List.map_congr_left
    intro j _
    simp only [Function.comp]
    rw [Bool.eq_iff_iff, List.contains_iff_mem, List.contains_iff_mem, List.mem_map]
    constructor
    · rintro ⟨q, hq, he⟩
      have : q = j := by omega
      subst this; exact hq
    · intro hj; exact ⟨j, hj, by omega⟩

/-- **the causal rotation gate acts on the qubits `≥ i0` as the rotation by its generator, and on nothing else** -/
theorem rotationGate_causal_acts (h : PStr) (i0 : Nat) (P : Pauli) (hl : i0 + h.length = P.g.length) :
    gateAct (rotationGate ⟨h, 0⟩ (some ((List.range h.length).map (· + i0)))) P.g.length P =
      liftAct i0 (rotate ⟨h, 0⟩) P := by
  have hq := causal_qubits h i0
  show rotateMasked ⟨(condense h).1, 0⟩
      (maskOf (rotationGate ⟨h, 0⟩ (some ((List.range h.length).map (· + i0)))).qubits P.g.length) P = _
  rw [hq, ← hl, maskOf_shift, Pl.maskOf_support]
  have hP : P = ⟨P.g.take i0 ++ P.g.drop i0, P.p⟩ := by rw [List.take_append_drop]
  have hlt : (P.g.take i0).length = i0 := by rw [List.length_take]; omega
  have hld : h.length = (P.g.drop i0).length := by rw [List.length_drop]; omega
  conv => lhs; rw [hP]
  rw [rotateMasked_false_prefix _ i0 _ _ _ _ hlt]
  have e : rotateMasked ⟨(condense h).1, 0⟩ (h.map nontrivQ) ⟨P.g.drop i0, P.p⟩ = rotate ⟨h, 0⟩ ⟨P.g.drop i0, P.p⟩ := by
    have := Pl.rotationGate_acts ⟨h, 0⟩ ⟨P.g.drop i0, P.p⟩ hld
    rw [← Pl.maskOf_support h, hld]
    exact this
  rw [e]
  rfl

theorem seqAct_causal (N i0 : Nat) : ∀ (gens : List PStr) (P : Pauli), P.g.length = N →
    (∀ h ∈ gens, i0 + h.length = N) →
    seqAct (gens.map fun h => rotationGate ⟨h, 0⟩ (some ((List.range (N - i0)).map (· + i0)))) N P =
      liftAct i0 (Rn.rotP gens) P := by
  intro gens
  induction gens with
  | nil =>
    intro P _ _
    show P = liftAct i0 (fun X => X) P
    simp [liftAct]
  | cons h hs ih =>
    intro P hP hl
    have hh : i0 + h.length = N := hl h (by simp)
    have hN : N - i0 = h.length := by omega
    rw [List.map_cons, Ci.seqAct_cons]
    have e : gateAct (rotationGate ⟨h, 0⟩ (some ((List.range (N - i0)).map (· + i0)))) N P =
        liftAct i0 (rotate ⟨h, 0⟩) P := by
      rw [hN, ← hP]; exact rotationGate_causal_acts h i0 P (by rw [hP]; exact hh)
    rw [e]
    have hlen : (liftAct i0 (rotate ⟨h, 0⟩) P).g.length = N := by
      rw [← e, Ci.length_gateAct, hP]
    rw [ih _ hlen (fun x hx => hl x (by simp [hx])), liftAct_comp i0 _ _ P (by omega)]
    rfl

/-! ## the generators of `pauli_diagonalize1` are never identity strings -/

theorem diag1_nil_of_id (g : PStr) (i0 : Nat) (h : anyBit g = false) : diagonalize1 g i0 = [] := by
  have hg := Rn.anyBit_eq_false g h
  have hon : isOnsite g i0 = true := by
    rw [Rn.isOnsite_iff]
    intro j _
    rw [hg, Rn.getQ_idStr]
  have hx : (getQ g i0).1 = false := by rw [hg, Rn.getQ_idStr]
  unfold diagonalize1
  simp [hon, hx]

theorem diag1_gens (g : PStr) (i0 : Nat) (hi : i0 < g.length) :
    ∀ h ∈ diagonalize1 g i0, anyBit h = true ∧ h.length = g.length := by
  cases hany : anyBit g with
  | false => rw [diag1_nil_of_id g i0 hany]; intro h hh; cases hh
  | true =>
    intro h hh
    exact ⟨Pl.diag1_anyBit g i0 hi hany h hh, (Rn.diag1_strings g i0 hi hany).2 h hh⟩

/-! ## well-formedness of the causal gates -/

theorem rotationGate_causal_WF (h : PStr) (i0 N : Nat) (hl : i0 + h.length = N) (hany : anyBit h = true) :
    (rotationGate ⟨h, 0⟩ (some ((List.range h.length).map (· + i0)))).WF N := by
  have hq := causal_qubits h i0
  refine ⟨?_, ?_, ?_, Or.inl ⟨⟨(condense h).1, 0⟩, rfl, ?_, rfl⟩⟩
  · rw [hq]
    obtain ⟨j, hj, hn⟩ := (Rn.anyBit_iff h).1 hany
    have hm : j ∈ (condense h).2 := List.mem_filter.2 ⟨List.mem_range.2 hj, hn⟩
    intro he
    have : j + i0 ∈ (condense h).2.map (· + i0) := List.mem_map.2 ⟨j, hm, rfl⟩
    rw [he] at this; cases this
  · intro q hq'
    rw [hq] at hq'
    obtain ⟨j, hj, rfl⟩ := List.mem_map.1 hq'
    have := List.mem_range.1 (List.mem_filter.1 hj).1
    omega
  · rw [hq]
    have hn : (condense h).2.Nodup := List.nodup_range.sublist List.filter_sublist
    rw [List.nodup_iff_pairwise_ne] at hn ⊢
    rw [List.pairwise_map]
    exact hn.imp (fun hab he => hab (by omega))
  · show (condense h).1.length = (rotationGate ⟨h, 0⟩ (some ((List.range h.length).map (· + i0)))).qubits.length
    rw [hq, List.length_map]
    exact Pl.length_condense h

theorem causal_qubits_range (h : PStr) (i0 N : Nat) (hl : i0 + h.length = N) :
    ∀ q ∈ (rotationGate ⟨h, 0⟩ (some ((List.range h.length).map (· + i0)))).qubits, i0 ≤ q ∧ q < N := by
  intro q hq'
  rw [causal_qubits h i0] at hq'
  obtain ⟨j, hj, rfl⟩ := List.mem_map.1 hq'
  have := List.mem_range.1 (List.mem_filter.1 hj).1
  omega

/-! ## `take`: it succeeds on well-formed gates, and only adds the gate taken -/

theorem listMax_lt (N : Nat) (hN : 0 < N) : ∀ qs : List Nat, (∀ q ∈ qs, q < N) → listMax qs < N
  | [], _ => hN
  | x :: xs, h => by
    have h1 := h x (by simp)
    have h2 := listMax_lt N hN xs (fun q hq => h q (by simp [hq]))
    show max x (listMax xs) < N
    omega

theorem takeRev_ne_nil (g : Gate) : ∀ Ls : List Layer, takeRev Ls g ≠ []
  | [] => by simp [takeRev]
  | [L] => by simp [takeRev]
  | L :: P :: rest => by
    unfold takeRev
    split
    · simp
    · split <;> simp

theorem take_ok (c : Circ) (g : Gate) (N : Nat) (hN : c.N = N) (hg : g.WF N) (hl : c.layers ≠ []) :
    ∃ c', c.take g = .ok c' ∧ c'.N = N ∧ c'.layers ≠ [] := by
  obtain ⟨h0, hq, _, _⟩ := hg
  have hNpos : 0 < N := by
    cases hqs : g.qubits with
    | nil => exact absurd hqs h0
    | cons q qs => have := hq q (by rw [hqs]; simp); omega
  have h1 : g.qubits.isEmpty = false := by
    cases hqs : g.qubits with
    | nil => exact absurd hqs h0
    | cons q qs => rfl
  have h2 : ¬ (listMax g.qubits ≥ c.N) := by
    have := listMax_lt N hNpos g.qubits hq
    omega
  unfold Circ.take
  rw [h1]
  simp only [Bool.false_eq_true, if_false, if_neg h2]
  cases hrev : c.layers.reverse with
  | nil =>
    have : c.layers = [] := by simpa using hrev
    exact absurd this hl
  | cons L rest =>
    dsimp only
    split
    · refine ⟨_, rfl, hN, ?_⟩
      simp only [ne_eq, List.reverse_eq_nil_iff]
      exact takeRev_ne_nil g _
    · refine ⟨_, rfl, hN, ?_⟩
      simp

theorem fold_take_ok (N : Nat) : ∀ (gsl : List Gate) (c0 : Circ), c0.N = N → c0.layers ≠ [] → (∀ g ∈ gsl, g.WF N) →
    ∃ c, gsl.foldlM (fun c g => c.take g) c0 = .ok c := by
  intro gsl
  induction gsl with
  | nil => intro c0 _ _ _; exact ⟨c0, rfl⟩
  | cons g gs ih =>
    intro c0 hN hl hw
    obtain ⟨c1, h1, hN1, hl1⟩ := take_ok c0 g N hN (hw g (by simp)) hl
    obtain ⟨c, hc⟩ := ih c1 hN1 hl1 (fun x hx => hw x (by simp [hx]))
    refine ⟨c, ?_⟩
    rw [List.foldlM_cons, h1]
    exact hc

/-- the gates of a layer list, as a membership predicate -/
def InLayers (Ls : List Layer) (h : Gate) : Prop := ∃ L ∈ Ls, h ∈ Ci.layerGates L

theorem mem_layerGates_append (L : Layer) (g h : Gate) (hh : h ∈ Ci.layerGates (L.append g)) :
    h ∈ Ci.layerGates L ∨ h = g := by
  cases L with
  | meas q r k => exact Or.inl hh
  | gates gs f b =>
    have : h ∈ gs ++ [g] := hh
    rcases List.mem_append.1 this with h1 | h1
    · exact Or.inl h1
    · exact Or.inr (by simpa using h1)

theorem takeRev_mem (g h : Gate) : ∀ Ls : List Layer, InLayers (takeRev Ls g) h → InLayers Ls h ∨ h = g := by
  intro Ls
  induction Ls with
  | nil =>
    rintro ⟨L, hL, hh⟩
    simp only [takeRev, List.mem_singleton] at hL
    subst hL
    right
    simpa [Ci.layerGates] using hh
  | cons L rest ih =>
    have stop : ∀ tl : List Layer, InLayers (L.append g :: tl) h → InLayers (L :: tl) h ∨ h = g := by
      rintro tl ⟨X, hX, hh⟩
      rcases List.mem_cons.1 hX with rfl | hX
      · rcases mem_layerGates_append L g h hh with h1 | h1
        · exact Or.inl ⟨L, by simp, h1⟩
        · exact Or.inr h1
      · exact Or.inl ⟨X, List.mem_cons_of_mem _ hX, hh⟩
    cases rest with
    | nil =>
      intro hin
      simp only [takeRev] at hin
      exact stop [] hin
    | cons P rest' =>
      intro hin
      unfold takeRev at hin
      split at hin
      · exact stop _ hin
      · split at hin
        · obtain ⟨X, hX, hh⟩ := hin
          rcases List.mem_cons.1 hX with rfl | hX
          · exact Or.inl ⟨X, by simp, hh⟩
          · rcases ih ⟨X, hX, hh⟩ with ⟨Y, hY, hy⟩ | h1
            · exact Or.inl ⟨Y, List.mem_cons_of_mem _ hY, hy⟩
            · exact Or.inr h1
        · exact stop _ hin

theorem take_mem (c c' : Circ) (g h : Gate) (ht : c.take g = .ok c') (hh : InLayers c'.layers h) :
    c'.N = c.N ∧ (InLayers c.layers h ∨ h = g) := by
  unfold Circ.take at ht
  split at ht
  · cases ht
  · split at ht
    · cases ht
    · cases hrev : c.layers.reverse with
      | nil => rw [hrev] at ht; cases ht
      | cons L rest =>
        have hlay : c.layers = (L :: rest).reverse := by rw [← hrev, List.reverse_reverse]
        rw [hrev] at ht
        dsimp only at ht
        split at ht
        · cases ht
          refine ⟨rfl, ?_⟩
          obtain ⟨X, hX, hx⟩ := hh
          rcases takeRev_mem g h (L :: rest) ⟨X, List.mem_reverse.1 hX, hx⟩ with ⟨Y, hY, hy⟩ | h1
          · exact Or.inl ⟨Y, by rw [hlay]; exact List.mem_reverse.2 hY, hy⟩
          · exact Or.inr h1
        · cases ht
          refine ⟨rfl, ?_⟩
          obtain ⟨X, hX, hx⟩ := hh
          rcases List.mem_append.1 hX with hX | hX
          · exact Or.inl ⟨X, hX, hx⟩
          · simp only [List.mem_singleton] at hX
            subst hX
            exact Or.inr (by simpa [Ci.layerGates] using hx)

theorem fold_take_mem : ∀ (gsl : List Gate) (c0 c : Circ) (h : Gate),
    gsl.foldlM (fun c g => c.take g) c0 = .ok c → InLayers c.layers h →
    c.N = c0.N ∧ (InLayers c0.layers h ∨ h ∈ gsl) := by
  intro gsl
  induction gsl with
  | nil =>
    intro c0 c h hf hh
    have : c0 = c := by simpa [List.foldlM, pure, Except.pure] using hf
    subst this
    exact ⟨rfl, Or.inl hh⟩
  | cons g gs ih =>
    intro c0 c h hf hh
    rw [List.foldlM_cons] at hf
    cases ht : c0.take g with
    | error e => rw [ht] at hf; cases hf
    | ok c1 =>
      rw [ht] at hf
      obtain ⟨hN, hm⟩ := ih c1 c h hf hh
      rcases hm with hm | hm
      · obtain ⟨hN1, hm1⟩ := take_mem c0 c1 g h ht hm
        refine ⟨hN.trans hN1, ?_⟩
        rcases hm1 with h1 | h1
        · exact Or.inl h1
        · exact Or.inr (by simp [h1])
      · have hN1 : c1.N = c0.N := by
          unfold Circ.take at ht
          split at ht
          · cases ht
          · split at ht
            · cases ht
            · split at ht
              · cases ht
              · split at ht <;> (cases ht; rfl)
        exact ⟨hN.trans hN1, Or.inr (by simp [hm])⟩

theorem fold_take_N : ∀ (gsl : List Gate) (c0 c : Circ),
    gsl.foldlM (fun c g => c.take g) c0 = .ok c → c.N = c0.N := by
  intro gsl
  induction gsl with
  | nil =>
    intro c0 c hf
    have : c0 = c := by simpa [List.foldlM, pure, Except.pure] using hf
    subst this; rfl
  | cons g gs ih =>
    intro c0 c hf
    rw [List.foldlM_cons] at hf
    cases ht : c0.take g with
    | error e => rw [ht] at hf; cases hf
    | ok c1 =>
      rw [ht] at hf
      have hN1 : c1.N = c0.N := by
        unfold Circ.take at ht
        split at ht
        · cases ht
        · split at ht
          · cases ht
          · split at ht
            · cases ht
            · split at ht <;> (cases ht; rfl)
      exact (ih c1 c hf).trans hN1

/-! ## the circuit of `diagonalize(P, i0, causal=True)` -/

/-- the gate program of the causal mode -/
def causalGates (g : PStr) (i0 : Nat) : List Gate :=
  (diagonalize1 (g.drop i0) 0).map fun h => rotationGate ⟨h, 0⟩ (some ((List.range (g.length - i0)).map (· + i0)))

theorem diagonalizePauli_causal_eq (g : PStr) (i0 : Nat) :
    diagonalizePauli g i0 true = (causalGates g i0).foldlM (fun c gt => c.take gt) { N := g.length } := by
  simp [diagonalizePauli, causalGates]

theorem causal_gens (g : PStr) (i0 : Nat) (hi : i0 < g.length) :
    ∀ h ∈ diagonalize1 (g.drop i0) 0, anyBit h = true ∧ i0 + h.length = g.length := by
  intro h hh
  have hl : (g.drop i0).length = g.length - i0 := List.length_drop
  obtain ⟨h1, h2⟩ := diag1_gens (g.drop i0) 0 (by rw [hl]; omega) h hh
  exact ⟨h1, by rw [h2, hl]; omega⟩

theorem causalGates_spec (g : PStr) (i0 : Nat) (hi : i0 < g.length) :
    ∀ gt ∈ causalGates g i0, gt.WF g.length ∧ ∀ q ∈ gt.qubits, i0 ≤ q ∧ q < g.length := by
  intro gt hgt
  obtain ⟨h, hh, rfl⟩ := List.mem_map.1 hgt
  obtain ⟨h1, h2⟩ := causal_gens g i0 hi h hh
  have e : g.length - i0 = h.length := by omega
  rw [e]
  exact ⟨rotationGate_causal_WF h i0 g.length h2 h1, causal_qubits_range h i0 g.length h2⟩

/-- the causal circuit run forward on one operator: the generators of `pauli_diagonalize1` of the part on qubits `≥ i0`,
    applied in order to that part; the earlier qubits are kept -/
theorem causal_forward (g : PStr) (i0 : Nat) (c : Circ) (Q : Pauli) (hi : i0 < g.length) (hQ : Q.g.length = g.length)
    (hc : diagonalizePauli g i0 true = .ok c) :
    ∃ c' R, c.forward ⟨⟨[Q], 0, false⟩, [], []⟩ = .ok (c', ⟨⟨[R], 0, false⟩, [], []⟩) ∧
      PEq R (liftAct i0 (Rn.rotP (diagonalize1 (g.drop i0) 0)) Q) ∧ R.g.length = Q.g.length := by
  rw [diagonalizePauli_causal_eq] at hc
  have hw : ∀ gt ∈ causalGates g i0, gt.WF g.length := fun gt hgt => (causalGates_spec g i0 hi gt hgt).1
  have hI := Ci.fold_inv g.length _ { N := g.length } c [] (Ci.inv_init g.length) hw hc
  rw [List.nil_append] at hI
  obtain ⟨c', rows', hf, hl, hr⟩ := Ci.forward_of_inv g.length c _ [Q] 0 false [] [] hI
    (by intro R hR; rw [List.mem_singleton] at hR; rw [hR]; exact hQ)
  match rows', hl, hr with
  | [R], _, hr =>
    have h0 := hr 0 (by simp)
    have hs := seqAct_causal g.length i0 (diagonalize1 (g.drop i0) 0) Q hQ
      (fun h hh => (causal_gens g i0 hi h hh).2)
    have h0' : PEq R (seqAct (causalGates g i0) g.length Q) := h0
    refine ⟨c', R, hf, ?_, ?_⟩
    · rw [← hs]; exact h0'
    · rw [h0'.1, Ci.length_seqAct]

/-! ## `diagonalize(state)` -/

theorem take_init (N : Nat) (g : Gate) (h0 : g.qubits ≠ []) (hq : ∀ q ∈ g.qubits, q < N) :
    ({ N := N } : Circ).take g = .ok { N := N, layers := [.gates [g] none none] } := by
  have hNpos : 0 < N := by
    cases hqs : g.qubits with
    | nil => exact absurd hqs h0
    | cons q qs => have := hq q (by rw [hqs]; simp); omega
  have h1 : g.qubits.isEmpty = false := by
    cases hqs : g.qubits with
    | nil => exact absurd hqs h0
    | cons q qs => rfl
  have h2 : ¬ (listMax g.qubits ≥ N) := by
    have := listMax_lt N hNpos g.qubits hq
    omega
  unfold Circ.take
  rw [h1]
  simp only [Bool.false_eq_true, if_false, if_neg h2]
  rfl

/-- the global gate of `diagonalize(state)` -/
def stateGate (n : Nat) (B : CMap) : Gate := { qubits := List.range n, bmap := some B }

theorem stateCirc_forward (n : Nat) (B M : CMap) (hinv : inverse B = some M) (rows : List Pauli) (r : Nat) (s : Bool)
    (coins : List Bool) (rnd : List CMap) :
    ({ N := n, layers := [.gates [stateGate n B] none none] } : Circ).forward ⟨⟨rows, r, s⟩, coins, rnd⟩ =
      .ok ({ N := n, layers := [.gates [{ stateGate n B with fmap := some M }] none none] },
           ⟨⟨rows.map (transform M), r, s⟩, coins, rnd⟩) := by
  simp [Circ.forward, layersForward, Layer.forward, gatesForward, Gate.forward, stateGate, hinv, Gate.n]

theorem qMask_range (n : Nat) (hn : 0 < n) : qMask (List.range n) n = .ok (List.replicate n true) := by
  rw [Ci.qMask_eq (List.range n) n (by intro h; have := congrArg List.length h; simp at this; omega)
    (fun q hq => List.mem_range.1 hq),
    Ci.maskOf_full (List.range n) n List.nodup_range (fun q hq => List.mem_range.1 hq) List.length_range]

theorem stateCirc_backward (n : Nat) (hn : 0 < n) (B : CMap) (rows : List Pauli) (r : Nat) (s : Bool)
    (coins : List Bool) (rnd : List CMap) :
    ({ N := n, layers := [.gates [stateGate n B] none none] } : Circ).backward ⟨⟨rows, r, s⟩, coins, rnd⟩ none =
      .ok ({ N := n, layers := [.gates [stateGate n B] none none] },
           ⟨⟨rows.map (transformMasked B (List.replicate n true)), r, s⟩, coins, rnd⟩) := by
  simp [Circ.backward, layersBackward, Layer.backward, gatesBackward, Gate.backward, stateGate, qMask_range n hn]

theorem transformMasked_full (B : CMap) (n : Nat) (hB : ValidMap B n) (P : Pauli) (hP : P.g.length = n) :
    transformMasked B (List.replicate n true) P = transform B P := by
  rw [Ci.transformMasked_eq_maskedOp]
  exact Ci.maskedOp_full _ n P hP (Tr.length_transform B n hB.1 (fun R hR => (hB.2.1 R hR).1) P)

/-- rows of the encoding map are the images of the unit operators -/
theorem encode_rows (st : State) (n : Nat) (h : TabInv st n) (hH : AllHerm st.rows) (k : Nat) (hk : k < n) :
    PEq (transform (stateToMap st.rows) ⟨unitZ n k, 0⟩) (rowAt st.rows k) ∧
    PEq (transform (stateToMap st.rows) ⟨unitX n k, 0⟩) (rowAt st.rows (n + k)) := by
  have hB := Gr.toMap_valid st n h hH
  have hn : st.rows.length / 2 = n := by rw [h.1]; omega
  have hX := Tr.transform_unitX _ n k hB.1 hk (hB.2.1 _ (Tr.rowAt_mem _ _ (by rw [hB.1]; omega))).1
  have hZ := Tr.transform_unitZ _ n k hB.1 hk (hB.2.1 _ (Tr.rowAt_mem _ _ (by rw [hB.1]; omega))).1
  rw [St.rowAt_stateToMap_odd _ _ (by omega)] at hZ
  rw [St.rowAt_stateToMap_even _ _ (by omega), hn] at hX
  exact ⟨hZ, hX⟩

/-- every row of a `2n`-row list is a stabilizer slot `k < n` or a destabilizer slot `n + k` -/
theorem rows_split (n i : Nat) (hi : i < 2 * n) : (i < n) ∨ (∃ k, k < n ∧ i = n + k) := by
  by_cases h : i < n
  · exact Or.inl h
  · exact Or.inr ⟨i - n, by omega, by omega⟩

theorem state_backward_rows (st : State) (n : Nat) (h : TabInv st n) (hH : AllHerm st.rows) :
    RowsPEq' ((zeroState n).rows.map (transformMasked (stateToMap st.rows) (List.replicate n true))) st.rows := by
  have hB := Gr.toMap_valid st n h hH
  have hz := St.length_zeroState_rows n
  refine ⟨by rw [List.length_map, hz, h.1], ?_⟩
  intro i hi
  rw [List.length_map, hz] at hi
  rw [Tr.rowAt_map _ _ _ (by rw [hz]; exact hi)]
  rcases rows_split n i hi with hlt | ⟨k, hk, rfl⟩
  · rw [St.rowAt_zeroState_lo n i hlt, transformMasked_full _ n hB _ (Tr.length_unitZ n i)]
    exact (encode_rows st n h hH i hlt).1
  · rw [St.rowAt_zeroState_hi n k hk, transformMasked_full _ n hB _ (by simp [unitX])]
    exact (encode_rows st n h hH k hk).2

theorem state_forward_rows (st : State) (n : Nat) (M : CMap) (h : TabInv st n) (hH : AllHerm st.rows)
    (hM : ValidMap M n) (hBM : List.Forall₂ PEq (compose (stateToMap st.rows) M) (idMap n)) :
    RowsPEq' (st.rows.map (transform M)) (zeroState n).rows := by
  have hB := Gr.toMap_valid st n h hH
  have hz := St.length_zeroState_rows n
  refine ⟨by rw [List.length_map, hz, h.1], ?_⟩
  intro i hi
  rw [List.length_map, h.1] at hi
  rw [Tr.rowAt_map _ _ _ (by rw [h.1]; exact hi)]
  rcases rows_split n i hi with hlt | ⟨k, hk, rfl⟩
  · rw [St.rowAt_zeroState_lo n i hlt]
    exact (Tr.transform_congr M (encode_rows st n h hH i hlt).1.symm).trans
      (Cp.acts_id_of_rows _ M n hB hM hBM _ (Tr.length_unitZ n i))
  · rw [St.rowAt_zeroState_hi n k hk]
    exact (Tr.transform_congr M (encode_rows st n h hH k hk).2.symm).trans
      (Cp.acts_id_of_rows _ M n hB hM hBM _ (by simp [unitX]))

end Dg
end PC
