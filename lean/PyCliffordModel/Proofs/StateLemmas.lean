import PyCliffordModel.Proofs.Compose
import PyCliffordModel.Spec.Tableau
/-! # Proofs/StateLemmas — helper lemmas for C12/C19 (map/state conversion, constructors, independence of the active rows) -/
namespace PC
namespace St
open Tr Cp

/-! ## list reshuffling: `map_to_state` / `state_to_map` -/

theorem rowAt_eq (T : List Pauli) (j : Nat) : rowAt T j = (T[j]?).getD ⟨[], 0⟩ := by
  simp [rowAt]

theorem length_flatMap2 {α : Type} (f g : Nat → α) (n : Nat) :
    ((List.range n).flatMap fun i => [f i, g i]).length = 2 * n := by
  induction n with
  | zero => simp
  | succ n ih => rw [List.range_succ, List.flatMap_append]; simp [ih]; omega

/-- entries `2i`, `2i+1` of a list of two-element blocks -/
theorem getElem?_flatMap2 {α : Type} (f g : Nat → α) (n i : Nat) (h : i < n) :
    ((List.range n).flatMap fun i => [f i, g i])[2 * i]? = some (f i) ∧
    ((List.range n).flatMap fun i => [f i, g i])[2 * i + 1]? = some (g i) := by
  induction n with
  | zero => omega
  | succ n ih =>
    rw [List.range_succ, List.flatMap_append]
    by_cases hi : i < n
    · have := ih hi
      rw [List.getElem?_append_left (by rw [length_flatMap2]; omega),
        List.getElem?_append_left (by rw [length_flatMap2]; omega)]
      exact this
    · have : i = n := by omega
      subst this
      rw [List.getElem?_append_right (by rw [length_flatMap2]; omega),
        List.getElem?_append_right (by rw [length_flatMap2]; omega), length_flatMap2]
      simp

theorem length_mapToState (M : List Pauli) : (mapToState M).length = 2 * (M.length / 2) := by
  simp [mapToState]; omega

theorem length_stateToMap (T : List Pauli) : (stateToMap T).length = 2 * (T.length / 2) := by
  unfold stateToMap; exact length_flatMap2 _ _ _

/-- stabilizer slot `k` of `map_to_state` is row `2k+1` of the map -/
theorem rowAt_mapToState_lo (M : List Pauli) (k : Nat) (hk : k < M.length / 2) :
    rowAt (mapToState M) k = rowAt M (2 * k + 1) := by
  rw [rowAt_eq]
  unfold mapToState
  rw [List.getElem?_append_left (by simpa using hk)]
  simp [hk]

/-- destabilizer slot `n + k` of `map_to_state` is row `2k` of the map -/
theorem rowAt_mapToState_hi (M : List Pauli) (k : Nat) (hk : k < M.length / 2) :
    rowAt (mapToState M) (M.length / 2 + k) = rowAt M (2 * k) := by
  rw [rowAt_eq]
  unfold mapToState
  rw [List.getElem?_append_right (by simp)]
  simp [hk]

theorem rowAt_stateToMap_even (T : List Pauli) (k : Nat) (hk : k < T.length / 2) :
    rowAt (stateToMap T) (2 * k) = rowAt T (T.length / 2 + k) := by
  rw [rowAt_eq]; unfold stateToMap
  rw [(getElem?_flatMap2 _ _ _ k hk).1]; rfl

theorem rowAt_stateToMap_odd (T : List Pauli) (k : Nat) (hk : k < T.length / 2) :
    rowAt (stateToMap T) (2 * k + 1) = rowAt T k := by
  rw [rowAt_eq]; unfold stateToMap
  rw [(getElem?_flatMap2 _ _ _ k hk).2]; rfl

/-- two lists of the same length with the same `rowAt` at every index are equal -/
theorem ext_rowAt (A B : List Pauli) (hl : A.length = B.length)
    (h : ∀ i, i < A.length → rowAt A i = rowAt B i) : A = B := by
  apply List.ext_getElem hl
  intro i h1 h2
  have := h i h1
  rwa [rowAt_of_lt A i h1, rowAt_of_lt B i h2] at this

theorem stateToMap_mapToState (M : List Pauli) (n : Nat) (h : M.length = 2 * n) :
    stateToMap (mapToState M) = M := by
  have hn : M.length / 2 = n := by omega
  have hT : (mapToState M).length = 2 * n := by rw [length_mapToState, hn]
  have hTn : (mapToState M).length / 2 = n := by omega
  apply ext_rowAt
  · rw [length_stateToMap, hTn, h]
  · intro i hi
    rw [length_stateToMap, hTn] at hi
    rcases Nat.mod_two_eq_zero_or_one i with he | he
    · have : i = 2 * (i / 2) := by omega
      rw [this, rowAt_stateToMap_even _ _ (by omega), hTn, ← hn,
        rowAt_mapToState_hi _ _ (by omega)]
    · have : i = 2 * (i / 2) + 1 := by omega
      rw [this, rowAt_stateToMap_odd _ _ (by omega), rowAt_mapToState_lo _ _ (by omega)]

theorem mapToState_stateToMap (T : List Pauli) (n : Nat) (h : T.length = 2 * n) :
    mapToState (stateToMap T) = T := by
  have hn : T.length / 2 = n := by omega
  have hS : (stateToMap T).length = 2 * n := by rw [length_stateToMap, hn]
  have hSn : (stateToMap T).length / 2 = n := by omega
  apply ext_rowAt
  · rw [length_mapToState, hSn, h]
  · intro i hi
    rw [length_mapToState, hSn] at hi
    by_cases hlt : i < n
    · rw [rowAt_mapToState_lo _ _ (by omega), rowAt_stateToMap_odd _ _ (by omega)]
    · have : i = (stateToMap T).length / 2 + (i - n) := by omega
      rw [this, rowAt_mapToState_hi _ _ (by omega), rowAt_stateToMap_even _ _ (by omega), hSn, hn]

/-! ## rows of the identity map, exactly -/

theorem length_idRows (n m : Nat) : (idRows n m).length = 2 * m := by
  induction m with
  | zero => rfl
  | succ m ih => simp [idRows, ih]; omega

theorem rowAt_idRows (n m k : Nat) (hk : k < m) :
    rowAt (idRows n m) (2 * k) = ⟨unitX n k, 0⟩ ∧ rowAt (idRows n m) (2 * k + 1) = ⟨unitZ n k, 0⟩ := by
  induction m with
  | zero => omega
  | succ m ih =>
    rw [rowAt_eq, rowAt_eq]
    simp only [idRows]
    by_cases hi : k < m
    · have := ih hi
      rw [rowAt_eq, rowAt_eq] at this
      rw [List.getElem?_append_left (by rw [length_idRows]; omega),
        List.getElem?_append_left (by rw [length_idRows]; omega)]
      exact this
    · have : k = m := by omega
      subst this
      rw [List.getElem?_append_right (by rw [length_idRows]; omega),
        List.getElem?_append_right (by rw [length_idRows]; omega), length_idRows]
      simp

theorem rowAt_idMap_X (n k : Nat) (hk : k < n) : rowAt (idMap n) (2 * k) = ⟨unitX n k, 0⟩ :=
  (rowAt_idRows n n k hk).1
theorem rowAt_idMap_Z (n k : Nat) (hk : k < n) : rowAt (idMap n) (2 * k + 1) = ⟨unitZ n k, 0⟩ :=
  (rowAt_idRows n n k hk).2

theorem idMap_half (n : Nat) : (idMap n).length / 2 = n := by rw [length_idMap]; omega

theorem length_zeroState_rows (n : Nat) : (zeroState n).rows.length = 2 * n := by
  show (mapToState (idMap n)).length = 2 * n
  rw [length_mapToState, idMap_half]

theorem rowAt_zeroState_lo (n k : Nat) (hk : k < n) : rowAt (zeroState n).rows k = ⟨unitZ n k, 0⟩ := by
  show rowAt (mapToState (idMap n)) k = _
  rw [rowAt_mapToState_lo _ _ (by rw [idMap_half]; exact hk), rowAt_idMap_Z n k hk]

theorem rowAt_zeroState_hi (n k : Nat) (hk : k < n) : rowAt (zeroState n).rows (n + k) = ⟨unitX n k, 0⟩ := by
  show rowAt (mapToState (idMap n)) (n + k) = _
  have := rowAt_mapToState_hi (idMap n) k (by rw [idMap_half]; exact hk)
  rw [idMap_half] at this
  rw [this, rowAt_idMap_X n k hk]

/-! ## `stabilizer_state` rejects anticommuting stabilizers -/

theorem acqMat_any (gs : List PStr) (i j : Nat) (hi : i < gs.length) (hj : j < gs.length)
    (h : acq gs[i] gs[j] = 1) : ((acqMat gs).any fun row => row.any (· != 0)) = true := by
  rw [List.any_eq_true]
  refine ⟨gs.map fun b => acq gs[i] b, ?_, ?_⟩
  · unfold acqMat
    exact List.mem_map.2 ⟨gs[i], List.getElem_mem hi, rfl⟩
  · rw [List.any_eq_true]
    refine ⟨acq gs[i] gs[j], List.mem_map.2 ⟨gs[j], List.getElem_mem hj, rfl⟩, ?_⟩
    rw [h]; decide

/-! ## `allBits` -/

theorem length_allBits (w : Nat) : (allBits w).length = 2 ^ w := by
  induction w with
  | zero => rfl
  | succ w ih => simp [allBits, ih]; omega

theorem mem_allBits (w : Nat) : ∀ c : List Bool, c.length = w ↔ c ∈ allBits w := by
  induction w with
  | zero => intro c; simp [allBits]
  | succ w ih =>
    intro c
    simp only [allBits, List.mem_append, List.mem_map]
    constructor
    · intro h
      cases c with
      | nil => simp at h
      | cons b cs =>
        have hcs : cs ∈ allBits w := (ih cs).1 (by simpa using h)
        cases b
        · exact Or.inl ⟨cs, hcs, rfl⟩
        · exact Or.inr ⟨cs, hcs, rfl⟩
    · rintro (⟨cs, hcs, rfl⟩ | ⟨cs, hcs, rfl⟩) <;> simp [(ih cs).2 hcs]

theorem nodup_allBits (w : Nat) : (allBits w).Nodup := by
  induction w with
  | zero => simp [allBits]
  | succ w ih =>
    simp only [allBits]
    rw [List.nodup_append]
    refine ⟨List.Pairwise.map (fun x => false :: x) (fun a b h => by simpa using h) ih,
      List.Pairwise.map (fun x => true :: x) (fun a b h => by simpa using h) ih, ?_⟩
    intro a ha b hb
    obtain ⟨x, _, rfl⟩ := List.mem_map.1 ha
    obtain ⟨y, _, rfl⟩ := List.mem_map.1 hb
    simp

/-! ## independence of the active rows -/

theorem combineAux_replicate_false (k : Nat) : ∀ (rows : List Pauli) (acc : Pauli),
    combineAux (List.replicate k false) rows acc = acc := by
  induction k with
  | zero => intro rows acc; exact combineAux_nil_left rows acc
  | succ k ih =>
    intro rows acc
    cases rows with
    | nil => exact combineAux_nil_right _ acc
    | cons r rs => rw [List.replicate_succ, combineAux_cons]; exact ih rs acc

/-- rows commuting with `D` do not change the commutation of the accumulator with `D` -/
theorem acq_combineAux_commute (n : Nat) (D : PStr) : ∀ (c : List Bool) (rows : List Pauli) (acc : Pauli),
    (∀ R ∈ rows, R.g.length = n) → acc.g.length = n → (∀ R ∈ rows, acq R.g D = 0) →
    acq (combineAux c rows acc).g D = acq acc.g D := by
  intro c rows
  induction rows generalizing c with
  | nil => intro acc _ _ _; rw [combineAux_nil_right]
  | cons R rs ih =>
    intro acc hl ha hD
    cases c with
    | nil => rw [combineAux_nil_left]
    | cons b cs =>
      rw [combineAux_cons]
      have hR : R.g.length = n := hl R (by simp)
      have hrs : ∀ R ∈ rs, R.g.length = n := fun R h => hl R (by simp [h])
      have hDs : ∀ R ∈ rs, acq R.g D = 0 := fun R h => hD R (by simp [h])
      cases b with
      | false => exact ih cs acc hrs ha hDs
      | true =>
        rw [if_pos rfl, ih cs (mul acc R) hrs (by rw [length_mul _ _ (ha.trans hR.symm)]; exact ha) hDs,
          mul_g, acq_xorS_left _ _ _ (ha.trans hR.symm), hD R (by simp)]
        have := acq_bit acc.g D
        omega

/-- if exactly row `a` anticommutes with `D`, the combination anticommutes with `D` iff row `a` is selected -/
theorem acq_combineAux_pick (n : Nat) (D : PStr) : ∀ (rows : List Pauli) (a : Nat) (c : List Bool) (acc : Pauli),
    (∀ R ∈ rows, R.g.length = n) → acc.g.length = n → a < rows.length → c.length = rows.length →
    (∀ k, k < rows.length → acq (rowAt rows k).g D = if k = a then 1 else 0) →
    acq (combineAux c rows acc).g D = (acq acc.g D + b2i (c.getD a false)) % 2 := by
  intro rows
  induction rows with
  | nil => intro a c acc _ _ h; simp at h
  | cons R rs ih =>
    intro a c acc hl ha hlt hc hD
    cases c with
    | nil => simp at hc
    | cons b cs =>
      rw [combineAux_cons]
      have hR : R.g.length = n := hl R (by simp)
      have hrs : ∀ R ∈ rs, R.g.length = n := fun R h => hl R (by simp [h])
      have hcs : cs.length = rs.length := by simpa using hc
      have hacc' : (if b = true then mul acc R else acc).g.length = n := by
        cases b
        · simpa using ha
        · rw [if_pos rfl, length_mul _ _ (ha.trans hR.symm)]; exact ha
      have hbit := acq_bit acc.g D
      cases a with
      | zero =>
        have hR1 : acq R.g D = 1 := by
          have := hD 0 (by simp)
          rwa [rowAt_cons_zero, if_pos rfl] at this
        have hDs : ∀ R' ∈ rs, acq R'.g D = 0 := by
          intro R' hR'
          obtain ⟨k, hk, rfl⟩ := List.getElem_of_mem hR'
          have := hD (k + 1) (by simp; omega)
          rw [rowAt_cons_succ, rowAt_of_lt rs k hk] at this
          simpa using this
        rw [acq_combineAux_commute n D cs rs _ hrs hacc' hDs]
        cases b
        · simp [b2i]; omega
        · rw [if_pos rfl, mul_g, acq_xorS_left _ _ _ (ha.trans hR.symm), hR1]; simp [b2i]
      | succ a =>
        have hR0 : acq R.g D = 0 := by
          have := hD 0 (by simp)
          rw [rowAt_cons_zero] at this
          simpa using this
        have hDs : ∀ k, k < rs.length → acq (rowAt rs k).g D = if k = a then 1 else 0 := by
          intro k hk
          have := hD (k + 1) (by simp; omega)
          rw [rowAt_cons_succ] at this
          simpa using this
        rw [ih a cs _ hrs hacc' (by simpa using hlt) hcs hDs]
        have : (b :: cs).getD (a + 1) false = cs.getD a false := by simp
        rw [this]
        cases b
        · simp
        · rw [if_pos rfl, mul_g, acq_xorS_left _ _ _ (ha.trans hR.symm), hR0]; omega

theorem tabInv_N (st : State) (n : Nat) (h : TabInv st n) : st.N = n := by
  unfold State.N; rw [h.1]; omega

theorem length_active (st : State) (n : Nat) (h : TabInv st n) : st.active.length = n - st.r := by
  unfold State.active
  rw [tabInv_N st n h]
  simp [h.1]; omega

theorem rowAt_active (st : State) (n : Nat) (h : TabInv st n) (k : Nat) (hk : k < n - st.r) :
    rowAt st.active k = rowAt st.rows (st.r + k) := by
  rw [rowAt_eq, rowAt_eq]
  unfold State.active
  rw [tabInv_N st n h, List.getElem?_drop, List.getElem?_take_of_lt (by omega)]

theorem active_rows_length (st : State) (n : Nat) (h : TabInv st n) : ∀ R ∈ st.active, R.g.length = n := by
  intro R hR
  exact h.2.2.1 R (List.mem_of_mem_take (List.mem_of_mem_drop hR))

/-- the partner (destabilizer) of active row `a` reads off bit `a` of the selector -/
theorem acq_combine_partner (st : State) (n : Nat) (h : TabInv st n) (c : List Bool) (hc : c.length = n - st.r)
    (a : Nat) (ha : a < n - st.r) :
    acq (combine st.N c st.active).g (rowAt st.rows (n + st.r + a)).g = b2i (c.getD a false) := by
  have hlen := length_active st n h
  unfold combine
  rw [acq_combineAux_pick n _ st.active a c ⟨idStr st.N, 0⟩ (active_rows_length st n h)
    (by rw [tabInv_N st n h]; exact length_idStr n) (by rw [hlen]; exact ha) (by rw [hlen, hc])]
  · rw [acq_idStr_left]
    cases c.getD a false <;> simp [b2i]
  · intro k hk
    rw [hlen] at hk
    rw [rowAt_active st n h k hk, h.2.2.2.1 (st.r + k) (n + st.r + a) (by omega) (by omega)]
    by_cases hka : k = a
    · subst hka; rw [if_pos (Or.inl (by omega)), if_pos rfl]
    · rw [if_neg (by omega), if_neg hka]

theorem combine_injective (st : State) (n : Nat) (h : TabInv st n) (c d : List Bool)
    (hc : c.length = n - st.r) (hd : d.length = n - st.r)
    (he : (combine st.N c st.active).g = (combine st.N d st.active).g) : c = d := by
  apply List.ext_getElem (hc.trans hd.symm)
  intro a h1 h2
  have ha : a < n - st.r := by rw [← hc]; exact h1
  have e1 := acq_combine_partner st n h c hc a ha
  have e2 := acq_combine_partner st n h d hd a ha
  rw [he, e2] at e1
  have hc' : c.getD a false = c[a] := by simp [h1]
  have hd' : d.getD a false = d[a] := by simp [h2]
  rw [hc', hd'] at e1
  revert e1
  cases c[a] <;> cases d[a] <;> simp [b2i]

theorem combine_all_false (N k : Nat) (rows : List Pauli) :
    combine N (List.replicate k false) rows = ⟨idStr N, 0⟩ :=
  combineAux_replicate_false k rows _

end St
end PC
