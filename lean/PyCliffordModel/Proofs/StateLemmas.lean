import PyCliffordModel.Proofs.Compose
import PyCliffordModel.Spec.Tableau
/-! # Proofs/StateLemmas — helper lemmas for C12/C19 (map/state conversion, constructors, independence of the active rows) -/
namespace PC

end PC
