import PyCliffordModel.Proofs.Z2Inv
import PyCliffordModel.Proofs.Rotate
import PyCliffordModel.Spec.Rank
/-! # Proofs/RankLemmas — `z2rank` computes the GF(2) rank (kernel counting through the elimination)

Layout:
* §1 `allBits m` is a duplicate-free complete enumeration of the bit lists of length `m`; counting `cnt`;
     an involution of the length-`m` lists does not change a count (`cnt_invol`);
* §2 the kernel predicate at function level (`kerB`), the bridge from `kernelCount`, and its invariance under an
     involutive row operation (`cnt_rowop`: `c ↦ c·E` is the bijection between the two kernels);
* §3 the loop invariant `RInv` of `z2rankAux` (pivot columns recorded, zeros below them, rows `≥ r` zero on the
     columns already passed), preserved by the three branches;
* §4 the kernel of an echelon matrix (`cnt_final`), the loop theorem, bounds on the result.
-/
namespace PC
namespace Rank
open Z2

/-! ## §1 `allBits` -/

theorem length_allBits (m : Nat) : (allBits m).length = 2 ^ m := by
  induction m with
  | zero => rfl
  | succ m ih => simp only [allBits, List.length_append, List.length_map, ih, Nat.pow_succ]; omega

theorem mem_allBits (m : Nat) (c : List Bool) : c ∈ allBits m ↔ c.length = m := by
  induction m generalizing c with
  | zero => simp [allBits]
  | succ m ih =>
    simp only [allBits, List.mem_append, List.mem_map]
    constructor
    · rintro (⟨d, hd, rfl⟩ | ⟨d, hd, rfl⟩) <;> simp [(ih d).mp hd]
    · intro h
      cases c with
      | nil => simp at h
      | cons b t =>
        have ht : t ∈ allBits m := (ih t).mpr (by simpa using h)
        cases b
        · exact Or.inl ⟨t, ht, rfl⟩
        · exact Or.inr ⟨t, ht, rfl⟩

theorem nodup_allBits (m : Nat) : (allBits m).Nodup := by
  induction m with
  | zero => simp [allBits]
  | succ m ih =>
    simp only [allBits]
    rw [List.nodup_append]
    refine ⟨?_, ?_, ?_⟩
    · exact List.pairwise_map.mpr (ih.imp (fun h e => h (by simpa using e)))
    · exact List.pairwise_map.mpr (ih.imp (fun h e => h (by simpa using e)))
    · intro a ha b hb e
      simp only [List.mem_map] at ha hb
      obtain ⟨x, _, rfl⟩ := ha
      obtain ⟨y, _, rfl⟩ := hb
      simp at e

/-- an involution of the length-`m` bit lists permutes `allBits m` -/
theorem map_perm_allBits (m : Nat) (f : List Bool → List Bool)
    (hlen : ∀ c, c.length = m → (f c).length = m)
    (hinv : ∀ c, c.length = m → f (f c) = c) : ((allBits m).map f).Perm (allBits m) := by
  apply (List.perm_ext_iff_of_nodup ?_ (nodup_allBits m)).mpr
  · intro c
    simp only [List.mem_map, mem_allBits]
    constructor
    · rintro ⟨d, hd, rfl⟩; exact hlen d hd
    · intro hc; exact ⟨f c, hlen c hc, hinv c hc⟩
  · rw [List.Nodup, List.pairwise_map]
    refine (nodup_allBits m).imp_of_mem ?_
    intro a b ha hb hne e
    apply hne
    rw [← hinv a ((mem_allBits m a).mp ha), ← hinv b ((mem_allBits m b).mp hb), e]

/-- number of length-`m` bit lists satisfying `p` -/
def cnt (m : Nat) (p : List Bool → Bool) : Nat := ((allBits m).filter p).length

theorem cnt_congr (m : Nat) (p q : List Bool → Bool) (h : ∀ c, c.length = m → p c = q c) : cnt m p = cnt m q := by
  unfold cnt
  rw [List.filter_congr (fun c hc => h c ((mem_allBits m c).mp hc))]

theorem cnt_invol (m : Nat) (p : List Bool → Bool) (f : List Bool → List Bool)
    (hlen : ∀ c, c.length = m → (f c).length = m)
    (hinv : ∀ c, c.length = m → f (f c) = c) : cnt m (p ∘ f) = cnt m p := by
  unfold cnt
  have := ((map_perm_allBits m f hlen hinv).filter p).length_eq
  rw [List.filter_map, List.length_map] at this
  exact this

/-- the first `r` entries vanish -/
def leadZero (r : Nat) (c : List Bool) : Bool := (c.take r).all (· == false)

theorem leadZero_iff (r : Nat) (c : List Bool) :
    leadZero r c = true ↔ ∀ j, j < r → c.getD j false = false := by
  induction r generalizing c with
  | zero => simp [leadZero]
  | succ r ih =>
    cases c with
    | nil => simp [leadZero]
    | cons b t =>
      have : leadZero (r + 1) (b :: t) = ((b == false) && leadZero r t) := by simp [leadZero]
      rw [this, Bool.and_eq_true, ih]
      constructor
      · rintro ⟨hb, ht⟩ j hj
        cases j with
        | zero => simpa using hb
        | succ j => simpa using ht j (by omega)
      · intro h
        exact ⟨by simpa using h 0 (by omega), fun j hj => by simpa using h (j + 1) (by omega)⟩

theorem cnt_leadZero (r m : Nat) (h : r ≤ m) : cnt m (leadZero r) = 2 ^ (m - r) := by
  induction r generalizing m with
  | zero =>
    have : leadZero 0 = fun _ => true := by funext c; simp [leadZero]
    unfold cnt
    rw [this, List.filter_eq_self.mpr (fun _ _ => rfl), length_allBits]; rfl
  | succ r ih =>
    cases m with
    | zero => omega
    | succ m =>
      have e1 : (leadZero (r + 1) ∘ fun x => false :: x) = leadZero r := by funext c; simp [leadZero]
      have e2 : (leadZero (r + 1) ∘ fun x => true :: x) = fun _ => false := by funext c; simp [leadZero]
      have := ih m (by omega)
      unfold cnt at this ⊢
      simp only [allBits, List.filter_append, List.filter_map, List.length_append, List.length_map, e1, e2, this]
      simp

/-! ## §2 the kernel predicate -/

/-- a bit list as a matrix all of whose rows are the list -/
def cvec (c : List Bool) : Mat := fun _ k => c.getD k false

/-- `c·a = 0` on the columns `< nc`, for `m` rows -/
def kerB (m nc : Nat) (a : Mat) (c : List Bool) : Bool :=
  (List.range nc).all fun j => mmul m (cvec c) a 0 j == false

theorem kerB_iff (m nc : Nat) (a : Mat) (c : List Bool) :
    kerB m nc a c = true ↔ ∀ j, j < nc → mmul m (cvec c) a 0 j = false := by
  simp [kerB]

theorem kernelCount_eq (A : BMat) (nc : Nat) : kernelCount A nc = cnt A.length (kerB A.length nc A.get) := by
  unfold kernelCount cnt
  congr 1
  apply List.filter_congr
  intro c hc
  have hl := (mem_allBits _ _).mp hc
  simp only [isZeroVec, vecMat, kerB, List.all_map]
  congr 1
  funext j
  simp only [Function.comp]
  rw [dotB_eq_xsum c (colB A j) A.length (by omega)]
  simp only [mmul, cvec, getD_colB]

/-- `c·E` as a list of length `m` -/
def vmul (m : Nat) (E : Mat) (c : List Bool) : List Bool := (List.range m).map fun l => mmul m (cvec c) E 0 l

theorem length_vmul (m : Nat) (E : Mat) (c : List Bool) : (vmul m E c).length = m := by simp [vmul]

theorem cvec_vmul (m : Nat) (E : Mat) (c : List Bool) (r l : Nat) (hl : l < m) :
    cvec (vmul m E c) r l = mmul m (cvec c) E 0 l := by
  simp only [cvec, vmul, List.getD_eq_getElem?_getD, List.getElem?_map, List.getElem?_range hl, Option.map_some,
    Option.getD_some]

theorem kerB_rowop (m nc : Nat) (a a' E : Mat) (h : ∀ r, r < m → ∀ c, a' r c = mmul m E a r c) (c : List Bool) :
    kerB m nc a' c = kerB m nc a (vmul m E c) := by
  unfold kerB
  congr 1
  funext j
  congr 1
  rw [mmul_congr_right m _ a' (mmul m E a) 0 j (fun k hk => h k hk j), ← mmul_assoc]
  apply mmul_congr_left
  intro k hk
  rw [cvec_vmul m E c 0 k hk]

theorem vmul_invol (m : Nat) (E : Mat) (hE : ∀ r, r < m → ∀ c, c < m → mmul m E E r c = ident r c)
    (c : List Bool) (hc : c.length = m) : vmul m E (vmul m E c) = c := by
  apply List.ext_getElem (by rw [length_vmul, hc])
  intro l h1 h2
  have hl : l < m := by rw [← hc]; exact h2
  have e1 : (vmul m E (vmul m E c))[l] = mmul m (cvec (vmul m E c)) E 0 l := by
    simp only [vmul, List.getElem_map, List.getElem_range]
  rw [e1, mmul_congr_left m _ (mmul m (cvec c) E) E 0 l (fun k hk => cvec_vmul m E c 0 k hk), mmul_assoc,
    mmul_congr_right m _ _ ident 0 l (fun k hk => hE k hk l hl), mmul_ident_right m _ 0 l hl]
  simp [cvec, List.getD_eq_getElem?_getD, List.getElem?_eq_getElem h2]

/-- an involutive row operation does not change the number of vanishing row combinations -/
theorem cnt_rowop (m nc : Nat) (a a' E : Mat)
    (hE : ∀ r, r < m → ∀ c, c < m → mmul m E E r c = ident r c)
    (h : ∀ r, r < m → ∀ c, a' r c = mmul m E a r c) : cnt m (kerB m nc a') = cnt m (kerB m nc a) := by
  have : kerB m nc a' = kerB m nc a ∘ vmul m E := funext (kerB_rowop m nc a a' E h)
  rw [this]
  exact cnt_invol m _ _ (fun c _ => length_vmul m E c) (vmul_invol m E hE)

/-! ## §3 the loop invariant of `z2rankAux` -/

/-- at column `i` with `r` pivots found: every row `j < r` has a recorded pivot column `p < i` holding `1` with
    zeros below it, and the rows `≥ r` vanish on the columns `< i` -/
structure RInv (m nc i r : Nat) (a : BMat) : Prop where
  shape : Shape a m nc
  rle : r ≤ m
  piv : ∀ j, j < r → ∃ p, p < i ∧ a.get j p = true ∧ ∀ j', j < j' → j' < m → a.get j' p = false
  zero : ∀ j, r ≤ j → j < m → ∀ c, c < i → a.get j c = false

theorem shape_of_isMat (A : BMat) (nr nc : Nat) (h : IsMat A nr nc) : Shape A nr nc := by
  refine ⟨h.1, fun j hj => ?_⟩
  have hj' : j < A.length := by rw [h.1]; exact hj
  have : A.getD j [] = A[j] := by simp [List.getD_eq_getElem?_getD, List.getElem?_eq_getElem hj']
  rw [this]; exact h.2 _ (List.getElem_mem hj')

theorem rinv_init (A : BMat) (nr nc : Nat) (h : IsMat A nr nc) : RInv nr nc 0 0 A :=
  ⟨shape_of_isMat A nr nc h, Nat.zero_le _, fun j hj => by omega, fun j _ _ c hc => by omega⟩

theorem rank_elim_step (m nc i r : Nat) (a : BMat) (hr : r < m) (h : RInv m nc i r a) (hd : a.get r i = true) :
    RInv m nc (i + 1) (r + 1) (elimBelow i r a) ∧
      cnt m (kerB m nc (elimBelow i r a).get) = cnt m (kerB m nc a.get) := by
  have hrow : (a.getD r []).length = nc := h.shape.2 r hr
  have pm : ∀ c, c < i → a.get r c = false := fun c hc => h.zero r (Nat.le_refl _) hr c hc
  have full : ∀ j c, (elimBelow i r a).get j c = (a.get j c != ((decide (r < j) && a.get j i) && a.get r c)) := by
    intro j c
    rw [elimBelow_eq, get_elimP _ _ _ _ m nc h.shape hrow]
    show (a.get j c != (decide (r < j) && a.get j i && decide (i ≤ c) && a.get r c)) = _
    by_cases hc : i ≤ c
    · simp [hc]
    · rw [pm c (by omega)]; simp
  refine ⟨⟨?_, by omega, ?_, ?_⟩, ?_⟩
  · rw [elimBelow_eq]; exact shape_elimP _ _ _ _ m nc h.shape hrow
  · intro j hj
    by_cases e : j = r
    · subst e
      refine ⟨i, by omega, ?_, ?_⟩
      · rw [full]; simp [hd]
      · intro j' h1 h2
        rw [full, hd]
        have : decide (j < j') = true := by simpa using h1
        rw [this]; cases a.get j' i <;> rfl
    · obtain ⟨p, hp, h1, h2⟩ := h.piv j (by omega)
      refine ⟨p, by omega, ?_, ?_⟩
      · rw [full]
        have : decide (r < j) = false := by simp; omega
        rw [this, h1]; rfl
      · intro j' h3 h4
        rw [full, h2 j' h3 h4, h2 r (by omega) hr]; simp
  · intro j hj1 hj2 c hc
    rw [full]
    by_cases e : c = i
    · subst e
      have : decide (r < j) = true := by simp; omega
      rw [this, hd]; cases a.get j c <;> rfl
    · rw [h.zero j (by omega) hj2 c (by omega), pm c (by omega)]; simp
  · apply cnt_rowop m nc a.get _ (addE (fun j => decide (r < j) && a.get j i) r)
      (fun x hx c _ => addE_invol m _ r hr (by simp) x c hx)
    intro x hx c
    rw [full, mmul_addE m _ r _ x c hx hr]

theorem rank_swap_step (m nc i r k : Nat) (a : BMat) (hrk : r < k) (hk : k < m) (h : RInv m nc i r a) :
    RInv m nc i r (swapFrom i r k a) ∧
      cnt m (kerB m nc (swapFrom i r k a).get) = cnt m (kerB m nc a.get) ∧
      (swapFrom i r k a).get r i = a.get k i := by
  have hr : r < m := by omega
  have pm : ∀ c, c < i → a.get r c = false := fun c hc => h.zero r (Nat.le_refl _) hr c hc
  have pk : ∀ c, c < i → a.get k c = false := fun c hc => h.zero k (by omega) hk c hc
  have full : ∀ j c, (swapFrom i r k a).get j c = a.get (swapσ r k j) c := by
    intro j c
    rw [get_swapFrom i r k a m nc h.shape hr hk]
    unfold swapσ
    by_cases hc : i ≤ c
    · simp only [hc, if_true]
      split
      · rfl
      · split <;> rfl
    · simp only [hc, if_false]
      split
      · next e => rw [e, pm c (by omega), pk c (by omega)]
      · split
        · next e => rw [e, pm c (by omega), pk c (by omega)]
        · rfl
  refine ⟨⟨?_, h.rle, ?_, ?_⟩, ?_, ?_⟩
  · exact shape_swapFrom i r k a m nc h.shape hr hk
  · intro j hj
    obtain ⟨p, hp, h1, h2⟩ := h.piv j hj
    refine ⟨p, hp, ?_, ?_⟩
    · rw [full]
      have : swapσ r k j = j := by unfold swapσ; rw [if_neg (by omega), if_neg (by omega)]
      rw [this]; exact h1
    · intro j' h3 h4
      rw [full]
      unfold swapσ; split
      · exact h2 r (by omega) hr
      · split
        · exact h2 k (by omega) hk
        · exact h2 j' h3 h4
  · intro j hj1 hj2 c hc
    rw [full]
    unfold swapσ; split
    · exact pm c hc
    · split
      · exact pk c hc
      · exact h.zero j hj1 hj2 c hc
  · apply cnt_rowop m nc a.get _ (swapE r k) (fun x hx c _ => swapE_invol m r k hr hk x c hx)
    intro x hx c
    rw [full, mmul_swapE m r k _ x c hr hk hx]
  · rw [full]
    have : swapσ r k r = k := by unfold swapσ; rw [if_neg (by omega), if_pos rfl]
    rw [this]

theorem rank_skip_step (m nc i r : Nat) (a : BMat) (h : RInv m nc i r a)
    (hz : ∀ j, r ≤ j → j < m → a.get j i = false) : RInv m nc (i + 1) r a := by
  refine ⟨h.shape, h.rle, ?_, ?_⟩
  · intro j hj
    obtain ⟨p, hp, h1, h2⟩ := h.piv j hj
    exact ⟨p, by omega, h1, h2⟩
  · intro j hj1 hj2 c hc
    by_cases e : c = i
    · subst e; exact hz j hj1 hj2
    · exact h.zero j hj1 hj2 c (by omega)

/-! ## §4 the kernel of an echelon matrix; the loop -/

theorem cnt_final (m nc i r : Nat) (a : BMat) (h : RInv m nc i r a) (hi : i ≤ nc)
    (hz : ∀ j, r ≤ j → j < m → ∀ c, c < nc → a.get j c = false) :
    cnt m (kerB m nc a.get) = 2 ^ (m - r) := by
  rw [← cnt_leadZero r m h.rle]
  apply cnt_congr
  intro c _
  rw [Bool.eq_iff_iff, kerB_iff, leadZero_iff]
  constructor
  · intro hk j
    induction j using Nat.strongRecOn with
    | _ j ih =>
      intro hj
      obtain ⟨p, hp, h1, h2⟩ := h.piv j hj
      have hm := h.rle
      have := hk p (by omega)
      simp only [mmul] at this
      rw [xsum_single _ j m (by omega) (fun k hk' hne => by
        by_cases hkj : k < j
        · simp only [cvec]; rw [ih k hkj (by omega)]; rfl
        · rw [h2 k (by omega) hk']; simp)] at this
      simpa [cvec, h1] using this
  · intro hz' j hj
    simp only [mmul]
    apply xsum_false
    intro k hk
    by_cases hkr : k < r
    · simp only [cvec]; rw [hz' k hkr]; rfl
    · rw [hz k (by omega) hk j hj]; simp

theorem rank_loop (m nc : Nat) (fuel : Nat) : ∀ (i r : Nat) (a : BMat), i + fuel = nc → RInv m nc i r a →
    cnt m (kerB m nc a.get) = 2 ^ (m - z2rankAux m fuel i r a) := by
  induction fuel with
  | zero =>
    intro i r a hi h
    simp only [z2rankAux]
    exact cnt_final m nc i r a h (by omega) (fun j h1 h2 c hc => h.zero j h1 h2 c (by omega))
  | succ fuel ih =>
    intro i r a hi h
    by_cases hrm : r = m
    · have e0 : z2rankAux m (fuel + 1) i r a = r := by simp only [z2rankAux, hrm, if_true]
      rw [e0]
      exact cnt_final m nc i r a h (by omega) (fun j h1 h2 c hc => by omega)
    · have hr : r < m := by have := h.rle; omega
      by_cases hd : a.get r i = true
      · have st := rank_elim_step m nc i r a hr h hd
        have e0 : z2rankAux m (fuel + 1) i r a = z2rankAux m fuel (i + 1) (r + 1) (elimBelow i r a) := by
          simp only [z2rankAux, hrm, hd, if_true, if_false]
        rw [e0, ← st.2]
        exact ih _ _ _ (by omega) st.1
      · cases hf : findPivot a i (r + 1) (m - (r + 1)) with
        | none =>
          have e0 : z2rankAux m (fuel + 1) i r a = z2rankAux m fuel (i + 1) r a := by
            simp only [z2rankAux, hrm, hd, hf, if_false]; rfl
          rw [e0]
          refine ih _ _ _ (by omega) (rank_skip_step m nc i r a h (fun j h1 h2 => ?_))
          by_cases e : j = r
          · subst e; simpa using hd
          · exact findPivot_none a i (r + 1) _ hf j (by omega) (by omega)
        | some k =>
          have e0 : z2rankAux m (fuel + 1) i r a =
              z2rankAux m fuel (i + 1) (r + 1) (elimBelow i r (swapFrom i r k a)) := by
            simp only [z2rankAux, hrm, hd, hf, if_false]; rfl
          rw [e0]
          have hk := findPivot_some a i (r + 1) _ k hf
          have s1 := rank_swap_step m nc i r k a (by omega) (by omega) h
          have st := rank_elim_step m nc i r _ hr s1.1 (by rw [s1.2.2]; exact hk.2.2)
          rw [← s1.2.1, ← st.2]
          exact ih _ _ _ (by omega) st.1

/-- the rank grows by at most one per column -/
theorem z2rankAux_le_add (nr fuel : Nat) : ∀ (i r : Nat) (a : BMat), z2rankAux nr fuel i r a ≤ r + fuel := by
  induction fuel with
  | zero => intro i r a; simp [z2rankAux]
  | succ fuel ih =>
    intro i r a
    simp only [z2rankAux]
    split
    · omega
    · split
      · have := ih (i + 1) (r + 1) (elimBelow i r a); omega
      · split
        · next k _ => have := ih (i + 1) (r + 1) (elimBelow i r (swapFrom i r k a)); omega
        · have := ih (i + 1) r a; omega

/-- the rank never exceeds the number of rows -/
theorem z2rankAux_le_rows (nr fuel : Nat) : ∀ (i r : Nat) (a : BMat), r ≤ nr → z2rankAux nr fuel i r a ≤ nr := by
  induction fuel with
  | zero => intro i r a h; simpa [z2rankAux] using h
  | succ fuel ih =>
    intro i r a h
    simp only [z2rankAux]
    split
    · omega
    · split
      · exact ih (i + 1) (r + 1) _ (by omega)
      · split
        · exact ih (i + 1) (r + 1) _ (by omega)
        · exact ih (i + 1) r a h

theorem z2rank_kernel (A : BMat) (nr nc : Nat) (hA : IsMat A nr nc) :
    z2rank A nc ≤ nr ∧ kernelCount A nc = 2 ^ (nr - z2rank A nc) := by
  have hl : A.length = nr := hA.1
  refine ⟨?_, ?_⟩
  · unfold z2rank; rw [hl]; exact z2rankAux_le_rows nr nc 0 0 A (Nat.zero_le _)
  · rw [kernelCount_eq]
    unfold z2rank
    rw [hl]
    exact rank_loop nr nc nc 0 0 A (by omega) (rinv_init A nr nc hA)

theorem z2rank_le_cols (A : BMat) (nc : Nat) : z2rank A nc ≤ nc := by
  unfold z2rank
  have := z2rankAux_le_add A.length nc 0 0 A
  omega

/-! ## small facts for the entropy statements -/

theorem length_flat' (g : PStr) : (flat g).length = 2 * g.length := by
  induction g with
  | nil => rfl
  | cons q qs ih => simp only [flat, List.length_cons, ih]; omega

theorem gather_replicate_false (n : Nat) (g : PStr) : gather (List.replicate n false) g = [] := by
  induction n generalizing g with
  | zero => exact gather_nil_left g
  | succ n ih =>
    cases g with
    | nil => exact gather_nil_right _
    | cons q qs => rw [List.replicate_succ, gather_cons_false, ih]

theorem maskCount_replicate_false (n : Nat) : maskCount (List.replicate n false) = 0 := by
  induction n with
  | zero => rfl
  | succ n ih => rw [List.replicate_succ, maskCount_cons_false, ih]

theorem maskCount_replicate_true (n : Nat) : maskCount (List.replicate n true) = n := by
  induction n with
  | zero => rfl
  | succ n ih => rw [List.replicate_succ, maskCount_cons_true, ih]

theorem foldl_max_lt (l : List Int) (x N : Int) (hx : x < N) (hl : ∀ y ∈ l, y < N) : l.foldl max x < N := by
  induction l generalizing x with
  | nil => simpa using hx
  | cons y ys ih =>
    simp only [List.foldl_cons]
    apply ih
    · have := hl y (by simp); omega
    · intro z hz; exact hl z (by simp [hz])

/-- `utils.mask` on a non-empty list of in-range natural indices -/
theorem mkMask_ofNat (qs : List Nat) (n : Nat) (h0 : qs ≠ []) (hq : ∀ q ∈ qs, q < n) :
    mkMask (qs.map Int.ofNat) n = .ok ((List.range n).map fun i => qs.contains i) := by
  cases qs with
  | nil => exact absurd rfl h0
  | cons q0 rest =>
    have hmax : ¬ ((rest.map Int.ofNat).foldl max (Int.ofNat q0) ≥ (n : Int)) := by
      have := foldl_max_lt (rest.map Int.ofNat) (Int.ofNat q0) n
        (by have := hq q0 (by simp); simp; omega)
        (by
          intro y hy
          obtain ⟨q, hq', rfl⟩ := List.mem_map.mp hy
          have := hq q (by simp [hq']); simp; omega)
      omega
    have hneg : ((q0 :: rest).map Int.ofNat).any (· < -(n : Int)) = false := by
      rw [List.any_eq_false]
      intro y hy
      obtain ⟨q, _, rfl⟩ := List.mem_map.mp hy
      simp
    have hidx : ((q0 :: rest).map Int.ofNat).map
        (fun q => Int.toNat (if q < 0 then q + (n : Int) else q)) = q0 :: rest := by
      rw [List.map_map]
      conv => rhs; rw [← List.map_id (q0 :: rest)]
      apply List.map_congr_left
      intro q _
      have : ¬ ((Int.ofNat q) < 0) := by simp
      simp only [Function.comp, if_neg this, id]
      rfl
    have e : (q0 :: rest).map Int.ofNat = Int.ofNat q0 :: rest.map Int.ofNat := rfl
    unfold mkMask
    rw [e] at hneg hidx ⊢
    simp only [if_neg hmax, hneg, hidx]
    rfl

end Rank
end PC
