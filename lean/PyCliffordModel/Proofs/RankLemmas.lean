import PyCliffordModel.Proofs.Z2Inv
import PyCliffordModel.Spec.Rank
/-! # Proofs/RankLemmas — `z2rank` computes the GF(2) rank (kernel counting through the elimination) -/
namespace PC

end PC
