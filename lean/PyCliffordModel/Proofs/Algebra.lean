import PyCliffordModel.Spec.Ket
/-! # Proofs/Algebra — helper lemmas on `xorS`, `acq`, `ipow`, `mul` (per-qubit case analysis lifted by induction) -/
namespace PC

/-! ## range facts (`%` by a positive literal) -/

theorem b2i_bit (b : Bool) : b2i b = 0 ∨ b2i b = 1 := by cases b <;> decide
theorem b2i_nonneg (b : Bool) : 0 ≤ b2i b := by cases b <;> decide
theorem b2i_le_one (b : Bool) : b2i b ≤ 1 := by cases b <;> decide
theorem b2i_true : b2i true = 1 := rfl
theorem b2i_false : b2i false = 0 := rfl

theorem p0_range (g : PStr) : 0 ≤ p0 g ∧ p0 g < 4 := by unfold p0; omega
theorem ipow_range (g h : PStr) : 0 ≤ ipow g h ∧ ipow g h < 4 := by unfold ipow; omega
theorem acq_bit (g h : PStr) : acq g h = 0 ∨ acq g h = 1 := by unfold acq; omega
theorem acq_range (g h : PStr) : 0 ≤ acq g h ∧ acq g h < 2 := by unfold acq; omega

/-! ## per-qubit facts -/

theorem xorQ_comm (a b : Q) : xorQ a b = xorQ b a := by
  obtain ⟨a1, a2⟩ := a; obtain ⟨b1, b2⟩ := b
  cases a1 <;> cases a2 <;> cases b1 <;> cases b2 <;> decide

theorem xorQ_assoc (a b c : Q) : xorQ (xorQ a b) c = xorQ a (xorQ b c) := by
  obtain ⟨a1, a2⟩ := a; obtain ⟨b1, b2⟩ := b; obtain ⟨c1, c2⟩ := c
  cases a1 <;> cases a2 <;> cases b1 <;> cases b2 <;> cases c1 <;> cases c2 <;> decide

theorem xorQ_self (a : Q) : xorQ a a = (false, false) := by
  obtain ⟨a1, a2⟩ := a
  cases a1 <;> cases a2 <;> decide

theorem xorQ_id_right (a : Q) : xorQ a (false, false) = a := by
  obtain ⟨a1, a2⟩ := a
  cases a1 <;> cases a2 <;> decide

theorem xorQ_id_left (a : Q) : xorQ (false, false) a = a := by
  obtain ⟨a1, a2⟩ := a
  cases a1 <;> cases a2 <;> decide

theorem xorQ_cancel_right (a b : Q) : xorQ (xorQ a b) b = a := by
  obtain ⟨a1, a2⟩ := a; obtain ⟨b1, b2⟩ := b
  cases a1 <;> cases a2 <;> cases b1 <;> cases b2 <;> decide

theorem acqQ_antisymm (a b : Q) : acqQ a b = - acqQ b a := by
  obtain ⟨a1, a2⟩ := a; obtain ⟨b1, b2⟩ := b
  cases a1 <;> cases a2 <;> cases b1 <;> cases b2 <;> decide

theorem acqQ_self (a : Q) : acqQ a a = 0 := by
  obtain ⟨a1, a2⟩ := a
  cases a1 <;> cases a2 <;> decide

theorem acqQ_id_right (a : Q) : acqQ a (false, false) = 0 := by
  obtain ⟨a1, a2⟩ := a
  cases a1 <;> cases a2 <;> decide

theorem acqQ_id_left (a : Q) : acqQ (false, false) a = 0 := by
  obtain ⟨a1, a2⟩ := a
  cases a1 <;> cases a2 <;> decide

theorem acqQ_xor_left (a b c : Q) : acqQ (xorQ a b) c % 2 = (acqQ a c + acqQ b c) % 2 := by
  obtain ⟨a1, a2⟩ := a; obtain ⟨b1, b2⟩ := b; obtain ⟨c1, c2⟩ := c
  cases a1 <;> cases a2 <;> cases b1 <;> cases b2 <;> cases c1 <;> cases c2 <;> decide

theorem acqQ_xor_right (a b c : Q) : acqQ a (xorQ b c) % 2 = (acqQ a b + acqQ a c) % 2 := by
  obtain ⟨a1, a2⟩ := a; obtain ⟨b1, b2⟩ := b; obtain ⟨c1, c2⟩ := c
  cases a1 <;> cases a2 <;> cases b1 <;> cases b2 <;> cases c1 <;> cases c2 <;> decide

/-- the antisymmetric part of `ipowQ` is `acqQ`: exact, not only mod 4 -/
theorem ipowQ_sub_swap (a b : Q) : ipowQ a b - ipowQ b a = 2 * acqQ a b := by
  obtain ⟨a1, a2⟩ := a; obtain ⟨b1, b2⟩ := b
  cases a1 <;> cases a2 <;> cases b1 <;> cases b2 <;> decide

/-- the 2-cocycle identity of the one-qubit phase function -/
theorem ipowQ_cocycle (a b c : Q) :
    (ipowQ a b + ipowQ (xorQ a b) c) % 4 = (ipowQ b c + ipowQ a (xorQ b c)) % 4 := by
  obtain ⟨a1, a2⟩ := a; obtain ⟨b1, b2⟩ := b; obtain ⟨c1, c2⟩ := c
  cases a1 <;> cases a2 <;> cases b1 <;> cases b2 <;> cases c1 <;> cases c2 <;> decide

theorem ipowQ_self (a : Q) : ipowQ a a % 4 = 0 := by
  obtain ⟨a1, a2⟩ := a
  cases a1 <;> cases a2 <;> decide

theorem ipowQ_id_right (a : Q) : ipowQ a (false, false) = 0 := by
  obtain ⟨a1, a2⟩ := a
  cases a1 <;> cases a2 <;> decide

theorem ipowQ_id_left (a : Q) : ipowQ (false, false) a = 0 := by
  obtain ⟨a1, a2⟩ := a
  cases a1 <;> cases a2 <;> decide

/-- `ipowQ` is a unit or zero: `-1, 0, 1` up to multiples of 4; and it has the parity of `acqQ` -/
theorem ipowQ_parity (a b : Q) : ipowQ a b % 2 = acqQ a b % 2 := by
  obtain ⟨a1, a2⟩ := a; obtain ⟨b1, b2⟩ := b
  cases a1 <;> cases a2 <;> cases b1 <;> cases b2 <;> decide

/-- `p0` of a one-qubit product: `x z` of `a ⊕ b` from `x z` of `a`, of `b`, `ipowQ` and the `Z·X` reordering sign -/
theorem p0Q_xor (a b : Q) :
    (b2i (xorQ a b).1 * b2i (xorQ a b).2 + ipowQ a b) % 4 =
      (b2i a.1 * b2i a.2 + b2i b.1 * b2i b.2 + 2 * (b2i a.2 * b2i b.1)) % 4 := by
  obtain ⟨a1, a2⟩ := a; obtain ⟨b1, b2⟩ := b
  cases a1 <;> cases a2 <;> cases b1 <;> cases b2 <;> decide

/-- one-qubit product on kets: the action of `a ⊕ b` with the phase `ipowQ a b` is `b` then `a` -/
theorem actQ_comp (a c : Q) (b : Bool) :
    (actQ (xorQ a c) b).2 = (actQ a (actQ c b).2).2 ∧
    (ipowQ a c + (actQ (xorQ a c) b).1) % 4 = ((actQ c b).1 + (actQ a (actQ c b).2).1) % 4 := by
  obtain ⟨a1, a2⟩ := a; obtain ⟨c1, c2⟩ := c
  cases a1 <;> cases a2 <;> cases b <;> cases c1 <;> cases c2 <;> decide

/-! ## `xorS` -/

theorem xorS_nil_left (b : PStr) : xorS [] b = [] := by simp [xorS]
theorem xorS_nil_right (a : PStr) : xorS a [] = [] := by cases a <;> simp [xorS]
theorem xorS_cons (a : Q) (as : PStr) (b : Q) (bs : PStr) :
    xorS (a :: as) (b :: bs) = xorQ a b :: xorS as bs := rfl

theorem length_xorS (a b : PStr) : (xorS a b).length = min a.length b.length := by
  induction a generalizing b with
  | nil => simp [xorS]
  | cons x xs ih =>
    cases b with
    | nil => simp [xorS]
    | cons y ys => simp [xorS, ih]

theorem length_xorS_eq (a b : PStr) (h : a.length = b.length) : (xorS a b).length = a.length := by
  rw [length_xorS]; omega

theorem length_xorS_eq' (a b : PStr) (h : a.length = b.length) : (xorS a b).length = b.length := by
  rw [length_xorS]; omega

theorem xorS_comm (a b : PStr) : xorS a b = xorS b a := by
  induction a generalizing b with
  | nil => simp [xorS_nil_left, xorS_nil_right]
  | cons x xs ih =>
    cases b with
    | nil => simp [xorS_nil_left, xorS_nil_right]
    | cons y ys => simp [xorS_cons, ih ys, xorQ_comm x y]

theorem xorS_assoc (a b c : PStr) : xorS (xorS a b) c = xorS a (xorS b c) := by
  induction a generalizing b c with
  | nil => simp [xorS_nil_left]
  | cons x xs ih =>
    cases b with
    | nil => simp [xorS_nil_left, xorS_nil_right]
    | cons y ys =>
      cases c with
      | nil => simp [xorS_nil_right]
      | cons z zs => simp [xorS_cons, ih, xorQ_assoc]

theorem idStr_zero : idStr 0 = [] := rfl
theorem idStr_succ (n : Nat) : idStr (n + 1) = (false, false) :: idStr n := rfl
theorem length_idStr (n : Nat) : (idStr n).length = n := by simp [idStr]

theorem xorS_self (a : PStr) : xorS a a = idStr a.length := by
  induction a with
  | nil => rfl
  | cons x xs ih => simp [xorS_cons, ih, xorQ_self, idStr_succ]

theorem xorS_idStr_right (a : PStr) : xorS a (idStr a.length) = a := by
  induction a with
  | nil => rfl
  | cons x xs ih => simp [xorS_cons, ih, xorQ_id_right, idStr_succ]

theorem xorS_idStr_left (a : PStr) : xorS (idStr a.length) a = a := by
  rw [xorS_comm, xorS_idStr_right]

/-- `xorS · b` is an involution (on strings of the length of `b`) -/
theorem xorS_cancel_right (a b : PStr) (h : a.length = b.length) : xorS (xorS a b) b = a := by
  rw [xorS_assoc, xorS_self, ← h, xorS_idStr_right]

theorem xorS_cancel_left (a b : PStr) (h : a.length = b.length) : xorS a (xorS a b) = b := by
  rw [← xorS_assoc, xorS_self, h, xorS_idStr_left]

/-! ## `acq`, `anti` -/

theorem acqSum_nil_left (b : PStr) : acqSum [] b = 0 := by simp [acqSum]
theorem acqSum_nil_right (a : PStr) : acqSum a [] = 0 := by cases a <;> simp [acqSum]
theorem acqSum_cons (a : Q) (as : PStr) (b : Q) (bs : PStr) :
    acqSum (a :: as) (b :: bs) = acqQ a b + acqSum as bs := rfl

theorem acqSum_antisymm (a b : PStr) : acqSum a b = - acqSum b a := by
  induction a generalizing b with
  | nil => simp [acqSum_nil_left, acqSum_nil_right]
  | cons x xs ih =>
    cases b with
    | nil => simp [acqSum_nil_left, acqSum_nil_right]
    | cons y ys =>
      have h1 := acqQ_antisymm x y
      have h2 := ih ys
      simp only [acqSum_cons]; omega

theorem acq_symm (a b : PStr) : acq a b = acq b a := by
  have h := acqSum_antisymm a b
  unfold acq; omega

theorem acqSum_self (a : PStr) : acqSum a a = 0 := by
  have h := acqSum_antisymm a a; omega

theorem acq_self (a : PStr) : acq a a = 0 := by
  unfold acq; rw [acqSum_self]; rfl

theorem acqSum_idStr_right (a : PStr) (n : Nat) : acqSum a (idStr n) = 0 := by
  induction a generalizing n with
  | nil => exact acqSum_nil_left _
  | cons x xs ih =>
    cases n with
    | zero => exact acqSum_nil_right _
    | succ n => simp [idStr_succ, acqSum_cons, ih, acqQ_id_right]

theorem acq_idStr_right (a : PStr) (n : Nat) : acq a (idStr n) = 0 := by
  unfold acq; rw [acqSum_idStr_right]; rfl

theorem acq_idStr_left (a : PStr) (n : Nat) : acq (idStr n) a = 0 := by
  rw [acq_symm, acq_idStr_right]

theorem acqSum_xorS_left (a b c : PStr) (h : a.length = b.length) :
    acqSum (xorS a b) c % 2 = (acqSum a c + acqSum b c) % 2 := by
  induction a generalizing b c with
  | nil =>
    cases b with
    | nil => simp [xorS_nil_left, acqSum_nil_left]
    | cons y ys => simp at h
  | cons x xs ih =>
    cases b with
    | nil => simp at h
    | cons y ys =>
      cases c with
      | nil => simp [acqSum_nil_right]
      | cons z zs =>
        have hq := acqQ_xor_left x y z
        have hi := ih ys zs (by simpa using h)
        simp only [xorS_cons, acqSum_cons]; omega

/-- bilinearity of the symplectic form mod 2 (left argument) -/
theorem acq_xorS_left (a b c : PStr) (h : a.length = b.length) :
    acq (xorS a b) c = (acq a c + acq b c) % 2 := by
  have := acqSum_xorS_left a b c h
  unfold acq; omega

/-- bilinearity of the symplectic form mod 2 (right argument) -/
theorem acq_xorS_right (a b c : PStr) (h : b.length = c.length) :
    acq a (xorS b c) = (acq a b + acq a c) % 2 := by
  rw [acq_symm a (xorS b c), acq_xorS_left b c a h, acq_symm b a, acq_symm c a]

theorem anti_iff (g h : PStr) : anti g h = true ↔ acq g h = 1 := by
  have hb := acq_bit g h
  unfold anti
  rcases hb with hb | hb <;> simp [hb]

theorem anti_eq_false_iff (g h : PStr) : anti g h = false ↔ acq g h = 0 := by
  have hb := acq_bit g h
  unfold anti
  rcases hb with hb | hb <;> simp [hb]

theorem anti_symm (g h : PStr) : anti g h = anti h g := by
  unfold anti; rw [acq_symm]

theorem anti_self (g : PStr) : anti g g = false := by
  rw [anti_eq_false_iff]; exact acq_self g

/-! ## `ipow` -/

theorem ipowSum_nil_left (b : PStr) : ipowSum [] b = 0 := by simp [ipowSum]
theorem ipowSum_nil_right (a : PStr) : ipowSum a [] = 0 := by cases a <;> simp [ipowSum]
theorem ipowSum_cons (a : Q) (as : PStr) (b : Q) (bs : PStr) :
    ipowSum (a :: as) (b :: bs) = ipowQ a b + ipowSum as bs := rfl

/-- commutation law, exact form: the antisymmetric part of `ipowSum` is `acqSum` -/
theorem ipowSum_sub_swap (a b : PStr) : ipowSum a b - ipowSum b a = 2 * acqSum a b := by
  induction a generalizing b with
  | nil => simp [ipowSum_nil_left, ipowSum_nil_right, acqSum_nil_left]
  | cons x xs ih =>
    cases b with
    | nil => simp [ipowSum_nil_left, ipowSum_nil_right, acqSum_nil_right]
    | cons y ys =>
      have h1 := ipowQ_sub_swap x y
      have h2 := ih ys
      simp only [ipowSum_cons, acqSum_cons]; omega

/-- commutation law mod 4 -/
theorem ipowSum_swap_mod4 (a b : PStr) : (ipowSum a b - ipowSum b a) % 4 = (2 * acqSum a b) % 4 := by
  rw [ipowSum_sub_swap]

/-- commutation law on the reduced kernels -/
theorem ipow_swap (a b : PStr) : ipow a b = (ipow b a + 2 * acq a b) % 4 := by
  have h := ipowSum_sub_swap a b
  unfold ipow acq; omega

theorem ipowSum_parity (a b : PStr) : ipowSum a b % 2 = acqSum a b % 2 := by
  induction a generalizing b with
  | nil => simp [ipowSum_nil_left, acqSum_nil_left]
  | cons x xs ih =>
    cases b with
    | nil => simp [ipowSum_nil_right, acqSum_nil_right]
    | cons y ys =>
      have h1 := ipowQ_parity x y
      have h2 := ih ys
      simp only [ipowSum_cons, acqSum_cons]; omega

/-- `ipow` is odd exactly when the strings anticommute -/
theorem ipow_parity (a b : PStr) : ipow a b % 2 = acq a b := by
  have h := ipowSum_parity a b
  unfold ipow acq; omega

/-- the cocycle identity (mod 4) that makes the product associative -/
theorem ipowSum_cocycle (a b c : PStr) (h1 : a.length = b.length) (h2 : b.length = c.length) :
    (ipowSum a b + ipowSum (xorS a b) c) % 4 = (ipowSum b c + ipowSum a (xorS b c)) % 4 := by
  induction a generalizing b c with
  | nil =>
    cases b with
    | nil => simp [xorS_nil_left, ipowSum_nil_left]
    | cons y ys => simp at h1
  | cons x xs ih =>
    cases b with
    | nil => simp at h1
    | cons y ys =>
      cases c with
      | nil => simp at h2
      | cons z zs =>
        have hq := ipowQ_cocycle x y z
        have hi := ih ys zs (by simpa using h1) (by simpa using h2)
        simp only [xorS_cons, ipowSum_cons]; omega

theorem ipow_cocycle (a b c : PStr) (h1 : a.length = b.length) (h2 : b.length = c.length) :
    (ipow a b + ipow (xorS a b) c) % 4 = (ipow b c + ipow a (xorS b c)) % 4 := by
  have h := ipowSum_cocycle a b c h1 h2
  unfold ipow; omega

theorem ipowSum_self (a : PStr) : ipowSum a a % 4 = 0 := by
  induction a with
  | nil => rfl
  | cons x xs ih =>
    have h := ipowQ_self x
    simp only [ipowSum_cons]; omega

theorem ipow_self (a : PStr) : ipow a a = 0 := ipowSum_self a

theorem ipowSum_idStr_right (a : PStr) (n : Nat) : ipowSum a (idStr n) = 0 := by
  induction a generalizing n with
  | nil => exact ipowSum_nil_left _
  | cons x xs ih =>
    cases n with
    | zero => exact ipowSum_nil_right _
    | succ n => simp [idStr_succ, ipowSum_cons, ih, ipowQ_id_right]

theorem ipowSum_idStr_left (a : PStr) (n : Nat) : ipowSum (idStr n) a = 0 := by
  induction a generalizing n with
  | nil => exact ipowSum_nil_right _
  | cons x xs ih =>
    cases n with
    | zero => exact ipowSum_nil_left _
    | succ n => simp [idStr_succ, ipowSum_cons, ih, ipowQ_id_left]

theorem ipow_idStr_right (a : PStr) (n : Nat) : ipow a (idStr n) = 0 := by
  unfold ipow; rw [ipowSum_idStr_right]; rfl

theorem ipow_idStr_left (a : PStr) (n : Nat) : ipow (idStr n) a = 0 := by
  unfold ipow; rw [ipowSum_idStr_left]; rfl

/-! ## `p0` -/

/-- the `Z·X` reordering count `Σ_k z_k(a) x_k(b)`: moving the `Z`s of `a` past the `X`s of `b` -/
def zxSum : PStr → PStr → Int
  | a :: as, b :: bs => b2i a.2 * b2i b.1 + zxSum as bs
  | _, _ => 0

theorem zxSum_nil_left (b : PStr) : zxSum [] b = 0 := by simp [zxSum]
theorem zxSum_nil_right (a : PStr) : zxSum a [] = 0 := by cases a <;> simp [zxSum]
theorem zxSum_cons (a : Q) (as : PStr) (b : Q) (bs : PStr) :
    zxSum (a :: as) (b :: bs) = b2i a.2 * b2i b.1 + zxSum as bs := rfl

theorem acqSum_eq_zxSum (a b : PStr) : acqSum a b = zxSum a b - zxSum b a := by
  induction a generalizing b with
  | nil => simp [acqSum_nil_left, zxSum_nil_left, zxSum_nil_right]
  | cons x xs ih =>
    cases b with
    | nil => simp [acqSum_nil_right, zxSum_nil_left, zxSum_nil_right]
    | cons y ys =>
      have h := ih ys
      have hm : b2i x.1 * b2i y.2 = b2i y.2 * b2i x.1 := Int.mul_comm _ _
      simp only [acqSum_cons, zxSum_cons, acqQ]; omega

theorem p0Sum_nil : p0Sum [] = 0 := rfl
theorem p0Sum_cons (a : Q) (as : PStr) : p0Sum (a :: as) = b2i a.1 * b2i a.2 + p0Sum as := rfl

theorem p0Sum_idStr (n : Nat) : p0Sum (idStr n) = 0 := by
  induction n with
  | zero => rfl
  | succ n ih => simp [idStr_succ, p0Sum_cons, ih, b2i]

theorem p0_idStr (n : Nat) : p0 (idStr n) = 0 := by
  unfold p0; rw [p0Sum_idStr]; rfl

/-- `p0` of a product string: `p0(a⊕b) + ipow(a,b) ≡ p0 a + p0 b + 2·#(Z of a meeting X of b)  (mod 4)` -/
theorem p0Sum_xorS (a b : PStr) (h : a.length = b.length) :
    (p0Sum (xorS a b) + ipowSum a b) % 4 = (p0Sum a + p0Sum b + 2 * zxSum a b) % 4 := by
  induction a generalizing b with
  | nil =>
    cases b with
    | nil => rfl
    | cons y ys => simp at h
  | cons x xs ih =>
    cases b with
    | nil => simp at h
    | cons y ys =>
      have hq := p0Q_xor x y
      have hi := ih ys (by simpa using h)
      simp only [xorS_cons, ipowSum_cons, p0Sum_cons, zxSum_cons]; omega

theorem p0_xorS (a b : PStr) (h : a.length = b.length) :
    p0 (xorS a b) = (p0 a + p0 b - ipow a b + 2 * zxSum a b) % 4 := by
  have := p0Sum_xorS a b h
  unfold p0 ipow; omega

/-! ## the action on kets -/

theorem actS_nil_left (b : Ket) : actS [] b = (0, []) := by simp [actS]
theorem actS_nil_right (g : PStr) : actS g [] = (0, []) := by cases g <;> simp [actS]
theorem actS_cons (q : Q) (qs : PStr) (b : Bool) (bs : Ket) :
    actS (q :: qs) (b :: bs) = ((actQ q b).1 + (actS qs bs).1, (actQ q b).2 :: (actS qs bs).2) := rfl

theorem length_actS (g : PStr) (b : Ket) : (actS g b).2.length = min g.length b.length := by
  induction g generalizing b with
  | nil => simp [actS_nil_left]
  | cons x xs ih =>
    cases b with
    | nil => simp [actS_nil_right]
    | cons y ys => simp [actS_cons, ih]

theorem length_actS_eq (g : PStr) (b : Ket) (h : g.length = b.length) : (actS g b).2.length = b.length := by
  rw [length_actS]; omega

theorem length_act (P : Pauli) (k : Int × Ket) (h : P.g.length = k.2.length) :
    (act P k).2.length = k.2.length := by
  simp only [act]; exact length_actS_eq _ _ h

/-- the string product on kets: `σ[g⊕h]` with the phase `ipow g h` acts as `σ[h]` then `σ[g]` -/
theorem actS_comp (g h : PStr) (b : Ket) (hg : g.length = b.length) (hh : h.length = b.length) :
    (actS (xorS g h) b).2 = (actS g (actS h b).2).2 ∧
    (ipowSum g h + (actS (xorS g h) b).1) % 4 = ((actS h b).1 + (actS g (actS h b).2).1) % 4 := by
  induction g generalizing h b with
  | nil =>
    simp [xorS_nil_left, actS_nil_left, ipowSum_nil_left]
    cases b with
    | nil => simp [actS_nil_right]
    | cons y ys => simp at hg
  | cons x xs ih =>
    cases h with
    | nil =>
      cases b with
      | nil => simp at hg
      | cons y ys => simp at hh
    | cons z zs =>
      cases b with
      | nil => simp at hg
      | cons y ys =>
        have hq := actQ_comp x z y
        have hi := ih zs ys (by simpa using hg) (by simpa using hh)
        simp only [xorS_cons, actS_cons, ipowSum_cons]
        refine ⟨?_, ?_⟩
        · rw [hq.1, hi.1]
        · have h1 := hq.2; have h2 := hi.2; omega

/-- `act` only sees the phase mod 4 -/
theorem act_phase_mod (g : PStr) (p : Int) (k : Int × Ket) : act ⟨g, p % 4⟩ k = act ⟨g, p⟩ k := by
  simp only [act]; congr 1; omega

theorem act_ket_mod (P : Pauli) (k : Int) (b : Ket) : act P (k % 4, b) = act P (k, b) := by
  simp only [act]; congr 1; omega

/-- `-P` acts as `P` with the phase shifted by 2 -/
theorem act_neg (P : Pauli) (k : Int × Ket) : act (neg P) k = (((act P k).1 + 2) % 4, (act P k).2) := by
  simp only [act, neg]; congr 1; omega

theorem act_neg_ne (P : Pauli) (k : Int × Ket) : act P k ≠ act (neg P) k := by
  rw [act_neg]
  intro h
  have h1 : (act P k).1 = ((act P k).1 + 2) % 4 := congrArg Prod.fst h
  omega

/-- the product denotes the composition of the actions -/
theorem act_mul (P Q : Pauli) (k : Int × Ket)
    (hP : P.g.length = k.2.length) (hQ : Q.g.length = k.2.length) :
    act (mul P Q) k = act P (act Q k) := by
  obtain ⟨h1, h2⟩ := actS_comp P.g Q.g k.2 hP hQ
  simp only [act, mul, ipow]
  rw [h1]
  congr 1
  omega

/-! ## `mul` -/

theorem mul_g (a b : Pauli) : (mul a b).g = xorS a.g b.g := rfl
theorem mul_p (a b : Pauli) : (mul a b).p = (a.p + b.p + ipow a.g b.g) % 4 := rfl

theorem length_mul (a b : Pauli) (h : a.g.length = b.g.length) : (mul a b).g.length = a.g.length :=
  length_xorS_eq _ _ h

theorem mul_p_range (a b : Pauli) : 0 ≤ (mul a b).p ∧ (mul a b).p < 4 := by
  rw [mul_p]; omega

theorem mul_comm_acq (P Q : Pauli) :
    (mul P Q).g = (mul Q P).g ∧ (mul P Q).p = ((mul Q P).p + 2 * acq P.g Q.g) % 4 := by
  refine ⟨xorS_comm _ _, ?_⟩
  have h := ipow_swap P.g Q.g
  have hr := ipow_range Q.g P.g
  simp only [mul_p]; omega

theorem mul_assoc (P Q R : Pauli) (h1 : P.g.length = Q.g.length) (h2 : Q.g.length = R.g.length) :
    mul (mul P Q) R = mul P (mul Q R) := by
  have h := ipow_cocycle P.g Q.g R.g h1 h2
  simp only [mul, xorS_assoc]
  congr 1
  omega

theorem mul_self (P : Pauli) : mul P P = ⟨idStr P.g.length, (2 * P.p) % 4⟩ := by
  simp only [mul, xorS_self, ipow_self]
  congr 1
  omega

theorem mul_one_right (P : Pauli) : mul P ⟨idStr P.g.length, 0⟩ = ⟨P.g, P.p % 4⟩ := by
  simp only [mul, xorS_idStr_right, ipow_idStr_right]
  congr 1
  omega

theorem mul_one_left (P : Pauli) : mul ⟨idStr P.g.length, 0⟩ P = ⟨P.g, P.p % 4⟩ := by
  simp only [mul, xorS_idStr_left, ipow_idStr_left]
  congr 1
  omega

/-- a one-qubit operator is determined by its action on `|0⟩` and `|1⟩` (phases compared mod 4 with offsets) -/
theorem actQ_inj (x y : Q) (p q X : Int)
    (h0 : (p + ((actQ x false).1 + X)) % 4 = (q + ((actQ y false).1 + X)) % 4)
    (h1 : (p + ((actQ x true).1 + X)) % 4 = (q + ((actQ y true).1 + X)) % 4)
    (h2 : (actQ x false).2 = (actQ y false).2) : x = y := by
  obtain ⟨x1, x2⟩ := x; obtain ⟨y1, y2⟩ := y
  cases x1 <;> cases x2 <;> cases y1 <;> cases y2 <;>
    first
      | rfl
      | (exfalso; revert h2; decide)
      | (exfalso; simp [actQ, b2i] at h0 h1; omega)

/-- a string is determined by its action on all kets (whatever scalar phases `i^p`, `i^q` are attached) -/
theorem actS_inj (g h : PStr) (hl : g.length = h.length) (p q : Int)
    (H : ∀ b : Ket, b.length = g.length →
      (p + (actS g b).1) % 4 = (q + (actS h b).1) % 4 ∧ (actS g b).2 = (actS h b).2) : g = h := by
  induction g generalizing h p q with
  | nil =>
    cases h with
    | nil => rfl
    | cons y ys => simp at hl
  | cons x xs ih =>
    cases h with
    | nil => simp at hl
    | cons y ys =>
      have hl' : xs.length = ys.length := by simpa using hl
      have ht : xs = ys := by
        apply ih ys hl' (p + (actQ x false).1) (q + (actQ y false).1)
        intro b hb
        have := H (false :: b) (by simp [hb])
        simp only [actS_cons] at this
        refine ⟨by omega, ?_⟩
        exact (List.cons.inj this.2).2
      subst ht
      have h0 := H (false :: List.replicate xs.length false) (by simp)
      have h1 := H (true :: List.replicate xs.length false) (by simp)
      simp only [actS_cons] at h0 h1
      have hx := actQ_inj x y p q _ h0.1 h1.1 (List.cons.inj h0.2).1
      rw [hx]

/-- operators with the same action on all kets of their length are equal up to the phase representative -/
theorem act_inj (P Q : Pauli) (hl : P.g.length = Q.g.length)
    (h : ∀ k : Int × Ket, k.2.length = P.g.length → act P k = act Q k) : PEq P Q := by
  have hg : P.g = Q.g := by
    apply actS_inj P.g Q.g hl P.p Q.p
    intro b hb
    have := h (0, b) hb
    simp only [act] at this
    have h1 := congrArg Prod.fst this
    have h2 := congrArg Prod.snd this
    simp only at h1 h2
    exact ⟨by omega, h2⟩
  refine ⟨hg, ?_⟩
  have := h (0, List.replicate P.g.length false) (by simp)
  simp only [act, hg] at this
  have h1 := congrArg Prod.fst this
  simp only at h1
  omega

/-- composing actions of operators of the right length keeps the ket length -/
theorem length_foldr_act (Ps : List Pauli) (k : Int × Ket) (hPs : ∀ R ∈ Ps, R.g.length = k.2.length) :
    (Ps.foldr (fun R x => act R x) k).2.length = k.2.length := by
  induction Ps with
  | nil => rfl
  | cons R Rs ih =>
    have hR := hPs R (by simp)
    have hRs := ih (fun S hS => hPs S (by simp [hS]))
    simp only [List.foldr_cons]
    rw [length_act _ _ (by rw [hRs]; exact hR), hRs]

/-- the left fold of `mul` acts as the composition of the actions -/
theorem act_foldl_mul (P : Pauli) (Ps : List Pauli) (k : Int × Ket)
    (hP : P.g.length = k.2.length) (hPs : ∀ R ∈ Ps, R.g.length = k.2.length) :
    act (Ps.foldl mul P) k = act P (Ps.foldr (fun R x => act R x) k) := by
  induction Ps generalizing P with
  | nil => rfl
  | cons R Rs ih =>
    have hR := hPs R (by simp)
    have hRs : ∀ S ∈ Rs, S.g.length = k.2.length := fun S hS => hPs S (by simp [hS])
    have hlen := length_foldr_act Rs k hRs
    simp only [List.foldl_cons, List.foldr_cons]
    rw [ih (mul P R) (by rw [length_mul _ _ (hP.trans hR.symm)]; exact hP) hRs]
    exact act_mul P R _ (by rw [hlen]; exact hP) (by rw [hlen]; exact hR)

/-! ## `PEq` -/

theorem PEq.refl (a : Pauli) : PEq a a := ⟨rfl, rfl⟩
theorem PEq.symm {a b : Pauli} (h : PEq a b) : PEq b a := ⟨h.1.symm, h.2.symm⟩
theorem PEq.trans {a b c : Pauli} (h1 : PEq a b) (h2 : PEq b c) : PEq a c :=
  ⟨h1.1.trans h2.1, h1.2.trans h2.2⟩

/-- equal up to the phase representative ⇒ same action -/
theorem act_congr_PEq {a b : Pauli} (h : PEq a b) (k : Int × Ket) : act a k = act b k := by
  obtain ⟨hg, hp⟩ := h
  simp only [act, hg]; congr 1; omega

/-! ## `batchDot` -/

theorem batchDot_nil {C : Type} (cmul : C → C → C) (b : List (Pauli × C)) : batchDot cmul [] b = [] := rfl
theorem batchDot_cons {C : Type} (cmul : C → C → C) (x : Pauli × C) (a b : List (Pauli × C)) :
    batchDot cmul (x :: a) b = b.map (fun y => (mul x.1 y.1, cmul x.2 y.2)) ++ batchDot cmul a b := by
  simp [batchDot]

theorem length_batchDot {C : Type} (cmul : C → C → C) (a b : List (Pauli × C)) :
    (batchDot cmul a b).length = a.length * b.length := by
  induction a with
  | nil => simp [batchDot_nil]
  | cons x xs ih => simp [batchDot_cons, ih, Nat.succ_mul, Nat.add_comm]

theorem batchDot_getElem? {C : Type} (cmul : C → C → C) (a b : List (Pauli × C)) (j1 j2 : Nat)
    (h1 : j1 < a.length) (h2 : j2 < b.length) :
    (batchDot cmul a b)[j1 * b.length + j2]? = some (mul a[j1].1 b[j2].1, cmul a[j1].2 b[j2].2) := by
  induction a generalizing j1 with
  | nil => simp at h1
  | cons x xs ih =>
    rw [batchDot_cons]
    cases j1 with
    | zero =>
      rw [List.getElem?_append_left (by simpa using h2)]
      simp [h2]
    | succ n =>
      have hn : n < xs.length := by simpa using h1
      rw [List.getElem?_append_right (by simp [Nat.succ_mul]; omega)]
      have : (n + 1) * b.length + j2 - (List.map (fun y => (mul x.1 y.1, cmul x.2 y.2)) b).length
          = n * b.length + j2 := by simp [Nat.succ_mul]; omega
      rw [this, ih n hn]
      simp
end PC
