import PyCliffordModel.Properties.C13b
import PyCliffordModel.Properties.C16
import PyCliffordModel.Proofs.Tableau
/-! helper lemmas for `Properties/C13c.lean` -/
namespace PC
namespace Tk

/-! ## `stabilizer_project`, vectorised = sequential -/

/-- the vector `acqs` read at any index -/
theorem acqs_getD (T : List Pauli) (obs : PStr) (j : Nat) :
    (T.map fun R => anti R.g obs).getD j false = anti (rowAt T j).g obs := by
  by_cases hj : j < T.length
  · rw [rowAt_eq_getElem T j hj]
    simp [List.getD_eq_getElem?_getD, List.getElem?_map, List.getElem?_eq_getElem hj]
  · rw [rowAt_of_le T j (by omega), anti_nil_left]
    simp [List.getD_eq_getElem?_getD, List.getElem?_map, List.getElem?_eq_none (Nat.le_of_not_lt hj)]

/-- the vectorised update is the sequential one when `p` is the first anticommuting row -/
theorem vecRows_eq (T : List Pauli) (obs : PStr) (N p : Nat)
    (hb : ∀ i, i < p → anti (rowAt T i).g obs = false) :
    (T.mapIdx fun j R =>
        if (T.map fun R => anti R.g obs).getD j false && decide (p < j) then (⟨xorS R.g (rowAt T p).g, R.p⟩ : Pauli) else R)
      = T.mapIdx (updRow obs N false p (rowAt T p)) := by
  apply ext_rowAt
  · simp
  · intro j hj
    have hj' : j < T.length := by simpa using hj
    rw [rowAt_mapIdx _ T j hj', rowAt_mapIdx _ T j hj', acqs_getD]
    unfold updRow pivRow
    by_cases h1 : j < p
    · have := hb j h1
      simp [this]
    · by_cases h2 : j = p
      · subst h2; simp
      · have h3 : p < j := by omega
        have h4 : j ≠ p := h2
        simp [h3, h4]

theorem find_pivot_some (T : List Pauli) (obs : PStr) (m lim p : Nat) (hp : p < m) (hlim : p < lim)
    (ha : anti (rowAt T p).g obs = true) (hb : ∀ i, i < p → anti (rowAt T i).g obs = false) :
    (List.range m).find? (fun j => (T.map fun R => anti R.g obs).getD j false && decide (j < lim)) = some p := by
  rw [List.find?_range_eq_some]
  refine ⟨by rw [acqs_getD, ha]; simp [hlim], by simpa using hp, ?_⟩
  intro j hj
  rw [acqs_getD, hb j hj]; rfl

theorem find_pivot_none (T : List Pauli) (obs : PStr) (m lim : Nat)
    (hb : ∀ i, i < lim → anti (rowAt T i).g obs = false) :
    (List.range m).find? (fun j => (T.map fun R => anti R.g obs).getD j false && decide (j < lim)) = none := by
  rw [List.find?_range_eq_none]
  intro j _
  rw [acqs_getD]
  by_cases h : j < lim
  · rw [hb j h]; rfl
  · simp [h]

theorem project1_eq (st : State) (obs : PStr) (hl : st.rows.length = 2 * st.N) : T.project1 st obs = project1 st obs := by
  rcases project1_cases st obs with ⟨p, hp, ha, hb, he⟩ | ⟨hb, he⟩
  · have hlt : p < 2 * st.N := by rw [← hl]; exact anti_rowAt_lt st.rows obs p ha
    rw [he]
    unfold T.project1
    simp only
    rw [find_pivot_some st.rows obs (2 * st.N) (st.N + st.r) p hlt hp ha hb]
    simp only
    rw [vecRows_eq st.rows obs st.N p hb, ← (install_rank_slot _ _ _ _ _ _).1]
  · rw [he]
    unfold T.project1
    simp only
    rw [find_pivot_none st.rows obs (2 * st.N) (st.N + st.r) hb]

theorem length_install (T : List Pauli) (obs : PStr) (N r p : Nat) (gp : PStr) :
    (install T obs N r p gp).1.length = T.length := by
  unfold install
  simp only
  split
  · split
    · simp [length_setG]
    · split <;> simp [swapG, length_setG]
  · simp [length_setG]

theorem length_project1 (st : State) (obs : PStr) : (project1 st obs).rows.length = st.rows.length := by
  rcases project1_cases st obs with ⟨p, _, _, _, he⟩ | ⟨_, he⟩
  · rw [he]; simp only; rw [length_install]; simp
  · rw [he]

theorem project1_N (st : State) (obs : PStr) : (project1 st obs).N = st.N := by
  unfold State.N; rw [length_project1]

theorem project_eq (obs : List PStr) : ∀ (st : State), st.rows.length = 2 * st.N → T.project st obs = project st obs := by
  induction obs with
  | nil => intro st _; rfl
  | cons o os ih =>
    intro st hl
    unfold T.project project
    simp only [List.foldl_cons]
    rw [project1_eq st o hl]
    exact ih (project1 st o) (by rw [length_project1, project1_N]; exact hl)

/-! ## batched samplers -/

theorem chunk_length (b : List Bool) (L m k : Nat) (hb : b.length = L * m) (hk : k < L) :
    ((b.drop (k * m)).take m).length = m := by
  rw [List.length_take, List.length_drop, hb]
  have h1 : L * m - k * m = (L - k) * m := (Nat.sub_mul L k m).symm
  have h2 : m ≤ (L - k) * m := Nat.le_mul_of_pos_left m (by omega)
  omega

theorem takeRows_spec (L N : Nat) (tape t : List Bool) (rows : List PStr) (h : T.takeRows L N tape = some (rows, t)) :
    rows.length = L ∧ ∀ r ∈ rows, r.length = N := by
  unfold T.takeRows at h
  split at h
  · cases h
  · rename_i b t' hb
    simp only [Option.some.injEq, Prod.mk.injEq] at h
    obtain ⟨rfl, rfl⟩ := h
    refine ⟨by simp, ?_⟩
    intro r hr
    obtain ⟨k, hk, rfl⟩ := List.mem_map.1 hr
    exact Cp.length_unflat _ N (chunk_length b L (2 * N) k (Rn.takeBits_some _ _ _ _ hb).1 (List.mem_range.1 hk))

theorem length_fillZero : ∀ (g fresh : List PStr), (T.fillZero g fresh).length = g.length
  | [], _ => rfl
  | g :: gs, fresh => by
    unfold T.fillZero
    split
    · simp [length_fillZero gs fresh]
    · cases fresh with
      | nil => simp [length_fillZero gs []]
      | cons f fs => simp [length_fillZero gs fs]

theorem mem_fillZero : ∀ (g fresh : List PStr) (r : PStr), r ∈ T.fillZero g fresh → r ∈ g ∨ r ∈ fresh
  | [], _, r, h => by simp [T.fillZero] at h
  | g :: gs, fresh, r, h => by
    unfold T.fillZero at h
    split at h
    · rcases List.mem_cons.1 h with h | h
      · exact Or.inl (by simp [h])
      · rcases mem_fillZero gs fresh r h with h | h
        · exact Or.inl (List.mem_cons_of_mem _ h)
        · exact Or.inr h
    · cases fresh with
      | nil =>
        simp only at h
        rcases List.mem_cons.1 h with h | h
        · exact Or.inl (by simp [h])
        · rcases mem_fillZero gs [] r h with h | h
          · exact Or.inl (List.mem_cons_of_mem _ h)
          · exact Or.inr h
      | cons f fs =>
        simp only at h
        rcases List.mem_cons.1 h with h | h
        · exact Or.inr (by simp [h])
        · rcases mem_fillZero gs fs r h with h | h
          · exact Or.inl (List.mem_cons_of_mem _ h)
          · exact Or.inr (List.mem_cons_of_mem _ h)

theorem resampleRows_spec (N : Nat) : ∀ (fuel : Nat) (g1 : List PStr) (tape : List Bool) (g1' : List PStr) (t' : List Bool),
    T.resampleRows N fuel g1 tape = some (g1', t') → (∀ r ∈ g1, r.length = N) →
    g1'.length = g1.length ∧ (∀ r ∈ g1', r.length = N ∧ anyBit r = true)
  | 0, g1, tape, g1', t', h, hl => by
    unfold T.resampleRows at h
    split at h
    · rename_i ha
      simp only [Option.some.injEq, Prod.mk.injEq] at h
      obtain ⟨rfl, rfl⟩ := h
      exact ⟨rfl, fun r hr => ⟨hl r hr, List.all_eq_true.1 ha r hr⟩⟩
    · cases h
  | fuel + 1, g1, tape, g1', t', h, hl => by
    unfold T.resampleRows at h
    split at h
    · rename_i ha
      simp only [Option.some.injEq, Prod.mk.injEq] at h
      obtain ⟨rfl, rfl⟩ := h
      exact ⟨rfl, fun r hr => ⟨hl r hr, List.all_eq_true.1 ha r hr⟩⟩
    · split at h
      · cases h
      · rename_i fresh tape' hf
        have hfr := (takeRows_spec _ N _ _ _ hf).2
        have := resampleRows_spec N fuel _ _ _ _ h (fun r hr => by
          rcases mem_fillZero _ _ r hr with h | h
          · exact hl r h
          · exact hfr r h)
        rw [length_fillZero] at this
        exact this

theorem impose_eq (g1 g2 : PStr) : T.impose g1 g2 = Rn.fixP g1 g2 := by
  unfold T.impose Rn.fixP Rn.flipQ
  split <;> rfl

theorem randomPairs_spec (N L : Nat) (tape rest : List Bool) (pairs : List (PStr × PStr))
    (h : T.randomPairs N L tape = some (pairs, rest)) :
    pairs.length = L ∧ ∀ ab ∈ pairs, acq ab.1 ab.2 = 1 ∧ ab.1.length = N ∧ ab.2.length = N ∧ anyBit ab.1 = true := by
  unfold T.randomPairs at h
  split at h
  · cases h
  · rename_i g1 t1 h1
    split at h
    · cases h
    · rename_i g2 t2 h2
      split at h
      · cases h
      · rename_i g1' t3 h3
        simp only [Option.some.injEq, Prod.mk.injEq] at h
        obtain ⟨rfl, rfl⟩ := h
        obtain ⟨hl1, hr1⟩ := takeRows_spec _ _ _ _ _ h1
        obtain ⟨hl2, hr2⟩ := takeRows_spec _ _ _ _ _ h2
        obtain ⟨hl3, hr3⟩ := resampleRows_spec N _ _ _ _ _ h3 hr1
        refine ⟨by simp [hl3, hl1, hl2], ?_⟩
        intro ab hab
        obtain ⟨cd, hcd, rfl⟩ := List.mem_map.1 hab
        obtain ⟨hc, hd⟩ := List.of_mem_zip hcd
        obtain ⟨e1, e2⟩ := hr3 _ hc
        have e3 := hr2 _ hd
        simp only
        rw [impose_eq]
        exact ⟨Rn.acq_fixP _ _ (e1.trans e3.symm) e2, e1, by rw [Rn.length_fixP, e3], e2⟩

/-! ## `random_pauli` -/

/-- rows `2k`, `2k+1` of a flattened list of two-element blocks -/
theorem flatten_blocks {α β : Type} : ∀ (l : List α) (F : Nat → α → List β), (∀ k a, (F k a).length = 2) →
    ((l.mapIdx F).flatten).length = 2 * l.length ∧
    ∀ k (hk : k < l.length) b, b < 2 → ((l.mapIdx F).flatten)[2 * k + b]? = (F k l[k])[b]?
  | [], F, _ => ⟨rfl, fun k hk => absurd hk (by simp)⟩
  | a :: l, F, hF => by
    obtain ⟨ih1, ih2⟩ := flatten_blocks l (fun i => F (i + 1)) (fun k a => hF (k + 1) a)
    rw [List.mapIdx_cons, List.flatten_cons]
    refine ⟨by rw [List.length_append, ih1, hF]; simp; omega, ?_⟩
    intro k hk b hb
    cases k with
    | zero =>
      rw [List.getElem?_append_left (by rw [hF]; omega)]
      simp
    | succ k =>
      rw [List.getElem?_append_right (by rw [hF]; omega), hF]
      have e : 2 * (k + 1) + b - 2 = 2 * k + b := by omega
      rw [e, ih2 k (by simpa using hk) b hb]
      rfl

/-- a table of on-site anticommuting pairs on distinct qubits satisfies the canonical commutation relations -/
theorem symS_of_onsite (n : Nat) (rows : List PStr) (hlen : rows.length = 2 * n)
    (h : ∀ k, k < n → ∃ q1 q2 : Q, rows.getD (2 * k) [] = placeQ n k q1 ∧ rows.getD (2 * k + 1) [] = placeQ n k q2 ∧
      acqQ q1 q2 % 2 = 1) :
    (∀ r ∈ rows, r.length = n) ∧ Rn.SymS rows := by
  have hq : ∀ i, i < 2 * n → ∃ q, rows.getD i [] = placeQ n (i / 2) q := by
    intro i hi
    obtain ⟨q1, q2, h1, h2, _⟩ := h (i / 2) (by omega)
    by_cases he : i = 2 * (i / 2)
    · exact ⟨q1, by rw [← h1, ← he]⟩
    · have : i = 2 * (i / 2) + 1 := by omega
      exact ⟨q2, by rw [← h2, ← this]⟩
  have hp : ∀ j, j < n → acq (rows.getD (2 * j) []) (rows.getD (2 * j + 1) []) = 1 := by
    intro j hj
    obtain ⟨q1, q2, h1, h2, h3⟩ := h j hj
    rw [h1, h2, Rn.acq_placeQ n j j _ _ hj, if_pos rfl, h3]
  refine ⟨?_, ?_⟩
  · intro r hr
    obtain ⟨i, hi, rfl⟩ := List.getElem_of_mem hr
    obtain ⟨q, hq'⟩ := hq i (by omega)
    rw [List.getD_eq_getElem?_getD, List.getElem?_eq_getElem hi, Option.getD_some] at hq'
    rw [hq', Rn.length_placeQ]
  · intro i j hi hj
    rw [hlen] at hi hj
    obtain ⟨qi, hqi⟩ := hq i hi
    obtain ⟨qj, hqj⟩ := hq j hj
    by_cases hij : i / 2 = j / 2
    · by_cases he : i = j
      · subst he; rw [acq_self, if_neg (by simp)]
      · rw [if_pos ⟨hij, he⟩]
        by_cases hlt : i < j
        · have e1 : i = 2 * (i / 2) := by omega
          have e2 : j = 2 * (i / 2) + 1 := by omega
          rw [e1, e2]; exact hp (i / 2) (by omega)
        · have e1 : j = 2 * (j / 2) := by omega
          have e2 : i = 2 * (j / 2) + 1 := by omega
          rw [e1, e2, acq_symm]; exact hp (j / 2) (by omega)
    · rw [if_neg (fun h => hij h.1), hqi, hqj, Rn.acq_placeQ n _ _ _ _ (by omega), if_neg hij]

/-- a one-qubit pair: `acq` is the one-qubit form -/
theorem acq_single (g1 g2 : PStr) (h1 : g1.length = 1) (h2 : g2.length = 1) (ha : acq g1 g2 = 1) :
    acqQ (getQ g1 0) (getQ g2 0) % 2 = 1 := by
  match g1, g2, h1, h2, ha with
  | [x], [y], _, _, ha =>
    simp only [Rn.getQ_cons_zero]
    simpa [acq, acqSum] using ha

/-- the transposed 2×2 table of an anticommuting one-qubit pair is again an anticommuting pair -/
theorem acqQ_transpose (a b : Q) (h : acqQ a b % 2 = 1) : acqQ (a.1, b.1) (a.2, b.2) % 2 = 1 := by
  obtain ⟨a1, a2⟩ := a; obtain ⟨b1, b2⟩ := b
  revert h; cases a1 <;> cases a2 <;> cases b1 <;> cases b2 <;> decide

theorem placeQ_one (q : Q) : placeQ 1 0 q = [q] := rfl

theorem randomPauli_spec (n : Nat) (tape rest : List Bool) (rows : List PStr)
    (h : T.randomPauli n tape = some (rows, rest)) :
    rows.length = 2 * n ∧ ∀ k, k < n → ∃ q1 q2 : Q,
      rows.getD (2 * k) [] = placeQ n k q1 ∧ rows.getD (2 * k + 1) [] = placeQ n k q2 ∧ acqQ q1 q2 % 2 = 1 := by
  unfold T.randomPauli at h
  split at h
  · cases h
  · rename_i pairs t hp
    obtain ⟨hlen, hpair⟩ := randomPairs_spec 1 n tape t pairs hp
    split at h
    · rename_i hn
      subst hn
      split at h
      · rename_i ab
        simp only [Option.some.injEq, Prod.mk.injEq] at h
        obtain ⟨rfl, rfl⟩ := h
        obtain ⟨ha, hl1, hl2, _⟩ := hpair ab (by simp)
        refine ⟨rfl, ?_⟩
        intro k hk
        have : k = 0 := by omega
        subst this
        exact ⟨_, _, rfl, rfl, acqQ_transpose _ _ (acq_single _ _ hl1 hl2 ha)⟩
      · cases h
    · simp only [Option.some.injEq, Prod.mk.injEq] at h
      obtain ⟨rfl, rfl⟩ := h
      obtain ⟨hfl, hget⟩ := flatten_blocks pairs
        (fun k ab => [placeQ n k (getQ ab.1 0), placeQ n k (getQ ab.2 0)]) (fun _ _ => rfl)
      refine ⟨by rw [hfl, hlen], ?_⟩
      intro k hk
      have hk' : k < pairs.length := by omega
      obtain ⟨ha, hl1, hl2, _⟩ := hpair pairs[k] (List.getElem_mem hk')
      refine ⟨getQ pairs[k].1 0, getQ pairs[k].2 0, ?_, ?_, acq_single _ _ hl1 hl2 ha⟩
      · rw [List.getD_eq_getElem?_getD]
        have := hget k hk' 0 (by omega)
        rw [Nat.add_zero] at this
        rw [this]; rfl
      · rw [List.getD_eq_getElem?_getD, hget k hk' 1 (by omega)]; rfl

theorem randomPauli_valid (n : Nat) (tape rest signs : List Bool) (rows : List PStr)
    (h : T.randomPauli n tape = some (rows, rest)) : ValidMap (signedMap rows signs) n := by
  obtain ⟨hlen, hk⟩ := randomPauli_spec n tape rest rows h
  obtain ⟨h2, h3⟩ := symS_of_onsite n rows hlen hk
  exact Rn.signedMap_valid rows signs n hlen h2 h3

end Tk
end PC
