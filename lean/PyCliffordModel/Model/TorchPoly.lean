import PyCliffordModel.Model.Torch
import PyCliffordModel.Model.Poly

/-! The batched entry points of the port (`torchclifford/stabilizer.py::vectorizable_expct`): a list of states of one rank
    against a list of operators or a polynomial.  Model of the repaired code (`fix:` 2a7145e): the strings of a polynomial
    are evaluated phase-free by the vectorised kernel and `i^p` goes with the coefficient. -/
namespace PC
namespace T

/-- `vectorizable_expct(states, PauliList)`: one row of values per state -/
def vexpectList (sts : List State) (obs : List Pauli) : List (List Int) :=
  sts.map fun st => obs.map (T.vecExpect1 st)

/-- `vectorizable_expct(states, PauliPolynomial)` (and `Pauli`, which is cast to a polynomial first) -/
def vexpectPoly (sts : List State) (a : Poly) : List Cx :=
  sts.map fun st =>
    a.foldl (fun acc t => acc.add ((t.2.mul (Cx.ipow t.1.p)).mul (Cx.ofInt (T.vecExpect1 st ⟨t.1.g, 0⟩)))) Cx.zero

end T
end PC
