import PyCliffordModel.Model.Basic
/-!
# Model/Kernels — `pauli_combine`, `pauli_transform`, `clifford_rotate(_signless)`, masks, `embed`

Mirrors `pyclifford/utils.py` ("combination and transformation", "clifford rotation"),
`PauliList.rotate_by / transform_by` (with and without mask) and `CliffordMap.embed/compose`.
A list of operators (`PauliList`, the rows of a `CliffordMap`, the rows of a tableau) is a `List Pauli`;
the code's separate `gs`/`ps` arrays are zipped (they always have the same length in pyclifford).
-/
namespace PC

/-- flat view `[x0,z0,x1,z1,…]` of a string (what the code stores) -/
def flat : PStr → List Bool
  | [] => []
  | q :: qs => q.1 :: q.2 :: flat qs
def unflat : List Bool → PStr
  | x :: z :: rest => (x, z) :: unflat rest
  | _ => []

/-- inner loop of `pauli_combine` for one output row: left fold of the product over the selected rows -/
def combineAux : List Bool → List Pauli → Pauli → Pauli
  | c :: cs, r :: rs, acc => combineAux cs rs (if c then mul acc r else acc)
  | _, _, acc => acc
/-- one output row of `pauli_combine(C, gs_in, ps_in)`; `n` = number of qubits of the input rows -/
def combine (n : Nat) (c : List Bool) (rows : List Pauli) : Pauli := combineAux c rows ⟨idStr n, 0⟩
def combineRows (n : Nat) (C : List (List Bool)) (rows : List Pauli) : List Pauli := C.map fun c => combine n c rows

/-- number of qubits a map (2n rows) acts on -/
def mapN (M : List Pauli) : Nat := M.length / 2

/-- one row of `pauli_transform(gs_in, ps_in, gs_map, ps_map)` -/
def transform (M : List Pauli) (P : Pauli) : Pauli :=
  let c := combine (mapN M) (flat P.g) M
  ⟨c.g, (P.p + p0 P.g + c.p) % 4⟩
def transformRows (M : List Pauli) (Ps : List Pauli) : List Pauli := Ps.map (transform M)

/-- one row of `clifford_rotate(g, p, gs, ps)` -/
def rotate (G : Pauli) (P : Pauli) : Pauli :=
  if anti G.g P.g then ⟨xorS P.g G.g, (P.p + G.p + 1 + ipow P.g G.g) % 4⟩ else P
def rotateRows (G : Pauli) (Ps : List Pauli) : List Pauli := Ps.map (rotate G)

/-- one row of `clifford_rotate_signless(g, gs)` -/
def rotateSignless (g : PStr) (h : PStr) : PStr := if anti g h then xorS h g else h

/-! ## masks: `gs[:, mask2]` (gather) and assignment back (scatter) -/
def gather : List Bool → PStr → PStr
  | m :: ms, q :: qs => if m then q :: gather ms qs else gather ms qs
  | _, _ => []
def scatter : List Bool → PStr → PStr → PStr
  | m :: ms, q :: qs, sub =>
    if m then
      match sub with
      | s :: ss => s :: scatter ms qs ss
      | [] => q :: scatter ms qs []
    else q :: scatter ms qs sub
  | _, qs, _ => qs
def maskCount (m : List Bool) : Nat := (m.filter id).length

/-- `PauliList.rotate_by(generator, mask)` on one row -/
def rotateMasked (G : Pauli) (m : List Bool) (P : Pauli) : Pauli :=
  let s := rotate G ⟨gather m P.g, P.p⟩
  ⟨scatter m P.g s.g, s.p⟩
/-- `PauliList.transform_by(map, mask)` on one row -/
def transformMasked (M : List Pauli) (m : List Bool) (P : Pauli) : Pauli :=
  let s := transform M ⟨gather m P.g, P.p⟩
  ⟨scatter m P.g s.g, s.p⟩

/-- `mask2 = numpy.repeat(mask, 2)` over the rows of a map -/
def mask2 : List Bool → List Bool
  | [] => []
  | m :: ms => m :: m :: mask2 ms

/-- `CliffordMap.embed(small_map, mask)`: rows selected by `mask2` get the small map's row scattered
    into the masked columns and the small map's phase -/
def embedRows (m : List Bool) : List Bool → List Pauli → List Pauli → List Pauli
  | b :: bs, R :: Rs, small =>
    if b then
      match small with
      | s :: ss => ⟨scatter m R.g s.g, s.p⟩ :: embedRows m bs Rs ss
      | [] => R :: embedRows m bs Rs []
    else R :: embedRows m bs Rs small
  | _, Rs, _ => Rs
def embed (big small : List Pauli) (m : List Bool) : List Pauli := embedRows m (mask2 m) big small

/-- unit strings: row `2k` of the identity map is `X_k`, row `2k+1` is `Z_k` -/
def unitX (n k : Nat) : PStr := (List.range n).map fun i => (i == k, false)
def unitZ (n k : Nat) : PStr := (List.range n).map fun i => (false, i == k)
def idRows (n : Nat) : Nat → List Pauli
  | 0 => []
  | k + 1 => idRows n k ++ [⟨unitX n k, 0⟩, ⟨unitZ n k, 0⟩]
/-- `identity_map(N)` -/
def idMap (n : Nat) : List Pauli := idRows n n

/-- `CliffordMap.compose(other)`: this map first; = transform the rows of this map by the other -/
def compose (A B : List Pauli) : List Pauli := transformRows B A

/-- `clifford_rotation_map(gen)` -/
def rotationMap (G : Pauli) : List Pauli := rotateRows G (idMap G.g.length)

/-! ## `batch_dot` over an arbitrary coefficient type -/
def batchDot {C : Type} (cmul : C → C → C) (a b : List (Pauli × C)) : List (Pauli × C) :=
  a.flatMap fun x => b.map fun y => (mul x.1 y.1, cmul x.2 y.2)

end PC
