import PyCliffordModel.Model.Diag
/-!
# Model/Torch — the torchclifford kernels whose text differs from pyclifford's

Mirrors `torchclifford/utils.py`: vectorised formulations (strided slices `g[::2]`, `g[1::2]`, mask multiplication,
`matmul`, `argmax`, `count_nonzero`, broadcasting). float32 tensors hold these small integers exactly, so the
arithmetic is modelled on `Int`. The class layer of torchclifford is a textual copy of pyclifford's and is covered by
the correspondence against the pyclifford model.
-/
namespace PC.T

/-- `g[::2]` and `g[1::2]` as integer vectors -/
def xs (g : PStr) : List Int := g.map fun q => b2i q.1
def zs (g : PStr) : List Int := g.map fun q => b2i q.2
def dot : List Int → List Int → Int
  | a :: as, b :: bs => a * b + dot as bs
  | _, _ => 0

/-- `acq_grid` / `acq_mat`, one entry: `(matmul(gz1, gx2.T) - matmul(gx1, gz2.T)) % 2` (two separate sums) -/
def acqGrid (g1 g2 : PStr) : Int := (dot (zs g1) (xs g2) - dot (xs g1) (zs g2)) % 2

/-- `clifford_rotate(g, p, gs, ps)` on one row: `mask = acq(g, gs)`; `ps = (ps + (p + 1 + ipow(gs, g)) * mask) % 4`;
    `gs = (gs + g * mask) % 2` -/
def cliffordRotate (G P : Pauli) : Pauli :=
  let mask : Int := acq G.g P.g
  let p' := (P.p + (G.p + 1 + ipow P.g G.g) * mask) % 4
  let g' : PStr := (P.g.zip G.g).map fun (a, b) =>
    (((b2i a.1 + b2i b.1 * mask) % 2) != 0, ((b2i a.2 + b2i b.2 * mask) % 2) != 0)
  ⟨g', p'⟩

/-- `clifford_rotate_signless(g, gs)` on one row: `(gs + g * acq(g, gs)) % 2` -/
def rotateSignless (g h : PStr) : PStr :=
  let mask : Int := acq g h
  (h.zip g).map fun (a, b) => (((b2i a.1 + b2i b.1 * mask) % 2) != 0, ((b2i a.2 + b2i b.2 * mask) % 2) != 0)

/-- `count_nonzero` of the flat bits of a string -/
def countNonzero (g : PStr) : Nat := ((flat g).filter id).length

/-- `pauli_is_onsite(g, i0)`: `~((count_nonzero(g[0:2*i0]) + count_nonzero(g[2*i0+2:])) >= 0.5)` -/
def isOnsite (g : PStr) (i0 : Nat) : Bool := !(decide (countNonzero (g.take i0) + countNonzero (g.drop (i0 + 1)) ≥ 1))

/-- `front(g)`: `argmax(g) // 2` — index of the first maximal flat entry, halved -/
def argmaxBits : List Bool → Nat
  | [] => 0
  | bs => match bs.findIdx? id with
    | some i => i
    | none => 0
def front (g : PStr) : Nat := argmaxBits (flat g) / 2

/-- `condense(g)`: `mask = (g[::2] + g[1::2]) >= 0.5` -/
def condense (g : PStr) : PStr × List Nat :=
  let mask := g.map fun q => decide (b2i q.1 + b2i q.2 ≥ 1)
  (gather mask g, (List.range g.length).filter fun i => mask.getD i false)

/-- `map_to_state`: `out[N:] = in[::2]`, `out[:N] = in[1::2]` -/
def evens {α} : List α → List α
  | a :: _ :: rest => a :: evens rest
  | [a] => [a]
  | [] => []
def odds {α} : List α → List α
  | _ :: b :: rest => b :: odds rest
  | _ => []
def mapToState (M : List Pauli) : List Pauli := odds M ++ evens M
/-- `state_to_map`: `out[::2] = in[N:]`, `out[1::2] = in[:N]` -/
def interleave {α} : List α → List α → List α
  | a :: as, b :: bs => a :: b :: interleave as bs
  | _, _ => []
def stateToMap (T : List Pauli) : List Pauli := interleave (T.drop (T.length / 2)) (T.take (T.length / 2))

/-- `batch_dot`: broadcasting `(gs1.unsqueeze(1) + gs2.unsqueeze(0)) % 2` flattened row-major, phases through `ipow_product` -/
def batchDot {C : Type} (cmul : C → C → C) (a b : List (Pauli × C)) : List (Pauli × C) :=
  (List.range (a.length * b.length)).filterMap fun k =>
    match a[k / b.length]?, b[k % b.length]? with
    | some x, some y => some (⟨xorS x.1.g y.1.g, ((x.1.p + y.1.p) + ipow x.1.g y.1.g) % 4⟩, cmul x.2 y.2)
    | _, _ => none

/-- `vectorizable_stabilizer_expect`, one observable: running accumulation over all `2N` rows with the two masks
    (anticommutation, active destabilizer), then `(-1)**(((pa - ps_obs)%4)//2)` times the product of `(acq+1)%2` over the
    rows below `N + r` -/
def vecExpectAux (T0 : List Pauli) (obs : PStr) (N r : Nat) : Nat → List Pauli → Pauli → Pauli
  | _, [], acc => acc
  | j, row :: rest, acc =>
    let a : Int := acqGrid row.g obs
    let m : Int := if j < N + r then 0 else 1
    let s := rowAt T0 (j - N)
    let acc' : Pauli :=
      ⟨(acc.g.zip s.g).map fun (x, y) => (((b2i x.1 + a * m * b2i y.1) % 2) != 0, ((b2i x.2 + a * m * b2i y.2) % 2) != 0),
       (acc.p + a * m * (s.p + ipow acc.g s.g)) % 4⟩
    vecExpectAux T0 obs N r (j + 1) rest acc'
def vecExpect1 (st : State) (obs : Pauli) : Int :=
  let N := st.N
  let acc := vecExpectAux st.rows obs.g N st.r 0 st.rows ⟨idStr N, 0⟩
  let sign : Int := if ((acc.p - obs.p) % 4) / 2 % 2 = 0 then 1 else -1
  let triv : Int := ((st.rows.take (N + st.r)).map fun row => (acqGrid row.g obs.g + 1) % 2).foldl (· * ·) 1
  sign * triv

/-! ## second batch: `ipow`, `acq`, `ps0`, `ipow_product`, `pauli_combine`, `pauli_transform`, `pauli_diagonalize1/2` -/

def vmul : List Int → List Int → List Int
  | a :: as, b :: bs => a * b :: vmul as bs
  | _, _ => []
def vadd : List Int → List Int → List Int
  | a :: as, b :: bs => (a + b) :: vadd as bs
  | _, _ => []
def vsub : List Int → List Int → List Int
  | a :: as, b :: bs => (a - b) :: vsub as bs
  | _, _ => []
def vsum : List Int → Int
  | [] => 0
  | a :: as => a + vsum as

/-- `ipow(g1, g2)`: `sum(g1z*g2x - g1x*g2z + 2*(floor(gx/2)*gz + gx*floor(gz/2))) % 4` with `gx = g1x+g2x`, `gz = g1z+g2z` -/
def ipow (g1 g2 : PStr) : Int :=
  let g1x := xs g1; let g1z := zs g1; let g2x := xs g2; let g2z := zs g2
  let gx := vadd g1x g2x; let gz := vadd g1z g2z
  let half (v : List Int) := v.map (· / 2)
  let t1 := vsub (vmul g1z g2x) (vmul g1x g2z)
  let t2 := (vadd (vmul (half gx) gz) (vmul gx (half gz))).map (2 * ·)
  vsum (vadd t1 t2) % 4

/-- `acq(g1, g2)`: `sum(gz1*gx2 - gx1*gz2) % 2` (one sum of differences) -/
def acq (g1 g2 : PStr) : Int := vsum (vsub (vmul (zs g1) (xs g2)) (vmul (xs g1) (zs g2))) % 2

/-- `ps0(gs)`, one row: `sum(gs[::2] * gs[1::2]) % 4` -/
def p0 (g : PStr) : Int := vsum (vmul (xs g) (zs g)) % 4

/-- `acq_mat(gs)`: `(matmul(gz, gx.T) - matmul(gx, gz.T)) % 2` -/
def acqMat (gs : List PStr) : List (List Int) := gs.map fun a => gs.map fun b => acqGrid a b

/-- `ipow_product(g1, g2)`: the `L1*L2` vector, row `i*L2 + j` pairs `g1[i]` with `g2[j]` -/
def ipowProduct (a b : List PStr) : List Int := a.flatMap fun g1 => b.map fun g2 => ipow g1 g2

/-- `pauli_combine(C, gs_in, ps_in)`, one output row: the columns `torch.nonzero` lists for that row, ascending -/
def combine (n : Nat) (c : List Bool) (rows : List Pauli) : Pauli :=
  ((List.range c.length).filter fun j => c.getD j false).foldl
    (fun acc j => match rows[j]? with
      | some r => ⟨xorS acc.g r.g, (acc.p + r.p + ipow acc.g r.g) % 4⟩
      | none => acc) ⟨idStr n, 0⟩

/-- `pauli_transform`: `ps_out = (ps_in + ps0(gs_in) + ps_combined) % 4` -/
def transform (M : List Pauli) (P : Pauli) : Pauli :=
  let c := combine (mapN M) (flat P.g) M
  ⟨c.g, (P.p + p0 P.g + c.p) % 4⟩

/-- `g2 = (g2 + acq(g, g2) * g) % 2` as written in `pauli_diagonalize2` (the sum-form `acq`) -/
def kick (g h : PStr) : PStr :=
  let mask : Int := acq g h
  (h.zip g).map fun (a, b) => (((b2i a.1 + mask * b2i b.1) % 2) != 0, ((b2i a.2 + mask * b2i b.2) % 2) != 0)

/-- first generator of `pauli_diagonalize1/2` (torch text: `front` is the argmax version) -/
def diagGenA (g1 : PStr) (i0 : Nat) : PStr :=
  let g :=
    if !(getQ g1 i0).2 then
      let i := front g1
      let q := getQ g1 i
      let x' := q.1 != q.2
      let z' := q.2 != x'
      setQ g1 i (x', z')
    else g1
  setQ g i0 (true, (getQ g i0).2)

/-- `pauli_diagonalize1(g1, i0)` -/
def diagonalize1 (g1 : PStr) (i0 : Nat) : List PStr :=
  if !(isOnsite g1 i0 && !(getQ g1 i0).1) then
    if !(getQ g1 i0).1 then
      let g := diagGenA g1 i0
      let g1' := xorS g1 g
      [g, diagGenB g1' i0]
    else [diagGenB g1 i0]
  else []

/-- `pauli_diagonalize2(g1, g2, i0)` -/
def diagonalize2 (g1 g2 : PStr) (i0 : Nat) : List PStr × PStr × PStr :=
  let (gs, g1, g2) :=
    if !(isOnsite g1 i0 && !(getQ g1 i0).1) then
      let (gs, g1, g2) :=
        if !(getQ g1 i0).1 then
          let g := diagGenA g1 i0
          ([g], xorS g1 g, kick g g2)
        else ([], g1, g2)
      let g := diagGenB g1 i0
      (gs ++ [g], xorS g1 g, kick g g2)
    else ([], g1, g2)
  if !isOnsite g2 i0 then
    let g := setQ g2 i0 (false, true)
    (gs ++ [g], g1, xorS g2 g)
  else (gs, g1, g2)

/-! ## `stabilizer_project` (vectorised): all anticommuting rows are found at once, the pivot is the first one below `N + r`,
the anticommuting rows after the pivot are updated in one statement (`acqs[0:p+1] = False; gs_stb[acqs] = (gs_stb[acqs] + gs_stb[p]) % 2`) -/
def project1 (st : State) (obs : PStr) : State :=
  let N := st.N
  let acqs := st.rows.map fun R => anti R.g obs
  match (List.range (2 * N)).find? (fun j => acqs.getD j false && decide (j < N + st.r)) with
  | none => st
  | some p =>
    let gp := (rowAt st.rows p).g
    let T1 := st.rows.mapIdx fun j R => if acqs.getD j false && decide (p < j) then (⟨xorS R.g gp, R.p⟩ : Pauli) else R
    let (T', r', _) := install T1 obs N st.r p gp
    ⟨T', r'⟩
def project (st : State) (obs : List PStr) : State := obs.foldl project1 st

/-! ## batched sampling: `random_pair(N, L)` draws `L` pairs at once, `random_pauli(N) = build_pauli_map(N, *random_pair(1, N))` -/
/-- `torch.randint(0, 2, (L, 2*N))`: `L` strings on `N` qubits, row-major -/
def takeRows (L N : Nat) (tape : List Bool) : Option (List PStr × List Bool) :=
  match takeBits (L * (2 * N)) tape with
  | none => none
  | some (b, t) => some ((List.range L).map fun k => unflat ((b.drop (k * (2 * N))).take (2 * N)), t)

/-- `g1[zero] = fresh`: the all-zero rows are replaced, in order, by the fresh rows -/
def fillZero : List PStr → List PStr → List PStr
  | [], _ => []
  | g :: gs, fresh =>
    if anyBit g then g :: fillZero gs fresh
    else match fresh with
      | [] => g :: fillZero gs []
      | f :: fs => f :: fillZero gs fs

/-- the (repaired) resampling loop: `while zero.any(): g1[zero] = randint(0, 2, (zero.sum(), 2N))`; fuel = tape length -/
def resampleRows (N : Nat) : Nat → List PStr → List Bool → Option (List PStr × List Bool)
  | 0, g1, tape => if g1.all anyBit then some (g1, tape) else none
  | fuel + 1, g1, tape =>
    if g1.all anyBit then some (g1, tape)
    else match takeRows (g1.filter fun g => !anyBit g).length N tape with
      | none => none
      | some (fresh, tape') => resampleRows N fuel (fillZero g1 fresh) tape'

/-- `impose_leading_noncommutivity` for one pair: the same fix-up as `pyclifford.utils.random_pair` -/
def impose (g1 g2 : PStr) : PStr :=
  if PC.acq g1 g2 = 0 then
    let i := PC.front g1
    let a := getQ g1 i
    let b := getQ g2 i
    setQ g2 i (b.1 != a.2, (b.2 != a.1) != a.2)
  else g2

/-- `random_pair(N, L)` -/
def randomPairs (N L : Nat) (tape : List Bool) : Option (List (PStr × PStr) × List Bool) :=
  match takeRows L N tape with
  | none => none
  | some (g1, t1) =>
    match takeRows L N t1 with
    | none => none
    | some (g2, t2) =>
      match resampleRows N t2.length g1 t2 with
      | none => none
      | some (g1', t3) => some ((g1'.zip g2).map fun ab => (ab.1, impose ab.1 ab.2), t3)

/-- `random_pauli(N)`: rows `2k`, `2k+1` are the `k`-th pair placed on qubit `k` (`build_pauli_map`).
    For `N = 1` `random_pair` squeezes the batch dimension away and `torch.stack((g1, g2), dim=1)` then pairs the entries the
    other way round: the 2×2 table comes out transposed (rows `(x1, x2)`, `(z1, z2)`), which is again a valid table. -/
def randomPauli (N : Nat) (tape : List Bool) : Option (List PStr × List Bool) :=
  match randomPairs 1 N tape with
  | none => none
  | some (pairs, t) =>
    if N = 1 then
      match pairs with
      | [ab] => some ([[((getQ ab.1 0).1, (getQ ab.2 0).1)], [((getQ ab.1 0).2, (getQ ab.2 0).2)]], t)
      | _ => none
    else some ((pairs.mapIdx fun k ab => [placeQ N k (getQ ab.1 0), placeQ N k (getQ ab.2 0)]).flatten, t)

end PC.T
