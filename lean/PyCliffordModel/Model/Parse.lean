import PyCliffordModel.Model.Diag
/-!
# Model/Parse — `pauli(obj, N)`, `Pauli.__repr__`, tokens, list selection

Mirrors the constructor `paulialg.pauli` (the loop with the shift counter `h`), `Pauli.__repr__` and
`PauliList.__getitem__`. A description is a list of `(position, symbol)` items: `enumerate(obj)` for
strings, lists and arrays, `obj.items()` for dicts.
-/
namespace PC

/-- a symbol of a description: a character of a string or an integer code -/
inductive Tok
  | ch (c : Char)
  | code (k : Int)
deriving DecidableEq, Repr

structure ParseSt where
  g : PStr
  h : Nat
  p : Int

/-- one iteration of the `for i, mu in inds` loop; `none` = `AssertionError` (`i-h < N`) -/
def parseStep (N : Nat) (s : ParseSt) (i : Int) (mu : Tok) : Option ParseSt :=
  if !(i - (s.h : Int) < (N : Int)) then none else
  let k := (i - (s.h : Int)).toNat
  let q := getQ s.g k
  let isI := mu == .code 0 || mu == .ch 'I'
  let isX := mu == .code 1 || mu == .ch 'X'
  let isY := mu == .code 2 || mu == .ch 'Y'
  let isZ := mu == .code 3 || mu == .ch 'Z'
  if isI then some s
  else if isX then some { s with g := setQ s.g k (true, q.2) }
  else if isY then some { s with g := setQ s.g k (true, true) }
  else if isZ then some { s with g := setQ s.g k (q.1, true) }
  else if mu == .code 4 || mu == .ch '+' then some { s with p := 0, h := s.h + 1 }
  else if mu == .code 5 || mu == .ch '-' then some { s with p := 2, h := s.h + 1 }
  else if mu == .ch 'i' then some { s with p := s.p + 1, h := s.h + 1 }
  else if mu == .code 6 then some { s with p := 1, h := s.h + 1 }
  else if mu == .code 7 then some { s with p := 3, h := s.h + 1 }
  else some { s with h := s.h + 1 }

def parseLoop (N : Nat) : ParseSt → List (Int × Tok) → Option ParseSt
  | s, [] => some s
  | s, (i, mu) :: rest =>
    match parseStep N s i mu with
    | none => none
    | some s' => parseLoop N s' rest

/-- `pauli(obj, N)` on the items of `obj` -/
def parseItems (N : Nat) (items : List (Int × Tok)) : Except Err Pauli :=
  match parseLoop N ⟨idStr N, 0, 0⟩ items with
  | none => .error .assertion
  | some s => .ok ⟨s.g.take (N - s.h), s.p⟩   -- `g[:-2*h]` (for `h = 0` the whole string)

/-- `pauli(str)` / `pauli(list)` / `pauli(array)`: `N = len(obj)`, items by `enumerate` -/
def parseSeq (toks : List Tok) : Except Err Pauli :=
  parseItems toks.length (toks.mapIdx fun i t => ((i : Int), t))

/-- `Pauli.__repr__` (for `N > 0` and `p ∈ {0,1,2,3}`) -/
def reprQ (q : Q) : Char :=
  match q with
  | (false, false) => 'I'
  | (false, true) => 'Z'
  | (true, false) => 'X'
  | (true, true) => 'Y'
def reprPauli (a : Pauli) : Option (List Char) :=
  let pre : Option (List Char) :=
    if a.p = 0 then some [' ', '+'] else if a.p = 1 then some ['+', 'i']
    else if a.p = 2 then some [' ', '-'] else if a.p = 3 then some ['-', 'i'] else none
  pre.map fun cs => cs ++ a.g.map reprQ

end PC
