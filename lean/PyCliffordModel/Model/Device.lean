import PyCliffordModel.Model.Circuit
/-!
# Model/Device — `CliffordCircuit.povm`, `ClassicalShadow.snapshots`

Mirrors `pyclifford/circuit.py::CliffordCircuit.povm` and `pyclifford/device.py::ClassicalShadow.snapshots`:
every snapshot is a fresh copy of the base state on which the active stabilizers of the back-evolved zero state
are measured in order. The base state is a value here; that the code really works on a copy is part of the
ownership model (C17) and of the harness.
-/
namespace PC

/-- one element of `circ.povm(nsample)`: `circ.backward(zero_state(N))` -/
def povm1 (c : Circ) (rnd : List CMap) : Except Err (Circ × State × List CMap) :=
  let z := zeroState c.N
  match c.backward ⟨⟨z.rows, z.r, true⟩, [], rnd⟩ none with
  | .error e => .error e
  | .ok (c', x) => .ok (c', ⟨x.obj.rows, x.obj.r⟩, x.rnd)

/-- one snapshot of `ClassicalShadow(base, circ).snapshots(nsample)`:
    `snapshot = base.copy(); snapshot.measure(povm)` (a state argument is replaced by its active stabilizers) -/
def snapshot1 (base : State) (c : Circ) (coins : List Bool) (rnd : List CMap) :
    Except Err (Circ × State × List Int × Nat × List Bool × List CMap) :=
  match povm1 c rnd with
  | .error e => .error e
  | .ok (c', z, rnd') =>
    match measure base z.active coins with
    | .error e => .error e
    | .ok (s, outs, k, cs) => .ok (c', s, outs, k, cs, rnd')

end PC
