import PyCliffordModel.Model.Z2
/-!
# Model/Stab — tableaux: `map_to_state`, `state_to_map`, `stabilizer_project / measure / expect /
projection_trace / postselection / entropy`, and the `StabilizerState` methods built on them

Mirrors `pyclifford/utils.py` ("map/state conversion", "stabilizer related") and
`pyclifford/stabilizer.py`. A tableau is the list of its `2N` rows (string and phase zipped) plus `r`:
rows `[0,r)` standby stabilizers, `[r,N)` active stabilizers, `[N,N+r)` standby destabilizers,
`[N+r,2N)` active destabilizers. Where the code moves strings only (`gs_stb[q] = gs_stb[p]`, the swaps)
the model moves strings only (`setG`, `swapG`); phases stay in their slots, as in the code.
The RNG of `stabilizer_measure` is an explicit list of coins.
-/
namespace PC

inductive Err
  | assertion | value | type | notImplemented | index | coin
deriving DecidableEq, Repr

structure State where
  rows : List Pauli
  r : Nat
deriving DecidableEq, Repr

def State.N (st : State) : Nat := st.rows.length / 2
/-- `StabilizerState.stabilizers`: rows `[r, N)` -/
def State.active (st : State) : List Pauli := (st.rows.take st.N).drop st.r

def rowAt (T : List Pauli) (j : Nat) : Pauli := T.getD j ⟨[], 0⟩

/-- `utils.map_to_state`: `out[N+i] = in[2i]`, `out[i] = in[2i+1]` -/
def mapToState (M : List Pauli) : List Pauli :=
  let n := M.length / 2
  (List.range n).map (fun i => rowAt M (2 * i + 1)) ++ (List.range n).map (fun i => rowAt M (2 * i))
/-- `utils.state_to_map`: `out[2i] = in[N+i]`, `out[2i+1] = in[i]` -/
def stateToMap (T : List Pauli) : List Pauli :=
  let n := T.length / 2
  (List.range n).flatMap fun i => [rowAt T (n + i), rowAt T i]

/-- `CliffordMap.to_state(r)` -/
def toState (M : List Pauli) (r : Nat) : State := ⟨mapToState M, r⟩
def zeroState (n : Nat) : State := toState (idMap n) 0
def maximallyMixed (n : Nat) : State := toState (idMap n) n
/-- `one_state(N)`: zero tableau strings, all phases 2 -/
def oneState (n : Nat) : State := ⟨(zeroState n).rows.map fun R => ⟨R.g, 2⟩, 0⟩

/-! ## the row scan shared by `stabilizer_project / measure / projection_trace / postselection` -/

/-- `gs[i] = g` (string only) -/
def setG (T : List Pauli) (i : Nat) (g : PStr) : List Pauli := T.set i ⟨g, (rowAt T i).p⟩
def setP (T : List Pauli) (i : Nat) (p : Int) : List Pauli := T.set i ⟨(rowAt T i).g, p⟩
/-- `gs[[i,j]] = gs[[j,i]]` (strings only) -/
def swapG (T : List Pauli) (i j : Nat) : List Pauli :=
  let gi := (rowAt T i).g
  let gj := (rowAt T j).g
  setG (setG T i gj) j gi

/-- The `for j in range(2*N)` loop. `T0` is the tableau at loop entry (used for `gs_stb[j-N]`, read only
while no pivot has been found, i.e. while nothing has been modified), `lim` is `N + r` (`N` in
`stabilizer_postselection`), `skip` the pre-selected pivot of the repaired `stabilizer_measure`
(`j != p`), `ph` whether phases are tracked (`False` for `stabilizer_project`).
State threaded through: pivot `(p, row p)` if `update`, accumulator `(ga, pa)`. -/
def scanAux (T0 : List Pauli) (obs : PStr) (N lim : Nat) (skip : Option Nat) (ph : Bool) :
    Nat → List Pauli → Option (Nat × Pauli) → Pauli → List Pauli × Option (Nat × Pauli) × Pauli
  | _, [], piv, acc => ([], piv, acc)
  | j, row :: rest, piv, acc =>
    if (skip != some j) && anti row.g obs then
      match piv with
      | some (_, rp) =>
        let row' : Pauli :=
          ⟨xorS row.g rp.g, if ph && j < N then (row.p + rp.p + ipow row.g rp.g) % 4 else row.p⟩
        let (rs, piv', acc') := scanAux T0 obs N lim skip ph (j + 1) rest piv acc
        (row' :: rs, piv', acc')
      | none =>
        if j < lim then
          let (rs, piv', acc') := scanAux T0 obs N lim skip ph (j + 1) rest (some (j, row)) acc
          (row :: rs, piv', acc')
        else
          let s := rowAt T0 (j - N)
          let acc2 : Pauli := ⟨xorS acc.g s.g, (acc.p + s.p + ipow acc.g s.g) % 4⟩
          let (rs, piv', acc') := scanAux T0 obs N lim skip ph (j + 1) rest piv acc2
          (row :: rs, piv', acc')
    else
      let (rs, piv', acc') := scanAux T0 obs N lim skip ph (j + 1) rest piv acc
      (row :: rs, piv', acc')

def scan (T : List Pauli) (obs : PStr) (N lim : Nat) (pre : Option Nat) (ph : Bool) :
    List Pauli × Option (Nat × Pauli) × Pauli :=
  let piv0 : Option (Nat × Pauli) := pre.map fun p => (p, rowAt T p)
  scanAux T obs N lim pre ph 0 T piv0 ⟨idStr N, 0⟩

/-- the block under `if update:`: move the pivot string to its dual, insert the observable, and when
`extend` bring the new stabilizer to slot `r-1`. Returns the tableau, the new `r` and the slot `p` that
now holds the observable. -/
def install (T : List Pauli) (obs : PStr) (N r p : Nat) (gp : PStr) : List Pauli × Nat × Nat :=
  let q := (p + N) % (2 * N)
  let T1 := setG (setG T q gp) p obs
  let extend := !(r ≤ p && p < N)
  if extend then
    let r' := r - 1
    if p = r' then (T1, r', r')
    else if q = r' then (swapG T1 p q, r', r')
    else
      let s := (r' + N) % (2 * N)
      (swapG (swapG T1 p r') q s, r', r')
  else (T1, r, p)

/-- first `j ∈ [lo, hi)` with `acq(gs_stb[j], obs)` -/
def findAnti (T : List Pauli) (obs : PStr) (lo hi : Nat) : Option Nat :=
  (List.range' lo (hi - lo)).find? fun j => anti (rowAt T j).g obs

/-- `stabilizer_project(gs_stb, gs_obs, r)` for one observable (strings only) -/
def project1 (st : State) (obs : PStr) : State :=
  let N := st.N
  match scan st.rows obs N (N + st.r) none false with
  | (T, some (p, rp), _) =>
    let (T', r', _) := install T obs N st.r p rp.g
    ⟨T', r'⟩
  | (T, none, _) => ⟨T, st.r⟩
def project (st : State) (obs : List PStr) : State := obs.foldl project1 st

/-- one observable of `stabilizer_measure` (with the active-pivot pre-scan).
    Result: new state, outcome bit, whether the outcome was random. -/
def measure1 (st : State) (obs : Pauli) (coin : Bool) : Except Err (State × Int × Bool) :=
  let N := st.N
  let pre := findAnti st.rows obs.g st.r N
  match scan st.rows obs.g N (N + st.r) pre true with
  | (T, some (p, rp), _) =>
    let (T', r', p') := install T obs.g N st.r p rp.g
    let c : Int := if coin then 2 else 0
    .ok (⟨setP T' p' c, r'⟩, ((c - obs.p) % 4) / 2, true)
  | (T, none, acc) =>
    if acc.g = obs.g then .ok (⟨T, st.r⟩, ((acc.p - obs.p) % 4) / 2, false)
    else .error .assertion

/-- `stabilizer_measure`: outcomes, number of random outcomes (`log2prob = -nrand`), unused coins -/
def measure : State → List Pauli → List Bool → Except Err (State × List Int × Nat × List Bool)
  | st, [], coins => .ok (st, [], 0, coins)
  | st, o :: os, coins =>
    let coin := coins.headD false
    match measure1 st o coin with
    | .error e => .error e
    | .ok (st', out, rnd) =>
      if rnd && coins.isEmpty then .error .coin else
      match measure st' os (if rnd then coins.tail else coins) with
      | .error e => .error e
      | .ok (st'', outs, k, cs) => .ok (st'', out :: outs, (if rnd then k + 1 else k), cs)

/-- the `for j` loop of `stabilizer_expect` for one observable -/
def expectAux (T0 : List Pauli) (obs : PStr) (N r : Nat) : Nat → List Pauli → Pauli → Option Pauli
  | _, [], acc => some acc
  | j, row :: rest, acc =>
    if anti row.g obs then
      if j < N + r then none
      else
        let s := rowAt T0 (j - N)
        expectAux T0 obs N r (j + 1) rest ⟨xorS acc.g s.g, (acc.p + s.p + ipow acc.g s.g) % 4⟩
    else expectAux T0 obs N r (j + 1) rest acc
/-- `stabilizer_expect`, one entry: `0`, or `(-1)**(((pa - ps_obs)%4)//2)` -/
def expect1 (st : State) (obs : Pauli) : Int :=
  match expectAux st.rows obs.g st.N st.r 0 st.rows ⟨idStr st.N, 0⟩ with
  | none => 0
  | some acc => if ((acc.p - obs.p) % 4) / 2 % 2 = 0 then 1 else -1
def expect (st : State) (obs : List Pauli) : List Int := obs.map (expect1 st)

/-- a dyadic trace / probability: `0` or `2^(-k)` -/
structure Dy where
  zero : Bool
  k : Nat
deriving DecidableEq, Repr

/-- one observable of `stabilizer_projection_trace` -/
def projTrace1 (st : State) (obs : Pauli) (t : Dy) : Except Err (State × Dy) :=
  let N := st.N
  match scan st.rows obs.g N (N + st.r) none true with
  | (T, some (p, rp), _) =>
    let (T', r', p') := install T obs.g N st.r p rp.g
    .ok (⟨setP T' p' obs.p, r'⟩, ⟨t.zero, t.k + 1⟩)
  | (T, none, acc) =>
    if acc.g = obs.g then .ok (⟨T, st.r⟩, if acc.p = obs.p then t else ⟨true, t.k⟩)
    else .error .assertion
def projTrace : State → List Pauli → Dy → Except Err (State × Dy)
  | st, [], t => .ok (st, t)
  | st, o :: os, t =>
    match projTrace1 st o t with
    | .error e => .error e
    | .ok (st', t') => projTrace st' os t'

/-- `StabilizerState.expect(sigma)` for a state argument: `Tr(rho sigma)`; receiver must be pure -/
def expectState (st sg : State) : Except Err Dy :=
  if st.r != 0 then .error .notImplemented else
  match projTrace ⟨st.rows, 0⟩ sg.active ⟨false, 0⟩ with
  | .error e => .error e
  | .ok (_, t) => .ok ⟨t.zero, t.k + sg.r⟩

/-- `StabilizerState.get_prob(readout)` (bits doubled into the phases of the zero tableau) -/
def getProb (st : State) (bits : List Bool) : Except Err Dy :=
  let z := zeroState st.N
  let rows := z.rows.mapIdx fun i R => if i < st.N then ⟨R.g, if bits.getD i false then 2 else 0⟩ else R
  expectState st ⟨rows, 0⟩

/-- `stabilizer_postselection` + `StabilizerState.postselect(P, res)`; `res ∈ {0,1}` -/
def postselect (st : State) (P : Pauli) (res : Nat) : Except Err (State × Dy) :=
  if st.r != 0 then .error .value else
  let N := st.N
  let pob : Int := (P.p + 2 * (res : Int)) % 4
  match scan st.rows P.g N N none true with
  | (T, some (p, rp), _) =>
    let q := (p + N) % (2 * N)
    let T1 := setG (setG T q rp.g) p P.g
    .ok (⟨setP T1 p pob, 0⟩, ⟨false, 1⟩)
  | (T, none, acc) =>
    if acc.g = P.g then .ok (⟨T, 0⟩, if acc.p = pob then ⟨false, 0⟩ else ⟨true, 0⟩)
    else .error .assertion

/-! ## entropy -/
def anyBit (g : PStr) : Bool := g.any fun q => q.1 || q.2

/-- `stabilizer_entropy(gs, mask)` with the repaired mixed branch -/
def entropy (gs : List PStr) (N : Nat) (m : List Bool) : Int :=
  let nm := m.map (!·)
  if gs.length = N then
    let across := gs.filter fun g => anyBit (gather m g) && anyBit (gather nm g)
    let sub := across.map (gather m)
    let am : BMat := (acqMat sub).map fun row => row.map (· != 0)
    ((z2rank am sub.length : Nat) : Int) / 2
  else
    let outside : BMat := gs.map fun g => flat (gather nm g)
    let supported : Int := (gs.length : Int) - (z2rank outside (2 * maskCount nm) : Nat)
    (maskCount m : Int) - supported

/-- `utils.mask(qubits, N)` (negative indices wrap as numpy does) -/
def mkMask (qubits : List Int) (N : Nat) : Except Err (List Bool) :=
  match qubits with
  | [] => .error .value
  | q0 :: qs =>
    if qs.foldl max q0 ≥ (N : Int) then .error .assertion
    else if qubits.any (· < -(N : Int)) then .error .index
    else
      let idx := qubits.map fun q => Int.toNat (if q < 0 then q + (N : Int) else q)
      .ok ((List.range N).map fun i => idx.contains i)

/-- `StabilizerState.entropy(subsys)` for an index list -/
def entropyIdx (st : State) (qubits : List Int) : Except Err Int :=
  if qubits.isEmpty then .ok 0 else
  match mkMask qubits st.N with
  | .error e => .error e
  | .ok m => .ok (entropy (st.active.map (·.g)) st.N m)
/-- … for a boolean mask -/
def entropyMask (st : State) (m : List Bool) : Int :=
  if m.isEmpty then 0 else entropy (st.active.map (·.g)) st.N m

/-! ## sampling and the density-matrix expansion -/
def sample (st : State) (C : List (List Bool)) : List Pauli := combineRows st.N C st.active

/-- all bit strings of width `w`, most significant bit first, in increasing order (`binary_repr(arange(2**w))`) -/
def allBits : Nat → List (List Bool)
  | 0 => [[]]
  | w + 1 => (allBits w).map (false :: ·) ++ (allBits w).map (true :: ·)
/-- rows of `density_matrix` (every one with coefficient `2^-N`) -/
def densityRows (st : State) : List Pauli := combineRows st.N (allBits (st.N - st.r)) st.active

/-! ## `stabilizer_state(*stabilizers)` -/
def stabilizerState (N : Nat) (stabs : List Pauli) : Except Err State :=
  let gs := stabs.map (·.g)
  if (acqMat gs).any fun row => row.any (· != 0) then .error .value else
  let st := project (maximallyMixed N) gs.reverse
  let slots := N - st.r
  if stabs.length = slots then
    .ok ⟨st.rows.mapIdx fun i R => if st.r ≤ i && i < N then ⟨R.g, (rowAt stabs (i - st.r)).p⟩ else R, st.r⟩
  else if stabs.length = 1 then
    .ok ⟨st.rows.mapIdx fun i R => if st.r ≤ i && i < N then ⟨R.g, (rowAt stabs 0).p⟩ else R, st.r⟩
  else .error .value

/-- `ghz_state(N)` -/
def ghzStabs (N : Nat) : List Pauli :=
  ((List.range (N - 1)).map fun i => (⟨(List.range N).map fun k => (false, k == i || k == i + 1), 0⟩ : Pauli))
    ++ [⟨List.replicate N (true, false), 0⟩]
def ghzState (N : Nat) : Except Err State := stabilizerState N (ghzStabs N)

end PC
