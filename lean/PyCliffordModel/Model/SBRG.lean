import PyCliffordModel.Model.Poly
import PyCliffordModel.Model.Diag
/-!
# Model/SBRG — `circuit.SBRG(hmdl, max_rate, tol)`

Mirrors `pyclifford/circuit.py::SBRG` statement by statement. Coefficients are exact Gaussian rationals (the code
uses complex128). Two things of the code are float-sensitive and are therefore *parameters* here:
* the index of the leading term (`numpy.argmax(numpy.abs(htmp.cs))`): the model takes the list of indices the code
  chose, one per executed iteration (`leads`), so every theorem holds for *any* choice of leading terms;
* `max_rate` and `tol` are given as rationals.
-/
namespace PC

/-- Python's `int(round(a / b))`: round half to even (`a, b ≥ 0`) -/
def roundHalfEven (a b : Nat) : Nat :=
  if b = 0 then 0 else
  let q := a / b
  let r2 := 2 * (a % b)
  if r2 < b then q else if r2 > b then q + 1 else if q % 2 = 0 then q else q + 1

structure SbrgCfg where
  rateNum : Nat := 2
  rateDen : Nat := 1
  tolNum : Nat := 1
  tolDen : Nat := 100000000

/-- `circ.forward(poly)`: the circuit acts on the operators of the terms, coefficients stay -/
def circApply (c : Circ) (ts : Poly) : Except Err Poly :=
  match c.forward ⟨⟨ts.map (·.1), 0, false⟩, [], []⟩ with
  | .error e => .error e
  | .ok (_, x) => .ok (x.obj.rows.zip (ts.map (·.2)))

/-- `htmp[leading].inverse()`: `Pauli(g) / (c * 1j**p)` -/
def monoInverse (t : Term) : Except Err PObj := (PObj.pauli ⟨t.1.g, 0⟩).div (t.2.mul (Cx.ipow t.1.p))

/-- does the term have an `X` component on qubit `i0` (`htmp.gs[:, 2*i0] != 0`) -/
def xAt (i0 : Nat) (t : Term) : Bool := (getQ t.1.g i0).1
/-- `numpy.all(htmp.gs[:, (2*i0+2):] == 0, -1)` -/
def trivialAfter (i0 : Nat) (t : Term) : Bool := !(anyBit (t.1.g.drop (i0 + 1)))

/-- one iteration of the SBRG loop at pivot qubit `i0` with leading index `lead` -/
def sbrgStep (cfg : SbrgCfg) (i0 lead : Nat) (htmp heff : Poly) (circ : Circ) : Except Err (Poly × Poly × Circ) :=
  match htmp[lead]? with
  | none => .error .index
  | some L =>
    match diagonalizePauli L.1.g i0 true with
    | .error e => .error e
    | .ok ci =>
      match circ.compose ci with
      | .error e => .error e
      | .ok circ' =>
        match circApply ci htmp with
        | .error e => .error e
        | .ok ht =>
          let anti := ht.filter (xAt i0)
          let next : Except Err Poly :=
            if anti.length ≠ 0 then
              let diag := ht.filter fun t => !(xAt i0 t)
              let lenMax := roundHalfEven (cfg.rateNum * anti.length) cfg.rateDen
              let prod := (reduce (polyMatmul anti anti) cfg.tolNum cfg.tolDen).take lenMax
              if prod.length ≠ 0 then
                match ht[lead]? with
                | none => .error .index
                | some L' =>
                  match monoInverse L' with
                  | .error e => .error e
                  | .ok inv =>
                    match inv.matmul (.poly prod) with
                    | .error e => .error e
                    | .ok m =>
                      match m.rmul ⟨1 / 2, 0⟩ with
                      | .error e => .error e
                      | .ok hm =>
                        match (PObj.poly diag).add hm with
                        | .ok (.poly r) => .ok r
                        | .ok (.zero _) => .ok []
                        | .ok _ => .error .type
                        | .error e => .error e
              else .ok diag
            else .ok ht
          match next with
          | .error e => .error e
          | .ok h2 =>
            .ok (h2.filter fun t => !(trivialAfter i0 t), polyAdd heff (h2.filter (trivialAfter i0)), circ')

/-- `for i0 in range(N)`: `k` iterations left, starting at `i0` -/
def sbrgLoop (cfg : SbrgCfg) : Nat → Nat → List Nat → Poly → Poly → Circ → Except Err (Poly × Circ)
  | 0, _, _, _, heff, circ => .ok (heff, circ)
  | k + 1, i0, leads, htmp, heff, circ =>
    if htmp.length = 0 then .ok (heff, circ) else
    match leads with
    | [] => .error .index
    | lead :: rest =>
      match sbrgStep cfg i0 lead htmp heff circ with
      | .error e => .error e
      | .ok (htmp', heff', circ') => sbrgLoop cfg k (i0 + 1) rest htmp' heff' circ'

/-- `SBRG(hmdl, max_rate, tol)` on `N` qubits: effective Hamiltonian and circuit -/
def sbrg (h : Poly) (N : Nat) (leads : List Nat) (cfg : SbrgCfg := {}) : Except Err (Poly × Circ) :=
  let heff0 : Poly := polySmul Cx.zero (polyIdentity N)            -- `pauli_zero(N)`
  let heff := polyAdd heff0 (h.filter fun t => !(anyBit t.1.g))     -- constant terms first
  let htmp := h.filter fun t => anyBit t.1.g
  sbrgLoop cfg N 0 leads htmp heff { N := N }

end PC
