import PyCliffordModel.Model.Parse
/-!
# Model/Poly — `PauliMonomial`, `PauliPolynomial` arithmetic, `reduce`, `trace`, operand dispatch

Mirrors the arithmetic dunder methods of `pyclifford/paulialg.py`, in the order of their
`isinstance` tests. Coefficients are exact Gaussian rationals (the code uses complex128; the
correspondence check uses dyadic coefficients, on which IEEE arithmetic is exact).
-/
namespace PC

structure Cx where
  re : Rat
  im : Rat
deriving DecidableEq, Repr

namespace Cx
def zero : Cx := ⟨0, 0⟩
def one : Cx := ⟨1, 0⟩
def add (a b : Cx) : Cx := ⟨a.re + b.re, a.im + b.im⟩
def neg (a : Cx) : Cx := ⟨-a.re, -a.im⟩
def mul (a b : Cx) : Cx := ⟨a.re * b.re - a.im * b.im, a.re * b.im + a.im * b.re⟩
def norm2 (a : Cx) : Rat := a.re * a.re + a.im * a.im
def inv (a : Cx) : Cx := let d := a.norm2; ⟨a.re / d, -a.im / d⟩
/-- `1j ** p` -/
def ipow (p : Int) : Cx :=
  match p % 4 with
  | 0 => ⟨1, 0⟩
  | 1 => ⟨0, 1⟩
  | 2 => ⟨-1, 0⟩
  | _ => ⟨0, -1⟩
def ofInt (k : Int) : Cx := ⟨k, 0⟩
end Cx

/-- a term `c · i^p σ[g]` -/
abbrev Term := Pauli × Cx
abbrev Poly := List Term

/-- lexicographic order on flat strings (`numpy.unique(axis=0)` sorts rows this way) -/
def ltBits : List Bool → List Bool → Bool
  | [], [] => false
  | [], _ :: _ => true
  | _ :: _, [] => false
  | a :: as, b :: bs => if a == b then ltBits as bs else (!a && b)

/-- insert a coefficient into a list sorted by string, summing on equal strings (`aggregate`) -/
def insertTerm (g : PStr) (c : Cx) : List (PStr × Cx) → List (PStr × Cx)
  | [] => [(g, c)]
  | (h, d) :: rest =>
    if g = h then (h, d.add c) :: rest
    else if ltBits (flat g) (flat h) then (g, c) :: (h, d) :: rest
    else (h, d) :: insertTerm g c rest

/-- `tol = 1e-10` as a rational, squared -/
def tolSq (tolNum tolDen : Nat) : Rat := ((tolNum : Rat) / (tolDen : Rat)) * ((tolNum : Rat) / (tolDen : Rat))

/-- `PauliPolynomial.reduce(tol)`: merge equal strings, fold phases into coefficients, drop `|c| ≤ tol` -/
def reduce (a : Poly) (tolNum : Nat := 1) (tolDen : Nat := 10000000000) : Poly :=
  let merged := a.foldl (fun acc t => insertTerm t.1.g (t.2.mul (Cx.ipow t.1.p)) acc) []
  (merged.filter fun gc => gc.2.norm2 > tolSq tolNum tolDen).map fun gc => (⟨gc.1, 0⟩, gc.2)

def polyNeg (a : Poly) : Poly := a.map fun t => (t.1, t.2.neg)
def polySmul (c : Cx) (a : Poly) : Poly := a.map fun t => (t.1, c.mul t.2)
/-- `PauliPolynomial.__matmul__` → `batch_dot` -/
def polyMatmul (a b : Poly) : Poly := batchDot Cx.mul a b
/-- `pauli_identity(N)` -/
def polyIdentity (N : Nat) : Poly := [(⟨idStr N, 0⟩, Cx.one)]
/-- `PauliPolynomial.__add__` for a polynomial operand: concatenate, then `reduce()` -/
def polyAdd (a b : Poly) : Poly := reduce (a ++ b)

/-- `Pauli.trace` / `PauliList.trace`: `2**N` on identity strings, the phase is ignored (D13, pinned by a test) -/
def traceStr (g : PStr) : Rat := if anyBit g then 0 else (2 : Rat) ^ g.length
/-- `PauliPolynomial.trace`: `cs.dot(PauliList.trace())` -/
def polyTrace (a : Poly) : Cx := a.foldl (fun acc t => acc.add (t.2.mul ⟨traceStr t.1.g, 0⟩)) Cx.zero

/-- the operand kinds the dunder methods distinguish -/
inductive PObj
  | pauli (a : Pauli)
  | mono (a : Pauli) (c : Cx)
  | poly (ts : Poly)
  | plist (ps : List Pauli)
  | num (c : Cx)
  /-- a polynomial without terms on `n` qubits (arrays of shape `(0, 2n)`): the library keeps the number of qubits -/
  | zero (n : Nat)
deriving Repr

/-- a polynomial result of the library: the term list, or the empty polynomial on `n` qubits -/
def normP (n : Nat) (ts : Poly) : PObj := if ts.isEmpty then .zero n else .poly ts

def PObj.N : PObj → Nat
  | .pauli a => a.g.length
  | .mono a _ => a.g.length
  | .poly ts => (ts.head?.map (·.1.g.length)).getD 0
  | .plist ps => (ps.head?.map (·.g.length)).getD 0
  | .num _ => 0
  | .zero n => n

/-- `as_polynomial()` where it exists -/
def PObj.asPoly : PObj → Option Poly
  | .pauli a => some [(a, Cx.one)]
  | .mono a c => some [(a, c)]
  | .poly ts => some ts
  | .plist ps => some (ps.map fun a => (a, Cx.one))
  | .num _ => none
  | .zero _ => some []

/-- is `c` one of `1, 1j, -1, -1j`? then which power of `i` -/
def unitPow (c : Cx) : Option Nat :=
  if c = ⟨1, 0⟩ then some 0 else if c = ⟨0, 1⟩ then some 1
  else if c = ⟨-1, 0⟩ then some 2 else if c = ⟨0, -1⟩ then some 3 else none

/-- `c * obj` (`__rmul__`) -/
def PObj.rmul (c : Cx) : PObj → Except Err PObj
  | .pauli a => match unitPow c with
    | some k => .ok (.pauli (smulI k a))
    | none => .ok (.mono a c)          -- `c * self.as_monomial()`
  | .mono a d => .ok (.mono a (c.mul d))
  | .poly ts => .ok (.poly (polySmul c ts))
  | .plist ps => match unitPow c with
    | some k => .ok (.plist (if k = 0 then ps else ps.map fun a => ⟨a.g, (a.p + (k : Int)) % 4⟩))
    | none => .error .notImplemented
  | .num d => .ok (.num (c.mul d))
  | .zero n => .ok (.zero n)

/-- `-obj` (`__neg__`) -/
def PObj.neg : PObj → PObj
  | .pauli a => .pauli (PC.neg a)
  | .mono a c => .mono a c.neg
  | .poly ts => .poly (polyNeg ts)
  | .plist ps => .plist (ps.map PC.neg)
  | .num c => .num c.neg
  | .zero n => .zero n

/-- `a + b` where `a` is Pauli / monomial / polynomial (`self.as_polynomial() + other`) -/
def PObj.add (a b : PObj) : Except Err PObj :=
  match a with
  | .plist ps => match b with     -- no `PauliList.__add__`: Python falls back to `b.__radd__(a)` = `b + a`
    | .plist _ => .error .type
    | .num _ => .error .type
    | _ => match b.asPoly with
      | some pb => .ok (normP b.N (polyAdd pb (ps.map fun x => (x, Cx.one))))
      | none => .error .type
  | .num c => match b with
    | .num d => .ok (.num (c.add d))
    | .plist _ => .error .type
    | _ => match b.asPoly with        -- `__radd__`: `self + other`
      | some pb => .ok (normP b.N (polyAdd pb (polySmul c (polyIdentity b.N))))
      | none => .error .type
  | _ =>
    match a.asPoly with
    | none => .error .type
    | some pa =>
      match b with
      | .num c => .ok (normP a.N (polyAdd pa (polySmul c (polyIdentity a.N))))
      | _ => match b.asPoly with
        | some pb => .ok (normP a.N (polyAdd pa pb))
        | none => .error .type

/-- `a - b` = `a + (-b)` -/
def PObj.sub (a b : PObj) : Except Err PObj :=
  match a with
  | .plist _ => .error .type      -- no `__sub__` on PauliList and no `__rsub__` anywhere
  | .num c => match b with
    | .num d => .ok (.num (c.add d.neg))
    | _ => .error .type
  | _ => a.add b.neg

/-- `a / c` = `(1/c) * a` -/
def PObj.div (a : PObj) (c : Cx) : Except Err PObj := a.rmul c.inv

/-- `a @ b` (`__matmul__`, with the repaired order of tests in `Pauli.__matmul__`) -/
def PObj.matmul (a b : PObj) : Except Err PObj :=
  match a, b with
  | .pauli x, .pauli y => .ok (.pauli (mul x y))
  | .pauli _, .mono .. | .pauli _, .poly _ | .pauli _, .zero _
  | .mono .., .pauli _ | .mono .., .mono .. | .mono .., .poly _ | .mono .., .zero _
  | .poly _, .pauli _ | .poly _, .mono .. | .poly _, .poly _ | .poly _, .zero _
  | .zero _, .pauli _ | .zero _, .mono .. | .zero _, .poly _ | .zero _, .zero _ =>
    match a.asPoly, b.asPoly with
    | some pa, some pb => .ok (normP a.N (polyMatmul pa pb))
    | _, _ => .error .notImplemented
  | .plist _, _ => .error .type
  | .num _, _ => .error .type
  | _, _ => .error .notImplemented

/-- `obj.trace()` -/
def PObj.trace : PObj → Except Err Cx
  | .pauli a => .ok ⟨traceStr a.g, 0⟩
  | .mono a c => .ok (c.mul ⟨traceStr a.g, 0⟩)
  | .poly ts => .ok (polyTrace ts)
  | .plist _ => .error .type
  | .num _ => .error .type
  | .zero _ => .ok Cx.zero

end PC

namespace PC
/-- `StabilizerState.expect(PauliPolynomial)` (repaired): strings evaluated phase-free, `i^p` folded into the coefficient -/
def expectPoly (st : State) (a : Poly) : Cx :=
  a.foldl (fun acc t => acc.add ((t.2.mul (Cx.ipow t.1.p)).mul (Cx.ofInt (expect1 st ⟨t.1.g, 0⟩)))) Cx.zero

/-- `StabilizerState.density_matrix`: `PauliPolynomial(gs, ps) / 2**N` with `(gs, ps)` the products of the active stabilizers
    selected by every bit string (`densityRows`) -/
def densityPoly (st : State) : Poly :=
  polySmul (Cx.inv ⟨(2 : Rat) ^ st.N, 0⟩) ((densityRows st).map fun R => (R, Cx.one))
end PC
