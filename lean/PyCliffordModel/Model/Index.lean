import PyCliffordModel.Model.Stab
/-!
# Model/Index — `PauliList.__getitem__` / `PauliPolynomial.__getitem__`: integer, slice, boolean mask, index array

The code hands the index expression to numpy on the row axis (`self.gs[item]`, `self.ps[item]`), so the model is
Python's list arithmetic on the rows: negative integers count from the end, slices follow `slice.indices(L)`,
a boolean mask of length `L` keeps the rows where it is true, an index array picks rows (negative entries allowed).
-/
namespace PC

/-- an integer index into `L` rows: `IndexError` outside `[-L, L)` -/
def normIdx (L : Nat) (i : Int) : Except Err Nat :=
  if 0 ≤ i ∧ i < (L : Int) then .ok i.toNat
  else if -(L : Int) ≤ i ∧ i < 0 then .ok (i + (L : Int)).toNat
  else .error .index

/-- one bound of `slice.indices(L)` (CPython `PySlice_AdjustIndices`) -/
def sliceBound (L : Nat) (step : Int) (v : Option Int) (isStart : Bool) : Int :=
  let lower : Int := if step < 0 then -1 else 0
  let upper : Int := if step < 0 then (L : Int) - 1 else (L : Int)
  match v with
  | none => if isStart then (if step < 0 then upper else lower) else (if step < 0 then lower else upper)
  | some x =>
    if x < 0 then (if x + (L : Int) < lower then lower else x + (L : Int))
    else (if x > upper then upper else x)

/-- `range(start, stop, step)` as a list, `fuel` bounds the length -/
def rangeFrom (stop step : Int) : Nat → Int → List Int
  | 0, _ => []
  | fuel + 1, cur =>
    if (step > 0 ∧ cur < stop) ∨ (step < 0 ∧ cur > stop) then cur :: rangeFrom stop step fuel (cur + step) else []

/-- the row indices selected by `start:stop:step` among `L` rows (`ValueError` for step 0) -/
def sliceIndices (L : Nat) (start stop : Option Int) (step : Int) : Except Err (List Nat) :=
  if step = 0 then .error .value else
  let s := sliceBound L step start true
  let e := sliceBound L step stop false
  .ok ((rangeFrom e step (L + 1) s).map Int.toNat)

def getInt (rows : List Pauli) (i : Int) : Except Err Pauli :=
  match normIdx rows.length i with
  | .error e => .error e
  | .ok k => .ok (rowAt rows k)

def getSlice (rows : List Pauli) (start stop : Option Int) (step : Int) : Except Err (List Pauli) :=
  match sliceIndices rows.length start stop step with
  | .error e => .error e
  | .ok idx => .ok (idx.map (rowAt rows))

/-- boolean mask: numpy raises `IndexError` when the mask length differs from `L` (an empty mask selects nothing, whatever `L`) -/
def getMask (rows : List Pauli) (m : List Bool) : Except Err (List Pauli) :=
  if m.isEmpty then .ok []
  else if m.length ≠ rows.length then .error .index
  else .ok ((rows.zip m).filterMap fun rb => if rb.2 then some rb.1 else none)

/-- index array / index list -/
def getIdx (rows : List Pauli) (idx : List Int) : Except Err (List Pauli) :=
  idx.mapM (getInt rows)

end PC
