import PyCliffordModel.Model.Circuit
/-!
# Model/Diag — `front`, `condense`, `pauli_is_onsite`, `pauli_diagonalize1/2`, `random_pair`,
`random_pauli`, `random_clifford`, `clifford_rotation_gate`, `diagonalize`

Mirrors `pyclifford/utils.py` ("diagonalization", "random Clifford") and `circuit.diagonalize`.
The RNG is an explicit tape of bits: `numpy.random.randint(0,2,k)` takes the next `k` bits.
-/
namespace PC

def nontrivQ (q : Q) : Bool := q.1 || q.2

/-- `utils.front(g)`: first non-trivial qubit, `N-1` for the identity string -/
def front (g : PStr) : Nat :=
  match g.findIdx? nontrivQ with
  | some i => i
  | none => g.length - 1

/-- `utils.condense(g)` -/
def condense (g : PStr) : PStr × List Nat :=
  (g.filter nontrivQ, (List.range g.length).filter fun i => nontrivQ (g.getD i (false, false)))

/-- `utils.pauli_is_onsite(g, i0)` -/
def isOnsite (g : PStr) (i0 : Nat) : Bool :=
  (List.range g.length).all fun i => i == i0 || !nontrivQ (g.getD i (false, false))

def getQ (g : PStr) (i : Nat) : Q := g.getD i (false, false)
def setQ (g : PStr) (i : Nat) (q : Q) : PStr := g.set i q

/-- first stage of `pauli_diagonalize1/2`: the generator `g` that makes `g1` anticommute with `Z_{i0}`
    (only called when `g1[2*i0] == 0`) -/
def diagGenA (g1 : PStr) (i0 : Nat) : PStr :=
  let g :=
    if !(getQ g1 i0).2 then
      let i := front g1
      let q := getQ g1 i
      let x' := q.1 != q.2           -- g[2i] = (g[2i] + g[2i+1]) % 2
      let z' := q.2 != x'            -- g[2i+1] = (g[2i+1] + g[2i]) % 2  (new g[2i])
      setQ g1 i (x', z')
    else g1
  setQ g i0 (true, (getQ g i0).2)   -- g[2*i0] = 1
/-- second stage: `g = g1 (*) Z_{i0}` -/
def diagGenB (g1 : PStr) (i0 : Nat) : PStr := setQ g1 i0 ((getQ g1 i0).1, !(getQ g1 i0).2)

/-- `utils.pauli_diagonalize1(g1, i0)` -/
def diagonalize1 (g1 : PStr) (i0 : Nat) : List PStr :=
  if !(isOnsite g1 i0 && !(getQ g1 i0).1) then
    if !(getQ g1 i0).1 then
      let g := diagGenA g1 i0
      let g1' := xorS g1 g
      [g, diagGenB g1' i0]
    else [diagGenB g1 i0]
  else []

/-- `utils.pauli_diagonalize2(g1, g2, i0)`: generators and the transformed pair -/
def diagonalize2 (g1 g2 : PStr) (i0 : Nat) : List PStr × PStr × PStr :=
  let (gs, g1, g2) :=
    if !(isOnsite g1 i0 && !(getQ g1 i0).1) then
      let (gs, g1, g2) :=
        if !(getQ g1 i0).1 then
          let g := diagGenA g1 i0
          ([g], xorS g1 g, rotateSignless g g2)
        else ([], g1, g2)
      let g := diagGenB g1 i0
      (gs ++ [g], xorS g1 g, rotateSignless g g2)
    else ([], g1, g2)
  if !isOnsite g2 i0 then
    let g := setQ g2 i0 (false, true)
    (gs ++ [g], g1, xorS g2 g)
  else (gs, g1, g2)

/-! ## random sampling as a function of the tape -/
def takeBits (k : Nat) (tape : List Bool) : Option (List Bool × List Bool) :=
  if tape.length < k then none else some (tape.take k, tape.drop k)

/-- resampling loop of `random_pair`: `while (g1 == 0).all(): g1 = randint(…)`; fuel = tape length -/
def resample (n : Nat) : Nat → PStr → List Bool → Option (PStr × List Bool)
  | 0, g1, tape => if anyBit g1 then some (g1, tape) else none
  | fuel + 1, g1, tape =>
    if anyBit g1 then some (g1, tape)
    else match takeBits (2 * n) tape with
      | none => none
      | some (b, tape') => resample n fuel (unflat b) tape'

/-- `utils.random_pair(N)` -/
def randomPair (n : Nat) (tape : List Bool) : Option ((PStr × PStr) × List Bool) :=
  match takeBits (2 * n) tape with
  | none => none
  | some (b1, t1) =>
    match takeBits (2 * n) t1 with
    | none => none
    | some (b2, t2) =>
      match resample n t2.length (unflat b1) t2 with
      | none => none
      | some (g1, t3) =>
        let g2 := unflat b2
        if acq g1 g2 = 0 then
          let i := front g1
          let a := getQ g1 i
          let b := getQ g2 i
          let x' := b.1 != a.2                 -- g2[2i]   = (g2[2i] + g1[2i+1]) % 2
          let z' := (b.2 != a.1) != a.2        -- g2[2i+1] = (g2[2i+1] + g1[2i] + g1[2i+1]) % 2
          some ((g1, setQ g2 i (x', z')), t3)
        else some ((g1, g2), t3)

/-- place a one-qubit string at qubit `i` of `n` -/
def placeQ (n i : Nat) (q : Q) : PStr := (List.range n).map fun k => if k == i then q else (false, false)

/-- `utils.random_pauli(N)` -/
def randomPauli (n : Nat) : Nat → List Bool → Option (List PStr × List Bool)
  | 0, tape => some ([], tape)
  | k + 1, tape =>
    match randomPauli n k tape with
    | none => none
    | some (rows, t) =>
      match randomPair 1 t with
      | none => none
      | some ((g1, g2), t') => some (rows ++ [placeQ n k (getQ g1 0), placeQ n k (getQ g2 0)], t')

/-- `utils.random_clifford(N)`: strings of the map rows (phases are drawn separately) -/
def randomClifford : Nat → List Bool → Option (List PStr × List Bool)
  | 0, tape => some ([], tape)
  | n + 1, tape =>
    match randomPair (n + 1) tape with
    | none => none
    | some ((g1, g2), t) =>
      if n = 0 then some ([g1, g2], t)
      else
        let (gens, g1', g2') := diagonalize2 g1 g2 0
        match randomClifford n t with
        | none => none
        | some (sub, t') =>
          let rows := g1' :: g2' :: sub.map fun r => (false, false) :: r
          some (gens.reverse.foldl (fun rs g => rs.map (rotateSignless g)) rows, t')

/-- phases `2 * randint(0,2,2N)` -/
def signedMap (rows : List PStr) (signs : List Bool) : CMap :=
  rows.mapIdx fun i g => ⟨g, if signs.getD i false then 2 else 0⟩

/-! ## gate and circuit constructors -/
/-- `clifford_rotation_gate(generator, qubits)`; `base` = `None` or the qubit list -/
def rotationGate (G : Pauli) (base : Option (List Nat)) : Gate :=
  let (gc, sup) := condense G.g
  let qubits := match base with
    | none => sup
    | some b => sup.map fun i => b.getD i 0
  { qubits := qubits, gen := some ⟨gc, G.p⟩ }

/-- `diagonalize(obj, i0, causal)` for a Pauli operator on `N` qubits -/
def diagonalizePauli (g : PStr) (i0 : Nat) (causal : Bool) : Except Err Circ :=
  let N := g.length
  let gates : List Gate :=
    if causal then
      (diagonalize1 (g.drop i0) 0).map fun h => rotationGate ⟨h, 0⟩ (some ((List.range (N - i0)).map (· + i0)))
    else (diagonalize1 g i0).map fun h => rotationGate ⟨h, 0⟩ none
  gates.foldlM (fun c gt => c.take gt) { N := N }

/-- `diagonalize(state)`: one global gate whose backward map is the encoding map -/
def diagonalizeState (st : State) : Except Err Circ :=
  ({ N := st.N } : Circ).take { qubits := List.range st.N, bmap := some (stateToMap st.rows) }

end PC
