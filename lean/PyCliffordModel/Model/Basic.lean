/-!
# Model/Basic — Pauli strings, phases, the kernels `p0 acq ipow ps0` and the product

Mirrors `pyclifford/utils.py` (section "Pauli foundation") and `Pauli.__matmul__`.
A Pauli string is `g = [x0,z0,x1,z1,…]` in the code; here it is the list of its qubits `(x_k,z_k)`.
Entries are bits (the code documents "binary repr" and never checks); integer arithmetic of the
code is kept: bits are cast to `Int` and the code's formulas are written out literally, `%` is
`Int.emod` (= Python `%` for a positive modulus), `//` is `Int.ediv` (= Python `//` for a positive divisor).
No imports: this file is part of the compiled driver.
-/
namespace PC

/-- one qubit of a Pauli string: `(x, z)` -/
abbrev Q := Bool × Bool
/-- a Pauli string on `N` qubits (`N` = length) -/
abbrev PStr := List Q

@[inline] def b2i (b : Bool) : Int := if b then 1 else 0

/-- an operator `i^p σ[g]` (the code's `Pauli(g, p)`) -/
structure Pauli where
  g : PStr
  p : Int
deriving DecidableEq, Repr, Inhabited

/-- the identity string on `n` qubits -/
def idStr (n : Nat) : PStr := List.replicate n (false, false)

/-! ## `utils.p0`, `utils.ps0` -/
def p0Sum : PStr → Int
  | [] => 0
  | a :: as => b2i a.1 * b2i a.2 + p0Sum as
/-- `utils.p0(g)` and one entry of `utils.ps0(gs)` -/
def p0 (g : PStr) : Int := p0Sum g % 4
def ps0 (gs : List PStr) : List Int := gs.map p0

/-! ## `utils.acq` -/
def acqQ (a b : Q) : Int := b2i a.2 * b2i b.1 - b2i a.1 * b2i b.2
def acqSum : PStr → PStr → Int
  | a :: as, b :: bs => acqQ a b + acqSum as bs
  | _, _ => 0
/-- `utils.acq(g1, g2)`: `0` commute, `1` anticommute -/
def acq (g1 g2 : PStr) : Int := acqSum g1 g2 % 2
/-- the truth value `if acq(g1, g2):` of the code -/
def anti (g1 g2 : PStr) : Bool := acq g1 g2 != 0

/-- `utils.acq_mat(gs)` -/
def acqMat (gs : List PStr) : List (List Int) := gs.map fun a => gs.map fun b => acq a b

/-! ## `utils.ipow` -/
def ipowQ (a b : Q) : Int :=
  let g1x := b2i a.1; let g1z := b2i a.2; let g2x := b2i b.1; let g2z := b2i b.2
  let gx := g1x + g2x; let gz := g1z + g2z
  g1z * g2x - g1x * g2z + 2 * ((gx / 2) * gz + gx * (gz / 2))
def ipowSum : PStr → PStr → Int
  | a :: as, b :: bs => ipowQ a b + ipowSum as bs
  | _, _ => 0
/-- `utils.ipow(g1, g2)` -/
def ipow (g1 g2 : PStr) : Int := ipowSum g1 g2 % 4

/-! ## `(g1 + g2) % 2` -/
def xorQ (a b : Q) : Q := (a.1 != b.1, a.2 != b.2)
def xorS : PStr → PStr → PStr
  | a :: as, b :: bs => xorQ a b :: xorS as bs
  | _, _ => []

/-- `Pauli.__matmul__` for two `Pauli`s: `p = (p1 + p2 + ipow(g1,g2)) % 4`, `g = (g1+g2) % 2` -/
def mul (a b : Pauli) : Pauli := ⟨xorS a.g b.g, (a.p + b.p + ipow a.g b.g) % 4⟩

/-- `Pauli.__neg__`: phase `+2` -/
def neg (a : Pauli) : Pauli := ⟨a.g, (a.p + 2) % 4⟩
/-- `c * Pauli` for `c = i^k`, `k ∈ {0,1,2,3}`: `__rmul__` with `1, 1j, -1, -1j`.
    (for `c = 1` the code returns `self` unchanged, i.e. without reducing the phase) -/
def smulI (k : Nat) (a : Pauli) : Pauli := if k % 4 = 0 then a else ⟨a.g, (a.p + (k % 4 : Nat)) % 4⟩

/-- weight: number of non-identity qubits (`Pauli.weight`) -/
def weight (g : PStr) : Nat := (g.filter fun q => q.1 || q.2).length

/-- `utils.pauli_tokenize`, one row: `3*z + (-1)**z * x` per qubit, then `4 + x*(11-9x+2x²)//2` of the phase -/
def tokQ (q : Q) : Int := 3 * b2i q.2 + (if q.2 then -1 else 1) * b2i q.1
def tokP (x : Int) : Int := 4 + x * (11 - 9 * x + 2 * x ^ 2) / 2
def tokenize (a : Pauli) : List Int := a.g.map tokQ ++ [tokP a.p]

end PC
