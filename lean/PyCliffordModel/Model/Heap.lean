/-!
# Model/Heap — ownership of array cells (for C17: copies, queries, in-place operations)

Every library object (Pauli, PauliList, polynomial, map, state, gate, layer, circuit) owns a list of *cells*: its numpy
arrays (`g`/`gs`, `ps`, `cs`) and scalar fields (`p`, `c`, `r`, qubit tuples), and — for containers — the cells of the objects
it contains. A heap maps cells to contents; cells `≥ next` have never been allocated.
Effect signatures of the public methods (validated against the implementation by observation on every run, see
`harness/props/c17.py`):
* `copy()` — reads the receiver's cells, allocates fresh cells holding the same contents, writes nothing;
* queries (`expect`, `entropy`, `sample`, `get_prob`, `density_matrix`, `compose`, `inverse`, `to_state`, `to_map`,
  `__repr__`, `diagonalize`, `stabilizer_state(list)`) — read receiver and arguments, write nothing, return fresh cells;
* in-place operations (`rotate_by`, `transform_by`, `measure`, `postselect`, `gate.forward/backward(obj)`) — write only
  cells of the receiver (for gates: of the transformed object, plus the gate's own lazily cached inverse-map cell).
-/
namespace PC.Heap

abbrev Cell := Nat

structure Heap where
  val : Nat → List Int
  next : Nat

/-- an object: the cells it owns -/
abbrev Obj := List Nat

/-- the observable value of an object -/
def read (h : Heap) (o : Obj) : List (List Int) := o.map h.val

/-- all cells of `o` have been allocated -/
def Owned (h : Heap) (o : Obj) : Prop := ∀ c : Nat, c ∈ o → c < h.next

/-- allocate fresh cells with the given contents -/
def alloc (h : Heap) : List (List Int) → Heap × Obj
  | [] => (h, [])
  | v :: vs =>
    let h1 : Heap := ⟨fun c => if c = h.next then v else h.val c, h.next + 1⟩
    let (h2, o) := alloc h1 vs
    (h2, h.next :: o)

/-- `copy()`: fresh cells with the receiver's contents -/
def copy (h : Heap) (o : Obj) : Heap × Obj := alloc h (read h o)

/-- an in-place operation: new contents for the cells of the receiver (computed from the whole heap: receiver and arguments) -/
def writeCells (h : Heap) : Obj → List (List Int) → Heap
  | c :: cs, v :: vs => writeCells ⟨fun d => if d = c then v else h.val d, h.next⟩ cs vs
  | _, _ => h

/-- an in-place operation with effect signature "writes only the receiver": `f` computes the new contents -/
structure InPlace where
  recv : Obj
  f : Heap → List (List Int)

def InPlace.run (op : InPlace) (h : Heap) : Heap := writeCells h op.recv (op.f h)

def disjoint (a b : Obj) : Prop := ∀ c : Nat, c ∈ a → c ∉ b

end PC.Heap
