import PyCliffordModel.Model.Kernels
/-!
# Model/Z2 — `z2rank`, `z2inv`, `CliffordMap.inverse`

Mirrors `pyclifford/utils.py` ("Z2 linear algebra"). Matrices are lists of rows of bits. In-place
updates become returned matrices; the column loops are recursion on the column index. Partial-row
operations (`a[j, i:] += a[i, i:]`, the swap over columns `i..`) are kept partial, as in the code.
-/
namespace PC

abbrev BMat := List (List Bool)

def BMat.get (a : BMat) (r c : Nat) : Bool := (a.getD r []).getD c false

/-- `x[i:] = (x[i:] + y[i:]) % 2` -/
def xorFrom (i : Nat) (x y : List Bool) : List Bool :=
  x.take i ++ List.zipWith (fun a b => a != b) (x.drop i) (y.drop i)

/-- swap rows `r` and `k` on the columns `i..` (`for j in range(i, nc): tmp = …`) -/
def swapFrom (i r k : Nat) (a : BMat) : BMat :=
  let ar := a.getD r []
  let ak := a.getD k []
  (a.set r (ar.take i ++ ak.drop i)).set k (ak.take i ++ ar.drop i)

/-- `for k in range(start, nr): if a[k, i]: found; break` with `fuel = nr - start` -/
def findPivot (a : BMat) (i : Nat) : Nat → Nat → Option Nat
  | _, 0 => none
  | k, d + 1 => if a.get k i then some k else findPivot a i (k + 1) d

/-- `for j in range(r+1, nr): if a[j,i]: a[j, i:] = (a[j, i:] + a[r, i:]) % 2` -/
def elimBelow (i r : Nat) (a : BMat) : BMat :=
  let ar := a.getD r []
  a.mapIdx fun j row => if r < j && row.getD i false then xorFrom i row ar else row

/-- `for j in range(i): if a[j,i]: a[j, i:] = (a[j, i:] + a[i, i:]) % 2` -/
def elimAbove (i : Nat) (a : BMat) : BMat :=
  let ai := a.getD i []
  a.mapIdx fun j row => if j < i && row.getD i false then xorFrom i row ai else row

/-- body of `z2rank`, column `i`, current rank `r`; `fuel` = remaining columns -/
def z2rankAux (nr : Nat) : Nat → Nat → Nat → BMat → Nat
  | 0, _, r, _ => r
  | fuel + 1, i, r, a =>
    if r = nr then r
    else if a.get r i then z2rankAux nr fuel (i + 1) (r + 1) (elimBelow i r a)
    else match findPivot a i (r + 1) (nr - (r + 1)) with
      | some k => z2rankAux nr fuel (i + 1) (r + 1) (elimBelow i r (swapFrom i r k a))
      | none => z2rankAux nr fuel (i + 1) r a

/-- `utils.z2rank(mat)`; `nc` = number of columns -/
def z2rank (a : BMat) (nc : Nat) : Nat := z2rankAux a.length nc 0 0 a

/-- forward pass of `z2inv` from column `i`; `none` = `ValueError('binary matrix not invertable.')` -/
def z2invFwd (n : Nat) : Nat → Nat → BMat → Option BMat
  | 0, _, a => some a
  | fuel + 1, i, a =>
    if a.get i i then z2invFwd n fuel (i + 1) (elimBelow i i a)
    else match findPivot a i (i + 1) (n - (i + 1)) with
      | some k => z2invFwd n fuel (i + 1) (elimBelow i i (swapFrom i i k a))
      | none => none

/-- backward pass: `for i in range(n-1, 0, -1)` -/
def z2invBwd : Nat → BMat → BMat
  | 0, a => a
  | i + 1, a => z2invBwd i (elimAbove (i + 1) a)

def unitRow (n i : Nat) : List Bool := (List.range n).map fun c => c == i

/-- `utils.z2inv(mat)` on an `n × n` matrix -/
def z2inv (m : BMat) : Option BMat :=
  let n := m.length
  let a0 : BMat := m.mapIdx fun i row => row ++ unitRow n i
  match z2invFwd n n 0 a0 with
  | none => none
  | some a => some ((z2invBwd (n - 1) a).map fun row => row.drop n)

/-- `CliffordMap.inverse()` -/
def inverse (M : List Pauli) : Option (List Pauli) :=
  match z2inv (M.map fun R => flat R.g) with
  | none => none
  | some inv =>
    let n := mapN M
    some (inv.map fun c =>
      let mis := combine n c M
      ⟨unflat c, (- mis.p - p0 (unflat c)) % 4⟩)

end PC
