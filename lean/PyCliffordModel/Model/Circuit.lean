import PyCliffordModel.Model.Stab
/-!
# Model/Circuit — `CliffordGate`, `CliffordLayer`, `MeasureLayer`, `CliffordCircuit`, `Circuit`

Mirrors `pyclifford/circuit.py`. The linked list of layers is a `List Layer` in forward order.
`CliffordCircuit` and `Circuit` share one model: on programs without measurement layers their
`take / forward / backward / compile` are textually the same. An object transformed by a circuit is
its list of rows (`PauliList`, `PauliPolynomial` terms, or tableau rows); states also carry `r`.
A gate without generator and maps draws a random map at each call: the model takes that map from an
explicit supply (the harness records what the code drew).
-/
namespace PC

abbrev CMap := List Pauli

structure Gate where
  qubits : List Nat
  gen : Option Pauli := none
  fmap : Option CMap := none
  bmap : Option CMap := none
deriving DecidableEq, Repr

def Gate.n (g : Gate) : Nat := g.qubits.length
/-- `CliffordGate.independent_from` -/
def Gate.indep (g h : Gate) : Bool := !(g.qubits.any fun q => h.qubits.contains q)

def qMask (qubits : List Nat) (N : Nat) : Except Err (List Bool) := mkMask (qubits.map Int.ofNat) N

/-- `CliffordGate.forward(obj)` on the rows of `obj`; `rnd` = supply of random maps -/
def Gate.forward (g : Gate) (N : Nat) (rows : List Pauli) (rnd : List CMap) :
    Except Err (Gate × List Pauli × List CMap) :=
  match g.gen with
  | some G =>
    if g.n = N then .ok (g, rows.map (rotate G), rnd)
    else match qMask g.qubits N with
      | .error e => .error e
      | .ok m => .ok (g, rows.map (rotateMasked G m), rnd)
  | none =>
    let pick : Except Err (Gate × CMap × List CMap) :=
      match g.fmap with
      | some M => .ok (g, M, rnd)
      | none =>
        match g.bmap with
        | none => match rnd with
          | M :: rest => .ok (g, M, rest)
          | [] => .error .coin
        | some B => match inverse B with
          | none => .error .value
          | some M => .ok ({ g with fmap := some M }, M, rnd)
    match pick with
    | .error e => .error e
    | .ok (g', M, rnd') =>
      if g.n = N then .ok (g', rows.map (transform M), rnd')
      else match qMask g.qubits N with
        | .error e => .error e
        | .ok m => .ok (g', rows.map (transformMasked M m), rnd')

/-- `CliffordGate.backward(obj)`; map gates always go through the mask (`if False and …`) -/
def Gate.backward (g : Gate) (N : Nat) (rows : List Pauli) (rnd : List CMap) :
    Except Err (Gate × List Pauli × List CMap) :=
  match g.gen with
  | some G =>
    if g.n = N then .ok (g, rows.map (rotate (neg G)), rnd)
    else match qMask g.qubits N with
      | .error e => .error e
      | .ok m => .ok (g, rows.map (rotateMasked (neg G) m), rnd)
  | none =>
    let pick : Except Err (Gate × CMap × List CMap) :=
      match g.bmap with
      | some M => .ok (g, M, rnd)
      | none =>
        match g.fmap with
        | none => match rnd with
          | M :: rest => .ok (g, M, rest)
          | [] => .error .coin
        | some F => match inverse F with
          | none => .error .value
          | some M => .ok ({ g with bmap := some M }, M, rnd)
    match pick with
    | .error e => .error e
    | .ok (g', M, rnd') =>
      match qMask g.qubits N with
      | .error e => .error e
      | .ok m => .ok (g', rows.map (transformMasked M m), rnd')

/-- `CliffordGate.compile()` -/
def Gate.compile (g : Gate) : Except Err Gate :=
  match g.gen with
  | some G => .ok { g with fmap := some (rotationMap G), bmap := some (rotationMap (neg G)) }
  | none =>
    match g.fmap, g.bmap with
    | none, none => .error .value
    | none, some B => match inverse B with
      | none => .error .value
      | some F => .ok { g with fmap := some F }
    | some F, none => match inverse F with
      | none => .error .value
      | some B => .ok { g with bmap := some B }
    | some _, some _ => .ok g

inductive Layer
  | gates (gs : List Gate) (fmap bmap : Option CMap)
  | meas (qubits : List Nat) (result : Option (List Int)) (nrand : Option Nat)
deriving Repr

def Layer.isMeas : Layer → Bool
  | .meas .. => true
  | _ => false
/-- `CliffordLayer.independent_from(gate)` -/
def Layer.indep : Layer → Gate → Bool
  | .gates gs _ _, g => gs.all fun h => h.indep g
  | .meas .., _ => false
def Layer.append : Layer → Gate → Layer
  | .gates gs f b, g => .gates (gs ++ [g]) f b
  | l, _ => l

/-- `CliffordLayer.take(gate)`, on the layers in *reverse* order (current layer first).
    The caller has already established that the current layer is independent of the gate. -/
def takeRev : List Layer → Gate → List Layer
  | [], g => [.gates [g] none none]
  | [L], g => [L.append g]
  | L :: P :: rest, g =>
    if P.isMeas then L.append g :: P :: rest
    else if P.indep g then L :: takeRev (P :: rest) g
    else L.append g :: P :: rest

structure Circ where
  N : Nat
  layers : List Layer := [.gates [] none none]
  fmap : Option CMap := none
  bmap : Option CMap := none
  results : List Int := []
  nrand : Nat := 0
  unitary : Bool := true
  numMeas : Nat := 0
deriving Repr

def listMax : List Nat → Nat
  | [] => 0
  | x :: xs => max x (listMax xs)

/-- `CliffordCircuit.take(gate)` / `Circuit.take(gate)` for a gate -/
def Circ.take (c : Circ) (g : Gate) : Except Err Circ :=
  if g.qubits.isEmpty then .error .value
  else if listMax g.qubits ≥ c.N then .error .value
  else
    match c.layers.reverse with
    | [] => .error .assertion
    | L :: rest =>
      if !L.isMeas && L.indep g then .ok { c with layers := (takeRev (L :: rest) g).reverse }
      else .ok { c with layers := c.layers ++ [.gates [g] none none] }

/-- `Circuit.measure(*qubits)` -/
def Circ.takeMeas (c : Circ) (qubits : List Nat) : Except Err Circ :=
  if qubits.isEmpty then .error .value
  else if listMax qubits ≥ c.N then .error .value
  else .ok { c with layers := c.layers ++ [.meas qubits none none], unitary := false,
                    numMeas := c.numMeas + qubits.length }

/-- `CliffordCircuit.compose(other)`: take every gate of `other` in layer order -/
def Circ.compose (c o : Circ) : Except Err Circ :=
  if o.N != c.N then .error .value else
  let gs := o.layers.flatMap fun | .gates gs _ _ => gs | .meas .. => []
  gs.foldlM (fun acc g => acc.take g) c

/-- an object under transformation: rows, rank (for states), coins, random-map supply -/
structure Obj where
  rows : List Pauli
  r : Nat := 0
  isState : Bool := false
deriving Repr

def gatesForward (N : Nat) : List Gate → List Pauli → List CMap → Except Err (List Gate × List Pauli × List CMap)
  | [], rows, rnd => .ok ([], rows, rnd)
  | g :: gs, rows, rnd =>
    match g.forward N rows rnd with
    | .error e => .error e
    | .ok (g', rows', rnd') =>
      match gatesForward N gs rows' rnd' with
      | .error e => .error e
      | .ok (gs', rows'', rnd'') => .ok (g' :: gs', rows'', rnd'')
def gatesBackward (N : Nat) : List Gate → List Pauli → List CMap → Except Err (List Gate × List Pauli × List CMap)
  | [], rows, rnd => .ok ([], rows, rnd)
  | g :: gs, rows, rnd =>
    match g.backward N rows rnd with
    | .error e => .error e
    | .ok (g', rows', rnd') =>
      match gatesBackward N gs rows' rnd' with
      | .error e => .error e
      | .ok (gs', rows'', rnd'') => .ok (g' :: gs', rows'', rnd'')

/-- the `Z_q` observables of a `MeasureLayer` -/
def measObs (N : Nat) (qubits : List Nat) : List Pauli := qubits.map fun q => ⟨unitZ N q, 0⟩

structure Run where
  obj : Obj
  coins : List Bool
  rnd : List CMap

/-- `CliffordLayer.forward` / `MeasureLayer.forward` -/
def Layer.forward (N : Nat) (L : Layer) (x : Run) : Except Err (Layer × Run) :=
  match L with
  | .gates gs f b =>
    match f with
    | some M => .ok (L, { x with obj := { x.obj with rows := x.obj.rows.map (transform M) } })
    | none =>
      match gatesForward N gs x.obj.rows x.rnd with
      | .error e => .error e
      | .ok (gs', rows', rnd') => .ok (.gates gs' f b, { x with obj := { x.obj with rows := rows' }, rnd := rnd' })
  | .meas qubits _ _ =>
    if !x.obj.isState then .error .notImplemented else
    match measure ⟨x.obj.rows, x.obj.r⟩ (measObs N qubits) x.coins with
    | .error e => .error e
    | .ok (st, outs, k, cs) =>
      .ok (.meas qubits (some (outs.map fun o => if o % 2 = 0 then 1 else -1)) (some k),
           { x with obj := { x.obj with rows := st.rows, r := st.r }, coins := cs })

/-- post-selections of `MeasureLayer.backward(obj, measure_result)`: last qubit first -/
def measBackward (N : Nat) (qubits : List Nat) (rec : List Int) (st : State) : Except Err State :=
  if rec.length != qubits.length then .error .value else
  (qubits.zip rec).reverse.foldlM (fun (s : State) (qr : Nat × Int) =>
    match postselect s ⟨unitZ N qr.1, 0⟩ (if qr.2 = 1 then 0 else 1) with
    | .error e => .error e
    | .ok (s', t) => if t.zero then .error .value else .ok s') st

def Layer.backward (N : Nat) (L : Layer) (x : Run) (rec : Option (List Int)) : Except Err (Layer × Run) :=
  match L with
  | .gates gs f b =>
    match b with
    | some M => .ok (L, { x with obj := { x.obj with rows := x.obj.rows.map (transform M) } })
    | none =>
      match gatesBackward N gs x.obj.rows x.rnd with
      | .error e => .error e
      | .ok (gs', rows', rnd') => .ok (.gates gs' f b, { x with obj := { x.obj with rows := rows' }, rnd := rnd' })
  | .meas qubits result _ =>
    let record : Except Err (List Int) :=
      match rec with
      | some m => .ok m
      | none => match result with
        | some m => .ok m
        | none => .error .value
    match record with
    | .error e => .error e
    | .ok m =>
      match measBackward N qubits m ⟨x.obj.rows, x.obj.r⟩ with
      | .error e => .error e
      | .ok st => .ok (L, { x with obj := { x.obj with rows := st.rows, r := st.r } })

def layersForward (N : Nat) : List Layer → Run → Except Err (List Layer × Run × List Int × Nat)
  | [], x => .ok ([], x, [], 0)
  | L :: Ls, x =>
    match L.forward N x with
    | .error e => .error e
    | .ok (L', x') =>
      match layersForward N Ls x' with
      | .error e => .error e
      | .ok (Ls', x'', res, k) =>
        match L' with
        | .meas _ (some m) (some k0) => .ok (L' :: Ls', x'', m ++ res, k0 + k)
        | _ => .ok (L' :: Ls', x'', res, k)

/-- `CliffordCircuit.forward` / `Circuit.forward` -/
def Circ.forward (c : Circ) (x : Run) : Except Err (Circ × Run) :=
  if c.unitary then
    match c.fmap with
    | some M => .ok (c, { x with obj := { x.obj with rows := x.obj.rows.map (transform M) } })
    | none =>
      match layersForward c.N c.layers x with
      | .error e => .error e
      | .ok (Ls, x', _, _) => .ok ({ c with layers := Ls }, x')
  else
    match layersForward c.N c.layers x with
    | .error e => .error e
    | .ok (Ls, x', res, k) => .ok ({ c with layers := Ls, results := c.results ++ res, nrand := c.nrand + k }, x')

/-- walk the layers last-to-first; `rec` is the record still to be consumed from its end -/
def layersBackward (N : Nat) : List Layer → Run → List Int → Except Err (List Layer × Run)
  | [], x, _ => .ok ([], x)
  | L :: Ls, x, rec =>   -- `L :: Ls` is in reverse order (last layer first)
    match L with
    | .meas qubits _ _ =>
      let n := qubits.length
      let slice := rec.drop (rec.length - n)
      let rest := rec.take (rec.length - n)
      match L.backward N x (some slice) with
      | .error e => .error e
      | .ok (L', x') =>
        match layersBackward N Ls x' rest with
        | .error e => .error e
        | .ok (Ls', x'') => .ok (L' :: Ls', x'')
    | _ =>
      match L.backward N x none with
      | .error e => .error e
      | .ok (L', x') =>
        match layersBackward N Ls x' rec with
        | .error e => .error e
        | .ok (Ls', x'') => .ok (L' :: Ls', x'')

/-- `CliffordCircuit.backward` / `Circuit.backward(obj, measure_result)` -/
def Circ.backward (c : Circ) (x : Run) (rec : Option (List Int)) : Except Err (Circ × Run) :=
  if c.unitary then
    match c.bmap with
    | some M => .ok (c, { x with obj := { x.obj with rows := x.obj.rows.map (transform M) } })
    | none =>
      match layersBackward c.N c.layers.reverse x [] with
      | .error e => .error e
      | .ok (Ls, x') => .ok ({ c with layers := Ls.reverse }, x')
  else
    let record : Except Err (List Int) :=
      match rec with
      | some m => if m.length != c.numMeas then .error .value else .ok m
      | none => if c.results.isEmpty then .error .value else .ok c.results
    match record with
    | .error e => .error e
    | .ok m =>
      match layersBackward c.N c.layers.reverse x m with
      | .error e => .error e
      | .ok (Ls, x') => .ok ({ c with layers := Ls.reverse }, x')

/-- `CliffordLayer.compile(N)` -/
def compileGates (N : Nat) : List Gate → CMap → CMap → Except Err (List Gate × CMap × CMap)
  | [], F, B => .ok ([], F, B)
  | g :: gs, F, B =>
    match g.compile with
    | .error e => .error e
    | .ok g' =>
      match qMask g.qubits N, g'.fmap, g'.bmap with
      | .ok m, some f, some b =>
        match compileGates N gs (embed F f m) (embed B b m) with
        | .error e => .error e
        | .ok (gs', F', B') => .ok (g' :: gs', F', B')
      | .error e, _, _ => .error e
      | _, _, _ => .error .assertion
def Layer.compile (N : Nat) : Layer → Except Err Layer
  | .gates gs _ _ =>
    match compileGates N gs (idMap N) (idMap N) with
    | .error e => .error e
    | .ok (gs', F, B) => .ok (.gates gs' (some F) (some B))
  | L => .ok L

def compileLayers (N : Nat) : List Layer → CMap → CMap → Except Err (List Layer × CMap × CMap)
  | [], F, B => .ok ([], F, B)
  | L :: Ls, F, B =>
    match L.compile N with
    | .error e => .error e
    | .ok L' =>
      match L' with
      | .gates _ (some f) (some b) =>
        -- forward: self.forward_map.compose(layer.forward_map); backward (repaired): layer.backward_map.compose(self.backward_map)
        match compileLayers N Ls (compose F f) (compose b B) with
        | .error e => .error e
        | .ok (Ls', F', B') => .ok (L' :: Ls', F', B')
      | _ =>
        match compileLayers N Ls F B with
        | .error e => .error e
        | .ok (Ls', F', B') => .ok (L' :: Ls', F', B')

/-- `CliffordCircuit.compile()` / `Circuit.compile()` -/
def Circ.compile (c : Circ) : Except Err Circ :=
  match compileLayers c.N c.layers (idMap c.N) (idMap c.N) with
  | .error e => .error e
  | .ok (Ls, F, B) =>
    if c.unitary then .ok { c with layers := Ls, fmap := some F, bmap := some B }
    else .ok { c with layers := Ls }

/-- compile every layer but not the circuit (`for layer in circ.layers: layer.compile(N)`) -/
def Circ.compileLayersOnly (c : Circ) : Except Err Circ :=
  match compileLayers c.N c.layers (idMap c.N) (idMap c.N) with
  | .error e => .error e
  | .ok (Ls, _, _) => .ok { c with layers := Ls }

/-! ## `compile()` as a state transformer: the object after the call and whether the call raised

`Circ.compile` above returns either the compiled circuit or the error. Python mutates the object while it goes, so a call
that raises still leaves its traces: gates and layers visited before the failing gate are compiled. Since the repair of the
refused-compile defect the maps of the failing layer and of the circuit are reset to `None` first and stored only at the
end (`self.forward_map = None … self.forward_map = forward_map`). -/
def compileGatesSt (N : Nat) : List Gate → CMap → CMap → List Gate × Except Err (CMap × CMap)
  | [], F, B => ([], .ok (F, B))
  | g :: gs, F, B =>
    match g.compile with
    | .error e => (g :: gs, .error e)                 -- `gate.compile()` raises before changing the gate
    | .ok g' =>
      match qMask g.qubits N, g'.fmap, g'.bmap with
      | .ok m, some f, some b =>
        let r := compileGatesSt N gs (embed F f m) (embed B b m)
        (g' :: r.1, r.2)
      | .error e, _, _ => (g' :: gs, .error e)
      | _, _, _ => (g' :: gs, .error .assertion)
def Layer.compileSt (N : Nat) : Layer → Layer × Except Err Unit
  | .gates gs _ _ =>
    match compileGatesSt N gs (idMap N) (idMap N) with
    | (gs', .ok (F, B)) => (.gates gs' (some F) (some B), .ok ())
    | (gs', .error e) => (.gates gs' none none, .error e)
  | L => (L, .ok ())
def compileLayersSt (N : Nat) : List Layer → CMap → CMap → List Layer × Except Err (CMap × CMap)
  | [], F, B => ([], .ok (F, B))
  | L :: Ls, F, B =>
    match L.compileSt N with
    | (L', .error e) => (L' :: Ls, .error e)
    | (L', .ok ()) =>
      match L' with
      | .gates _ (some f) (some b) =>
        let r := compileLayersSt N Ls (compose F f) (compose b B)
        (L' :: r.1, r.2)
      | _ =>
        let r := compileLayersSt N Ls F B
        (L' :: r.1, r.2)
/-- `CliffordCircuit.compile()` / `Circuit.compile()`: the circuit after the call, and the outcome of the call -/
def Circ.compileSt (c : Circ) : Circ × Except Err Unit :=
  match compileLayersSt c.N c.layers (idMap c.N) (idMap c.N) with
  | (Ls, .ok (F, B)) =>
    if c.unitary then ({ c with layers := Ls, fmap := some F, bmap := some B }, .ok ())
    else ({ c with layers := Ls }, .ok ())
  | (Ls, .error e) =>
    if c.unitary then ({ c with layers := Ls, fmap := none, bmap := none }, .error e)
    else ({ c with layers := Ls }, .error e)

/-! ## random-circuit constructors: `brickwall_rcc`, `onsite_rcc`, `global_rcc` (gates without generator or map) -/
/-- `for l in range(depth): for i in range(l % 2, N, 2): circ.gate(i, (i+1) % N)` -/
def brickwallPairs (N depth : Nat) : List (List Nat) :=
  (List.range depth).flatMap fun l => ((List.range N).filter fun i => i % 2 = l % 2).map fun i => [i, (i + 1) % N]
/-- `circ.gate(*qubits)` for every qubit list in turn -/
def rccOf (N : Nat) (qss : List (List Nat)) : Except Err Circ :=
  qss.foldlM (fun c qs => c.take { qubits := qs }) { N := N }
def brickwallRcc (N depth : Nat) : Except Err Circ :=
  if N % 2 ≠ 0 then .error .assertion else rccOf N (brickwallPairs N depth)
def onsiteRcc (N : Nat) : Except Err Circ := rccOf N ((List.range N).map fun i => [i])
def globalRcc (N : Nat) : Except Err Circ := rccOf N [List.range N]

end PC
