import PyCliffordModel.Properties.C14b
import PyCliffordModel.Properties.C16e
import PyCliffordModel.Proofs.TrajLemmas3
/-!
# C14 / C09 (compiled programs with measurements) — compiling never changes a trajectory

`Circuit.compile()` on a circuit with measurement layers compiles every unitary layer into one map and leaves the
measurement layers alone (no circuit-level map is stored). For every program of deterministic gates and measurement calls:
`compile()` succeeds, and the compiled circuit runs forward exactly as the sequential meaning of the program — same final
state, same record in the same order, same count of undetermined outcomes, same unused coins — hence exactly as the
uncompiled circuit (`C14_program_trajectory`).
-/
namespace PC

/-- a program of deterministic gates and measurements always compiles -/
theorem C14_compile_total (N : Nat) (prog : List Item) (c : Circ)
    (hw : ∀ it ∈ prog, it.WF N) (hb : buildProg N prog = .ok c) :
    ∃ cc, c.compile = .ok cc ∧ cc.N = c.N ∧ cc.unitary = c.unitary ∧ cc.results = c.results ∧ cc.nrand = c.nrand ∧
      cc.numMeas = c.numMeas ∧ cc.layers.length = c.layers.length :=
  Tj4.compile_total N prog c hw hb

/-- **the trajectory theorem for compiled circuits**: same statement as `C14_program_trajectory`, for the circuit after
    `compile()` -/
theorem C14_compiled_trajectory (N : Nat) (prog : List Item) (c cc : Circ) (st : State) (coins : List Bool) (rnd : List CMap)
    (hw : ∀ it ∈ prog, it.WF N) (hbm : ∀ g, Item.gate g ∈ prog → g.BmapOK) (hb : buildProg N prog = .ok c)
    (hc : c.compile = .ok cc) (h : TabInv st N) :
    match cc.forward ⟨⟨st.rows, st.r, true⟩, coins, rnd⟩, runItems N prog st coins with
    | .ok (c', x'), .ok (st', res, k, cs) =>
        RowsPEq' x'.obj.rows st'.rows ∧ x'.obj.r = st'.r ∧ x'.coins = cs ∧ x'.rnd = rnd ∧
        (c.unitary = false → c'.results = c.results ++ res ∧ c'.nrand = c.nrand + k) ∧
        (c.unitary = true → res = [] ∧ k = 0)
    | .error _, .error _ => True
    | _, _ => False :=
  Tj4.compiled_trajectory N prog c cc st coins rnd hw hbm hb hc h

/-- … and the backward pass of the compiled circuit with a supplied record behaves as the uncompiled one: same success or
    failure, same state up to the representation of phases -/
theorem C14_compiled_backward (N : Nat) (prog : List Item) (c cc : Circ) (st : State) (coins : List Bool) (rnd : List CMap)
    (rec : Option (List Int))
    (hw : ∀ it ∈ prog, it.WF N) (hbm : ∀ g, Item.gate g ∈ prog → g.BmapOK) (hb : buildProg N prog = .ok c)
    (hc : c.compile = .ok cc) (h : TabInv st N) :
    RunRel (cc.backward ⟨⟨st.rows, st.r, true⟩, coins, rnd⟩ rec) (c.backward ⟨⟨st.rows, st.r, true⟩, coins, rnd⟩ rec) :=
  Tj4.compiled_backward N prog c cc st coins rnd rec hw hbm hb hc h

end PC
