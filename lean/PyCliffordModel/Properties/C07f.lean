import PyCliffordModel.Properties.C06e
import PyCliffordModel.Properties.C16b
import PyCliffordModel.Proofs.OverlapLemmas
/-!
# C07 — the overlap reported for two states is `Tr(ρ σ)`

`StabilizerState.expect(other_state)` (pure `ρ`, `σ` of any rank) runs the projection chain `stabilizer_projection_trace` over
the active stabilizers of `σ` and divides by `2^{r_σ}`. Here: the number it reports is `Tr(ρ σ)` for the density matrices the
two states denote (`density_matrix`, product = the library's `@`): `2^N · coef(ρ·σ)(identity)`. Consequently the probability
reported for a bit string is `⟨b|ρ|b⟩`.
-/
namespace PC

/-- **`expect(state)` is `Tr(ρ σ)`** -/
theorem C07_overlap_is_trace (st sg : State) (n : Nat) (h : TabInv st n) (hs : TabInv sg n) (hr : st.r = 0)
    (hp : ∀ R ∈ sg.active, R.p = 0 ∨ R.p = 2) :
    ∃ t, expectState st sg = .ok t ∧
      (⟨dyVal t, 0⟩ : Cx) = (⟨(2 : Rat) ^ n, 0⟩ : Cx).mul (coef (polyMatmul (densityPoly st) (densityPoly sg)) (idStr n)) :=
  Ov.overlap_is_trace st sg n h hs hr hp

/-- the overlap vanishes exactly when some stabilizer of `σ` is minus a stabilizer of `ρ` -/
theorem C07_overlap_zero_iff (st sg : State) (n : Nat) (t : Dy) (h : TabInv st n) (hs : TabInv sg n) (hr : st.r = 0)
    (hp : ∀ R ∈ sg.active, R.p = 0 ∨ R.p = 2) (he : expectState st sg = .ok t) :
    t.zero = true ↔ ∃ P, InGroup sg P ∧ InGroup st (neg P) :=
  Ov.overlap_zero_iff st sg n t h hs hr hp he

/-- … and otherwise it is `2^-k` with `2^(n - k)` the number of common stabilizers: `Tr(ρσ) = |S_ρ ∩ S_σ| / 2^N` -/
theorem C07_overlap_value (st sg : State) (n : Nat) (t : Dy) (h : TabInv st n) (hs : TabInv sg n) (hr : st.r = 0)
    (hp : ∀ R ∈ sg.active, R.p = 0 ∨ R.p = 2) (he : expectState st sg = .ok t) (hz : t.zero = false) :
    t.k ≤ n ∧ ((densityRows sg).filter fun R => decide (expect1 st R = 1)).length = 2 ^ (n - t.k) :=
  Ov.overlap_value st sg n t h hs hr hp he hz

/-- **`get_prob(b)` is `⟨b|ρ|b⟩`**: the overlap with the computational-basis state `|b⟩⟨b|` -/
theorem C07_getProb_is_trace (st : State) (n : Nat) (b : List Bool) (h : TabInv st n) (hr : st.r = 0) (hb : b.length = n) :
    ∃ t bs, getProb st b = .ok t ∧ TabInv bs n ∧ bs.r = 0 ∧
      (∀ i, i < n → InGroup bs ⟨unitZ n i, if b.getD i false then 2 else 0⟩) ∧
      (⟨dyVal t, 0⟩ : Cx) = (⟨(2 : Rat) ^ n, 0⟩ : Cx).mul (coef (polyMatmul (densityPoly st) (densityPoly bs)) (idStr n)) :=
  Ov.getProb_is_trace st n b h hr hb

end PC
