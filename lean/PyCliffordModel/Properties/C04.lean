import PyCliffordModel.Proofs.Compose
/-!
# C04 — Clifford maps form a group under `compose` and `inverse`
(`z2inv` itself is in `Properties/C04z2.lean`.)
-/
namespace PC

/-- row-wise equality of maps up to the representation of phases mod 4 -/
def RowsPEq (A B : List Pauli) : Prop := List.Forall₂ PEq A B

/-- composition acts on every operator as applying the first map and then the second -/
theorem C04_compose_acts (A B : List Pauli) (n : Nat) (hA : ValidMap A n) (hB : ValidMap B n) (P : Pauli)
    (hP : P.g.length = n) : PEq (transform (compose A B) P) (transform B (transform A P)) :=
  Cp.compose_acts A B n hA hB P hP

/-- the composition of valid maps is valid -/
theorem C04_compose_valid (A B : List Pauli) (n : Nat) (hA : ValidMap A n) (hB : ValidMap B n) :
    ValidMap (compose A B) n :=
  Cp.compose_valid A B n hA hB

/-- the identity map is valid and neutral on both sides -/
theorem C04_id_neutral (A : List Pauli) (n : Nat) (hA : ValidMap A n) :
    ValidMap (idMap n) n ∧ RowsPEq (compose (idMap n) A) A ∧ RowsPEq (compose A (idMap n)) A :=
  ⟨Cp.validMap_idMap n, Cp.id_compose A n hA, Cp.compose_id A n hA⟩

/-- composition is associative -/
theorem C04_compose_assoc (A B C : List Pauli) (n : Nat) (hA : ValidMap A n) (hB : ValidMap B n) (hC : ValidMap C n) :
    RowsPEq (compose (compose A B) C) (compose A (compose B C)) :=
  Cp.compose_assoc A B C n hA hB hC

/-- a map is determined by its action: two valid maps that transform every operator alike are equal -/
theorem C04_faithful (A B : List Pauli) (n : Nat) (hA : ValidMap A n) (hB : ValidMap B n)
    (h : ∀ P : Pauli, P.g.length = n → PEq (transform A P) (transform B P)) : RowsPEq A B :=
  Cp.faithful A B n hA hB h

/-- **the inverse of any valid map exists (`z2inv` does not raise), is valid, and composes with it to the identity on both sides** -/
theorem C04_inverse_spec (A : List Pauli) (n : Nat) (hA : ValidMap A n) :
    ∃ B, inverse A = some B ∧ ValidMap B n ∧ RowsPEq (compose A B) (idMap n) ∧ RowsPEq (compose B A) (idMap n) :=
  Cp.inverse_spec A n hA

/-- the inverse of a composition is the reversed composition of the inverses -/
theorem C04_inverse_compose (A B A' B' X : List Pauli) (n : Nat) (hA : ValidMap A n) (hB : ValidMap B n)
    (h1 : inverse A = some A') (h2 : inverse B = some B') (h3 : inverse (compose A B) = some X) :
    RowsPEq X (compose B' A') :=
  Cp.inverse_compose A B A' B' X n hA hB h1 h2 h3

end PC
