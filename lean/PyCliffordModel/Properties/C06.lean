import PyCliffordModel.Proofs.MeasureLemmas
/-!
# C06 — measurement follows the projection postulate at the level of the stabilizer group;  C07 — expectations

`InGroup st P` (Spec/Tableau): `P` is a product of active stabilizers of `st` with its exact sign, i.e. `P` stabilizes
the state. For a Hermitian observable `O` and a bit `b`, `⟨O.g, O.p + 2*b⟩` is `(−1)^b O`.
Group-level projection postulate (textbook): if `(−1)^b O` is a stabilizer the outcome is `b` with probability 1 and the
state is unchanged; otherwise both outcomes have probability ½, the post-measurement state is stabilized by
`(−1)^out O` and by every former stabilizer commuting with `O`, and the rank drops by one exactly when `O` commutes with
the whole group (an undetermined logical operator was measured).
-/
namespace PC
open Ms

/-- `O` commutes with every active stabilizer -/
def CommutesWithGroup (st : State) (O : Pauli) : Prop := ∀ R ∈ st.active, acq R.g O.g = 0

/-- **determined branch**: the outcome returned is the eigenvalue fixed by the state, and the state is unchanged -/
theorem C06_determined (st st' : State) (n : Nat) (O : Pauli) (coin : Bool) (out : Int)
    (h : TabInv st n) (ho : O.g.length = n) (hp : O.p % 2 = 0)
    (hm : measure1 st O coin = .ok (st', out, false)) :
    st' = st ∧ (out = 0 ∨ out = 1) ∧ InGroup st ⟨O.g, O.p + 2 * out⟩ := by
  rcases measure1_cases_inv st n O coin h ho with ⟨p, _, _, he⟩ | ⟨hc, he⟩
  · rw [he] at hm
    injection hm with hm
    injection hm with _ h2
    injection h2 with _ h3
    exact absurd h3 (by simp)
  · obtain ⟨d1, d2, _, d4⟩ := det_spec st n O.g h ho hc
    rw [he] at hm
    injection hm with hm
    injection hm with h1 h2
    injection h2 with h2 _
    subst h1
    refine ⟨rfl, by omega, inGroup_congr d4 ⟨d1, ?_⟩⟩
    simp only
    omega

/-- **random branch**: neither `O` nor `−O` was a stabilizer; the outcome follows the coin; afterwards `(−1)^out O` is a
    stabilizer, every former stabilizer commuting with `O` still is, and the rank drops exactly when `O` commuted with the
    whole group -/
theorem C06_random (st st' : State) (n : Nat) (O : Pauli) (coin : Bool) (out : Int)
    (h : TabInv st n) (ho : O.g.length = n) (hp : O.p % 2 = 0)
    (hm : measure1 st O coin = .ok (st', out, true)) :
    (∀ b : Int, ¬ InGroup st ⟨O.g, O.p + 2 * b⟩) ∧
    out = (((if coin then 2 else 0) - O.p) % 4) / 2 ∧ (out = 0 ∨ out = 1) ∧
    InGroup st' ⟨O.g, O.p + 2 * out⟩ ∧
    (∀ P : Pauli, InGroup st P → acq P.g O.g = 0 → InGroup st' P) ∧
    ((CommutesWithGroup st O → st'.r + 1 = st.r) ∧ (¬ CommutesWithGroup st O → st'.r = st.r)) := by
  rcases measure1_cases_inv st n O coin h ho with ⟨p, hpiv, hpl, he⟩ | ⟨_, he⟩
  · rw [he] at hm
    injection hm with hm
    injection hm with h1 h2
    injection h2 with h2 _
    subst h1
    have hk := pivotOK_of_isMeasPivot st n O.g p h hpiv
    have hcc : (if coin then (2 : Int) else 0) % 2 = 0 := by cases coin <;> rfl
    refine ⟨fun b => not_inGroup_of_anti st n h _ p hpl hpiv.1, h2.symm, ?_, ?_, ?_, ?_⟩
    · rw [← h2]
      cases coin
      · simp only [Bool.false_eq_true, if_false]; omega
      · simp only [if_true]; omega
    · refine inGroup_congr (pivotState_obs_inGroup st n O.g p _ h ho hk hcc) ⟨rfl, ?_⟩
      simp only
      rw [← h2]
      cases coin
      · simp only [Bool.false_eq_true, if_false]; omega
      · simp only [if_true]; omega
    · intro P hP hcm
      exact pivotState_keeps st n O.g p _ h ho hk hcc P hP hcm
    · exact pivotState_rank st n O.g p _ h hpiv
  · rw [he] at hm
    injection hm with hm
    injection hm with _ h2
    injection h2 with _ h3
    exact absurd h3 (by simp)

/-- the outcome is reported as certain exactly when plus or minus the observable is already a stabilizer -/
theorem C06_flag_iff (st st' : State) (n : Nat) (O : Pauli) (coin : Bool) (out : Int) (rnd : Bool)
    (h : TabInv st n) (ho : O.g.length = n) (hp : O.p % 2 = 0)
    (hm : measure1 st O coin = .ok (st', out, rnd)) :
    rnd = false ↔ ∃ b : Int, InGroup st ⟨O.g, O.p + 2 * b⟩ := by
  rcases measure1_cases_inv st n O coin h ho with ⟨p, hpiv, hpl, he⟩ | ⟨hc, he⟩
  · rw [he] at hm
    injection hm with hm
    injection hm with _ h2
    injection h2 with _ h3
    subst h3
    constructor
    · intro hf; exact absurd hf (by simp)
    · rintro ⟨b, hb⟩
      exact absurd hb (not_inGroup_of_anti st n h _ p hpl hpiv.1)
  · have hm' := hm
    rw [he] at hm'
    injection hm' with hm'
    injection hm' with _ h2
    injection h2 with _ h3
    subst h3
    exact ⟨fun _ => ⟨out, (C06_determined st st' n O coin out h ho hp hm).2.2⟩, fun _ => rfl⟩

/-- **repeating the measurement returns the same outcome with probability one and leaves the state unchanged** -/
theorem C06_repeat (st st' : State) (n : Nat) (O : Pauli) (c1 c2 : Bool) (out : Int) (rnd : Bool)
    (h : TabInv st n) (ho : O.g.length = n) (hp : O.p % 2 = 0)
    (hm : measure1 st O c1 = .ok (st', out, rnd)) :
    measure1 st' O c2 = .ok (st', out, false) := by
  have h' := measure1_inv st st' n O c1 out rnd h ho hm
  cases rnd with
  | false =>
    obtain ⟨e, hout, hin⟩ := C06_determined st st' n O c1 out h ho hp hm
    subst e
    exact measure1_of_inGroup st' n O c2 out h' ho hout hin
  | true =>
    obtain ⟨_, _, hout, hin, _, _⟩ := C06_random st st' n O c1 out h ho hp hm
    exact measure1_of_inGroup st' n O c2 out h' ho hout hin

/-- the reported log2-probability of a list is minus the number of undetermined outcomes (each has probability ½), and
    one outcome bit is returned per observable -/
theorem C06_measure_list (st st' : State) (obs : List Pauli) (coins rest : List Bool) (outs : List Int) (k : Nat)
    (hm : measure st obs coins = .ok (st', outs, k, rest)) :
    outs.length = obs.length ∧ k ≤ obs.length ∧ rest.length + k = coins.length := by
  induction obs generalizing st coins outs k with
  | nil =>
    simp only [measure] at hm
    injection hm with hm
    injection hm with h1 h2
    injection h2 with h2 h3
    injection h3 with h3 h4
    subst h2 h3 h4
    exact ⟨rfl, Nat.le_refl _, rfl⟩
  | cons o os ih =>
    simp only [measure] at hm
    cases h1 : measure1 st o (coins.headD false) with
    | error e => rw [h1] at hm; exact absurd hm (by simp)
    | ok res =>
      obtain ⟨st1, out, rnd⟩ := res
      rw [h1] at hm
      simp only at hm
      split at hm
      · exact absurd hm (by simp)
      · next hcoin =>
        cases h2 : measure st1 os (if rnd then coins.tail else coins) with
        | error e => rw [h2] at hm; exact absurd hm (by simp)
        | ok res2 =>
          obtain ⟨st2, outs2, k2, cs⟩ := res2
          rw [h2] at hm
          simp only at hm
          injection hm with hm
          injection hm with e1 e2
          injection e2 with e2 e3
          injection e3 with e3 e4
          subst e1 e2 e3 e4
          obtain ⟨j1, j2, j3⟩ := ih st1 _ outs2 k2 h2
          cases rnd with
          | false =>
            simp only [Bool.false_eq_true, if_false] at j3 ⊢
            exact ⟨by simp [j1], by simp; omega, j3⟩
          | true =>
            simp only [if_true] at j3 ⊢
            have hne : coins ≠ [] := by
              intro e; apply hcoin; simp [e]
            have hl : coins.tail.length + 1 = coins.length := by
              cases coins with
              | nil => exact absurd rfl hne
              | cons a as => simp
            exact ⟨by simp [j1], by simp; omega, by omega⟩

/-! ## C07 -/

/-- **expectation of a Hermitian Pauli**: `+1` iff it is a stabilizer, `−1` iff its negative is, `0` otherwise -/
theorem C07_expect_spec (st : State) (n : Nat) (O : Pauli) (h : TabInv st n) (ho : O.g.length = n) (hp : O.p % 2 = 0) :
    (expect1 st O = 1 ∨ expect1 st O = -1 ∨ expect1 st O = 0) ∧
    (expect1 st O = 1 ↔ InGroup st O) ∧ (expect1 st O = -1 ↔ InGroup st (neg O)) := by
  have hN := h.N_eq
  rcases expect1_cases st O with ⟨⟨i, hi, ha⟩, he⟩ | ⟨hc, he⟩
  · rw [hN] at hi
    rw [he]
    refine ⟨Or.inr (Or.inr rfl), ⟨fun h0 => absurd h0 (by decide), fun hI => ?_⟩,
      ⟨fun h0 => absurd h0 (by decide), fun hI => ?_⟩⟩
    · exact absurd hI (not_inGroup_of_anti st n h _ i hi ha)
    · exact absurd hI (not_inGroup_of_anti st n h _ i hi ha)
  · rw [hN] at hc he
    obtain ⟨d1, d2, _, d4⟩ := det_spec st n O.g h ho hc
    rw [he]
    by_cases hcond : (((scanAcc st.rows O.g n 0 st.rows ⟨idStr n, 0⟩).p - O.p) % 4) / 2 % 2 = 0
    · rw [if_pos hcond]
      refine ⟨Or.inl rfl, ⟨fun _ => inGroup_congr d4 ⟨d1, by omega⟩, fun _ => rfl⟩,
        ⟨fun h0 => absurd h0 (by decide), fun hI => ?_⟩⟩
      have := inGroup_phase_unique st n h d4 hI d1
      simp only [neg] at this
      omega
    · rw [if_neg hcond]
      refine ⟨Or.inr (Or.inl rfl), ⟨fun h0 => absurd h0 (by decide), fun hI => ?_⟩,
        ⟨fun _ => inGroup_congr d4 ⟨d1, by simp only [neg]; omega⟩, fun _ => rfl⟩⟩
      have := inGroup_phase_unique st n h d4 hI d1
      omega

/-- expectation queries agree with measurement: the expectation is non-zero exactly when a measurement would be certain -/
theorem C07_expect_vs_measure (st st' : State) (n : Nat) (O : Pauli) (coin : Bool) (out : Int) (rnd : Bool)
    (h : TabInv st n) (ho : O.g.length = n) (hp : O.p % 2 = 0)
    (hm : measure1 st O coin = .ok (st', out, rnd)) :
    (rnd = true ↔ expect1 st O = 0) ∧ (rnd = false → expect1 st O = if out = 0 then 1 else -1) := by
  have hN := h.N_eq
  have _ := hp
  rcases measure1_cases_inv st n O coin h ho with ⟨p, hpiv, hpl, he⟩ | ⟨hc, he⟩
  · rw [he] at hm
    injection hm with hm
    injection hm with _ h2
    injection h2 with _ h3
    subst h3
    rcases expect1_cases st O with ⟨_, hx⟩ | ⟨hcl, _⟩
    · exact ⟨⟨fun _ => hx, fun _ => rfl⟩, fun hf => absurd hf (by simp)⟩
    · rw [hN] at hcl
      have hanti := hpiv.1
      rw [hcl p hpl] at hanti
      exact absurd hanti (by simp)
  · rw [he] at hm
    injection hm with hm
    injection hm with _ h2
    injection h2 with h2 h3
    subst h3
    rcases expect1_cases st O with ⟨⟨i, hi, ha⟩, _⟩ | ⟨_, hx⟩
    · rw [hN] at hi
      rw [hc i hi] at ha
      exact absurd ha (by simp)
    · rw [hN] at hx
      rw [hx]
      have e : ((((scanAcc st.rows O.g n 0 st.rows ⟨idStr n, 0⟩).p - O.p) % 4) / 2 % 2 = 0) ↔ out = 0 := by
        omega
      refine ⟨⟨fun hf => absurd hf (by simp), fun h0 => ?_⟩, fun _ => ?_⟩
      · split at h0 <;> exact absurd h0 (by decide)
      · by_cases ho0 : out = 0
        · rw [if_pos (e.2 ho0), if_pos ho0]
        · rw [if_neg (fun hh => ho0 (e.1 hh)), if_neg ho0]

/-- one step of the overlap computation `Tr(ρ σ)` (projection of a pure `ρ` onto a stabilizer `O` of `σ`): factor 1 if `O`
    stabilizes `ρ`, factor 0 if `−O` does, factor ½ otherwise, after which `O` stabilizes the projected state -/
theorem C07_projTrace1_spec (st st' : State) (n : Nat) (O : Pauli) (t t' : Dy) (h : TabInv st n) (hr : st.r = 0)
    (ho : O.g.length = n) (hp : O.p % 4 = 0 ∨ O.p % 4 = 2) (hpr : 0 ≤ O.p ∧ O.p < 4)
    (hm : projTrace1 st O t = .ok (st', t')) :
    TabInv st' n ∧ st'.r = 0 ∧
    ((InGroup st O ∧ st' = st ∧ t' = t) ∨ (InGroup st (neg O) ∧ st' = st ∧ t' = ⟨true, t.k⟩) ∨
     ((∀ b : Int, ¬ InGroup st ⟨O.g, O.p + 2 * b⟩) ∧ InGroup st' O ∧ t' = ⟨t.zero, t.k + 1⟩)) := by
  have hN := h.N_eq
  have hev : O.p % 2 = 0 := by omega
  rcases projTrace1_cases st O t with ⟨p, hp1, hp2, _, he⟩ | ⟨hc, he⟩
  · rw [hN, hr] at hp1
    rw [he] at hm
    injection hm with hm
    injection hm with h1 h2
    subst h1 h2
    have hk : PivotOK st n O.g p := ⟨by omega, hp2, fun _ _ _ _ => ⟨by omega, by omega⟩⟩
    refine ⟨pivotState_inv st n O.g p O.p h ho hk hev, ?_, Or.inr (Or.inr ⟨?_, ?_, rfl⟩)⟩
    · rw [(pivotState_spec st n O.g p O.p h hk.lt).1]
      unfold installRank
      rw [if_pos ⟨by omega, by omega⟩]
      exact hr
    · intro b
      exact not_inGroup_of_anti st n h _ p hk.lt hp2
    · exact pivotState_obs_inGroup st n O.g p O.p h ho hk hev
  · rw [hN] at hc he
    obtain ⟨d1, d2, d3, d4⟩ := det_spec st n O.g h ho hc
    rw [if_pos d1] at he
    rw [he] at hm
    injection hm with hm
    injection hm with h1 h2
    subst h1
    refine ⟨h, hr, ?_⟩
    by_cases hpe : (scanAcc st.rows O.g n 0 st.rows ⟨idStr n, 0⟩).p = O.p
    · rw [if_pos hpe] at h2
      exact Or.inl ⟨inGroup_congr d4 ⟨d1, by rw [hpe]⟩, rfl, h2.symm⟩
    · rw [if_neg hpe] at h2
      refine Or.inr (Or.inl ⟨inGroup_congr d4 ⟨d1, ?_⟩, rfl, h2.symm⟩)
      simp only [neg]
      omega

end PC
