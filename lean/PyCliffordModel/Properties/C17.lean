import PyCliffordModel.Model.Heap
/-!
# C17 — copy is faithful and independent; queries have no side effects; in-place operations change only their receiver

Theorems about the ownership model `Model/Heap.lean`. The effect signatures themselves (which cells each public method
reads, writes, allocates) are not derived from the source: they are validated against the implementation on every run by
observation (snapshots of receiver and arguments around every public call, `numpy.shares_memory`, mutate-then-re-observe
histories); a method observed to write outside its declared set breaks that correspondence.
-/
namespace PC.Heap

theorem alloc_spec (h : Heap) (vs : List (List Int)) :
    (alloc h vs).1.next = h.next + vs.length ∧
    (∀ c ∈ (alloc h vs).2, h.next ≤ c ∧ c < h.next + vs.length) ∧
    (∀ c, c < h.next → (alloc h vs).1.val c = h.val c) ∧
    read (alloc h vs).1 (alloc h vs).2 = vs := by
  induction vs generalizing h with
  | nil => simp [alloc, read]
  | cons v vs ih =>
    let h1 : Heap := ⟨fun c => if c = h.next then v else h.val c, h.next + 1⟩
    have e1 : h1.next = h.next + 1 := rfl
    have ev : ∀ c, h1.val c = if c = h.next then v else h.val c := fun _ => rfl
    obtain ⟨a1, a2, a3, a4⟩ := ih h1
    have hal : alloc h (v :: vs) = ((alloc h1 vs).1, h.next :: (alloc h1 vs).2) := rfl
    rw [hal]
    refine ⟨?_, ?_, ?_, ?_⟩
    · show (alloc h1 vs).1.next = h.next + (v :: vs).length
      rw [a1, e1]; simp only [List.length_cons]; omega
    · intro c hc
      simp only [List.mem_cons] at hc
      rcases hc with rfl | hc
      · simp only [List.length_cons]; omega
      · have := a2 c hc
        rw [e1] at this
        simp only [List.length_cons]; omega
    · intro c hc
      show (alloc h1 vs).1.val c = h.val c
      rw [a3 c (by rw [e1]; omega), ev]
      have : c ≠ h.next := by omega
      simp [this]
    · show read (alloc h1 vs).1 (h.next :: (alloc h1 vs).2) = v :: vs
      simp only [read, List.map_cons]
      rw [a3 h.next (by rw [e1]; omega), ev]
      simp only [read] at a4
      simp [a4]

/-- **a copy denotes the same object**, and copying does not change the original -/
theorem C17_copy_value (h : Heap) (o : Obj) (ho : Owned h o) :
    read (copy h o).1 (copy h o).2 = read h o ∧ read (copy h o).1 o = read h o := by
  have hs := alloc_spec h (read h o)
  refine ⟨hs.2.2.2, ?_⟩
  simp only [read, copy]
  apply List.map_congr_left
  intro c hc
  exact hs.2.2.1 c (ho c hc)

/-- **a copy shares no mutable data with the original** (nor with any object that existed before): its cells are fresh -/
theorem C17_copy_fresh (h : Heap) (o p : Obj) (hp : Owned h p) : disjoint (copy h o).2 p := by
  intro c hc hcp
  have h1 := (alloc_spec h (read h o)).2.1 c hc
  have h2 : c < h.next := hp c hcp
  omega

theorem writeCells_frame (h : Heap) (o : Obj) (vs : List (List Int)) (c : Nat) (hc : c ∉ o) :
    (writeCells h o vs).val c = h.val c ∧ (writeCells h o vs).next = h.next := by
  induction o generalizing h vs with
  | nil => simp [writeCells]
  | cons d ds ih =>
    cases vs with
    | nil => simp [writeCells]
    | cons v vs =>
      simp only [writeCells]
      have hd : c ≠ d := fun e => hc (by simp [e])
      have hds : c ∉ ds := fun e => hc (by simp [e])
      have := ih ⟨fun x => if x = d then v else h.val x, h.next⟩ vs hds
      simp only [] at this
      rw [this.1, this.2]
      simp [hd]

/-- **frame rule**: an in-place operation leaves every object with cells disjoint from its receiver unchanged -/
theorem C17_frame (op : InPlace) (h : Heap) (p : Obj) (hd : disjoint p op.recv) :
    read (op.run h) p = read h p := by
  simp only [read, InPlace.run]
  apply List.map_congr_left
  intro c hc
  exact (writeCells_frame h op.recv (op.f h) c (hd c hc)).1

/-- **history independence**: whatever sequence of in-place operations is applied to objects disjoint from `p`
    (for instance to a copy of `p`, or to `p`'s former arguments), the value observed for `p` never changes -/
theorem C17_history (ops : List InPlace) (h : Heap) (p : Obj) (hd : ∀ op ∈ ops, disjoint p op.recv) :
    read (ops.foldl (fun hh op => op.run hh) h) p = read h p := by
  induction ops generalizing h with
  | nil => rfl
  | cons op ops ih =>
    simp only [List.foldl_cons]
    rw [ih (op.run h) (fun o ho => hd o (by simp [ho]))]
    exact C17_frame op h p (hd op (by simp))

/-- mutate the copy any number of times, re-observe the original: unchanged; and the other way round -/
theorem C17_copy_independent (h : Heap) (o : Obj) (ho : Owned h o) (ops : List InPlace)
    (hops : ∀ op ∈ ops, op.recv = (copy h o).2) :
    read (ops.foldl (fun hh op => op.run hh) (copy h o).1) o = read h o := by
  rw [C17_history ops (copy h o).1 o]
  · exact (C17_copy_value h o ho).2
  · intro op hop c hc hcr
    rw [hops op hop] at hcr
    exact C17_copy_fresh h o o ho c hcr hc

theorem C17_original_independent (h : Heap) (o : Obj) (ho : Owned h o) (ops : List InPlace)
    (hops : ∀ op ∈ ops, op.recv = o) :
    read (ops.foldl (fun hh op => op.run hh) (copy h o).1) (copy h o).2 = read h o := by
  rw [C17_history ops (copy h o).1 (copy h o).2]
  · exact (C17_copy_value h o ho).1
  · intro op hop c hc hcr
    rw [hops op hop] at hcr
    exact C17_copy_fresh h o o ho c hc hcr

/-- a query (a function of the heap that returns freshly allocated cells) changes no existing object, receiver and arguments included -/
theorem C17_query_pure (h : Heap) (result : Heap → List (List Int)) (p : Obj) (hp : Owned h p) :
    read (alloc h (result h)).1 p = read h p ∧ disjoint (alloc h (result h)).2 p := by
  have hs := alloc_spec h (result h)
  refine ⟨?_, ?_⟩
  · simp only [read]
    apply List.map_congr_left
    intro c hc
    exact hs.2.2.1 c (hp c hc)
  · intro c hc hcp
    have h1 := hs.2.1 c hc
    have h2 : c < h.next := hp c hcp
    omega

/-- an in-place operation never changes its arguments (objects disjoint from the receiver) -/
theorem C17_inplace_args (op : InPlace) (h : Heap) (args : List Obj) (hd : ∀ a ∈ args, disjoint a op.recv) :
    ∀ a ∈ args, read (op.run h) a = read h a := fun a ha => C17_frame op h a (hd a ha)

end PC.Heap
