import PyCliffordModel.Proofs.CompileLemmas
/-!
# C09/C10 (second part) — compiling layers and circuits into single maps never changes the action

Hypothesis `Gate.BmapOK` (defined in `Proofs/CompileLemmas.lean`): a map gate that already carries a backward map carries
the inverse of its forward map (`bmap = none`, the state of every freshly built gate, satisfies it; so does every gate
after `backward`/`compile`, which only ever store `inverse fmap`). Without it the statements about backward maps are
false: `Gate.compile` and `Gate.backward` use a recorded backward map as it is, e.g. the gate
`{ qubits := [0], fmap := S, bmap := H }` is `WF` but its compiled backward map is `H`, not `S⁻¹`.
-/
namespace PC

/-- gates of one layer are pairwise independent (what `take` guarantees) -/
def LayerOK (N : Nat) (gs : List Gate) : Prop :=
  (∀ g ∈ gs, g.WF N) ∧ gs.Pairwise (fun g h => g.indep h = true)

/-- **compiling a layer**: the forward map is valid and acts as the gates of the layer applied one at a time; the backward
    map is valid and acts as their inverses -/
theorem C09_layer_compile_sound (N : Nat) (gs gs' : List Gate) (F B : CMap) (h : LayerOK N gs)
    (hbm : ∀ g ∈ gs, g.BmapOK)
    (hc : compileGates N gs (idMap N) (idMap N) = .ok (gs', F, B)) :
    ValidMap F N ∧ ValidMap B N ∧
    (∀ P : Pauli, P.g.length = N → PEq (transform F P) (seqAct gs N P) ∧ PEq (transform B P) (seqActInv gs N P)) :=
  Cm.layer_compile_sound N gs gs' F B (fun g hg => ⟨h.1 g hg, hbm g hg⟩) h.2 hc

/-- `compile` of a built circuit: the layer fold succeeded and both maps are stored -/
theorem C09_compile_unfold (N : Nat) (prog : List Gate) (c c' : Circ)
    (hw : ∀ g ∈ prog, g.WF N) (hb : buildCirc N prog = .ok c) (hc : c.compile = .ok c') :
    ∃ Ls F B, compileLayers N c.layers (idMap N) (idMap N) = .ok (Ls, F, B) ∧
      c' = { c with layers := Ls, fmap := some F, bmap := some B } := by
  obtain ⟨⟨hN, hu, _⟩, _⟩ := Cm.build_inv N prog c (fun _ => True) hw (fun _ _ => trivial) hb
  subst hN
  unfold Circ.compile at hc
  cases hcl : compileLayers c.N c.layers (idMap c.N) (idMap c.N) with
  | error e => rw [hcl] at hc; cases hc
  | ok r =>
    obtain ⟨Ls, F, B⟩ := r
    rw [hcl] at hc
    dsimp only at hc
    rw [if_pos hu] at hc
    cases hc
    exact ⟨Ls, F, B, rfl, rfl⟩

/-- **compiling a circuit** built from a program: the compiled forward map acts as the gates in program order, the
    compiled backward map as the inverse gates in reverse order; hence running the compiled circuit forward (resp. backward)
    gives the same result as the uncompiled one, and compiled backward undoes compiled forward -/
theorem C09_circuit_compile_sound (N : Nat) (prog : List Gate) (c c' : Circ) (F B : CMap)
    (hw : ∀ g ∈ prog, g.WF N) (hbm : ∀ g ∈ prog, g.BmapOK) (hb : buildCirc N prog = .ok c) (hc : c.compile = .ok c')
    (hF : c'.fmap = some F) (hB : c'.bmap = some B) :
    ValidMap F N ∧ ValidMap B N ∧
    (∀ P : Pauli, P.g.length = N →
      PEq (transform F P) (seqAct prog N P) ∧ PEq (transform B P) (seqActInv prog N P) ∧
      PEq (transform B (transform F P)) P ∧ PEq (transform F (transform B P)) P) := by
  obtain ⟨hI, hI2⟩ := Cm.build_inv N prog c Gate.BmapOK hw hbm hb
  obtain ⟨Ls, F0, B0, hcl, rfl⟩ := C09_compile_unfold N prog c c' hw hb hc
  simp only [Option.some.injEq] at hF hB
  subst hF hB
  obtain ⟨_, _, _, _, hwf, hs⟩ := hI
  obtain ⟨_, hp, hq⟩ := hI2
  obtain ⟨hVF, hVB, hact⟩ := Cm.compileLayers_spec N c.layers Ls _ _ F0 B0 hp (fun g hg => ⟨hwf g hg, hq g hg⟩)
    (Cp.validMap_idMap N) (Cp.validMap_idMap N) hcl
  have hFa : ∀ P : Pauli, P.g.length = N → PEq (transform F0 P) (seqAct prog N P) := fun P hP =>
    ((hact P hP).1.trans (Ci.seqAct_congr _ N (Cp.transform_idMap N P hP))).trans (hs P hP)
  have hBa : ∀ P : Pauli, P.g.length = N → PEq (transform B0 P) (seqActInv prog N P) := fun P hP =>
    ((hact P hP).2.trans (Cp.transform_idMap N _ (by rw [Ci.length_seqActInv]; exact hP))).trans
      (Cm.seqActInv_unique _ prog N hwf hw hs P hP)
  refine ⟨hVF, hVB, fun P hP => ⟨hFa P hP, hBa P hP, ?_, ?_⟩⟩
  · have h1 := hBa (transform F0 P) (Tr.length_transform F0 N hVF.1 (fun R hR => (hVF.2.1 R hR).1) P)
    exact (h1.trans (Ci.seqActInv_congr prog N (hFa P hP))).trans (Ci.program_inverse prog N P hw hP).1
  · have h1 := hFa (transform B0 P) (Tr.length_transform B0 N hVB.1 (fun R hR => (hVB.2.1 R hR).1) P)
    exact (h1.trans (Ci.seqAct_congr prog N (hBa P hP))).trans (Ci.program_inverse prog N P hw hP).2

/-- the forward half of `C09_circuit_compile_sound` holds for all well-formed gates, whatever backward maps they carry -/
theorem C09_circuit_compile_forward (N : Nat) (prog : List Gate) (c c' : Circ) (F : CMap)
    (hw : ∀ g ∈ prog, g.WF N) (hb : buildCirc N prog = .ok c) (hc : c.compile = .ok c') (hF : c'.fmap = some F) :
    ValidMap F N ∧ ∀ P : Pauli, P.g.length = N → PEq (transform F P) (seqAct prog N P) := by
  obtain ⟨hI, hI2⟩ := Cm.build_inv N prog c (fun _ => True) hw (fun _ _ => trivial) hb
  obtain ⟨Ls, F0, B0, hcl, rfl⟩ := C09_compile_unfold N prog c c' hw hb hc
  simp only [Option.some.injEq] at hF
  subst hF
  obtain ⟨_, _, _, _, hwf, hs⟩ := hI
  obtain ⟨hVF, hact⟩ := Cm.compileLayers_fwd N c.layers Ls _ _ F0 B0 hI2.2.1 hwf (Cp.validMap_idMap N) hcl
  exact ⟨hVF, fun P hP => ((hact P hP).trans (Ci.seqAct_congr _ N (Cp.transform_idMap N P hP))).trans (hs P hP)⟩

/-- a compiled circuit always has both maps -/
theorem C09_compile_sets_maps (N : Nat) (prog : List Gate) (c c' : Circ)
    (hw : ∀ g ∈ prog, g.WF N) (hb : buildCirc N prog = .ok c) (hc : c.compile = .ok c') :
    ∃ F B, c'.fmap = some F ∧ c'.bmap = some B ∧ c'.unitary = true := by
  obtain ⟨⟨_, hu, _⟩, _⟩ := Cm.build_inv N prog c (fun _ => True) hw (fun _ _ => trivial) hb
  obtain ⟨Ls, F, B, _, rfl⟩ := C09_compile_unfold N prog c c' hw hb hc
  exact ⟨F, B, rfl, rfl, hu⟩

/-- C10 at circuit level (uncompiled): the model's `backward` after `forward` restores every row up to the representation of
    phases, for every circuit built from a program of deterministic gates -/
theorem C10_circuit_backward_forward (N : Nat) (prog : List Gate) (c : Circ) (rows : List Pauli) (r : Nat) (s : Bool)
    (coins : List Bool) (rnd : List CMap)
    (hw : ∀ g ∈ prog, g.WF N) (hbm : ∀ g ∈ prog, g.BmapOK) (hb : buildCirc N prog = .ok c)
    (hr : ∀ R ∈ rows, R.g.length = N) :
    ∃ c1 x1 c2 x2, c.forward ⟨⟨rows, r, s⟩, coins, rnd⟩ = .ok (c1, x1) ∧ c1.backward x1 none = .ok (c2, x2) ∧
      RowsPEq' x2.obj.rows rows ∧ x2.obj.r = r := by
  obtain ⟨hI, hI2⟩ := Cm.build_inv N prog c Gate.BmapOK hw hbm hb
  have hr1 : ∀ R ∈ rows.map (seqAct (Ci.flatGates c.layers) N), R.g.length = N := by
    intro R hR
    obtain ⟨R0, hR0, rfl⟩ := List.mem_map.1 hR
    rw [Ci.length_seqAct]; exact hr R0 hR0
  obtain ⟨c2, h2⟩ := Cm.backward_exact N c prog _ r s coins rnd hI hI2 hr1
  refine ⟨c, _, c2, _, Cm.forward_exact N c prog rows r s coins rnd hI hr, h2, ?_, rfl⟩
  show RowsPEq' ((rows.map (seqAct (Ci.flatGates c.layers) N)).map (Cm.backAct c.layers.reverse N)) rows
  rw [List.map_map]
  have : RowsPEq' (rows.map (Cm.backAct c.layers.reverse N ∘ seqAct (Ci.flatGates c.layers) N)) (rows.map id) := by
    apply Ci.rowsPEq_map
    intro R hR
    have h1 := Cm.backAct_eq N c.layers.reverse (fun L hL => hI2.2.1 L (List.mem_reverse.1 hL))
      (seqAct (Ci.flatGates c.layers) N R)
    rw [List.reverse_reverse] at h1
    exact h1.trans (Ci.program_inverse _ N R hI.2.2.2.2.1 (hr R hR)).1
  rwa [List.map_id] at this

end PC
