import PyCliffordModel.Model.Circuit

/-! C14: a circuit object that has been run several times keeps one accumulated record; a backward pass without a supplied
    record consumes that record *from its end*, i.e. it replays the outcomes of the last run, whatever came before. -/
namespace PC

/-- number of recorded outcomes a list of layers consumes -/
def measCount : List Layer → Nat
  | [] => 0
  | (.meas qs _ _) :: Ls => qs.length + measCount Ls
  | (.gates ..) :: Ls => measCount Ls

/-- the walk over the layers (last layer first) only looks at the last `measCount` entries of the record -/
theorem C14_layersBackward_record_suffix (N : Nat) (Ls : List Layer) (x : Run) (pre m : List Int)
    (h : m.length = measCount Ls) : layersBackward N Ls x (pre ++ m) = layersBackward N Ls x m := by
  induction Ls generalizing x m with
  | nil => simp [layersBackward]
  | cons L Ls ih =>
    cases L with
    | gates gs f b =>
      simp only [layersBackward]
      cases hL : Layer.backward N (.gates gs f b) x none with
      | error e => rfl
      | ok p =>
        obtain ⟨L', x'⟩ := p
        simp only []
        rw [ih x' m (by simpa [measCount] using h)]
    | meas qs res nr =>
      have hlen : qs.length ≤ m.length := by simp [measCount] at h; omega
      have e1 : (pre ++ m).drop ((pre ++ m).length - qs.length) = m.drop (m.length - qs.length) := by
        have : (pre ++ m).length - qs.length = pre.length + (m.length - qs.length) := by simp; omega
        rw [this, List.drop_append]
        simp
      have e2 : (pre ++ m).take ((pre ++ m).length - qs.length) = pre ++ m.take (m.length - qs.length) := by
        have : (pre ++ m).length - qs.length = pre.length + (m.length - qs.length) := by simp; omega
        rw [this, List.take_append]
        simp
        exact List.take_of_length_le (by omega)
      simp only [layersBackward, e1, e2]
      cases hL : Layer.backward N (.meas qs res nr) x (some (m.drop (m.length - qs.length))) with
      | error e => rfl
      | ok p =>
        obtain ⟨L', x'⟩ := p
        simp only []
        rw [ih x' (m.take (m.length - qs.length)) (by simp [measCount] at h; simp; omega)]

/-- **after any number of earlier runs, `backward()` with the own record equals `backward(measure_result = outcomes of the last run)`** -/
theorem C14_backward_replays_last_run (c : Circ) (x : Run) (pre m : List Int)
    (hu : c.unitary = false) (hres : c.results = pre ++ m) (hne : m ≠ [])
    (hm : m.length = c.numMeas) (hc : c.numMeas = measCount c.layers.reverse) :
    c.backward x none = c.backward x (some m) := by
  unfold Circ.backward
  simp only [hu, hres]
  have h1 : (pre ++ m).isEmpty = false := by
    cases m with
    | nil => exact absurd rfl hne
    | cons a t => cases pre <;> simp
  simp only [h1, hm]
  simp only [bne_self_eq_false, Bool.false_eq_true, if_false]
  rw [C14_layersBackward_record_suffix c.N c.layers.reverse x pre m (by omega)]

/-- the hypotheses are met by a circuit with one measured qubit that has been run twice (first outcome `-1`, second `+1`) -/
example : ∃ (c : Circ) (pre m : List Int), c.unitary = false ∧ c.results = pre ++ m ∧ m ≠ [] ∧ pre ≠ [] ∧
    m.length = c.numMeas ∧ c.numMeas = measCount c.layers.reverse :=
  ⟨{ N := 1, layers := [.gates [] none none, .meas [0] (some [1]) (some 1)], results := [-1, 1], unitary := false, numMeas := 1 },
   [-1], [1], by decide⟩

/-- `Circuit.measure(*qubits)` keeps `numMeas` equal to the number of outcomes the layers consume -/
theorem measCount_append (A B : List Layer) : measCount (A ++ B) = measCount A + measCount B := by
  induction A with
  | nil => simp [measCount]
  | cons L A ih => cases L <;> simp [measCount, ih] <;> omega

theorem measCount_reverse (A : List Layer) : measCount A.reverse = measCount A := by
  induction A with
  | nil => rfl
  | cons L A ih => cases L <;> simp [measCount_append, measCount, ih] <;> omega

theorem C14_takeMeas_keeps_count (c c' : Circ) (qs : List Nat) (h : c.numMeas = measCount c.layers)
    (ht : c.takeMeas qs = .ok c') : c'.numMeas = measCount c'.layers := by
  unfold Circ.takeMeas at ht
  split at ht
  · cases ht
  · split at ht
    · cases ht
    · cases ht
      simp [measCount_append, measCount, h]

end PC
