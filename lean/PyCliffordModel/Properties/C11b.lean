import PyCliffordModel.Proofs.PlaceLemmas
import PyCliffordModel.Generated.GateTables
/-!
# C11 (placement), C18 (circuit level), C19 (density expansion), C07 (overlap chain) — corollaries on top of the libraries
-/
namespace PC
open Gen

/-- a named single-qubit gate placed on qubit `q` of an `N`-qubit register -/
def gate1 (table : List Pauli) (q : Nat) : Gate := { qubits := [q], fmap := some table }
/-- a two-qubit gate placed on qubits `a < b` (ascending positions) -/
def gate2 (table : List Pauli) (a b : Nat) : Gate := { qubits := [a, b], fmap := some table }

/-- a one-qubit operator `σ` placed at qubit `q` among identities -/
def at1 (N q : Nat) (s : Q) : PStr := (List.range N).map fun i => if i == q then s else (false, false)
def at2 (N a b : Nat) (s t : Q) : PStr := (List.range N).map fun i => if i == a then s else if i == b then t else (false, false)

/-- **wherever it is placed**, a valid one-qubit gate acts on `σ_q` (any one-qubit Pauli at qubit `q`, any phase) by its
    table and leaves every operator supported off `q` unchanged -/
theorem C11_gate1_anywhere (table : List Pauli) (hv : ValidMap table 1) (N q : Nat) (hq : q < N) (s : Q) (p : Int) :
    PEq (gateAct (gate1 table q) N ⟨at1 N q s, p⟩)
        ⟨at1 N q ((transform table ⟨[s], 0⟩).g.getD 0 (false, false)), p + (transform table ⟨[s], 0⟩).p⟩ :=
  Pl.transformMasked_single table hv N q hq s p

/-- H on any qubit of any register swaps `X_q` and `Z_q` -/
theorem C11_H_anywhere (N q : Nat) (hq : q < N) :
    PEq (gateAct (gate1 gateH q) N ⟨at1 N q (true, false), 0⟩) ⟨at1 N q (false, true), 0⟩ ∧
    PEq (gateAct (gate1 gateH q) N ⟨at1 N q (false, true), 0⟩) ⟨at1 N q (true, false), 0⟩ := by
  have hv : ValidMap gateH 1 := C11_H.2.2.2
  have h1 := C11_gate1_anywhere gateH hv N q hq (true, false) 0
  have h2 := C11_gate1_anywhere gateH hv N q hq (false, true) 0
  have e1 : transform gateH ⟨[(true, false)], 0⟩ = ⟨[(false, true)], 0⟩ := C11_H.1
  have e2 : transform gateH ⟨[(false, true)], 0⟩ = ⟨[(true, false)], 0⟩ := C11_H.2.1
  rw [e1] at h1; rw [e2] at h2
  exact ⟨h1, h2⟩

/-- CNOT with control `c` and target `t`, for either ordering of `c` and `t`, anywhere in a register:
    `X_c ↦ X_c X_t` and `Z_t ↦ Z_c Z_t` -/
theorem C11_CNOT_anywhere (N c t : Nat) (hc : c < N) (ht : t < N) (hct : c ≠ t) :
    let g : Gate := if c < t then gate2 gateCNOT01 c t else gate2 gateCNOT10 t c
    PEq (gateAct g N ⟨at1 N c (true, false), 0⟩) ⟨at2 N c t (true, false) (true, false), 0⟩ ∧
    PEq (gateAct g N ⟨at1 N t (false, true), 0⟩) ⟨at2 N c t (false, true) (false, true), 0⟩ := by
  intro g
  by_cases h : c < t
  · have hg : g = gate2 gateCNOT01 c t := if_pos h
    rw [hg]
    refine ⟨?_, ?_⟩
    · show PEq (transformMasked gateCNOT01 (maskOf [c, t] N) ⟨placeQ N c (true, false), 0⟩) ⟨Pl.place2 N c t _ _, 0⟩
      rw [Pl.placeQ_eq_place2_left N c t,
        Pl.transformMasked_pair gateCNOT01 N c t h ht _ _ (true, false) (true, false) 0 0 C11_CNOT_ct.1]
      exact PEq.refl _
    · show PEq (transformMasked gateCNOT01 (maskOf [c, t] N) ⟨placeQ N t (false, true), 0⟩) ⟨Pl.place2 N c t _ _, 0⟩
      rw [Pl.placeQ_eq_place2_right N c t _ hct,
        Pl.transformMasked_pair gateCNOT01 N c t h ht _ _ (false, true) (false, true) 0 0 C11_CNOT_ct.2.1]
      exact PEq.refl _
  · have hg : g = gate2 gateCNOT10 t c := if_neg h
    have h' : t < c := by omega
    rw [hg]
    refine ⟨?_, ?_⟩
    · show PEq (transformMasked gateCNOT10 (maskOf [t, c] N) ⟨placeQ N c (true, false), 0⟩) ⟨Pl.place2 N c t _ _, 0⟩
      rw [Pl.place2_swap N c t _ _ hct, Pl.placeQ_eq_place2_right N t c _ (Ne.symm hct),
        Pl.transformMasked_pair gateCNOT10 N t c h' hc _ _ (true, false) (true, false) 0 0 C11_CNOT_tc.1]
      exact PEq.refl _
    · show PEq (transformMasked gateCNOT10 (maskOf [t, c] N) ⟨placeQ N t (false, true), 0⟩) ⟨Pl.place2 N c t _ _, 0⟩
      rw [Pl.place2_swap N c t _ _ hct, Pl.placeQ_eq_place2_left N t c,
        Pl.transformMasked_pair gateCNOT10 N t c h' hc _ _ (false, true) (false, true) 0 0 C11_CNOT_tc.2.1]
      exact PEq.refl _

/-! ## C18 at circuit level -/

/-- the gate built by `clifford_rotation_gate` from a full-register generator (condensed onto its support) acts as the
    rotation by the full generator (the hypothesis `hG` is not needed: an identity generator gives an empty gate,
    which acts as the identity, as does the rotation by the identity) -/
theorem C18_rotationGate_acts (G P : Pauli) (hl : G.g.length = P.g.length) (hG : anyBit G.g = true) :
    gateAct (rotationGate G none) P.g.length P = rotate G P :=
  have _ := hG
  Pl.rotationGate_acts G P hl

/-- **`diagonalize(P, i0)`** (non-causal): the returned circuit, run forward, maps the operator to `± Z` on qubit `i0` -/
theorem C18_diagonalizePauli_sound (g : PStr) (p : Int) (i0 : Nat) (c : Circ) (hi : i0 < g.length) (hg : anyBit g = true)
    (hc : diagonalizePauli g i0 false = .ok c) :
    ∃ c' R, c.forward ⟨⟨[⟨g, p⟩], 0, false⟩, [], []⟩ = .ok (c', ⟨⟨[R], 0, false⟩, [], []⟩) ∧
      R.g = unitZ g.length i0 ∧ R.p % 2 = p % 2 := by
  obtain ⟨c', R, hf, hR⟩ := Pl.diagonalizePauli_sound g p i0 c hi hg hc
  obtain ⟨h1, _⟩ := Rn.diag1_strings g i0 hi hg
  obtain ⟨h3, h4⟩ := Rn.rotP_spec (diagonalize1 g i0) ⟨g, p⟩
  refine ⟨c', R, hf, hR.1.trans (h3.trans h1), ?_⟩
  have := hR.2
  simp only at h4
  omega

/-! ## C19: the density-matrix expansion lists every group element exactly once -/
theorem C19_density_complete (st : State) (n : Nat) (h : TabInv st n) :
    (densityRows st).length = 2 ^ (n - st.r) ∧ ((densityRows st).map (·.g)).Nodup ∧
    (∀ R ∈ densityRows st, InGroup st R) ∧ (∀ P : Pauli, InGroup st P → ∃ R ∈ densityRows st, PEq R P) := by
  have hN := St.tabInv_N st n h
  have hla := St.length_active st n h
  unfold densityRows combineRows
  rw [hN]
  refine ⟨?_, ?_, ?_, ?_⟩
  · rw [List.length_map, St.length_allBits]
  · rw [List.map_map, List.nodup_iff_pairwise_ne, List.pairwise_map]
    refine List.Pairwise.imp_of_mem ?_ (List.nodup_iff_pairwise_ne.1 (St.nodup_allBits _))
    intro c d hc hd hne he
    apply hne
    have hc' := (St.mem_allBits _ c).2 hc
    have hd' := (St.mem_allBits _ d).2 hd
    apply St.combine_injective st n h c d hc' hd'
    rw [hN]; exact he
  · intro R hR
    obtain ⟨c, hc, rfl⟩ := List.mem_map.1 hR
    refine ⟨c, ?_, ?_⟩
    · rw [hla]; exact (St.mem_allBits _ c).2 hc
    · rw [hN]; exact PEq.refl _
  · intro P ⟨c, hc, hp⟩
    refine ⟨combine n c st.active, List.mem_map.2 ⟨c, (St.mem_allBits _ c).1 (by rw [hc, hla]), rfl⟩, ?_⟩
    rw [hN] at hp; exact hp

/-! ## C07: the overlap is a product of step factors 1, 0, ½

The skeleton's last conjunct, `t'.zero = false → ∀ O ∈ obs, InGroup st' O`, is **false** when the observables do not
commute: a later ½-step removes an earlier observable from the group (`C07_projTrace_chain_counterexample`:
`obs = [X, Z]` on `|0⟩` ends in `|0⟩` with trace `2^-2`, and `X` does not stabilize `|0⟩`). Two true statements
replace it: `C07_projTrace_chain_partial` (no extra hypothesis; the *last* observable stabilizes the final state) and
`C07_projTrace_chain_commuting` (pairwise commuting observables, as the stabilizers of the state `σ` in
`expectState` are; the original conclusion in full). -/

/-- the chain without any commutation hypothesis: last conjunct weakened to the last observable of the list -/
theorem C07_projTrace_chain_partial (st st' : State) (n : Nat) (obs : List Pauli) (t t' : Dy) (h : TabInv st n)
    (hr : st.r = 0) (ho : ∀ O ∈ obs, O.g.length = n ∧ (O.p = 0 ∨ O.p = 2)) (hm : projTrace st obs t = .ok (st', t')) :
    TabInv st' n ∧ st'.r = 0 ∧ t.k ≤ t'.k ∧ t'.k ≤ t.k + obs.length ∧ (t.zero = true → t'.zero = true) ∧
    (t'.zero = false → ∀ O, obs.getLast? = some O → InGroup st' O) := by
  obtain ⟨a1, a2, a3, a4, a5, a6, _⟩ := Pl.projTrace_chain_core n obs st st' t t' h hr ho hm
  exact ⟨a1, a2, a3, a4, a5, a6⟩

/-- the chain for pairwise commuting observables: the conclusion of the skeleton in full -/
theorem C07_projTrace_chain_commuting (st st' : State) (n : Nat) (obs : List Pauli) (t t' : Dy) (h : TabInv st n)
    (hr : st.r = 0) (ho : ∀ O ∈ obs, O.g.length = n ∧ (O.p = 0 ∨ O.p = 2))
    (hcomm : ∀ A ∈ obs, ∀ B ∈ obs, acq A.g B.g = 0) (hm : projTrace st obs t = .ok (st', t')) :
    TabInv st' n ∧ st'.r = 0 ∧ t.k ≤ t'.k ∧ t'.k ≤ t.k + obs.length ∧ (t.zero = true → t'.zero = true) ∧
    (t'.zero = false → ∀ O ∈ obs, InGroup st' O) := by
  obtain ⟨a1, a2, a3, a4, a5, _, a7⟩ := Pl.projTrace_chain_core n obs st st' t t' h hr ho hm
  exact ⟨a1, a2, a3, a4, a5, fun hz => a7 hz hcomm⟩

/-- every stabilizer of the initial state that commutes with all the observables stabilizes the final state -/
theorem C07_projTrace_keeps (st st' : State) (n : Nat) (obs : List Pauli) (t t' : Dy) (h : TabInv st n)
    (hr : st.r = 0) (ho : ∀ O ∈ obs, O.g.length = n ∧ (O.p = 0 ∨ O.p = 2)) (hm : projTrace st obs t = .ok (st', t'))
    (P : Pauli) (hP : InGroup st P) (hc : ∀ O ∈ obs, acq P.g O.g = 0) : InGroup st' P :=
  Pl.projTrace_keeps n obs st st' t t' h hr ho hm P hP hc

/-- the skeleton's last conjunct fails without commutation: all hypotheses hold for `[X, Z]` on `|0⟩`, the trace is
    non-zero, and `X` is not in the group of the final state -/
theorem C07_projTrace_chain_counterexample :
    ∃ (st st' : State) (n : Nat) (obs : List Pauli) (t t' : Dy), TabInv st n ∧ st.r = 0 ∧
      (∀ O ∈ obs, O.g.length = n ∧ (O.p = 0 ∨ O.p = 2)) ∧ projTrace st obs t = .ok (st', t') ∧
      t'.zero = false ∧ ¬ (∀ O ∈ obs, InGroup st' O) := by
  refine ⟨zeroState 1, _, 1, [⟨[(true, false)], 0⟩, ⟨[(false, true)], 0⟩], ⟨false, 0⟩, _, Pl.tabInv_zero1, rfl, ?_,
    Pl.projTrace_XZ, rfl, ?_⟩
  · intro O hO
    simp only [List.mem_cons, List.not_mem_nil, or_false] at hO
    rcases hO with rfl | rfl <;> exact ⟨rfl, Or.inl rfl⟩
  · intro hall
    exact Pl.not_inGroup_X (hall _ (by simp))

end PC
