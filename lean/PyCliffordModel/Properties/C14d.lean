import PyCliffordModel.Properties.C14
import PyCliffordModel.Properties.C06e
import PyCliffordModel.Properties.C16b
import PyCliffordModel.Model.SBRG
import PyCliffordModel.Proofs.PostselectLemmas
/-!
# C14 / C15 — post-selection is the projection onto the requested outcome, for the density matrix itself; inverse of a monomial

`C14_postselect_spec` describes `postselect(P, res)` at the level of the stabilizer group. Here, for the operator the state
denotes (`density_matrix`) and the library's own polynomial product: with `Π = (1 + (−1)^res P)/2`, `Π ρ Π = p · ρ'` where `p`
is the probability the call returns (`1`, `0` or `1/2`) and `ρ'` the density matrix of the state it leaves; in particular the
returned probability is the Born probability `Tr(Π ρ)`, and a returned `0` means `Π ρ Π = 0`.
Also: `PauliMonomial.inverse()` is a two-sided inverse for every phase indicator and every non-zero coefficient.
-/
namespace PC

/-- the probability reported by `postselect` as a number -/
def dyCx (t : Dy) : Cx := ⟨dyVal t, 0⟩

/-- **post-selection is the projection postulate**: `Π ρ Π = p · ρ'` -/
theorem C14_postselect_is_projection (st st' : State) (n : Nat) (P : Pauli) (res : Nat) (t : Dy) (h : TabInv st n)
    (hr : st.r = 0) (hP : P.g.length = n) (hp : P.p % 2 = 0) (hres : res < 2) (hm : postselect st P res = .ok (st', t))
    (g : PStr) :
    coef (polyMatmul (polyMatmul (projPoly P (res : Int)) (densityPoly st)) (projPoly P (res : Int))) g
      = (dyCx t).mul (coef (densityPoly st') g) := by
  exact Ps.ps_projection st st' n P res t h hr hP hp hres hm g

/-- **the returned probability is the Born probability** `Tr(Π ρ)` -/
theorem C14_postselect_probability (st st' : State) (n : Nat) (P : Pauli) (res : Nat) (t : Dy) (h : TabInv st n)
    (hr : st.r = 0) (hP : P.g.length = n) (hp : P.p % 2 = 0) (hres : res < 2) (hm : postselect st P res = .ok (st', t)) :
    (⟨(2 : Rat) ^ n, 0⟩ : Cx).mul (coef (polyMatmul (projPoly P (res : Int)) (densityPoly st)) (idStr n)) = dyCx t := by
  exact Ps.ps_probability st st' n P res t h hr hP hp hres hm

/-- post-selection never raises on a pure valid state with a Hermitian observable of the right size -/
theorem C14_postselect_total (st : State) (n : Nat) (P : Pauli) (res : Nat) (h : TabInv st n) (hr : st.r = 0)
    (hP : P.g.length = n) (hp : P.p % 2 = 0) (hres : res < 2) : ∃ st' t, postselect st P res = .ok (st', t) := by
  have _ := hp; have _ := hres
  exact Ps.ps_total st n P res h hr hP

/-- the inverse of a monomial: `(c · i^p σ) · inverse = identity = inverse · (c · i^p σ)` as operators (coefficient functions),
    for every phase indicator `p` and every non-zero coefficient `c` -/
theorem C15_monoInverse (P : Pauli) (c : Cx) (hc : c.norm2 ≠ 0) (g : PStr) :
    ∃ inv : Poly, (monoInverse (P, c)).map PObj.asPoly = .ok (some inv) ∧
      coef (polyMatmul [(P, c)] inv) g = coef (polyIdentity P.g.length) g ∧
      coef (polyMatmul inv [(P, c)]) g = coef (polyIdentity P.g.length) g := by
  exact Ps.mono_inverse P c hc g

end PC
