import PyCliffordModel.Proofs.Transform
/-!
# C03 — applying a valid Clifford map is a phase-exact homomorphism of the Pauli group
-/
namespace PC

/-- the identity goes to the identity -/
theorem C03_transform_one (M : List Pauli) (n : Nat) (hM : M.length = 2 * n) :
    transform M ⟨idStr n, 0⟩ = ⟨idStr n, 0⟩ :=
  Tr.transform_one M n hM

/-- `X_k ↦` row `2k`, `Z_k ↦` row `2k+1` of the map -/
theorem C03_transform_gen (M : List Pauli) (n k : Nat) (hM : ValidMap M n) (hk : k < n) :
    PEq (transform M ⟨unitX n k, 0⟩) (rowAt M (2 * k)) ∧ PEq (transform M ⟨unitZ n k, 0⟩) (rowAt M (2 * k + 1)) := by
  have h0 : 2 * k < M.length := by rw [hM.1]; omega
  have h1 : 2 * k + 1 < M.length := by rw [hM.1]; omega
  exact ⟨Tr.transform_unitX M n k hM.1 hk (hM.2.1 _ (Tr.rowAt_mem M _ h0)).1,
    Tr.transform_unitZ M n k hM.1 hk (hM.2.1 _ (Tr.rowAt_mem M _ h1)).1⟩

/-- scalars are fixed: the phase of the input is carried through unchanged -/
theorem C03_transform_phase (M : List Pauli) (P : Pauli) (k : Int) :
    PEq (transform M ⟨P.g, P.p + k⟩) ⟨(transform M P).g, (transform M P).p + k⟩ :=
  Tr.transform_phase M P k

/-- **products go to products with the exact phase** -/
theorem C03_transform_mul (M : List Pauli) (n : Nat) (hM : ValidMap M n) (P Q : Pauli)
    (hP : P.g.length = n) (hQ : Q.g.length = n) :
    PEq (transform M (mul P Q)) (mul (transform M P) (transform M Q)) :=
  Tr.transform_mul M n hM P Q hP hQ

/-- commutation relations are preserved -/
theorem C03_transform_acq (M : List Pauli) (n : Nat) (hM : ValidMap M n) (P Q : Pauli)
    (hP : P.g.length = n) (hQ : Q.g.length = n) :
    acq (transform M P).g (transform M Q).g = acq P.g Q.g :=
  Tr.transform_acq M n hM P Q hP hQ

/-- Hermiticity is preserved: `i^p σ[g]` with `p + p0 g`… the image of a Hermitian operator is Hermitian.
    (`i^p σ[g]` is Hermitian iff `p` is even.) -/
theorem C03_transform_hermitian (M : List Pauli) (n : Nat) (hM : ValidMap M n) (P : Pauli)
    (hP : P.g.length = n) (hp : P.p % 2 = 0) : (transform M P).p % 2 = 0 :=
  Tr.transform_hermitian M n hM P hP hp

/-- a map applied through a qubit mask acts as the same map embedded among identity wires (any map) -/
theorem C03_transformMasked_eq_embed (M : List Pauli) (m : List Bool) (P : Pauli) (n : Nat)
    (hM : M.length = 2 * n) (hMr : ∀ R ∈ M, R.g.length = n) (hm : maskCount m = n) (hl : m.length = P.g.length) :
    PEq (transformMasked M m P) (transform (embed (idMap P.g.length) M m) P) :=
  Tr.transformMasked_eq_embed M m P n hM hMr hm hl

set_option linter.unusedVariables false in
/-- … and leaves every unmasked qubit untouched (true of `scatter` for any sizes: the size hypotheses are not used) -/
theorem C03_transformMasked_untouched (M : List Pauli) (m : List Bool) (P : Pauli) (n i : Nat)
    (hM : M.length = 2 * n) (hMr : ∀ R ∈ M, R.g.length = n) (hm : maskCount m = n) (hl : m.length = P.g.length)
    (hi : m.getD i false = false) :
    (transformMasked M m P).g.getD i (false, false) = P.g.getD i (false, false) :=
  getD_scatter_unmasked m P.g _ i (false, false) hi

/-- the map built from a rotation generator is valid … -/
theorem C03_rotationMap_valid (G : Pauli) (hG : G.p % 2 = 0) : ValidMap (rotationMap G) G.g.length :=
  Tr.rotationMap_valid G hG

/-- … and acts identically to the rotation itself -/
theorem C03_rotationMap_acts_as_rotate (G P : Pauli) (hG : G.p % 2 = 0) (hl : G.g.length = P.g.length) :
    PEq (transform (rotationMap G) P) (rotate G P) :=
  Tr.rotationMap_acts_as_rotate G P hG hl

end PC
