import PyCliffordModel.Proofs.RandomLemmas
/-!
# C18 (kernel level) — `pauli_diagonalize1/2` really diagonalize;  C16 — random pairs / Paulis / Cliffords are valid,
and a uniform tape gives a uniform anticommuting pair
-/
namespace PC

/-- apply a sequence of rotation generators (all with phase 0) in order -/
def rotSeq (gens : List PStr) (P : Pauli) : Pauli := gens.foldl (fun Q g => rotate ⟨g, 0⟩ Q) P
def rotSeqS (gens : List PStr) (h : PStr) : PStr := gens.foldl (fun x g => rotateSignless g x) h

/-- **`pauli_diagonalize1`**: for a non-identity string and a target qubit, the generated rotations send the operator to
    `± Z` on the target qubit (Hermiticity of the phase is preserved) -/
theorem C18_diag1_spec (g : PStr) (p : Int) (i0 : Nat) (hi : i0 < g.length) (hg : anyBit g = true) :
    (rotSeq (diagonalize1 g i0) ⟨g, p⟩).g = unitZ g.length i0 ∧
    (rotSeq (diagonalize1 g i0) ⟨g, p⟩).p % 2 = p % 2 ∧
    (∀ h ∈ diagonalize1 g i0, h.length = g.length) := by
  obtain ⟨h1, h2⟩ := Rn.diag1_strings g i0 hi hg
  obtain ⟨h3, h4⟩ := Rn.rotP_spec (diagonalize1 g i0) ⟨g, p⟩
  exact ⟨h3.trans h1, h4, h2⟩

/-- **`pauli_diagonalize2`**: an anticommuting pair is sent to `Z` and `X`-or-`Y` on the target qubit, both strings
    supported on that qubit only; the returned strings are the rotated inputs -/
theorem C18_diag2_spec (g1 g2 : PStr) (i0 : Nat) (hl : g1.length = g2.length) (hi : i0 < g1.length) (ha : acq g1 g2 = 1) :
    let r := diagonalize2 g1 g2 i0
    r.2.1 = unitZ g1.length i0 ∧ isOnsite r.2.2 i0 = true ∧ (getQ r.2.2 i0).1 = true ∧ r.2.2.length = g1.length ∧
    r.2.1 = rotSeqS r.1 g1 ∧ r.2.2 = rotSeqS r.1 g2 ∧ (∀ h ∈ r.1, h.length = g1.length) :=
  Rn.diag2_spec g1 g2 i0 hl hi ha

/-- **every sampled pair anticommutes** (whatever the tape), the first string is non-identity, lengths are `n` -/
theorem C16_randomPair_valid (n : Nat) (tape rest : List Bool) (g1 g2 : PStr)
    (h : randomPair n tape = some ((g1, g2), rest)) (hn : 0 < n) :
    acq g1 g2 = 1 ∧ g1.length = n ∧ g2.length = n ∧ anyBit g1 = true :=
  Rn.randomPair_spec n tape rest g1 g2 h

/-- **a uniform tape gives a uniform anticommuting partner**: for a fixed non-identity first string `g1`, every string `h`
    anticommuting with it is produced by exactly two of the `4^n` second halves of the tape -/
theorem C16_randomPair_two_to_one (n : Nat) (g1 h : PStr) (hg : g1.length = n) (hh : h.length = n)
    (hne : anyBit g1 = true) (ha : acq g1 h = 1) :
    ((allBits (2 * n)).filter fun b2 => randomPair n (flat g1 ++ b2) == some ((g1, h), [])).length = 2 :=
  Rn.randomPair_count n g1 h hg hh hne ha

/-- one-qubit pairs: all six anticommuting pairs are equally likely under a uniform tape (exact count over the 16 tapes
    whose first string is non-identity after no resampling: each pair arises from exactly 2 of them) -/
theorem C16_randomPair_N1_uniform :
    ∀ a b : Q, (a.1 || a.2) = true → acq [a] [b] = 1 →
      ((allBits 4).filter fun t => randomPair 1 t == some (([a], [b]), [])).length = 2 := by
  intro a b
  obtain ⟨a1, a2⟩ := a; obtain ⟨b1, b2⟩ := b
  cases a1 <;> cases a2 <;> cases b1 <;> cases b2 <;> decide

/-- **every sampled random Pauli map is valid** (a product of single-qubit Cliffords), for every tape and every sign draw -/
theorem C16_randomPauli_valid (n : Nat) (tape rest signs : List Bool) (rows : List PStr)
    (h : randomPauli n n tape = some (rows, rest)) : ValidMap (signedMap rows signs) n := by
  obtain ⟨h1, h2, h3⟩ := Rn.randomPauli_symS n tape rows rest h
  exact Rn.signedMap_valid rows signs n h1 h2 h3

/-- **every sampled random Clifford map is valid**: the rows satisfy the canonical commutation relations with Hermitian
    phases, for every tape and every sign draw -/
theorem C16_randomClifford_valid (n : Nat) (tape rest signs : List Bool) (rows : List PStr)
    (h : randomClifford n tape = some (rows, rest)) : ValidMap (signedMap rows signs) n := by
  obtain ⟨h1, h2, h3⟩ := Rn.randomClifford_symS n tape rows rest h
  exact Rn.signedMap_valid rows signs n h1 h2 h3

/-- a uniform sign tape gives uniform phases: the sign bits are read back from the map -/
theorem C16_signs_injective (rows : List PStr) (s t : List Bool) (hs : s.length = rows.length) (ht : t.length = rows.length)
    (h : signedMap rows s = signedMap rows t) : s = t := by
  apply List.ext_getElem (hs.trans ht.symm)
  intro i h1 h2
  have hi : i < rows.length := hs ▸ h1
  have := congrArg (fun M => (M[i]?).map Pauli.p) h
  simp only [signedMap, List.getElem?_mapIdx, List.getElem?_eq_getElem hi, Option.map_some,
    List.getD_eq_getElem?_getD, List.getElem?_eq_getElem h1, List.getElem?_eq_getElem h2, Option.getD_some,
    Option.some.injEq] at this
  revert this
  cases s[i] <;> cases t[i] <;> simp

end PC
