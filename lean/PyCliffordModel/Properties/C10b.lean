import PyCliffordModel.Properties.C09b
import PyCliffordModel.Proofs.RoundtripLemmas
/-!
# C10 (circuit level, continued) — both orders, compiled and layer-compiled circuits

`C10_circuit_backward_forward` (C09b) is the uncompiled circuit, backward after forward. Here: forward after backward;
the compiled circuit (single forward/backward maps) in both orders; the layer-compiled circuit (every layer carries its
own maps, the circuit none) in both orders.
-/
namespace PC

/-- uncompiled circuit, the other order: `forward` after `backward` restores every row (up to the representation of phases) -/
theorem C10_circuit_forward_backward (N : Nat) (prog : List Gate) (c : Circ) (rows : List Pauli) (r : Nat) (s : Bool)
    (coins : List Bool) (rnd : List CMap)
    (hw : ∀ g ∈ prog, g.WF N) (hbm : ∀ g ∈ prog, g.BmapOK) (hb : buildCirc N prog = .ok c)
    (hr : ∀ R ∈ rows, R.g.length = N) :
    ∃ c1 x1 c2 x2, c.backward ⟨⟨rows, r, s⟩, coins, rnd⟩ none = .ok (c1, x1) ∧ c1.forward x1 = .ok (c2, x2) ∧
      RowsPEq' x2.obj.rows rows ∧ x2.obj.r = r ∧ x2.coins = coins ∧ x2.rnd = rnd := by
  obtain ⟨hI, hI2⟩ := Cm.build_inv N prog c Gate.BmapOK hw hbm hb
  obtain ⟨c1, h1⟩ := Cm.backward_exact N c prog rows r s coins rnd hI hI2 hr
  have hI1 := Rt.backward_inv N c c1 prog _ _ hI hI2 h1
  have hlb : ∀ R : Pauli, R.g.length = N → (Cm.backAct c.layers.reverse N R).g.length = N := by
    intro R hR
    have h0 := Cm.backAct_eq N c.layers.reverse (fun L hL => hI2.2.1 L (List.mem_reverse.1 hL)) R
    rw [h0.1, Ci.length_seqActInv]; exact hR
  have hr1 : ∀ R ∈ rows.map (Cm.backAct c.layers.reverse N), R.g.length = N :=
    Rt.length_rows_map rows _ N (fun R hR => hlb R (hr R hR))
  refine ⟨c1, _, c1, _, h1, Cm.forward_exact N c1 prog _ r s coins rnd hI1 hr1, ?_, rfl, rfl, rfl⟩
  show RowsPEq' ((rows.map (Cm.backAct c.layers.reverse N)).map (seqAct (Ci.flatGates c1.layers) N)) rows
  apply Rt.rowsPEq_map_map
  intro R hR
  have hRl := hr R hR
  have h0 := Cm.backAct_eq N c.layers.reverse (fun L hL => hI2.2.1 L (List.mem_reverse.1 hL)) R
  rw [List.reverse_reverse] at h0
  have h2 := h0.trans (Cm.seqActInv_unique _ prog N hI.2.2.2.2.1 hw hI.2.2.2.2.2 R hRl)
  exact ((hI1.2.2.2.2.2 _ (hlb R hRl)).trans (Ci.seqAct_congr prog N h2)).trans
    (Ci.program_inverse prog N R hw hRl).2

/-- **compiled circuit, both orders**: after `compile()`, `backward` after `forward` and `forward` after `backward` restore
    every row, the rank, the coins and the random supply -/
theorem C10_compiled_roundtrip (N : Nat) (prog : List Gate) (c c' : Circ) (rows : List Pauli) (r : Nat) (s : Bool)
    (coins : List Bool) (rnd : List CMap)
    (hw : ∀ g ∈ prog, g.WF N) (hbm : ∀ g ∈ prog, g.BmapOK) (hb : buildCirc N prog = .ok c) (hc : c.compile = .ok c')
    (hr : ∀ R ∈ rows, R.g.length = N) :
    (∃ c1 x1 c2 x2, c'.forward ⟨⟨rows, r, s⟩, coins, rnd⟩ = .ok (c1, x1) ∧ c1.backward x1 none = .ok (c2, x2) ∧
      RowsPEq' x2.obj.rows rows ∧ x2.obj.r = r ∧ x2.coins = coins ∧ x2.rnd = rnd) ∧
    (∃ c1 x1 c2 x2, c'.backward ⟨⟨rows, r, s⟩, coins, rnd⟩ none = .ok (c1, x1) ∧ c1.forward x1 = .ok (c2, x2) ∧
      RowsPEq' x2.obj.rows rows ∧ x2.obj.r = r ∧ x2.coins = coins ∧ x2.rnd = rnd) := by
  obtain ⟨F, B, hF, hB, hu⟩ := C09_compile_sets_maps N prog c c' hw hb hc
  obtain ⟨hVF, hVB, hact⟩ := C09_circuit_compile_sound N prog c c' F B hw hbm hb hc hF hB
  constructor
  · refine ⟨c', _, c', _, Rt.forward_compiled c' F _ hu hF, Rt.backward_compiled c' B _ none hu hB, ?_, rfl, rfl, rfl⟩
    show RowsPEq' ((rows.map (transform F)).map (transform B)) rows
    exact Rt.rowsPEq_map_map rows _ _ (fun R hR => (hact R (hr R hR)).2.2.1)
  · refine ⟨c', _, c', _, Rt.backward_compiled c' B _ none hu hB, Rt.forward_compiled c' F _ hu hF, ?_, rfl, rfl, rfl⟩
    show RowsPEq' ((rows.map (transform B)).map (transform F)) rows
    exact Rt.rowsPEq_map_map rows _ _ (fun R hR => (hact R (hr R hR)).2.2.2)

/-- the compiled circuit runs forward / backward exactly as the uncompiled one (rows up to phase representation) -/
theorem C10_compiled_same_as_uncompiled (N : Nat) (prog : List Gate) (c c' : Circ) (rows : List Pauli) (r : Nat) (s : Bool)
    (coins : List Bool) (rnd : List CMap)
    (hw : ∀ g ∈ prog, g.WF N) (hbm : ∀ g ∈ prog, g.BmapOK) (hb : buildCirc N prog = .ok c) (hc : c.compile = .ok c')
    (hr : ∀ R ∈ rows, R.g.length = N) :
    (∃ c1 x1 c2 x2, c.forward ⟨⟨rows, r, s⟩, coins, rnd⟩ = .ok (c1, x1) ∧ c'.forward ⟨⟨rows, r, s⟩, coins, rnd⟩ = .ok (c2, x2) ∧
      RowsPEq' x1.obj.rows x2.obj.rows) ∧
    (∃ c1 x1 c2 x2, c.backward ⟨⟨rows, r, s⟩, coins, rnd⟩ none = .ok (c1, x1) ∧ c'.backward ⟨⟨rows, r, s⟩, coins, rnd⟩ none = .ok (c2, x2) ∧
      RowsPEq' x1.obj.rows x2.obj.rows) := by
  obtain ⟨hI, hI2⟩ := Cm.build_inv N prog c Gate.BmapOK hw hbm hb
  obtain ⟨F, B, hF, hB, hu⟩ := C09_compile_sets_maps N prog c c' hw hb hc
  obtain ⟨hVF, hVB, hact⟩ := C09_circuit_compile_sound N prog c c' F B hw hbm hb hc hF hB
  constructor
  · refine ⟨c, _, c', _, Cm.forward_exact N c prog rows r s coins rnd hI hr, Rt.forward_compiled c' F _ hu hF, ?_⟩
    show RowsPEq' (rows.map (seqAct (Ci.flatGates c.layers) N)) (rows.map (transform F))
    apply Ci.rowsPEq_map
    intro R hR
    exact (hI.2.2.2.2.2 R (hr R hR)).trans (hact R (hr R hR)).1.symm
  · obtain ⟨c1, h1⟩ := Cm.backward_exact N c prog rows r s coins rnd hI hI2 hr
    refine ⟨c1, _, c', _, h1, Rt.backward_compiled c' B _ none hu hB, ?_⟩
    show RowsPEq' (rows.map (Cm.backAct c.layers.reverse N)) (rows.map (transform B))
    apply Ci.rowsPEq_map
    intro R hR
    have hRl := hr R hR
    have h0 := Cm.backAct_eq N c.layers.reverse (fun L hL => hI2.2.1 L (List.mem_reverse.1 hL)) R
    rw [List.reverse_reverse] at h0
    exact (h0.trans (Cm.seqActInv_unique _ prog N hI.2.2.2.2.1 hw hI.2.2.2.2.2 R hRl)).trans (hact R hRl).2.1.symm

/-! `Circ.compileLayersOnly` (Model/Circuit.lean): compile every layer but not the circuit -/

/-- **layer-compiled circuit**: runs forward as the program, and `backward` after `forward` / `forward` after `backward`
    restore every row -/
theorem C10_layer_compiled_roundtrip (N : Nat) (prog : List Gate) (c c' : Circ) (rows : List Pauli) (r : Nat) (s : Bool)
    (coins : List Bool) (rnd : List CMap)
    (hw : ∀ g ∈ prog, g.WF N) (hbm : ∀ g ∈ prog, g.BmapOK) (hb : buildCirc N prog = .ok c)
    (hc : c.compileLayersOnly = .ok c') (hr : ∀ R ∈ rows, R.g.length = N) :
    (∃ c1 x1, c'.forward ⟨⟨rows, r, s⟩, coins, rnd⟩ = .ok (c1, x1) ∧ RowsPEq' x1.obj.rows (rows.map (seqAct prog N)) ∧
      ∃ c2 x2, c1.backward x1 none = .ok (c2, x2) ∧ RowsPEq' x2.obj.rows rows ∧ x2.obj.r = r) ∧
    (∃ c1 x1, c'.backward ⟨⟨rows, r, s⟩, coins, rnd⟩ none = .ok (c1, x1) ∧ RowsPEq' x1.obj.rows (rows.map (seqActInv prog N)) ∧
      ∃ c2 x2, c1.forward x1 = .ok (c2, x2) ∧ RowsPEq' x2.obj.rows rows ∧ x2.obj.r = r) := by
  obtain ⟨hI, hI2⟩ := Cm.build_inv N prog c Gate.BmapOK hw hbm hb
  obtain ⟨hN, hu, hf, _, hwf, hs⟩ := hI
  obtain ⟨hbn, hp, hq⟩ := hI2
  subst hN
  unfold Circ.compileLayersOnly at hc
  cases hcl : compileLayers c.N c.layers (idMap c.N) (idMap c.N) with
  | error e => rw [hcl] at hc; cases hc
  | ok t =>
    obtain ⟨Ls, F0, B0⟩ := t
    rw [hcl] at hc
    dsimp only at hc
    cases hc
    obtain ⟨hm, hact⟩ := Rt.compileLayers_layers c.N c.layers Ls _ _ F0 B0 hp (fun g hg => ⟨hwf g hg, hq g hg⟩) hcl
    have hmf : ∀ L ∈ Ls, ∃ gs f b, L = Layer.gates gs (some f) b := fun L hL => by
      obtain ⟨gs, f, b, e⟩ := hm L hL; exact ⟨gs, f, some b, e⟩
    have hmb : ∀ L ∈ Ls.reverse, ∃ gs f b, L = Layer.gates gs f (some b) := fun L hL => by
      obtain ⟨gs, f, b, e⟩ := hm L (List.mem_reverse.1 hL); exact ⟨gs, some f, b, e⟩
    -- the two runs of the layer-compiled circuit
    have hfw : ∀ (rows' : List Pauli) (r' : Nat) (s' : Bool) (co : List Bool) (rn : List CMap) (Ls0 : List Layer),
        Ls0 = Ls → Circ.forward { c with layers := Ls0 } ⟨⟨rows', r', s'⟩, co, rn⟩ =
          .ok ({ c with layers := Ls }, ⟨⟨rows'.map (Rt.fAct Ls), r', s'⟩, co, rn⟩) := by
      intro rows' r' s' co rn Ls0 e
      subst e
      unfold Circ.forward
      rw [if_pos hu]
      simp only [hf, Rt.layersForward_compiled c.N Ls0 rows' r' s' co rn hmf]
    have hbw : ∀ (rows' : List Pauli) (r' : Nat) (s' : Bool) (co : List Bool) (rn : List CMap),
        Circ.backward { c with layers := Ls } ⟨⟨rows', r', s'⟩, co, rn⟩ none =
          .ok ({ c with layers := Ls.reverse.reverse }, ⟨⟨rows'.map (Rt.bAct Ls.reverse), r', s'⟩, co, rn⟩) := by
      intro rows' r' s' co rn
      unfold Circ.backward
      rw [if_pos hu]
      simp only [hbn, Rt.layersBackward_compiled c.N Ls.reverse rows' r' s' co rn [] hmb]
    have hFa : ∀ R : Pauli, R.g.length = c.N → PEq (Rt.fAct Ls R) (seqAct prog c.N R) := fun R hR =>
      (hact R hR).1.trans (hs R hR)
    have hBa : ∀ R : Pauli, R.g.length = c.N → PEq (Rt.bAct Ls.reverse R) (seqActInv prog c.N R) := fun R hR =>
      (hact R hR).2.trans (Cm.seqActInv_unique _ prog c.N hwf hw hs R hR)
    have hlF : ∀ R : Pauli, R.g.length = c.N → (Rt.fAct Ls R).g.length = c.N := fun R hR => by
      rw [(hFa R hR).1, Ci.length_seqAct]; exact hR
    have hlB : ∀ R : Pauli, R.g.length = c.N → (Rt.bAct Ls.reverse R).g.length = c.N := fun R hR => by
      rw [(hBa R hR).1, Ci.length_seqActInv]; exact hR
    constructor
    · refine ⟨_, _, hfw rows r s coins rnd Ls rfl, Ci.rowsPEq_map rows _ _ (fun R hR => hFa R (hr R hR)),
        _, _, hbw _ r s coins rnd, ?_, rfl⟩
      show RowsPEq' ((rows.map (Rt.fAct Ls)).map (Rt.bAct Ls.reverse)) rows
      apply Rt.rowsPEq_map_map
      intro R hR
      have hRl := hr R hR
      exact ((hBa _ (hlF R hRl)).trans (Ci.seqActInv_congr prog c.N (hFa R hRl))).trans
        (Ci.program_inverse prog c.N R hw hRl).1
    · refine ⟨_, _, hbw rows r s coins rnd, Ci.rowsPEq_map rows _ _ (fun R hR => hBa R (hr R hR)),
        _, _, hfw _ r s coins rnd _ (List.reverse_reverse Ls), ?_, rfl⟩
      show RowsPEq' ((rows.map (Rt.bAct Ls.reverse)).map (Rt.fAct Ls)) rows
      apply Rt.rowsPEq_map_map
      intro R hR
      have hRl := hr R hR
      exact ((hFa _ (hlB R hRl)).trans (Ci.seqAct_congr prog c.N (hBa R hRl))).trans
        (Ci.program_inverse prog c.N R hw hRl).2

end PC
