import PyCliffordModel.Proofs.Rotate
import Mathlib.Tactic.NoncommRing
/-!
# C02 — Clifford rotation by a Pauli generator is conjugation by `exp(iπ/4·G)`

`U = exp(iπ/4 G) = (1 + iG)/√2` for `G² = 1`, so `U†PU = (1 − iG) P (1 + iG) / 2`.
`C02_conj_*` prove, in any ring with a central `i`, `i² = −1`, that this is `P` when `P` commutes with `G`
and `i·P·G` when it anticommutes. The model theorems show `rotate` implements exactly that rule.
-/
namespace PC

/-- commuting case of the conjugation (any ring; `i` central, `i² = -1`, `G² = 1`) -/
theorem C02_conj_commute {R : Type} [Ring R] (i G P : R) (hi : i * i = -1) (hiG : i * G = G * i)
    (hiP : i * P = P * i) (hG : G * G = 1) (hc : P * G = G * P) :
    (1 - i * G) * P * (1 + i * G) = 2 * P := by
  have h1 : i * G * P * (i * G) = -P := by
    calc i * G * P * (i * G) = i * (G * (P * i) * G) := by noncomm_ring
      _ = i * (G * (i * P) * G) := by rw [hiP]
      _ = i * (G * i) * (P * G) := by noncomm_ring
      _ = i * (i * G) * (G * P) := by rw [hiG, hc]
      _ = (i * i) * (G * G) * P := by noncomm_ring
      _ = -P := by rw [hi, hG]; noncomm_ring
  have h2 : P * (i * G) = i * G * P := by
    calc P * (i * G) = (P * i) * G := by noncomm_ring
      _ = i * (P * G) := by rw [← hiP]; noncomm_ring
      _ = i * G * P := by rw [hc]; noncomm_ring
  calc (1 - i * G) * P * (1 + i * G)
      = P + P * (i * G) - i * G * P - i * G * P * (i * G) := by noncomm_ring
    _ = 2 * P := by rw [h1, h2]; noncomm_ring

/-- anticommuting case -/
theorem C02_conj_anticommute {R : Type} [Ring R] (i G P : R) (hi : i * i = -1) (hiG : i * G = G * i)
    (hiP : i * P = P * i) (hG : G * G = 1) (hc : P * G = -(G * P)) :
    (1 - i * G) * P * (1 + i * G) = 2 * (i * P * G) := by
  have h1 : i * G * P * (i * G) = P := by
    calc i * G * P * (i * G) = i * (G * (P * i) * G) := by noncomm_ring
      _ = i * (G * (i * P) * G) := by rw [hiP]
      _ = i * (G * i) * (P * G) := by noncomm_ring
      _ = i * (i * G) * (-(G * P)) := by rw [hiG, hc]
      _ = -((i * i) * (G * G) * P) := by noncomm_ring
      _ = P := by rw [hi, hG]; noncomm_ring
  have h2 : i * G * P = -(i * P * G) := by
    calc i * G * P = i * (G * P) := by noncomm_ring
      _ = i * (-(P * G)) := by rw [hc]; noncomm_ring
      _ = -(i * P * G) := by noncomm_ring
  have h3 : P * (i * G) = i * P * G := by
    calc P * (i * G) = (P * i) * G := by noncomm_ring
      _ = i * P * G := by rw [← hiP]
  calc (1 - i * G) * P * (1 + i * G)
      = P + P * (i * G) - i * G * P - i * G * P * (i * G) := by noncomm_ring
    _ = 2 * (i * P * G) := by rw [h1, h2, h3]; noncomm_ring

/-- `P` is returned unchanged when it commutes with `G` -/
theorem C02_rotate_commute (G P : Pauli) (h : acq G.g P.g = 0) : rotate G P = P := by
  exact rotate_of_acq_zero G P h

/-- … and as the exactly-signed product `i·P·G` when it anticommutes (all four phases of `P`, both signs of `G`) -/
theorem C02_rotate_anticommute (G P : Pauli) (h : acq G.g P.g = 1) : rotate G P = smulI 1 (mul P G) := by
  rw [rotate_of_acq_one G P h]
  simp only [smulI, mul]
  congr 1
  omega

/-- rotating by `−G` undoes rotating by `G` (Hermitian `G`) -/
theorem C02_rotate_neg_cancel (G P : Pauli) (hG : G.p % 2 = 0) (hl : G.g.length = P.g.length) :
    PEq (rotate (neg G) (rotate G P)) P ∧ PEq (rotate G (rotate (neg G) P)) P := by
  have hnl : (neg G).g.length = P.g.length := hl
  rcases acq_bit G.g P.g with h | h
  · have hn : acq (neg G).g P.g = 0 := h
    rw [rotate_of_acq_zero G P h, rotate_of_acq_zero (neg G) P hn, rotate_of_acq_zero G P h]
    exact ⟨PEq.refl _, PEq.refl _⟩
  · have hn : acq (neg G).g P.g = 1 := h
    have a := rotate_rotate_same_g G (neg G) P rfl hl h
    have b := rotate_rotate_same_g (neg G) G P rfl hnl hn
    refine ⟨⟨a.1, ?_⟩, ⟨b.1, ?_⟩⟩
    · have := a.2; simp only [neg] at this ⊢; omega
    · have := b.2; simp only [neg] at this ⊢; omega

/-- two rotations give `G·P·G`: the sign of `P` flips iff it anticommutes with `G` -/
theorem C02_rotate_twice (G P : Pauli) (hG : G.p % 2 = 0) (hl : G.g.length = P.g.length) :
    PEq (rotate G (rotate G P)) ⟨P.g, P.p + 2 * acq G.g P.g⟩ := by
  rcases acq_bit G.g P.g with h | h
  · rw [rotate_of_acq_zero G P h, rotate_of_acq_zero G P h, h]
    exact ⟨rfl, by simp⟩
  · have a := rotate_rotate_same_g G G P rfl hl h
    rw [h]
    refine ⟨a.1, ?_⟩
    have := a.2; simp only at this ⊢; omega

/-- four rotations by `G` restore every input -/
theorem C02_rotate_four (G P : Pauli) (hG : G.p % 2 = 0) (hl : G.g.length = P.g.length) :
    PEq (rotate G (rotate G (rotate G (rotate G P)))) P := by
  have t1 := C02_rotate_twice G P hG hl
  have t2 := C02_rotate_twice G ⟨P.g, P.p + 2 * acq G.g P.g⟩ hG hl
  have c := rotate_congr_PEq G (rotate_congr_PEq G t1)
  have hb := acq_bit G.g P.g
  refine PEq.trans c (PEq.trans t2 ⟨rfl, ?_⟩)
  simp only
  omega

/-- rotation is multiplicative (it is a conjugation) -/
theorem C02_rotate_mul (G P Q : Pauli) (hG : G.p % 2 = 0) (hP : G.g.length = P.g.length)
    (hQ : G.g.length = Q.g.length) :
    PEq (rotate G (mul P Q)) (mul (rotate G P) (rotate G Q)) := by
  exact rotate_mul G P Q hG hP hQ

/-- rotation preserves commutation relations -/
theorem C02_rotate_acq (G P Q : Pauli) (hP : G.g.length = P.g.length) (hQ : G.g.length = Q.g.length) :
    acq (rotate G P).g (rotate G Q).g = acq P.g Q.g := by
  exact rotate_acq G P Q hP hQ

/-- with a qubit mask the same rule is applied with the generator embedded among identity wires -/
theorem C02_rotateMasked_eq_embed (G P : Pauli) (m : List Bool) (hm : maskCount m = G.g.length)
    (hl : m.length = P.g.length) :
    rotateMasked G m P = rotate (embedGen m P.g.length G) P := by
  have _ := hm; have _ := hl  -- holds for any sizes (both sides truncate / pad with identity alike)
  exact rotateMasked_eq_rotate_embedGen G P m

/-- … and every unmasked qubit is untouched -/
theorem C02_rotateMasked_untouched (G P : Pauli) (m : List Bool) (i : Nat) (hm : maskCount m = G.g.length)
    (hl : m.length = P.g.length) (hi : m.getD i false = false) :
    (rotateMasked G m P).g.getD i (false, false) = P.g.getD i (false, false) := by
  have _ := hm; have _ := hl
  exact rotateMasked_g_unmasked G P m i (false, false) hi

end PC
