import PyCliffordModel.Proofs.ValidB
import PyCliffordModel.Generated.GateTables
/-!
# C11 — named gates are the textbook Cliffords; `C(0..23)` enumerates the one-qubit group

The tables in `Generated/GateTables.lean` are re-extracted from the running code on every run
(`H(0).forward_map`, …, `C(k,0).forward_map`, `CNOT(0,1)`, `CNOT(1,0)`), so these kernel-checked
statements are about what the code says *now*. Placement anywhere in a register is C03
(`transformMasked` = the map embedded among identity wires, other qubits untouched).
-/
namespace PC
open Gen

abbrev qI : Q := (false, false)
abbrev qX : Q := (true, false)
abbrev qY : Q := (true, true)
abbrev qZ : Q := (false, true)

/-- H swaps X and Z (and sends Y to −Y) -/
theorem C11_H : transform gateH ⟨[qX], 0⟩ = ⟨[qZ], 0⟩ ∧ transform gateH ⟨[qZ], 0⟩ = ⟨[qX], 0⟩ ∧
    transform gateH ⟨[qY], 0⟩ = ⟨[qY], 2⟩ ∧ ValidMap gateH 1 := by
  refine ⟨by decide, by decide, by decide, validMapB_sound _ _ (by decide)⟩

/-- S sends X to Y and keeps Z (and sends Y to −X) -/
theorem C11_S : transform gateS ⟨[qX], 0⟩ = ⟨[qY], 0⟩ ∧ transform gateS ⟨[qZ], 0⟩ = ⟨[qZ], 0⟩ ∧
    transform gateS ⟨[qY], 0⟩ = ⟨[qX], 2⟩ ∧ ValidMap gateS 1 := by
  refine ⟨by decide, by decide, by decide, validMapB_sound _ _ (by decide)⟩

/-- each Pauli gate flips the sign of exactly the Paulis it anticommutes with -/
def flipsBy (gate : List Pauli) (me : Q) : Bool :=
  [qI, qX, qY, qZ].all fun q => transform gate ⟨[q], 0⟩ == ⟨[q], if anti [me] [q] then 2 else 0⟩
theorem C11_XYZ : flipsBy gateX qX = true ∧ flipsBy gateY qY = true ∧ flipsBy gateZ qZ = true ∧
    ValidMap gateX 1 ∧ ValidMap gateY 1 ∧ ValidMap gateZ 1 := by
  refine ⟨by decide, by decide, by decide, validMapB_sound _ _ (by decide), validMapB_sound _ _ (by decide),
    validMapB_sound _ _ (by decide)⟩

/-- CNOT with control before target (qubits `(c,t)`, `c < t`): `X_c ↦ X_c X_t`, `Z_t ↦ Z_c Z_t`, `Z_c ↦ Z_c`, `X_t ↦ X_t` -/
theorem C11_CNOT_ct : transform gateCNOT01 ⟨[qX, qI], 0⟩ = ⟨[qX, qX], 0⟩ ∧ transform gateCNOT01 ⟨[qI, qZ], 0⟩ = ⟨[qZ, qZ], 0⟩ ∧
    transform gateCNOT01 ⟨[qZ, qI], 0⟩ = ⟨[qZ, qI], 0⟩ ∧ transform gateCNOT01 ⟨[qI, qX], 0⟩ = ⟨[qI, qX], 0⟩ ∧
    ValidMap gateCNOT01 2 := by
  refine ⟨by decide, by decide, by decide, by decide, validMapB_sound _ _ (by decide)⟩

/-- CNOT with control after target (qubits `(c,t)`, `c > t`: ascending position 0 is the target, 1 the control) -/
theorem C11_CNOT_tc : transform gateCNOT10 ⟨[qI, qX], 0⟩ = ⟨[qX, qX], 0⟩ ∧ transform gateCNOT10 ⟨[qZ, qI], 0⟩ = ⟨[qZ, qZ], 0⟩ ∧
    transform gateCNOT10 ⟨[qI, qZ], 0⟩ = ⟨[qI, qZ], 0⟩ ∧ transform gateCNOT10 ⟨[qX, qI], 0⟩ = ⟨[qX, qI], 0⟩ ∧
    ValidMap gateCNOT10 2 := by
  refine ⟨by decide, by decide, by decide, by decide, validMapB_sound _ _ (by decide)⟩

/-- the 24 indexed gates: there are 24 of them, each a valid one-qubit map -/
theorem C11_C_valid : gateC.length = 24 ∧ ∀ M ∈ gateC, ValidMap M 1 := by
  refine ⟨by decide, ?_⟩
  have h : gateC.all (fun M => validMapB M 1) = true := by decide
  intro M hM
  exact validMapB_sound _ _ (List.all_eq_true.mp h M hM)

/-- … pairwise different -/
theorem C11_C_distinct : gateC.Nodup := by decide

/-- … closed under composition … -/
theorem C11_C_closed_compose : ∀ A ∈ gateC, ∀ B ∈ gateC, compose A B ∈ gateC := by decide +kernel

/-- … and under inversion (the inverse exists and is in the table) -/
theorem C11_C_closed_inverse : ∀ A ∈ gateC, ∃ B ∈ gateC, inverse A = some B := by decide +kernel

/-- hence they are all of the one-qubit Clifford group modulo phase: every valid one-qubit map is in the table.
    (a valid one-qubit map is an anticommuting pair of non-identity Hermitian Paulis: 6 · 4 = 24 of them) -/
theorem C11_C_complete : ∀ a b : Q, ∀ s t : Bool,
    validMapB [⟨[a], if s then 2 else 0⟩, ⟨[b], if t then 2 else 0⟩] 1 = true →
    [⟨[a], if s then 2 else 0⟩, ⟨[b], if t then 2 else 0⟩] ∈ gateC := by
  intro a b s t
  obtain ⟨a1, a2⟩ := a
  obtain ⟨b1, b2⟩ := b
  revert a1 a2 b1 b2 s t
  decide

end PC
