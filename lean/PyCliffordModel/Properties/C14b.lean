import PyCliffordModel.Properties.C14
import PyCliffordModel.Properties.C09
import PyCliffordModel.Proofs.TrajLemmas2
/-!
# C14 (circuit level) — a circuit interleaving gates and measurement layers follows the trajectory of its program

A *program* is the sequence of calls `circ.take(gate)` / `circ.measure(*qubits)` that built a `Circuit`. Its meaning is
sequential: each gate acts when it was added, each measurement is a direct `state.measure(Z_q …)` at the point where it
was added, consuming coins in that order. The theorems below show that the layered circuit (gates packed into layers,
never across a measurement layer) runs forward exactly as that sequential meaning, records the outcomes in order,
accumulates the log-probability, and that `backward` hands every measurement layer exactly its own slice of the record,
last layer first.
-/
namespace PC

/-- one call on a `Circuit`: `take(gate)` or `measure(*qubits)` -/
inductive Item
  | gate (g : Gate)
  | meas (qs : List Nat)

/-- build a `Circuit` by replaying the calls of a program -/
def buildProg (N : Nat) (prog : List Item) : Except Err Circ :=
  prog.foldlM (fun c it => match it with
    | .gate g => c.take g
    | .meas qs => c.takeMeas qs) { N := N }

def Item.WF (N : Nat) : Item → Prop
  | .gate g => g.WF N
  | .meas qs => qs ≠ [] ∧ ∀ q ∈ qs, q < N

/-- the sequential meaning of a program on a state: gates act one at a time, measurements are direct measurements of
    `Z` on the listed qubits; returns the final state, the record (`+1/−1`, in order), the number of undetermined
    outcomes, and the unused coins -/
def runItems (N : Nat) : List Item → State → List Bool → Except Err (State × List Int × Nat × List Bool)
  | [], st, coins => .ok (st, [], 0, coins)
  | .gate g :: rest, st, coins => runItems N rest ⟨st.rows.map (gateAct g N), st.r⟩ coins
  | .meas qs :: rest, st, coins =>
    match measure st (measObs N qs) coins with
    | .error e => .error e
    | .ok (st', outs, k, cs) =>
      match runItems N rest st' cs with
      | .error e => .error e
      | .ok (st'', res, k', cs') => .ok (st'', (outs.map fun o => if o % 2 = 0 then (1 : Int) else -1) ++ res, k + k', cs')


/-! ## helper lemmas about programs (they mention `Item`, `runItems`, so they live here) -/
namespace Tj3

abbrev Res := Except Err (State × List Int × Nat × List Bool)

def itemWidth : Item → Nat
  | .meas qs => qs.length
  | .gate _ => 0

def progStep (c : Circ) : Item → Except Err Circ
  | .gate g => c.take g
  | .meas qs => c.takeMeas qs

theorem buildProg_eq (N : Nat) (prog : List Item) : buildProg N prog = prog.foldlM progStep { N := N } := by
  unfold buildProg
  congr 1

theorem sum_width (prog : List Item) (f : Item → Nat) (hf : ∀ it, f it = itemWidth it) :
    (prog.map f).sum = (prog.map itemWidth).sum := by
  congr 1
  exact List.map_congr_left (fun it _ => hf it)

/-! ### sequencing -/

def bindR (x : Res) (f : State → List Bool → Res) : Res :=
  match x with
  | .error e => .error e
  | .ok (st', res, k, cs) =>
    match f st' cs with
    | .error e => .error e
    | .ok (st'', res', k', cs') => .ok (st'', res ++ res', k + k', cs')

theorem bindR_assoc (x : Res) (f g : State → List Bool → Res) :
    bindR (bindR x f) g = bindR x (fun s c => bindR (f s c) g) := by
  cases x with
  | error e => rfl
  | ok v =>
    obtain ⟨s, r, k, c⟩ := v
    simp only [bindR]
    cases f s c with
    | error e => rfl
    | ok w =>
      obtain ⟨s', r', k', c'⟩ := w
      simp only
      cases g s' c' with
      | error e => rfl
      | ok u =>
        obtain ⟨s'', r'', k'', c''⟩ := u
        simp only [List.append_assoc, Nat.add_assoc]

theorem bindR_pure (st : State) (coins : List Bool) (f : State → List Bool → Res) :
    bindR (.ok (st, [], 0, coins)) f = f st coins := by
  simp only [bindR]
  cases f st coins with
  | error e => rfl
  | ok w =>
    obtain ⟨s', r', k', c'⟩ := w
    simp only [List.nil_append, Nat.zero_add]

def measStep (N : Nat) (qs : List Nat) (st : State) (coins : List Bool) : Res :=
  match measure st (measObs N qs) coins with
  | .error e => .error e
  | .ok (st', outs, k, cs) => .ok (st', outs.map fun o => if o % 2 = 0 then (1 : Int) else -1, k, cs)

theorem runItems_nil (N : Nat) (st : State) (coins : List Bool) : runItems N [] st coins = .ok (st, [], 0, coins) := rfl
theorem runItems_gate (N : Nat) (g : Gate) (rest : List Item) (st : State) (coins : List Bool) :
    runItems N (.gate g :: rest) st coins = runItems N rest ⟨st.rows.map (gateAct g N), st.r⟩ coins := rfl

theorem runItems_meas_error (N : Nat) (qs : List Nat) (rest : List Item) (st : State) (coins : List Bool) (e : Err)
    (h : measure st (measObs N qs) coins = .error e) : runItems N (.meas qs :: rest) st coins = .error e := by
  rw [runItems, h]

theorem runItems_meas_ok (N : Nat) (qs : List Nat) (rest : List Item) (st st' : State) (coins cs : List Bool)
    (outs : List Int) (k : Nat) (h : measure st (measObs N qs) coins = .ok (st', outs, k, cs)) :
    runItems N (.meas qs :: rest) st coins =
      match runItems N rest st' cs with
      | .error e => .error e
      | .ok (st'', res, k', cs') =>
        .ok (st'', (outs.map fun o => if o % 2 = 0 then (1 : Int) else -1) ++ res, k + k', cs') := by
  rw [runItems, h]

theorem runItems_meas (N : Nat) (qs : List Nat) (rest : List Item) (st : State) (coins : List Bool) :
    runItems N (.meas qs :: rest) st coins = bindR (measStep N qs st coins) (runItems N rest) := by
  cases h : measure st (measObs N qs) coins with
  | error e => rw [runItems_meas_error N qs rest st coins e h]; simp only [measStep, h, bindR]
  | ok v =>
    obtain ⟨st', outs, k, cs⟩ := v
    rw [runItems_meas_ok N qs rest st st' coins cs outs k h]
    simp only [measStep, h, bindR]
    cases runItems N rest st' cs with
    | error e => rfl
    | ok w => rfl

theorem runItems_append (N : Nat) (A B : List Item) : ∀ (st : State) (coins : List Bool),
    runItems N (A ++ B) st coins = bindR (runItems N A st coins) (runItems N B) := by
  induction A with
  | nil => intro st coins; rw [List.nil_append, runItems_nil, bindR_pure]
  | cons it A ih =>
    intro st coins
    cases it with
    | gate g => rw [List.cons_append, runItems_gate, runItems_gate, ih]
    | meas qs =>
      rw [List.cons_append, runItems_meas, runItems_meas, bindR_assoc]
      congr 1
      funext s c
      exact ih s c

theorem runItems_gates_append (N : Nat) (gs : List Gate) (rest : List Item) : ∀ (st : State) (coins : List Bool),
    runItems N (gs.map Item.gate ++ rest) st coins = runItems N rest ⟨st.rows.map (seqAct gs N), st.r⟩ coins := by
  induction gs with
  | nil =>
    intro st coins
    have : seqAct [] N = id := rfl
    rw [this, List.map_id]; rfl
  | cons g gs ih =>
    intro st coins
    rw [List.map_cons, List.cons_append, runItems_gate, ih]
    simp only [List.map_map]
    rfl

theorem runItems_gates (N : Nat) (gs : List Gate) (st : State) (coins : List Bool) :
    runItems N (gs.map Item.gate) st coins = .ok (⟨st.rows.map (seqAct gs N), st.r⟩, [], 0, coins) := by
  have := runItems_gates_append N gs [] st coins
  rw [List.append_nil] at this
  rw [this]; rfl

/-! ### the invariant of the sequential meaning -/

theorem tabInv_seqAct (N : Nat) (gs : List Gate) : ∀ (st : State), (∀ g ∈ gs, g.WF N) → TabInv st N →
    TabInv ⟨st.rows.map (seqAct gs N), st.r⟩ N := by
  induction gs with
  | nil =>
    intro st _ h
    have : seqAct [] N = id := rfl
    rw [this, List.map_id]; exact h
  | cons g gs ih =>
    intro st hw h
    have h1 := C05_gate_inv st N g h (hw g (by simp))
    have := ih ⟨st.rows.map (gateAct g N), st.r⟩ (fun x hx => hw x (by simp [hx])) h1
    simp only [List.map_map] at this
    exact this

theorem measStep_inv (N : Nat) (qs : List Nat) (st s1 : State) (coins cs : List Bool) (res : List Int) (k : Nat)
    (h : TabInv st N) (hm : measStep N qs st coins = .ok (s1, res, k, cs)) :
    TabInv s1 N ∧ s1.r ≤ st.r ∧ (∀ v ∈ res, v = 1 ∨ v = -1) ∧ res.length = qs.length ∧
      cs.length + k = coins.length := by
  unfold measStep at hm
  cases h1 : measure st (measObs N qs) coins with
  | error e => rw [h1] at hm; exact absurd hm (by simp)
  | ok v =>
    obtain ⟨st', outs, k', cs'⟩ := v
    rw [h1] at hm
    simp only at hm
    injection hm with hm
    injection hm with e1 e2
    injection e2 with e2 e3
    injection e3 with e3 e4
    subst e1 e2 e3 e4
    obtain ⟨i1, i2, i3, _⟩ := C05_measure_inv st st' N (measObs N qs) coins cs' outs k' h (Tj.measObs_ok N qs) h1
    obtain ⟨_, _, j3⟩ := C06_measure_list st st' (measObs N qs) coins cs' outs k' h1
    refine ⟨i1, i2, ?_, by rw [List.length_map, i3, Tj.length_measObs], j3⟩
    intro v hv
    obtain ⟨o, _, rfl⟩ := List.mem_map.1 hv
    split
    · exact Or.inl rfl
    · exact Or.inr rfl

theorem bindR_ok {x : Res} {f : State → List Bool → Res} {s2 : State} {res : List Int} {k : Nat} {cs : List Bool}
    (h : bindR x f = .ok (s2, res, k, cs)) :
    ∃ s1 r1 k1 c1 r2 k2, x = .ok (s1, r1, k1, c1) ∧ f s1 c1 = .ok (s2, r2, k2, cs) ∧ res = r1 ++ r2 ∧ k = k1 + k2 := by
  cases x with
  | error e => simp [bindR] at h
  | ok v =>
    obtain ⟨s1, r1, k1, c1⟩ := v
    simp only [bindR] at h
    cases h2 : f s1 c1 with
    | error e => rw [h2] at h; simp at h
    | ok w =>
      obtain ⟨s', r2, k2, c2⟩ := w
      rw [h2] at h
      simp only at h
      injection h with h
      injection h with e1 e2
      injection e2 with e2 e3
      injection e3 with e3 e4
      subst e1 e2 e3 e4
      exact ⟨s1, r1, k1, c1, r2, k2, rfl, h2, rfl, rfl⟩

theorem runItems_inv' (N : Nat) (prog : List Item) : ∀ (st st' : State) (coins cs : List Bool) (res : List Int)
    (k : Nat), (∀ it ∈ prog, it.WF N) → TabInv st N → runItems N prog st coins = .ok (st', res, k, cs) →
    TabInv st' N ∧ st'.r ≤ st.r ∧ (∀ v ∈ res, v = 1 ∨ v = -1) ∧
    res.length = (prog.map itemWidth).sum ∧ cs.length + k = coins.length := by
  induction prog with
  | nil =>
    intro st st' coins cs res k _ h hr
    rw [runItems_nil] at hr
    injection hr with hr
    injection hr with e1 e2
    injection e2 with e2 e3
    injection e3 with e3 e4
    subst e1 e2 e3 e4
    exact ⟨h, Nat.le_refl _, by simp, rfl, rfl⟩
  | cons it prog ih =>
    intro st st' coins cs res k hw h hr
    have hw' : ∀ x ∈ prog, x.WF N := fun x hx => hw x (by simp [hx])
    cases it with
    | gate g =>
      rw [runItems_gate] at hr
      have h1 := C05_gate_inv st N g h (hw (.gate g) (by simp))
      obtain ⟨a1, a2, a3, a4, a5⟩ := ih _ st' coins cs res k hw' h1 hr
      exact ⟨a1, a2, a3, by simp [itemWidth, a4], a5⟩
    | meas qs =>
      rw [runItems_meas] at hr
      obtain ⟨s1, r1, k1, c1, r2, k2, e1, e2, rfl, rfl⟩ := bindR_ok hr
      obtain ⟨b1, b2, b3, b4, b5⟩ := measStep_inv N qs st s1 coins c1 r1 k1 h e1
      obtain ⟨a1, a2, a3, a4, a5⟩ := ih s1 st' c1 cs r2 k2 hw' b1 e2
      refine ⟨a1, by omega, ?_, by simp [itemWidth, a4, b4], by omega⟩
      intro v hv
      rcases List.mem_append.1 hv with hv | hv
      · exact b3 v hv
      · exact a3 v hv

theorem runItems_nomeas (N : Nat) (prog : List Item) : ∀ (st st' : State) (coins cs : List Bool) (res : List Int)
    (k : Nat), (∀ qs, Item.meas qs ∉ prog) → runItems N prog st coins = .ok (st', res, k, cs) → res = [] ∧ k = 0 := by
  induction prog with
  | nil =>
    intro st st' coins cs res k _ hr
    rw [runItems_nil] at hr
    injection hr with hr
    injection hr with e1 e2
    injection e2 with e2 e3
    injection e3 with e3 e4
    exact ⟨e2.symm, e3.symm⟩
  | cons it prog ih =>
    intro st st' coins cs res k hn hr
    cases it with
    | gate g =>
      rw [runItems_gate] at hr
      exact ih _ st' coins cs res k (fun qs hq => hn qs (by simp [hq])) hr
    | meas qs => exact absurd (List.mem_cons_self) (hn qs)

/-! ### equality of results up to the representation of phases -/

def RRel : Res → Res → Prop
  | .ok (s1, r1, k1, c1), .ok (s2, r2, k2, c2) =>
      RowsPEq' s1.rows s2.rows ∧ s1.r = s2.r ∧ r1 = r2 ∧ k1 = k2 ∧ c1 = c2
  | .error _, .error _ => True
  | _, _ => False

theorem RRel_refl (x : Res) : RRel x x := by
  cases x with
  | error e => trivial
  | ok v => obtain ⟨s, r, k, c⟩ := v; exact ⟨Tj2.rowsPEq_refl _, rfl, rfl, rfl, rfl⟩

theorem RRel_trans {x y z : Res} (h1 : RRel x y) (h2 : RRel y z) : RRel x z := by
  match x, y, z, h1, h2 with
  | .ok (s1, r1, k1, c1), .ok (s2, r2, k2, c2), .ok (s3, r3, k3, c3), ⟨a1, a2, a3, a4, a5⟩, ⟨b1, b2, b3, b4, b5⟩ =>
    exact ⟨Tj2.rowsPEq_trans a1 b1, a2.trans b2, a3.trans b3, a4.trans b4, a5.trans b5⟩
  | .error _, .error _, .error _, _, _ => trivial

theorem bindR_rrel {x y : Res} {f g : State → List Bool → Res} (h : RRel x y)
    (hfg : ∀ s1 s2 r k cs, x = .ok (s1, r, k, cs) → RowsPEq' s1.rows s2.rows → s1.r = s2.r →
      RRel (f s1 cs) (g s2 cs)) : RRel (bindR x f) (bindR y g) := by
  match x, y, h, hfg with
  | .error _, .error _, _, _ => trivial
  | .ok (s1, r1, k1, c1), .ok (s2, r2, k2, c2), ⟨a1, a2, a3, a4, a5⟩, hfg =>
    subst a3 a4 a5
    have := hfg s1 s2 r1 k1 c1 rfl a1 a2
    simp only [bindR]
    revert this
    generalize f s1 c1 = u
    generalize g s2 c1 = w
    intro this
    match u, w, this with
    | .error _, .error _, _ => trivial
    | .ok (t1, p1, q1, d1), .ok (t2, p2, q2, d2), ⟨b1, b2, b3, b4, b5⟩ =>
      subst b3 b4 b5
      exact ⟨b1, b2, rfl, rfl, rfl⟩

theorem bindR_rrel_left {x : Res} {f g : State → List Bool → Res}
    (hfg : ∀ s r k cs, x = .ok (s, r, k, cs) → RRel (f s cs) (g s cs)) : RRel (bindR x f) (bindR x g) := by
  cases x with
  | error e => trivial
  | ok v =>
    obtain ⟨s, r, k, c⟩ := v
    have := hfg s r k c rfl
    simp only [bindR]
    revert this
    generalize f s c = u
    generalize g s c = w
    intro this
    match u, w, this with
    | .error _, .error _, _ => trivial
    | .ok (t1, p1, q1, d1), .ok (t2, p2, q2, d2), ⟨b1, b2, b3, b4, b5⟩ =>
      subst b3 b4 b5
      exact ⟨b1, b2, rfl, rfl, rfl⟩

theorem measStep_congr (N : Nat) (qs : List Nat) (st1 st2 : State) (coins : List Bool) (h1 : TabInv st1 N)
    (hE : RowsPEq' st1.rows st2.rows) (hr : st1.r = st2.r) :
    RRel (measStep N qs st1 coins) (measStep N qs st2 coins) := by
  have h := Tj2.measure_congr N (measObs N qs) st1 st2 coins h1 hE hr (fun O hO => (Tj.measObs_ok N qs O hO).1)
  unfold measStep
  revert h
  generalize measure st1 (measObs N qs) coins = a
  generalize measure st2 (measObs N qs) coins = b
  intro h
  match a, b, h with
  | .ok (s1, o1, k1, c1), .ok (s2, o2, k2, c2), ⟨x1, x2, x3, x4, x5⟩ =>
    subst x3 x4 x5
    exact ⟨x1, x2, rfl, rfl, rfl⟩
  | .error e1, .error e2, _ => trivial

/-- the sequential meaning does not depend on the representation of phases -/
theorem runItems_congr (N : Nat) (prog : List Item) : ∀ (st1 st2 : State) (coins : List Bool),
    (∀ it ∈ prog, it.WF N) → TabInv st1 N → RowsPEq' st1.rows st2.rows → st1.r = st2.r →
    RRel (runItems N prog st1 coins) (runItems N prog st2 coins) := by
  induction prog with
  | nil => intro st1 st2 coins _ _ hE hr; exact ⟨hE, hr, rfl, rfl, rfl⟩
  | cons it prog ih =>
    intro st1 st2 coins hw h1 hE hr
    have hw' : ∀ x ∈ prog, x.WF N := fun x hx => hw x (by simp [hx])
    cases it with
    | gate g =>
      rw [runItems_gate, runItems_gate]
      exact ih _ _ coins hw' (C05_gate_inv st1 N g h1 (hw (.gate g) (by simp)))
        (Tj2.rowsPEq_map_congr (gateAct g N) (fun a b hab => Ci.gateAct_congr g N hab) hE) hr
    | meas qs =>
      rw [runItems_meas, runItems_meas]
      apply bindR_rrel (measStep_congr N qs st1 st2 coins h1 hE hr)
      intro s1 s2 r k cs e hE' hr'
      exact ih s1 s2 cs hw' (measStep_inv N qs st1 s1 coins cs r k h1 e).1 hE' hr'

theorem rrel_snoc (N : Nat) (A A' : List Item) (it : Item) (hA : ∀ x ∈ A, x.WF N) (hit : it.WF N)
    (h : ∀ st coins, TabInv st N → RRel (runItems N A st coins) (runItems N A' st coins)) :
    ∀ st coins, TabInv st N → RRel (runItems N (A ++ [it]) st coins) (runItems N (A' ++ [it]) st coins) := by
  intro st coins hst
  rw [runItems_append, runItems_append]
  apply bindR_rrel (h st coins hst)
  intro s1 s2 r k cs e hE hr
  exact runItems_congr N [it] s1 s2 cs (fun x hx => by rw [List.mem_singleton] at hx; rw [hx]; exact hit)
    (runItems_inv' N A st s1 coins cs r k hA hst e).1 hE hr

theorem rrel_bubble (N : Nat) (A : List Item) (B : List Gate) (g : Gate) (hB : ∀ h ∈ B, h.indep g = true)
    (st : State) (coins : List Bool) :
    RRel (runItems N (A ++ Item.gate g :: B.map Item.gate) st coins)
      (runItems N (A ++ (B.map Item.gate ++ [Item.gate g])) st coins) := by
  rw [runItems_append, runItems_append]
  apply bindR_rrel_left
  intro s r k cs _
  have e1 : Item.gate g :: B.map Item.gate = (g :: B).map Item.gate := rfl
  have e2 : B.map Item.gate ++ [Item.gate g] = (B ++ [g]).map Item.gate := by simp
  rw [e1, e2, runItems_gates, runItems_gates]
  exact ⟨Ci.rowsPEq_map s.rows _ _ (fun R _ => Ci.seqAct_bubble g B N R hB), rfl, rfl, rfl, rfl⟩

/-! ### layers as programs -/

def layerItems : Layer → List Item
  | .gates gs _ _ => gs.map Item.gate
  | .meas qs _ _ => [Item.meas qs]
def flatItems (Ls : List Layer) : List Item := Ls.flatMap layerItems
/-- gate layers carry no compiled forward map -/
def PlainM : Layer → Prop
  | .gates _ f _ => f = none
  | .meas .. => True

theorem flatItems_nil : flatItems [] = [] := rfl
theorem flatItems_cons (L : Layer) (Ls : List Layer) : flatItems (L :: Ls) = layerItems L ++ flatItems Ls := by
  simp [flatItems]
theorem flatItems_append (As Bs : List Layer) : flatItems (As ++ Bs) = flatItems As ++ flatItems Bs := by
  simp [flatItems]
theorem flatItems_reverse_cons (L : Layer) (Ls : List Layer) :
    flatItems (L :: Ls).reverse = flatItems Ls.reverse ++ layerItems L := by
  rw [List.reverse_cons, flatItems_append, flatItems_cons, flatItems_nil, List.append_nil]

theorem layersForward_cons_ok (N : Nat) (L L' : Layer) (Ls : List Layer) (x x' : Run)
    (h : L.forward N x = .ok (L', x')) :
    layersForward N (L :: Ls) x =
      match layersForward N Ls x' with
      | .error e => .error e
      | .ok (Ls', x'', res, k) =>
        match (generalizing := false) L' with
        | .meas _ (some m) (some k0) => .ok (L' :: Ls', x'', m ++ res, k0 + k)
        | _ => .ok (L' :: Ls', x'', res, k) := by
  rw [layersForward, h]
  dsimp only
  cases layersForward N Ls x' with
  | error e => rfl
  | ok w =>
    obtain ⟨Ls', x'', res, k⟩ := w
    dsimp only
    cases L' with
    | gates gs f b => rfl
    | meas q r k =>
      cases r with
      | none => rfl
      | some m => cases k <;> rfl

theorem layersForward_cons_error (N : Nat) (L : Layer) (Ls : List Layer) (x : Run) (e : Err)
    (h : L.forward N x = .error e) : layersForward N (L :: Ls) x = .error e := by
  rw [layersForward, h]

/-- **running the layers forward is the sequential meaning of their items**, exactly -/
theorem layersForward_items (N : Nat) (Ls : List Layer) : ∀ (st : State) (coins : List Bool) (rnd : List CMap),
    (∀ L ∈ Ls, PlainM L) → (∀ it ∈ flatItems Ls, it.WF N) → TabInv st N →
    (∃ e, layersForward N Ls ⟨⟨st.rows, st.r, true⟩, coins, rnd⟩ = .error e ∧
      runItems N (flatItems Ls) st coins = .error e) ∨
    (∃ Ls' st' res k cs,
      layersForward N Ls ⟨⟨st.rows, st.r, true⟩, coins, rnd⟩ = .ok (Ls', ⟨⟨st'.rows, st'.r, true⟩, cs, rnd⟩, res, k) ∧
      runItems N (flatItems Ls) st coins = .ok (st', res, k, cs)) := by
  induction Ls with
  | nil =>
    intro st coins rnd _ _ _
    exact Or.inr ⟨[], st, [], 0, coins, rfl, rfl⟩
  | cons L Ls ih =>
    intro st coins rnd hp hw h
    have hp' : ∀ X ∈ Ls, PlainM X := fun X hX => hp X (by simp [hX])
    have hw' : ∀ it ∈ flatItems Ls, it.WF N := fun it hit => hw it (by rw [flatItems_cons]; simp [hit])
    cases L with
    | gates gs f b =>
      have hf : f = none := hp (.gates gs f b) (by simp)
      subst hf
      have hwg : ∀ g ∈ gs, g.WF N := fun g hg =>
        hw (.gate g) (by rw [flatItems_cons]; simp [layerItems, hg])
      have hL : Layer.forward N (.gates gs none b) ⟨⟨st.rows, st.r, true⟩, coins, rnd⟩ =
          .ok (.gates gs none b, ⟨⟨st.rows.map (seqAct gs N), st.r, true⟩, coins, rnd⟩) := by
        simp only [Layer.forward, Ci.gatesForward_eq N gs st.rows rnd hwg h.2.2.1]
      have hrun : runItems N (flatItems (Layer.gates gs none b :: Ls)) st coins =
          runItems N (flatItems Ls) ⟨st.rows.map (seqAct gs N), st.r⟩ coins := by
        rw [flatItems_cons]; exact runItems_gates_append N gs _ st coins
      rw [layersForward_cons_ok N _ _ Ls _ _ hL, hrun]
      rcases ih ⟨st.rows.map (seqAct gs N), st.r⟩ coins rnd hp' hw' (tabInv_seqAct N gs st hwg h) with
        ⟨e, e1, e2⟩ | ⟨Ls', st', res, k, cs, e1, e2⟩
      · refine Or.inl ⟨e, ?_, e2⟩
        have e1' : layersForward N Ls ⟨⟨st.rows.map (seqAct gs N), st.r, true⟩, coins, rnd⟩ = .error e := e1
        rw [e1']
      · refine Or.inr ⟨.gates gs none b :: Ls', st', res, k, cs, ?_, e2⟩
        have e1' : layersForward N Ls ⟨⟨st.rows.map (seqAct gs N), st.r, true⟩, coins, rnd⟩ =
            .ok (Ls', ⟨⟨st'.rows, st'.r, true⟩, cs, rnd⟩, res, k) := e1
        rw [e1']
    | meas qs a b =>
      have hfl : flatItems (Layer.meas qs a b :: Ls) = Item.meas qs :: flatItems Ls := by
        rw [flatItems_cons]; rfl
      rw [hfl]
      cases hm : measure st (measObs N qs) coins with
      | error e =>
        refine Or.inl ⟨e, ?_, runItems_meas_error N qs _ st coins e hm⟩
        apply layersForward_cons_error
        have hm' : measure ⟨st.rows, st.r⟩ (measObs N qs) coins = .error e := hm
        simp only [Layer.forward, Bool.not_true, Bool.false_eq_true, if_false, hm']
      | ok v =>
        obtain ⟨s1, outs, k1, c1⟩ := v
        have hm' : measure ⟨st.rows, st.r⟩ (measObs N qs) coins = .ok (s1, outs, k1, c1) := hm
        have hL : Layer.forward N (.meas qs a b) ⟨⟨st.rows, st.r, true⟩, coins, rnd⟩ =
            .ok (.meas qs (some (outs.map fun o => if o % 2 = 0 then 1 else -1)) (some k1),
              ⟨⟨s1.rows, s1.r, true⟩, c1, rnd⟩) := by
          simp only [Layer.forward, Bool.not_true, Bool.false_eq_true, if_false, hm']
        have h1 : TabInv s1 N := (C05_measure_inv st s1 N (measObs N qs) coins c1 outs k1 h (Tj.measObs_ok N qs) hm).1
        rw [layersForward_cons_ok N _ _ Ls _ _ hL, runItems_meas_ok N qs _ st s1 coins c1 outs k1 hm]
        rcases ih s1 c1 rnd hp' hw' h1 with ⟨e, e1, e2⟩ | ⟨Ls', st', res, k, cs, e1, e2⟩
        · exact Or.inl ⟨e, by rw [e1], by rw [e2]⟩
        · exact Or.inr ⟨_, st', _, _, cs, by rw [e1], by rw [e2]⟩

/-! ### `takeRev` on layer lists with measurement layers -/

theorem plainM_append (L : Layer) (g : Gate) (h : PlainM L) : PlainM (L.append g) := by
  cases L with
  | gates gs f b => exact h
  | meas q r k => trivial

theorem layerItems_append (L : Layer) (g : Gate) (h : L.isMeas = false) :
    layerItems (L.append g) = layerItems L ++ [Item.gate g] := by
  cases L with
  | meas q r k => simp [Layer.isMeas] at h
  | gates gs f b => simp [layerItems, Layer.append]

/-- `takeRev` puts the gate behind a block of gates that are all independent of it, never across a measurement -/
theorem takeRevM_spec (g : Gate) : ∀ (rest : List Layer) (L : Layer), L.indep g = true →
    (∀ X ∈ L :: rest, PlainM X) →
    (∀ X ∈ takeRev (L :: rest) g, PlainM X) ∧
    ∃ (A : List Item) (B : List Gate), flatItems (L :: rest).reverse = A ++ B.map Item.gate ∧
      flatItems (takeRev (L :: rest) g).reverse = A ++ Item.gate g :: B.map Item.gate ∧
      ∀ h ∈ B, h.indep g = true := by
  intro rest
  induction rest with
  | nil =>
    intro L hi hp
    obtain ⟨gs, f, b, rfl, hgs⟩ := Ci.indep_gates L g hi
    refine ⟨?_, gs.map Item.gate, [], ?_, ?_, ?_⟩
    · intro X hX
      simp only [takeRev, List.mem_singleton] at hX
      subst hX
      exact plainM_append _ g (hp _ (by simp))
    · simp [flatItems, layerItems]
    · simp [takeRev, Layer.append, flatItems, layerItems]
    · intro h hh; simp at hh
  | cons P rest ih =>
    intro L hi hp
    obtain ⟨gs, f, b, rfl, hgs⟩ := Ci.indep_gates L g hi
    have stop : (∀ X ∈ (Layer.gates gs f b).append g :: P :: rest, PlainM X) ∧
        ∃ (A : List Item) (B : List Gate), flatItems (Layer.gates gs f b :: P :: rest).reverse = A ++ B.map Item.gate ∧
          flatItems ((Layer.gates gs f b).append g :: P :: rest).reverse = A ++ Item.gate g :: B.map Item.gate ∧
          ∀ h ∈ B, h.indep g = true := by
      refine ⟨?_, flatItems (P :: rest).reverse ++ gs.map Item.gate, [], ?_, ?_, ?_⟩
      · intro X hX
        rcases List.mem_cons.1 hX with rfl | hX
        · exact plainM_append _ g (hp _ (by simp))
        · exact hp X (List.mem_cons_of_mem _ hX)
      · rw [flatItems_reverse_cons]; simp [layerItems]
      · rw [flatItems_reverse_cons]; simp [layerItems, Layer.append]
      · intro h hh; simp at hh
    unfold takeRev
    by_cases hm : P.isMeas = true
    · rw [if_pos hm]; exact stop
    · rw [if_neg hm]
      by_cases hPi : P.indep g = true
      · rw [if_pos hPi]
        obtain ⟨hpl, A, B, e1, e2, hB⟩ := ih P hPi (fun X hX => hp X (List.mem_cons_of_mem _ hX))
        refine ⟨?_, A, B ++ gs, ?_, ?_, ?_⟩
        · intro X hX
          rcases List.mem_cons.1 hX with rfl | hX
          · exact hp _ (by simp)
          · exact hpl X hX
        · rw [flatItems_reverse_cons, e1]; simp [layerItems]
        · rw [flatItems_reverse_cons, e2]; simp [layerItems]
        · intro h hh
          rcases List.mem_append.1 hh with hh | hh
          · exact hB h hh
          · exact hgs h hh
      · rw [if_neg hPi]; exact stop

/-! ### the invariant of a circuit under construction -/

def InvM (N : Nat) (c : Circ) (prog : List Item) : Prop :=
  c.N = N ∧ c.fmap = none ∧ (∀ L ∈ c.layers, PlainM L) ∧ (∀ it ∈ flatItems c.layers, it.WF N) ∧
  ∀ st coins, TabInv st N → RRel (runItems N (flatItems c.layers) st coins) (runItems N prog st coins)

theorem invM_init (N : Nat) : InvM N { N := N } [] := by
  refine ⟨rfl, rfl, ?_, ?_, ?_⟩
  · intro L hL
    simp only [List.mem_singleton] at hL
    subst hL; rfl
  · intro it hit; simp [flatItems, layerItems] at hit
  · intro st coins _; exact RRel_refl _

theorem take_invM (N : Nat) (c c' : Circ) (prog : List Item) (g : Gate) (hI : InvM N c prog) (hg : g.WF N)
    (ht : c.take g = .ok c') : InvM N c' (prog ++ [Item.gate g]) := by
  obtain ⟨hN, hf, hp, hw, hs⟩ := hI
  have key : ∀ (Ls : List Layer), (∀ L ∈ Ls, PlainM L) → (∀ it ∈ flatItems Ls, it.WF N) →
      (∀ st coins, TabInv st N →
        RRel (runItems N (flatItems Ls) st coins) (runItems N (flatItems c.layers ++ [Item.gate g]) st coins)) →
      InvM N { c with layers := Ls } (prog ++ [Item.gate g]) := by
    intro Ls h1 h2 h3
    refine ⟨hN, hf, h1, h2, ?_⟩
    intro st coins hst
    exact RRel_trans (h3 st coins hst) (rrel_snoc N _ _ (Item.gate g) hw hg hs st coins hst)
  unfold Circ.take at ht
  split at ht
  · cases ht
  · split at ht
    · cases ht
    · cases hrev : c.layers.reverse with
      | nil => rw [hrev] at ht; cases ht
      | cons L rest =>
        have hlay : c.layers = (L :: rest).reverse := by rw [← hrev, List.reverse_reverse]
        rw [hrev] at ht
        dsimp only at ht
        split at ht
        · rename_i hc
          rw [Bool.and_eq_true] at hc
          cases ht
          have hpR : ∀ X ∈ L :: rest, PlainM X := by
            intro X hX; apply hp; rw [hlay]; exact List.mem_reverse.2 hX
          obtain ⟨hpl, A, B, e1, e2, hB⟩ := takeRevM_spec g rest L hc.2 hpR
          rw [← hlay] at e1
          apply key
          · intro X hX; exact hpl X (List.mem_reverse.1 hX)
          · intro h hh
            rw [e2] at hh
            rcases List.mem_append.1 hh with hh | hh
            · exact hw h (by rw [e1]; exact List.mem_append_left _ hh)
            · rcases List.mem_cons.1 hh with rfl | hh
              · exact hg
              · exact hw h (by rw [e1]; exact List.mem_append_right _ hh)
          · intro st coins _
            rw [e2, e1, List.append_assoc]
            exact rrel_bubble N A B g hB st coins
        · cases ht
          have hfl : flatItems (c.layers ++ [Layer.gates [g] none none]) = flatItems c.layers ++ [Item.gate g] := by
            rw [flatItems_append]; simp [flatItems, layerItems]
          apply key
          · intro X hX
            rcases List.mem_append.1 hX with hX | hX
            · exact hp X hX
            · simp only [List.mem_singleton] at hX
              subst hX; rfl
          · intro h hh
            rw [hfl] at hh
            rcases List.mem_append.1 hh with hh | hh
            · exact hw h hh
            · rw [List.mem_singleton] at hh; subst hh; exact hg
          · intro st coins _
            rw [hfl]
            exact RRel_refl _

theorem takeMeas_invM (N : Nat) (c c' : Circ) (prog : List Item) (qs : List Nat) (hI : InvM N c prog)
    (hq : (Item.meas qs).WF N) (ht : c.takeMeas qs = .ok c') : InvM N c' (prog ++ [Item.meas qs]) := by
  obtain ⟨hN, hf, hp, hw, hs⟩ := hI
  unfold Circ.takeMeas at ht
  split at ht
  · cases ht
  · split at ht
    · cases ht
    · cases ht
      have hfl : flatItems (c.layers ++ [Layer.meas qs none none]) = flatItems c.layers ++ [Item.meas qs] := by
        rw [flatItems_append]; simp [flatItems, layerItems]
      refine ⟨hN, hf, ?_, ?_, ?_⟩
      · intro X hX
        rcases List.mem_append.1 hX with hX | hX
        · exact hp X hX
        · simp only [List.mem_singleton] at hX
          subst hX; trivial
      · intro h hh
        simp only at hh
        rw [hfl] at hh
        rcases List.mem_append.1 hh with hh | hh
        · exact hw h hh
        · rw [List.mem_singleton] at hh; subst hh; exact hq
      · intro st coins hst
        simp only
        rw [hfl]
        exact rrel_snoc N _ _ (Item.meas qs) hw hq hs st coins hst

theorem fold_invM (N : Nat) (p2 : List Item) : ∀ (c0 c : Circ) (p1 : List Item), InvM N c0 p1 →
    (∀ it ∈ p2, it.WF N) → p2.foldlM progStep c0 = .ok c → InvM N c (p1 ++ p2) := by
  induction p2 with
  | nil =>
    intro c0 c p1 hI _ h
    have : c0 = c := by simpa [List.foldlM, pure, Except.pure] using h
    subst this
    rw [List.append_nil]; exact hI
  | cons it p2 ih =>
    intro c0 c p1 hI hw h
    rw [List.foldlM_cons] at h
    cases ht : progStep c0 it with
    | error e => rw [ht] at h; cases h
    | ok c1 =>
      rw [ht] at h
      have h1 : InvM N c1 (p1 ++ [it]) := by
        cases it with
        | gate g => exact take_invM N c0 c1 p1 g hI (hw (Item.gate g) (by simp)) ht
        | meas qs => exact takeMeas_invM N c0 c1 p1 qs hI (hw (Item.meas qs) (by simp)) ht
      have := ih c1 c (p1 ++ [it]) h1 (fun x hx => hw x (by simp [hx])) h
      rw [List.append_assoc] at this
      exact this

/-! ### flags -/

theorem take_fields (c c' : Circ) (g : Gate) (ht : c.take g = .ok c') :
    c'.N = c.N ∧ c'.results = c.results ∧ c'.nrand = c.nrand ∧ c'.numMeas = c.numMeas ∧ c'.unitary = c.unitary := by
  unfold Circ.take at ht
  split at ht
  · cases ht
  · split at ht
    · cases ht
    · split at ht
      · cases ht
      · split at ht <;> (cases ht; exact ⟨rfl, rfl, rfl, rfl, rfl⟩)

theorem takeMeas_fields (c c' : Circ) (qs : List Nat) (ht : c.takeMeas qs = .ok c') :
    c'.N = c.N ∧ c'.results = c.results ∧ c'.nrand = c.nrand ∧ c'.numMeas = c.numMeas + qs.length ∧
      c'.unitary = false := by
  unfold Circ.takeMeas at ht
  split at ht
  · cases ht
  · split at ht
    · cases ht
    · cases ht; exact ⟨rfl, rfl, rfl, rfl, rfl⟩

theorem fold_flags (prog : List Item) : ∀ (c0 c : Circ), prog.foldlM progStep c0 = .ok c →
    c.N = c0.N ∧ c.results = c0.results ∧ c.nrand = c0.nrand ∧
    c.numMeas = c0.numMeas + (prog.map itemWidth).sum ∧
    (c.unitary = false ↔ (c0.unitary = false ∨ ∃ qs, Item.meas qs ∈ prog)) := by
  induction prog with
  | nil =>
    intro c0 c h
    have : c0 = c := by simpa [List.foldlM, pure, Except.pure] using h
    subst this
    exact ⟨rfl, rfl, rfl, by simp, by simp⟩
  | cons it prog ih =>
    intro c0 c h
    rw [List.foldlM_cons] at h
    cases ht : progStep c0 it with
    | error e => rw [ht] at h; cases h
    | ok c1 =>
      rw [ht] at h
      obtain ⟨a1, a2, a3, a4, a5⟩ := ih c1 c h
      cases it with
      | gate g =>
        obtain ⟨b1, b2, b3, b4, b5⟩ := take_fields c0 c1 g ht
        refine ⟨a1.trans b1, a2.trans b2, a3.trans b3, by rw [a4, b4]; simp [itemWidth], ?_⟩
        rw [a5, b5]
        simp
      | meas qs =>
        obtain ⟨b1, b2, b3, b4, b5⟩ := takeMeas_fields c0 c1 qs ht
        refine ⟨a1.trans b1, a2.trans b2, a3.trans b3, by rw [a4, b4]; simp [itemWidth]; omega, ?_⟩
        rw [a5]
        constructor
        · intro _; exact Or.inr ⟨qs, by simp⟩
        · intro _; exact Or.inl b5

end Tj3

/-- measurement does not depend on how the phases of the tableau are represented mod 4 -/
theorem C14_measure_congr (st1 st2 : State) (n : Nat) (obs : List Pauli) (coins : List Bool)
    (h1 : TabInv st1 n) (hr : st1.r = st2.r) (hE : RowsPEq' st1.rows st2.rows) (ho : ∀ O ∈ obs, O.g.length = n) :
    match measure st1 obs coins, measure st2 obs coins with
    | .ok (s1, o1, k1, c1), .ok (s2, o2, k2, c2) => RowsPEq' s1.rows s2.rows ∧ s1.r = s2.r ∧ o1 = o2 ∧ k1 = k2 ∧ c1 = c2
    | .error e1, .error e2 => e1 = e2
    | _, _ => False := by
  have h := Tj2.measure_congr n obs st1 st2 coins h1 hE hr ho
  revert h
  generalize measure st1 obs coins = a
  generalize measure st2 obs coins = b
  intro h
  match a, b, h with
  | .ok (s1, o1, k1, c1), .ok (s2, o2, k2, c2), h => exact h
  | .error e1, .error e2, h => exact h

/-- **the trajectory theorem**: for every program of deterministic gates and measurements, the circuit built from it,
    run forward on any valid state with any coins, succeeds exactly when the sequential meaning does, and then yields
    the same state (rows up to the representation of phases mod 4, same rank), the same record in the same order
    (appended to the circuit's record), the same count of undetermined outcomes (accumulated into `nrand`, i.e.
    `log2prob`), and the same unused coins -/
theorem C14_program_trajectory (N : Nat) (prog : List Item) (c : Circ) (st : State) (coins : List Bool) (rnd : List CMap)
    (hw : ∀ it ∈ prog, it.WF N) (hb : buildProg N prog = .ok c) (h : TabInv st N) :
    match c.forward ⟨⟨st.rows, st.r, true⟩, coins, rnd⟩, runItems N prog st coins with
    | .ok (c', x'), .ok (st', res, k, cs) =>
        RowsPEq' x'.obj.rows st'.rows ∧ x'.obj.r = st'.r ∧ x'.coins = cs ∧ x'.rnd = rnd ∧
        (c.unitary = false → c'.results = c.results ++ res ∧ c'.nrand = c.nrand + k) ∧
        (c.unitary = true → res = [] ∧ k = 0)
    | .error _, .error _ => True
    | _, _ => False := by
  have hb' : prog.foldlM Tj3.progStep { N := N } = .ok c := by rw [← Tj3.buildProg_eq]; exact hb
  have hI : Tj3.InvM N c prog := by
    have := Tj3.fold_invM N prog { N := N } c [] (Tj3.invM_init N) hw hb'
    simpa using this
  obtain ⟨hN, hf, hp, hwf, hs⟩ := hI
  have hfl := (Tj3.fold_flags prog { N := N } c hb').2.2.2.2
  have hrel := hs st coins h
  subst hN
  rcases Tj3.layersForward_items c.N c.layers st coins rnd hp hwf h with
    ⟨e, e1, e2⟩ | ⟨Ls', st1, res1, k1, cs1, e1, e2⟩
  · obtain ⟨e', hfw⟩ : ∃ e', c.forward ⟨⟨st.rows, st.r, true⟩, coins, rnd⟩ = .error e' := by
      unfold Circ.forward
      rw [hf, e1]
      cases c.unitary <;> exact ⟨e, by simp⟩
    rw [hfw]
    rw [e2] at hrel
    cases hp2 : runItems c.N prog st coins with
    | error e'' => exact True.intro
    | ok v => rw [hp2] at hrel; exact False.elim hrel
  · rw [e2] at hrel
    cases hp2 : runItems c.N prog st coins with
    | error e'' => rw [hp2] at hrel; exact False.elim hrel
    | ok v =>
      obtain ⟨st', res, k, cs⟩ := v
      rw [hp2] at hrel
      obtain ⟨r1, r2, r3, r4, r5⟩ := hrel
      subst r3 r4 r5
      cases hu : c.unitary with
      | true =>
        have hfw : c.forward ⟨⟨st.rows, st.r, true⟩, coins, rnd⟩ =
            .ok ({ c with layers := Ls' }, ⟨⟨st1.rows, st1.r, true⟩, cs1, rnd⟩) := by
          unfold Circ.forward
          rw [if_pos hu]
          split
          · rename_i M hM; rw [hf] at hM; cases hM
          · rw [e1]
        rw [hfw]
        refine ⟨r1, r2, rfl, rfl, (fun hx => by cases hx), fun _ => ?_⟩
        apply Tj3.runItems_nomeas c.N prog st st' coins cs1 res1 k1 _ hp2
        intro qs hq
        have := hfl.2 (Or.inr ⟨qs, hq⟩)
        rw [hu] at this
        cases this
      | false =>
        have hfw : c.forward ⟨⟨st.rows, st.r, true⟩, coins, rnd⟩ =
            .ok ({ c with layers := Ls', results := c.results ++ res1, nrand := c.nrand + k1 },
              ⟨⟨st1.rows, st1.r, true⟩, cs1, rnd⟩) := by
          unfold Circ.forward
          rw [if_neg (by simp [hu]), e1]
        rw [hfw]
        exact ⟨r1, r2, rfl, rfl, fun _ => ⟨rfl, rfl⟩, fun hx => by cases hx⟩

/-- a built circuit is non-unitary exactly when its program contains a measurement; it starts with an empty record, and
    `numMeas` counts the measured qubits -/
theorem C14_buildProg_flags (N : Nat) (prog : List Item) (c : Circ) (hb : buildProg N prog = .ok c) :
    (c.unitary = false ↔ ∃ qs, Item.meas qs ∈ prog) ∧ c.results = [] ∧ c.nrand = 0 ∧
    c.numMeas = (prog.map fun | .meas qs => qs.length | .gate _ => 0).sum ∧ c.N = N := by
  have hb' : prog.foldlM Tj3.progStep { N := N } = .ok c := by rw [← Tj3.buildProg_eq]; exact hb
  obtain ⟨a1, a2, a3, a4, a5⟩ := Tj3.fold_flags prog { N := N } c hb'
  refine ⟨?_, a2, a3, ?_, a1⟩
  · rw [a5]; simp
  · rw [Tj3.sum_width prog _ (fun it => by cases it <;> rfl), a4]; simp

/-- the sequential meaning keeps the tableau invariant, never increases the rank, records one outcome per measured qubit -/
theorem C14_runItems_inv (N : Nat) (prog : List Item) (st st' : State) (coins cs : List Bool) (res : List Int) (k : Nat)
    (hw : ∀ it ∈ prog, it.WF N) (h : TabInv st N) (hr : runItems N prog st coins = .ok (st', res, k, cs)) :
    TabInv st' N ∧ st'.r ≤ st.r ∧ (∀ v ∈ res, v = 1 ∨ v = -1) ∧
    res.length = (prog.map fun | .meas qs => qs.length | .gate _ => 0).sum ∧ cs.length + k = coins.length := by
  obtain ⟨a1, a2, a3, a4, a5⟩ := Tj3.runItems_inv' N prog st st' coins cs res k hw h hr
  refine ⟨a1, a2, a3, ?_, a5⟩
  rw [Tj3.sum_width prog _ (fun it => by cases it <;> rfl)]; exact a4

def measWidth : Layer → Nat
  | .meas qs _ _ => qs.length
  | _ => 0

/-- **`backward` slices the record per layer, last layer first**: with the layers in reverse order, the first (i.e. last)
    layer receives exactly the last `measWidth` entries of the record and the remaining layers the rest -/
theorem C14_backward_slices (N : Nat) (L : Layer) (Ls : List Layer) (x : Run) (rec m : List Int)
    (hm : m.length = measWidth L) :
    layersBackward N (L :: Ls) x (rec ++ m) =
      match L.backward N x (if L.isMeas then some m else none) with
      | .error e => .error e
      | .ok (L', x') =>
        match layersBackward N Ls x' rec with
        | .error e => .error e
        | .ok (Ls', x'') => .ok (L' :: Ls', x'') := by
  cases L with
  | gates gs f b =>
    have hm0 : m = [] := List.eq_nil_of_length_eq_zero hm
    subst hm0
    rw [List.append_nil]
    simp only [layersBackward, Layer.isMeas, Bool.false_eq_true, if_false]
    rfl
  | meas qs a b =>
    have hm' : m.length = qs.length := hm
    have e1 : (rec ++ m).drop ((rec ++ m).length - qs.length) = m := by
      rw [List.length_append, hm', Nat.add_sub_cancel, List.drop_left]
    have e2 : (rec ++ m).take ((rec ++ m).length - qs.length) = rec := by
      rw [List.length_append, hm', Nat.add_sub_cancel, List.take_left]
    simp only [layersBackward, Layer.isMeas, if_true, e1, e2]
    rfl

/-- a record of the wrong total length is rejected before anything is applied -/
theorem C14_backward_rejects_length (c : Circ) (x : Run) (m : List Int) (hu : c.unitary = false) (hl : m.length ≠ c.numMeas) :
    c.backward x (some m) = .error .value := by
  unfold Circ.backward
  have : (m.length != c.numMeas) = true := by simp [hl]
  simp only [hu, Bool.false_eq_true, if_false, this, if_true]

/-- **replaying the own record never fails**: on a pure state, after a measurement layer ran forward, running the same
    layer backward with the outcomes it recorded succeeds and leaves the post-measurement state as it is (every recorded
    outcome now has probability one) -/
theorem C14_measure_then_backward (N : Nat) (qs : List Nat) (a : Option (List Int)) (b : Option Nat)
    (st : State) (coins : List Bool) (rnd : List CMap) (L' : Layer) (x' : Run)
    (h : TabInv st N) (hr : st.r = 0) (hq : ∀ q ∈ qs, q < N)
    (hf : Layer.forward N (.meas qs a b) ⟨⟨st.rows, st.r, true⟩, coins, rnd⟩ = .ok (L', x')) :
    ∃ x'', L'.backward N x' none = .ok (L', x'') ∧ x''.obj.rows = x'.obj.rows ∧ x''.obj.r = 0 := by
  obtain ⟨outs, k, hm, hL, hlen, hT, hr', _⟩ :=
    C14_measureLayer_is_measure N qs a b st.rows st.r coins rnd L' x' h hq hf
  have hr0 : x'.obj.r = 0 := by omega
  subst hL
  have hcomm : ∀ o ∈ measObs N qs, ∀ o' ∈ measObs N qs, acq o.g o'.g = 0 := by
    intro o ho o' ho'
    unfold measObs at ho ho'
    obtain ⟨q, _, rfl⟩ := List.mem_map.1 ho
    obtain ⟨q', _, rfl⟩ := List.mem_map.1 ho'
    exact acq_unit_ZZ N q q'
  have hin := Tj2.measure_inGroup N (measObs N qs) ⟨st.rows, st.r⟩ ⟨x'.obj.rows, x'.obj.r⟩ coins x'.coins outs k h
    (Tj.measObs_ok N qs) hcomm hm
  have hmem : ∀ qr ∈ (qs.zip (outs.map fun o => if o % 2 = 0 then (1 : Int) else -1)).reverse,
      InGroup ⟨x'.obj.rows, x'.obj.r⟩ ⟨unitZ N qr.1, 0 + 2 * (((if qr.2 = 1 then 0 else 1 : Nat)) : Int)⟩ := by
    intro qr hqr
    rw [List.mem_reverse, List.zip_map_right] at hqr
    obtain ⟨⟨q, out⟩, hqo, rfl⟩ := List.mem_map.1 hqr
    have hz : ((⟨unitZ N q, 0⟩ : Pauli), out) ∈ (measObs N qs).zip outs := by
      unfold measObs
      rw [List.zip_map_left]
      exact List.mem_map.2 ⟨(q, out), hqo, rfl⟩
    obtain ⟨hb, hi⟩ := hin _ hz
    rcases hb with hb | hb
    · simp only at hb; subst hb; exact hi
    · simp only at hb; subst hb; exact hi
  have hmb : measBackward N qs (outs.map fun o => if o % 2 = 0 then (1 : Int) else -1) ⟨x'.obj.rows, x'.obj.r⟩
      = .ok ⟨x'.obj.rows, x'.obj.r⟩ := by
    unfold measBackward
    rw [if_neg (by simp [hlen])]
    exact Tj2.measBackward_of_inGroup N _ hT hr0 _ hmem
  refine ⟨{ x' with obj := { x'.obj with rows := x'.obj.rows, r := x'.obj.r } }, ?_, rfl, hr0⟩
  simp only [Layer.backward, hmb]

end PC
