import PyCliffordModel.Proofs.PureEntropy
/-!
# C08 (pure branch, general) — for pure states the reported entropy is `|R| − log2 #{group elements supported in R}`

Fattal–Cubitt–Yamamoto–Bravyi–Chuang: for `N` independent commuting generators on `N` qubits, the entropy of a region is
half the rank of the anticommutation matrix of the generators' restrictions to the region.
-/
namespace PC

/-- `N` generators of a pure stabilizer state: `N` strings on `N` qubits, pairwise commuting, independent over GF(2) -/
def PureGens (gs : List PStr) (N : Nat) : Prop :=
  gs.length = N ∧ (∀ g ∈ gs, g.length = N) ∧ (∀ a ∈ gs, ∀ b ∈ gs, acq a b = 0) ∧
  kernelCount (gs.map flat) (2 * N) = 1

/-- **pure branch of `stabilizer_entropy`** -/
theorem C08_entropy_pure (gs : List PStr) (N : Nat) (m : List Bool) (h : PureGens gs N) (hm : m.length = N) :
    0 ≤ entropy gs N m ∧ supportedCount gs m * 2 ^ (entropy gs N m).toNat = 2 ^ maskCount m :=
  PE.entropy_pure gs N m h.1 h.2.1 h.2.2.1 h.2.2.2 hm

/-- for pure states a region and its complement have equal entropy -/
theorem C08_entropy_pure_complement (gs : List PStr) (N : Nat) (m : List Bool) (h : PureGens gs N) (hm : m.length = N) :
    entropy gs N m = entropy gs N (m.map (!·)) :=
  PE.entropy_compl gs N m h.1 (fun g hg => Nat.le_of_eq (by rw [h.2.1 g hg, hm])) h.2.2.1

end PC
