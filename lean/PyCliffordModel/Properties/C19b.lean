import PyCliffordModel.Model.Device
import PyCliffordModel.Properties.C09b
import PyCliffordModel.Properties.C06
import PyCliffordModel.Properties.C05b
import PyCliffordModel.Properties.C12
import PyCliffordModel.Proofs.ShadowLemmas
/-!
# C19 (classical shadows) — every snapshot is a valid pure state, stabilized up to sign by the back-evolved
measurement basis, with non-zero overlap with the measured state

`ClassicalShadow(base, circ).snapshots(n)` yields, `n` times, a copy of `base` on which the active stabilizers of
`circ.backward(zero_state(N))` have been measured in order. For a circuit built from a program of deterministic
gates the back-evolved basis is `Z_q` pulled back through the program, `seqActInv prog N Z_q`.
-/
namespace PC

/-- the measurement basis pulled back through the program -/
def pulledZ (prog : List Gate) (N q : Nat) : Pauli := seqActInv prog N ⟨unitZ N q, 0⟩

/-- **the POVM of a circuit** is the back-evolved `|0…0⟩`: it never fails, consumes no randomness, and is a valid pure
    state whose tableau is the zero tableau pulled back through the program (so its stabilizer `q` is `pulledZ … q`) -/
theorem C19_povm_spec (N : Nat) (prog : List Gate) (c : Circ) (rnd : List CMap) (hN : 0 < N)
    (hw : ∀ g ∈ prog, g.WF N) (hbm : ∀ g ∈ prog, g.BmapOK) (hb : buildCirc N prog = .ok c) :
    ∃ c' z, povm1 c rnd = .ok (c', z, rnd) ∧ z.r = 0 ∧ TabInv z N ∧
      RowsPEq' z.rows ((zeroState N).rows.map (seqActInv prog N)) ∧
      (∀ q, q < N → PEq (rowAt z.active q) (pulledZ prog N q)) ∧ z.active.length = N := by
  have _ := hN
  exact Sh.povm_spec N prog c rnd hw hbm hb

/-- **every snapshot is a valid state**: the tableau invariant holds, the rank does not exceed that of the base state,
    one outcome per measured basis element, the random-map supply is untouched; a snapshot can fail only for lack of coins -/
theorem C19_snapshot_valid (N : Nat) (prog : List Gate) (c : Circ) (base : State) (coins : List Bool) (rnd : List CMap)
    (hN : 0 < N) (hw : ∀ g ∈ prog, g.WF N) (hbm : ∀ g ∈ prog, g.BmapOK) (hb : buildCirc N prog = .ok c) (h : TabInv base N) :
    (∀ c' s outs k cs rnd', snapshot1 base c coins rnd = .ok (c', s, outs, k, cs, rnd') →
        TabInv s N ∧ s.r ≤ base.r ∧ outs.length = N ∧ (∀ o ∈ outs, o = 0 ∨ o = 1) ∧ rnd' = rnd ∧ cs.length + k = coins.length) ∧
    (∀ e, snapshot1 base c coins rnd = .error e → e = .coin) ∧
    (N ≤ coins.length → ∃ res, snapshot1 base c coins rnd = .ok res) := by
  have _ := hN
  obtain ⟨c1, z, _, _, _, h6, h7, h8⟩ := Sh.snapshot_unfold N prog c base coins rnd hw hbm hb
  refine ⟨?_, ?_, ?_⟩
  · intro c' s outs k cs rnd' hs
    obtain ⟨z', _, _, _, g6, g7, g8, hm⟩ := Sh.snapshot_ok N prog c c' base s coins cs rnd rnd' outs k hw hbm hb hs
    obtain ⟨a1, a2, a3, _⟩ := C05_measure_inv base s N z'.active coins cs outs k h g7.1 hm
    obtain ⟨_, _, b3⟩ := C06_measure_list base s z'.active coins cs outs k hm
    obtain ⟨_, _, d3, _, _⟩ := Sh.measure_commuting base s N z'.active coins cs outs k h g7.1 g7.2 hm
    refine ⟨a1, a2, by rw [a3, g6], ?_, g8, b3⟩
    intro o ho
    obtain ⟨i, hi, rfl⟩ := List.getElem_of_mem ho
    have := (d3 i (by rw [← a3]; exact hi)).1
    rw [List.getD_eq_getElem?_getD, List.getElem?_eq_getElem hi] at this
    simpa using this
  · intro e he
    rw [h8] at he
    cases hm : measure base z.active coins with
    | error e' =>
      rw [hm] at he
      injection he with he
      subst he
      exact Sh.measure_error_coin N z.active base coins e' h h7.1 hm
    | ok res => rw [hm] at he; exact absurd he (by simp)
  · intro hlen
    obtain ⟨res, hm⟩ := Sh.measure_ok_of_coins N z.active base coins h h7.1 (by rw [h6]; exact hlen)
    rw [h8, hm]
    exact ⟨_, rfl⟩

/-- **stabilized up to sign by the back-evolved measurement basis**: for every qubit `q`, the pulled-back `Z_q` with the
    recorded outcome as its sign is in the stabilizer group of the snapshot -/
theorem C19_snapshot_stabilized (N : Nat) (prog : List Gate) (c c' : Circ) (base s : State) (coins cs : List Bool)
    (rnd rnd' : List CMap) (outs : List Int) (k : Nat)
    (hN : 0 < N) (hw : ∀ g ∈ prog, g.WF N) (hbm : ∀ g ∈ prog, g.BmapOK) (hb : buildCirc N prog = .ok c) (h : TabInv base N)
    (hs : snapshot1 base c coins rnd = .ok (c', s, outs, k, cs, rnd')) :
    ∀ q, q < N → InGroup s ⟨(pulledZ prog N q).g, (pulledZ prog N q).p + 2 * outs.getD q 0⟩ := by
  have _ := hN
  obtain ⟨z, _, _, g5, g6, g7, _, hm⟩ := Sh.snapshot_ok N prog c c' base s coins cs rnd rnd' outs k hw hbm hb hs
  obtain ⟨_, _, d3, _, _⟩ := Sh.measure_commuting base s N z.active coins cs outs k h g7.1 g7.2 hm
  intro q hq
  have e := g5 q hq
  refine Ms.inGroup_congr (d3 q (by rw [g6]; exact hq)).2 ⟨e.1, ?_⟩
  have e2 := e.2
  unfold pulledZ
  simp only
  omega

/-- **every snapshot is pure** (`r = 0`): a full commuting basis has been measured -/
theorem C19_snapshot_pure (N : Nat) (prog : List Gate) (c c' : Circ) (base s : State) (coins cs : List Bool)
    (rnd rnd' : List CMap) (outs : List Int) (k : Nat)
    (hN : 0 < N) (hw : ∀ g ∈ prog, g.WF N) (hbm : ∀ g ∈ prog, g.BmapOK) (hb : buildCirc N prog = .ok c) (h : TabInv base N)
    (hs : snapshot1 base c coins rnd = .ok (c', s, outs, k, cs, rnd')) :
    s.r = 0 := by
  have _ := hN
  obtain ⟨z, _, _, g5, g6, g7, _, hm⟩ := Sh.snapshot_ok N prog c c' base s coins cs rnd rnd' outs k hw hbm hb hs
  obtain ⟨d1, _, d3, _, _⟩ := Sh.measure_commuting base s N z.active coins cs outs k h g7.1 g7.2 hm
  apply Sh.pure_of_pulled N prog hw s d1
  intro q hq
  refine ⟨(rowAt z.active q).p + 2 * outs.getD q 0, ?_⟩
  rw [← (g5 q hq).1]
  exact (d3 q (by rw [g6]; exact hq)).2

/-- **non-zero overlap with the measured state**: `Tr(ρ σ) = 0` for stabilizer states exactly when some operator
    stabilizes one and its negative the other; this never happens between the base state and a snapshot -/
theorem C19_snapshot_overlap (N : Nat) (prog : List Gate) (c c' : Circ) (base s : State) (coins cs : List Bool)
    (rnd rnd' : List CMap) (outs : List Int) (k : Nat)
    (hN : 0 < N) (hw : ∀ g ∈ prog, g.WF N) (hbm : ∀ g ∈ prog, g.BmapOK) (hb : buildCirc N prog = .ok c) (h : TabInv base N)
    (hs : snapshot1 base c coins rnd = .ok (c', s, outs, k, cs, rnd')) :
    ∀ P : Pauli, InGroup base P → ¬ InGroup s (neg P) := by
  have _ := hN
  obtain ⟨z, _, _, _, _, g7, _, hm⟩ := Sh.snapshot_ok N prog c c' base s coins cs rnd rnd' outs k hw hbm hb hs
  exact (Sh.measure_commuting base s N z.active coins cs outs k h g7.1 g7.2 hm).2.2.2.2

/-- measuring a list of pairwise commuting Hermitian observables (the general fact behind the three theorems above):
    every observable, with its recorded outcome as sign, stabilizes the final state; every stabilizer of the initial state
    that commutes with all of them still stabilizes it; and no stabilizer of the initial state is negated -/
theorem C19_measure_commuting (st st' : State) (n : Nat) (obs : List Pauli) (coins cs : List Bool) (outs : List Int) (k : Nat)
    (h : TabInv st n) (ho : ∀ O ∈ obs, O.g.length = n ∧ O.p % 2 = 0)
    (hc : ∀ A ∈ obs, ∀ B ∈ obs, acq A.g B.g = 0)
    (hm : measure st obs coins = .ok (st', outs, k, cs)) :
    (∀ i, i < obs.length → InGroup st' ⟨(rowAt obs i).g, (rowAt obs i).p + 2 * outs.getD i 0⟩) ∧
    (∀ P : Pauli, InGroup st P → (∀ O ∈ obs, acq P.g O.g = 0) → InGroup st' P) ∧
    (∀ P : Pauli, InGroup st P → ¬ InGroup st' (neg P)) := by
  obtain ⟨_, _, d3, d4, d5⟩ := Sh.measure_commuting st st' n obs coins cs outs k h ho hc hm
  exact ⟨fun i hi => (d3 i hi).2, d4, d5⟩

end PC
