import PyCliffordModel.Proofs.TrajLemmas
/-!
# C14 — mid-circuit measurement and post-selection follow the quantum trajectory
-/
namespace PC

/-- **a measurement layer measures `Z` on its qubits exactly like a direct state measurement**: same outcomes (recorded as
    `+1/−1` in order, one per measured qubit), same number of undetermined outcomes (log-probability), same post-state and rank;
    the tableau invariant is kept; non-states are rejected -/
theorem C14_measureLayer_is_measure (N : Nat) (qs : List Nat) (a : Option (List Int)) (b : Option Nat)
    (rows : List Pauli) (r : Nat) (coins : List Bool) (rnd : List CMap) (L' : Layer) (x' : Run)
    (h : TabInv ⟨rows, r⟩ N) (hq : ∀ q ∈ qs, q < N)
    (hf : Layer.forward N (.meas qs a b) ⟨⟨rows, r, true⟩, coins, rnd⟩ = .ok (L', x')) :
    ∃ outs k, measure ⟨rows, r⟩ (measObs N qs) coins = .ok (⟨x'.obj.rows, x'.obj.r⟩, outs, k, x'.coins) ∧
      L' = .meas qs (some (outs.map fun o => if o % 2 = 0 then 1 else -1)) (some k) ∧
      outs.length = qs.length ∧ TabInv ⟨x'.obj.rows, x'.obj.r⟩ N ∧ x'.obj.r ≤ r ∧ x'.obj.isState = true := by
  unfold Layer.forward at hf
  simp only [Bool.not_true, Bool.false_eq_true, if_false] at hf
  cases hm : measure ⟨rows, r⟩ (measObs N qs) coins with
  | error e => rw [hm] at hf; exact absurd hf (by simp)
  | ok res =>
    obtain ⟨st, outs, k, cs⟩ := res
    rw [hm] at hf
    simp only at hf
    injection hf with hf
    injection hf with h1 h2
    subst h1 h2
    obtain ⟨i1, i2, i3, _⟩ := C05_measure_inv ⟨rows, r⟩ st N (measObs N qs) coins cs outs k h (Tj.measObs_ok N qs) hm
    have _ := hq
    refine ⟨outs, k, ?_, rfl, by rw [i3, Tj.length_measObs], i1, i2, rfl⟩
    rfl

theorem C14_measureLayer_rejects_nonstate (N : Nat) (qs : List Nat) (a : Option (List Int)) (b : Option Nat) (x : Run)
    (hs : x.obj.isState = false) : Layer.forward N (.meas qs a b) x = .error .notImplemented := by
  unfold Layer.forward
  simp only [hs, Bool.not_false, if_true]

/-- **gates added after a measurement never move in front of it**: whatever gate is taken, every layer up to and including
    the last measurement layer is unchanged, and the gate lands after it -/
theorem C14_take_after_measure (c c' : Circ) (g : Gate) (pre post : List Layer) (qs : List Nat) (a : Option (List Int))
    (b : Option Nat) (hl : c.layers = pre ++ Layer.meas qs a b :: post) (hp : ∀ L ∈ post, L.isMeas = false)
    (ht : c.take g = .ok c') :
    ∃ post', c'.layers = pre ++ Layer.meas qs a b :: post' ∧ post' ≠ [] ∧ (∀ L ∈ post', L.isMeas = false) := by
  unfold Circ.take at ht
  split at ht
  · exact absurd ht (by simp)
  split at ht
  · exact absurd ht (by simp)
  have hrev : c.layers.reverse = post.reverse ++ Layer.meas qs a b :: pre.reverse := by
    rw [hl]; simp
  have hnew : (Layer.gates [g] none none).isMeas = false := rfl
  have happ : ∀ c'' : Circ, c''.layers = c.layers ++ [.gates [g] none none] →
      ∃ post', c''.layers = pre ++ Layer.meas qs a b :: post' ∧ post' ≠ [] ∧ (∀ L ∈ post', L.isMeas = false) := by
    intro c'' e
    refine ⟨post ++ [.gates [g] none none], by rw [e, hl]; simp, by simp, ?_⟩
    intro L hL
    rcases List.mem_append.1 hL with hL | hL
    · exact hp L hL
    · rw [List.mem_singleton] at hL; rw [hL]; exact hnew
  split at ht
  · exact absurd ht (by simp)
  · next L rest hLr =>
    split at ht
    · next hcond =>
      injection ht with ht
      subst ht
      simp only
      -- the last layer is a gate layer, so `post` is not empty
      have hLm : L.isMeas = false := by
        cases hx : L.isMeas with
        | false => rfl
        | true => rw [hx] at hcond; simp at hcond
      rw [hrev] at hLr
      cases hpr : post.reverse with
      | nil =>
        rw [hpr] at hLr
        injection hLr with e1 _
        rw [← e1] at hLm
        exact absurd hLm (by simp [Layer.isMeas])
      | cons L0 A =>
        rw [hpr] at hLr
        injection hLr with e1 e2
        subst e1 e2
        have hmem : ∀ X ∈ L0 :: A, X.isMeas = false := by
          intro X hX
          apply hp X
          rw [← List.mem_reverse, hpr]; exact hX
        obtain ⟨A', e, hlen, hm⟩ := Tj.takeRev_meas g (Layer.meas qs a b) pre.reverse rfl A L0 hLm
          (fun X hX => hmem X (by simp [hX]))
        refine ⟨A'.reverse, ?_, ?_, ?_⟩
        · have e' : takeRev (L0 :: A.append (Layer.meas qs a b :: pre.reverse)) g
              = A' ++ Layer.meas qs a b :: pre.reverse := e
          rw [e']; simp
        · intro e0
          have : A'.length = 0 := by rw [← List.length_reverse, e0]; rfl
          omega
        · intro X hX
          exact hm X (List.mem_reverse.1 hX)
    · injection ht with ht
      subst ht
      exact happ _ rfl

/-- **post-selection on a pure state**: returns the Born probability of the requested outcome of the *signed* observable —
    `1` if `(−1)^res P` stabilizes the state, `0` if `−(−1)^res P` does (state unchanged in both cases), `½` otherwise, after
    which `(−1)^res P` stabilizes the state together with every former stabilizer commuting with `P` -/
theorem C14_postselect_spec (st st' : State) (n : Nat) (P : Pauli) (res : Nat) (t : Dy) (h : TabInv st n) (hr : st.r = 0)
    (hP : P.g.length = n) (hp : P.p % 2 = 0) (hres : res < 2) (hm : postselect st P res = .ok (st', t)) :
    TabInv st' n ∧ st'.r = 0 ∧
    ((InGroup st ⟨P.g, P.p + 2 * (res : Int)⟩ ∧ st' = st ∧ t = ⟨false, 0⟩) ∨
     (InGroup st ⟨P.g, P.p + 2 * (res : Int) + 2⟩ ∧ st' = st ∧ t = ⟨true, 0⟩) ∨
     ((∀ b : Int, ¬ InGroup st ⟨P.g, P.p + 2 * b⟩) ∧ t = ⟨false, 1⟩ ∧ InGroup st' ⟨P.g, P.p + 2 * (res : Int)⟩ ∧
      (∀ Q : Pauli, InGroup st Q → acq Q.g P.g = 0 → InGroup st' Q))) := by
  have hN := h.N_eq
  have _ := hres
  rcases postselect_cases st P res hr with ⟨p, hp1, hp2, _, he⟩ | ⟨hc, he⟩
  · rw [hN] at hp1
    rw [he] at hm
    injection hm with hm
    injection hm with h1 h2
    subst h1 h2
    have hk : Ms.PivotOK st n P.g p := ⟨by omega, hp2, fun _ _ _ _ => ⟨by omega, by omega⟩⟩
    have hev : ((P.p + 2 * (res : Int)) % 4) % 2 = 0 := by omega
    refine ⟨Ms.pivotState_inv st n P.g p _ h hP hk hev, ?_, Or.inr (Or.inr ⟨?_, rfl, ?_, ?_⟩)⟩
    · rw [(Ms.pivotState_spec st n P.g p _ h hk.lt).1]
      unfold installRank
      rw [if_pos ⟨by omega, by omega⟩]
      exact hr
    · intro b
      exact Ms.not_inGroup_of_anti st n h _ p hk.lt hp2
    · refine Ms.inGroup_congr (Ms.pivotState_obs_inGroup st n P.g p _ h hP hk hev) ⟨rfl, ?_⟩
      simp only
      omega
    · intro Q hQ hcm
      exact Ms.pivotState_keeps st n P.g p _ h hP hk hev Q hQ hcm
  · rw [hN] at hc he
    obtain ⟨d1, d2, d3, d4⟩ := Ms.det_spec st n P.g h hP (fun i hi => hc i (by omega))
    rw [if_pos d1] at he
    rw [he] at hm
    injection hm with hm
    injection hm with h1 h2
    subst h1
    refine ⟨h, hr, ?_⟩
    by_cases hpe : (scanAcc st.rows P.g n 0 st.rows ⟨idStr n, 0⟩).p = (P.p + 2 * (res : Int)) % 4
    · rw [if_pos hpe] at h2
      refine Or.inl ⟨Ms.inGroup_congr d4 ⟨d1, ?_⟩, rfl, h2.symm⟩
      simp only
      omega
    · rw [if_neg hpe] at h2
      refine Or.inr (Or.inl ⟨Ms.inGroup_congr d4 ⟨d1, ?_⟩, rfl, h2.symm⟩)
      simp only
      omega

/-- post-selection on a mixed state is rejected with `ValueError` -/
theorem C14_postselect_mixed (st : State) (P : Pauli) (res : Nat) (hr : st.r ≠ 0) : postselect st P res = .error .value := by
  unfold postselect
  have : (st.r != 0) = true := by simp [hr]
  simp only [this, if_true]

/-- **running a measurement layer backward post-selects the recorded outcomes, last qubit first, and raises `ValueError` exactly
    when the record has the wrong length or some step is impossible** -/
theorem C14_measBackward_spec (N : Nat) (qs : List Nat) (rec : List Int) (st : State) :
    (rec.length ≠ qs.length → measBackward N qs rec st = .error .value) ∧
    (∀ st', measBackward N qs rec st = .ok st' → rec.length = qs.length) ∧
    (∀ q m (s s' : State) (t : Dy), qs = [q] → rec = [m] → st = s →
       postselect s ⟨unitZ N q, 0⟩ (if m = 1 then 0 else 1) = .ok (s', t) →
       measBackward N qs rec st = if t.zero then .error .value else .ok s') := by
  refine ⟨fun hne => ?_, fun st' hok => ?_, fun q m s s' t hq hm hs hps => ?_⟩
  · unfold measBackward
    have : (rec.length != qs.length) = true := by simp [hne]
    simp only [this, if_true]
  · by_cases e : rec.length = qs.length
    · exact e
    · unfold measBackward at hok
      have : (rec.length != qs.length) = true := by simp [e]
      simp only [this, if_true] at hok
      exact absurd hok (by simp)
  · subst hq hm hs
    unfold measBackward
    simp only [List.length_singleton, bne_self_eq_false, Bool.false_eq_true, if_false, List.zip_cons_cons,
      List.zip_nil_right, List.reverse_cons, List.reverse_nil, List.nil_append, List.foldlM_cons, List.foldlM_nil]
    rw [hps]
    simp only
    cases t.zero <;> rfl

end PC
