import PyCliffordModel.Model.SBRG
import PyCliffordModel.Properties.C18b
import PyCliffordModel.Properties.C15
import PyCliffordModel.Properties.C09
import PyCliffordModel.Proofs.SbrgLemmas
/-!
# C18 (SBRG) — the effective Hamiltonian is diagonal; for commuting terms the circuit maps the input exactly onto it

`sbrg h N leads cfg` is the model of `circuit.SBRG(hmdl, max_rate, tol)`; `leads` is the list of leading-term indices
chosen at the executed iterations (the code takes `argmax |c|`; the theorems hold for every choice).
-/
namespace PC

/-- a string made of `I` and `Z` only -/
def noX (g : PStr) : Bool := g.all fun q => !q.1

/-- **diagonal form, arbitrary Hamiltonians**: whatever the terms, the leading choices, `max_rate` and `tol`, every term
    of the effective Hamiltonian is a string of `I`/`Z` on `N` qubits with phase 0, and no string occurs twice -/
theorem C18_sbrg_diagonal (h : Poly) (N : Nat) (leads : List Nat) (cfg : SbrgCfg) (heff : Poly) (circ : Circ)
    (hl : ∀ t ∈ h, t.1.g.length = N) (hs : sbrg h N leads cfg = .ok (heff, circ)) :
    (∀ t ∈ heff, noX t.1.g = true ∧ t.1.g.length = N ∧ t.1.p = 0) ∧ (heff.map fun t => t.1.g).Nodup := by
  exact Sb.loop_diag cfg N N 0 leads _ _ _ (heff, circ) (by omega) (Sb.HT_init N h hl) (Sb.HE_init N h hl) hs

/-- **exactness for commuting terms**: when all terms of the input commute, the returned circuit run forward on the
    operators of the input (coefficients kept) gives a polynomial whose coefficient function is that of the effective
    Hamiltonian, up to the drop of coefficients below the tolerance `1e-10` of the final `reduce` (so the input is mapped
    exactly onto the effective Hamiltonian, and the spectrum is preserved because the circuit acts by conjugation) -/
theorem C18_sbrg_commuting_exact (h : Poly) (N : Nat) (leads : List Nat) (cfg : SbrgCfg) (heff : Poly) (circ : Circ)
    (hl : ∀ t ∈ h, t.1.g.length = N) (hc : ∀ s ∈ h, ∀ t ∈ h, acq s.1.g t.1.g = 0)
    (hs : sbrg h N leads cfg = .ok (heff, circ)) :
    ∃ c' rows', circ.forward ⟨⟨h.map (·.1), 0, false⟩, [], []⟩ = .ok (c', ⟨⟨rows', 0, false⟩, [], []⟩) ∧
      rows'.length = h.length ∧
      ∀ g : PStr, coef heff g = keep (coef (rows'.zip (h.map (·.2))) g) 1 10000000000 := by
  obtain ⟨prog, hI, hco⟩ := Sb.loop_exact cfg N h hl N 0 leads _ _ _ [] _ _ (heff, circ) (by omega)
    (Sb.HT_init N h hl) (Sb.Comm_init h hc _) (Sb.J_init N h hl) hs
  obtain ⟨c', rows', hf, hlen, hT⟩ := Sb.forward_terms N circ prog h hI hl
  refine ⟨c', rows', hf, hlen, ?_⟩
  intro g
  rw [hco g, Sb.TEq.coef hT g]

/-- for commuting terms the perturbative step is never taken: the result does not depend on `max_rate` and `tol` -/
theorem C18_sbrg_commuting_cfg (h : Poly) (N : Nat) (leads : List Nat) (cfg cfg' : SbrgCfg)
    (hl : ∀ t ∈ h, t.1.g.length = N) (hc : ∀ s ∈ h, ∀ t ∈ h, acq s.1.g t.1.g = 0) :
    sbrg h N leads cfg = sbrg h N leads cfg' := by
  exact Sb.loop_cfg cfg cfg' N N 0 leads _ _ _ (by omega) (Sb.HT_init N h hl) (Sb.Comm_init h hc _)

/-- SBRG fails only for a leading index out of range (never inside the algorithm), and succeeds when every supplied index
    is in range of the current working Hamiltonian: in particular with `N` zeros (the first term is always a valid choice) -/
theorem C18_sbrg_ok (h : Poly) (N : Nat) (cfg : SbrgCfg) (hl : ∀ t ∈ h, t.1.g.length = N) :
    ∃ res, sbrg h N (List.replicate N 0) cfg = .ok res := by
  exact Sb.loop_ok cfg N N 0 _ _ _ (by omega) (Sb.HT_init N h hl) rfl (by simp)

end PC
