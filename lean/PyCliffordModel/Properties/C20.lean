import PyCliffordModel.Proofs.ParseLemmas
/-!
# C20 — operator descriptions, printing, tokens and indexing round-trip
-/
namespace PC

/-- letters of a string as characters / as integer codes 0..3 / as the dict items of its non-identity qubits -/
def lettersCh (g : PStr) : List Tok := g.map fun q => Tok.ch (reprQ q)
def codeQ (q : Q) : Int := match q with | (false, false) => 0 | (true, false) => 1 | (true, true) => 2 | (false, true) => 3
def lettersCode (g : PStr) : List Tok := g.map fun q => Tok.code (codeQ q)
def dictItems (g : PStr) : List (Int × Tok) :=
  (g.mapIdx fun i q => ((i : Int), Tok.code (codeQ q))).filter fun it => it.2 != Tok.code 0

/-- the phase-code polynomial of `pauli_tokenize` evaluates to 4,6,5,7 on phases 0,1,2,3 -/
theorem C20_tokP_table : tokP 0 = 4 ∧ tokP 1 = 6 ∧ tokP 2 = 5 ∧ tokP 3 = 7 := by
  decide

/-- per-qubit token codes are 0,1,2,3 for I,X,Y,Z -/
theorem C20_tokQ_table (q : Q) : tokQ q = codeQ q := by
  obtain ⟨x, z⟩ := q
  cases x <;> cases z <;> decide

/-! helper fact: the code letters of `lettersCode` are the `tokQ` codes used in Proofs/ParseLemmas -/

theorem lettersCode_eq (g : PStr) : lettersCode g = g.map fun q => Tok.code (tokQ q) := by
  simp only [lettersCode, C20_tokQ_table]

/-- **printing then parsing returns the original operator including its phase** (the printed text starts
    with a blank for phases 0 and 2; the parser skips it) -/
theorem C20_parse_repr (P : Pauli) (hp : 0 ≤ P.p ∧ P.p < 4) :
    ∃ cs, reprPauli P = some cs ∧ parseSeq (cs.map Tok.ch) = .ok P := by
  obtain ⟨g, p⟩ := P
  simp only at hp
  have hcases : p = 0 ∨ p = 1 ∨ p = 2 ∨ p = 3 := by omega
  rcases hcases with rfl | rfl | rfl | rfl
  · refine ⟨[' ', '+'] ++ g.map reprQ, by simp [reprPauli], ?_⟩
    have h := parseSeq_prefix [.ch ' ', .ch '+'] (by decide) _ isLetter_ch g
    simpa [prefixPhase, Function.comp_def] using h
  · refine ⟨['+', 'i'] ++ g.map reprQ, by simp [reprPauli], ?_⟩
    have h := parseSeq_prefix [.ch '+', .ch 'i'] (by decide) _ isLetter_ch g
    simpa [prefixPhase, Function.comp_def] using h
  · refine ⟨[' ', '-'] ++ g.map reprQ, by simp [reprPauli], ?_⟩
    have h := parseSeq_prefix [.ch ' ', .ch '-'] (by decide) _ isLetter_ch g
    simpa [prefixPhase, Function.comp_def] using h
  · refine ⟨['-', 'i'] ++ g.map reprQ, by simp [reprPauli], ?_⟩
    have h := parseSeq_prefix [.ch '-', .ch 'i'] (by decide) _ isLetter_ch g
    simpa [prefixPhase, Function.comp_def] using h

/-- **tokenizing then parsing returns the original operator including its phase** -/
theorem C20_parse_tokenize (P : Pauli) (hp : 0 ≤ P.p ∧ P.p < 4) :
    parseSeq ((tokenize P).map Tok.code) = .ok P := by
  obtain ⟨g, p⟩ := P
  simp only at hp
  have hsuf : ∀ (c : Int) (p' : Int), NotLetter (.code c) → prefixPhase (.code c) 0 = p' →
      parseSeq (g.map (fun q => Tok.code (tokQ q)) ++ [Tok.code c]) = .ok ⟨g, p'⟩ := by
    intro c p' hnl hph
    apply parseSeq_letters_suffix (.code c) p' _ _ isLetter_code g
    intro N k G hk
    have h := parseStep_prefix N 0 k 0 G (.code c) hnl hk
    simpa [hph] using h
  have hcases : p = 0 ∨ p = 1 ∨ p = 2 ∨ p = 3 := by omega
  have htok : (tokenize ⟨g, p⟩).map Tok.code
      = g.map (fun q => Tok.code (tokQ q)) ++ [Tok.code (tokP p)] := by
    simp [tokenize]
  rw [htok]
  rcases hcases with rfl | rfl | rfl | rfl
  · exact hsuf _ _ (by decide) (by decide)
  · exact hsuf _ _ (by decide) (by decide)
  · exact hsuf _ _ (by decide) (by decide)
  · exact hsuf _ _ (by decide) (by decide)

/-- strings, code arrays and dicts describing the same operator construct equal objects -/
theorem C20_formats_agree (g : PStr) :
    parseSeq (lettersCh g) = .ok ⟨g, 0⟩ ∧ parseSeq (lettersCode g) = .ok ⟨g, 0⟩ ∧
    parseItems g.length (dictItems g) = .ok ⟨g, 0⟩ := by
  refine ⟨?_, ?_, ?_⟩
  · have h := parseSeq_prefix [] (by simp) _ isLetter_ch g
    simpa [lettersCh] using h
  · have h := parseSeq_prefix [] (by simp) _ isLetter_code g
    rw [lettersCode_eq]
    simpa using h
  · have hd : dictItems g
        = (itemsFrom 0 (g.map fun q => Tok.code (tokQ q))).filter fun it => it.2 != Tok.code 0 := by
      rw [← enum_map_eq_itemsFrom]
      simp only [dictItems, C20_tokQ_table]
    have h := parseLoop_dict g.length 0 g [] g.length (by omega) (by simp)
    simp only [List.nil_append, List.length_nil] at h
    rw [parseItems, hd, h]
    simp

/-- the accepted sign prefixes: `''`, `+`, `-`, `i`, `+i`, `-i` give phases 0,0,2,1,1,3 -/
theorem C20_prefixes (g : PStr) :
    parseSeq (Tok.ch '+' :: lettersCh g) = .ok ⟨g, 0⟩ ∧
    parseSeq (Tok.ch '-' :: lettersCh g) = .ok ⟨g, 2⟩ ∧
    parseSeq (Tok.ch 'i' :: lettersCh g) = .ok ⟨g, 1⟩ ∧
    parseSeq (Tok.ch '+' :: Tok.ch 'i' :: lettersCh g) = .ok ⟨g, 1⟩ ∧
    parseSeq (Tok.ch '-' :: Tok.ch 'i' :: lettersCh g) = .ok ⟨g, 3⟩ := by
  have key : ∀ (pf : List Tok) (p : Int), (∀ mu ∈ pf, NotLetter mu) →
      pf.foldl (fun p mu => prefixPhase mu p) 0 = p →
      parseSeq (pf ++ lettersCh g) = .ok ⟨g, p⟩ := by
    intro pf p hnl hp
    rw [← hp]
    exact parseSeq_prefix pf hnl _ isLetter_ch g
  exact ⟨key [.ch '+'] 0 (by decide) (by decide), key [.ch '-'] 2 (by decide) (by decide),
    key [.ch 'i'] 1 (by decide) (by decide), key [.ch '+', .ch 'i'] 1 (by decide) (by decide),
    key [.ch '-', .ch 'i'] 3 (by decide) (by decide)⟩

/-- negation and multiplication by `1, i, -1, -i` are phase arithmetic -/
theorem C20_neg_smul (P : Pauli) (k : Nat) :
    (neg P).g = P.g ∧ (neg P).p % 4 = (P.p + 2) % 4 ∧
    (smulI k P).g = P.g ∧ (smulI k P).p % 4 = (P.p + (k : Int)) % 4 := by
  refine ⟨rfl, ?_, ?_, ?_⟩
  · simp only [neg]; omega
  · unfold smulI; split <;> rfl
  · unfold smulI
    split
    · omega
    · simp only; omega

/-- weight counts the non-identity qubits -/
theorem C20_weight (g : PStr) : weight g = (g.filter fun q => q != (false, false)).length := by
  unfold weight
  congr 2
  funext q
  obtain ⟨x, z⟩ := q
  cases x <;> cases z <;> rfl

end PC
