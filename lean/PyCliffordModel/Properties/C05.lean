import PyCliffordModel.Proofs.Tableau
/-!
# C05 — every reachable stabilizer state satisfies the tableau invariant
-/
namespace PC

/-- the identity map is a valid Clifford map -/
theorem C05_idMap_valid (n : Nat) : ValidMap (idMap n) n := idMap_valid n

/-- converting any valid map to a state (any `r ≤ n`) gives a valid tableau: covers `zero_state`,
    `maximally_mixed_state`, `random_*_state`, `CliffordMap.to_state` -/
theorem C05_toState_inv (M : List Pauli) (n r : Nat) (hM : ValidMap M n) (hr : r ≤ n) :
    TabInv (toState M r) n := toState_inv M n r hM hr

theorem C05_oneState_inv (n : Nat) : TabInv (oneState n) n := by
  unfold oneState
  exact (toState_inv (idMap n) n 0 (idMap_valid n) (Nat.zero_le n)).map_phase 2 rfl

/-- rotation by a Hermitian generator preserves the invariant -/
theorem C05_rotate_inv (st : State) (n : Nat) (G : Pauli) (h : TabInv st n) (hG : G.p % 2 = 0)
    (hl : G.g.length = n) : TabInv ⟨st.rows.map (rotate G), st.r⟩ n := rotate_inv st n G h hG hl

/-- … also through any qubit mask -/
theorem C05_rotateMasked_inv (st : State) (n : Nat) (G : Pauli) (m : List Bool) (h : TabInv st n)
    (hG : G.p % 2 = 0) (hm : maskCount m = G.g.length) (hl : m.length = n) :
    TabInv ⟨st.rows.map (rotateMasked G m), st.r⟩ n := by
  have _ := hm
  have _ := hl
  have e : st.rows.map (rotateMasked G m) = st.rows.map (rotate (embedGen m n G)) := by
    apply List.map_congr_left
    intro R hR
    rw [rotateMasked_eq_rotate_embedGen G R m, h.2.2.1 R hR]
  rw [e]
  exact rotate_inv st n (embedGen m n G) h hG (length_embedGen m n G)

/-- **measurement of one Hermitian observable preserves the invariant, for either coin**; the outcome is a bit and
    the rank never grows -/
theorem C05_measure1_inv (st st' : State) (n : Nat) (obs : Pauli) (coin : Bool) (out : Int) (rnd : Bool)
    (h : TabInv st n) (ho : obs.g.length = n) (hp : obs.p % 2 = 0)
    (hm : measure1 st obs coin = .ok (st', out, rnd)) :
    TabInv st' n ∧ (out = 0 ∨ out = 1) ∧ st'.r ≤ st.r := by
  have hN := h.N_eq
  rcases measure1_cases st obs coin with ⟨p, ⟨ha, hpiv⟩, he⟩ | ⟨_, he⟩
  · rw [he] at hm
    injection hm with hm
    injection hm with h1 h2
    injection h2 with h2 _
    subst h1
    have hc : (if coin then (2 : Int) else 0) % 2 = 0 := by cases coin <;> rfl
    refine ⟨?_, ?_, ?_⟩
    · unfold pivotState
      rw [hN]
      apply pivot_install_inv st n obs.g true p _ h ho _ ha _ hc
      · rcases hpiv with ⟨_, h2, _⟩ | ⟨h1, _, _⟩ <;> omega
      · intro k hk1 hk2 hk3
        rcases hpiv with ⟨h1, h2, _⟩ | ⟨_, h2, _⟩
        · exact ⟨h1, by omega⟩
        · rw [h2 k hk1 (by omega)] at hk3; exact absurd hk3 (by simp)
    · rw [← h2]; cases coin <;> simp <;> omega
    · exact installRank_le _ _ _
  · rw [he] at hm
    split at hm
    · injection hm with hm
      injection hm with h1 h2
      injection h2 with h2 _
      subst h1
      exact ⟨h, by omega, Nat.le_refl _⟩
    · exact absurd hm (by simp)

/-- under the invariant, measuring a Hermitian observable never trips the internal assertion -/
theorem C05_measure1_total (st : State) (n : Nat) (obs : Pauli) (coin : Bool)
    (h : TabInv st n) (ho : obs.g.length = n) (hp : obs.p % 2 = 0) :
    ∃ res, measure1 st obs coin = .ok res := by
  have _ := hp
  exact measure1_total st n obs coin h ho

/-- lists of observables, **every coin sequence** -/
theorem C05_measure_inv (st st' : State) (n : Nat) (obs : List Pauli) (coins rest : List Bool) (outs : List Int) (k : Nat)
    (h : TabInv st n) (ho : ∀ o ∈ obs, o.g.length = n ∧ o.p % 2 = 0)
    (hm : measure st obs coins = .ok (st', outs, k, rest)) :
    TabInv st' n ∧ st'.r ≤ st.r ∧ outs.length = obs.length ∧ k ≤ obs.length := by
  induction obs generalizing st coins outs k with
  | nil =>
    simp only [measure] at hm
    injection hm with hm
    injection hm with h1 h2
    injection h2 with h2 h3
    injection h3 with h3 _
    subst h1 h2 h3
    exact ⟨h, Nat.le_refl _, rfl, Nat.le_refl _⟩
  | cons o os ih =>
    have ho1 := ho o (by simp)
    have hos : ∀ o' ∈ os, o'.g.length = n ∧ o'.p % 2 = 0 := fun o' ho' => ho o' (by simp [ho'])
    simp only [measure] at hm
    cases h1 : measure1 st o (coins.headD false) with
    | error e => rw [h1] at hm; exact absurd hm (by simp)
    | ok res =>
      obtain ⟨st1, out, rnd⟩ := res
      rw [h1] at hm
      simp only at hm
      obtain ⟨i1, _, i3⟩ := C05_measure1_inv st st1 n o _ out rnd h ho1.1 ho1.2 h1
      split at hm
      · exact absurd hm (by simp)
      · cases h2 : measure st1 os (if rnd then coins.tail else coins) with
        | error e => rw [h2] at hm; exact absurd hm (by simp)
        | ok res2 =>
          obtain ⟨st2, outs2, k2, cs⟩ := res2
          rw [h2] at hm
          simp only at hm
          injection hm with hm
          injection hm with e1 e2
          injection e2 with e2 e3
          injection e3 with e3 e4
          subst e1 e2 e3 e4
          obtain ⟨j1, j2, j3, j4⟩ := ih st1 _ outs2 k2 i1 hos h2
          refine ⟨j1, by omega, by simp [j3], ?_⟩
          split <;> simp <;> omega

/-- projection (strings only), as used by `stabilizer_state`: keeps the commutation pattern and `r ≤ n` -/
theorem C05_project1_inv (st : State) (n : Nat) (obs : PStr) (h : TabInv st n) (hh : AllHerm st.rows)
    (ho : obs.length = n) : TabInv (project1 st obs) n ∧ AllHerm (project1 st obs).rows := by
  have hN := h.N_eq
  obtain ⟨hl, hr, hg, _⟩ := (tabInv_iff st n).1 h
  rcases project1_cases st obs with ⟨p, hp, ha, _, he⟩ | ⟨_, he⟩
  · rw [he, hN]
    have hp2 : p < 2 * n := by omega
    obtain ⟨c1, _, _, c4, _, c6⟩ := pivot_install_core st.rows n st.r obs false p hl hg hr ho hp2 ha
    have hall : ∀ k, k < 2 * n → (rowAt (install (st.rows.mapIdx (updRow obs n false p (rowAt st.rows p)))
        obs n st.r p (rowAt st.rows p).g).1 k).p % 2 = 0 := by
      intro k hk
      rw [c6 k hk, updRow_p_keep _ _ _ _ _ _ _ (Or.inl rfl)]
      exact hh _ (rowAt_mem _ k (by omega))
    refine ⟨?_, ?_⟩
    · rw [tabInv_iff]
      exact ⟨c1, Nat.le_trans (installRank_le _ _ _) hr, c4, fun i _ hi => hall i (by omega)⟩
    · intro R hR
      obtain ⟨j, hj, rfl⟩ := exists_rowAt_of_mem _ R hR
      simp only [c1] at hj
      exact hall j hj
  · rw [he]; exact ⟨h, hh⟩

/-- post-selection (pure states) preserves the invariant -/
theorem C05_postselect_inv (st st' : State) (n : Nat) (P : Pauli) (res : Nat) (t : Dy) (h : TabInv st n)
    (hP : P.g.length = n) (hp : P.p % 2 = 0) (hres : res < 2)
    (hm : postselect st P res = .ok (st', t)) : TabInv st' n := by
  have _ := hres
  have hN := h.N_eq
  have hr : st.r = 0 := by
    by_cases e : st.r = 0
    · exact e
    · unfold postselect at hm
      have : (st.r != 0) = true := by simp [e]
      simp only [this] at hm
      exact absurd hm (by simp)
  rcases postselect_cases st P res hr with ⟨p, hp1, ha, _, he⟩ | ⟨_, he⟩
  · rw [he] at hm
    injection hm with hm
    injection hm with h1 _
    subst h1
    unfold pivotState
    rw [hN]
    apply pivot_install_inv st n P.g true p _ h hP (by omega) ha _ (by omega)
    intro k _ _ _
    exact ⟨by omega, by omega⟩
  · rw [he] at hm
    split at hm
    · injection hm with hm
      injection hm with h1 _
      subst h1
      exact h
    · exact absurd hm (by simp)

end PC
