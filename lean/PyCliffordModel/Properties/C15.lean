import PyCliffordModel.Proofs.PolyLemmas
/-!
# C15 — Pauli polynomial arithmetic is a faithful operator algebra (statements about coefficient functions)
-/
namespace PC

/-- negation negates every coefficient -/
theorem C15_coef_neg (a : Poly) (g : PStr) : coef (polyNeg a) g = (coef a g).neg :=
  coef_neg a g

/-- scalar multiples scale every coefficient -/
theorem C15_coef_smul (c : Cx) (a : Poly) (g : PStr) : coef (polySmul c a) g = c.mul (coef a g) :=
  coef_smul c a g

/-- concatenation of term lists adds coefficient functions -/
theorem C15_coef_append (a b : Poly) (g : PStr) : coef (a ++ b) g = (coef a g).add (coef b g) :=
  coef_append a b g

/-- **reduce**: equal strings are merged (strings of the result are pairwise different), phases are moved into the
    coefficients (all phases 0), and a coefficient is dropped exactly when its modulus does not exceed the tolerance —
    so the operator changes by at most `tol` per string -/
theorem C15_reduce_spec (a : Poly) (tn td : Nat) (g : PStr) :
    ((reduce a tn td).map fun t => t.1.g).Nodup ∧ (∀ t ∈ reduce a tn td, t.1.p = 0) ∧
    coef (reduce a tn td) g = keep (coef a g) tn td :=
  reduce_spec a tn td g

/-- sums: `a + b` denotes the sum (up to the tolerance of the final `reduce`) -/
theorem C15_coef_add (a b : Poly) (g : PStr) :
    coef (polyAdd a b) g = keep ((coef a g).add (coef b g)) 1 10000000000 := by
  show coef (reduce (a ++ b) 1 10000000000) g = _
  rw [(reduce_spec (a ++ b) 1 10000000000 g).2.2, coef_append]

/-- products of single terms are the exact Pauli product with the product of the coefficients (C01 gives its matrix meaning) -/
theorem C15_matmul_single (P Q : Pauli) (c d : Cx) : polyMatmul [(P, c)] [(Q, d)] = [(mul P Q, c.mul d)] := by
  rfl

/-- products distribute over the terms of the left factor (exactly) and of the right factor (as operators) -/
theorem C15_matmul_distrib (a a' b b' : Poly) (g : PStr) :
    polyMatmul (a ++ a') b = polyMatmul a b ++ polyMatmul a' b ∧
    coef (polyMatmul a (b ++ b')) g = (coef (polyMatmul a b) g).add (coef (polyMatmul a b') g) :=
  ⟨polyMatmul_append a a' b, coef_polyMatmul_append_right a b b' g⟩

/-- products respect the phase bookkeeping: moving a phase `i^k` from the string into the coefficient of a factor does not
    change the operator denoted by the product -/
theorem C15_matmul_phase (P Q : Pauli) (c d : Cx) (k : Int) (g : PStr) (hl : P.g.length = Q.g.length) :
    coef (polyMatmul [(⟨P.g, P.p + k⟩, c)] [(Q, d)]) g = coef (polyMatmul [(P, c.mul (Cx.ipow k))] [(Q, d)]) g := by
  have _ := hl   -- not needed: `xorS`/`ipow` truncate to the common length on both sides alike
  exact matmul_phase P Q c d k g

/-- adding a plain number adds that multiple of the identity (the result is a term list, or the polynomial without terms on
    `N` qubits when everything cancels) -/
theorem C15_add_number (a : Poly) (c : Cx) (N : Nat) (g : PStr) (hN : (PObj.poly a).N = N) :
    ∃ r, PObj.add (.poly a) (.num c) = .ok (normP N r) ∧
      coef r g = keep ((coef a g).add (if g = idStr N then c else Cx.zero)) 1 10000000000 := by
  refine ⟨polyAdd a (polySmul c (polyIdentity N)), ?_, ?_⟩
  · subst hN; rfl
  · rw [C15_coef_add, coef_smul_identity]

/-- **the polynomial without terms keeps its number of qubits**: adding a number to it gives that multiple of the identity on
    `n` qubits (both operand orders) -/
theorem C15_zero_add_number (n : Nat) (c : Cx) (g : PStr) :
    ∃ r, PObj.add (.zero n) (.num c) = .ok (normP n r) ∧ PObj.add (.num c) (.zero n) = .ok (normP n r) ∧
      coef r g = keep (if g = idStr n then c else Cx.zero) 1 10000000000 := by
  refine ⟨polyAdd [] (polySmul c (polyIdentity n)), rfl, rfl, ?_⟩
  rw [C15_coef_add, coef_smul_identity, coef_nil, Cx.zero_add]

/-- products with the polynomial without terms are the polynomial without terms on the same qubits; sums with it keep the
    other operand (up to the tolerance of `reduce`), negation and scalar multiples keep it, its trace is 0 -/
theorem C15_zero_laws (n : Nat) (b : Poly) (c : Cx) (g : PStr) (hb : b ≠ []) :
    PObj.matmul (.zero n) (.poly b) = .ok (.zero n) ∧ PObj.matmul (.poly b) (.zero n) = .ok (.zero (PObj.poly b).N) ∧
    PObj.matmul (.zero n) (.zero n) = .ok (.zero n) ∧
    (∃ r, PObj.add (.zero n) (.poly b) = .ok (normP n r) ∧ coef r g = keep (coef b g) 1 10000000000) ∧
    PObj.neg (.zero n) = .zero n ∧ PObj.rmul c (.zero n) = .ok (.zero n) ∧ PObj.trace (.zero n) = .ok Cx.zero := by
  have _ := hb
  refine ⟨rfl, ?_, rfl, ⟨polyAdd [] b, rfl, ?_⟩, rfl, rfl, rfl⟩
  · have h : polyMatmul b [] = [] := by simp [polyMatmul, batchDot]
    show Except.ok (normP (PObj.poly b).N (polyMatmul b [])) = _
    rw [h]; rfl
  · rw [C15_coef_add, coef_nil, Cx.zero_add]

/-- a normalised result denotes the same operator as its term list -/
theorem C15_normP_coef (n : Nat) (r : Poly) (g : PStr) : (normP n r).asPoly.map (fun p => coef p g) = some (coef r g) := by
  unfold normP
  cases r with
  | nil => rfl
  | cons t r => rfl

/-- `Pauli @ PauliMonomial` keeps the coefficient of the monomial (operand dispatch) -/
theorem C15_matmul_pauli_mono (x y : Pauli) (c : Cx) :
    PObj.matmul (.pauli x) (.mono y c) = .ok (.poly [(mul x y, Cx.one.mul c)]) := by
  rfl

/-- **trace, partial statement**: whenever every identity-string term has phase `0` (in particular for every result of `+`,
    `−` and `reduce`, which emit phase 0), the trace is `2^N` times the identity coefficient.  The full statement (without the
    hypothesis) is FALSE of the code, see `C15_trace_full_is_false`. -/
theorem C15_trace_partial (a : Poly) (N : Nat) (hN : ∀ t ∈ a, t.1.g.length = N)
    (hid : ∀ t ∈ a, t.1.g = idStr N → t.1.p % 4 = 0) :
    polyTrace a = (Cx.mk ((2 : Rat) ^ N) 0).mul (coef a (idStr N)) :=
  trace_partial a N hN hid

/-- the unrestricted trace law fails on the code's behaviour: witness `i·II` (known finding D13, pinned by a test) -/
theorem C15_trace_full_is_false :
    polyTrace [(⟨idStr 2, 1⟩, Cx.one)] ≠ (Cx.mk ((2 : Rat) ^ 2) 0).mul (coef [(⟨idStr 2, 1⟩, Cx.one)] (idStr 2)) := by
  rw [polyTrace_cons, polyTrace_nil, coef_single, Cx.add_zero, traceStr_idStr]
  intro h
  have h1 := congrArg Cx.re h
  simp [termVal, Cx.mul, Cx.one, Cx.ipow] at h1
  grind

end PC
