import PyCliffordModel.Proofs.CircuitLemmas
/-!
# C09 — a circuit acts as the ordered product of its gates;  C10 (gate level) — backward inverts forward
-/
namespace PC

/-- `utils.mask` agrees with `maskOf` on in-range qubit lists -/
theorem C09_qMask (qubits : List Nat) (N : Nat) (h0 : qubits ≠ []) (h : ∀ q ∈ qubits, q < N) :
    qMask qubits N = .ok (maskOf qubits N) := by
  exact Ci.qMask_eq qubits N h0 h

/-- **each gate acts only on its declared qubits** and leaves every other qubit untouched -/
theorem C09_gate_local (g : Gate) (N : Nat) (P : Pauli) (i : Nat) (hg : g.WF N) (hP : P.g.length = N)
    (hi : i ∉ g.qubits) : (gateAct g N P).g.getD i (false, false) = P.g.getD i (false, false) := by
  have _ := hg; have _ := hP  -- locality holds for any gate and any operand size
  rw [Ci.gateAct_eq]
  exact Ci.maskedOp_g_unmasked _ _ P i _ (Ci.getD_maskOf_not_mem g.qubits N i hi)

/-- the model's `CliffordGate.forward` on a list of operators is `gateAct` row by row (deterministic gates: the gate is
    returned unchanged and the random supply untouched) -/
theorem C09_gate_forward (g : Gate) (N : Nat) (rows : List Pauli) (rnd : List CMap) (hg : g.WF N)
    (hr : ∀ R ∈ rows, R.g.length = N) :
    ∃ rows', g.forward N rows rnd = .ok (g, rows', rnd) ∧ RowsPEq' rows' (rows.map (gateAct g N)) := by
  refine ⟨rows.map (gateAct g N), Ci.gate_forward_eq g N rows rnd hg hr, ?_⟩
  exact Ci.rowsPEq_map rows _ _ (fun R _ => PEq.refl _)

/-- gates on disjoint qubit sets commute -/
theorem C09_disjoint_commute (g h : Gate) (N : Nat) (P : Pauli) (hg : g.WF N) (hh : h.WF N) (hP : P.g.length = N)
    (hd : g.indep h = true) : PEq (gateAct g N (gateAct h N P)) (gateAct h N (gateAct g N P)) := by
  have _ := hg; have _ := hh; have _ := hP  -- holds without well-formedness: only the masks matter
  exact Ci.gateAct_comm g h N P hd

/-- **packing gates into layers never changes the action**: for every program of deterministic gates, the circuit built
    by `take` runs forward, on every operator list, as the gates applied one at a time in program order -/
theorem C09_program_sound (N : Nat) (prog : List Gate) (c : Circ) (rows : List Pauli) (r : Nat) (s : Bool)
    (coins : List Bool) (rnd : List CMap)
    (hw : ∀ g ∈ prog, g.WF N) (hb : buildCirc N prog = .ok c) (hr : ∀ R ∈ rows, R.g.length = N) :
    ∃ c' rows', c.forward ⟨⟨rows, r, s⟩, coins, rnd⟩ = .ok (c', ⟨⟨rows', r, s⟩, coins, rnd⟩) ∧
      RowsPEq' rows' (rows.map (seqAct prog N)) := by
  have hI : Ci.Inv N c prog := by
    have := Ci.fold_inv N prog { N := N } c [] (Ci.inv_init N) hw hb
    simpa using this
  exact Ci.forward_of_inv N c prog rows r s coins rnd hI hr

/-- composing circuits: `c₁.compose(c₂)` built from two programs acts as the concatenated program -/
theorem C09_compose_sound (N : Nat) (p1 p2 : List Gate) (c1 c2 c : Circ) (rows : List Pauli) (r : Nat) (s : Bool)
    (coins : List Bool) (rnd : List CMap)
    (hw1 : ∀ g ∈ p1, g.WF N) (hw2 : ∀ g ∈ p2, g.WF N) (hb1 : buildCirc N p1 = .ok c1) (hb2 : buildCirc N p2 = .ok c2)
    (hc : c1.compose c2 = .ok c) (hr : ∀ R ∈ rows, R.g.length = N) :
    ∃ c' rows', c.forward ⟨⟨rows, r, s⟩, coins, rnd⟩ = .ok (c', ⟨⟨rows', r, s⟩, coins, rnd⟩) ∧
      RowsPEq' rows' (rows.map (seqAct (p1 ++ p2) N)) := by
  have hI1 : Ci.Inv N c1 p1 := by
    have := Ci.fold_inv N p1 { N := N } c1 [] (Ci.inv_init N) hw1 hb1
    simpa using this
  have hI2 : Ci.Inv N c2 p2 := by
    have := Ci.fold_inv N p2 { N := N } c2 [] (Ci.inv_init N) hw2 hb2
    simpa using this
  obtain ⟨-, -, -, -, hwf2, hs2⟩ := hI2
  unfold Circ.compose at hc
  split at hc
  · cases hc
  · dsimp only at hc
    have hc : List.foldlM (fun acc g => acc.take g) c1 (Ci.flatGates c2.layers) = .ok c := hc
    have hI := Ci.fold_inv N (Ci.flatGates c2.layers) c1 c p1 hI1 hwf2 hc
    obtain ⟨c', rows', hf, hR⟩ := Ci.forward_of_inv N c _ rows r s coins rnd hI hr
    refine ⟨c', rows', hf, hR.1.trans (by simp), ?_⟩
    intro i hi
    refine (hR.2 i hi).trans ?_
    have hi' : i < rows.length := by have := hR.1; simp at this; omega
    rw [Tr.rowAt_map _ rows i hi', Tr.rowAt_map _ rows i hi', Ci.seqAct_append, Ci.seqAct_append]
    apply hs2
    rw [Ci.length_seqAct]
    exact hr _ (Tr.rowAt_mem rows i hi')

/-- C10, gate level: the backward action undoes the forward action, both orders, every operator with every phase -/
theorem C10_gate_inverse (g : Gate) (N : Nat) (P : Pauli) (hg : g.WF N) (hP : P.g.length = N) :
    PEq (gateActInv g N (gateAct g N P)) P ∧ PEq (gateAct g N (gateActInv g N P)) P := by
  exact Ci.gate_inverse g N P hg hP

/-- C10, program level: inverse gates in reverse order undo the program -/
theorem C10_program_inverse (prog : List Gate) (N : Nat) (P : Pauli) (hw : ∀ g ∈ prog, g.WF N) (hP : P.g.length = N) :
    PEq (seqActInv prog N (seqAct prog N P)) P ∧ PEq (seqAct prog N (seqActInv prog N P)) P := by
  exact Ci.program_inverse prog N P hw hP

/-- C10: the model's `CliffordGate.backward` is `gateActInv` row by row (the lazily computed inverse is cached in the gate) -/
theorem C10_gate_backward (g : Gate) (N : Nat) (rows : List Pauli) (rnd : List CMap) (hg : g.WF N)
    (hb : g.bmap = none) (hr : ∀ R ∈ rows, R.g.length = N) :
    ∃ g' rows', g.backward N rows rnd = .ok (g', rows', rnd) ∧ RowsPEq' rows' (rows.map (gateActInv g N)) := by
  obtain ⟨g', h⟩ := Ci.gate_backward_eq g N rows rnd hg hb hr
  exact ⟨g', rows.map (gateActInv g N), h, Ci.rowsPEq_map rows _ _ (fun R _ => PEq.refl _)⟩

end PC
