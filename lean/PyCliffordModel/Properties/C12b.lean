import PyCliffordModel.Proofs.GroupLemmas
/-!
# Second parts of C05 / C06 / C12 / C19: all phases stay Hermitian, the encoding map of a reachable state is a valid
Clifford map, `stabilizer_state` returns exactly its input as generators, lists of commuting observables
-/
namespace PC

/-- all `2N` phases stay Hermitian under measurement (every coin), so the whole tableau — standby rows and destabilizers
    included — stays a list of Hermitian operators -/
theorem C05_measure_allHerm (st st' : State) (n : Nat) (obs : List Pauli) (coins rest : List Bool) (outs : List Int) (k : Nat)
    (h : TabInv st n) (hh : AllHerm st.rows) (ho : ∀ o ∈ obs, o.g.length = n ∧ o.p % 2 = 0)
    (hm : measure st obs coins = .ok (st', outs, k, rest)) : AllHerm st'.rows := by
  exact Gr.measure_allHerm n obs st st' coins rest outs k h hh ho hm

/-- … and under every other admissible operation -/
theorem C05_step_allHerm (st st' : State) (n : Nat) (op : StOp) (h : TabInv st n) (hh : AllHerm st.rows) (hop : op.Ok n)
    (hs : applyOp n st op = some st') : AllHerm st'.rows := by
  have hlen : ∀ P ∈ st.rows, P.g.length = n := h.2.2.1
  cases op with
  | rotate G =>
    simp only [applyOp, Option.some.injEq] at hs
    subst hs
    exact Gr.allHerm_map _ _ hh (fun P _ hp => rotate_p_even G P hop.2 hp)
  | rotateMasked G m =>
    simp only [applyOp, Option.some.injEq] at hs
    subst hs
    exact Gr.allHerm_map _ _ hh (fun P _ hp => Gr.rotateMasked_p_even G m P hop.2.2 hp)
  | transform M =>
    simp only [applyOp, Option.some.injEq] at hs
    subst hs
    exact Gr.allHerm_map _ _ hh (fun P hP hp => Tr.transform_hermitian M n hop P (hlen P hP) hp)
  | transformMasked M m =>
    simp only [applyOp, Option.some.injEq] at hs
    subst hs
    exact Gr.allHerm_map _ _ hh
      (fun P hP hp => Rc.transformMasked_hermitian M m n hop.1 hop.2 P (hlen P hP) hp)
  | gate g =>
    simp only [applyOp, Option.some.injEq] at hs
    subst hs
    obtain ⟨_, hq, hn, hk⟩ := hop
    have hc : maskCount (maskOf g.qubits n) = g.n := Ci.maskCount_maskOf g.qubits n hn hq
    have hl : (maskOf g.qubits n).length = n := Ci.length_maskOf g.qubits n
    rcases hk with ⟨G, hgen, _, hGp⟩ | ⟨hgen, M, hM, hV⟩
    · have e : gateAct g n = rotateMasked G (maskOf g.qubits n) := by
        funext P; unfold gateAct; rw [hgen]
      rw [e]
      exact Gr.allHerm_map _ _ hh (fun P _ hp => Gr.rotateMasked_p_even G _ P hGp hp)
    · have e : gateAct g n = transformMasked M (maskOf g.qubits n) := by
        funext P; unfold gateAct; rw [hgen, hM]
      rw [e]
      exact Gr.allHerm_map _ _ hh
        (fun P hP hp => Rc.transformMasked_hermitian M _ n hl (by rw [hc]; exact hV) P (hlen P hP) hp)
  | measure obs coins =>
    simp only [applyOp] at hs
    cases hm : measure st obs coins with
    | error e => rw [hm] at hs; exact absurd hs (by simp)
    | ok res =>
      obtain ⟨st1, outs, k, rest⟩ := res
      rw [hm] at hs
      simp only [Option.some.injEq] at hs
      subst hs
      exact Gr.measure_allHerm n obs st st1 coins rest outs k h hh hop hm
  | postselect P res =>
    simp only [applyOp] at hs
    cases hm : postselect st P res with
    | error e => rw [hm] at hs; exact absurd hs (by simp)
    | ok r =>
      obtain ⟨st1, t⟩ := r
      rw [hm] at hs
      simp only [Option.some.injEq] at hs
      subst hs
      exact Gr.postselect_allHerm st st1 n P res t h hh hop.2.1 hm
  | copy =>
    simp only [applyOp, Option.some.injEq] at hs
    subst hs
    exact hh

/-- **the encoding map of a state with the invariant and Hermitian rows is a valid Clifford map** (so `to_map()` of any
    reachable state may be used as a gate) -/
theorem C12_toMap_valid (st : State) (n : Nat) (h : TabInv st n) (hh : AllHerm st.rows) : ValidMap (stateToMap st.rows) n := by
  exact Gr.toMap_valid st n h hh

/-- **`stabilizer_state` of `L` independent commuting signed stabilizers** (independence = the constructor ends with rank
    `N − L`): the active generators are exactly the input, in order, with their signs; the state has the invariant and rank `N − L` -/
theorem C12_stabilizerState_spec (N : Nat) (stabs : List Pauli) (st : State)
    (hl : ∀ s ∈ stabs, s.g.length = N ∧ s.p % 2 = 0) (hs : stabilizerState N stabs = .ok st)
    (hr : st.r + stabs.length = N) : TabInv st N ∧ st.active = stabs := by
  have hT := Gr.stabilizerState_inv N stabs st hl hs
  refine ⟨hT, ?_⟩
  have hgl : ∀ o ∈ stabs.map (·.g), o.length = N := by
    intro o ho
    obtain ⟨s, hs', rfl⟩ := List.mem_map.1 ho
    exact (hl s hs').1
  have h0 : TabInv (maximallyMixed N) N := C05_toState_inv (idMap N) N N (C05_idMap_valid N) (Nat.le_refl N)
  unfold stabilizerState at hs
  simp only at hs
  split at hs
  · exact absurd hs (by simp)
  · next hany =>
    have hzero := Gr.acqMat_all_zero (stabs.map (·.g)) (by simpa using hany)
    have key := Gr.project_activeIs N (stabs.map (·.g)).reverse (maximallyMixed N) [] h0
      (Rc.allHerm_maximallyMixed N) (Gr.activeIs_maximallyMixed N)
      (fun a ha => hgl a (by simpa using ha))
      (fun a ha b hb => hzero a (by simpa using ha) b (by simpa using hb))
    have hrN : (maximallyMixed N).r = N := rfl
    rw [hrN] at key
    simp only [List.length_reverse, List.length_map, List.reverse_reverse, List.append_nil] at key
    generalize project (maximallyMixed N) (stabs.map (·.g)).reverse = P at hs key
    have fin : ∀ (f : Nat → Pauli → Pauli),
        (∀ i R, P.r ≤ i → i < N → f i R = ⟨R.g, (rowAt stabs (i - P.r)).p⟩) →
        TabInv ⟨P.rows.mapIdx f, P.r⟩ N → P.r + stabs.length = N →
        State.active ⟨P.rows.mapIdx f, P.r⟩ = stabs := by
      intro f hf hT' hr'
      obtain ⟨_, hact⟩ := key.2 hr'
      have hlenA := St.length_active _ N hT'
      simp only at hlenA
      apply ext_rowAt
      · rw [hlenA]; omega
      · intro k hk
        rw [hlenA] at hk
        have hkL : k < stabs.length := by omega
        rw [St.rowAt_active _ N hT' k hk]
        simp only
        have hPl : P.rows.length = 2 * N := by simpa using hT'.1
        rw [rowAt_mapIdx _ _ _ (by omega), hf _ _ (by omega) (by omega)]
        have hg := hact k (by simpa using hkL)
        have e1 : (stabs.map (·.g)).getD k [] = (rowAt stabs k).g := by
          simp [rowAt, List.getD_eq_getElem?_getD, List.getElem?_eq_getElem hkL]
        rw [e1] at hg
        unfold gAt at hg
        apply Ms.pauli_eq
        · exact hg
        · simp only
          rw [show P.r + k - P.r = k by omega]
    split at hs
    · injection hs with hs
      subst hs
      apply fin _ _ hT hr
      intro i R h1 h2
      rw [if_pos (by simp [h1, h2])]
    · split at hs
      · injection hs with hs
        subst hs
        simp only at hr
        omega
      · exact absurd hs (by simp)

/-- measuring a list of **commuting** Hermitian observables: afterwards every observable of the list, with the sign of its
    recorded outcome, stabilizes the state -/
theorem C06_measure_list_stabilized (st st' : State) (n : Nat) (obs : List Pauli) (coins rest : List Bool) (outs : List Int) (k : Nat)
    (h : TabInv st n) (ho : ∀ o ∈ obs, o.g.length = n ∧ o.p % 2 = 0)
    (hc : ∀ a ∈ obs, ∀ b ∈ obs, acq a.g b.g = 0)
    (hm : measure st obs coins = .ok (st', outs, k, rest)) :
    outs.length = obs.length ∧ ∀ i, i < obs.length → InGroup st' ⟨(rowAt obs i).g, (rowAt obs i).p + 2 * outs.getD i 0⟩ := by
  obtain ⟨_, j2, _, j4⟩ := Gr.measure_list_full n obs st st' coins rest outs k h ho hm
  exact ⟨j2, fun i hi => (j4 hc i hi).2⟩

/-- **repeating the measurement of a commuting list returns the same outcomes with log2-probability 0 and leaves the state unchanged** -/
theorem C06_repeat_list (st st' : State) (n : Nat) (obs : List Pauli) (coins rest coins2 : List Bool) (outs : List Int) (k : Nat)
    (h : TabInv st n) (ho : ∀ o ∈ obs, o.g.length = n ∧ o.p % 2 = 0)
    (hc : ∀ a ∈ obs, ∀ b ∈ obs, acq a.g b.g = 0)
    (hm : measure st obs coins = .ok (st', outs, k, rest)) :
    measure st' obs coins2 = .ok (st', outs, 0, coins2) := by
  obtain ⟨j1, j2, _, j4⟩ := Gr.measure_list_full n obs st st' coins rest outs k h ho hm
  apply Gr.measure_of_all_inGroup st' n j1 obs outs coins2 j2
  intro i hi
  obtain ⟨b, hin⟩ := j4 hc i hi
  exact ⟨(ho _ (rowAt_mem obs i hi)).1, b, hin⟩

end PC
