import PyCliffordModel.Model.Basic
import PyCliffordModel.Generated.KernelTables
/-!
# C01 / C20 — the model's one-qubit kernels equal the tables regenerated from the running code

`Generated/KernelTables.lean` is rewritten on every run by evaluating `utils.ipow`, `utils.acq`, `utils.p0` and
`utils.pauli_tokenize` of the code under test on the complete one-qubit domain. These kernel-checked statements tie the
per-qubit summands of the model (`ipowQ`, `acqQ`, the `p0` summand, `tokQ`, `tokP`) to what the code computes *now*; the
N-qubit kernels are sums of these summands over the qubits (that structural part is covered by the correspondence runs).
-/
namespace PC
open Gen

def allQ' : List Q := [(false, false), (false, true), (true, false), (true, true)]

theorem C01_ipow_table_regenerated :
    ipowTable = allQ'.flatMap fun a => allQ'.map fun b => (a, b, ipow [a] [b]) := by decide

theorem C01_acq_table_regenerated :
    acqTable = allQ'.flatMap fun a => allQ'.map fun b => (a, b, acq [a] [b]) := by decide

theorem C01_p0_table_regenerated : p0Table = allQ'.map fun a => (a, p0 [a]) := by decide

theorem C20_token_tables_regenerated :
    tokQTable = allQ'.map (fun a => (a, tokQ a)) ∧ tokPTable = [0, 1, 2, 3].map (fun p => (p, tokP p)) := by decide

end PC
