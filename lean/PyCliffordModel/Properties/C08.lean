import PyCliffordModel.Proofs.RankLemmas
/-!
# C08 — entropy: `z2rank` is the GF(2) rank, and the reported entropy is `|R| − log2 #{group elements supported in R}`
-/
namespace PC
open Rank

/-- **`z2rank` is the rank**: the number of vanishing row combinations is `2^(rows − z2rank)` -/
theorem C08_z2rank_kernel (A : BMat) (nr nc : Nat) (hA : IsMat A nr nc) :
    z2rank A nc ≤ nr ∧ kernelCount A nc = 2 ^ (nr - z2rank A nc) :=
  Rank.z2rank_kernel A nr nc hA

/-- the rank is at most the number of columns -/
theorem C08_z2rank_le_cols (A : BMat) (nr nc : Nat) (hA : IsMat A nr nc) : z2rank A nc ≤ nc := by
  have _ := hA
  exact Rank.z2rank_le_cols A nc

/-- mixed states (fewer than `N` generators): the reported entropy is `|R| − log2 #{group elements supported in R}` -/
theorem C08_entropy_mixed (gs : List PStr) (N : Nat) (m : List Bool) (hL : gs.length ≠ N)
    (hg : ∀ g ∈ gs, g.length = N) (hm : m.length = N) :
    supportedCount gs m = 2 ^ (Int.toNat ((maskCount m : Int) - entropy gs N m)) ∧
    entropy gs N m ≤ (maskCount m : Int) := by
  have hMat : IsMat (gs.map fun g => flat (gather (m.map (!·)) g)) gs.length (2 * maskCount (m.map (!·))) := by
    refine ⟨by simp, ?_⟩
    intro row hrow
    obtain ⟨g, hg', rfl⟩ := List.mem_map.mp hrow
    rw [Rank.length_flat', length_gather _ _ (by simp [hm, hg g hg'])]
  obtain ⟨h1, h2⟩ := C08_z2rank_kernel _ _ _ hMat
  have he : entropy gs N m = (maskCount m : Int) - ((gs.length : Int) -
      (z2rank (gs.map fun g => flat (gather (m.map (!·)) g)) (2 * maskCount (m.map (!·))) : Nat)) := by
    simp only [entropy, if_neg hL]
  constructor
  · unfold supportedCount
    simp only []
    rw [h2, he]
    congr 1
    omega
  · rw [he]; omega

/-- the empty region has entropy 0 (index list or mask) -/
theorem C08_entropy_empty (st : State) : entropyIdx st [] = .ok 0 ∧ entropyMask st [] = 0 :=
  ⟨rfl, rfl⟩

/-- the whole system has entropy `r` -/
theorem C08_entropy_whole (st : State) (n : Nat) (h : TabInv st n) :
    entropyMask st (List.replicate n true) = if n = 0 then 0 else (st.r : Int) := by
  obtain ⟨hlen, hr, _, _, _⟩ := h
  by_cases hn : n = 0
  · subst hn; simp [entropyMask]
  · have hne : (List.replicate n true).isEmpty = false := by
      cases n with
      | zero => omega
      | succ k => simp [List.replicate_succ]
    have hN : st.N = n := by simp [State.N, hlen]
    have hact : (st.active.map (·.g)).length = n - st.r := by
      simp [State.active, hN, hlen]; omega
    have hnm : (List.replicate n true).map (!·) = List.replicate n false := by simp
    simp only [entropyMask, hne, if_neg hn, hN]
    unfold entropy
    simp only [hnm, gather_replicate_false, maskCount_replicate_false, maskCount_replicate_true]
    by_cases hL : (st.active.map (·.g)).length = n
    · have hr0 : st.r = 0 := by omega
      simp only [if_pos hL]
      have : (fun g : PStr => anyBit (gather (List.replicate n true) g) && anyBit []) = fun _ => false := by
        funext g; simp [anyBit]
      rw [this, hr0, List.filter_eq_nil_iff.mpr (by simp)]
      simp [acqMat, z2rank, z2rankAux]
    · simp only [if_neg hL]
      have : z2rank (List.map (fun g => flat []) (List.map (fun x => x.g) st.active)) (2 * 0) = 0 := by
        simp [z2rank, z2rankAux]
      rw [this, hact]
      simp only [Bool.false_eq_true, if_false]
      omega

/-- index lists, and boolean masks selecting the same qubits, give the same entropy -/
theorem C08_entropy_idx_mask (st : State) (n : Nat) (qs : List Nat) (h : TabInv st n) (h0 : qs ≠ []) (hq : ∀ q ∈ qs, q < n) :
    entropyIdx st (qs.map Int.ofNat) = .ok (entropyMask st ((List.range n).map fun i => qs.contains i)) := by
  obtain ⟨hlen, _⟩ := h
  have hN : st.N = n := by simp [State.N, hlen]
  have hn : 0 < n := by
    cases qs with
    | nil => exact absurd rfl h0
    | cons q _ => have := hq q (by simp); omega
  have e1 : (qs.map Int.ofNat).isEmpty = false := by
    cases qs with
    | nil => exact absurd rfl h0
    | cons q _ => rfl
  have e2 : ((List.range n).map fun i => qs.contains i).isEmpty = false := by
    cases n with
    | zero => omega
    | succ k => simp [List.range_succ_eq_map]
  unfold entropyIdx entropyMask
  rw [e1, e2, hN, mkMask_ofNat qs n h0 hq]
  simp

end PC
