import PyCliffordModel.Properties.C11b
import PyCliffordModel.Properties.C12
import PyCliffordModel.Proofs.DiagLemmas
/-!
# C18 (circuit level, continued) — causal diagonalisation of an operator; diagonalisation of a state

`diagonalize(P, i0, causal=True)` works on the part of the operator supported on qubits `≥ i0`: the circuit only
contains gates on those qubits, sends that part to `Z` on qubit `i0` (identity on later qubits) and leaves the
earlier qubits of *every* operator untouched. `diagonalize(state)` returns one global gate whose backward map is the
encoding map of the state: forward sends the state to `|0…0⟩`, backward re-encodes it.
-/
namespace PC

/-- all gates of a circuit, in layer order -/
def Circ.allGates (c : Circ) : List Gate := c.layers.flatMap fun | .gates gs _ _ => gs | .meas .. => []

/-- **causal mode only uses qubits `≥ i0`** -/
theorem C18_causal_support (g : PStr) (i0 : Nat) (c : Circ) (hi : i0 < g.length)
    (hc : diagonalizePauli g i0 true = .ok c) :
    c.N = g.length ∧ ∀ gt ∈ c.allGates, ∀ q ∈ gt.qubits, i0 ≤ q ∧ q < g.length := by
  rw [Dg.diagonalizePauli_causal_eq] at hc
  refine ⟨Dg.fold_take_N _ _ c hc, ?_⟩
  intro gt hgt
  have hin : Dg.InLayers c.layers gt := by
    obtain ⟨L, hL, hm⟩ := List.mem_flatMap.1 hgt
    refine ⟨L, hL, ?_⟩
    cases L with
    | gates gs f b => exact hm
    | meas qs res k => exact hm
  rcases (Dg.fold_take_mem _ _ c gt hc hin).2 with ⟨L, hL, hm⟩ | hm
  · simp only [List.mem_singleton] at hL
    subst hL
    cases hm
  · exact (Dg.causalGates_spec g i0 hi gt hm).2

/-- **causal mode diagonalises the part supported on qubits `≥ i0`**: the circuit, run forward on the operator, leaves its
    first `i0` qubits as they were and sends the rest to `Z` on qubit `i0` and identity on later qubits, keeping the phase
    Hermitian (i.e. the result is `±` the product of the untouched earlier part and `Z_{i0}`) -/
theorem C18_causal_sound (g : PStr) (p : Int) (i0 : Nat) (c : Circ) (hi : i0 < g.length) (hg : anyBit (g.drop i0) = true)
    (hc : diagonalizePauli g i0 true = .ok c) :
    ∃ c' R, c.forward ⟨⟨[⟨g, p⟩], 0, false⟩, [], []⟩ = .ok (c', ⟨⟨[R], 0, false⟩, [], []⟩) ∧
      R.g.take i0 = g.take i0 ∧ R.g.drop i0 = unitZ (g.length - i0) 0 ∧ R.p % 2 = p % 2 := by
  obtain ⟨c', R, hf, hR, _⟩ := Dg.causal_forward g i0 c ⟨g, p⟩ hi rfl hc
  have hl : (g.drop i0).length = g.length - i0 := List.length_drop
  have hlt : (g.take i0).length = i0 := by rw [List.length_take]; omega
  obtain ⟨h1, _⟩ := Rn.diag1_strings (g.drop i0) 0 (by rw [hl]; omega) hg
  obtain ⟨h3, h4⟩ := Rn.rotP_spec (diagonalize1 (g.drop i0) 0) ⟨g.drop i0, p⟩
  have hRg : R.g = g.take i0 ++ (Rn.rotP (diagonalize1 (g.drop i0) 0) ⟨g.drop i0, p⟩).g := hR.1
  have hRp : R.p % 4 = (Rn.rotP (diagonalize1 (g.drop i0) 0) ⟨g.drop i0, p⟩).p % 4 := hR.2
  refine ⟨c', R, hf, ?_, ?_, ?_⟩
  · rw [hRg, List.take_left' hlt]
  · rw [hRg, List.drop_left' hlt, h3, h1, hl]
  · simp only at h4
    omega

/-- **causal mode leaves the earlier qubits of every operator untouched** -/
theorem C18_causal_untouched (g : PStr) (i0 : Nat) (c : Circ) (Q : Pauli) (hi : i0 < g.length) (hQ : Q.g.length = g.length)
    (hc : diagonalizePauli g i0 true = .ok c) :
    ∃ c' R, c.forward ⟨⟨[Q], 0, false⟩, [], []⟩ = .ok (c', ⟨⟨[R], 0, false⟩, [], []⟩) ∧
      R.g.take i0 = Q.g.take i0 ∧ R.g.length = Q.g.length := by
  obtain ⟨c', R, hf, hR, hlen⟩ := Dg.causal_forward g i0 c Q hi hQ hc
  have hlt : (Q.g.take i0).length = i0 := by rw [List.length_take]; omega
  have hRg : R.g = Q.g.take i0 ++ (Rn.rotP (diagonalize1 (g.drop i0) 0) ⟨Q.g.drop i0, Q.p⟩).g := hR.1
  exact ⟨c', R, hf, by rw [hRg, List.take_left' hlt], hlen⟩

/-- building the circuit never fails for an in-range target qubit (both modes) -/
theorem C18_diagonalizePauli_ok (g : PStr) (i0 : Nat) (causal : Bool) (hi : i0 < g.length) :
    ∃ c, diagonalizePauli g i0 causal = .ok c := by
  cases causal with
  | true =>
    rw [Dg.diagonalizePauli_causal_eq]
    exact Dg.fold_take_ok g.length _ { N := g.length } rfl (by simp)
      (fun gt hgt => (Dg.causalGates_spec g i0 hi gt hgt).1)
  | false =>
    have e : diagonalizePauli g i0 false =
        ((diagonalize1 g i0).map fun h => rotationGate ⟨h, 0⟩ none).foldlM (fun c gt => c.take gt) { N := g.length } := by
      simp [diagonalizePauli]
    rw [e]
    apply Dg.fold_take_ok g.length _ { N := g.length } rfl (by simp)
    intro gt hgt
    obtain ⟨h, hh, rfl⟩ := List.mem_map.1 hgt
    obtain ⟨h1, h2⟩ := Dg.diag1_gens g i0 hi h hh
    exact Pl.rotationGate_WF h g.length h2 h1

/-- **`diagonalize(state)`**: for a pure state with Hermitian tableau, the returned circuit run forward maps the tableau
    to that of `|0…0⟩` (stabilizers `+Z_k`, destabilizers `X_k`), and run backward on `|0…0⟩` re-encodes the state -/
theorem C18_diagonalizeState_sound (st : State) (n : Nat) (coins : List Bool) (rnd : List CMap)
    (h : TabInv st n) (hn : 0 < n) (hH : AllHerm st.rows) :
    ∃ c, diagonalizeState st = .ok c ∧
      (∃ c' rows', c.forward ⟨⟨st.rows, st.r, true⟩, coins, rnd⟩ = .ok (c', ⟨⟨rows', st.r, true⟩, coins, rnd⟩) ∧
        RowsPEq' rows' (zeroState n).rows) ∧
      (∃ c' rows', c.backward ⟨⟨(zeroState n).rows, st.r, true⟩, coins, rnd⟩ none = .ok (c', ⟨⟨rows', st.r, true⟩, coins, rnd⟩) ∧
        RowsPEq' rows' st.rows) := by
  have hN := St.tabInv_N st n h
  have hB := Gr.toMap_valid st n h hH
  obtain ⟨M, hinv, hM, hBM, _⟩ := Cp.inverse_spec (stateToMap st.rows) n hB
  have hd : diagonalizeState st = .ok { N := n, layers := [.gates [Dg.stateGate n (stateToMap st.rows)] none none] } := by
    unfold diagonalizeState
    rw [hN]
    exact Dg.take_init n (Dg.stateGate n (stateToMap st.rows))
      (by intro he; have := congrArg List.length he; simp [Dg.stateGate] at this; omega)
      (fun q hq => List.mem_range.1 hq)
  refine ⟨_, hd, ⟨_, _, Dg.stateCirc_forward n _ M hinv st.rows st.r true coins rnd, ?_⟩,
    ⟨_, _, Dg.stateCirc_backward n hn _ (zeroState n).rows st.r true coins rnd, ?_⟩⟩
  · exact Dg.state_forward_rows st n M h hH hM hBM
  · exact Dg.state_backward_rows st n h hH

end PC
