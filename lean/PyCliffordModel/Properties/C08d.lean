import PyCliffordModel.Properties.C08
import PyCliffordModel.Properties.C08c
import PyCliffordModel.Properties.C09
import PyCliffordModel.Properties.C12
import PyCliffordModel.Proofs.EntropyInvLemmas
/-!
# C08 (invariances) — the entropy depends only on the stabilizer group, and not on Clifford gates acting entirely inside
or entirely outside the region
-/
namespace PC

/-- **the entropy does not depend on which generators represent the stabilizer group**: two valid tableaux on the same
    qubits with the same rank and the same stabilizer group report the same entropy for every region -/
theorem C08_entropy_group_only (st1 st2 : State) (N : Nat) (m : List Bool)
    (h1 : TabInv st1 N) (h2 : TabInv st2 N) (hr : st1.r = st2.r) (hm : m.length = N)
    (hG : ∀ P : Pauli, InGroup st1 P ↔ InGroup st2 P) :
    entropyMask st1 m = entropyMask st2 m := by
  exact Ei.entropyMask_congr st1 st2 N m h1 h2 hr hm (Ei.supported_group st1 st2 N m h1 h2 hm hG)

/-- the region a gate acts in: all its qubits are inside the region `m`, or all are outside -/
def GateInsideOrOutside (g : Gate) (m : List Bool) : Prop :=
  (∀ q ∈ g.qubits, m.getD q false = true) ∨ (∀ q ∈ g.qubits, m.getD q false = false)

/-- **the entropy of a region is unchanged by a Clifford gate acting entirely inside or entirely outside the region** -/
theorem C08_entropy_local_gate (st : State) (N : Nat) (m : List Bool) (g : Gate)
    (h : TabInv st N) (hm : m.length = N) (hg : g.WF N) (hio : GateInsideOrOutside g m) :
    entropyMask ⟨st.rows.map (gateAct g N), st.r⟩ m = entropyMask st m := by
  exact Ei.entropy_gate st N m g h hm hg hio

/-- … hence by any program of such gates -/
theorem C08_entropy_local_program (st : State) (N : Nat) (m : List Bool) (prog : List Gate)
    (h : TabInv st N) (hm : m.length = N) (hg : ∀ g ∈ prog, g.WF N ∧ GateInsideOrOutside g m) :
    entropyMask ⟨st.rows.map (seqAct prog N), st.r⟩ m = entropyMask st m := by
  induction prog generalizing st with
  | nil =>
    have e : st.rows.map (seqAct [] N) = st.rows := by
      have : seqAct [] N = id := funext fun P => Ci.seqAct_nil N P
      rw [this, List.map_id]
    rw [e]
  | cons g gs ih =>
    obtain ⟨hw, hio⟩ := hg g (by simp)
    have e : st.rows.map (seqAct (g :: gs) N) = (st.rows.map (gateAct g N)).map (seqAct gs N) := by
      rw [List.map_map]
      apply List.map_congr_left
      intro P _
      exact Ci.seqAct_cons g gs N P
    rw [e]
    have h' : TabInv ⟨st.rows.map (gateAct g N), st.r⟩ N := C05_gate_inv st N g h hw
    have := ih ⟨st.rows.map (gateAct g N), st.r⟩ h' (fun x hx => hg x (by simp [hx]))
    exact this.trans (C08_entropy_local_gate st N m g h hm hw hio)

end PC
