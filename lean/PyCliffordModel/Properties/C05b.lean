import PyCliffordModel.Proofs.ReachLemmas
/-!
# C05 (second part) — maps, gates, `stabilizer_state`, and every finite history
-/
namespace PC

/-- transformation by a valid Clifford map preserves the tableau invariant -/
theorem C05_transform_inv (st : State) (n : Nat) (M : List Pauli) (h : TabInv st n) (hM : ValidMap M n) :
    TabInv ⟨st.rows.map (transform M), st.r⟩ n :=
  Rc.tabInv_map st n (transform M) h
    (fun P _ => Tr.length_transform M n hM.1 (fun R hR => (hM.2.1 R hR).1) P)
    (fun P Q hP hQ => Tr.transform_acq M n hM P Q hP hQ)
    (fun P hP hp => Tr.transform_hermitian M n hM P hP hp)

/-- … also through any qubit mask (a valid map on the masked qubits) -/
theorem C05_transformMasked_inv (st : State) (n : Nat) (M : List Pauli) (m : List Bool) (h : TabInv st n)
    (hm : m.length = n) (hM : ValidMap M (maskCount m)) :
    TabInv ⟨st.rows.map (transformMasked M m), st.r⟩ n :=
  Rc.tabInv_map st n (transformMasked M m) h
    (fun P hP => by rw [Rc.length_transformMasked]; exact hP)
    (fun P Q hP hQ => Rc.transformMasked_acq M m n hm hM P Q hP hQ)
    (fun P hP hp => Rc.transformMasked_hermitian M m n hm hM P hP hp)

/-- every deterministic gate preserves the invariant -/
theorem C05_gate_inv (st : State) (n : Nat) (g : Gate) (h : TabInv st n) (hg : g.WF n) :
    TabInv ⟨st.rows.map (gateAct g n), st.r⟩ n := by
  obtain ⟨_, hq, hn, hk⟩ := hg
  have hc : maskCount (maskOf g.qubits n) = g.n := Ci.maskCount_maskOf g.qubits n hn hq
  have hl : (maskOf g.qubits n).length = n := Ci.length_maskOf g.qubits n
  rcases hk with ⟨G, hgen, hGl, hGp⟩ | ⟨hgen, M, hM, hV⟩
  · have e : gateAct g n = rotateMasked G (maskOf g.qubits n) := by
      funext P; unfold gateAct; rw [hgen]
    rw [e]
    exact C05_rotateMasked_inv st n G _ h hGp (hc.trans hGl.symm) hl
  · have e : gateAct g n = transformMasked M (maskOf g.qubits n) := by
      funext P; unfold gateAct; rw [hgen, hM]
    rw [e]
    exact C05_transformMasked_inv st n M _ h hl (by rw [hc]; exact hV)

/-- **one step**: every admissible public operation preserves the invariant (measurement: for every coin sequence) -/
theorem C05_step_inv (st st' : State) (n : Nat) (op : StOp) (h : TabInv st n) (hop : op.Ok n)
    (hs : applyOp n st op = some st') : TabInv st' n := by
  cases op with
  | rotate G =>
    simp only [applyOp, Option.some.injEq] at hs
    subst hs
    exact C05_rotate_inv st n G h hop.2 hop.1
  | rotateMasked G m =>
    simp only [applyOp, Option.some.injEq] at hs
    subst hs
    exact C05_rotateMasked_inv st n G m h hop.2.2 hop.2.1 hop.1
  | transform M =>
    simp only [applyOp, Option.some.injEq] at hs
    subst hs
    exact C05_transform_inv st n M h hop
  | transformMasked M m =>
    simp only [applyOp, Option.some.injEq] at hs
    subst hs
    exact C05_transformMasked_inv st n M m h hop.1 hop.2
  | gate g =>
    simp only [applyOp, Option.some.injEq] at hs
    subst hs
    exact C05_gate_inv st n g h hop
  | measure obs coins =>
    simp only [applyOp] at hs
    cases hm : measure st obs coins with
    | error e => rw [hm] at hs; exact absurd hs (by simp)
    | ok res =>
      obtain ⟨st1, outs, k, rest⟩ := res
      rw [hm] at hs
      simp only [Option.some.injEq] at hs
      subst hs
      exact (C05_measure_inv st st1 n obs coins rest outs k h hop hm).1
  | postselect P res =>
    simp only [applyOp] at hs
    cases hm : postselect st P res with
    | error e => rw [hm] at hs; exact absurd hs (by simp)
    | ok r =>
      obtain ⟨st1, t⟩ := r
      rw [hm] at hs
      simp only [Option.some.injEq] at hs
      subst hs
      exact C05_postselect_inv st st1 n P res t h hop.1 hop.2.1 hop.2.2 hm
  | copy =>
    simp only [applyOp, Option.some.injEq] at hs
    subst hs
    exact h

/-- **every reachable state**: any finite history of admissible operations from a state with the invariant (in particular
    from every constructor, `C05_toState_inv`, `C05_oneState_inv`, `C05_stabilizerState_inv`) ends in a state with the invariant -/
theorem C05_reachable_inv (st st' : State) (n : Nat) (ops : List StOp) (h : TabInv st n) (hops : ∀ op ∈ ops, op.Ok n)
    (hs : applyOps n st ops = some st') : TabInv st' n := by
  induction ops generalizing st with
  | nil =>
    simp only [applyOps, Option.some.injEq] at hs
    subst hs
    exact h
  | cons op ops ih =>
    simp only [applyOps] at hs
    cases h1 : applyOp n st op with
    | none => rw [h1] at hs; exact absurd hs (by simp)
    | some st1 =>
      rw [h1] at hs
      exact ih st1 (C05_step_inv st st1 n op h (hops op (by simp)) h1)
        (fun op' ho' => hops op' (by simp [ho'])) hs

/-- `stabilizer_state(list)`: for commuting Hermitian stabilizers of the right size the result (when the constructor succeeds)
    has the invariant -/
theorem C05_stabilizerState_inv (N : Nat) (stabs : List Pauli) (st : State) (hl : ∀ s ∈ stabs, s.g.length = N ∧ s.p % 2 = 0)
    (hs : stabilizerState N stabs = .ok st) : TabInv st N := by
  have hobs : ∀ o ∈ (stabs.map (·.g)).reverse, o.length = N := by
    intro o ho
    rw [List.mem_reverse, List.mem_map] at ho
    obtain ⟨s, hs', rfl⟩ := ho
    exact (hl s hs').1
  have h0 : TabInv (maximallyMixed N) N := C05_toState_inv (idMap N) N N (C05_idMap_valid N) (Nat.le_refl N)
  obtain ⟨hP, _⟩ := Rc.project_inv N _ (maximallyMixed N) h0 (Rc.allHerm_maximallyMixed N) hobs
  have hev : ∀ k, (rowAt stabs k).p % 2 = 0 := Rc.rowAt_p_even stabs (fun s hs' => (hl s hs').2)
  unfold stabilizerState at hs
  simp only at hs
  split at hs
  · exact absurd hs (by simp)
  · split at hs
    · injection hs with hs
      subst hs
      apply Rc.tabInv_mapIdx_phase _ N _ hP
      · intro i R; split <;> rfl
      · intro i R h1 h2
        rw [if_pos (by simp [h1, h2])]
        exact hev _
    · split at hs
      · injection hs with hs
        subst hs
        apply Rc.tabInv_mapIdx_phase _ N _ hP
        · intro i R; split <;> rfl
        · intro i R h1 h2
          rw [if_pos (by simp [h1, h2])]
          exact hev _
      · exact absurd hs (by simp)

end PC
