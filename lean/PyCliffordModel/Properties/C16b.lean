import PyCliffordModel.Proofs.UniformLemmas
/-!
# C16 (uniformity) and C07 (probabilities sum to one)
-/
namespace PC

/-- number of tape bits `random_clifford(n)` consumes when no resampling happens: `4n + 4(n-1) + … + 4` -/
def tapeLen : Nat → Nat
  | 0 => 0
  | n + 1 => 4 * (n + 1) + tapeLen n

/-- **every map the sampler can produce is produced by exactly `2^n` of the accepted tapes**: under a uniform tape the
    sampler is exactly uniform on its image (and by `C16_randomClifford_valid` the image consists of valid symplectic
    matrices; at `N = 1, 2` the image is the whole group: `C16_randomPair_N1_uniform`, `C16_N2_all_720_classes`) -/
theorem C16_randomClifford_multiplicity (n : Nat) (rows : List PStr) :
    ((allBits (tapeLen n)).filter fun t => randomClifford n t == some (rows, [])).length = 0 ∨
    ((allBits (tapeLen n)).filter fun t => randomClifford n t == some (rows, [])).length = 2 ^ n := by
  have e : ∀ m, tapeLen m = Un.tlen m := by
    intro m
    induction m with
    | zero => rfl
    | succ m ih => simp only [tapeLen, Un.tlen, ih]
  rw [e]
  exact Un.mult n rows

/-- value of a dyadic probability -/
def dyVal (t : Dy) : Rat := if t.zero then 0 else 1 / (2 : Rat) ^ t.k

/-- **the bit-string probabilities of a pure state sum to one** -/
theorem C07_getProb_sum_one (st : State) (n : Nat) (h : TabInv st n) (hr : st.r = 0) :
    ((allBits n).map fun b => match getProb st b with | .ok t => dyVal t | .error _ => 0).sum = 1 := by
  have hz : ∀ g ∈ (List.range n).map (unitZ n), g.length = n := by
    intro g hg
    obtain ⟨k, _, rfl⟩ := List.mem_map.1 hg
    exact Tr.length_unitZ n k
  have hs := Un.chain_sum n ((List.range n).map (unitZ n)) st ⟨false, 0⟩ h hr hz
  simp only [List.length_map, List.length_range] at hs
  have hone : Un.dv ⟨false, 0⟩ = 1 := by
    simp only [Un.dv, Bool.false_eq_true, if_false]; grind
  rw [← hone, ← hs]
  congr 1
  apply List.map_congr_left
  intro b hb
  rw [Un.getProb_eq st n b h hr ((St.mem_allBits n b).2 hb)]
  unfold Un.chainVal
  cases projTrace st (Un.obsOf ((List.range n).map (unitZ n)) b) ⟨false, 0⟩ <;> rfl

/-- each reported probability is `0` or `2^-k` with `k ≤ n`, and the query never raises on a pure state -/
theorem C07_getProb_total (st : State) (n : Nat) (b : List Bool) (h : TabInv st n) (hr : st.r = 0) (hb : b.length = n) :
    ∃ t, getProb st b = .ok t ∧ t.k ≤ n := by
  have hz : ∀ g ∈ (List.range n).map (unitZ n), g.length = n := by
    intro g hg
    obtain ⟨k, _, rfl⟩ := List.mem_map.1 hg
    exact Tr.length_unitZ n k
  have ho := Un.obsOf_spec n _ b hz
  obtain ⟨s', t', e⟩ := Un.projTrace_total n _ st ⟨false, 0⟩ h hr ho
  obtain ⟨_, _, _, hk, _⟩ := Pl.projTrace_chain_core n _ st s' ⟨false, 0⟩ t' h hr ho e
  rw [Un.getProb_eq st n b h hr hb, e]
  refine ⟨_, rfl, ?_⟩
  have hl : (Un.obsOf ((List.range n).map (unitZ n)) b).length = n := by simp [Un.obsOf, hb]
  simp only [hl] at hk
  simpa using hk

end PC
