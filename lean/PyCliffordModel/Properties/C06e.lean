import PyCliffordModel.Properties.C12d
import PyCliffordModel.Proofs.ProjectionLemmas
/-!
# C06 / C07 — measurement is the projection postulate for the operator the state denotes

`C06.lean` proves the group-level description of a measurement (new stabilizer, commuting stabilizers kept, rank rule).
Here the same facts are stated for the density matrix `ρ = density_matrix` itself, as identities between coefficient
functions of Pauli polynomials formed with the library's own product `@` (`polyMatmul`):
with `P± = (1 ± O)/2` the projector onto the reported outcome, `P ρ P = p · ρ'` where `ρ'` is the density matrix of the
state after the measurement and `p` is `1/2` for a random outcome and `1` for a determined one (so `ρ' = P ρ P / Tr(P ρ P)`,
the projection postulate, and `p = Tr(P ρ)` is the Born probability); for a determined outcome the other projector
annihilates the state. Finally the expectation value of any polynomial is `Tr(ρ a)`.
-/
namespace PC

/-- the projector `(1 + (−1)^out · O)/2` onto the outcome `out ∈ {0, 1}` of a Hermitian Pauli observable, as a polynomial -/
def projPoly (O : Pauli) (out : Int) : Poly :=
  [(⟨idStr O.g.length, 0⟩, ⟨1 / 2, 0⟩), (O, if out = 0 then ⟨1 / 2, 0⟩ else ⟨-(1 / 2), 0⟩)]

/-- probability of the reported outcome: `1/2` if it was random, `1` if it was determined -/
def outcomeProb (rnd : Bool) : Cx := if rnd then ⟨1 / 2, 0⟩ else ⟨1, 0⟩

/-- **projection postulate**: `P ρ P = p · ρ'` for the reported outcome -/
theorem C06_measure_is_projection (st st' : State) (n : Nat) (O : Pauli) (coin : Bool) (out : Int) (rnd : Bool)
    (h : TabInv st n) (ho : O.g.length = n) (hp : O.p % 2 = 0)
    (hm : measure1 st O coin = .ok (st', out, rnd)) (g : PStr) :
    coef (polyMatmul (polyMatmul (projPoly O out) (densityPoly st)) (projPoly O out)) g
      = (outcomeProb rnd).mul (coef (densityPoly st') g) :=
  Pj.measure_projection st st' n O coin out rnd h ho hp hm g

/-- **Born rule**: the probability of the reported outcome is `Tr(P ρ) = 2^N · coef(P ρ)(identity)` -/
theorem C06_outcome_probability (st st' : State) (n : Nat) (O : Pauli) (coin : Bool) (out : Int) (rnd : Bool)
    (h : TabInv st n) (ho : O.g.length = n) (hp : O.p % 2 = 0)
    (hm : measure1 st O coin = .ok (st', out, rnd)) :
    (⟨(2 : Rat) ^ n, 0⟩ : Cx).mul (coef (polyMatmul (projPoly O out) (densityPoly st)) (idStr n)) = outcomeProb rnd :=
  Pj.measure_probability st st' n O coin out rnd h ho hp hm

/-- a determined outcome is certain: the projector onto the other outcome annihilates the state -/
theorem C06_other_outcome_impossible (st st' : State) (n : Nat) (O : Pauli) (coin : Bool) (out : Int)
    (h : TabInv st n) (ho : O.g.length = n) (hp : O.p % 2 = 0)
    (hm : measure1 st O coin = .ok (st', out, false)) (g : PStr) :
    coef (polyMatmul (polyMatmul (projPoly O (1 - out)) (densityPoly st)) (projPoly O (1 - out))) g = Cx.zero :=
  Pj.measure_other_impossible st st' n O coin out h ho hp hm g

/-- a random outcome follows the coin, and both outcomes have probability one half: the state after the other coin is the
    projection onto the other outcome -/
theorem C06_random_outcome_both (st st' : State) (n : Nat) (O : Pauli) (coin : Bool) (out : Int)
    (h : TabInv st n) (ho : O.g.length = n) (hp : O.p % 2 = 0)
    (hm : measure1 st O coin = .ok (st', out, true)) :
    ∃ st'', measure1 st O (!coin) = .ok (st'', 1 - out, true) ∧ (out = 0 ∨ out = 1) :=
  Pj.measure1_other_coin st st' n O coin out h ho hp hm

/-- **`expect` of a polynomial is `Tr(ρ a)`**: the coefficient-weighted sum, imaginary phases of the terms included -/
theorem C07_expectPoly_is_trace (st : State) (n : Nat) (a : Poly) (h : TabInv st n) (ha : ∀ t ∈ a, t.1.g.length = n) :
    (⟨(2 : Rat) ^ n, 0⟩ : Cx).mul (coef (polyMatmul (densityPoly st) a) (idStr n)) = expectPoly st a :=
  Pj.expectPoly_is_trace st n a h ha

end PC
