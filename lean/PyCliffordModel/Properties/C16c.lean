import PyCliffordModel.Properties.C18b
import PyCliffordModel.Properties.C05b
import PyCliffordModel.Proofs.RccLemmas
/-!
# C16 (random-circuit constructors) — brick-wall, on-site and global random circuits produce valid states and resample

`brickwall_rcc`, `onsite_rcc`, `global_rcc` build circuits of gates without generator or map; such a gate draws a fresh
random Clifford map at every call (the model takes the maps from an explicit supply). Whatever valid maps are drawn, the
state produced is valid; one map is consumed per gate and per call, and nothing is cached in the circuit.
-/
namespace PC

/-- a gate without generator and without maps: it draws a random Clifford map at every call -/
def Gate.isRandom (g : Gate) : Prop := g.gen = none ∧ g.fmap = none ∧ g.bmap = none

/-- a circuit of `m`-qubit random gates on `N` qubits, not compiled -/
def RandomCirc (c : Circ) (N m : Nat) : Prop :=
  c.N = N ∧ c.unitary = true ∧ c.fmap = none ∧ c.bmap = none ∧ (∀ L ∈ c.layers, ∃ gs, L = .gates gs none none) ∧
  ∀ g ∈ c.allGates, g.isRandom ∧ g.qubits.length = m ∧ g.qubits ≠ [] ∧ (∀ q ∈ g.qubits, q < N) ∧ g.qubits.Nodup

/-- `rccOf` on non-empty, duplicate-free, in-range qubit lists of length `m`: a random circuit with one gate per list -/
theorem Rcc.rccOf_random (N m : Nat) (qss : List (List Nat))
    (hq : ∀ qs ∈ qss, qs.length = m ∧ qs ≠ [] ∧ (∀ q ∈ qs, q < N) ∧ qs.Nodup) :
    ∃ c, rccOf N qss = .ok c ∧ RandomCirc c N m ∧ c.allGates.length = qss.length := by
  obtain ⟨c, hc, ⟨hN, hu, hf, hb, _, hR⟩, hlen, hmem⟩ :=
    Rcc.rccOf_spec N qss (fun qs h => ⟨(hq qs h).2.1, (hq qs h).2.2.1⟩)
  refine ⟨c, hc, ⟨hN, hu, hf, hb, hR, ?_⟩, hlen⟩
  intro g hg
  obtain ⟨qs, hqs, rfl⟩ := hmem g hg
  obtain ⟨h1, h2, h3, h4⟩ := hq qs hqs
  exact ⟨⟨rfl, rfl, rfl⟩, h1, h2, h3, h4⟩

theorem Rcc.random_shape (c : Circ) (N m : Nat) (hc : RandomCirc c N m) (hn : c.layers ≠ []) :
    Rcc.Shape N c ∧ ∀ g ∈ Ci.flatGates c.layers, Rcc.RG N m g := by
  obtain ⟨hN, hu, hf, hb, hR, hg⟩ := hc
  refine ⟨⟨hN, hu, hf, hb, hn, hR⟩, ?_⟩
  intro g hx
  rw [← Rcc.allGates_eq] at hx
  obtain ⟨⟨h1, h2, h3⟩, h4, h5, h6, h7⟩ := hg g hx
  exact ⟨h1, h2, h3, h4, h5, h6, h7⟩

/-- **the constructors**: `brickwall_rcc(N, depth)` (even `N`) is a circuit of `depth * N/2` two-qubit random gates,
    `onsite_rcc(N)` of `N` one-qubit random gates, `global_rcc(N)` (`N ≥ 1`) of one `N`-qubit random gate; an odd `N` is
    rejected by the assertion of `brickwall_rcc` -/
theorem C16_rcc_constructors (N depth : Nat) :
    (N % 2 = 0 → ∃ c, brickwallRcc N depth = .ok c ∧ RandomCirc c N 2 ∧ c.allGates.length = depth * (N / 2)) ∧
    (N % 2 = 1 → brickwallRcc N depth = .error .assertion) ∧
    (∃ c, onsiteRcc N = .ok c ∧ RandomCirc c N 1 ∧ c.allGates.length = N) ∧
    (1 ≤ N → ∃ c, globalRcc N = .ok c ∧ RandomCirc c N N ∧ c.allGates.length = 1) := by
  refine ⟨?_, ?_, ?_, ?_⟩
  · intro hN
    have e : brickwallRcc N depth = rccOf N (brickwallPairs N depth) := by
      unfold brickwallRcc
      rw [if_neg (by omega)]
    obtain ⟨c, hc, hR, hl⟩ := Rcc.rccOf_random N 2 (brickwallPairs N depth) (by
      intro qs hqs
      obtain ⟨i, hi, rfl⟩ := Rcc.mem_brickwallPairs N depth qs hqs
      obtain ⟨h1, h2, h3⟩ := Rcc.pair_props N i hN hi
      exact ⟨rfl, h1, h2, h3⟩)
    exact ⟨c, e.trans hc, hR, by rw [hl, Rcc.length_brickwallPairs N hN depth]⟩
  · intro hN
    unfold brickwallRcc
    rw [if_pos (by omega)]
  · obtain ⟨c, hc, hR, hl⟩ := Rcc.rccOf_random N 1 ((List.range N).map fun i => [i]) (by
      intro qs hqs
      obtain ⟨i, hi, rfl⟩ := List.mem_map.1 hqs
      have hi := List.mem_range.1 hi
      refine ⟨rfl, by simp, ?_, by simp⟩
      intro q hq'
      simp only [List.mem_singleton] at hq'
      subst hq'
      exact hi)
    exact ⟨c, hc, hR, by rw [hl]; simp⟩
  · intro hN
    obtain ⟨c, hc, hR, hl⟩ := Rcc.rccOf_random N N [List.range N] (by
      intro qs hqs
      simp only [List.mem_singleton] at hqs
      subst hqs
      refine ⟨List.length_range, ?_, fun q hq' => List.mem_range.1 hq', List.nodup_range⟩
      intro he
      have := congrArg List.length he
      simp at this
      omega)
    exact ⟨c, hc, hR, by rw [hl]; rfl⟩

/-- **every state produced by a random circuit is valid, and gates are resampled at every call**: running a circuit of
    random gates forward (or backward) on a valid state, with any supply of valid maps of the gates' size, succeeds when
    the supply has one map per gate, leaves a valid state of the same rank, consumes exactly one map per gate, leaves the
    coins alone and returns the circuit unchanged (nothing is cached: the next call draws again) -/
theorem C16_random_circuit_valid (N m : Nat) (c : Circ) (st : State) (coins : List Bool) (rnd : List CMap)
    (hc : RandomCirc c N m) (hr : ∀ M ∈ rnd, ValidMap M m) (hn : c.allGates.length ≤ rnd.length) (h : TabInv st N) :
    (∃ x', c.forward ⟨⟨st.rows, st.r, true⟩, coins, rnd⟩ = .ok (c, x') ∧ TabInv ⟨x'.obj.rows, x'.obj.r⟩ N ∧
       x'.obj.r = st.r ∧ x'.rnd = rnd.drop c.allGates.length ∧ x'.coins = coins) ∧
    (∃ x', c.backward ⟨⟨st.rows, st.r, true⟩, coins, rnd⟩ none = .ok (c, x') ∧ TabInv ⟨x'.obj.rows, x'.obj.r⟩ N ∧
       x'.obj.r = st.r ∧ x'.rnd = rnd.drop c.allGates.length ∧ x'.coins = coins) := by
  by_cases hnil : c.layers = []
  · -- no layers at all: nothing happens
    obtain ⟨N', layers, fmap, bmap, results, nrand, unitary, numMeas⟩ := c
    obtain ⟨hN, hu, hf, hb, _, _⟩ := hc
    simp only at hN hu hf hb hnil
    subst hN hu hf hb hnil
    refine ⟨⟨⟨⟨st.rows, st.r, true⟩, coins, rnd⟩, rfl, h, rfl, rfl, rfl⟩,
      ⟨⟨⟨st.rows, st.r, true⟩, coins, rnd⟩, rfl, h, rfl, rfl, rfl⟩⟩
  · obtain ⟨hS, hg⟩ := Rcc.random_shape c N m hc hnil
    rw [Rcc.allGates_eq] at hn ⊢
    obtain ⟨rows1, e1, h1⟩ := Rcc.circ_forward_run N m c st.rows st.r true coins rnd hS hg hr hn h
    obtain ⟨rows2, e2, h2⟩ := Rcc.circ_backward_run N m c st.rows st.r true coins rnd hS hg hr hn h
    exact ⟨⟨_, e1, h1, rfl, rfl, rfl⟩, ⟨_, e2, h2, rfl, rfl, rfl⟩⟩

/-- with too few maps in the supply the run stops with the supply error (the model's stand-in for "the RNG is asked again") -/
theorem C16_random_circuit_needs_maps (N m : Nat) (c : Circ) (st : State) (coins : List Bool) (rnd : List CMap)
    (hc : RandomCirc c N m) (hr : ∀ M ∈ rnd, ValidMap M m) (hn : rnd.length < c.allGates.length) (h : TabInv st N) :
    c.forward ⟨⟨st.rows, st.r, true⟩, coins, rnd⟩ = .error .coin := by
  have hnil : c.layers ≠ [] := by
    intro he
    unfold Circ.allGates at hn
    rw [he] at hn
    simp at hn
  obtain ⟨hS, hg⟩ := Rcc.random_shape c N m hc hnil
  rw [Rcc.allGates_eq] at hn
  exact Rcc.circ_forward_short N m c st.rows st.r true coins rnd hS hg hr hn h

end PC
