import PyCliffordModel.Proofs.Z2Inv
/-!
# C04 (part) — `z2inv` really inverts over GF(2), and raises only on singular matrices
-/
namespace PC

/-- the matrix returned by `z2inv` is a left inverse: `B·A = 1` (and it is square) -/
theorem C04_z2inv_left (A B : BMat) (n : Nat) (hA : IsSquare A n) (h : z2inv A = some B) :
    IsSquare B n ∧ bmul B A n = bident n :=
  Z2.z2inv_left A B n hA h

/-- … and a right inverse: `A·B = 1` -/
theorem C04_z2inv_right (A B : BMat) (n : Nat) (hA : IsSquare A n) (h : z2inv A = some B) :
    bmul A B n = bident n :=
  Z2.z2inv_right A B n hA h

/-- `z2inv` raises (`none`) only when no left inverse exists: it is total on invertible matrices -/
theorem C04_z2inv_complete (A : BMat) (n : Nat) (hA : IsSquare A n) (h : z2inv A = none) :
    ¬ ∃ B, IsSquare B n ∧ bmul B A n = bident n :=
  Z2.z2inv_complete A n hA h

end PC
