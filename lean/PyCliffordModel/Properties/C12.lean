import PyCliffordModel.Proofs.StateLemmas
/-!
# C12 — state–map duality and state constructors;  C19 (part) — sampling and the density-matrix expansion
-/
namespace PC

/-- converting a map to a state and back gives the same map (strings and phases) -/
theorem C12_map_state_map (M : List Pauli) (n : Nat) (h : M.length = 2 * n) : stateToMap (mapToState M) = M :=
  St.stateToMap_mapToState M n h

/-- converting a tableau to a map and back gives the same tableau -/
theorem C12_state_map_state (T : List Pauli) (n : Nat) (h : T.length = 2 * n) : mapToState (stateToMap T) = T :=
  St.mapToState_stateToMap T n h

/-- **the state of a map is the image of `|0…0⟩`, signs included**: stabilizer `k` is the image of `Z_k`,
    destabilizer `k` the image of `X_k` -/
theorem C12_toState_image_of_zero (M : List Pauli) (n r k : Nat) (hM : ValidMap M n) (hk : k < n) :
    PEq (rowAt (toState M r).rows k) (transform M ⟨unitZ n k, 0⟩) ∧
    PEq (rowAt (toState M r).rows (n + k)) (transform M ⟨unitX n k, 0⟩) ∧ (toState M r).r = r := by
  have hn : M.length / 2 = n := by rw [hM.1]; omega
  have hX := Tr.transform_unitX M n k hM.1 hk (hM.2.1 _ (Tr.rowAt_mem M _ (by rw [hM.1]; omega))).1
  have hZ := Tr.transform_unitZ M n k hM.1 hk (hM.2.1 _ (Tr.rowAt_mem M _ (by rw [hM.1]; omega))).1
  refine ⟨?_, ?_, rfl⟩
  · show PEq (rowAt (mapToState M) k) _
    rw [St.rowAt_mapToState_lo M k (by omega)]
    exact hZ.symm
  · show PEq (rowAt (mapToState M) (n + k)) _
    have := St.rowAt_mapToState_hi M k (by omega)
    rw [hn] at this
    rw [this]
    exact hX.symm

/-- `zero_state`: stabilizers `+Z_k`, destabilizers `X_k`, pure -/
theorem C12_zeroState (n k : Nat) (hk : k < n) :
    rowAt (zeroState n).rows k = ⟨unitZ n k, 0⟩ ∧ rowAt (zeroState n).rows (n + k) = ⟨unitX n k, 0⟩ ∧
    (zeroState n).r = 0 ∧ (zeroState n).rows.length = 2 * n :=
  ⟨St.rowAt_zeroState_lo n k hk, St.rowAt_zeroState_hi n k hk, rfl, St.length_zeroState_rows n⟩

/-- `one_state`: stabilizers `−Z_k` -/
theorem C12_oneState (n k : Nat) (hk : k < n) :
    rowAt (oneState n).rows k = ⟨unitZ n k, 2⟩ ∧ (oneState n).r = 0 := by
  refine ⟨?_, rfl⟩
  show rowAt ((zeroState n).rows.map fun R => ⟨R.g, 2⟩) k = _
  rw [Tr.rowAt_map _ _ _ (by rw [St.length_zeroState_rows]; omega), St.rowAt_zeroState_lo n k hk]

/-- `maximally_mixed_state`: no active stabilizer, rank `2^n` -/
theorem C12_maximallyMixed (n : Nat) : (maximallyMixed n).r = n ∧ (maximallyMixed n).active = [] := by
  refine ⟨rfl, ?_⟩
  have hl : (maximallyMixed n).rows.length = 2 * n := St.length_zeroState_rows n
  have hr : (maximallyMixed n).r = n := rfl
  unfold State.active State.N
  rw [hl, hr]
  apply List.drop_eq_nil_of_le
  rw [List.length_take]; omega

/-- two anticommuting stabilizers are rejected with `ValueError` -/
theorem C12_stabilizerState_rejects (N : Nat) (stabs : List Pauli) (i j : Nat) (hi : i < stabs.length) (hj : j < stabs.length)
    (h : acq (rowAt stabs i).g (rowAt stabs j).g = 1) : stabilizerState N stabs = .error .value := by
  have hany : ((acqMat (stabs.map (·.g))).any fun row => row.any (· != 0)) = true := by
    apply St.acqMat_any (stabs.map (·.g)) i j (by simpa using hi) (by simpa using hj)
    rw [Tr.rowAt_of_lt stabs i hi, Tr.rowAt_of_lt stabs j hj] at h
    simpa using h
  unfold stabilizerState
  simp only [hany, if_true]

/-! ## C19: sampling and the expansion of the density matrix -/

/-- every sampled operator is a product of active stabilizers with its exact sign: an element of the stabilizer group -/
theorem C19_sample_in_group (st : State) (C : List (List Bool)) (hC : ∀ c ∈ C, c.length = st.active.length) :
    ∀ P ∈ sample st C, InGroup st P := by
  intro P hP
  unfold sample combineRows at hP
  obtain ⟨c, hc, rfl⟩ := List.mem_map.1 hP
  exact ⟨c, hC c hc, PEq.refl _⟩

/-- the selector matrix of `density_matrix` lists every bit string of width `w` exactly once (including `w = 0`) -/
theorem C19_allBits (w : Nat) :
    (allBits w).length = 2 ^ w ∧ (allBits w).Nodup ∧ ∀ c : List Bool, c.length = w ↔ c ∈ allBits w :=
  ⟨St.length_allBits w, St.nodup_allBits w, St.mem_allBits w⟩

/-- under the tableau invariant the active stabilizers are independent: different selectors give different group
    elements (so a uniform selector is a uniform group element, and the expansion lists each element once) -/
theorem C19_combine_injective (st : State) (n : Nat) (h : TabInv st n) (c d : List Bool)
    (hc : c.length = n - st.r) (hd : d.length = n - st.r)
    (he : (combine st.N c st.active).g = (combine st.N d st.active).g) : c = d :=
  St.combine_injective st n h c d hc hd he

/-- `−1` is never a stabilizer: a product of active stabilizers with the identity string has the empty selector's sign -/
theorem C19_no_minus_one (st : State) (n : Nat) (h : TabInv st n) (c : List Bool) (hc : c.length = n - st.r)
    (he : (combine st.N c st.active).g = idStr n) : (combine st.N c st.active).p % 4 = 0 := by
  have h0 := St.combine_all_false st.N (n - st.r) st.active
  have hc0 : c = List.replicate (n - st.r) false := by
    apply St.combine_injective st n h c _ hc (by simp)
    rw [he, h0, St.tabInv_N st n h]
  rw [hc0, h0]; rfl

end PC
