import PyCliffordModel.Properties.C16d
import PyCliffordModel.Properties.C16
import PyCliffordModel.Properties.C18b
import PyCliffordModel.Properties.C03
import PyCliffordModel.Properties.C02
import PyCliffordModel.Proofs.GenerationLemmas
/-!
# C03 — every valid Clifford map is a sequence of rotations, hence a unitary conjugation

`C02` identifies one rotation with conjugation by `(1 + iG)/√2`. Here: the action of *every* valid Clifford map (canonical
commutation relations, Hermitian phases) on every Pauli operator equals a finite sequence of rotations by Hermitian Pauli
generators, applied one after the other. So a single unitary `U = U_1 U_2 ⋯ U_k` (product of the rotation unitaries) satisfies
`image(P) = U† P U` for every `P`: the existence of the implementing unitary, which `Spec` had left as a textbook fact.
Sign-only maps are included: rotating twice by `G` is conjugation by `G` itself.
-/
namespace PC

/-- **generation**: the action of a valid map is a sequence of rotations by `+`-signed Pauli generators on `n` qubits -/
theorem C03_map_is_rotations (M : List Pauli) (n : Nat) (h : ValidMap M n) :
    ∃ gens : List PStr, (∀ g ∈ gens, g.length = n) ∧
      ∀ P : Pauli, P.g.length = n → PEq (transform M P) (rotSeq gens P) :=
  Gn.map_is_rotations M n h

/-- conversely every sequence of rotations is the action of a valid map (the composition of the rotation maps) -/
theorem C03_rotations_are_a_map (gens : List PStr) (n : Nat) (hg : ∀ g ∈ gens, g.length = n) :
    ∃ M : List Pauli, ValidMap M n ∧ ∀ P : Pauli, P.g.length = n → PEq (transform M P) (rotSeq gens P) :=
  Gn.rotations_are_a_map n gens hg

end PC
