import PyCliffordModel.Proofs.Algebra
/-!
# C01 — Pauli multiplication is exact (strings, phases, commutation)

All statements are for every qubit number, every string and every (unreduced) integer phase.
`act` (Spec/Ket) is the matrix meaning; `mul`, `acq`, `ipow` (Model/Basic) mirror the code.
-/
namespace PC

/-- grounding of the semantics: the one-qubit action is the textbook matrix of `I, X, Y, Z` -/
theorem C01_actQ_is_textbook_matrix (q : Q) (r c : Bool) : actMat q r c = pauliMat q r c := by
  obtain ⟨x, z⟩ := q
  cases x <;> cases z <;> cases r <;> cases c <;> decide

/-- **the product returned denotes exactly the matrix product**: acting with `mul P Q` is acting with `Q`, then `P` -/
theorem C01_mul_sound (P Q : Pauli) (k : Int × Ket)
    (hP : P.g.length = k.2.length) (hQ : Q.g.length = k.2.length) :
    act (mul P Q) k = act P (act Q k) := by
  exact act_mul P Q k hP hQ

/-- operators with the same action on all kets are the same string and the same phase mod 4
    (so `mul P Q` is *the* operator denoting the matrix product) -/
theorem C01_act_injective (P Q : Pauli) (hl : P.g.length = Q.g.length)
    (h : ∀ k : Int × Ket, k.2.length = P.g.length → act P k = act Q k) : PEq P Q := by
  exact act_inj P Q hl h

/-- the anticommutation indicator is a bit -/
theorem C01_acq_bit (g h : PStr) : acq g h = 0 ∨ acq g h = 1 := by
  exact acq_bit g h

/-- **`acq = 1` exactly when the matrices anticommute, `0` exactly when they commute**:
    `P·Q = (-1)^{acq} Q·P` as operators -/
theorem C01_acq_sound (P Q : Pauli) (hl : P.g.length = Q.g.length) :
    (mul P Q).g = (mul Q P).g ∧ (mul P Q).p = ((mul Q P).p + 2 * acq P.g Q.g) % 4 := by
  have _ := hl  -- the commutation law holds for any lengths (both sides truncate alike)
  exact mul_comm_acq P Q

/-- `acq = 1 ↔` the two actions anticommute on every ket (and a product is never both) -/
theorem C01_acq_iff_anticommute (P Q : Pauli) (k : Int × Ket)
    (hP : P.g.length = k.2.length) (hQ : Q.g.length = k.2.length) :
    (acq P.g Q.g = 1 → act P (act Q k) = act (neg Q) (act P k)) ∧
    (acq P.g Q.g = 0 → act P (act Q k) = act Q (act P k)) ∧
    act Q (act P k) ≠ act (neg Q) (act P k) := by
  have hPQ := act_mul P Q k hP hQ
  have hQP := act_mul Q P k hQ hP
  have hc := mul_comm_acq P Q
  have hneg := act_neg Q (act P k)
  have hr := mul_p_range Q P
  have key : ∀ e : Int, (mul P Q).p = ((mul Q P).p + e) % 4 →
      act (mul P Q) k = (((act (mul Q P) k).1 + e) % 4, (act (mul Q P) k).2) := by
    intro e he
    simp only [act, hc.1, he]
    congr 1
    omega
  refine ⟨?_, ?_, ?_⟩
  · intro h1
    rw [hneg, ← hQP, ← hPQ]
    exact key 2 (by have := hc.2; omega)
  · intro h0
    rw [← hQP, ← hPQ]
    have := key 0 (by have := hc.2; omega)
    rw [this]
    have hrange : 0 ≤ (act (mul Q P) k).1 ∧ (act (mul Q P) k).1 < 4 := by
      simp only [act]; omega
    apply Prod.ext
    · simp only; omega
    · rfl
  · exact act_neg_ne Q (act P k)

/-- products are associative (exactly: both sides carry the reduced phase) -/
theorem C01_mul_assoc (P Q R : Pauli) (h1 : P.g.length = Q.g.length) (h2 : Q.g.length = R.g.length) :
    mul (mul P Q) R = mul P (mul Q R) := by
  exact mul_assoc P Q R h1 h2

/-- every Pauli operator squares to plus or minus the identity: `P·P = i^{2p}·1` -/
theorem C01_mul_self (P : Pauli) : mul P P = ⟨idStr P.g.length, (2 * P.p) % 4⟩ := by
  exact mul_self P

/-- the identity is neutral (up to the reduction of the phase) -/
theorem C01_mul_one (P : Pauli) : mul P ⟨idStr P.g.length, 0⟩ = ⟨P.g, P.p % 4⟩ ∧
    mul ⟨idStr P.g.length, 0⟩ P = ⟨P.g, P.p % 4⟩ := by
  exact ⟨mul_one_right P, mul_one_left P⟩

/-- **phases never drift**: the left fold of `mul` over any list of factors acts as the composition of
    the factors' actions, whatever the length of the chain -/
theorem C01_chain_sound (P : Pauli) (Ps : List Pauli) (k : Int × Ket)
    (hP : P.g.length = k.2.length) (hPs : ∀ R ∈ Ps, R.g.length = k.2.length) :
    act (Ps.foldl mul P) k = act P (Ps.foldr (fun R x => act R x) k) := by
  exact act_foldl_mul P Ps k hP hPs

/-- `batch_dot`: entry `j1*L2 + j2` of the polynomial product is the product of term `j1` and term `j2` -/
theorem C01_batchDot_spec {C : Type} (cmul : C → C → C) (a b : List (Pauli × C)) (j1 j2 : Nat)
    (h1 : j1 < a.length) (h2 : j2 < b.length) :
    (batchDot cmul a b)[j1 * b.length + j2]? = some (mul a[j1].1 b[j2].1, cmul a[j1].2 b[j2].2) := by
  exact batchDot_getElem? cmul a b j1 j2 h1 h2

end PC
