import PyCliffordModel.Model.Diag
/-!
# C16 (finite, thorough tier only) — at `N = 2` the sampler reaches all 720 symplectic matrices

Kernel-checked enumeration over all `2^12` tapes of the length consumed without resampling: 2880 of them are accepted
(no identity first string at either level) and they produce exactly 720 different maps `= |Sp(4,2)|`. Together with the
general multiplicity theorem (every produced map comes from the same number of tapes) this is exact uniformity on the
two-qubit Clifford group modulo signs. FINITE statement; takes about 8 minutes in the kernel, so it is built and audited
in the thorough tier only.
-/
namespace PC

def outsN2 : List (List PStr) :=
  (allBits 12).filterMap fun t => match randomClifford 2 t with | some (rows, []) => some rows | _ => none

theorem C16_N2_accepted_tapes : outsN2.length = 2880 := by decide +kernel

theorem C16_N2_all_720_classes : (outsN2.eraseDups).length = 720 := by decide +kernel

end PC
