import PyCliffordModel.Properties.C12b
import PyCliffordModel.Proofs.IndepLemmas
/-!
# C12 (continued) — `stabilizer_state` on independent commuting lists; dependent lists are rejected; `ghz_state`

Independence is stated on the Pauli strings: no non-empty selection of the stabilizers multiplies to the identity string.
-/
namespace PC

/-- the strings of `stabs` are linearly independent over GF(2): a product of a selection is the identity string only for
    the empty selection -/
def IndepStabs (N : Nat) (stabs : List Pauli) : Prop :=
  ∀ c : List Bool, c.length = stabs.length → (combine N c stabs).g = idStr N → ∀ b ∈ c, b = false

/-- **independent commuting Hermitian stabilizers are always accepted**: the result has rank `N − L`, satisfies the tableau
    invariant, and its active stabilizers are exactly the input list, in order, with signs -/
theorem C12_stabilizerState_independent (N : Nat) (stabs : List Pauli)
    (hl : ∀ s ∈ stabs, s.g.length = N ∧ s.p % 2 = 0)
    (hc : ∀ s ∈ stabs, ∀ t ∈ stabs, acq s.g t.g = 0) (hi : IndepStabs N stabs) :
    ∃ st, stabilizerState N stabs = .ok st ∧ st.r + stabs.length = N ∧ TabInv st N ∧ st.active = stabs := by
  obtain ⟨st, hs, hr⟩ := In.stabilizerState_independent N stabs hl hc hi
  obtain ⟨hT, hact⟩ := C12_stabilizerState_spec N stabs st hl hs hr
  exact ⟨st, hs, hr, hT, hact⟩

/-- **dependent lists (of two or more commuting stabilizers) are rejected with `ValueError`** -/
theorem C12_stabilizerState_rejects_dependent (N : Nat) (stabs : List Pauli)
    (hl : ∀ s ∈ stabs, s.g.length = N ∧ s.p % 2 = 0)
    (hc : ∀ s ∈ stabs, ∀ t ∈ stabs, acq s.g t.g = 0) (h2 : 2 ≤ stabs.length) (hd : ¬ IndepStabs N stabs) :
    stabilizerState N stabs = .error .value := by
  exact In.stabilizerState_dependent N stabs hl hc h2 hd

/-- the GHZ generators `Z_k Z_{k+1}` (k < N−1) and `X…X` commute and are independent -/
theorem C12_ghzStabs_ok (N : Nat) (hN : 1 ≤ N) :
    (ghzStabs N).length = N ∧ (∀ s ∈ ghzStabs N, s.g.length = N ∧ s.p % 2 = 0) ∧
    (∀ s ∈ ghzStabs N, ∀ t ∈ ghzStabs N, acq s.g t.g = 0) ∧ IndepStabs N (ghzStabs N) := by
  exact In.ghz_ok N hN

/-- **`ghz_state(N)`** is the pure state stabilized by `Z_k Z_{k+1}` and `X…X` (all with sign `+`) -/
theorem C12_ghz_spec (N : Nat) (hN : 1 ≤ N) :
    ∃ st, ghzState N = .ok st ∧ st.r = 0 ∧ TabInv st N ∧ st.active = ghzStabs N := by
  obtain ⟨h1, h2, h3, h4⟩ := C12_ghzStabs_ok N hN
  obtain ⟨st, hs, hr, hT, hact⟩ := C12_stabilizerState_independent N (ghzStabs N) h2 h3 h4
  refine ⟨st, hs, ?_, hT, hact⟩
  rw [h1] at hr
  omega

end PC
