import PyCliffordModel.Spec.Reduced
import PyCliffordModel.Properties.C12d
import PyCliffordModel.Properties.C08c
import PyCliffordModel.Proofs.ReducedLemmas
/-!
# C08 — the number returned by `entropy` is the von Neumann entropy of the reduced density matrix

For a state satisfying the tableau invariant, `ρ = density_matrix`, a region mask `m` and `ρ_R = Tr_{R^c} ρ` (`ptrace`):
`ρ_R` is Hermitian, has trace one, and `ρ_R · ρ_R = 2^{-S} ρ_R` where `S = entropy(mask)` is the number the library returns
(pure and mixed branch alike). Hence `2^S ρ_R` is a Hermitian projector of trace `2^S`: `ρ_R` has `2^S` eigenvalues `2^{-S}` and
the rest zero, i.e. its von Neumann entropy is exactly `S` bits (the last step is the textbook spectrum of a projector).
Products are the library's `@` (`polyMatmul`); statements are about coefficient functions.
-/
namespace PC

/-- number of qubits in the region -/
abbrev regionSize (m : List Bool) : Nat := maskCount m

/-- the entropy the library returns is between `0` and the size of the region -/
theorem C08_entropy_range (st : State) (n : Nat) (m : List Bool) (h : TabInv st n) (hm : m.length = n) (hne : m ≠ []) :
    0 ≤ entropyMask st m ∧ entropyMask st m ≤ (regionSize m : Int) :=
  have hf := Rd.entropy_facts st n m h hm hne
  ⟨hf.1, hf.2.1⟩

/-- **trace one**: the identity coefficient of the reduced density matrix is `2^{-|R|}` -/
theorem C08_reduced_trace_one (st : State) (n : Nat) (m : List Bool) (h : TabInv st n) (hm : m.length = n) :
    coef (ptrace (densityPoly st) m) (idStr (regionSize m)) = ⟨1 / (2 : Rat) ^ regionSize m, 0⟩ :=
  Rd.reduced_trace_one st n m h hm

/-- **Hermitian**: every coefficient of the reduced density matrix is real -/
theorem C08_reduced_hermitian (st : State) (n : Nat) (m : List Bool) (g : PStr) (h : TabInv st n) (hm : m.length = n) :
    (coef (ptrace (densityPoly st) m) g).im = 0 :=
  Rd.reduced_hermitian st n m g h hm

/-- **flat spectrum**: `ρ_R · ρ_R = 2^{-S} · ρ_R` with `S = entropy(mask)` -/
theorem C08_reduced_flat_spectrum (st : State) (n : Nat) (m : List Bool) (g : PStr) (h : TabInv st n) (hm : m.length = n)
    (hne : m ≠ []) :
    coef (polyMatmul (ptrace (densityPoly st) m) (ptrace (densityPoly st) m)) g
      = (⟨1 / (2 : Rat) ^ (entropyMask st m).toNat, 0⟩ : Cx).mul (coef (ptrace (densityPoly st) m) g) :=
  Rd.reduced_flat st n m g h hm hne

/-- the reduced density matrix depends only on the stabilizer group (not on the generators chosen), hence so does the entropy:
    two states with the same group have the same reduced coefficients -/
theorem C08_reduced_group_only (st1 st2 : State) (n : Nat) (m : List Bool) (g : PStr) (h1 : TabInv st1 n) (h2 : TabInv st2 n)
    (hm : m.length = n) (hG : ∀ P, InGroup st1 P ↔ InGroup st2 P) :
    coef (ptrace (densityPoly st1) m) g = coef (ptrace (densityPoly st2) m) g :=
  Rd.reduced_group_only st1 st2 n m g h1 h2 hm hG

end PC
