import PyCliffordModel.Model.Index
import PyCliffordModel.Proofs.IndexLemmas
/-!
# C20 (selection) — integer, slice, boolean-mask and index-array selection follow list arithmetic

`getInt`, `getSlice`, `getMask`, `getIdx` (Model/Index.lean) are what `PauliList.__getitem__` does on the rows (numpy on the
row axis). The theorems relate them to the plain list operations `getElem`, `drop/take`, `reverse`, `filter`, `map`.
-/
namespace PC

/-- integer selection: `0 ≤ i < L` picks row `i`, `−L ≤ i < 0` picks row `L + i`, anything else is an `IndexError` -/
theorem C20_getInt (rows : List Pauli) (i : Int) :
    (0 ≤ i → i < (rows.length : Int) → getInt rows i = .ok (rowAt rows i.toNat)) ∧
    (-(rows.length : Int) ≤ i → i < 0 → getInt rows i = .ok (rowAt rows (i + rows.length).toNat) ∧ (i + rows.length).toNat < rows.length) ∧
    (i < -(rows.length : Int) ∨ (rows.length : Int) ≤ i → getInt rows i = .error .index) := by
  refine ⟨?_, ?_, ?_⟩
  · intro h0 h1
    simp [getInt, normIdx, h0, h1]
  · intro h0 h1
    have hn : ¬ (0 ≤ i ∧ i < (rows.length : Int)) := by omega
    refine ⟨?_, by omega⟩
    simp [getInt, normIdx, hn, h0, h1]
  · intro h
    have hn : ¬ (0 ≤ i ∧ i < (rows.length : Int)) := by omega
    have hn2 : ¬ (-(rows.length : Int) ≤ i ∧ i < 0) := by omega
    simp [getInt, normIdx, hn, hn2]

/-- a slice only ever selects existing rows, in strictly increasing order for a positive step and strictly decreasing
    order for a negative step; step 0 is a `ValueError` -/
theorem C20_sliceIndices (L : Nat) (start stop : Option Int) (step : Int) :
    (step = 0 → sliceIndices L start stop step = .error .value) ∧
    (∀ idx, sliceIndices L start stop step = .ok idx →
      (∀ k ∈ idx, k < L) ∧ (0 < step → idx.Pairwise (· < ·)) ∧ (step < 0 → idx.Pairwise (· > ·))) := by
  refine ⟨fun h => by simp [sliceIndices, h], ?_⟩
  intro idx h
  unfold sliceIndices at h
  by_cases hs : step = 0
  · simp [hs] at h
  · simp only [hs, if_false] at h
    injection h with h
    subst h
    rcases Int.lt_or_gt_of_ne hs with hneg | hpos
    · have hS := Ix.sliceBound_neg L step hneg start true
      have hE := Ix.sliceBound_neg L step hneg stop false
      refine ⟨?_, fun hp => by omega, fun _ => Ix.rangeFrom_neg_pairwise _ _ hneg hE.1 _ _⟩
      intro k hk
      obtain ⟨x, hx, rfl⟩ := List.mem_map.mp hk
      have := Ix.rangeFrom_neg_mem _ _ hneg _ _ _ hx
      omega
    · have hS := Ix.sliceBound_pos L step hpos start true
      have hE := Ix.sliceBound_pos L step hpos stop false
      refine ⟨?_, fun _ => Ix.rangeFrom_pos_pairwise _ _ hpos _ _ hS.1, fun hp => by omega⟩
      intro k hk
      obtain ⟨x, hx, rfl⟩ := List.mem_map.mp hk
      have := Ix.rangeFrom_pos_mem _ _ hpos _ _ _ hx
      omega

/-- `rows[:]` is the whole list, `rows[::-1]` the reversed list -/
theorem C20_slice_full (rows : List Pauli) :
    getSlice rows none none 1 = .ok rows ∧ getSlice rows none none (-1) = .ok rows.reverse := by
  constructor
  · have hs : sliceBound rows.length 1 none true = 0 := by simp [sliceBound]
    have he : sliceBound rows.length 1 none false = (rows.length : Int) := by simp [sliceBound]
    simp only [getSlice, sliceIndices, hs, he]
    rw [if_neg (by omega)]
    simp only []
    rw [Ix.rangeFrom_one _ _ 0 (by omega) (by omega)]
    have : ((rows.length : Int) - 0).toNat = rows.length := by omega
    rw [this, Int.toNat_zero, ← List.range_eq_range', Ix.map_rowAt_range]
  · have hs : sliceBound rows.length (-1) none true = (rows.length : Int) - 1 := by simp [sliceBound]
    have he : sliceBound rows.length (-1) none false = -1 := by simp [sliceBound]
    simp only [getSlice, sliceIndices, hs, he]
    rw [if_neg (by omega)]
    simp only []
    rw [Ix.rangeFrom_down _ _ (by omega), List.map_reverse, Ix.map_rowAt_range]

/-- `rows[a:b]` for `0 ≤ a ≤ b ≤ L` is `drop a` then `take (b − a)`; bounds beyond the ends are clipped -/
theorem C20_slice_take_drop (rows : List Pauli) (a b : Nat) (hab : a ≤ b) :
    getSlice rows (some a) (some b) 1 = .ok ((rows.drop a).take (b - a)) := by
  have hs : sliceBound rows.length 1 (some (a : Int)) true = ((min a rows.length : Nat) : Int) := by
    have : ¬ ((a : Int) < 0) := by omega
    simp only [sliceBound, this, if_false]
    split <;> split <;> omega
  have he : sliceBound rows.length 1 (some (b : Int)) false = ((min b rows.length : Nat) : Int) := by
    have : ¬ ((b : Int) < 0) := by omega
    simp only [sliceBound, this, if_false]
    split <;> split <;> omega
  simp only [getSlice, sliceIndices, hs, he]
  rw [if_neg (by omega)]
  simp only []
  rw [Ix.rangeFrom_one _ _ _ (by omega) (by omega)]
  have h1 : ((min a rows.length : Nat) : Int).toNat = min a rows.length := by omega
  have h2 : (((min b rows.length : Nat) : Int) - ((min a rows.length : Nat) : Int)).toNat
      = min b rows.length - min a rows.length := by omega
  rw [h1, h2, Ix.map_rowAt_range' _ _ _ (by omega)]
  congr 1
  by_cases ha : a ≤ rows.length
  · rw [Nat.min_eq_left ha]
    by_cases hb : b ≤ rows.length
    · rw [Nat.min_eq_left hb]
    · rw [Nat.min_eq_right (by omega), List.take_of_length_le (by simp), List.take_of_length_le (by simp; omega)]
  · rw [List.drop_eq_nil_of_le (by omega), List.drop_eq_nil_of_le (by omega)]; simp

/-- negative bounds count from the end: `rows[-k:]` are the last `k` rows (`k ≤ L`) -/
theorem C20_slice_last (rows : List Pauli) (k : Nat) (hk : k ≤ rows.length) (hk0 : 0 < k) :
    getSlice rows (some (-(k : Int))) none 1 = .ok (rows.drop (rows.length - k)) := by
  have hs : sliceBound rows.length 1 (some (-(k : Int))) true = ((rows.length - k : Nat) : Int) := by
    have : (-(k : Int) < 0) := by omega
    simp only [sliceBound, this, if_true]
    split <;> split <;> omega
  have he : sliceBound rows.length 1 none false = (rows.length : Int) := by simp [sliceBound]
  simp only [getSlice, sliceIndices, hs, he]
  rw [if_neg (by omega)]
  simp only []
  rw [Ix.rangeFrom_one _ _ _ (by omega) (by omega)]
  have h1 : ((rows.length - k : Nat) : Int).toNat = rows.length - k := by omega
  have h2 : ((rows.length : Int) - ((rows.length - k : Nat) : Int)).toNat = k := by omega
  rw [h1, h2, Ix.map_rowAt_range' _ _ _ (by omega), List.take_of_length_le (by simp; omega)]

/-- boolean masks: a mask of the right length keeps exactly the rows where it is true, in order; a non-empty mask of another
    length is an `IndexError` -/
theorem C20_getMask (rows : List Pauli) (m : List Bool) :
    (m.length = rows.length → ∃ out, getMask rows m = .ok out ∧ out.length = (m.filter id).length ∧
        out = ((rows.zip m).filter (·.2)).map (·.1)) ∧
    (m ≠ [] → m.length ≠ rows.length → getMask rows m = .error .index) := by
  constructor
  · intro hlen
    have hout : ∀ (r : List Pauli) (m : List Bool), r.length = m.length →
        (r.zip m).filterMap (fun rb => if rb.2 then some rb.1 else none)
          = ((r.zip m).filter (·.2)).map (·.1) ∧
        (((r.zip m).filter (·.2)).map (·.1)).length = (m.filter id).length := by
      intro r
      induction r with
      | nil => intro m h; cases m <;> simp_all
      | cons x r ih =>
        intro m h
        cases m with
        | nil => simp at h
        | cons c m =>
          have := ih m (by simpa using h)
          cases c <;> simp_all
    have h := hout rows m hlen.symm
    by_cases he : m.isEmpty
    · have hm : m = [] := by simpa using he
      subst hm
      exact ⟨[], by simp [getMask], by simp, by simp⟩
    · refine ⟨_, ?_, h.2, rfl⟩
      simp only [getMask, he, hlen]
      simp [h.1]
  · intro hne hlen
    have : m.isEmpty = false := by cases m <;> simp_all
    simp [getMask, this, hlen]

/-- index arrays: one row per index, each selected like an integer index; one bad index makes the whole selection fail -/
theorem C20_getIdx (rows : List Pauli) (idx : List Int) :
    (∀ out, getIdx rows idx = .ok out → out.length = idx.length ∧
        ∀ k, k < idx.length → getInt rows (idx.getD k 0) = .ok (rowAt out k)) ∧
    ((∃ i ∈ idx, i < -(rows.length : Int) ∨ (rows.length : Int) ≤ i) → getIdx rows idx = .error .index) := by
  constructor
  · induction idx with
    | nil =>
      intro out h
      simp [getIdx, pure, Except.pure] at h
      subst h; simp
    | cons i idx ih =>
      intro out h
      simp only [getIdx, List.mapM_cons] at h
      cases hi : getInt rows i with
      | error e => simp [hi, bind, Except.bind] at h
      | ok p =>
        cases ht : List.mapM (getInt rows) idx with
        | error e => simp [hi, ht, bind, Except.bind] at h
        | ok t =>
          simp [hi, ht, bind, Except.bind, pure, Except.pure] at h
          subst h
          have := ih t ht
          refine ⟨by simp [this.1], ?_⟩
          intro k hk
          cases k with
          | zero => simpa [rowAt] using hi
          | succ k =>
            have := this.2 k (by simpa using hk)
            simpa [rowAt] using this
  · rintro ⟨i, hi, hbad⟩
    have herr : ∀ j e, getInt rows j = .error e → e = .index := by
      intro j e hj
      have hG := C20_getInt rows j
      by_cases h1 : 0 ≤ j ∧ j < (rows.length : Int)
      · rw [hG.1 h1.1 h1.2] at hj; cases hj
      · by_cases h2 : -(rows.length : Int) ≤ j ∧ j < 0
        · rw [(hG.2.1 h2.1 h2.2).1] at hj; cases hj
        · rw [hG.2.2 (by omega)] at hj; injection hj with hj; exact hj.symm
    induction idx with
    | nil => simp at hi
    | cons j idx ih =>
      simp only [getIdx, List.mapM_cons]
      cases hj : getInt rows j with
      | error e =>
        have : e = .index := herr j e hj
        simp [this, bind, Except.bind]
      | ok p =>
        rcases List.mem_cons.mp hi with rfl | hi
        · have := (C20_getInt rows i).2.2 hbad
          rw [hj] at this; cases this
        · have := ih hi
          simp only [getIdx] at this
          simp [this, bind, Except.bind]

end PC
