import PyCliffordModel.Properties.C13
import PyCliffordModel.Proofs.TorchLemmas2
/-!
# C13 (second batch) — more torchclifford kernels equal the pyclifford kernels

`T.ipow`, `T.acq`, `T.p0`, `T.acqMat`, `T.ipowProduct`, `T.combine`, `T.transform`, `T.diagonalize1/2` are the
vectorised texts of `torchclifford/utils.py` (Model/Torch.lean); each is shown equal to the sequential pyclifford
kernel of Model/Basic.lean, Model/Kernels.lean, Model/Diag.lean on every input (with the well-formedness the code needs).
-/
namespace PC

theorem C13_ipow (g1 g2 : PStr) : T.ipow g1 g2 = ipow g1 g2 :=
  Tc2.ipow_eq g1 g2

theorem C13_acq (g1 g2 : PStr) : T.acq g1 g2 = acq g1 g2 :=
  Tc2.acq_eq g1 g2

theorem C13_p0 (g : PStr) : T.p0 g = p0 g :=
  Tc2.p0_eq g

theorem C13_acqMat (gs : List PStr) : T.acqMat gs = acqMat gs :=
  Tc2.acqMat_eq gs

theorem C13_ipowProduct (a b : List PStr) : T.ipowProduct a b = a.flatMap fun g1 => b.map fun g2 => ipow g1 g2 :=
  Tc2.ipowProduct_eq a b

/-- `pauli_combine`: following `torch.nonzero` (row-major, columns ascending) is the sequential loop over the columns -/
theorem C13_combine (n : Nat) (c : List Bool) (rows : List Pauli) : T.combine n c rows = combine n c rows :=
  Tc2.combine_eq n c rows

theorem C13_transform (M : List Pauli) (P : Pauli) : T.transform M P = transform M P :=
  Tc2.transform_eq M P

set_option linter.unusedVariables false in
/-- `pauli_diagonalize1`: same generators (the torch `front` is only evaluated on non-identity strings; the bound `hi` is not needed by the proof) -/
theorem C13_diagonalize1 (g : PStr) (i0 : Nat) (hi : i0 < g.length) : T.diagonalize1 g i0 = diagonalize1 g i0 :=
  Tc2.diagonalize1_eq g i0

set_option linter.unusedVariables false in
/-- `pauli_diagonalize2`: same generators and same transformed pair (the bound `hi` is not needed by the proof) -/
theorem C13_diagonalize2 (g1 g2 : PStr) (i0 : Nat) (hl : g1.length = g2.length) (hi : i0 < g1.length) :
    T.diagonalize2 g1 g2 i0 = diagonalize2 g1 g2 i0 :=
  Tc2.diagonalize2_eq g1 g2 i0 hl

end PC
