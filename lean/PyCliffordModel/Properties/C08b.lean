import PyCliffordModel.Spec.Rank
/-!
# C08 (pure branch, finite part) — kernel-checked for every pure stabilizer group on `N ≤ 2` qubits and every region

The pure-state branch of `stabilizer_entropy` (`½·rank` of the anticommutation matrix of the crossing generators
restricted to the region; Fattal et al.) is not proved in general here. This file checks it exhaustively, inside the Lean
kernel, for `N = 1, 2`: for every list of `N` commuting, independent strings (every generating set of every pure
stabilizer group, signs are irrelevant to the entropy) and every region, the reported entropy `S` satisfies
`#{group elements supported in the region} · 2^S = 2^|region|`, and a region and its complement have equal entropy.
These are FINITE statements (labelled as such in the evidence); the general statement is supported by the
correspondence against the brute-force specification and dense partial traces for `N ≤ 6`.
-/
namespace PC

def allQ : List Q := [(false, false), (true, false), (true, true), (false, true)]
def allStr1 : List PStr := allQ.map fun a => [a]
def allStr2 : List PStr := allQ.flatMap fun a => allQ.map fun b => [a, b]

/-- generating sets of pure one-qubit states: one non-identity string -/
def pureGens1 : List (List PStr) := (allStr1.filter anyBit).map fun g => [g]
/-- generating sets of pure two-qubit states: two commuting, different, non-identity strings -/
def pureGens2 : List (List PStr) :=
  (allStr2.filter anyBit).flatMap fun g => ((allStr2.filter anyBit).filter fun h => acq g h == 0 && g != h).map fun h => [g, h]

def entropyOK (N : Nat) (gs : List PStr) (m : List Bool) : Bool :=
  let S := entropy gs N m
  decide (0 ≤ S) && supportedCount gs m * 2 ^ S.toNat == 2 ^ maskCount m &&
  S == entropy gs N (m.map (!·))

theorem C08_pure_N1_exhaustive : pureGens1.all (fun gs => (allBits 1).all fun m => entropyOK 1 gs m) = true := by decide +kernel

theorem C08_pure_N2_exhaustive : pureGens2.all (fun gs => (allBits 2).all fun m => entropyOK 2 gs m) = true := by decide +kernel

theorem C08_pure_N2_count : pureGens2.length = 90 := by decide +kernel

end PC
