import PyCliffordModel.Proofs.TorchLemmas
/-!
# C13 — the torchclifford kernels compute what the pyclifford kernels compute (on every well-formed input)
-/
namespace PC

theorem C13_acqGrid (g1 g2 : PStr) : T.acqGrid g1 g2 = acq g1 g2 := Tc.acqGrid_eq g1 g2

theorem C13_cliffordRotate (G P : Pauli) (hl : G.g.length = P.g.length) : T.cliffordRotate G P = ⟨(rotate G P).g, (rotate G P).p % 4⟩ := by
  unfold T.cliffordRotate rotate
  rcases acq_bit G.g P.g with h0 | h1
  · rw [(anti_eq_false_iff G.g P.g).2 h0]
    simp only [h0, Tc.zipMask_zero P.g G.g (by omega)]
    simp
  · rw [(anti_iff G.g P.g).2 h1]
    simp only [h1, Tc.zipMask_one]
    simp only [if_true, Pauli.mk.injEq, true_and]
    omega

theorem C13_rotateSignless (g h : PStr) (hl : g.length = h.length) : T.rotateSignless g h = rotateSignless g h := by
  unfold T.rotateSignless rotateSignless
  rcases acq_bit g h with h0 | h1
  · rw [(anti_eq_false_iff g h).2 h0]
    simp only [h0, Tc.zipMask_zero h g (by omega)]
    simp
  · rw [(anti_iff g h).2 h1]
    simp only [h1, Tc.zipMask_one]
    simp

set_option linter.unusedVariables false in
/-- (the bound `hi` is not needed by the proof: both sides agree for every `i0`) -/
theorem C13_isOnsite (g : PStr) (i0 : Nat) (hi : i0 < g.length) : T.isOnsite g i0 = isOnsite g i0 :=
  Tc.isOnsite_eq g i0

/-- `front` agrees on non-identity strings (on the identity string torch returns 0, pyclifford `N-1`; never reached through the public API) -/
theorem C13_front (g : PStr) (hg : anyBit g = true) : T.front g = front g :=
  Tc.front_eq g hg

theorem C13_condense (g : PStr) : T.condense g = condense g :=
  Tc.condense_eq g

theorem C13_mapToState (M : List Pauli) (n : Nat) (h : M.length = 2 * n) : T.mapToState M = mapToState M :=
  Tc.mapToState_eq M n h

theorem C13_stateToMap (T0 : List Pauli) (n : Nat) (h : T0.length = 2 * n) : T.stateToMap T0 = stateToMap T0 :=
  Tc.stateToMap_eq T0 n h

theorem C13_batchDot {C : Type} (cmul : C → C → C) (a b : List (Pauli × C)) : T.batchDot cmul a b = batchDot cmul a b :=
  Tc.batchDot_eq cmul a b

set_option linter.unusedVariables false in
/-- the vectorised expectation equals the sequential one on every tableau with `2N` rows of `N` qubits
    (`hr`, `ho` are not needed by the proof) -/
theorem C13_vecExpect (st : State) (obs : Pauli) (n : Nat) (hs : st.rows.length = 2 * n) (hr : st.r ≤ n)
    (hrow : ∀ R ∈ st.rows, R.g.length = n) (ho : obs.g.length = n) : T.vecExpect1 st obs = expect1 st obs :=
  Tc.vecExpect_eq st obs n hs hrow

end PC

