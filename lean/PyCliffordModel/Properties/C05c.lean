import PyCliffordModel.Properties.C05b
import PyCliffordModel.Properties.C12b
import PyCliffordModel.Proofs.PhaseLemmas
/-!
# C05 / C02 / C03 — phase indicators never leave `{0, 1, 2, 3}`

The library stores phases as indicators `p` meaning `i^p` and reduces them mod 4 after every update; printing, tokenizing and the
overlap kernels read the indicator without reduction, so an indicator of `4` is not harmless (`repr` fails, `tokenize` emits an
illegal token, `expect(state)` reports orthogonality). Every operation keeps every indicator of the tableau in range, provided
its arguments are in range; hence every reachable state is in range.
-/
namespace PC

/-- every phase indicator lies in `{0, 1, 2, 3}` -/
def PhaseOK (T : List Pauli) : Prop := ∀ R ∈ T, 0 ≤ R.p ∧ R.p < 4

/-- the arguments of an operation carry indicators in range -/
def StOp.ArgsInRange : StOp → Prop
  | .rotate G => 0 ≤ G.p ∧ G.p < 4
  | .rotateMasked G _ => 0 ≤ G.p ∧ G.p < 4
  | .transform M => PhaseOK M
  | .transformMasked M _ => PhaseOK M
  | .gate g => (∀ G, g.gen = some G → 0 ≤ G.p ∧ G.p < 4) ∧ (∀ M, g.fmap = some M → PhaseOK M)
  | .measure obs _ => PhaseOK obs
  | .postselect P _ => 0 ≤ P.p ∧ P.p < 4
  | .copy => True

/-- rotation of one operator -/
theorem C02_rotate_phase_range (G P : Pauli) (hG : 0 ≤ G.p ∧ G.p < 4) (hP : 0 ≤ P.p ∧ P.p < 4) :
    0 ≤ (rotate G P).p ∧ (rotate G P).p < 4 := by
  have _ := hG
  exact Ph.rotate_range G P hP

/-- transformation by a map: the result is in range whatever the input -/
theorem C03_transform_phase_range (M : List Pauli) (P : Pauli) (hP : 0 ≤ P.p ∧ P.p < 4) :
    0 ≤ (transform M P).p ∧ (transform M P).p < 4 := by
  have _ := hP
  exact Ph.transform_range M P

/-- products -/
theorem C01_mul_phase_range (P Q : Pauli) : 0 ≤ (mul P Q).p ∧ (mul P Q).p < 4 := by
  exact Ph.mul_range P Q

/-- the constructors -/
theorem C05_constructors_phase_range (n : Nat) :
    PhaseOK (zeroState n).rows ∧ PhaseOK (oneState n).rows ∧ PhaseOK (maximallyMixed n).rows ∧ PhaseOK (idMap n) := by
  exact ⟨Ph.toState_idMap_range n 0, Ph.oneState_range n, Ph.toState_idMap_range n n, Ph.idMap_range n⟩

/-- **one step**: every admissible operation with arguments in range keeps the tableau in range -/
theorem C05_step_phase_range (st st' : State) (n : Nat) (op : StOp) (h : TabInv st n) (hp : PhaseOK st.rows) (hop : op.Ok n)
    (ha : op.ArgsInRange) (hs : applyOp n st op = some st') : PhaseOK st'.rows := by
  have _ := ha
  exact Ph.step_range st st' n op h hp hop hs

/-- **every reachable state** is in range -/
theorem C05_reachable_phase_range (st st' : State) (n : Nat) (ops : List StOp) (h : TabInv st n) (hp : PhaseOK st.rows)
    (hops : ∀ op ∈ ops, op.Ok n ∧ op.ArgsInRange) (hs : applyOps n st ops = some st') : PhaseOK st'.rows := by
  exact Ph.reachable_range n ops st st' h hp (fun op ho => (hops op ho).1) hs

/-- maps: composition and inverse of maps in range are in range -/
theorem C04_compose_inverse_phase_range (A B : List Pauli) (hA : PhaseOK A) :
    PhaseOK (compose A B) ∧ (∀ I, inverse A = some I → PhaseOK I) := by
  have _ := hA
  exact ⟨Ph.compose_range A B, fun I hI => Ph.inverse_range A I hI⟩

end PC
