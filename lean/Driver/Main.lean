import PyCliffordModel.Model.Poly
import PyCliffordModel.Model.Torch
import PyCliffordModel.Model.TorchPoly
import PyCliffordModel.Model.Device
import PyCliffordModel.Model.SBRG
import PyCliffordModel.Model.Index
/-!
# Driver — line protocol around the executable model (trusted glue: parsing and printing only)

One request per line on stdin, one answer line on stdout.
Wire formats: string `XZIY` (`_` = empty); operator `XZIY:3`; rows `A:0,B:2` (`_` = none);
bits `0110` (`_` = none); bit matrix `01;10` ; ints `1,-2,3`; rational `-3/8`; complex `re,im`.
Malformed requests answer `bad-request …` (never a default value).
-/
open PC

namespace Drv

def decQ (c : Char) : Option Q :=
  match c with
  | 'I' => some (false, false) | 'X' => some (true, false)
  | 'Y' => some (true, true) | 'Z' => some (false, true) | _ => none
def decStr (s : String) : Option PStr :=
  if s == "_" then some [] else s.toList.mapM decQ
def encStr (g : PStr) : String := if g.isEmpty then "_" else String.ofList (g.map reprQ)

def decPauli (s : String) : Option Pauli :=
  match s.splitOn ":" with
  | [g, p] => do let g ← decStr g; let p ← p.toInt?; pure ⟨g, p⟩
  | _ => none
def encPauli (a : Pauli) : String := encStr a.g ++ ":" ++ toString a.p

def decRows (s : String) : Option (List Pauli) :=
  if s == "_" then some [] else (s.splitOn ",").mapM decPauli
def encRows (rs : List Pauli) : String := if rs.isEmpty then "_" else ",".intercalate (rs.map encPauli)

def decStrs (s : String) : Option (List PStr) :=
  if s == "-" then some [] else (s.splitOn ",").mapM decStr
def encStrs (rs : List PStr) : String := if rs.isEmpty then "-" else ",".intercalate (rs.map encStr)

def decBit (c : Char) : Option Bool := match c with | '0' => some false | '1' => some true | _ => none
def decBits (s : String) : Option (List Bool) := if s == "_" then some [] else s.toList.mapM decBit
def encBits (b : List Bool) : String := if b.isEmpty then "_" else String.ofList (b.map fun x => if x then '1' else '0')
def decMat (s : String) : Option (List (List Bool)) :=
  if s == "-" then some [] else (s.splitOn ";").mapM decBits
def encMat (m : List (List Bool)) : String := if m.isEmpty then "-" else ";".intercalate (m.map encBits)

def decInts (s : String) : Option (List Int) :=
  if s == "_" then some [] else (s.splitOn ",").mapM String.toInt?
def encInts (l : List Int) : String := if l.isEmpty then "_" else ",".intercalate (l.map toString)
def decNats (s : String) : Option (List Nat) :=
  if s == "_" then some [] else (s.splitOn ",").mapM String.toNat?

def decRat (s : String) : Option Rat :=
  match s.splitOn "/" with
  | [n] => n.toInt?.map fun k => (k : Rat)
  | [n, d] => do let n ← n.toInt?; let d ← d.toNat?; if d = 0 then none else pure ((n : Rat) / (d : Rat))
  | _ => none
def encRat (q : Rat) : String := if q.den = 1 then toString q.num else toString q.num ++ "/" ++ toString q.den
def decCx (s : String) : Option Cx :=
  match s.splitOn "," with
  | [a, b] => do let a ← decRat a; let b ← decRat b; pure ⟨a, b⟩
  | _ => none
def encCx (c : Cx) : String := encRat c.re ++ "," ++ encRat c.im

def encErr : Err → String
  | .assertion => "err AssertionError" | .value => "err ValueError" | .type => "err TypeError"
  | .notImplemented => "err NotImplementedError" | .index => "err IndexError" | .coin => "err coin-underflow"

def encDy (t : Dy) : String := if t.zero then "0" else "1/" ++ toString (2 ^ t.k)

def decState (r T : String) : Option State := do
  let r ← r.toNat?; let T ← decRows T; pure ⟨T, r⟩
def encState (st : State) : String := toString st.r ++ " " ++ encRows st.rows

/-- terms `g:p:re,im` separated by `|` -/
def decTerm (s : String) : Option Term :=
  match s.splitOn ":" with
  | [g, p, c] => do let g ← decStr g; let p ← p.toInt?; let c ← decCx c; pure (⟨g, p⟩, c)
  | _ => none
def decPoly (s : String) : Option Poly := if s == "_" then some [] else (s.splitOn "|").mapM decTerm
def encTerm (t : Term) : String := encStr t.1.g ++ ":" ++ toString t.1.p ++ ":" ++ encCx t.2
def encPoly (p : Poly) : String := if p.isEmpty then "_" else "|".intercalate (p.map encTerm)

def encObj : PObj → String
  | .pauli a => "pauli " ++ encPauli a
  | .mono a c => "mono " ++ encPauli a ++ " " ++ encCx c
  | .poly ts => "poly " ++ encPoly ts
  | .plist ps => "plist " ++ encRows ps
  | .num c => "num " ++ encCx c
  | .zero n => "zero " ++ toString n
def decObj (kind : String) (args : List String) : Option PObj :=
  match kind, args with
  | "pauli", [a] => (decPauli a).map .pauli
  | "mono", [a, c] => do let a ← decPauli a; let c ← decCx c; pure (.mono a c)
  | "poly", [p] => (decPoly p).map .poly
  | "zero", [n] => n.toNat?.map .zero
  | "plist", [p] => (decRows p).map .plist
  | "num", [c] => (decCx c).map .num
  | _, _ => none

def decTok (s : String) : Option Tok :=
  match s.toList with
  | ['c', ch] => some (.ch ch)
  | 'n' :: rest => (String.ofList rest).toInt?.map .code
  | _ => none
def decToks (s : String) : Option (List Tok) := if s == "_" then some [] else (s.splitOn ",").mapM decTok
def decItems (s : String) : Option (List (Int × Tok)) :=
  if s == "_" then some [] else (s.splitOn ",").mapM fun it =>
    match it.splitOn "=" with
    | [i, t] => do let i ← i.toInt?; let t ← decTok t; pure (i, t)
    | _ => none

def encGate (g : Gate) : String :=
  "[" ++ ".".intercalate (g.qubits.map toString) ++ "]"
def encLayer : Layer → String
  | .gates gs f _ => "G" ++ (if f.isSome then "c" else "") ++ "".intercalate (gs.map encGate)
  | .meas qs _ _ => "M[" ++ ".".intercalate (qs.map toString) ++ "]"

structure Sess where
  circs : List (String × Circ) := []
  regs : List (String × PObj) := []

def Sess.getC (s : Sess) (id : String) : Option Circ := (s.circs.find? (·.1 == id)).map (·.2)
def Sess.setC (s : Sess) (id : String) (c : Circ) : Sess :=
  { s with circs := (id, c) :: s.circs.filter (·.1 != id) }
def Sess.getR (s : Sess) (id : String) : Option PObj := (s.regs.find? (·.1 == id)).map (·.2)
def Sess.setR (s : Sess) (id : String) (c : PObj) : Sess :=
  { s with regs := (id, c) :: s.regs.filter (·.1 != id) }

def bad (w : List String) : String := "bad-request " ++ " ".intercalate w

def ex {α} (f : α → String) : Except Err α → String
  | .ok a => "ok " ++ f a
  | .error e => encErr e

/-- measurement with one coin per observable (used only when that outcome is random) -/
def measureK : State → List Pauli → List Bool → Except Err (State × List Int × List Bool)
  | st, [], _ => .ok (st, [], [])
  | st, o :: os, coins =>
    match measure1 st o (coins.headD false) with
    | .error e => .error e
    | .ok (st', out, rnd) =>
      match measureK st' os coins.tail with
      | .error e => .error e
      | .ok (st'', outs, rs) => .ok (st'', out :: outs, rnd :: rs)

def decMaps (s : String) : Option (List CMap) :=
  if s == "-" then some [] else (s.splitOn "/").mapM decRows

/-- stateless operations -/
def pureOp (w : List String) : Option String :=
  match w with
  | ["acq", a, b] => do let a ← decStr a; let b ← decStr b; pure (toString (acq a b))
  | ["ipow", a, b] => do let a ← decStr a; let b ← decStr b; pure (toString (ipow a b))
  | ["p0", a] => do let a ← decStr a; pure (toString (p0 a))
  | ["acqmat", a] => do let a ← decStrs a; pure (";".intercalate ((acqMat a).map encInts))
  | ["mul", a, b] => do let a ← decPauli a; let b ← decPauli b; pure (encPauli (mul a b))
  | ["chain", rs] => do
      let rs ← decRows rs
      match rs with
      | [] => none
      | r :: rest => pure (encPauli (rest.foldl mul r))
  | ["neg", a] => do let a ← decPauli a; pure (encPauli (neg a))
  | ["smuli", k, a] => do let k ← k.toNat?; let a ← decPauli a; pure (encPauli (smulI k a))
  | ["weight", a] => do let a ← decStr a; pure (toString (weight a))
  | ["tokenize", a] => do let a ← decPauli a; pure (encInts (tokenize a))
  | ["combine", n, c, rows] => do
      let n ← n.toNat?; let c ← decBits c; let rows ← decRows rows
      pure (encPauli (combine n c rows))
  | ["transform", m, rows] => do let m ← decRows m; let rows ← decRows rows; pure (encRows (transformRows m rows))
  | ["rotate", g, rows] => do let g ← decPauli g; let rows ← decRows rows; pure (encRows (rotateRows g rows))
  | ["rotsignless", g, rows] => do let g ← decStr g; let rows ← decStrs rows; pure (encStrs (rows.map (rotateSignless g)))
  | ["rotatemasked", g, m, rows] => do
      let g ← decPauli g; let m ← decBits m; let rows ← decRows rows
      pure (encRows (rows.map (rotateMasked g m)))
  | ["transformmasked", mp, m, rows] => do
      let mp ← decRows mp; let m ← decBits m; let rows ← decRows rows
      pure (encRows (rows.map (transformMasked mp m)))
  | ["embed", big, small, m] => do
      let big ← decRows big; let small ← decRows small; let m ← decBits m
      pure (encRows (embed big small m))
  | ["idmap", n] => do let n ← n.toNat?; pure (encRows (idMap n))
  | ["compose", a, b] => do let a ← decRows a; let b ← decRows b; pure (encRows (compose a b))
  | ["inverse", a] => do
      let a ← decRows a
      pure (match inverse a with | some m => "ok " ++ encRows m | none => encErr .value)
  | ["rotationmap", g] => do let g ← decPauli g; pure (encRows (rotationMap g))
  | ["z2rank", nc, m] => do let nc ← nc.toNat?; let m ← decMat m; pure (toString (z2rank m nc))
  | ["z2inv", m] => do
      let m ← decMat m
      pure (match z2inv m with | some b => "ok " ++ encMat b | none => encErr .value)
  | ["maptostate", m] => do let m ← decRows m; pure (encRows (mapToState m))
  | ["statetomap", m] => do let m ← decRows m; pure (encRows (stateToMap m))
  | ["zero", n] => do let n ← n.toNat?; pure (encState (zeroState n))
  | ["one", n] => do let n ← n.toNat?; pure (encState (oneState n))
  | ["mixed", n] => do let n ← n.toNat?; pure (encState (maximallyMixed n))
  | ["ghz", n] => do let n ← n.toNat?; pure (ex encState (ghzState n))
  | ["stabstate", n, rows] => do
      let n ← n.toNat?; let rows ← decRows rows
      pure (ex encState (stabilizerState n rows))
  | ["project", r, t, obs] => do
      let st ← decState r t; let obs ← decStrs obs
      pure (encState (project st obs))
  | ["measure", r, t, obs, coins] => do
      let st ← decState r t; let obs ← decRows obs; let coins ← decBits coins
      pure (ex (fun (x : State × List Int × Nat × List Bool) =>
        encState x.1 ++ " " ++ encInts x.2.1 ++ " " ++ toString x.2.2.1 ++ " " ++ toString x.2.2.2.length)
        (measure st obs coins))
  | ["measurek", r, t, obs, coins] => do
      let st ← decState r t; let obs ← decRows obs; let coins ← decBits coins
      pure (ex (fun (x : State × List Int × List Bool) =>
        encState x.1 ++ " " ++ encInts x.2.1 ++ " " ++ encBits x.2.2) (measureK st obs coins))
  | ["expect", r, t, obs] => do
      let st ← decState r t; let obs ← decRows obs
      pure (encInts (expect st obs))
  | ["expectpoly", r, t, p] => do
      let st ← decState r t; let p ← decPoly p
      pure (encCx (expectPoly st p))
  | ["projtrace", r, t, obs] => do
      let st ← decState r t; let obs ← decRows obs
      pure (ex (fun (x : State × Dy) => encState x.1 ++ " " ++ encDy x.2) (projTrace st obs ⟨false, 0⟩))
  | ["expectstate", r, t, r2, t2] => do
      let st ← decState r t; let sg ← decState r2 t2
      pure (ex encDy (expectState st sg))
  | ["getprob", r, t, bits] => do
      let st ← decState r t; let bits ← decBits bits
      pure (ex encDy (getProb st bits))
  | ["postselect", r, t, p, res] => do
      let st ← decState r t; let p ← decPauli p; let res ← res.toNat?
      pure (ex (fun (x : State × Dy) => encState x.1 ++ " " ++ encDy x.2) (postselect st p res))
  | ["entropyidx", r, t, idx] => do
      let st ← decState r t; let idx ← decInts idx
      pure (ex toString (entropyIdx st idx))
  | ["entropymask", r, t, m] => do
      let st ← decState r t; let m ← decBits m
      pure (toString (entropyMask st m))
  | ["entropyraw", n, gs, m] => do
      let n ← n.toNat?; let gs ← decStrs gs; let m ← decBits m
      pure (toString (entropy gs n m))
  | ["mask", n, idx] => do
      let n ← n.toNat?; let idx ← decInts idx
      pure (ex encBits (mkMask idx n))
  | ["sample", r, t, c] => do
      let st ← decState r t; let c ← decMat c
      pure (encRows (sample st c))
  | ["density", r, t] => do let st ← decState r t; pure (encRows (densityRows st))
  | ["densitypoly", r, t] => do let st ← decState r t; pure (encPoly (densityPoly st))
  | ["front", g] => do let g ← decStr g; pure (toString (front g))
  | ["condense", g] => do
      let g ← decStr g
      let (gc, q) := condense g
      pure (encStr gc ++ " " ++ encInts (q.map Int.ofNat))
  | ["onsite", g, i0] => do let g ← decStr g; let i0 ← i0.toNat?; pure (toString (isOnsite g i0))
  | ["diag1", g, i0] => do let g ← decStr g; let i0 ← i0.toNat?; pure (encStrs (diagonalize1 g i0))
  | ["diag2", g1, g2, i0] => do
      let g1 ← decStr g1; let g2 ← decStr g2; let i0 ← i0.toNat?
      let (gs, a, b) := diagonalize2 g1 g2 i0
      pure (encStrs gs ++ " " ++ encStr a ++ " " ++ encStr b)
  | ["randpair", n, tape] => do
      let n ← n.toNat?; let tape ← decBits tape
      pure (match randomPair n tape with
        | some ((a, b), t) => "ok " ++ encStr a ++ " " ++ encStr b ++ " " ++ toString t.length
        | none => "err tape-underflow")
  | ["randpauli", n, tape] => do
      let n ← n.toNat?; let tape ← decBits tape
      pure (match randomPauli n n tape with
        | some (rows, t) => "ok " ++ encStrs rows ++ " " ++ toString t.length
        | none => "err tape-underflow")
  | ["randclifford", n, tape] => do
      let n ← n.toNat?; let tape ← decBits tape
      pure (match randomClifford n tape with
        | some (rows, t) => "ok " ++ encStrs rows ++ " " ++ toString t.length
        | none => "err tape-underflow")
  | ["rotgate", g, base] => do
      let g ← decPauli g
      let base ← if base == "none" then some none else (decNats base).map some
      let gt := rotationGate g base
      pure (encInts (gt.qubits.map Int.ofNat) ++ " " ++ (match gt.gen with | some x => encPauli x | none => "none"))
  | ["parseseq", toks] => do let toks ← decToks toks; pure (ex encPauli (parseSeq toks))
  | ["parsedict", n, items] => do
      let n ← n.toNat?; let items ← decItems items
      pure (ex encPauli (parseItems n items))
  | ["repr", a] => do
      let a ← decPauli a
      pure (match reprPauli a with | some cs => "ok " ++ String.ofList (cs.map fun c => if c == ' ' then '.' else c) | none => "err UnboundLocalError")
  | ["getint", rows, i] => do let rows ← decRows rows; let i ← i.toInt?; pure (ex encPauli (getInt rows i))
  | ["getslice", rows, a, b, st] => do
      let rows ← decRows rows; let st ← st.toInt?
      let a ← if a == "None" then some none else a.toInt?.map some
      let b ← if b == "None" then some none else b.toInt?.map some
      pure (ex encRows (getSlice rows a b st))
  | ["getmask", rows, m] => do let rows ← decRows rows; let m ← decBits m; pure (ex encRows (getMask rows m))
  | ["getidx", rows, idx] => do let rows ← decRows rows; let idx ← decInts idx; pure (ex encRows (getIdx rows idx))
  | ["T.ipow", a, b] => do let a ← decStr a; let b ← decStr b; pure (toString (T.ipow a b))
  | ["T.acq", a, b] => do let a ← decStr a; let b ← decStr b; pure (toString (T.acq a b))
  | ["T.p0", a] => do let a ← decStr a; pure (toString (T.p0 a))
  | ["T.acqmat", a] => do let a ← decStrs a; pure (";".intercalate ((T.acqMat a).map encInts))
  | ["T.ipowproduct", a, b] => do let a ← decStrs a; let b ← decStrs b; pure (encInts (T.ipowProduct a b))
  | ["T.combine", n, c, rows] => do
      let n ← n.toNat?; let c ← decBits c; let rows ← decRows rows
      pure (encPauli (T.combine n c rows))
  | ["T.transform", m, rows] => do let m ← decRows m; let rows ← decRows rows; pure (encRows (rows.map (T.transform m)))
  | ["T.diag1", g, i0] => do let g ← decStr g; let i0 ← i0.toNat?; pure (encStrs (T.diagonalize1 g i0))
  | ["T.diag2", g1, g2, i0] => do
      let g1 ← decStr g1; let g2 ← decStr g2; let i0 ← i0.toNat?
      let (gs, a, b) := T.diagonalize2 g1 g2 i0
      pure (encStrs gs ++ " " ++ encStr a ++ " " ++ encStr b)
  | ["T.acqgrid", a, b] => do let a ← decStr a; let b ← decStr b; pure (toString (T.acqGrid a b))
  | ["T.rotate", g, rows] => do let g ← decPauli g; let rows ← decRows rows; pure (encRows (rows.map (T.cliffordRotate g)))
  | ["T.rotsignless", g, rows] => do let g ← decStr g; let rows ← decStrs rows; pure (encStrs (rows.map (T.rotateSignless g)))
  | ["T.onsite", g, i0] => do let g ← decStr g; let i0 ← i0.toNat?; pure (toString (T.isOnsite g i0))
  | ["T.front", g] => do let g ← decStr g; pure (toString (T.front g))
  | ["T.condense", g] => do
      let g ← decStr g
      let (gc, q) := T.condense g
      pure (encStr gc ++ " " ++ encInts (q.map Int.ofNat))
  | ["T.maptostate", m] => do let m ← decRows m; pure (encRows (T.mapToState m))
  | ["T.statetomap", m] => do let m ← decRows m; pure (encRows (T.stateToMap m))
  | ["T.vecexpect", r, t, obs] => do
      let st ← decState r t; let obs ← decRows obs
      pure (encInts (obs.map (T.vecExpect1 st)))
  | ["T.vexpectpoly", r, ts, p] => do
      let sts ← (ts.splitOn ";").mapM (decState r); let p ← decPoly p
      pure (";".intercalate ((T.vexpectPoly sts p).map encCx))
  | ["T.vexpectlist", r, ts, obs] => do
      let sts ← (ts.splitOn ";").mapM (decState r); let obs ← decRows obs
      pure (";".intercalate ((T.vexpectList sts obs).map encInts))
  | ["T.project", r, t, obs] => do
      let st ← decState r t; let obs ← decStrs obs
      pure (encState (T.project st obs))
  | ["T.randpauli", n, tape] => do
      let n ← n.toNat?; let tape ← decBits tape
      pure (match T.randomPauli n tape with
        | some (rows, t) => "ok " ++ encStrs rows ++ " " ++ toString t.length
        | none => "err tape-underflow")
  | ["reduce", p, tn, td] => do
      let p ← decPoly p; let tn ← tn.toNat?; let td ← td.toNat?
      pure (encPoly (reduce p tn td))
  | _ => none

def decObjKind (s : String) : Bool := s == "L" || s == "S"

/-- circuit sessions: `circ <id> <op> …` -/
def circOp (s : Sess) (w : List String) : Option (Sess × String) :=
  match w with
  | [id, "new", n] => do let n ← n.toNat?; pure (s.setC id { N := n }, "ok")
  | [id, "gen", qs, g] => do
      let c ← s.getC id; let qs ← decNats qs; let g ← decPauli g
      match c.take { qubits := qs, gen := some g } with
      | .ok c' => pure (s.setC id c', "ok")
      | .error e => pure (s, encErr e)
  | [id, "fmap", qs, m] => do
      let c ← s.getC id; let qs ← decNats qs; let m ← decRows m
      match c.take { qubits := qs, fmap := some m } with
      | .ok c' => pure (s.setC id c', "ok")
      | .error e => pure (s, encErr e)
  | [id, "bmap", qs, m] => do
      let c ← s.getC id; let qs ← decNats qs; let m ← decRows m
      match c.take { qubits := qs, bmap := some m } with
      | .ok c' => pure (s.setC id c', "ok")
      | .error e => pure (s, encErr e)
  | [id, "rnd", qs] => do
      let c ← s.getC id; let qs ← decNats qs
      match c.take { qubits := qs } with
      | .ok c' => pure (s.setC id c', "ok")
      | .error e => pure (s, encErr e)
  | [id, "meas", qs] => do
      let c ← s.getC id; let qs ← decNats qs
      match c.takeMeas qs with
      | .ok c' => pure (s.setC id c', "ok")
      | .error e => pure (s, encErr e)
  | [id, "compose", id2] => do
      let c ← s.getC id; let o ← s.getC id2
      match c.compose o with
      | .ok c' => pure (s.setC id c', "ok")
      | .error e => pure (s, encErr e)
  | [id, "copy", id2] => do let c ← s.getC id; pure (s.setC id2 c, "ok")
  | [id, "compile"] => do
      -- the object after the call (also when the call raised) and the outcome: `Circ.compileSt`
      let c ← s.getC id
      match c.compileSt with
      | (c', .ok ()) => pure (s.setC id c', "ok")
      | (c', .error e) => pure (s.setC id c', encErr e)
  | [id, "compilelayers"] => do
      let c ← s.getC id
      match c.compileLayersOnly with
      | .ok c' => pure (s.setC id c', "ok")
      | .error e => pure (s, encErr e)
  | [id, "rcc", kind, n, depth] => do
      let n ← n.toNat?; let depth ← depth.toNat?
      let r := if kind == "brickwall" then brickwallRcc n depth else if kind == "onsite" then onsiteRcc n else globalRcc n
      match r with
      | .ok c => pure (s.setC id c, "ok")
      | .error e => pure (s, encErr e)
  | [id, "layers"] => do
      let c ← s.getC id
      pure (s, "|".intercalate (c.layers.map encLayer))
  | [id, "maps"] => do
      let c ← s.getC id
      pure (s, (match c.fmap with | some m => encRows m | none => "none") ++ " " ++
               (match c.bmap with | some m => encRows m | none => "none"))
  | [id, "record"] => do
      let c ← s.getC id
      pure (s, encInts c.results ++ " " ++ toString c.nrand)
  | [id, dir, kind, r, rows, coins, maps, rec] => do
      if dir != "fwd" && dir != "bwd" then none
      let c ← s.getC id; let r ← r.toNat?; let rows ← decRows rows
      let coins ← decBits coins; let maps ← decMaps maps
      let rec ← if rec == "none" then some none else (decInts rec).map some
      let x : Run := ⟨⟨rows, r, kind == "S"⟩, coins, maps⟩
      let res := if dir == "fwd" then c.forward x else c.backward x rec
      match res with
      | .ok (c', x') => pure (s.setC id c', "ok " ++ toString x'.obj.r ++ " " ++ encRows x'.obj.rows ++ " " ++
          toString x'.coins.length ++ " " ++ toString x'.rnd.length)
      | .error e => pure (s, encErr e)
  | [id, "snapshot", r, t, coins, maps] => do
      let c ← s.getC id; let st ← decState r t; let coins ← decBits coins; let maps ← decMaps maps
      match snapshot1 st c coins maps with
      | .ok (c', s', outs, k, cs, rnd') => pure (s.setC id c', "ok " ++ toString s'.r ++ " " ++ encRows s'.rows ++ " " ++
          encInts outs ++ " " ++ toString k ++ " " ++ toString cs.length ++ " " ++ toString rnd'.length)
      | .error e => pure (s, encErr e)
  | [id, "povm", maps] => do
      let c ← s.getC id; let maps ← decMaps maps
      match povm1 c maps with
      | .ok (c', z, _) => pure (s.setC id c', "ok " ++ toString z.r ++ " " ++ encRows z.rows)
      | .error e => pure (s, encErr e)
  | [id, "sbrg", n, h, leads, rn, rd, tn, td] => do
      let n ← n.toNat?; let h ← decPoly h; let leads ← decNats leads
      let rn ← rn.toNat?; let rd ← rd.toNat?; let tn ← tn.toNat?; let td ← td.toNat?
      match sbrg h n leads ⟨rn, rd, tn, td⟩ with
      | .ok (heff, c) => pure (s.setC id c, "ok " ++ encPoly heff)
      | .error e => pure (s, encErr e)
  | [id, "diagpauli", g, i0, causal] => do
      let g ← decStr g; let i0 ← i0.toNat?
      match diagonalizePauli g i0 (causal == "1") with
      | .ok c => pure (s.setC id c, "ok")
      | .error e => pure (s, encErr e)
  | [id, "diagstate", r, t] => do
      let st ← decState r t
      match diagonalizeState st with
      | .ok c => pure (s.setC id c, "ok")
      | .error e => pure (s, encErr e)
  | _ => none

/-- polynomial registers: `P <op> …` -/
def regOp (s : Sess) (w : List String) : Option (Sess × String) :=
  let fin (dst : String) (r : Except Err PObj) : Sess × String :=
    match r with
    | .ok o => (s.setR dst o, "ok " ++ encObj o)
    | .error e => (s, encErr e)
  match w with
  | "set" :: dst :: kind :: args => do let o ← decObj kind args; pure (s.setR dst o, "ok")
  | ["get", a] => do let o ← s.getR a; pure (s, encObj o)
  | ["add", dst, a, b] => do let a ← s.getR a; let b ← s.getR b; pure (fin dst (a.add b))
  | ["sub", dst, a, b] => do let a ← s.getR a; let b ← s.getR b; pure (fin dst (a.sub b))
  | ["matmul", dst, a, b] => do let a ← s.getR a; let b ← s.getR b; pure (fin dst (a.matmul b))
  | ["rmul", dst, c, a] => do let c ← decCx c; let a ← s.getR a; pure (fin dst (a.rmul c))
  | ["div", dst, a, c] => do let c ← decCx c; let a ← s.getR a; pure (fin dst (a.div c))
  | ["neg", dst, a] => do let a ← s.getR a; pure (fin dst (.ok a.neg))
  | ["trace", a] => do let a ← s.getR a; pure (s, ex encCx a.trace)
  | ["reduce", dst, a, tn, td] => do
      let a ← s.getR a; let tn ← tn.toNat?; let td ← td.toNat?
      match a with
      | .poly ts => pure (fin dst (.ok (normP a.N (reduce ts tn td))))
      | .zero n => pure (fin dst (.ok (.zero n)))
      | _ => none
  | _ => none

def step (s : Sess) (line : String) : Sess × String :=
  let w := (line.trimAscii.toString.splitOn " ").filter (· != "")
  match w with
  | [] => (s, bad w)
  | "circ" :: rest => match circOp s rest with
    | some r => r
    | none => (s, bad w)
  | "P" :: rest => match regOp s rest with
    | some r => r
    | none => (s, bad w)
  | ["reset"] => ({}, "ok")
  | _ => match pureOp w with
    | some r => (s, r)
    | none => (s, bad w)

partial def loop (h : IO.FS.Stream) (out : IO.FS.Stream) (s : Sess) : IO Unit := do
  let line ← h.getLine
  if line.isEmpty then return ()
  let (s', o) := step s line
  out.putStrLn o
  out.flush
  loop h out s'

end Drv

def main : IO Unit := do
  Drv.loop (← IO.getStdin) (← IO.getStdout) {}
