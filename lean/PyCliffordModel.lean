-- Root of the `PyCliffordModel` library: executable model (import-free), specifications, proofs, properties.
import PyCliffordModel.Model.Basic
import PyCliffordModel.Model.Kernels
import PyCliffordModel.Model.Z2
import PyCliffordModel.Model.Stab
import PyCliffordModel.Model.Circuit
import PyCliffordModel.Model.Diag
import PyCliffordModel.Model.Parse
import PyCliffordModel.Model.Poly
import PyCliffordModel.Spec.Ket
import PyCliffordModel.Proofs.Algebra
import PyCliffordModel.Properties.C01
import PyCliffordModel.Spec.Maps
import PyCliffordModel.Proofs.Rotate
import PyCliffordModel.Properties.C02
