"""Torch mirror: the properties whose anchors include torchclifford files hold for the PyTorch port as well. Each such check ends
with the port-equivalence probes (props/c13.py) restricted to the shared functions its property is about: pyclifford's result
(checked against the model and the oracle by the property's own check) must be reproduced by torchclifford on the same input.
A difference is reported as a failure of the property at site `torch.<function>` with the input as replay."""

MIRROR = {
    'C01': ['acq', 'ipow', 'ps0', 'acq_mat', 'acq_grid', 'ipow_product', 'Pauli.__matmul__', 'PauliPolynomial.__matmul__',
            'PauliPolynomial.__matmul__(no terms)', 'PauliPolynomial arithmetic (mixed operands)'],
    'C02': ['clifford_rotate', 'clifford_rotate_signless', 'PauliList.rotate_by', 'PauliList.rotate_by(mask)', 'clifford_rotation_map',
            'PauliPolynomial.rotate_by', 'clifford_rotation_gate(qubits=)'],
    'C03': ['pauli_combine', 'pauli_transform', 'PauliList.transform_by', 'PauliList.transform_by(mask)', 'CliffordMap.embed',
            'clifford_rotation_map', 'clifford_rotation_gate(qubits=)'],
    'C04': ['CliffordMap.compose', 'CliffordMap.inverse', 'PauliList.transform_by'],
    'C07': ['stabilizer_expect', 'vectorizable_stabilizer_expect', 'StabilizerState.expect(PauliList)',
            'StabilizerState.expect(StabilizerState)', 'StabilizerState.expect(PauliPolynomial)', 'StabilizerState.expect(Pauli)',
            'vectorizable_expct(PauliList)', 'vectorizable_expct(Pauli)', 'vectorizable_expct(PauliPolynomial)', 'StabilizerState.get_prob'],
    'C08': ['z2rank', 'StabilizerState.entropy', 'clifford_rotation_gate(qubits=)', 'CliffordGate.forward'],
    'C09': ['CliffordCircuit.forward', 'CliffordCircuit.forward(compiled)', 'CliffordGate.forward', 'clifford_rotation_gate', 'clifford_rotation_gate(qubits=)',
            'CliffordCircuit.copy.forward', 'CliffordLayer.copy(compiled).forward'],
    'C10': ['CliffordCircuit.forward', 'CliffordCircuit.backward', 'CliffordCircuit.backward(compiled)', 'CliffordGate.backward',
            'CliffordCircuit.copy.backward', 'CliffordLayer.copy(compiled).backward', 'CliffordMap.inverse', 'CliffordCircuit.povm'],
    'C12': ['map_to_state', 'state_to_map', 'CliffordMap.to_state', 'StabilizerState.to_map', 'stabilizer_state',
            'stabilizer_state(anticommuting list)', 'zero_state', 'one_state', 'maximally_mixed_state', 'ghz_state', 'stabilizer_project', 'StabilizerState.to_qutip', 'StabilizerState.density_matrix'],
    'C15': ['PauliPolynomial.__matmul__', 'PauliPolynomial.__matmul__(no terms)', 'PauliPolynomial.__add__', 'PauliPolynomial.__sub__',
            'PauliPolynomial.__rmul__', 'PauliPolynomial.reduce', 'PauliPolynomial.reduce(tol)', 'Pauli.__matmul__', 'PauliPolynomial arithmetic (mixed operands)', 'PauliPolynomial.trace',
            'PauliPolynomial.reduce leaves its receiver unchanged', 'pauli_identity / pauli_zero'],
    'C17': ['StabilizerState.copy', 'CliffordCircuit.copy.forward', 'CliffordCircuit.copy.backward', 'CliffordLayer.copy(compiled).forward',
            'CliffordLayer.copy(compiled).backward', 'PauliPolynomial.reduce leaves its receiver unchanged', 'diagonalize(StabilizerState)',
            'Pauli.copy (taken from a list that is rewritten afterwards)', 'CliffordCircuit.copy (extended afterwards)',
            'StabilizerState.expect leaves its argument unchanged'],
    'C18': ['front', 'condense', 'pauli_is_onsite', 'pauli_diagonalize1', 'pauli_diagonalize2', 'diagonalize(Pauli)', 'diagonalize(StabilizerState)', 'CliffordGate.forward(single Pauli)'],
    'C20': ['pauli()', 'repr', 'pauli_tokenize', 'PauliList.__getitem__', 'PauliList.__rmul__', 'PauliList.__truediv__', 'PauliList.__neg__',
            'repr(PauliList)', 'PauliList.tokenize', 'pauli(repr(P))', 'paulis(repr lines)', 'weight', 'Pauli.as_list'],
}


def run(ctx):
    names = MIRROR.get(ctx.prop)
    if not names:
        return
    import props.c13 as c13
    c13.run(ctx, only=set(names))
    ctx.notes.append('torch mirror: %s compared between pyclifford and torchclifford on the same inputs' % ', '.join(names))
