"""Wire encoders/decoders for the model driver (see lean/Driver/Main.lean)."""
from fractions import Fraction

LET = {(0, 0): 'I', (1, 0): 'X', (1, 1): 'Y', (0, 1): 'Z'}
XZ = {v: k for k, v in LET.items()}


def estr(g):
    g = [int(v) for v in g]
    if len(g) == 0:
        return '_'
    return ''.join(LET[(g[2 * i], g[2 * i + 1])] for i in range(len(g) // 2))


def dstr(s):
    if s == '_':
        return []
    out = []
    for c in s:
        out.extend(XZ[c])
    return out


def epauli(g, p):
    return estr(g) + ':' + str(int(p))


def dpauli(s):
    g, p = s.split(':')
    return dstr(g), int(p)


def erows(gs, ps):
    if len(gs) == 0:
        return '_'
    return ','.join(epauli(g, p) for g, p in zip(gs, ps))


def drows(s):
    if s == '_':
        return [], []
    gs, ps = [], []
    for it in s.split(','):
        g, p = dpauli(it)
        gs.append(g)
        ps.append(p)
    return gs, ps


def estrs(gs):
    if len(gs) == 0:
        return '-'
    return ','.join(estr(g) for g in gs)


def dstrs(s):
    if s == '-':
        return []
    return [dstr(x) for x in s.split(',')]


def ebits(b):
    b = [int(bool(v)) for v in b]
    return ''.join(map(str, b)) if b else '_'


def dbits(s):
    return [] if s == '_' else [int(c) for c in s]


def emat(m):
    if len(m) == 0:
        return '-'
    return ';'.join(ebits(r) for r in m)


def dmat(s):
    if s == '-':
        return []
    return [dbits(r) for r in s.split(';')]


def eints(l):
    l = [int(v) for v in l]
    return ','.join(map(str, l)) if l else '_'


def dints(s):
    return [] if s == '_' else [int(x) for x in s.split(',')]


def erat(x):
    f = Fraction(x)
    return str(f.numerator) if f.denominator == 1 else '%d/%d' % (f.numerator, f.denominator)


def ecx(c):
    c = complex(c)
    return erat(Fraction(c.real)) + ',' + erat(Fraction(c.imag))


def dcx(s):
    a, b = s.split(',')
    return complex(float(Fraction(a)), float(Fraction(b)))


def dcx_exact(s):
    a, b = s.split(',')
    return Fraction(a), Fraction(b)


def epoly(gs, ps, cs):
    if len(gs) == 0:
        return '_'
    return '|'.join('%s:%d:%s' % (estr(g), int(p), ecx(c)) for g, p, c in zip(gs, ps, cs))


def dpoly(s):
    if s == '_':
        return []
    out = []
    for t in s.split('|'):
        g, p, c = t.split(':')
        out.append((dstr(g), int(p), dcx_exact(c)))
    return out


def pmod(ps):
    return [int(p) % 4 for p in ps]
