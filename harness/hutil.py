"""helpers shared by the property modules"""
import numpy as np
import oracle as O
import enc as E
import gen as G


def map_apply(rows, P):
    """oracle image of operator P under the map whose rows (oracle ops) are the images of X0,Z0,X1,Z1,…:
    P = i^k prod_k letter_k ;  X_k -> rows[2k], Z_k -> rows[2k+1], Y_k -> i * rows[2k] * rows[2k+1]"""
    letters, k = P
    n = len(rows[0][0]) if rows else 0
    acc = (tuple('I' * n), k % 4)
    for q, c in enumerate(letters):
        if c == 'X':
            acc = O.omul(acc, rows[2 * q])
        elif c == 'Z':
            acc = O.omul(acc, rows[2 * q + 1])
        elif c == 'Y':
            acc = O.omul(acc, O.oscale(O.omul(rows[2 * q], rows[2 * q + 1]), 1))
    return acc


def map_apply_masked(rows, idx, P):
    """oracle image of P under the small map `rows` acting on the qubits `idx` (ascending) of P"""
    letters, k = P
    sub = tuple(letters[i] for i in idx)
    img = map_apply(rows, (sub, 0))
    out = list(letters)
    for j, i in enumerate(idx):
        out[i] = img[0][j]
    return tuple(out), (k + img[1]) % 4


def rotate_masked(Gop, idx, P):
    """oracle: rotation by generator Gop living on qubits idx of P"""
    n = len(P[0])
    full = ['I'] * n
    for j, i in enumerate(idx):
        full[i] = Gop[0][j]
    return G.rotate_op((tuple(full), Gop[1]), P)


def valid_map(rows):
    """canonical commutation pattern + Hermitian phases"""
    n2 = len(rows)
    for i in range(n2):
        if rows[i][1] % 2:
            return 'row %d not Hermitian' % i
        for j in range(n2):
            want = (i // 2 == j // 2 and i != j)
            if O.anticommute(rows[i], rows[j]) != want:
                return 'rows %d,%d commutation' % (i, j)
    return None


def erows_ops(ops):
    if not ops:
        return '_'
    return E.erows([O.to_g(o[0]) for o in ops], [o[1] for o in ops])


def drows_ops(s):
    gs, ps = E.drows(s)
    return [O.from_gp(g, p) for g, p in zip(gs, ps)]


def state_canon(rows, n, r):
    """semantic content of a tableau: r and the canonical generating set of the signed stabilizer group"""
    can, dep = O.canon_group(rows[r:n])
    return (r, can, dep)


def snapshot(obj):
    out = []
    for name in ('g', 'p', 'gs', 'ps', 'cs', 'c', 'r'):
        if hasattr(obj, name):
            v = getattr(obj, name)
            out.append((name, np.array(v).copy().tolist() if not np.isscalar(v) else v))
    return out


def embed_ops(small, pos, n):
    """the map on n qubits that acts as `small` (a map on len(pos) qubits) on the qubits `pos` (ascending) and as the identity elsewhere"""
    rows = []
    for q in range(n):
        if q in pos:
            k = pos.index(q)
            for r in (small[2 * k], small[2 * k + 1]):
                l = ['I'] * n
                for j, c in enumerate(r[0]):
                    l[pos[j]] = c
                rows.append((tuple(l), r[1]))
        else:
            for c in 'XZ':
                l = ['I'] * n
                l[q] = c
                rows.append((tuple(l), 0))
    return rows
