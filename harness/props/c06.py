"""C06 measurement follows the Born rule and the projection postulate."""
import itertools
import numpy as np
import oracle as O
import gen as G
import enc as E
import hutil as H
import rng as R

RULE = ('(tableau, commuting observable list) cases: tableaux of every rank with random signs built by the harness (N<=6), '
        'observable lists biased to every branch (in the group, logical, anticommuting with an active stabilizer, with active and '
        'standby rows, identity, random); jitted path with observed coins, and the un-jitted kernel driven by an explicit coin tape '
        'over all coin sequences; every case is measured twice (repeatability). non-trivial = at least one random and the list '
        'is non-empty or the state is mixed; distinct = distinct (tableau, r, observables, coins).')
ASSUMPTIONS = ['projection postulate and Born rule at stabilizer-group level = P rho P / Tr (textbook; validated numerically against dense matrices for N<=4 on sampled cases)',
               'fairness of the coin is property C16']


def spec_run(active, n, obs, outs):
    """oracle trajectory: returns (kinds, determined outcomes (None for random), final generators)"""
    kinds, det = [], []
    act = list(active)
    for o, out in zip(obs, outs):
        kind, d, new = O.measure_spec(act, n, o, random_out=int(out))
        kinds.append(kind)
        det.append(d)
        act = new
    return kinds, det, act


def check_case(ctx, impl, rows, r, obs, okinds, mode, coins=None, seed=0):
    n = len(rows) // 2
    st = impl.state(rows, r)
    ol = impl.plist(obs, n)
    try:
        if mode == 'jit':
            R.seed_numba(seed)
            out, lp = st.measure(ol)
        else:
            tape = R.Tape(coins)
            with R.patched(tape):
                old = impl.ST.stabilizer_measure
                impl.ST.stabilizer_measure = impl.U.stabilizer_measure.py_func
                try:
                    out, lp = st.measure(ol)
                finally:
                    impl.ST.stabilizer_measure = old
    except R.TapeExhausted:
        if mode == 'tape' and coins is not None:
            # the tape holds exactly one coin per undetermined outcome (computed by the oracle): asking for more is a failure
            ctx.fail('stabilizer_measure', 'the kernel draws more random numbers than there are undetermined outcomes (%d coins supplied)' % len(coins),
                     dict(rows=rows, r=r, obs=obs, coins=coins))
        return None
    except Exception as e:
        ctx.fail('StabilizerState.measure', 'implementation raised %r' % e, dict(rows=rows, r=r, obs=obs))
        return None
    out = [int(v) for v in out]
    post = impl.ops_of(st)
    r2 = int(st.r)
    replay = dict(rows=rows, r=r, obs=obs, out=out, log2prob=float(lp), post=post, r_post=r2, mode=mode, coins=coins, seed=seed)
    # ---- property on the implementation (oracle)
    kinds, det, act = spec_run(rows[r:n], n, obs, out)
    nrand = sum(1 for k in kinds if k != 'determined')
    for k in kinds:
        ctx.count('branch:' + k)
    site = 'stabilizer_measure'
    bad = False
    for k, (d, o_) in enumerate(zip(det, out)):
        if d is not None and d != o_:
            ctx.fail(site, 'outcome fixed by the state is %d, returned %d (observable %d)' % (d, o_, k), replay); bad = True
    if abs(float(lp) + nrand) > 1e-9:
        ctx.fail(site, 'log2prob %s differs from log2 of the true probability %d' % (lp, -nrand), replay); bad = True
    inv = O.tableau_invariant(post, n, r2) if len(post) == 2 * n else 'row count'
    if inv is not None:
        ctx.fail(site, 'post-measurement tableau invalid: ' + inv, replay); bad = True
    else:
        want = (n - len(O.canon_group(act)[0]), O.canon_group(act)[0])
        got = (r2, O.canon_group(post[r2:n])[0])
        if got != want:
            ctx.fail(site, 'post-measurement state is not the normalised projection (rank or stabilizer group differs)',
                     dict(replay, want_r=want[0], want_group=want[1], got_group=got[1])); bad = True
    # tape mode: the k-th undetermined outcome is decided by the k-th coin drawn (and by nothing else), every coin is used
    if mode == 'tape' and coins is not None:
        used = 0
        for k, (kd, o_, ob) in enumerate(zip(kinds, out, obs)):
            if kd != 'determined':
                want_o = (coins[used] + ob[1] // 2) % 2 if used < len(coins) else None
                if want_o is not None and o_ != want_o:
                    ctx.fail(site, 'undetermined outcome %d does not follow its own coin (coin %d of the call is %d, outcome bit %d): coins are not independent'
                             % (k, used, coins[used], o_), replay); bad = True
                used += 1
        if tape.pos != used or tape.foreign:
            ctx.fail(site, 'the kernel consumed %d random bits (%d foreign draws) for %d undetermined outcomes' % (tape.pos, tape.foreign, used), replay); bad = True
    # repeat: same outcomes, probability one, same state
    if not bad:
        try:
            out2, lp2 = st.measure(impl.plist(obs, n))
            out2 = [int(v) for v in out2]
            if out2 != out or abs(float(lp2)) > 1e-9:
                ctx.fail(site, 'repeating the measurement gives outcomes %s log2prob %s (first: %s)' % (out2, lp2, out), replay)
            elif (int(st.r), O.canon_group(impl.ops_of(st)[int(st.r):n])[0]) != got:
                ctx.fail(site, 'repeating the measurement changes the state', replay)
        except Exception as e:
            ctx.fail(site, 'repeated measurement raised %r' % e, replay)
    # ---- correspondence with the model: coins that reproduce the observed random outcomes
    cbits = [(o_ + (ob[1] // 2)) % 2 for o_, ob in zip(out, obs)]
    line = 'measurek %d %s %s %s' % (r, H.erows_ops(rows), H.erows_ops(obs), E.ebits(cbits))

    def dec(s):
        if not s.startswith('ok '):
            return s
        _, r_, t_, outs_, rnd_ = s.split(' ')
        rws = H.drows_ops(t_)
        r_ = int(r_)
        return dict(out=E.dints(outs_), rnd=E.dbits(rnd_), r=r_, group=O.canon_group(rws[r_:n])[0])
    implv = dict(out=out, rnd=[int(k != 'determined') for k in kinds], r=r2, group=O.canon_group(post[r2:n])[0])
    ctx.q('measure', line, implv, dec, info=dict(raw_post=H.erows_ops(post)))
    ctx.case((tuple(rows), r, tuple(obs), tuple(out)), nrand > 0, sample=dict(op='measure', N=n, r=r, obs=obs, kinds=kinds, out=out, log2prob=float(lp)))
    ctx.count('N=%d' % n); ctx.count('r=%d' % r)
    return replay


def dense_check(ctx, rows, r, obs, rep):
    n = len(rows) // 2
    rho = O.dense_state(rows[r:n], n)
    d = 2 ** n
    prob = 1.0
    for o, out in zip(obs, rep['out']):
        P = (np.eye(d) + (-1) ** out * O.dense(o)) / 2
        pr = np.real(np.trace(P @ rho))
        if pr < 1e-12:
            ctx.fail('stabilizer_measure', 'returned an outcome of probability zero (dense)', rep)
            return
        prob *= pr
        rho = P @ rho @ P / pr
    if abs(np.log2(prob) - rep['log2prob']) > 1e-9:
        ctx.fail('stabilizer_measure', 'log2prob differs from dense Born probability %s' % np.log2(prob), rep)
    rho2 = O.dense_state(rep['post'][rep['r_post']:n], n)
    if not np.allclose(rho, rho2):
        ctx.fail('stabilizer_measure', 'post state differs from dense normalised projection', rep)
    ctx.count('dense')


def run(ctx):
    import impl
    rng = ctx.rng
    R.warm_up()
    # jitted path, observed coins
    for _ in range(ctx.budget(500, 6000)):
        n = rng.choice([1, 2, 2, 3, 3, 4, 5, 6])
        rows, r = G.rand_tableau(rng, n)
        obs, kinds = G.commuting_list(rng, rows, n, r, rng.randrange(1, 5))
        rep = check_case(ctx, impl, rows, r, obs, kinds, 'jit', seed=rng.randrange(1 << 30))
        if rep and n <= 4 and rng.random() < 0.25:
            dense_check(ctx, rows, r, obs, rep)
    # measuring with a StabilizerState argument = measuring its active stabilizers
    for _ in range(ctx.budget(40, 400)):
        n = rng.choice([1, 2, 3, 4])
        rows, r = G.rand_tableau(rng, n)
        rows2, r2 = G.rand_tableau(rng, n)
        a, b = impl.state(rows, r), impl.state(rows, r)
        sd = rng.randrange(1 << 30)
        R.seed_numba(sd); o1 = a.measure(impl.state(rows2, r2))
        R.seed_numba(sd); o2 = b.measure(impl.plist(rows2[r2:n], n))
        if [int(v) for v in o1[0]] != [int(v) for v in o2[0]] or o1[1] != o2[1] or impl.ops_of(a) != impl.ops_of(b):
            ctx.fail('StabilizerState.measure', 'state argument is not measured as its active stabilizers', dict(rows=rows, r=r, rows2=rows2, r2=r2))
        ctx.case(('state-arg', tuple(rows), r, tuple(rows2), r2), True)
    # tape-controlled kernel: every coin sequence
    for _ in range(ctx.budget(60, 600)):
        n = rng.choice([1, 2, 3, 4])
        rows, r = G.rand_tableau(rng, n)
        obs, kinds = G.commuting_list(rng, rows, n, r, rng.randrange(1, 4))
        kk, _, _ = spec_run(rows[r:n], n, obs, [0] * len(obs))
        nr = sum(1 for k in kk if k != 'determined')
        for coins in itertools.product([0, 1], repeat=nr):
            check_case(ctx, impl, rows, r, obs, kinds, 'tape', coins=list(coins))
            ctx.count('tape-sequences')
    # the same measurement through a measurement layer (Circuit.measure(*qubits)): qubits in any listed order, repeats allowed
    import impl as _impl
    CI_ = _impl.CI
    for _ in range(ctx.budget(60, 600)):
        n = rng.choice([1, 2, 3, 4, 5])
        rows, r = G.rand_tableau(rng, n)
        qs = [rng.randrange(n) for _k in range(rng.randrange(1, 5))]
        zs = [(tuple('Z' if i == q else 'I' for i in range(n)), 0) for q in qs]
        sd = rng.randrange(1 << 30)
        st1, st2 = _impl.state(rows, r), _impl.state(rows, r)
        try:
            R.seed_numba(sd)
            out1, lp1 = st1.measure(_impl.plist(zs, n))
            c_ = CI_.Circuit(n)
            c_.measure(*qs)
            R.seed_numba(sd)
            c_.forward(st2)
        except Exception as e:
            ctx.fail('MeasureLayer.forward', 'implementation raised %r' % e, dict(rows=rows, r=r, qubits=qs)); continue
        a_ = ([1 - 2 * int(v) for v in out1], float(lp1), _impl.ops_of(st1), int(st1.r))
        b_ = ([int(v) for v in c_.measure_result], float(c_.log2prob), _impl.ops_of(st2), int(st2.r))
        ctx.case(('layer-vs-direct', tuple(rows), r, tuple(qs), sd), len(set(qs)) < len(qs) or qs != sorted(qs), sample=dict(op='Circuit.measure vs state.measure', N=n, r=r, qubits=qs))
        ctx.count('layer-vs-direct')
        if a_ != b_:
            ctx.fail('MeasureLayer.forward', 'measuring Z on qubits %s through a measurement layer differs from measuring the same list directly (same coins): %s vs %s' % (qs, str(b_)[:200], str(a_)[:200]),
                     dict(rows=rows, r=r, qubits=qs, seed=sd))
    # the projection postulate for the operator the state denotes, through the library's own polynomial algebra:
    # P rho P = p rho' with P = (1 +- O)/2, p = 1/2 for a random outcome and 1 for a determined one (theorem C06_measure_is_projection
    # is about the model's densityPoly / polyMatmul: both are in the correspondence here)
    import enc as E
    pc = impl.pc
    for _ in range(ctx.budget(40, 400)):
        n = rng.choice([1, 2, 2, 3, 3, 4])
        rows, r = G.rand_tableau(rng, n)
        Oop = G.rand_observable(rng, rows, n, r)[0]
        st = impl.state(rows, r)
        try:
            rho = st.density_matrix
            R.seed_numba(rng.randrange(1 << 30))
            out, logp = st.measure(impl.plist([Oop], n))
            out = int(out[0]); rnd = (float(logp) != 0.0)
            rho2 = st.density_matrix
            sgn = 1.0 if out == 0 else -1.0
            Pp = 0.5 * pc.pauli_identity(n) + (0.5 * sgn) * impl.pauli(Oop).as_polynomial() if hasattr(pc, 'pauli_identity') else None
            lhs = (Pp @ rho @ Pp).reduce()
        except Exception as e:
            ctx.fail('StabilizerState.measure', 'implementation raised %r while forming P rho P' % e, dict(rows=rows, r=r, O=Oop)); continue
        val = lambda poly: {O.from_gp(g, 0)[0]: complex(c) * 1j ** int(p) for g, p, c in zip(np.asarray(poly.gs), np.asarray(poly.ps), np.asarray(poly.cs)) if abs(c) > 1e-12}
        a_, b_ = val(lhs), {k: v * (0.5 if rnd else 1.0) for k, v in val(rho2).items()}
        ctx.case(('projection-postulate', tuple(rows), r, Oop), rnd, sample=dict(op='P rho P = p rho_after', N=n, r=r, O=Oop, random=rnd))
        ctx.count('postulate:' + ('random' if rnd else 'determined'))
        if set(a_) != set(b_) or any(abs(a_[k] - b_[k]) > 1e-12 for k in a_):
            ctx.fail('StabilizerState.measure', 'P rho P is not p times the density matrix of the state after the measurement (outcome %d, %s)' % (out, 'random' if rnd else 'determined'),
                     dict(rows=rows, r=r, O=Oop, outcome=out))
        for rws, rr, tag in ((rows, r, 'before'), (impl.ops_of(st), int(st.r), 'after')):
            dm = rho if tag == 'before' else rho2
            ctx.q('density_matrix', 'densitypoly %d %s' % (rr, H.erows_ops(rws)), [(O.from_gp(g, p), complex(c)) for g, p, c in zip(dm.gs, dm.ps, dm.cs)],
                  lambda s_: [(O.from_gp(g, p), complex(float(c[0]), float(c[1]))) for g, p, c in E.dpoly(s_)])
    # post-selection = projection onto a chosen outcome: probability Tr(P rho), projected state, and the same post-selection
    # repeated has probability one; observables of either sign, both outcomes, determined and undetermined cases
    for _ in range(ctx.budget(80, 900)):
        n = rng.choice([1, 2, 2, 3, 3])
        rows, _r = G.rand_tableau(rng, n, 0)
        if rng.random() < 0.4:            # an element of the group up to sign: the determined case
            Pk = O.oprod([rows[i] for i in range(n) if rng.random() < 0.6] or [rows[0]], n)
            Pk = (Pk[0], (Pk[1] + 2 * rng.randrange(2)) % 4)
        else:
            Pk = G.rand_herm(rng, n, nonid=True)
        res = rng.randrange(2)
        d = 2 ** n
        rho = O.dense_state(rows[0:n], n)
        Pm = (np.eye(d) + (-1) ** res * O.dense(Pk)) / 2
        pr = float(np.real(np.trace(Pm @ rho)))
        st = impl.state(rows, 0)
        ctx.case(('postselect', tuple(rows), Pk, res), pr not in (0.0, 1.0), sample=dict(op='postselect', N=n, P=Pk, outcome=res, born=round(pr, 6)))
        ctx.count('postselect:' + ('impossible' if pr < 1e-9 else 'certain' if pr > 1 - 1e-9 else 'half') + (':negative-observable' if Pk[1] == 2 else ''))
        try:
            got = float(st.postselect(impl.pauli(Pk), res))
        except Exception as e:
            ctx.fail('StabilizerState.postselect', 'implementation raised %r' % e, dict(rows=rows, P=Pk, outcome=res)); continue
        if abs(got - pr) > 1e-9:
            ctx.fail('StabilizerState.postselect', 'postselect(%s, %d) returned probability %s, Tr(P rho) = %s' % (Pk, res, got, round(pr, 6)), dict(rows=rows, P=Pk, outcome=res)); continue
        if pr < 1e-9:
            continue
        post = impl.ops_of(st)
        inv = O.tableau_invariant(post, n, int(st.r))
        if inv is not None or int(st.r) != 0:
            ctx.fail('StabilizerState.postselect', 'the state after post-selection is not a valid pure tableau: %s' % inv, dict(rows=rows, P=Pk, outcome=res, post=post)); continue
        if not np.allclose(O.dense_state(post[0:n], n), Pm @ rho @ Pm / pr):
            ctx.fail('StabilizerState.postselect', 'the state after post-selection is not P rho P / Tr(P rho)', dict(rows=rows, P=Pk, outcome=res, post=post)); continue
        try:
            again = float(st.postselect(impl.pauli(Pk), res))
            other = float(impl.state(post, 0).postselect(impl.pauli(Pk), 1 - res))
        except Exception as e:
            ctx.fail('StabilizerState.postselect', 'repeating the post-selection raised %r' % e, dict(rows=rows, P=Pk, outcome=res)); continue
        if abs(again - 1.0) > 1e-9 or abs(other) > 1e-9:
            ctx.fail('StabilizerState.postselect', 'after post-selecting %s = %s the same post-selection has probability %s (must be 1) and the opposite one %s (must be 0)'
                     % (Pk, '+1' if res == 0 else '-1', again, other), dict(rows=rows, P=Pk, outcome=res))
