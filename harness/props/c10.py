"""C10 backward is the exact inverse of forward."""
import numpy as np
import oracle as O
import gen as G
import enc as E
import hutil as H
import circ_util as CU

RULE = ('deterministic gates, layers and circuits (generator / forward-map / backward-map / named), compiled and uncompiled, '
        'N<=6, length<=30; both orders (backward after forward, forward after backward) on Pauli lists with arbitrary phases '
        'and on stabilizer states (strings, phases, rank). non-trivial = program of at least two layers; distinct = distinct '
        '(program, configuration, order).')
ASSUMPTIONS = []


def run(ctx):
    import impl
    CI, pc = impl.CI, impl.pc
    rng = ctx.rng
    cid = 0
    for it in range(ctx.budget(320, 4000)):
        N = rng.choice([1, 2, 3, 3, 4, 5, 6])
        length = rng.choice([1, 1, 2, 3, 5, 8, 12, 20, 30])
        prog = CU.rand_program(rng, N, length)
        if rng.random() < 0.05:       # a wide register: qubit indices beyond 63, gates on the top qubits
            N = rng.choice([65, 66, 72])
            prog = CU.wide_program(rng, N, min(length, 8))
            ctx.count('wide-register')
        klass = rng.choice(['CliffordCircuit', 'Circuit'])
        conf = rng.choice(['plain', 'plain', 'layers', 'compiled', 'compiled', 'gate', 'layer', 'recompiled'])
        order = rng.choice(['bf', 'fb'])
        ctx.count('conf=' + conf); ctx.count('order=' + order); ctx.count('N=%d' % N)
        Ps = [G.rand_op(rng, N) for _ in range(4)] + G.id_map_ops(N)
        rows, r = G.rand_tableau(rng, N)
        rep = dict(N=N, program=prog, klass=klass, conf=conf, order=order)
        try:
            if conf == 'gate':
                obj = CU.impl_gate(impl, prog[0]); prog = prog[:1]
                if rng.random() < 0.5:
                    obj.compile()
            elif conf == 'layer':
                # one layer of mutually independent gates
                used, sel = set(), []
                for d in prog:
                    if not (set(d['qubits']) & used):
                        sel.append(d); used |= set(d['qubits'])
                prog = sel
                obj = CI.CliffordLayer(*[CU.impl_gate(impl, d) for d in prog])
                if rng.random() < 0.5:
                    obj.compile(N)
            else:
                obj = CI.CliffordCircuit(N) if klass == 'CliffordCircuit' else CI.Circuit(N)
                cid += 1
                a = 'c%d' % cid
                ctx.drv.ask('circ %s new %d' % (a, N))
                kcut = rng.randrange(0, len(prog) + 1) if conf == 'recompiled' else len(prog)
                for d in prog[:kcut]:
                    obj.take(CU.impl_gate(impl, d)); CU.model_take(ctx.drv, a, d)
                if conf == 'recompiled':
                    obj.compile(); ctx.drv.ask('circ %s compile' % a)
                    for d in prog[kcut:]:
                        obj.take(CU.impl_gate(impl, d)); CU.model_take(ctx.drv, a, d)
                    obj.compile(); ctx.drv.ask('circ %s compile' % a)
                if conf == 'layers':
                    for layer in obj.layers_forward():
                        layer.compile(N)
                    ctx.drv.ask('circ %s compilelayers' % a)
                if conf == 'compiled':
                    obj.compile()
                    ctx.drv.ask('circ %s compile' % a)
            if rng.random() < 0.3:
                # use the object once in each direction (fills the lazily cached inverse maps), then continue on a copy of it
                warm = impl.plist(Ps)
                obj.forward(warm); obj.backward(warm)
                if hasattr(obj, 'copy') and not (conf in ('compiled', 'recompiled', 'plain', 'layers') and klass == 'Circuit'):
                    obj = obj.copy()
                    ctx.count('copy-after-use')
            nlay = len(list(obj.layers_forward())) if hasattr(obj, 'layers_forward') else 1
            ctx.case((str(prog), klass, conf, order), nlay >= 2, sample=dict(op='backward/forward', N=N, length=len(prog), conf=conf, order=order, layers=nlay))
            f1, f2 = (obj.forward, obj.backward) if order == 'bf' else (obj.backward, obj.forward)
            # oracle: each direction separately
            lst = impl.plist(Ps)
            f1(lst)
            mid = impl.ops_of(lst)
            want_mid = CU.oracle_forward(prog, Ps) if order == 'bf' else CU.oracle_backward(prog, Ps)
            if mid != want_mid:
                ctx.fail('%s.%s' % (type(obj).__name__, 'forward' if order == 'bf' else 'backward'),
                         'first pass differs from the gate-by-gate %s (configuration %s)' % ('product' if order == 'bf' else 'inverse product', conf),
                         dict(rep, Ps=Ps, got=mid, want=want_mid))
            f2(lst)
            if impl.ops_of(lst) != Ps:
                ctx.fail('%s.backward' % type(obj).__name__, '%s does not restore the Pauli list (configuration %s)' % (
                    'backward after forward' if order == 'bf' else 'forward after backward', conf), dict(rep, Ps=Ps, got=impl.ops_of(lst)))
            st = impl.state(rows, r)
            f1(st); f2(st)
            if impl.ops_of(st) != [(x[0], x[1] % 4) for x in rows] or int(st.r) != r:
                ctx.fail('%s.backward' % type(obj).__name__, 'state (strings, phases, rank) not restored (configuration %s, order %s)' % (conf, order),
                         dict(rep, rows=rows, r=r, got=impl.ops_of(st), got_r=int(st.r)))
            if conf in ('plain', 'compiled', 'recompiled', 'layers'):
                d1, d2 = ('fwd', 'bwd') if order == 'bf' else ('bwd', 'fwd')
                ans = ctx.drv.ask('circ %s %s L 0 %s _ - none' % (a, d1, H.erows_ops(Ps)))
                ctx.count('corr:' + d1); ctx.traces += 1
                mv = H.drows_ops(ans.split(' ')[2]) if ans.startswith('ok ') else ans
                if mv != mid:
                    ctx.mismatch(d1, 'circ %s (program of %d gates, %s)' % (d1, len(prog), conf), str(mv)[:600], str(mid)[:600], dict(rep=rep))
                if conf in ('compiled', 'recompiled'):
                    fm, bm = impl.ops_of(obj.forward_map), impl.ops_of(obj.backward_map)
                    ans = ctx.drv.ask('circ %s maps' % a).split(' ')
                    ctx.count('corr:compile')
                    if ans[0] != 'none' and (H.drows_ops(ans[0]) != fm or H.drows_ops(ans[1]) != bm):
                        ctx.mismatch('compile', 'compiled maps of a program of %d gates' % len(prog), ' '.join(ans)[:600], H.erows_ops(fm) + ' ' + H.erows_ops(bm), dict(rep=rep))
        except Exception as e:
            import traceback
            ctx.fail(klass, 'implementation raised %r' % e, dict(rep, tb=traceback.format_exc()[-600:]))
    # a single operator (a Pauli object, not a list) through gates, layers and circuits: same first pass as the oracle, same return
    for _ in range(ctx.budget(60, 600)):
        N = rng.choice([1, 2, 3, 3, 4])
        prog = CU.rand_program(rng, N, rng.choice([1, 1, 2, 3, 5]), kinds=('gen', 'gen', 'fmap', 'bmap', 'named', 'cnot'))
        P = G.rand_op(rng, N)
        for conf in ('gate', 'circuit', 'compiled'):
            try:
                if conf == 'gate':
                    prog1 = prog[:1]
                    obj = CU.impl_gate(impl, prog1[0])
                else:
                    prog1 = prog
                    obj = CI.CliffordCircuit(N)
                    for d in prog1:
                        obj.take(CU.impl_gate(impl, d))
                    if conf == 'compiled':
                        obj.compile()
                ctx.case(('single-operator', str(prog1), P, conf), True, sample=dict(op='single Pauli round trip', N=N, how=conf, P=P))
                ctx.count('single-operator:' + conf)
                for order in ('fb', 'bf'):
                    f1, f2 = (obj.forward, obj.backward) if order == 'fb' else (obj.backward, obj.forward)
                    Q = impl.pauli(P)
                    f1(Q)
                    mid = impl.ops_of(Q)
                    want_mid = (CU.oracle_forward(prog1, [P]) if order == 'fb' else CU.oracle_backward(prog1, [P]))[0]
                    if mid != want_mid:
                        ctx.fail('%s.%s' % (type(obj).__name__, 'forward' if order == 'fb' else 'backward'), 'a single operator: first pass is %s, gate-by-gate %s (%s)' % (mid, want_mid, conf),
                                 dict(N=N, program=prog1, P=P, how=conf))
                    f2(Q)
                    if impl.ops_of(Q) != (P[0], P[1] % 4):
                        ctx.fail('%s.backward' % type(obj).__name__, 'a single operator is not restored by %s (%s): %s' % ('backward after forward' if order == 'fb' else 'forward after backward', conf, impl.ops_of(Q)),
                                 dict(N=N, program=prog1, P=P, how=conf))
            except Exception as e:
                ctx.fail('CliffordCircuit', 'implementation raised %r on a single operator (%s)' % (e, conf), dict(N=N, program=prog, P=P))
    # every numbered single-qubit Clifford C(k) (several are of order 3 or 4, i.e. not their own inverse), alone, in a circuit and
    # compiled: backward undoes forward and forward undoes backward on operators with every phase and on signed mixed tableaux
    for k in range(24):
        for _ in range(ctx.budget(1, 4)):
            N = rng.choice([1, 2, 3])
            q = rng.randrange(N)
            Ps = [G.rand_op(rng, N) for _k in range(4)] + [(tuple('XYZ'[(j_ + i_) % 3] if i_ == q else 'I' for i_ in range(N)), ph_) for j_, ph_ in ((0, 0), (1, 1), (2, 2))]
            rows, r = G.rand_tableau(rng, N)
            for conf in ('gate', 'circuit', 'compiled', 'Circuit'):
                ctx.case(('C(k) round trip', k, N, q, conf), True, sample=dict(op='C', k=k, N=N, qubit=q, how=conf))
                ctx.count('named-C:' + conf)
                try:
                    if conf == 'gate':
                        obj = CI.C(k, q)
                    else:
                        obj = (CI.Circuit(N) if conf == 'Circuit' else CI.CliffordCircuit(N))
                        obj.take(CI.C(k, q))
                        if conf == 'compiled':
                            obj.compile()
                    for order in ('fb', 'bf'):
                        f1, f2 = (obj.forward, obj.backward) if order == 'fb' else (obj.backward, obj.forward)
                        lst = impl.plist(Ps)
                        f1(lst); f2(lst)
                        st = impl.state(rows, r)
                        f1(st); f2(st)
                        if impl.ops_of(lst) != [(x[0], x[1] % 4) for x in Ps] or impl.ops_of(st) != [(x[0], x[1] % 4) for x in rows]:
                            ctx.fail('C', 'C(%d) on qubit %d (%s): %s does not restore the operators / the state' % (k, q, conf, 'backward after forward' if order == 'fb' else 'forward after backward'),
                                     dict(k=k, N=N, qubit=q, how=conf, Ps=Ps, got=impl.ops_of(lst)))
                except Exception as e:
                    ctx.fail('C', 'implementation raised %r for C(%d) (%s)' % (e, k, conf), dict(k=k, N=N, qubit=q))

