"""C17 copy is faithful and independent; queries have no side effects; in-place operations never change their arguments.

The effect signatures assumed by the Lean heap model (Model/Heap.lean: which cells a method reads, writes in place, allocates,
or may alias) are validated here by observation on every run: bitwise snapshots of receiver and arguments before/after every
public call, numpy.shares_memory between copies and originals, and mutate-then-re-observe histories."""
import numpy as np
import oracle as O
import gen as G
import enc as E
import hutil as H
import rng as R
import circ_util as CU

RULE = ('object kinds {Pauli, PauliList, PauliMonomial, PauliPolynomial, CliffordMap, StabilizerState, CliffordGate, CliffordLayer, '
        'CliffordCircuit} x public methods; random inputs N<=5; histories in which the copy (resp. the original, resp. an argument) is '
        'mutated by a random sequence of in-place operations after the call and the other party is re-observed. non-trivial = the '
        'mutation history changes the mutated party; distinct = distinct (kind, method, input).')
ASSUMPTIONS = ['numpy.shares_memory / data buffers are the only channel of sharing between array-backed objects']


def arrays(obj, depth=0):
    """all numpy arrays reachable from an object (fields of library objects, recursively)"""
    out = []
    if isinstance(obj, np.ndarray):
        return [obj]
    if depth > 4 or obj is None or isinstance(obj, (int, float, complex, str, bool, np.generic)):
        return out
    if isinstance(obj, (list, tuple)):
        for x in obj:
            out += arrays(x, depth + 1)
        return out
    if hasattr(obj, '__dict__'):
        for k, v in vars(obj).items():
            if k in ('prev_layer', 'next_layer'):
                continue
            out += arrays(v, depth + 1)
    return out


def value(obj, depth=0):
    """deep value of an object for equality (arrays -> nested lists; phases kept raw)"""
    if isinstance(obj, np.ndarray):
        return ('arr', obj.tolist())
    if obj is None or isinstance(obj, (int, float, complex, str, bool)):
        return obj
    if isinstance(obj, np.generic):
        return obj.item()
    if isinstance(obj, (list, tuple)):
        return [value(x, depth + 1) for x in obj]
    if hasattr(obj, 'layers_forward'):
        fwd = list(obj.layers_forward())
        # the backward chain must visit the same layers in reverse order (positions in the forward chain; -1 = a foreign layer)
        back = [next((i for i, l in enumerate(fwd) if l is b), -1) for b in obj.layers_backward()] if hasattr(obj, 'layers_backward') else None
        return ('circ', getattr(obj, 'N', None), [value(l, depth + 1) for l in fwd], back, value(obj.forward_map), value(obj.backward_map))
    if hasattr(obj, '__dict__'):
        return (type(obj).__name__, sorted((k, value(v, depth + 1)) for k, v in vars(obj).items() if k not in ('prev_layer', 'next_layer')))
    return repr(obj)


def shares(a, b):
    return any(np.shares_memory(x, y) for x in arrays(a) for y in arrays(b))


def mutate(rng, impl, obj, n):
    """a random in-place history on obj (any kind that supports it); returns True if something may have changed"""
    pc = impl.pc
    for _ in range(rng.randrange(1, 4)):
        c = rng.random()
        if hasattr(obj, 'rotate_by') and c < 0.4:
            obj.rotate_by(impl.pauli(G.rand_herm(rng, n, nonid=True)))
        elif hasattr(obj, 'transform_by') and c < 0.7:
            obj.transform_by(impl.cmap(G.rand_map_ops(rng, n)))
        elif isinstance(obj, pc.StabilizerState) and c < 0.9:
            R.seed_numba(rng.randrange(1 << 30))
            obj.measure(impl.plist([G.rand_herm(rng, n, nonid=True)], n))
        else:
            # the caller scribbles over an array it owns; this leaves an arbitrary (possibly invalid) object, so no library call follows
            for a in arrays(obj):
                if a.size:
                    a.flat[rng.randrange(a.size)] = (a.flat[rng.randrange(a.size)] + 1) % 2 if a.dtype != np.complex128 else a.flat[0] + 1
                    break
            return


def run(ctx):
    import impl
    pc, CI = impl.pc, impl.CI
    rng = ctx.rng
    _args_of_take(ctx, impl)
    R.warm_up()

    def make(kind, n):
        if kind == 'Pauli':
            return impl.pauli(G.rand_op(rng, n))
        if kind == 'PauliList':
            return impl.plist([G.rand_op(rng, n) for _ in range(rng.randrange(1, 5))], n)
        if kind == 'PauliMonomial':
            o = G.rand_op(rng, n)
            return pc.PauliMonomial(impl.garr(o[0]), o[1]).set_c(complex(rng.choice([2, -0.5, 1]), rng.choice([0, 1])))
        if kind == 'PauliPolynomial':
            return impl.poly([(G.rand_op(rng, n), complex(rng.choice([1, 2, -0.5]), rng.choice([0, 1]))) for _ in range(rng.randrange(1, 4))])
        if kind == 'CliffordMap':
            return impl.cmap(G.rand_map_ops(rng, n))
        if kind == 'StabilizerState':
            rows, r = G.rand_tableau(rng, n)
            return impl.state(rows, r)
        if kind == 'CliffordGate':
            g = CU.impl_gate(impl, CU.rand_gate(rng, n, kinds=('gen', 'fmap', 'bmap')))
            if rng.random() < 0.5:
                g.compile()
            return g
        if kind == 'CliffordLayer':
            used, gs = set(), []
            for d in CU.rand_program(rng, n, 4, kinds=('gen', 'fmap', 'named')):
                if not (set(d['qubits']) & used):
                    gs.append(CU.impl_gate(impl, d)); used |= set(d['qubits'])
            l = CI.CliffordLayer(*gs)
            if rng.random() < 0.5:
                l.compile(n)
            return l
        if kind == 'CliffordCircuit':
            c = CI.CliffordCircuit(n)
            for d in CU.rand_program(rng, n, rng.randrange(1, 7), kinds=('gen', 'fmap', 'named', 'cnot')):
                c.take(CU.impl_gate(impl, d))
            if rng.random() < 0.4:
                c.compile()
            return c
        raise KeyError(kind)

    kinds = ['Pauli', 'PauliList', 'PauliMonomial', 'PauliPolynomial', 'CliffordMap', 'StabilizerState', 'CliffordGate', 'CliffordLayer', 'CliffordCircuit']
    # ---- copies: faithful, fresh, independent under histories
    for _ in range(ctx.budget(270, 2700)):
        kind = rng.choice(kinds)
        n = rng.choice([1, 2, 3, 4, 5])
        try:
            obj = make(kind, n)
            v0 = value(obj)
            cp = obj.copy()
            ctx.count('copy:' + kind)
            ctx.case(('copy', kind, str(v0)[:200]), True, sample=dict(op='copy', kind=kind, N=n))
            if value(cp) != v0:
                ctx.fail(kind + '.copy', 'copy does not denote the same object (strings, phases, coefficients, rank, compiled maps)',
                         dict(kind=kind, original=str(v0)[:1500], copy=str(value(cp))[:1500]))
                continue
            if value(obj) != v0:
                ctx.fail(kind + '.copy', 'copy() modified the original', dict(kind=kind))
            if kind in ('CliffordGate', 'CliffordLayer', 'CliffordCircuit'):
                # observational equality: the copy acts as the original in both directions, also after both were extended alike
                probes = [G.rand_op(rng, n) for _q in range(3)] + G.id_map_ops(n)

                def act(o_):
                    l1, l2 = impl.plist(probes), impl.plist(probes)
                    o_.forward(l1); o_.backward(l2)
                    return impl.ops_of(l1), impl.ops_of(l2)
                a_o, a_c = act(obj), act(cp)
                if a_o != a_c:
                    ctx.fail(kind + '.copy', 'the copy does not act as the original (forward / backward on the same operators)', dict(kind=kind, original=str(v0)[:1200]))
                    continue
                v0 = value(obj)            # running backward may have filled lazily cached inverse maps
                if kind == 'CliffordCircuit' and rng.random() < 0.5:
                    ext = CU.rand_program(rng, n, rng.randrange(1, 4), kinds=('named', 'cnot', 'gen'))
                    uncompiled = obj.forward_map is None
                    for d_ in ext:
                        obj.take(CU.impl_gate(impl, d_)); cp.take(CU.impl_gate(impl, d_))
                    b_o, b_c = act(obj), act(cp)
                    ctx.count('copy:extended')
                    if b_o != b_c or CU.impl_layers(obj) != CU.impl_layers(cp) or (uncompiled and b_o[0] != CU.oracle_forward(ext, a_o[0])):
                        ctx.fail(kind + '.copy', 'after taking the same further gates the copy and the original differ (layers or action), or do not act as the extended program',
                                 dict(kind=kind, extension=ext, layers=[CU.impl_layers(obj), CU.impl_layers(cp)]))
                    continue
            if shares(obj, cp):
                ctx.fail(kind + '.copy', 'copy shares mutable array data with the original', dict(kind=kind, original=str(v0)[:800]))
                continue
            # history on the copy, re-observe the original; then the other way round
            target, other, vo = (cp, obj, v0) if rng.random() < 0.5 else (obj, cp, value(cp))
            if kind in ('CliffordGate', 'CliffordLayer', 'CliffordCircuit'):
                for a in arrays(target):
                    if a.size:
                        a.flat[0] = (a.flat[0] + 1) % 2
                if kind == 'CliffordCircuit':
                    target.take(CI.H(0))
                if kind == 'CliffordLayer':
                    target.gates.append(CI.H(0))
            else:
                mutate(rng, impl, target, n)
            if value(other) != vo:
                ctx.fail(kind + '.copy', 'mutating one of (original, copy) changed the other', dict(kind=kind, before=str(vo)[:800], after=str(value(other))[:800]))
        except Exception as e:
            import traceback
            ctx.fail(kind + '.copy', 'implementation raised %r' % e, dict(kind=kind, tb=traceback.format_exc()[-500:]))
    # ---- queries leave receiver and arguments unchanged
    for _ in range(ctx.budget(150, 1500)):
        n = rng.choice([1, 2, 3, 4])
        rows, r = G.rand_tableau(rng, n)
        st = impl.state(rows, r)
        pure = impl.state(G.rand_tableau(rng, n, 0)[0], 0)
        mp, mp2 = impl.cmap(G.rand_map_ops(rng, n)), impl.cmap(G.rand_map_ops(rng, n))
        idm = pc.identity_map(n)
        lst = impl.plist([G.rand_herm(rng, n) for _ in range(3)], n)
        pol = impl.poly([(G.rand_op(rng, n), 1.0 + 0j), (G.rand_op(rng, n), 0.5j)])
        pa = impl.pauli(G.rand_herm(rng, n, nonid=True))
        stabs = impl.plist(G.rand_tableau(rng, n, 0)[0][:rng.randrange(1, n + 1)], n)
        queries = [
            ('StabilizerState.expect(PauliList)', st, (lst,), lambda: st.expect(lst)),
            ('StabilizerState.expect(PauliPolynomial)', st, (pol,), lambda: st.expect(pol)),
            ('StabilizerState.expect(Pauli)', st, (pa,), lambda: st.expect(pa)),
            ('StabilizerState.expect(StabilizerState)', pure, (st,), lambda: pure.expect(st)),
            ('StabilizerState.entropy', st, (), lambda: st.entropy(list(range(max(1, n // 2))))),
            ('StabilizerState.sample', st, (), lambda: st.sample(3)),
            ('StabilizerState.get_prob', pure, (), lambda: pure.get_prob(np.zeros(n, dtype=int))),
            ('StabilizerState.density_matrix', st, (), lambda: st.density_matrix),
            ('StabilizerState.to_map', st, (), lambda: st.to_map()),
            ('StabilizerState.__repr__', st, (), lambda: repr(st)),
            ('StabilizerState.stabilizers', st, (), lambda: st.stabilizers),
            ('CliffordMap.compose', mp, (mp2,), lambda: mp.compose(mp2)),
            ('CliffordMap.compose(identity)', mp, (idm,), lambda: mp.compose(idm)),
            ('identity.compose(CliffordMap)', idm, (mp,), lambda: idm.compose(mp)),
            ('PauliList.transform_by(identity)-result', lst, (idm,), lambda: lst.copy().transform_by(idm)),
            ('CliffordMap.inverse', mp, (), lambda: mp.inverse()),
            ('CliffordMap.to_state', mp, (), lambda: mp.to_state()),
            ('CliffordMap.__repr__', mp, (), lambda: repr(mp)),
            ('diagonalize(Pauli)', pa, (), lambda: CI.diagonalize(pa)),
            ('diagonalize(StabilizerState)', pure, (), lambda: CI.diagonalize(pure)),
            ('stabilizer_state(PauliList)', stabs, (), lambda: pc.stabilizer_state(stabs)),
            ('PauliPolynomial.__matmul__', pol, (pa,), lambda: pol @ pa),
            ('PauliPolynomial.__add__', pol, (pa,), lambda: pol + pa),
            ('PauliPolynomial.reduce', pol, (), lambda: pol.reduce()),
            ('PauliList.tokenize', lst, (), lambda: lst.tokenize()),
        ]
        name, recv, args, f = rng.choice(queries)
        ctx.count('query:' + name)
        vr, va = value(recv), [value(a) for a in args]
        try:
            res = f()
        except Exception as e:
            ctx.fail(name, 'implementation raised %r' % e, dict(N=n)); continue
        ctx.case(('query', name, str(vr)[:200]), True, sample=dict(op='query', method=name, N=n))
        if value(recv) != vr:
            ctx.fail(name, 'query modified its receiver', dict(before=str(vr)[:800], after=str(value(recv))[:800]))
        if [value(a) for a in args] != va:
            ctx.fail(name, 'query modified an argument', dict(before=str(va)[:800]))
        # results that are fresh objects must not alias receiver/arguments (mutate result, re-observe)
        if name in ('CliffordMap.compose', 'CliffordMap.compose(identity)', 'identity.compose(CliffordMap)', 'PauliList.transform_by(identity)-result', 'CliffordMap.inverse', 'CliffordMap.to_state', 'StabilizerState.to_map', 'StabilizerState.sample',
                    'StabilizerState.density_matrix', 'stabilizer_state(PauliList)', 'PauliPolynomial.__matmul__', 'PauliPolynomial.__add__',
                    'diagonalize(StabilizerState)', 'diagonalize(Pauli)'):
            for a in arrays(res):
                if a.size:
                    a.flat[0] = a.flat[0] + 1
            if value(recv) != vr or [value(a) for a in args] != va:
                ctx.fail(name, 'result aliases the receiver or an argument (mutating the result changed them)', dict(method=name))
    # ---- circuits: compose / copy, then extend one party and re-observe the other
    for _ in range(ctx.budget(60, 600)):
        n = rng.choice([2, 3, 4])
        mkc = lambda L: (lambda c: [c.take(CU.impl_gate(impl, d)) for d in CU.rand_program(rng, n, L, kinds=('gen', 'fmap', 'named', 'cnot'))] and c or c)(CI.CliffordCircuit(n))
        recv = mkc(rng.choice([0, 0, 1, 3]))
        arg = mkc(rng.randrange(1, 5))
        va = value(arg)
        probe = [G.rand_op(rng, n) for _ in range(4)]
        act = lambda c: impl.ops_of(c.forward(impl.plist(probe)))
        act_b = lambda c: impl.ops_of(c.backward(impl.plist(probe)))
        wa, wb = act(arg), act_b(arg)
        try:
            recv.compose(arg)
            ctx.count('circuit-compose')
            if act(arg) != wa or act_b(arg) != wb:
                ctx.fail('CliffordCircuit.compose', 'compose changed the action of its argument', dict(N=n))
            for d in CU.rand_program(rng, n, rng.randrange(1, 4), kinds=('gen', 'named', 'cnot')):
                recv.take(CU.impl_gate(impl, d))        # extend the receiver afterwards
            if act(arg) != wa or act_b(arg) != wb:   # observed through the action: lazily cached inverse maps inside shared gate objects are not a change
                ctx.fail('CliffordCircuit.compose', 'extending the receiver after compose changed the argument circuit (shared layers)', dict(N=n))
            wr, wrb = act(recv), act_b(recv)
            for d in CU.rand_program(rng, n, rng.randrange(1, 4), kinds=('gen', 'named', 'cnot')):
                arg.take(CU.impl_gate(impl, d))         # extend the argument afterwards
            if act(recv) != wr or act_b(recv) != wrb:
                ctx.fail('CliffordCircuit.compose', 'extending the argument after compose changed the receiver circuit (shared layers)', dict(N=n))
        except Exception as e:
            ctx.fail('CliffordCircuit.compose', 'implementation raised %r' % e, dict(N=n))
        ctx.case(('circuit-compose', n, _), True, sample=dict(op='compose then extend', N=n))
    # ---- a measurement circuit / layer applied again: its own observables are not rewritten by a run (deterministic outcomes recur)
    for _ in range(ctx.budget(40, 400)):
        N = rng.choice([1, 2, 3, 4])
        bits = [rng.randrange(2) for _q in range(N)]
        qs = rng.sample(range(N), rng.randrange(1, N + 1))
        try:
            circ = CI.Circuit(N)
            for q_ in range(N):
                if bits[q_]:
                    circ.take(CI.X(q_))
            circ.measure(*qs)
            want = [(-1 if bits[q_] else 1) for q_ in qs]
            ctx.case(('measure-again', N, tuple(bits), tuple(qs)), True, sample=dict(op='measurement circuit used repeatedly', N=N, bits=bits, qubits=qs))
            ctx.count('measure-again')
            snap_layers = None
            for run_ in range(3):
                st = pc.zero_state(N)
                before = len(circ.measure_result)
                circ.forward(st)
                got = [int(v) for v in circ.measure_result[before:]]
                if got != want:
                    ctx.fail('MeasureLayer.forward', 'run %d of the same measurement circuit on a fresh basis state |%s> reports %s, the state dictates %s' % (run_ + 1, ''.join(map(str, bits)), got, want),
                             dict(N=N, bits=bits, qubits=qs, run=run_ + 1)); break
                obs_now = [(np.asarray(l_.gs).tolist(), np.asarray(l_.ps).tolist()) for l_ in circ.layers_forward() if hasattr(l_, 'gs') and not hasattr(l_, 'gates')]
                if snap_layers is None:
                    snap_layers = obs_now
                elif obs_now != snap_layers:
                    ctx.fail('MeasureLayer.forward', 'a run rewrote the observables stored in the measurement layer', dict(N=N, bits=bits, qubits=qs, before=str(snap_layers)[:200], after=str(obs_now)[:200])); break
        except Exception as e:
            ctx.fail('MeasureLayer.forward', 'implementation raised %r' % e, dict(N=N, bits=bits, qubits=qs))
    # ---- in-place operations change the receiver, never the arguments
    for _ in range(ctx.budget(150, 1500)):
        n = rng.choice([1, 2, 3, 4])
        rows, r = G.rand_tableau(rng, n)
        recv = rng.choice([impl.state(rows, r), impl.plist([G.rand_op(rng, n) for _ in range(3)], n), impl.pauli(G.rand_op(rng, n)),
                           impl.poly([(G.rand_op(rng, n), 1 + 0j), (G.rand_op(rng, n), 2j)])])
        gen = impl.pauli(G.rand_herm(rng, n, nonid=True))
        mp = impl.cmap(G.rand_map_ops(rng, n))
        m, idx = G.rand_mask(rng, n)
        gen_s = impl.pauli(G.rand_herm(rng, len(idx), nonid=True))
        mp_s = impl.cmap(G.rand_map_ops(rng, len(idx)))
        marr = np.array(m)
        gate = CU.impl_gate(impl, CU.rand_gate(rng, n, kinds=('gen', 'fmap', 'named')))
        obs = impl.plist([G.rand_herm(rng, n) for _ in range(1)], n)
        ops = [('rotate_by', (gen,), lambda: recv.rotate_by(gen)), ('transform_by', (mp,), lambda: recv.transform_by(mp)),
               ('rotate_by(mask)', (gen_s, marr), lambda: recv.rotate_by(gen_s, marr)), ('transform_by(mask)', (mp_s, marr), lambda: recv.transform_by(mp_s, marr)),
               ('gate.forward', (gate.forward_map, gate.generator), lambda: gate.forward(recv)),
               ('gate.backward', (gate.forward_map, gate.generator), lambda: gate.backward(recv))]
        if isinstance(recv, pc.StabilizerState):
            ops.append(('measure', (obs,), lambda: recv.measure(obs)))
        name, args, f = rng.choice(ops)
        va = [value(a) for a in args]
        ctx.count('inplace:' + name)
        try:
            R.seed_numba(rng.randrange(1 << 30))
            f()
        except Exception as e:
            ctx.fail(type(recv).__name__ + '.' + name, 'implementation raised %r' % e, dict(N=n)); continue
        ctx.case(('inplace', name, type(recv).__name__, str(va)[:200]), True, sample=dict(op='in-place', method=name, receiver=type(recv).__name__))
        if [value(a) for a in args] != va:
            ctx.fail(type(recv).__name__ + '.' + name, 'in-place operation modified an argument', dict(before=str(va)[:800], after=str([value(a) for a in args])[:800]))
        # mutate the receiver further: arguments still unchanged (no aliasing into the receiver)
        if not isinstance(recv, pc.Pauli) or True:
            for a in arrays(recv):
                if a.size:
                    a.flat[0] = a.flat[0] + 1
            if [value(a) for a in args] != va:
                ctx.fail(type(recv).__name__ + '.' + name, 'receiver aliases an argument after the in-place operation', dict(method=name))


def _args_of_take(ctx, impl):
    """in-place operations on a circuit never change the gate they are given: gates labelled from the end (negative qubits, which
    numpy indexing resolves against the register of the object the gate is applied to) keep their labels, printing and action"""
    rng = ctx.rng
    CI = impl.CI
    import gen as G_
    import hutil as H_
    for _ in range(ctx.budget(40, 400)):
        n1, n2 = rng.choice([2, 3]), rng.choice([4, 5])
        name = rng.choice(['S', 'H', 'X'])
        q = rng.choice([-1, -2])
        gate = getattr(CI, name)(q)
        before = (tuple(gate.qubits), repr(gate), impl.ops_of(gate.forward_map))
        Ps = [G_.rand_op(rng, n2) for _k in range(3)]
        want = impl.ops_of(getattr(CI, name)(n2 + q).forward(impl.plist(Ps)))
        klass = rng.choice(['CliffordCircuit', 'Circuit'])
        ctx.case(('take-negative-label', name, q, n1, n2, klass), True, sample=dict(op='take(gate with negative label)', gate=name, qubit=q))
        try:
            c1 = getattr(CI, klass)(n1)
            c1.take(gate)
            after = (tuple(gate.qubits), repr(gate), impl.ops_of(gate.forward_map))
            got = impl.ops_of(gate.forward(impl.plist(Ps)))
        except Exception as e:
            ctx.fail(klass + '.take', 'implementation raised %r for a gate labelled from the end' % e, dict(gate=name, qubit=q, N=n1)); continue
        if after != before:
            ctx.fail(klass + '.take', 'take() changed the gate it was given: %s -> %s' % (before[:2], after[:2]), dict(gate=name, qubit=q, N=n1))
        elif got != want:
            ctx.fail(klass + '.take', 'after a %d-qubit circuit took the gate %s(%d), the same gate applied to a %d-qubit list no longer acts on qubit %d' % (n1, name, q, n2, n2 + q),
                     dict(gate=name, qubit=q, N1=n1, N2=n2, Ps=Ps, got=got, want=want))
