"""C07 expectations, overlaps and bit-string probabilities equal the trace formulas."""
import itertools
from fractions import Fraction
import numpy as np
import oracle as O
import gen as G
import enc as E
import hutil as H
import rng as R

RULE = ('(state, observable) cases: tableaux of every rank and sign pattern (N<=6); observable lists biased to +-group elements, '
        'logical operators, anticommuting operators; polynomials with unreduced products carrying phases i/-i; pairs of states '
        '(pure receiver, argument of any rank); all 2^N bit strings for N<=5. non-trivial = the expectation is non-zero or the '
        'observable anticommutes with a stabilizer; distinct = distinct (state, observable).')
ASSUMPTIONS = ['Tr(rho P) for a stabilizer state is +-1 if +-P is in the stabilizer group and 0 otherwise (textbook; validated against dense matrices N<=4)',
               'float arithmetic on dyadic numbers is exact']


def dy(s):
    return float(Fraction(s))


def run(ctx):
    import impl
    U, pc = impl.U, impl.pc
    rng = ctx.rng
    R.warm_up()
    _histories(ctx, impl)
    _wide_overlaps(ctx, impl)
    for _ in range(ctx.budget(400, 5000)):
        n = rng.choice([1, 2, 2, 3, 3, 4, 5, 6])
        rows, r = G.rand_tableau(rng, n)
        act = rows[r:n]
        st = impl.state(rows, r)
        snap = H.snapshot(st)
        obs = [G.rand_observable(rng, rows, n, r)[0] for _ in range(rng.randrange(1, 6))]
        try:
            xs = [int(v) for v in st.expect(impl.plist(obs, n))]
        except Exception as e:
            ctx.fail('StabilizerState.expect(PauliList)', 'implementation raised %r' % e, dict(rows=rows, r=r, obs=obs))
            continue
        ctx.q('expect', 'expect %d %s %s' % (r, H.erows_ops(rows), H.erows_ops(obs)), xs, E.dints)
        want = [O.expect_spec(act, o) for o in obs]
        ctx.count('N=%d' % n); ctx.count('r=%d' % r)
        for o, x, w in zip(obs, xs, want):
            ctx.case((tuple(rows), r, o), w != 0 or any(O.anticommute(s, o) for s in act), sample=dict(op='expect', N=n, r=r, obs=o, value=x))
            ctx.count('value=%d' % w)
            if x != w:
                ctx.fail('StabilizerState.expect(PauliList)', 'expectation %d, Tr(rho P) = %d' % (x, w), dict(rows=rows, r=r, obs=o))
        if n <= 4 and rng.random() < 0.2:
            rho = O.dense_state(act, n)
            for o, x in zip(obs, xs):
                tr = np.trace(rho @ O.dense(o))
                if abs(tr - x) > 1e-9:
                    ctx.fail('StabilizerState.expect(PauliList)', 'dense Tr(rho P) = %s, returned %d' % (tr, x), dict(rows=rows, r=r, obs=o))
            ctx.count('dense')
        # Pauli / polynomial arguments, phases i and -i included
        terms = []
        for _k in range(rng.randrange(1, 5)):
            o = G.rand_observable(rng, rows, n, r)[0]
            o = (o[0], (o[1] + rng.randrange(4)) % 4)
            terms.append((o, complex(rng.choice([1, -1, 2, 0.5]), rng.choice([0, 0, 1, -0.5]))))
        wantp = sum(c * (1j ** o[1]) * O.expect_spec(act, (o[0], 0)) for o, c in terms)
        try:
            gotp = complex(st.expect(impl.poly(terms)))
            ctx.q('expectpoly', 'expectpoly %d %s %s' % (r, H.erows_ops(rows), E.epoly([O.to_g(t[0][0]) for t in terms], [t[0][1] for t in terms], [t[1] for t in terms])),
                  gotp, E.dcx)
            if abs(gotp - wantp) > 1e-9:
                ctx.fail('StabilizerState.expect(PauliPolynomial)', 'got %s, coefficient-weighted sum of Tr(rho sigma_k) is %s' % (gotp, wantp),
                         dict(rows=rows, r=r, terms=terms))
        except Exception as e:
            ctx.fail('StabilizerState.expect(PauliPolynomial)', 'implementation raised %r' % e, dict(rows=rows, r=r, terms=terms))
        o = terms[0][0]
        try:
            gotq = complex(st.expect(impl.pauli(o)))
            wq = (1j ** o[1]) * O.expect_spec(act, (o[0], 0))
            if abs(gotq - wq) > 1e-9:
                ctx.fail('StabilizerState.expect(Pauli)', 'got %s, Tr(rho P) = %s' % (gotq, wq), dict(rows=rows, r=r, P=o))
        except Exception as e:
            ctx.fail('StabilizerState.expect(Pauli)', 'implementation raised %r' % e, dict(rows=rows, r=r, P=o))
        if H.snapshot(st) != snap:
            ctx.fail('StabilizerState.expect', 'receiver modified by a query', dict(rows=rows, r=r))
    # overlaps Tr(rho sigma): pure receiver, argument of any rank
    for _ in range(ctx.budget(200, 2500)):
        n = rng.choice([1, 2, 2, 3, 3, 4, 5])
        rows, _r = G.rand_tableau(rng, n, 0)
        mode = rng.random()
        if mode < 0.4:   # related state: share part of the group -> non-zero overlaps
            rows2 = list(rows)
            r2 = rng.randrange(n + 1)
            k = rng.randrange(n)
            rows2 = [(R_[0], (R_[1] + (2 if (rng.random() < 0.3 and i >= r2 and i < n) else 0)) % 4) for i, R_ in enumerate(rows2)]
            if rng.random() < 0.5:
                Gop = G.rand_herm(rng, n, nonid=True)
                rows2 = [G.rotate_op(Gop, R_) for R_ in rows2]
        else:
            rows2, r2 = G.rand_tableau(rng, n)
        st, sg = impl.state(rows, 0), impl.state(rows2, r2)
        s1, s2 = H.snapshot(st), H.snapshot(sg)
        try:
            ov = float(st.expect(sg))
        except Exception as e:
            ctx.fail('StabilizerState.expect(StabilizerState)', 'implementation raised %r' % e, dict(rows=rows, rows2=rows2, r2=r2))
            continue
        ctx.q('expectstate', 'expectstate 0 %s %d %s' % (H.erows_ops(rows), r2, H.erows_ops(rows2)), ov,
              lambda s: dy(s.split(' ')[1]) if s.startswith('ok ') else s)
        if n <= 5:
            tr = float(np.real(np.trace(O.dense_state(rows[0:n], n) @ O.dense_state(rows2[r2:n], n))))
            if abs(tr - ov) > 1e-9:
                ctx.fail('StabilizerState.expect(StabilizerState)', 'overlap %s, Tr(rho sigma) = %s' % (ov, tr), dict(rows=rows, rows2=rows2, r2=r2))
        ctx.case(('overlap', tuple(rows), tuple(rows2), r2), ov != 0, sample=dict(op='overlap', N=n, r2=r2, value=ov))
        ctx.count('overlap=%s' % ('0' if ov == 0 else 'nonzero'))
        if H.snapshot(st) != s1 or H.snapshot(sg) != s2:
            ctx.fail('StabilizerState.expect(StabilizerState)', 'receiver or argument modified by a query', dict(rows=rows, rows2=rows2))
    # mixed receiver with a state argument: rejected
    rows, r = G.rand_tableau(rng, 2, 1)
    try:
        impl.state(rows, 1).expect(impl.state(rows, 0))
        got = 'no error'
    except Exception as e:
        got = impl.errname(e)
    ctx.q('expectstate', 'expectstate 1 %s 0 %s' % (H.erows_ops(rows), H.erows_ops(rows)), got)
    # (the pinned code refuses mixed receivers; should a version accept them, the number it returns must be Tr(rho sigma) all the same)
    for _ in range(ctx.budget(60, 600)):
        n = rng.choice([2, 3, 3, 4])
        rowsm, rm = G.rand_tableau(rng, n, rng.randrange(1, n))
        rows2, r2 = G.rand_tableau(rng, n)
        try:
            ovm = float(impl.state(rowsm, rm).expect(impl.state(rows2, r2)))
        except Exception:
            ctx.count('mixed-receiver:refused')
            continue
        ctx.count('mixed-receiver:accepted')
        trm = float(np.real(np.trace(O.dense_state(rowsm[rm:n], n) @ O.dense_state(rows2[r2:n], n))))
        if abs(trm - ovm) > 1e-9:
            ctx.fail('StabilizerState.expect(StabilizerState)', 'a mixed receiver (rank %d) is accepted and the overlap returned is %s, Tr(rho sigma) = %s' % (rm, ovm, trm), dict(rows=rowsm, r=rm, rows2=rows2, r2=r2))
    # bit-string probabilities
    for _ in range(ctx.budget(60, 600)):
        n = rng.choice([1, 2, 3, 4, 5])
        rows, _r = G.rand_tableau(rng, n, 0)
        if rng.random() < 0.5:   # computational-ish states: few rotations
            rows = G.map_to_state_ops(G.rand_map_ops(rng, n, depth=rng.randrange(0, 3)))
        elif rng.random() < 0.5:  # basis states written with product generators (Z0Z1, -Z1, ...): all stabilizers diagonal, signs mixed
            rows = G.rand_css_tableau(rng, n, 'Z')
            ctx.count('getprob:diagonal-generators')
        st = impl.state(rows, 0)
        rho = O.dense_state(rows[0:n], n)
        tot = 0.0
        okk = True
        for bits in itertools.product([0, 1], repeat=n):
            try:
                pr = float(st.get_prob(np.array(bits)))
            except Exception as e:
                ctx.fail('StabilizerState.get_prob', 'implementation raised %r' % e, dict(rows=rows, bits=bits)); okk = False
                break
            idx = int(''.join(map(str, bits)), 2)
            w = float(np.real(rho[idx, idx]))
            ctx.q('getprob', 'getprob 0 %s %s' % (H.erows_ops(rows), E.ebits(bits)), pr, lambda s: dy(s.split(' ')[1]) if s.startswith('ok ') else s)
            ctx.case(('getprob', tuple(rows), bits), w > 0, sample=dict(op='get_prob', N=n, bits=bits, value=pr))
            if abs(pr - w) > 1e-9:
                ctx.fail('StabilizerState.get_prob', 'probability %s, <b|rho|b> = %s' % (pr, w), dict(rows=rows, bits=bits)); okk = False
                break
            tot += pr
        if okk and abs(tot - 1) > 1e-9:
            ctx.fail('StabilizerState.get_prob', 'probabilities sum to %s' % tot, dict(rows=rows))


def _histories(ctx, impl):
    """expectations, overlaps and bit-string probabilities of a state that earlier legal calls have changed (post-selection,
    measurement, rotation, transformation): against the dense density matrix followed through the same calls"""
    rng = ctx.rng
    pc = impl.pc
    for _ in range(ctx.budget(60, 700)):
        n = rng.choice([1, 2, 2, 3, 3])
        rows, r = G.rand_tableau(rng, n, 0)
        st = impl.state(rows, 0)
        rho = O.dense_state(rows[0:n], n)
        d = 2 ** n
        hist = []
        ok = True
        for step in range(rng.randrange(1, 4)):
            kind = rng.choice(['postselect', 'postselect', 'measure', 'rotate'])
            try:
                if kind == 'postselect':
                    Pk = G.rand_herm(rng, n, nonid=True)
                    res = rng.randrange(2)
                    Pm = (np.eye(d) + (-1) ** res * O.dense(Pk)) / 2
                    pr = float(np.real(np.trace(Pm @ rho)))
                    if pr < 1e-9:
                        continue
                    got = float(st.postselect(impl.pauli(Pk), res))
                    hist.append(('postselect', Pk, res))
                    if abs(got - pr) > 1e-9:
                        ctx.fail('StabilizerState.postselect', 'probability %s differs from Tr(P rho) = %s' % (got, pr), dict(rows=rows, history=hist)); ok = False; break
                    rho = Pm @ rho @ Pm / pr
                elif kind == 'measure':
                    Pk = G.rand_herm(rng, n, nonid=True)
                    R.seed_numba(rng.randrange(1 << 30))
                    out, _lp = st.measure(impl.plist([Pk], n))
                    hist.append(('measure', Pk, int(out[0])))
                    Pm = (np.eye(d) + (-1) ** int(out[0]) * O.dense(Pk)) / 2
                    pr = float(np.real(np.trace(Pm @ rho)))
                    if pr < 1e-9:
                        ctx.fail('StabilizerState.measure', 'outcome of probability zero in a history', dict(rows=rows, history=hist)); ok = False; break
                    rho = Pm @ rho @ Pm / pr
                else:
                    Gk = G.rand_herm(rng, n, nonid=True)
                    st.rotate_by(impl.pauli(Gk))
                    hist.append(('rotate_by', Gk))
                    U = (np.eye(d) + 1j * O.dense(Gk)) / np.sqrt(2)
                    rho = U.conj().T @ rho @ U
            except Exception as e:
                ctx.fail('StabilizerState.' + kind, 'implementation raised %r in a history' % e, dict(rows=rows, history=hist)); ok = False; break
        if not ok or not hist:
            continue
        ctx.traces += 1
        ctx.case(('expect-history', tuple(rows), str(hist)), any(h[0] == 'postselect' for h in hist), sample=dict(op='expect after a history', N=n, steps=[h[0] for h in hist]))
        ctx.count('history:' + '+'.join(sorted(set(h[0] for h in hist))))
        # every signed Pauli string (n <= 2) or a sample
        strs = list(itertools.product('IXYZ', repeat=n))
        if n > 2:
            strs = rng.sample(strs, 24)
        obs = [(s_, rng.choice([0, 2])) for s_ in strs]
        try:
            vals = [int(v) for v in st.expect(impl.plist(obs, n))]
            for o_, v_ in zip(obs, vals):
                w_ = float(np.real(np.trace(rho @ O.dense(o_))))
                if abs(v_ - w_) > 1e-9:
                    ctx.fail('StabilizerState.expect(PauliList)', 'after the history %s the expectation of %s is %s, Tr(rho P) = %s' % ([h[0] for h in hist], o_, v_, round(w_, 6)),
                             dict(rows=rows, history=hist, P=o_)); ok = False; break
            if ok and st.r == 0:
                tot = 0.0
                for bits in itertools.product((0, 1), repeat=n):
                    pb = float(st.get_prob(np.array(bits)))
                    idx_ = int(''.join(map(str, bits)), 2)
                    wb = float(np.real(rho[idx_, idx_]))
                    tot += pb
                    if abs(pb - wb) > 1e-9:
                        ctx.fail('StabilizerState.get_prob', 'after the history %s get_prob(%s) = %s, <b|rho|b> = %s' % ([h[0] for h in hist], bits, pb, round(wb, 6)), dict(rows=rows, history=hist)); ok = False; break
                rows2, r2 = G.rand_tableau(rng, n)
                ov = float(st.expect(impl.state(rows2, r2)))
                wv = float(np.real(np.trace(rho @ O.dense_state(rows2[r2:n], n))))
                if ok and abs(ov - wv) > 1e-9:
                    ctx.fail('StabilizerState.expect(StabilizerState)', 'after the history %s the overlap is %s, Tr(rho sigma) = %s' % ([h[0] for h in hist], ov, round(wv, 6)), dict(rows=rows, history=hist, rows2=rows2, r2=r2))
        except Exception as e:
            ctx.fail('StabilizerState.expect', 'implementation raised %r after the history %s' % (e, [h[0] for h in hist]), dict(rows=rows, history=hist))


def _wide_overlaps(ctx, impl):
    """overlaps and bit-string probabilities that need many halvings: |+>^k |0>^(N-k) against computational-basis states on
    40 ... 100 qubits; the exact value is 2^-k (textbook factorisation), beyond the range of 64-bit integers for k >= 63"""
    rng = ctx.rng
    pc = impl.pc
    for N, k in [(40, 40), (64, 62), (64, 63), (64, 64), (70, 66), (100, 100)][:ctx.budget(4, 6)] + [(rng.choice([65, 72]), rng.choice([63, 64, 65]))]:
        rows = [(tuple('X' if j == i else 'I' for j in range(N)), 0) if i < k else (tuple('Z' if j == i else 'I' for j in range(N)), 0) for i in range(N)] + \
               [(tuple('Z' if j == i else 'I' for j in range(N)), 0) if i < k else (tuple('X' if j == i else 'I' for j in range(N)), 0) for i in range(N)]
        ctx.case(('wide-overlap', N, k), True, sample=dict(op='overlap with many halvings', N=N, halvings=k))
        ctx.count('wide-overlap:k=%d' % k)
        want = 2.0 ** (-k)
        try:
            bits = np.array([rng.randrange(2) for _ in range(k)] + [0] * (N - k))
            vals = [('expect(zero_state)', float(impl.state(rows, 0).expect(pc.zero_state(N)))),
                    ('zero_state.expect(state)', float(pc.zero_state(N).expect(impl.state(rows, 0)))),
                    ('get_prob(b)', float(impl.state(rows, 0).get_prob(bits)))]
        except Exception as e:
            ctx.fail('StabilizerState.expect(StabilizerState)', 'implementation raised %r on %d qubits' % (e, N), dict(N=N, k=k)); continue
        for nm, v in vals:
            if v != want:
                ctx.fail('StabilizerState.expect(StabilizerState)', '%s of |+>^%d |0>^%d is %r, the exact value is 2^-%d = %r' % (nm, k, N - k, v, k, want), dict(N=N, k=k)); break
