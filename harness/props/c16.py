"""C16 random Cliffords are valid and uniformly distributed."""
import itertools
import math
import numpy as np
import oracle as O
import gen as G
import enc as E
import hutil as H
import rng as R

RULE = ('tape-controlled kernels: random_pair over ALL tapes for N=1,2 (and with forced resampling), random tapes N<=6; random_pauli and '
        'random_clifford as deterministic functions of the tape they consume (N<=5); validity of every sampled map/state on the real '
        '(jitted) RNG path including brick-wall / on-site / global circuits; exact-tail-bound statistics (alpha=1e-9 per test) for '
        'class frequencies (24 classes at N=1; 720 symplectic classes at N=2 in thorough), sign bits, measurement coins, resampling. '
        'non-trivial = the tape leads to the commuting-branch fix-up or to resampling; distinct = distinct tapes.')
ASSUMPTIONS = ['numba and numpy generators deliver independent uniform bits (tested statistically only)']


def hoeff(T, cells, alpha=1e-9):
    return math.sqrt(T * math.log(2 * cells / alpha) / 2)


class _TorchTape:
    """stands in for torch.randint(0, 2, shape): serves the bits of a tape in call order, row-major"""
    class Exhausted(Exception):
        pass

    def __init__(self, torch, bits):
        self.torch, self.bits, self.pos, self.foreign = torch, list(bits), 0, []

    def __call__(self, low, high=None, size=None, **kw):
        if high is None or size is None or (low, high) != (0, 2):
            self.foreign.append((low, high, size))
        shape = tuple(size) if size is not None else ()
        k = 1
        for d in shape:
            k *= int(d)
        if self.pos + k > len(self.bits):
            raise _TorchTape.Exhausted()
        out = self.bits[self.pos:self.pos + k]
        self.pos += k
        return self.torch.tensor(out, dtype=self.torch.int64).reshape(shape)


def _torch_samplers(ctx, impl, rng):
    import torch
    import torchclifford as tc
    import torchclifford.utils as TU
    assert tc.__file__.startswith(impl.common.REPO)
    ival = lambda x: int(round(float(x)))
    t_rows = lambda m: [O.from_gp([ival(v) for v in g], ival(p)) for g, p in zip(m.gs.tolist(), m.ps.tolist())]
    # (a) validity on the real RNG path: maps and states of every sampler
    torch.manual_seed(ctx.seed * 104729 + 7)
    for _ in range(ctx.budget(120, 1200)):
        n = rng.choice([1, 2, 3, 4, 5])
        for name in ('random_clifford_map', 'random_pauli_map'):
            try:
                rows = t_rows(getattr(tc, name)(n))
            except Exception as e:
                ctx.fail('torch.' + name, 'implementation raised %r' % e, dict(N=n)); continue
            bad = H.valid_map(rows)
            ctx.case(('torch-valid', name, n, _), True, sample=dict(op='torch ' + name, N=n))
            ctx.count('torch-valid:' + name)
            if bad:
                ctx.fail('torch.' + name, 'sampled map is not a valid Clifford map: ' + bad, dict(N=n, rows=rows))
            if name == 'random_pauli_map' and not bad and any(sum(c != 'I' for c in r_[0]) != 1 or r_[0][i // 2] == 'I' for i, r_ in enumerate(rows)):
                ctx.fail('torch.random_pauli_map', 'not a product of single-qubit Cliffords', dict(N=n, rows=rows))
        for name in ('random_clifford_state', 'random_pauli_state'):
            r = rng.randrange(n + 1)
            try:
                st = getattr(tc, name)(n, r)
                rows = t_rows(st)
            except Exception as e:
                ctx.fail('torch.' + name, 'implementation raised %r' % e, dict(N=n, r=r)); continue
            bad = O.tableau_invariant(rows, n, int(st.r))
            ctx.count('torch-valid:' + name)
            if bad or int(st.r) != r:
                ctx.fail('torch.' + name, 'sampled state is not a valid tableau: %s' % bad, dict(N=n, r=r, rows=rows))
    # (b) the torch random_clifford as a function of the bits it draws: the same function of the tape as the model's randomClifford
    #     (about which validity, multiplicity and surjectivity are proved), resampling included
    orig = torch.randint
    for _ in range(ctx.budget(120, 1200)):
        n = rng.choice([1, 2, 2, 3, 3, 4])
        tape = [rng.randrange(2) for _ in range(8 * n * n + 8)]
        if rng.random() < 0.2:
            tape[:2 * n] = [0] * (2 * n)          # forces the resampling loop
        t = _TorchTape(torch, tape)
        try:
            torch.randint = t
            gs = TU.random_clifford(n)
            got = 'ok %s %d' % (E.estrs([[ival(v) for v in g] for g in gs.tolist()]), len(tape) - t.pos)
        except _TorchTape.Exhausted:
            got = 'err tape-underflow'
        except Exception as e:
            torch.randint = orig
            ctx.fail('torch.random_clifford', 'implementation raised %r' % e, dict(N=n, tape=tape)); continue
        finally:
            torch.randint = orig
        ctx.q('torch.random_clifford', 'randclifford %d %s' % (n, E.ebits(tape)), got)
        ctx.case(('torch-randclifford', n, tuple(tape)), True, sample=dict(op='torch random_clifford', N=n))
        if t.foreign:
            ctx.fail('torch.random_clifford', 'draws something other than fair bits: %s' % (t.foreign[:3],), dict(N=n))
    # (b') the torch random_pauli (batched pair sampling with per-row resampling) as a function of the bits it draws: the model's
    #      T.randomPauli (Model/Torch.lean), about which validity is proved
    for _ in range(ctx.budget(120, 1200)):
        n = rng.choice([1, 2, 2, 3, 3, 4, 5])
        tape = [rng.randrange(2) for _ in range(4 * n + rng.choice([0, 2, 4, 6, 12]))]
        if rng.random() < 0.4:
            k = rng.randrange(n)
            tape[2 * k:2 * k + 2] = [0, 0]            # an identity first string: this row must be resampled
        t = _TorchTape(torch, tape)
        try:
            torch.randint = t
            gs = TU.random_pauli(n)
            got = 'ok %s %d' % (E.estrs([[ival(v) for v in g] for g in gs.tolist()]), len(tape) - t.pos)
        except _TorchTape.Exhausted:
            got = 'err tape-underflow'
        except Exception as e:
            torch.randint = orig
            ctx.fail('torch.random_pauli', 'implementation raised %r' % e, dict(N=n, tape=tape)); continue
        finally:
            torch.randint = orig
        ctx.q('torch.random_pauli', 'T.randpauli %d %s' % (n, E.ebits(tape)), got)
        ctx.case(('torch-randpauli', n, tuple(tape)), True, sample=dict(op='torch random_pauli', N=n))
    # (c) exact distribution of the torch random_pauli(2) over all tapes that need no resampling: 36 string tables, each equally often
    counts = {}
    for bits in itertools.product((0, 1), repeat=8):
        t = _TorchTape(torch, list(bits))
        try:
            torch.randint = t
            gs = TU.random_pauli(2)
        except _TorchTape.Exhausted:
            continue                                  # this tape needs resampling: not among the accepted ones
        except Exception as e:
            torch.randint = orig
            ctx.fail('torch.random_pauli', 'implementation raised %r' % e, dict(N=2, tape=list(bits))); break
        finally:
            torch.randint = orig
        key = tuple(tuple(ival(v) for v in g) for g in gs.tolist())
        counts[key] = counts.get(key, 0) + 1
        rows = [O.from_gp(list(g), 0) for g in key]
        if H.valid_map(rows):
            ctx.fail('torch.random_pauli', 'an accepted tape gives an invalid map: ' + H.valid_map(rows), dict(N=2, tape=list(bits), rows=rows)); break
    ctx.count('torch-exact:random_pauli(2)')
    ctx.case(('torch-exact-pauli2',), True)
    if counts and (len(counts) != 36 or len(set(counts.values())) != 1):
        ctx.fail('torch.random_pauli', 'random_pauli(2) is not uniform over the 36 products of one-qubit string tables as a function of a uniform tape: %d tables, multiplicities %s'
                 % (len(counts), sorted(set(counts.values()))), dict(N=2))
    # (d) statistics on the real RNG path: 24 classes at N=1 (signs included), entangling at N=2
    T = 2400
    cls = {}
    for _ in range(T):
        k = tuple(t_rows(tc.random_clifford_map(1)))
        cls[k] = cls.get(k, 0) + 1
    chi = sum((v - T / 24) ** 2 / (T / 24) for v in cls.values()) + (24 - len(cls)) * (T / 24)
    x = math.log(1e9)
    ctx.count('torch-stat:N1-classes')
    if len(cls) != 24 or chi > 23 + 2 * math.sqrt(23 * x) + 2 * x:
        ctx.fail('torch.random_clifford_map', 'N=1: the 24 one-qubit Clifford maps are not equally likely (%d classes, chi2 %.1f)' % (len(cls), chi), dict(T=T))
    # N = 3 (beyond the exact enumerations): the image of every generator is uniform over the 63 non-identity strings
    T3 = 63 * 40
    tall = [dict() for _k in range(6)]
    for _ in range(T3):
        g3 = TU.random_clifford(3).tolist()
        for k_ in range(6):
            key = tuple(ival(v) for v in g3[k_])
            tall[k_][key] = tall[k_].get(key, 0) + 1
    for k_, tl in enumerate(tall):
        chi3 = sum((v - T3 / 63) ** 2 / (T3 / 63) for v in tl.values()) + (63 - len(tl)) * (T3 / 63)
        ctx.count('torch-stat:N3-rows')
        if len(tl) > 63 or chi3 > 62 + 2 * math.sqrt(62 * x) + 2 * x:
            ctx.fail('torch.random_clifford', 'N=3: the image of generator %d is not uniform over the 63 non-identity strings (%d strings seen in %d draws, chi2 %.1f)' % (k_, len(tl), T3, chi3), dict(T=T3, row=k_)); break
    # random_pauli(2) on the real RNG path (resampling of identity first strings included): the 36 products of one-qubit string
    # tables are equally likely, i.e. the two qubits are independent
    Tp = 36 * 300
    cellp = {}
    for _ in range(Tp):
        key = tuple(tuple(ival(v) for v in g) for g in TU.random_pauli(2).tolist())
        cellp[key] = cellp.get(key, 0) + 1
    chip = sum((v - Tp / 36) ** 2 / (Tp / 36) for v in cellp.values()) + (36 - len(cellp)) * (Tp / 36)
    ctx.count('torch-stat:pauli2-cells')
    if len(cellp) > 36 or chip > 35 + 2 * math.sqrt(35 * x) + 2 * x:
        ctx.fail('torch.random_pauli', 'random_pauli(2): the 36 products of one-qubit tables are not equally likely on the real RNG path (%d tables in %d draws, chi2 %.1f): the qubits are not independent'
                 % (len(cellp), Tp, chip), dict(T=Tp))
    # a sharper one-parameter statistic for the same claim: the images of X_0 and X_1 carry the same letter with probability 1/3
    # (exact Chernoff bound: P(freq deviates to f) <= exp(-T * KL(f || 1/3)))
    same = sum(v for key, v in cellp.items() if (key[0][0], key[0][1]) == (key[2][2], key[2][3]))
    f_ = same / Tp
    kl = (f_ * math.log(f_ / (1 / 3)) + (1 - f_) * math.log((1 - f_) / (2 / 3))) if 0 < f_ < 1 else 1.0
    ctx.count('torch-stat:pauli2-same-letter')
    if Tp * kl > math.log(2e9):
        ctx.fail('torch.random_pauli', 'random_pauli(2): the images of X_0 and X_1 carry the same letter in %.4f of %d draws (independent uniform one-qubit tables give 1/3): the qubits are correlated'
                 % (f_, Tp), dict(T=Tp, same=same))
    T2 = 720 * (4 if ctx.tier == 'quick' else 60)
    cls2 = {}
    for _ in range(T2):
        k = tuple(tuple(ival(v) for v in g) for g in TU.random_clifford(2).tolist())
        cls2[k] = cls2.get(k, 0) + 1
    chi2 = sum((v - T2 / 720) ** 2 / (T2 / 720) for v in cls2.values()) + (720 - len(cls2)) * (T2 / 720)
    ctx.count('torch-stat:N2-classes')
    ctx.notes.append('torch N=2: %d symplectic classes seen in %d draws, chi2 = %.1f' % (len(cls2), T2, chi2))
    if len(cls2) > 720 or chi2 > 719 + 2 * math.sqrt(719 * x) + 2 * x:
        ctx.fail('torch.random_clifford', 'N=2: the 720 symplectic classes are not equally likely (%d classes in %d draws, chi2 %.1f)' % (len(cls2), T2, chi2), dict(T=T2))


def run(ctx):
    import impl
    U, pc, CI = impl.U, impl.pc, impl.CI
    rng = ctx.rng
    R.warm_up()
    rp = U.random_pair.py_func

    def pair_case(n, tape):
        t = R.Tape(tape)
        try:
            with R.patched(t):
                g1, g2 = rp(n)
            got = 'ok %s %s %d' % (E.estr(g1), E.estr(g2), len(tape) - t.pos)
        except R.TapeExhausted:
            got = 'err tape-underflow'
        ctx.q('randpair', 'randpair %d %s' % (n, E.ebits(tape)), got)
        if got.startswith('ok'):
            a, b = O.from_gp(g1, 0), O.from_gp(g2, 0)
            raw1, raw2 = tape[:2 * n], tape[2 * n:4 * n]
            fix = (not any(raw1)) or not O.anticommute(O.from_gp(raw1, 0), O.from_gp(raw2, 0)) if any(raw1) else True
            ctx.case(('pair', n, tuple(tape)), fix, sample=dict(op='random_pair', N=n, tape=E.ebits(tape), g1=a[0], g2=b[0]))
            if not O.anticommute(a, b) or all(c == 'I' for c in a[0]):
                ctx.fail('random_pair', 'pair does not anticommute / first string is the identity', dict(N=n, tape=tape, g1=a, g2=b))
        return got

    # exhaustive tapes N=1 (16) and N=2 (256); with a zero first draw followed by a second draw (resampling)
    cnt = {1: {}, 2: {}}
    for n in (1, 2):
        for tape in itertools.product([0, 1], repeat=4 * n):
            got = pair_case(n, list(tape))
            if got.startswith('ok') and any(tape[:2 * n]):
                k = tuple(got.split(' ')[1:3])
                cnt[n][k] = cnt[n].get(k, 0) + 1
        for tape in itertools.product([0, 1], repeat=2 * n if n == 1 else 2):
            pair_case(n, [0] * (2 * n) + [1, 0] * n + list(tape) + [1] * (2 * n))
        # exact uniformity of the kernel as a function of a uniform tape: every anticommuting pair equally often
        vals = set(cnt[n].values())
        npairs = len(cnt[n])
        want_pairs = (4 ** n - 1) * (4 ** n // 2)
        ctx.count('exact-uniformity-N=%d' % n)
        if len(vals) != 1 or npairs != want_pairs:
            ctx.fail('random_pair', 'a uniform tape does not give a uniform anticommuting pair at N=%d (%d pairs, multiplicities %s)' % (n, npairs, sorted(vals)),
                     dict(N=n))
    # exact distribution of the kernels as functions of a uniform tape, resampling paths included: all tapes of a fixed length are
    # enumerated (a tape that resolves after k bits is counted 2^(L-k) times, i.e. with its probability); every output must be
    # equally likely. For random_clifford(2) this is the multiplicity theorem C16_randomClifford_multiplicity evaluated on the code:
    # 720 symplectic classes, each from exactly 2^n tapes among those that resolve without resampling.
    def exact_counts(fn, L):
        cnt_ = {}
        for tape in itertools.product([0, 1], repeat=L):
            t = R.Tape(tape)
            try:
                U.random_pair = rp
                with R.patched(t):
                    out = fn()
            except R.TapeExhausted:
                continue
            finally:
                U.random_pair = old_pair
            key = tuple(np.asarray(out).astype(int).reshape(-1).tolist()) if not isinstance(out, tuple) else tuple(np.concatenate([np.asarray(o).astype(int).reshape(-1) for o in out]).tolist())
            cnt_[key] = cnt_.get(key, 0) + 1
        return cnt_
    old_pair = U.random_pair
    for nm_, fn_, L_, want_ in (('random_pair(1)', lambda: rp(1), 10, 6), ('random_pair(2)', lambda: rp(2), 12, 120),
                                ('random_clifford(1)', lambda: U.random_clifford(1), 10, 6), ('random_clifford(2)', lambda: U.random_clifford(2), 12, 720),
                                ('random_pauli(2)', lambda: U.random_pauli.py_func(2), 8, 36)):
        ce = exact_counts(fn_, L_)
        ctx.count('exact-distribution:' + nm_)
        ctx.case(('exact-distribution', nm_), True, sample=dict(op=nm_, tapes=2 ** L_, outputs=len(ce)))
        if len(ce) != want_ or len(set(ce.values())) != 1:
            ctx.fail(nm_.split('(')[0], 'under a uniform tape %s is not uniform: %d different outputs (expected %d), multiplicities between %d and %d over all %d-bit tapes' % (
                nm_, len(ce), want_, min(ce.values()) if ce else 0, max(ce.values()) if ce else 0, L_), dict(kernel=nm_, tape_bits=L_))
    for _ in range(ctx.budget(150, 2000)):
        n = rng.choice([3, 4, 5, 6])
        tape = [rng.randrange(2) for _ in range(4 * n)]
        if rng.random() < 0.2:
            tape = [0] * (2 * n) + tape
        pair_case(n, tape)
    # random_pauli and random_clifford as functions of the tape (the kernels they call are redirected to the un-jitted pair sampler)
    for _ in range(ctx.budget(150, 1500)):
        n = rng.choice([1, 2, 2, 3, 3, 4, 5])
        tape = [rng.randrange(2) for _ in range(8 * n * n + 8)]
        for name, fn in (('randclifford', lambda: U.random_clifford(n)), ('randpauli', lambda: U.random_pauli.py_func(n))):
            t = R.Tape(tape)
            try:
                U.random_pair = rp
                with R.patched(t):
                    gs = fn()
                got = 'ok %s %d' % (E.estrs([[int(v) for v in g] for g in gs]), len(tape) - t.pos)
            except R.TapeExhausted:
                got = 'err tape-underflow'
            finally:
                U.random_pair = old_pair
            ctx.q(name, '%s %d %s' % (name, n, E.ebits(tape)), got)
            if got.startswith('ok'):
                rows = [O.from_gp(g, 0) for g in gs]
                bad = H.valid_map(rows)
                ctx.case((name, n, tuple(tape)), True, sample=dict(op=name, N=n, rows=[r_[0] for r_ in rows]))
                if bad:
                    ctx.fail('random_clifford' if name == 'randclifford' else 'random_pauli', 'sampled map is not symplectic: ' + bad, dict(N=n, tape=tape, rows=rows))
                if name == 'randpauli' and any(sum(c != 'I' for c in r_[0]) != 1 or r_[0][i // 2] == 'I' for i, r_ in enumerate(rows)):
                    ctx.fail('random_pauli', 'not a product of single-qubit Cliffords', dict(N=n, rows=rows))
    # validity on the real RNG path
    for _ in range(ctx.budget(80, 800)):
        n = rng.choice([1, 2, 3, 4, 6])
        R.seed_numba(rng.randrange(1 << 30))
        objs = [('random_clifford_map', impl.ops_of(pc.random_clifford_map(n)), None), ('random_pauli_map', impl.ops_of(pc.random_pauli_map(n)), None)]
        for name, rows, _x in objs:
            bad = H.valid_map(rows)
            if bad:
                ctx.fail(name, 'sampled map is not valid: ' + bad, dict(N=n, rows=rows))
        for name, st in (('random_clifford_state', pc.random_clifford_state(n, rng.randrange(n + 1))), ('random_pauli_state', pc.random_pauli_state(n))):
            bad = O.tableau_invariant(impl.ops_of(st), n, int(st.r))
            if bad:
                ctx.fail(name, 'sampled state is not valid: ' + bad, dict(N=n))
        circs = [('onsite_rcc', CI.onsite_rcc(n)), ('global_rcc', CI.global_rcc(n))]
        if n % 2 == 0:
            circs.append(('brickwall_rcc', CI.brickwall_rcc(n, rng.randrange(1, 4))))
        for name, c in circs:
            st = pc.zero_state(n)
            c.forward(st)
            bad = O.tableau_invariant(impl.ops_of(st), n, int(st.r))
            if bad:
                ctx.fail(name, 'state produced by the random circuit is not valid: ' + bad, dict(N=n))
            if name == 'onsite_rcc' and any(sum(ch != 'I' for ch in x[0]) != 1 for x in impl.ops_of(st)[:n]):
                ctx.fail(name, 'on-site random circuit entangled the qubits', dict(N=n))
        ctx.case(('valid', n, _), True)
    # ---- the random-circuit constructors against the model: same layer structure; run forward with the maps the code drew
    import circ_util as CU
    rc = 0
    for _ in range(ctx.budget(40, 400)):
        kind = rng.choice(['brickwall', 'onsite', 'global'])
        n = rng.choice([2, 4, 6]) if kind == 'brickwall' else rng.choice([1, 2, 3, 4])
        depth = rng.randrange(0, 5) if kind == 'brickwall' else 0
        rc += 1
        cid_ = 'rc%d' % rc
        circ = CI.brickwall_rcc(n, depth) if kind == 'brickwall' else (CI.onsite_rcc(n) if kind == 'onsite' else CI.global_rcc(n))
        ans = ctx.drv.ask('circ %s rcc %s %d %d' % (cid_, kind, n, depth))
        il, ml = CU.impl_layers(circ), ctx.drv.ask('circ %s layers' % cid_)
        ctx.count('corr:rcc-layers')
        if ans != 'ok' or il != ml:
            ctx.mismatch(kind + '_rcc', 'layers of %s_rcc(%d, %d)' % (kind, n, depth), ans + ' ' + ml, il, dict(kind=kind, N=n, depth=depth))
            continue
        rows, r = G.rand_tableau(rng, n)
        drawn = []
        orig = CI.random_clifford_map

        def rec_map(k):
            m_ = orig(k)
            drawn.append(impl.ops_of(m_))
            return m_
        st = impl.state(rows, r)
        R.seed_numba(rng.randrange(1 << 30))
        back = rng.random() < 0.3
        try:
            CI.random_clifford_map = rec_map
            (circ.backward if back else circ.forward)(st)
        finally:
            CI.random_clifford_map = orig
        got = (int(st.r), impl.ops_of(st))
        a2 = ctx.drv.ask('circ %s %s S %d %s _ %s none' % (cid_, 'bwd' if back else 'fwd', r, H.erows_ops(rows), '/'.join(H.erows_ops(m_) for m_ in drawn) if drawn else '-'))
        ctx.count('corr:rcc-' + ('backward' if back else 'forward')); ctx.traces += 1
        mv = (int(a2.split(' ')[1]), H.drows_ops(a2.split(' ')[2]), int(a2.split(' ')[4])) if a2.startswith('ok ') else a2
        ctx.case(('rcc', kind, n, depth, tuple(rows), r, back), depth > 0 or kind != 'brickwall', sample=dict(op=kind + '_rcc', N=n, depth=depth, maps_drawn=len(drawn)))
        if mv != got + (0,):
            ctx.mismatch(kind + '_rcc', 'run with the recorded maps', str(mv)[:600], str(got + (0,))[:600], dict(kind=kind, N=n, depth=depth, rows=rows, r=r, maps=drawn))
        bad = O.tableau_invariant(got[1], n, got[0])
        if bad or any(H.valid_map(m_) for m_ in drawn):
            ctx.fail(kind + '_rcc', 'a random gate drew an invalid map or the resulting state is invalid: %s' % bad, dict(kind=kind, N=n, depth=depth))
        # resampled at every call: the same circuit run again draws fresh maps (same count)
        n1 = len(drawn)
        drawn2 = []
        try:
            CI.random_clifford_map = lambda k: (lambda m_: (drawn2.append(impl.ops_of(m_)), m_)[1])(orig(k))
            circ.forward(impl.state(rows, r))
        finally:
            CI.random_clifford_map = orig
        if len(drawn2) != n1 or (n1 >= 3 and drawn2 == drawn):
            ctx.fail(kind + '_rcc', 'gates without a specified map are not resampled at every call (%d maps drawn at the second call, %d at the first)' % (len(drawn2), n1),
                     dict(kind=kind, N=n, depth=depth))
        # ... also after compile() was asked for: a circuit with gates without a specified map cannot be compiled; whether compile()
        # refuses or not, its random gates must still be sampled at every later call, and the run must be the model's run with the
        # drawn maps (the model's circuit is unchanged by a refused compile)
        if n1 > 0:
            try:
                circ.compile(); outcome = 'accepted'
            except Exception:
                outcome = 'refused'
            am = ctx.drv.ask('circ %s compile' % cid_)       # the model's circuit after the call (Circ.compileSt) and its outcome
            ctx.count('corr:rcc-compile-outcome')
            if (am == 'ok') != (outcome == 'accepted'):
                ctx.mismatch(kind + '_rcc', 'compile() of a circuit with random gates', am, outcome, dict(kind=kind, N=n, depth=depth))
            ctx.count('compile-of-random-circuit:' + outcome)
            drawn3 = []
            st3 = impl.state(rows, r)
            try:
                CI.random_clifford_map = lambda k: (lambda m_: (drawn3.append(impl.ops_of(m_)), m_)[1])(orig(k))
                (circ.backward if back else circ.forward)(st3)
            except Exception as e:
                ctx.fail(kind + '_rcc', 'after compile() (which %s) running the circuit raised %r' % (outcome, e), dict(kind=kind, N=n, depth=depth)); continue
            finally:
                CI.random_clifford_map = orig
            if len(drawn3) != n1:
                ctx.fail(kind + '_rcc', 'after compile() was asked for (it %s) the gates without a specified map are no longer sampled at every call: %d maps drawn, %d before; '
                         'the circuit sends the state to %s' % (outcome, len(drawn3), n1, impl.ops_of(st3)[int(st3.r):n]), dict(kind=kind, N=n, depth=depth, rows=rows, r=r, backward=back))
            else:
                a3 = ctx.drv.ask('circ %s %s S %d %s _ %s none' % (cid_, 'bwd' if back else 'fwd', r, H.erows_ops(rows), '/'.join(H.erows_ops(m_) for m_ in drawn3)))
                mv3 = (int(a3.split(' ')[1]), H.drows_ops(a3.split(' ')[2])) if a3.startswith('ok ') else a3
                ctx.count('corr:rcc-after-compile')
                if mv3 != (int(st3.r), impl.ops_of(st3)):
                    ctx.mismatch(kind + '_rcc', 'run after compile() with the recorded maps', str(mv3)[:600], str((int(st3.r), impl.ops_of(st3)))[:600], dict(kind=kind, N=n, depth=depth))
    # ---- the PyTorch port's samplers (the property's anchors include torchclifford/utils.py and stabilizer.py)
    _torch_samplers(ctx, impl, rng)
    # ---- statistics (support only; exact tail bounds, alpha = 1e-9 per test)
    R.seed_numba(ctx.seed * 7919 + 17)
    T = 4800
    cls = {}
    signbits = 0
    ensemble = [pc.random_clifford_map(1) for _ in range(T)]     # collected first, analysed afterwards: samples must not share storage
    for m in ensemble:
        k = tuple(impl.ops_of(m))
        cls[k] = cls.get(k, 0) + 1
        signbits += int(m.ps[0] // 2)
    for n_ in (1, 2, 3):
        for name_, f_ in (('random_clifford_map', pc.random_clifford_map), ('random_pauli_map', pc.random_pauli_map),
                          ('random_clifford_state', pc.random_clifford_state), ('random_clifford', lambda k: U.random_clifford(k))):
            a_ = f_(n_)
            va_ = np.array(a_.gs if hasattr(a_, 'gs') else a_).copy()
            held = [f_(n_) for _ in range(4)]
            if not np.array_equal(np.array(a_.gs if hasattr(a_, 'gs') else a_), va_):
                ctx.fail(name_, 'a sampled object changed when later samples were drawn (samples share storage)', dict(N=n_))
            ctx.case(('independent-samples', name_, n_), True)
    tol = hoeff(T, 24)
    ctx.count('stat:N1-classes')
    if len(cls) != 24 or any(abs(v - T / 24) > tol for v in cls.values()):
        ctx.fail('random_clifford_map', 'N=1: the 24 Cliffords are not equally likely (%d classes seen, counts %s..%s, tolerance %.0f)' % (
            len(cls), min(cls.values()), max(cls.values()), tol), dict(N=1, T=T))
    if abs(signbits - T / 2) > hoeff(T, 1):
        ctx.fail('random_clifford_map', 'sign bits are not fair (%d of %d)' % (signbits, T), dict(T=T))
    ent = 0
    for _ in range(64):
        rows = impl.ops_of(pc.random_clifford_map(2))
        if any(sum(c != 'I' for c in r_[0]) > 1 for r_ in rows):
            ent += 1
    ctx.count('stat:entangling')
    if ent == 0:
        ctx.fail('random_clifford_map', 'no entangling two-qubit Clifford in 64 draws (probability of that is below 2^-60 for a uniform sampler)', dict(N=2))
    coins = 0
    Tm = 4000
    X = pc.paulis('X')
    for _ in range(Tm):
        st = pc.zero_state(1)
        out, lp = st.measure(X)
        coins += int(out[0])
    ctx.count('stat:coins')
    if abs(coins - Tm / 2) > hoeff(Tm, 1):
        ctx.fail('stabilizer_measure', 'measurement coins are not fair (%d of %d)' % (coins, Tm), dict(T=Tm))
    # coins of one call are independent: joint distribution of several undetermined outcomes measured in ONE call, pure and mixed
    # inputs (a logical operator of a mixed state is undetermined too); exact tail bound per cell
    Tj = 2400
    for name_, mk, obs_, cells in (('|++> measured in (ZI, IZ)', lambda: pc.stabilizer_state('XI', 'IX'), ['ZI', 'IZ'], 4),
                                   ('|+++> measured in (ZII, IZI, IIZ)', lambda: pc.stabilizer_state('XII', 'IXI', 'IIX'), ['ZII', 'IZI', 'IIZ'], 8),
                                   ('maximally mixed pair measured in (ZI, IZ)', lambda: pc.maximally_mixed_state(2), ['ZI', 'IZ'], 4),
                                   ('maximally mixed pair measured in (XX)', lambda: pc.maximally_mixed_state(2), ['XX'], 2),
                                   ('maximally mixed qubit measured in (Z)', lambda: pc.maximally_mixed_state(1), ['Z'], 2),
                                   ('maximally mixed triple measured in (IIZ)', lambda: pc.maximally_mixed_state(3), ['IIZ'], 2),
                                   ('maximally mixed triple measured in (IIZ, ZII, IZI)', lambda: pc.maximally_mixed_state(3), ['IIZ', 'ZII', 'IZI'], 8),
                                   ('stabilizer_state(ZZ) measured in (XX)', lambda: pc.stabilizer_state('ZZ'), ['XX'], 2),
                                   ('stabilizer_state(ZZI, IZZ) measured in (ZII)', lambda: pc.stabilizer_state('ZZI', 'IZZ'), ['ZII'], 2)):
        hist = {}
        follow = 0
        for _ in range(Tj):
            st = mk()
            out, lp = st.measure(pc.paulis(*obs_))
            k_ = tuple(int(v) for v in out)
            hist[k_] = hist.get(k_, 0) + 1
            if _ < 200:          # the state follows the coin: the same measurement again returns the same readout with certainty
                out2, lp2 = st.measure(pc.paulis(*obs_))
                if tuple(int(v) for v in out2) != k_ or float(lp2) != 0.0:
                    follow += 1
        if follow:
            ctx.fail('stabilizer_measure', 'the state does not follow the coin: %s, repeating the measurement right away gave another readout or a non-zero log-probability in %d of 200 runs'
                     % (name_, follow), dict(case=name_))
        ctx.count('stat:joint-coins')
        ctx.case(('joint-coins', name_), True, sample=dict(op='joint outcome distribution', case=name_, cells=cells, histogram={str(k): v for k, v in hist.items()}))
        if len(hist) != cells or any(abs(v - Tj / cells) > hoeff(Tj, cells) for v in hist.values()):
            ctx.fail('stabilizer_measure', 'undetermined outcomes of one call are not independent fair coins: %s gives %s over %d runs (every one of the %d readouts has Born probability 1/%d)'
                     % (name_, {''.join(map(str, k)): v for k, v in sorted(hist.items())}, Tj, cells, cells), dict(case=name_, T=Tj))
    # three qubits (the exact enumerations stop at N = 2): the image of every generator is uniform over the 63 non-identity strings
    T3 = 63 * 40
    tallies = [dict() for _k in range(6)]
    for _ in range(T3):
        gs3 = U.random_clifford(3)
        for k_ in range(6):
            key = tuple(int(v) for v in gs3[k_])
            tallies[k_][key] = tallies[k_].get(key, 0) + 1
    x_ = math.log(1e9)
    for k_, tl in enumerate(tallies):
        chi3 = sum((v - T3 / 63) ** 2 / (T3 / 63) for v in tl.values()) + (63 - len(tl)) * (T3 / 63)
        ctx.count('stat:N3-rows')
        if len(tl) > 63 or chi3 > 62 + 2 * math.sqrt(62 * x_) + 2 * x_:
            ctx.fail('random_clifford', 'N=3: the image of generator %d is not uniform over the 63 non-identity strings (%d strings seen in %d draws, chi2 %.1f)' % (k_, len(tl), T3, chi3), dict(T=T3, row=k_)); break
    gate = CI.CliffordGate(0, 1)
    seen = set()
    for _ in range(64):
        lst = impl.plist(G.id_map_ops(2))
        gate.forward(lst)
        seen.add(tuple(impl.ops_of(lst)))
    ctx.count('stat:resampling')
    if len(seen) < 2:
        ctx.fail('CliffordGate.forward', 'a gate without a specified map is not resampled at every call (64 identical results)', dict())
    if ctx.tier == 'thorough':
        T2 = 720 * 60
        cls2 = {}
        for _ in range(T2):
            g = U.random_clifford(2)
            k = g.tobytes()
            cls2[k] = cls2.get(k, 0) + 1
        chi = sum((v - T2 / 720) ** 2 / (T2 / 720) for v in cls2.values()) + (720 - len(cls2)) * (T2 / 720)
        x = math.log(1e9)
        thr = 719 + 2 * math.sqrt(719 * x) + 2 * x
        ctx.count('stat:N2-classes')
        ctx.notes.append('N=2: %d symplectic classes seen in %d draws, chi2 = %.1f (threshold %.1f)' % (len(cls2), T2, chi, thr))
        if len(cls2) != 720 or chi > thr:
            ctx.fail('random_clifford', 'N=2: the 720 symplectic classes are not equally likely (%d classes, chi2 %.1f > %.1f)' % (len(cls2), chi, thr), dict(T=T2))
