"""C08 entropy equals the von Neumann entropy of the reduced density matrix."""
import itertools
import numpy as np
import oracle as O
import gen as G
import enc as E
import hutil as H

RULE = ('(state, region) cases: tableaux of every rank 0<=r<=N with random signs (N<=6), all 2^N regions for N<=5, given as '
        'index lists, tuples and boolean masks; re-mixed generating sets of the same group; z2rank on random binary matrices of all '
        'shapes including empty ones. non-trivial = region neither empty nor the whole system and the entropy is non-zero; '
        'distinct = distinct (state, region).')
ASSUMPTIONS = ['von Neumann entropy of a reduced stabilizer state = |A| - log2 #{group elements supported in A} (textbook; validated against dense partial traces N<=4)']


def spec_entropy(active, n, region):
    """|A| - dim{ s in group : supp s within A } via the harness's own GF(2) rank"""
    L = len(active)
    comp = [i for i in range(n) if i not in region]
    if L == 0:
        return len(region)
    rest = [[b for i in comp for b in O.to_g(s[0])[2 * i:2 * i + 2]] for s in active]
    rk = O.gf2_rank(rest) if comp else 0
    return len(region) - (L - rk)


def run(ctx):
    import impl
    U, pc = impl.U, impl.pc
    rng = ctx.rng
    # z2rank kernel
    for _ in range(ctx.budget(300, 4000)):
        nr, nc = rng.choice([0, 1, 2, 3, 5, 8]), rng.choice([1, 2, 3, 5, 8, 12])
        dens = rng.choice([0.1, 0.3, 0.5])
        mat = np.array([[int(rng.random() < dens) for _ in range(nc)] for _ in range(nr)], dtype=np.int_).reshape(nr, nc)
        got = int(U.z2rank(mat.copy()))
        ctx.q('z2rank', 'z2rank %d %s' % (nc, E.emat(mat.tolist())), got, int)
        want = O.gf2_rank(mat.tolist()) if nr else 0
        ctx.case(('z2rank', mat.tobytes(), nr, nc), want > 0, sample=dict(op='z2rank', mat=mat.tolist(), rank=got))
        if got != want:
            ctx.fail('z2rank', 'rank %d, GF(2) rank is %d' % (got, want), dict(mat=mat.tolist()))
    # entropy after a history of measurements on a mixed state (standby rows take part in the pivoting): the state the library
    # holds afterwards is compared, region by region, with the entropy of the projected group followed by the oracle
    for _ in range(ctx.budget(60, 800)):
        n = rng.choice([1, 2, 2, 3, 3, 4])
        rows, r = G.rand_tableau(rng, n, rng.choice([1, 1, 2, None]))
        r = min(max(r, 1), n)
        if rng.random() < 0.4:
            rows = G.map_to_state_ops(G.rand_map_ops(rng, n, depth=rng.randrange(0, 3)))
        st = impl.state(rows, r)
        act = list(rows[r:n])
        hist = []
        try:
            for _k in range(rng.randrange(1, 4)):
                if rng.random() < 0.5:
                    obs = G.rand_herm(rng, n, nonid=True)
                else:
                    qz = rng.randrange(n)
                    obs = (tuple('Z' if q_ == qz else 'I' for q_ in range(n)), 0)
                out, _lp = st.measure(impl.plist([obs], n))
                bit = int(np.asarray(out).reshape(-1)[0])
                kind, dd, new = O.measure_spec(act, n, obs, random_out=bit)
                act = new if kind != 'determined' else act
                hist.append((obs, bit, kind))
            ctx.count('measure-history')
            ctx.case(('entropy-after-measure', tuple(rows), r, str(hist)), any(k_ == 'random-logical' for _o, _b, k_ in hist), sample=dict(op='entropy after measure', N=n, r=r, history=str(hist)[:200]))
            for reg in itertools.chain.from_iterable(itertools.combinations(range(n), k) for k in range(n + 1)):
                e = int(st.entropy(list(reg)))
                want = spec_entropy(act, n, reg)
                if e != want:
                    ctx.fail('StabilizerState.entropy', 'after measuring %s on a rank-%d state the entropy of region %s is %d, the projected state has %d' % (hist, r, list(reg), e, want),
                             dict(rows=rows, r=r, history=hist, region=reg)); break
        except Exception as ex:
            ctx.fail('StabilizerState.entropy', 'implementation raised %r after a measurement history' % ex, dict(rows=rows, r=r, history=hist))
    # entropy
    for _ in range(ctx.budget(120, 1500)):
        n = rng.choice([1, 2, 3, 3, 4, 4, 5, 6])
        rows, r = G.rand_tableau(rng, n)
        if rng.random() < 0.4:   # low-entanglement states exercise the 'strictly inside' bookkeeping
            rows = G.map_to_state_ops(G.rand_map_ops(rng, n, depth=rng.randrange(0, 4)))
        act = rows[r:n]
        st = impl.state(rows, r)
        snap = H.snapshot(st)
        regions = list(itertools.chain.from_iterable(itertools.combinations(range(n), k) for k in range(n + 1)))
        if n > 5:
            regions = rng.sample(regions, 24)
        rho = O.dense_state(act, n) if n <= 4 and rng.random() < 0.3 else None
        ent = {}
        for reg in regions:
            how = rng.choice(['list', 'tuple', 'mask', 'array', 'list-shuffled', 'list-negative', 'list-repeats'])
            idxs = list(reg)
            if how == 'list-repeats' and not reg:
                how = 'list'
            if how == 'list-repeats':         # a region is a set of qubits: repeats change nothing, whatever the length of the list (N included)
                while len(idxs) < (n if rng.random() < 0.6 else len(reg) + 1):
                    idxs.append(rng.choice(reg))
                rng.shuffle(idxs); arg = list(idxs)
            if how == 'list-repeats':
                pass
            elif how == 'list-shuffled':      # the order in which the qubits of a region are listed is immaterial
                rng.shuffle(idxs); arg = list(idxs)
            elif how == 'list-negative':      # qubits may be counted from the end
                idxs = [q - n if rng.random() < 0.6 else q for q in idxs]; rng.shuffle(idxs); arg = list(idxs)
            elif how == 'list':
                arg = list(reg)
            elif how == 'tuple':
                arg = tuple(reg)
            elif how == 'array':
                arg = np.array(reg, dtype=int)
            else:
                arg = np.array([i in reg for i in range(n)])
            if how == 'array' and len(reg) == 0:
                arg = []
            try:
                e = st.entropy(arg)
                e = int(e)
            except Exception as ex:
                ctx.fail('StabilizerState.entropy', 'implementation raised %r' % ex, dict(rows=rows, r=r, region=reg, how=how)); continue
            ent[reg] = e
            if how == 'mask':
                ctx.q('entropymask', 'entropymask %d %s %s' % (r, H.erows_ops(rows), E.ebits([i in reg for i in range(n)])), e, int)
            else:
                ctx.q('entropyidx', 'entropyidx %d %s %s' % (r, H.erows_ops(rows), E.eints(idxs if how.startswith('list-') else reg)), e, lambda s: int(s.split(' ')[1]) if s.startswith('ok ') else s)
            want = spec_entropy(act, n, reg)
            ctx.case((tuple(rows), r, reg), 0 < len(reg) < n and want > 0, sample=dict(op='entropy', N=n, r=r, region=reg, how=how, value=e))
            ctx.count('how=' + how); ctx.count('r=%d' % r)
            if e != want:
                ctx.fail('StabilizerState.entropy', 'entropy %d, von Neumann entropy of the reduced state is %d' % (e, want),
                         dict(rows=rows, r=r, region=reg, how=how))
            if rho is not None and reg:
                vn = O.vn_entropy_bits(O.ptrace_keep(rho, list(reg), n))
                ctx.count('dense')
                if abs(vn - e) > 1e-6:
                    ctx.fail('StabilizerState.entropy', 'entropy %d, dense von Neumann entropy %.6f' % (e, vn), dict(rows=rows, r=r, region=reg))
        # a qubit the register does not have is rejected (same outcome as the model: the assertion of utils.mask / an IndexError)
        for _k in range(2):
            L_ = rng.choice([1, 2, n]) if n > 1 else 1
            bad_idx = [rng.randrange(n) for _i in range(L_ - 1)] + [rng.choice([n, n + 2, -n - 1])]
            rng.shuffle(bad_idx)
            try:
                got_ = 'ok %d' % int(st.entropy(list(bad_idx)))
            except AssertionError:
                got_ = 'err AssertionError'
            except IndexError:
                got_ = 'err IndexError'
            except Exception as ex:
                got_ = impl.errname(ex)
            ctx.q('entropyidx(out of range)', 'entropyidx %d %s %s' % (r, H.erows_ops(rows), E.eints(bad_idx)), got_,
                  lambda s_: s_ if s_.startswith('ok ') else {'err assertion': 'err AssertionError', 'err index': 'err IndexError'}.get(s_, s_))
            ctx.case(('entropy-out-of-range', tuple(rows), r, tuple(bad_idx)), True)
            if got_.startswith('ok'):
                ctx.fail('StabilizerState.entropy', 'a region naming qubit(s) %s of a %d-qubit state is accepted (entropy %s) instead of rejected' % (bad_idx, n, got_[3:]), dict(rows=rows, r=r, region=bad_idx))
        if ent.get(()) not in (None, 0):
            ctx.fail('StabilizerState.entropy', 'empty region has entropy %s' % ent[()], dict(rows=rows, r=r))
        full = tuple(range(n))
        if full in ent and ent[full] != r:
            ctx.fail('StabilizerState.entropy', 'whole system has entropy %s, rank is %d' % (ent[full], r), dict(rows=rows, r=r))
        if r == 0:
            for reg in ent:
                comp = tuple(i for i in range(n) if i not in reg)
                if comp in ent and ent[comp] != ent[reg]:
                    ctx.fail('StabilizerState.entropy', 'pure state: region and complement differ', dict(rows=rows, region=reg))
        if H.snapshot(st) != snap:
            ctx.fail('StabilizerState.entropy', 'receiver modified by a query', dict(rows=rows, r=r))
        # another generating set of the same group -> same entropies
        if len(act) >= 2:
            act2 = list(act)
            for _k in range(2 * len(act2)):
                i, j = rng.randrange(len(act2)), rng.randrange(len(act2))
                if i != j:
                    act2[i] = O.omul(act2[i], act2[j])
            rows2 = rows[:r] + act2 + rows[n:]
            st2 = impl.state(rows2, r)
            for reg in list(ent)[:8]:
                if reg:
                    try:
                        e2 = int(st2.entropy(list(reg)))
                        if e2 != ent[reg]:
                            ctx.fail('StabilizerState.entropy', 'entropy depends on the generating set (%d vs %d)' % (e2, ent[reg]),
                                     dict(rows=rows, rows2=rows2, r=r, region=reg))
                    except Exception as ex:
                        ctx.fail('StabilizerState.entropy', 'implementation raised %r' % ex, dict(rows=rows2, r=r, region=reg))
        # Clifford gates acting entirely inside or entirely outside a region leave its entropy unchanged
        import circ_util as CU
        for reg in [x for x in ent if 0 < len(x) < n][:4]:
            comp = [i for i in range(n) if i not in reg]
            side = list(reg) if rng.random() < 0.5 else comp
            st3 = impl.state(rows, r)
            gates_ = []
            for _k in range(rng.randrange(1, 4)):
                d_ = CU.rand_gate(rng, len(side), kinds=('gen', 'fmap', 'named', 'cnot'))
                # relabel the gate's qubits into the chosen side
                d_ = dict(d_, qubits=sorted(side[q] for q in d_['qubits']))
                if 'order' in d_:
                    d_['order'] = list(d_['qubits'])
                if d_['kind'] == 'cnot':
                    c_, t_ = side[d_['c']], side[d_['t']]
                    lo_ = min(c_, t_)
                    import props.c11 as c11
                    d_.update(c=c_, t=t_, F=c11.cnot_rows(0 if c_ == lo_ else 1, 1 if c_ == lo_ else 0))
                gates_.append(d_)
                CU.impl_gate(impl, d_).forward(st3)
            try:
                e3 = int(st3.entropy(list(reg)))
            except Exception as ex:
                ctx.fail('StabilizerState.entropy', 'implementation raised %r' % ex, dict(rows=rows, r=r, region=reg)); continue
            ctx.count('local-gates:' + ('inside' if side == list(reg) else 'outside'))
            ctx.case(('local-gates', tuple(rows), r, reg, str(gates_)), True, sample=dict(op='entropy after local gates', N=n, r=r, region=reg, gates=len(gates_)))
            if e3 != ent[reg]:
                ctx.fail('StabilizerState.entropy', 'entropy of a region changed (%d -> %d) under gates acting entirely %s it' % (ent[reg], e3, 'inside' if side == list(reg) else 'outside'),
                         dict(rows=rows, r=r, region=reg, gates=gates_))
