"""C20 operator descriptions, printing, tokens and indexing round-trip."""
import itertools
import numpy as np
import oracle as O
import gen as G
import enc as E
import hutil as H

RULE = ('operators with all four phases, N<=10: every accepted description (strings with prefixes "", "+", "-", "i", "+i", "-i"; '
        'code lists/tuples/arrays 0-7; dicts with N), repr->parse and tokenize->parse round trips, lists through paulis(), '
        'selection by integer/slice/mask/index array, negation and multiplication by 1,-1,i,-i, N/L/weight; malformed input. '
        'non-trivial = non-identity string; distinct = distinct (format, operator).')
ASSUMPTIONS = []
CODE = {'I': 0, 'X': 1, 'Y': 2, 'Z': 3}
PRE = {0: ['', '+'], 1: ['i', '+i'], 2: ['-'], 3: ['-i']}
PCODE = {0: 4, 2: 5, 1: 6, 3: 7}


def tokline(seq):
    out = []
    for t in seq:
        if isinstance(t, str):
            out.append('c' + t)
        else:
            out.append('n%d' % int(t))
    return ','.join(out) if out else '_'


def run(ctx):
    import impl
    pc = impl.pc
    rng = ctx.rng

    def dec(s):
        return O.from_gp(*E.dpauli(s.split(' ')[1])) if s.startswith('ok ') else s

    def parse_check(desc, seq, want, fmt, N=None):
        try:
            p = pc.pauli(desc) if N is None else pc.pauli(desc, N)
            got = (O.from_gp(p.g, p.p)[0], int(p.p) % 4) if len(p.g) else ((), int(p.p) % 4)
        except Exception as e:
            got = impl.errname(e)
        ctx.count('fmt=' + fmt)
        if N is None:
            ctx.q('parse', 'parseseq %s' % tokline(seq), got, dec)
        else:
            ctx.q('parsedict', 'parsedict %d %s' % (N, ','.join('%d=%s' % (k, tokline([v])) for k, v in seq) or '_'), got, dec)
        if want is not None and got != want:
            ctx.fail('pauli()', 'description %r (%s) parsed to %s, expected %s' % (desc, fmt, got, want), dict(desc=str(desc), fmt=fmt))

    ops = []
    for n in (1, 2):
        for s in itertools.product('IXYZ', repeat=n):
            for p in range(4):
                ops.append((s, p))
    for _ in range(ctx.budget(150, 2000)):
        ops.append(G.rand_op(rng, rng.choice([3, 4, 5, 7, 10])))
    for op in ops:
        letters, p = op
        n = len(letters)
        ctx.case(op, any(c != 'I' for c in letters), sample=dict(op='parse/repr/tokenize', P=op))
        for pre in PRE[p]:
            s = pre + ''.join(letters)
            parse_check(s, list(s), op, 'string')
        codes = [CODE[c] for c in letters]
        parse_check(codes + [PCODE[p]], codes + [PCODE[p]], op, 'codes-list')
        parse_check(tuple([PCODE[p]] + codes), [PCODE[p]] + codes, op, 'codes-tuple-prefix')
        parse_check(np.array(codes + [PCODE[p]]), codes + [PCODE[p]], op, 'codes-array')
        # the phase code may stand anywhere in the sequence (string prefixes put it first); every container type reads alike
        kpos = rng.randrange(n + 1)
        mid = codes[:kpos] + [PCODE[p]] + codes[kpos:]
        parse_check(np.array([PCODE[p]] + codes), [PCODE[p]] + codes, op, 'codes-array-prefix')
        parse_check(np.array(mid, dtype=rng.choice([np.int64, np.int32, np.int8])), mid, op, 'codes-array-phase-anywhere')
        parse_check(list(mid), mid, op, 'codes-list-phase-anywhere')
        parse_check(tuple(mid), mid, op, 'codes-tuple-phase-anywhere')
        try:
            rows2 = pc.paulis(np.array([[PCODE[p]] + codes, codes + [PCODE[p]]]))
            if impl.ops_of(rows2) != [op, op]:
                ctx.fail('paulis()', 'rows of a 2-d code array parsed to %s, expected twice %s' % (impl.ops_of(rows2), op), dict(P=op))
        except Exception as e:
            ctx.fail('paulis()', 'implementation raised %r on a 2-d code array' % e, dict(P=op))
        # the number of qubits stated explicitly next to a description that already fixes it (prefixed strings, code lists with a
        # phase code, mixed with dicts in one paulis() call)
        for desc_, fmt_ in ((PRE[p][-1] + ''.join(letters), 'string+N'), (codes + [PCODE[p]], 'codes-list+N'), ([PCODE[p]] + codes, 'codes-prefix+N')):
            try:
                pN = pc.pauli(desc_, N=n)
                gotN = (O.from_gp(pN.g, pN.p)[0], int(pN.p) % 4)
            except Exception as e:
                gotN = impl.errname(e)
            ctx.count('fmt=' + fmt_)
            if gotN != op:
                ctx.fail('pauli()', 'description %r with N=%d stated explicitly parsed to %s, expected %s' % (desc_, n, gotN, op), dict(desc=str(desc_), fmt=fmt_))
        try:
            dmix = {0: 'X'}
            lm = pc.paulis(PRE[p][-1] + ''.join(letters), dmix, N=n)
            wantm = [op, (tuple('X' if i_ == 0 else 'I' for i_ in range(n)), 0)]
            if impl.ops_of(lm) != wantm:
                ctx.fail('paulis()', 'a prefixed string and a dict in one call with N=%d parsed to %s' % (n, impl.ops_of(lm)), dict(P=op))
        except Exception as e:
            ctx.fail('paulis()', 'a prefixed string and a dict in one call with N=%d raised %r' % (n, e), dict(P=op))
        if p == 0:
            parse_check(codes, codes, op, 'codes-nophase')
            d = {i: CODE[c] for i, c in enumerate(letters) if c != 'I'}
            parse_check(d, list(d.items()), op, 'dict', N=n)
            d2 = {i: c for i, c in enumerate(letters) if c != 'I'}
            parse_check(d2, list(d2.items()), op, 'dict-letters', N=n)
        # repr -> parse, tokenize -> parse
        P = impl.pauli(op)
        try:
            txt = repr(P)
            back = pc.pauli(txt)
            if (O.from_gp(back.g, back.p)) != op:
                ctx.fail('Pauli.__repr__', 'printing then parsing gives %s' % (O.from_gp(back.g, back.p),), dict(P=op, text=txt))
            ctx.q('repr', 'repr %s' % E.epauli(O.to_g(letters), p), 'ok ' + txt.replace(' ', '.'))
        except Exception as e:
            ctx.fail('Pauli.__repr__', 'implementation raised %r' % e, dict(P=op))
        try:
            tk = [int(v) for v in P.tokenize()[0]]
            ctx.q('tokenize', 'tokenize %s' % E.epauli(O.to_g(letters), p), tk, E.dints)
            back = pc.pauli(tk)
            if O.from_gp(back.g, back.p) != op:
                ctx.fail('Pauli.tokenize', 'tokenizing then parsing gives %s' % (O.from_gp(back.g, back.p),), dict(P=op, tokens=tk))
            if tk != [CODE[c] for c in letters] + [PCODE[p]]:
                ctx.fail('Pauli.tokenize', 'token codes are not 0-3 for I,X,Y,Z and 4,5,6,7 for +,-,+i,-i', dict(P=op, tokens=tk))
        except Exception as e:
            ctx.fail('Pauli.tokenize', 'implementation raised %r' % e, dict(P=op))
        # N, weight, neg, rmul
        if P.N != n or int(P.weight()) != sum(c != 'I' for c in letters):
            ctx.fail('Pauli.N/weight', 'N=%s weight=%s' % (P.N, P.weight()), dict(P=op))
        ctx.q('weight', 'weight %s' % E.estr(O.to_g(letters)), int(P.weight()), int)
        for k, c in enumerate([1, 1j, -1, -1j]):
            try:
                Q_ = c * P
                if impl.ops_of(Q_) != O.oscale(op, k):
                    ctx.fail('Pauli.__rmul__', 'multiplication by %s gives %s' % (c, impl.ops_of(Q_)), dict(P=op))
                ctx.q('smuli', 'smuli %d %s' % (k, E.epauli(O.to_g(letters), p)), impl.ops_of(Q_), lambda s: O.from_gp(*E.dpauli(s)))
                backq = pc.pauli(repr(Q_))          # a unit times an operator is an operator again: its printed form parses back to it
                if O.from_gp(backq.g, backq.p) != O.oscale(op, k):
                    ctx.fail('Pauli.__rmul__', '%s times the operator prints as %r, which parses to %s' % (c, repr(Q_), O.from_gp(backq.g, backq.p)), dict(P=op, c=str(c)))
            except Exception as e:
                ctx.fail('Pauli.__rmul__', 'implementation raised %r' % e, dict(P=op, c=str(c)))
        if impl.ops_of(-P) != O.oneg(op):
            ctx.fail('Pauli.__neg__', 'negation gives %s' % (impl.ops_of(-P),), dict(P=op))
    # histories: an operator built from a description is changed in place; describing the same operator again must not notice
    for _ in range(ctx.budget(80, 800)):
        n = rng.choice([1, 2, 3, 5])
        op = G.rand_op(rng, n)
        txt = rng.choice(PRE[op[1]]) + ''.join(op[0])
        codes = [CODE[c] for c in op[0]] + [PCODE[op[1]]]
        try:
            first = [pc.pauli(txt), pc.pauli(codes), pc.pauli(tuple(codes)), pc.paulis(txt, txt)[0], pc.paulis([txt])[0]]
            for o in first:
                Gop = G.rand_herm(rng, n, nonid=True)
                o.rotate_by(impl.pauli(Gop))
                if rng.random() < 0.5:
                    o.transform_by(impl.cmap(G.rand_map_ops(rng, n)))
            again = dict(string=pc.pauli(txt), codes=pc.pauli(codes), tuple=pc.pauli(tuple(codes)), paulis=pc.paulis(txt, txt)[1], reparsed=pc.pauli(repr(impl.pauli(op))))
            for fmt, o in again.items():
                if impl.ops_of(o) != op:
                    ctx.fail('pauli()', 'after an operator built from the same description was changed in place, the %s description parses to %s instead of %s' % (fmt, impl.ops_of(o), op),
                             dict(desc=txt, fmt=fmt))
        except Exception as e:
            ctx.fail('pauli()', 'implementation raised %r in a parse / mutate / parse history' % e, dict(desc=txt))
        ctx.case(('history', op), True, sample=dict(op='parse, mutate in place, parse again', P=op))
    # lists and index expressions
    for _ in range(ctx.budget(80, 800)):
        n = rng.choice([1, 2, 3, 5, 8])
        L = rng.randrange(1, 9)
        lst_ops = [G.rand_op(rng, n) for _ in range(L)]
        descs = []
        for o in lst_ops:
            f = rng.choice(['s', 'c', 'p'])
            descs.append(rng.choice(PRE[o[1]]) + ''.join(o[0]) if f == 's' else ([CODE[c] for c in o[0]] + [PCODE[o[1]]] if f == 'c' else impl.pauli(o)))
        try:
            lst = pc.paulis(descs) if (rng.random() < 0.5 or L == 1) else pc.paulis(*descs)  # a single positional list is read as the list of descriptions
            got = impl.ops_of(lst)
        except Exception as e:
            ctx.fail('paulis()', 'implementation raised %r' % e, dict(ops=lst_ops)); continue
        ctx.case(('list', tuple(lst_ops)), True, sample=dict(op='paulis/getitem', L=L, N=n))
        if got != lst_ops or lst.L != L or lst.N != n or len(lst) != L:
            ctx.fail('paulis()', 'list differs from its descriptions', dict(ops=lst_ops, got=got))
        if [int(w) for w in lst.weight()] != [sum(c != 'I' for c in o[0]) for o in lst_ops]:
            ctx.fail('PauliList.weight', 'wrong weights', dict(ops=lst_ops))
        i = rng.randrange(-L, L)
        if impl.ops_of(lst[i]) != lst_ops[i]:
            ctx.fail('PauliList.__getitem__', 'integer index %d' % i, dict(ops=lst_ops))
        # the same index expressions on the model (Model/Index.lean), error cases included
        enc_rows = H.erows_ops(lst_ops)

        def sel(expr):
            try:
                r_ = expr()
                return impl.ops_of(r_) if hasattr(r_, 'gs') else [impl.ops_of(r_)]
            except IndexError:
                return 'err IndexError'
            except ValueError:
                return 'err ValueError'
            except Exception as e_:
                return impl.errname(e_)
        dec_rows = lambda s_: H.drows_ops(s_.split(' ')[1]) if s_.startswith('ok ') else s_
        for i2 in (i, rng.randrange(-L - 2, L + 2)):
            ctx.q('getitem-int', 'getint %s %d' % (enc_rows, i2), sel(lambda: lst[i2]), dec_rows)
        for _s in range(3):
            a2 = rng.choice([None, rng.randrange(-L - 2, L + 3)]); b2 = rng.choice([None, rng.randrange(-L - 2, L + 3)]); st2 = rng.choice([1, 1, 2, 3, -1, -2, None])
            got_ = sel(lambda: lst[a2:b2:st2])
            ctx.q('getitem-slice', 'getslice %s %s %s %d' % (enc_rows, a2, b2, 1 if st2 is None else st2), got_ if got_ != [] else [], dec_rows)
            if not isinstance(got_, str) and got_ != lst_ops[a2:b2:st2]:
                ctx.fail('PauliList.__getitem__', 'slice %s:%s:%s' % (a2, b2, st2), dict(ops=lst_ops))
        m2 = [rng.random() < 0.5 for _ in range(rng.choice([L, L, L, L + 1, max(L - 1, 0)]))]
        if any(m2) or len(m2) != L:
            ctx.q('getitem-mask', 'getmask %s %s' % (enc_rows, E.ebits(m2) if m2 else '_'), sel(lambda: lst[np.array(m2, dtype=bool)]), dec_rows)
        ia2 = [rng.randrange(-L - 1, L + 1) for _ in range(rng.randrange(1, 5))]
        ctx.q('getitem-index-array', 'getidx %s %s' % (enc_rows, E.eints(ia2)), sel(lambda: lst[np.array(ia2)]), dec_rows)
        a, b, st = rng.randrange(-L, L + 1), rng.randrange(-L, L + 1), rng.choice([1, 1, 2, -1])
        if impl.ops_of(lst[a:b:st]) != lst_ops[a:b:st]:
            ctx.fail('PauliList.__getitem__', 'slice %d:%d:%d' % (a, b, st), dict(ops=lst_ops))
        msk = [rng.random() < 0.5 for _ in range(L)]
        if impl.ops_of(lst[np.array(msk)]) != [o for o, m in zip(lst_ops, msk) if m]:
            ctx.fail('PauliList.__getitem__', 'boolean mask', dict(ops=lst_ops, mask=msk))
        if impl.ops_of(lst[list(msk)]) != [o for o, m in zip(lst_ops, msk) if m]:      # numpy reads a plain list of bools as a mask too
            ctx.fail('PauliList.__getitem__', 'boolean mask given as a Python list', dict(ops=lst_ops, mask=msk))
        ia = [rng.randrange(L) for _ in range(rng.randrange(1, 5))]
        if impl.ops_of(lst[np.array(ia)]) != [lst_ops[k] for k in ia]:
            ctx.fail('PauliList.__getitem__', 'index array', dict(ops=lst_ops, idx=ia))
        ib = [rng.randrange(-L, L) for _ in range(rng.randrange(1, 5))]
        if impl.ops_of(lst[list(ib)]) != [lst_ops[k] for k in ib]:
            ctx.fail('PauliList.__getitem__', 'index list (negative indices allowed)', dict(ops=lst_ops, idx=ib))
        ctx.case(('getitem-forms', tuple(lst_ops), tuple(msk), tuple(ia), tuple(ib)), True)
        # integer indices of every numpy integer type select ONE operator (a Pauli, not a list), negative ones included
        for it_ in (np.int8, np.int16, np.int32, np.int64, np.intc, np.intp, np.uint8, np.uint16, np.uint32, np.uint64):
            k_ = rng.randrange(L) if 'uint' in it_.__name__ else rng.randrange(-L, L)
            try:
                one_ = lst[it_(k_)]
                ok_ = type(one_).__name__ == 'Pauli' and impl.ops_of(one_) == lst_ops[k_] and one_.N == n
            except Exception as e:
                ok_ = False; one_ = e
            if not ok_:
                ctx.fail('PauliList.__getitem__', 'index %d given as %s does not select that single operator (got %s)' % (k_, it_.__name__, str(one_)[:80]), dict(ops=lst_ops, index=k_, type=it_.__name__)); break
        # sub-lists without elements keep N, have length 0 and an empty weight vector; their negation and multiples too
        for nm_, emp in (('empty slice', lambda: lst[L:]), ('all-False mask', lambda: lst[np.zeros(L, dtype=bool)]), ('empty index array', lambda: lst[np.array([], dtype=np.int_)]),
                         ('negated empty slice', lambda: -lst[0:0]), ('i times empty slice', lambda: 1j * lst[0:0])):
            try:
                e_ = emp()
                ok_ = len(e_) == 0 and e_.N == n and list(e_.weight()) == [] and np.asarray(e_.weight()).shape == (0,)
            except Exception as ex:
                ok_ = False; e_ = ex
            if not ok_:
                ctx.fail('PauliList', 'a sub-list without elements (%s) does not behave as an empty list on %d qubits: %s' % (nm_, n, str(e_)[:100]), dict(ops=lst_ops, how=nm_)); break
        for k, c in enumerate([1, 1j, -1, -1j]):
            if impl.ops_of(c * lst) != [O.oscale(o, k) for o in lst_ops]:
                ctx.fail('PauliList.__rmul__', 'multiplication by %s' % c, dict(ops=lst_ops))
        if impl.ops_of(-lst) != [O.oneg(o) for o in lst_ops]:
            ctx.fail('PauliList.__neg__', 'negation', dict(ops=lst_ops))
        tks = lst.tokenize().tolist()
        if tks != [[CODE[c] for c in o[0]] + [PCODE[o[1]]] for o in lst_ops]:
            ctx.fail('PauliList.tokenize', 'wrong tokens', dict(ops=lst_ops, got=tks))
        # the token table of a whole list parses back to the list, as a 2-D array, as a list of rows, row by row
        try:
            tarr = lst.tokenize()
            forms = [('2-D array', (np.asarray(tarr),)), ('list of rows', (np.asarray(tarr).tolist(),))]
            if len(lst_ops) >= 2:       # a single row handed over as the only argument is, by the API, a collection of objects, not one operator
                forms += [('rows', tuple(np.asarray(tarr))), ('lists', tuple(np.asarray(tarr).tolist()))]
            for form, arg in forms:
                back = pc.paulis(*arg)
                ctx.count('tokens->paulis:' + form)
                if impl.ops_of(back) != lst_ops:
                    ctx.fail('paulis', 'tokenize() of a list parsed back through paulis(%s) gives %s' % (form, impl.ops_of(back)), dict(ops=lst_ops, tokens=tks)); break
        except Exception as e:
            ctx.fail('paulis', 'parsing the token table of a list raised %r' % e, dict(ops=lst_ops, tokens=tks))
    # malformed
    for bad, exp in ((3.5, 'err TypeError'), (None, 'err TypeError'), ({0: 1}, 'err ValueError')):
        try:
            pc.pauli(bad); got = 'no error'
        except Exception as e:
            got = impl.errname(e)
        ctx.case(('malformed', str(bad)), True)
        if got != exp:
            ctx.fail('pauli()', 'malformed description %r: %s, expected %s' % (bad, got, exp), dict(desc=str(bad)))
