"""C03 applying a Clifford map is a phase-exact homomorphism: pauli_combine / pauli_transform / transform_by
(with and without mask) / embed / rotation map, against the model and against the oracle image."""
import itertools
import numpy as np
import oracle as O
import gen as G
import enc as E
import hutil as H

RULE = ('(map, operand list) pairs: all 24 one-qubit maps on all 16 one-qubit operators; random valid maps N<=8 built by '
        'the harness from rotation sequences with random signs; Y-heavy operands, all 4 phases; masks/embeddings of n-qubit maps '
        'into N<=8 qubits; polynomials; rotation maps vs rotation. non-trivial = operand not the identity string; '
        'distinct = distinct (map, mask, operand).')
ASSUMPTIONS = ['a phase-exact automorphism of the Pauli group fixing scalars is conjugation by a unitary (textbook, not formalised)']


def run(ctx):
    import impl
    U, pc = impl.U, impl.pc
    rng = ctx.rng

    def one(rows, Ps, idx=None):
        n = len(Ps[0][0])
        lst = impl.plist(Ps)
        mp = impl.cmap(rows)
        try:
            if idx is None:
                lst.transform_by(mp)
                line = 'transform %s %s' % (H.erows_ops(rows), H.erows_ops(Ps))
                want = [H.map_apply(rows, P) for P in Ps]
            else:
                m = [i in idx for i in range(n)]
                lst.transform_by(mp, np.array(m))
                line = 'transformmasked %s %s %s' % (H.erows_ops(rows), E.ebits(m), H.erows_ops(Ps))
                want = [H.map_apply_masked(rows, idx, P) for P in Ps]
        except Exception as e:
            ctx.fail('PauliList.transform_by', 'implementation raised %r' % e, dict(map=rows, Ps=Ps, idx=idx))
            return None
        got = impl.ops_of(lst)
        ctx.q('transform' if idx is None else 'transformmasked', line, got, H.drows_ops)
        for P, g_, w_ in zip(Ps, got, want):
            ctx.case((tuple(rows), tuple(idx) if idx else None, P), any(c != 'I' for c in P[0]),
                     sample=dict(op='transform_by', map=rows, mask=idx, P=P, result=g_))
            if g_ != w_:
                ctx.fail('PauliList.transform_by' + ('(mask)' if idx else ''), 'image is not the product of the images of the factors',
                         dict(map=rows, idx=idx, P=P, got=g_, want=w_))
        return got

    # all 24 one-qubit maps, all operators
    allP1 = [((c,), p) for c in 'IXYZ' for p in range(4)]
    for rows in G.all_one_qubit_maps():
        one(rows, allP1)
    ctx.count('all-24-maps')
    # random valid maps
    for _ in range(ctx.budget(200, 2500)):
        n = rng.choice([1, 2, 2, 3, 4, 5, 6, 8])
        rows = G.rand_map_ops(rng, n)
        assert H.valid_map(rows) is None
        Ps = [G.rand_op(rng, n, density=rng.choice([None, 1.0])) for _ in range(rng.randrange(1, 6))]
        Ps.append((tuple('Y' * n), rng.randrange(4)))
        got = one(rows, Ps)
        ctx.count('N=%d' % n)
        if got is None:
            continue
        # homomorphism on the implementation: T(PQ) = T(P) T(Q); generators; identity
        P, Q = Ps[0], Ps[-1]
        tpq = impl.ops_of(impl.plist([O.omul(P, Q)]).transform_by(impl.cmap(rows)))[0]
        if tpq != O.omul(got[0], got[-1]):
            ctx.fail('PauliList.transform_by', 'T(PQ) != T(P)T(Q)', dict(map=rows, P=P, Q=Q, got=tpq, want=O.omul(got[0], got[-1])))
        gens = impl.ops_of(impl.plist(G.id_map_ops(n)).transform_by(impl.cmap(rows)))
        if gens != [(r[0], r[1] % 4) for r in rows]:
            ctx.fail('PauliList.transform_by', 'generators are not sent to the rows of the map', dict(map=rows, got=gens))
        ident = impl.ops_of(impl.plist([O.oident(n)]).transform_by(impl.cmap(rows)))[0]
        if ident != O.oident(n):
            ctx.fail('PauliList.transform_by', 'identity not fixed', dict(map=rows, got=ident))
        # kernel pauli_combine directly with a random selector
        C = np.array([[rng.randrange(2) for _ in range(2 * n)] for _ in range(2)], dtype=np.int_)
        gs_in = np.array([O.to_g(r[0]) for r in rows], dtype=np.int_)
        ps_in = np.array([r[1] for r in rows], dtype=np.int_)
        go, po = U.pauli_combine(C, gs_in, ps_in)
        for c, g_, p_ in zip(C, go, po):
            ctx.q('combine', 'combine %d %s %s' % (n, E.ebits(c), H.erows_ops(rows)), O.from_gp(g_, p_),
                  lambda s: O.from_gp(*E.dpauli(s)))
            want = O.oprod([r for b, r in zip(c, rows) if b], n)
            if O.from_gp(g_, p_) != want:
                ctx.fail('pauli_combine', 'not the ordered product of the selected rows', dict(C=c.tolist(), rows=rows))
    # masks / embeddings
    for _ in range(ctx.budget(150, 2000)):
        n = rng.choice([2, 3, 4, 5, 6, 8])
        m, idx = G.rand_mask(rng, n, rng.randrange(1, n + 1))
        rows = G.rand_map_ops(rng, len(idx))
        Ps = [G.rand_op(rng, n) for _ in range(3)]
        got = one(rows, Ps, idx)
        ctx.count('mask-N=%d-k=%d' % (n, len(idx)))
        # embed: same as the embedded map applied without mask
        big = pc.identity_map(n).embed(impl.cmap(rows), np.array(m))
        bigops = impl.ops_of(big)
        ctx.q('embed', 'embed %s %s %s' % (H.erows_ops(G.id_map_ops(n)), H.erows_ops(rows), E.ebits(m)), bigops, H.drows_ops)
        if got is not None:
            viaembed = [H.map_apply(bigops, P) for P in Ps]
            if viaembed != got:
                ctx.fail('CliffordMap.embed', 'masked application differs from the embedded map', dict(map=rows, idx=idx, Ps=Ps))
    # polynomial coefficients untouched; Pauli.transform_by
    for _ in range(ctx.budget(40, 400)):
        n = rng.choice([1, 2, 3, 4])
        rows = G.rand_map_ops(rng, n)
        terms = [(G.rand_op(rng, n), complex(rng.choice([1, -2, 0.5]), rng.choice([0, 1, -0.25]))) for _ in range(3)]
        try:
            po = impl.poly(terms).transform_by(impl.cmap(rows))
            gotp = [(O.from_gp(g, p), complex(c)) for g, p, c in zip(po.gs, po.ps, po.cs)]
            if gotp != [(H.map_apply(rows, t[0]), t[1]) for t in terms]:
                ctx.fail('PauliPolynomial.transform_by', 'terms not mapped one by one with coefficients untouched', dict(map=rows, terms=terms, got=gotp))
        except Exception as e:
            ctx.fail('PauliPolynomial.transform_by', 'implementation raised %r' % e, dict(map=rows, terms=terms))
        P = G.rand_op(rng, n)
        pa = impl.pauli(P).transform_by(impl.cmap(rows))
        if impl.ops_of(pa) != H.map_apply(rows, P):
            ctx.fail('Pauli.transform_by', 'wrong image', dict(map=rows, P=P, got=impl.ops_of(pa)))
        ctx.case(('poly', tuple(rows), tuple(terms)), True)
        # rotation map acts as the rotation
        Gop = G.rand_herm(rng, n)
        rm = pc.clifford_rotation_map(impl.pauli(Gop))
        t1 = impl.ops_of(impl.plist([P]).transform_by(rm))[0]
        if t1 != G.rotate_op(Gop, P):
            ctx.fail('clifford_rotation_map', 'map built from a generator does not act as the rotation', dict(G=Gop, P=P, got=t1))
        # ... and identically to the library's own rotation, on operators of every kind (commuting with overlap included)
        Qs = [G.rand_op(rng, n) for _ in range(6)]
        viamap = impl.ops_of(impl.plist(Qs).transform_by(rm))
        viarot = impl.ops_of(impl.plist(Qs).rotate_by(impl.pauli(Gop)))
        want = [G.rotate_op(Gop, Q) for Q in Qs]
        for Q, a_, b_, w_ in zip(Qs, viamap, viarot, want):
            ctx.case(('rotmap-vs-rotate', Gop, Q), any(c != 'I' for c in Q[0]), sample=dict(op='rotation map vs rotate_by', G=Gop, P=Q, result=a_))
            if a_ != b_ or a_ != w_:
                ctx.fail('clifford_rotation_map', 'the map built from a generator and the rotation itself act differently (map %s, rotation %s, conjugation %s)' % (a_, b_, w_),
                         dict(G=Gop, P=Q))
    # ... also through a qubit mask: transform_by(rotation map of G, mask) = rotate_by(G, mask) = conjugation by the embedded G,
    # for every mask (contiguous, with one hole, with several holes)
    import itertools
    masks = [list(idx) for n in (2, 3, 4, 5) for k in range(1, n + 1) for idx in itertools.combinations(range(n), k)]
    for _ in range(ctx.budget(150, 2000)):
        idx = rng.choice(masks)
        n = rng.choice([m for m in (2, 3, 4, 5, 6) if m > idx[-1]])
        m = np.array([i in idx for i in range(n)])
        Gop = G.rand_herm(rng, len(idx), nonid=True)
        rm = pc.clifford_rotation_map(impl.pauli(Gop))
        Qs = [G.rand_op(rng, n, density=rng.choice([None, 1.0])) for _ in range(5)]
        try:
            viamap = impl.ops_of(impl.plist(Qs).transform_by(rm, m))
            viarot = impl.ops_of(impl.plist(Qs).rotate_by(impl.pauli(Gop), m))
        except Exception as e:
            ctx.fail('transform_by(mask)', 'implementation raised %r' % e, dict(G=Gop, idx=idx, Qs=Qs)); continue
        want = [H.rotate_masked(Gop, idx, Q) for Q in Qs]
        ctx.count('rotmap-mask-N=%d-k=%d' % (n, len(idx)))
        for Q, a_, b_, w_ in zip(Qs, viamap, viarot, want):
            ctx.case(('rotmap-vs-rotate-mask', Gop, tuple(idx), Q), w_ != Q, sample=dict(op='rotation map vs rotate_by through a mask', G=Gop, mask=idx, P=Q))
            if a_ != b_ or a_ != w_:
                ctx.fail('clifford_rotation_map', 'through the mask %s the map built from a generator and the rotation itself act differently (map %s, rotation %s, conjugation %s)' % (idx, a_, b_, w_),
                         dict(G=Gop, idx=idx, P=Q))
    # single operators (Pauli, PauliMonomial) through a mask, with Y letters outside the masked qubits; and maps applied through
    # gates whose qubits are listed in any order: the mask convention is order-blind (the k-th masked qubit in ascending order
    # is wire k of the map), so gate.forward must agree with the map embedded by identity_map(N).embed(map, mask(qubits))
    CI = impl.CI
    for _ in range(ctx.budget(150, 2000)):
        n = rng.choice([2, 3, 3, 4, 5])
        k = rng.randrange(1, n)
        idx = sorted(rng.sample(range(n), k))
        m = np.array([i in idx for i in range(n)])
        rows = G.rand_map_ops(rng, k)
        letters = [rng.choice('IXYZ') for _i in range(n)]
        for i in range(n):
            if i not in idx and rng.random() < 0.6:
                letters[i] = 'Y'
        P = (tuple(letters), rng.randrange(4))
        want = H.map_apply_masked(rows, idx, P)
        ctx.case(('single-masked', tuple(rows), tuple(idx), P), True, sample=dict(op='Pauli.transform_by(mask)', mask=idx, P=P))
        ctx.count('single-masked:outsideY=%d' % sum(1 for i in range(n) if i not in idx and letters[i] == 'Y'))
        try:
            got1 = impl.ops_of(impl.pauli(P).transform_by(impl.cmap(rows), m))
            mono = pc.PauliMonomial(impl.garr(P[0]), P[1]).set_c(0.5 - 2j)
            mono.transform_by(impl.cmap(rows), m)
            got2 = (O.from_gp(mono.g, mono.p), complex(mono.c))
            order = list(idx); rng.shuffle(order)
            gate = CI.CliffordGate(*order); gate.set_forward_map(impl.cmap(rows))
            got3 = impl.ops_of(gate.forward(impl.plist([P])))[0]
            got4 = impl.ops_of(gate.forward(impl.pauli(P)))
            gate2 = CI.CliffordGate(*order); gate2.set_forward_map(impl.cmap(rows))
            inv_rows = impl.ops_of(impl.cmap(rows).inverse())
            got5 = impl.ops_of(gate2.backward(impl.plist([P])))[0]
        except Exception as e:
            ctx.fail('transform_by(mask)', 'implementation raised %r' % e, dict(map=rows, idx=idx, P=P)); continue
        if got1 != want:
            ctx.fail('Pauli.transform_by(mask)', 'a single operator transformed through a mask is not the image under the embedded map (Y letters outside the mask: %d)'
                     % sum(1 for i in range(n) if i not in idx and letters[i] == 'Y'), dict(map=rows, idx=idx, P=P, got=got1, want=want))
        if got2 != (want, 0.5 - 2j):
            ctx.fail('PauliMonomial.transform_by(mask)', 'a monomial transformed through a mask: wrong image or coefficient touched', dict(map=rows, idx=idx, P=P, got=str(got2), want=str(want)))
        if got3 != want or got4 != want:
            ctx.fail('CliffordGate.forward', 'a map gate with qubits listed as %s does not act as its map embedded on the masked qubits in ascending order (the convention of mask / embed / compile)' % (order,),
                     dict(map=rows, qubits=order, P=P, got_list=got3, got_pauli=got4, want=want))
        if got5 != H.map_apply_masked(inv_rows, idx, P):
            ctx.fail('CliffordGate.backward', 'a map gate with qubits listed as %s run backward does not act as the inverse map embedded on the masked qubits' % (order,),
                     dict(map=rows, qubits=order, P=P, got=got5))
    # strings handed over in other dtypes (bool, small and unsigned integers, float): same images, masked and unmasked
    for _ in range(ctx.budget(100, 1200)):
        n = rng.choice([1, 2, 3, 4])
        rows = G.rand_map_ops(rng, n)
        Qs = [G.rand_op(rng, n, density=rng.choice([None, 1.0])) for _k in range(3)] + [(tuple('Y' * n), rng.randrange(4))]
        dt = rng.choice([np.bool_, np.int8, np.uint8, np.int32, np.float64])
        ctx.case(('dtype-transform', tuple(rows), tuple(Qs), dt.__name__), True, sample=dict(op='transform_by dtypes', dtype=dt.__name__))
        ctx.count('dtype:' + dt.__name__)
        try:
            lst = pc.PauliList(np.array([O.to_g(q[0]) for q in Qs]).astype(dt), np.array([q[1] for q in Qs]))
            lst.transform_by(impl.cmap(rows))
            got = [O.from_gp([int(v) for v in g_], int(p_)) for g_, p_ in zip(np.asarray(lst.gs), np.asarray(lst.ps))]
        except Exception as e:
            ctx.fail('PauliList.transform_by', 'implementation raised %r for strings of dtype %s' % (e, dt.__name__), dict(map=rows, Qs=Qs)); continue
        want = [H.map_apply(rows, q) for q in Qs]
        if got != want:
            ctx.fail('PauliList.transform_by', 'operators whose strings are stored as %s are not sent to their images (Y letters in the string: the x.z correction)' % dt.__name__,
                     dict(map=rows, Qs=Qs, got=got, want=want))
    # a gate placed on a qubit the register does not have is rejected, not wrapped around
    # (a gate with as many qubits as the operator is applied to the whole operator whatever its labels say: pinned behaviour)
    for _ in range(ctx.budget(20, 200)):
        n = rng.choice([2, 3, 4])
        q = rng.choice([n, n + 1, n + 3, -n - 1, -n - 2])
        rows1 = G.rand_map_ops(rng, 1)
        g = CI.CliffordGate(q); g.set_forward_map(impl.cmap(rows1))
        P = G.rand_op(rng, n)
        ctx.case(('out-of-range', n, q), True)
        try:
            res = impl.ops_of(g.forward(impl.plist([P])))
            ctx.fail('CliffordGate.forward', 'a gate on qubit %d of a %d-qubit operator is applied (to %s) instead of being rejected' % (q, n, res), dict(N=n, qubit=q, P=P))
        except (AssertionError, IndexError, ValueError):
            pass
        except Exception as e:
            ctx.fail('CliffordGate.forward', 'a gate on qubit %d of a %d-qubit operator raised %r (expected AssertionError / IndexError / ValueError)' % (q, n, e), dict(N=n, qubit=q))
