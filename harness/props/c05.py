"""C05 every reachable stabilizer state satisfies the tableau invariant."""
import itertools
import time
import numpy as np
import oracle as O
import gen as G
import enc as E
import hutil as H
import rng as R
import circ_util as CU

RULE = ('histories: random walks of public state-changing operations (rotations with and without mask, map transformations, named '
        'gates, whole circuits (plain, layer-compiled, compiled, copied; forward and backward), measurements of commuting lists on either coin, post-selections, copies, measurement layers) from every constructor, '
        'N<=6, all ranks; exhaustive closure of the reachable tableau space for N=1 (quick) and N<=2 (thorough) under rotations and '
        'tape-controlled measurements. The invariant is evaluated on the implementation after every call. non-trivial = history '
        'containing a measurement; distinct = distinct (start, history).')
ASSUMPTIONS = ['a tableau with the invariant denotes a positive trace-one operator of rank 2^r (textbook)']


def start_state(ctx, impl, rng, n):
    pc = impl.pc
    kind = rng.choice(['zero', 'one', 'ghz', 'mixed', 'bit', 'rpauli', 'rclifford', 'stab', 'tostate', 'harness'])
    R.seed_numba(rng.randrange(1 << 30))
    if kind == 'zero':
        return kind, pc.zero_state(n)
    if kind == 'one':
        return kind, pc.one_state(n)
    if kind == 'ghz' and n >= 2:
        return kind, pc.ghz_state(n)
    if kind == 'mixed':
        return kind, pc.maximally_mixed_state(n)
    if kind == 'bit':
        return kind, pc.random_bit_state(n)
    if kind == 'rpauli':
        return kind, pc.random_pauli_state(n, rng.randrange(n + 1))
    if kind == 'rclifford':
        return kind, pc.random_clifford_state(n, rng.randrange(n + 1))
    if kind == 'stab':
        rows, _ = G.rand_tableau(rng, n, 0)
        L = rng.randrange(1, n + 1)
        return kind, pc.stabilizer_state(impl.plist(rows[:L], n))
    if kind == 'tostate':
        return kind, impl.cmap(G.rand_map_ops(rng, n)).to_state(rng.randrange(n + 1))
    rows, r = G.rand_tableau(rng, n)
    return 'harness', impl.state(rows, r)


def check_inv(ctx, impl, st, n, hist, site):
    rows = impl.ops_of(st)
    bad = O.tableau_invariant(rows, n, int(st.r)) if len(rows) == 2 * n else 'row count %d' % len(rows)
    if bad:
        ctx.fail(site, 'tableau invariant broken: ' + bad, dict(N=n, history=hist, rows=rows, r=int(st.r)))
        return False
    rawp = [int(v) for v in np.asarray(st.ps)]
    if any(v < 0 or v > 3 for v in rawp):
        # C05_reachable_phase_range: no operation of the model leaves {0,1,2,3}; printing, tokenizing and the overlap kernels read
        # the indicator unreduced
        ctx.fail(site, 'a phase indicator of the tableau left {0,1,2,3}: %s' % rawp, dict(N=n, history=hist, rows=rows, r=int(st.r), raw_ps=rawp))
        return False
    return True


POOL = []   # raw tableaux reached by earlier walks (after at least one measurement)


def walk(ctx, impl, rng):
    pc, CI = impl.pc, impl.CI
    n = rng.choice([1, 2, 2, 3, 3, 4, 5, 6])
    kind, st = start_state(ctx, impl, rng, n)
    hist = [('start', kind)]
    ctx.count('start=' + kind); ctx.count('N=%d' % n)
    if not check_inv(ctx, impl, st, n, hist, kind + '_state'):
        return
    has_meas = False
    for step in range(rng.choice([3, 6, 10, 16])):
        rows, r = impl.ops_of(st), int(st.r)
        op = rng.choice(['rotate', 'rotate-mask', 'transform', 'transform-mask', 'gate', 'measure', 'measure', 'postselect', 'copy', 'mlayer', 'statemap', 'statemap', 'circuit', 'circuit'])
        ctx.count('op=' + op)
        try:
            if op == 'rotate':
                Gop = G.rand_herm(rng, n)
                hist.append((op, Gop))
                st.rotate_by(impl.pauli(Gop))
                ctx.q('rotate', 'rotate %s %s' % (E.epauli(O.to_g(Gop[0]), Gop[1]), H.erows_ops(rows)), impl.ops_of(st), H.drows_ops)
            elif op == 'rotate-mask':
                m, idx = G.rand_mask(rng, n)
                Gop = G.rand_herm(rng, len(idx))
                hist.append((op, Gop, idx))
                st.rotate_by(impl.pauli(Gop), np.array(m))
            elif op == 'transform':
                M = G.rand_map_ops(rng, n)
                hist.append((op, M))
                st.transform_by(impl.cmap(M))
                ctx.q('transform', 'transform %s %s' % (H.erows_ops(M), H.erows_ops(rows)), impl.ops_of(st), H.drows_ops)
            elif op == 'transform-mask':
                m, idx = G.rand_mask(rng, n)
                M = G.rand_map_ops(rng, len(idx))
                hist.append((op, M, idx))
                st.transform_by(impl.cmap(M), np.array(m))
            elif op == 'statemap':
                # the encoding map of another reachable state (its whole tableau, standby rows and destabilizers included) used as a Clifford map
                src = [x for x in POOL if x[0] == n]
                if not src:
                    continue
                _n, srows, sr = rng.choice(src)
                hist.append((op, srows, sr))
                M = impl.state(srows, sr).to_map()
                if rng.random() < 0.5:
                    st.transform_by(M)
                else:
                    st.transform_by(M.inverse())
            elif op == 'gate':
                d = CU.rand_gate(rng, n, kinds=('named', 'cnot', 'gen'))
                hist.append((op, d))
                CU.impl_gate(impl, d).forward(st)
            elif op == 'circuit':
                # a whole circuit of deterministic gates, in one of its configurations (layers packed by take; compiled or not), either direction
                prog = CU.rand_program(rng, n, rng.randrange(2, 9), kinds=('named', 'cnot', 'gen', 'fmap'))
                conf = rng.choice(['plain', 'layers', 'compiled', 'copy-compiled'])
                cls = rng.choice(['CliffordCircuit', 'Circuit'])
                back = rng.random() < 0.3
                hist.append((op, prog, conf, cls, back))
                c = getattr(CI, cls)(n)
                for d in prog:
                    c.take(CU.impl_gate(impl, d))
                if conf == 'copy-compiled' and hasattr(c, 'copy'):      # Circuit has no copy()
                    c = c.copy()
                if conf == 'layers':
                    for layer in c.layers_forward():
                        layer.compile(n)
                elif conf.endswith('compiled'):
                    c.compile()
                ctx.count('circuit:' + conf)
                if back:
                    c.backward(st)
                else:
                    c.forward(st)
            elif op == 'measure':
                obs, kinds = G.commuting_list(rng, rows, n, r, rng.randrange(1, 4))
                sd = rng.randrange(1 << 30)
                hist.append((op, obs, sd))
                R.seed_numba(sd)
                out, lp = st.measure(impl.plist(obs, n))
                has_meas = True
                if int(st.r) > r:
                    ctx.fail('StabilizerState.measure', 'rank grew under measurement', dict(N=n, history=hist))
            elif op == 'postselect':
                if r != 0:
                    continue
                obs, _k = G.rand_observable(rng, rows, n, 0)
                res = rng.randrange(2)
                hist.append((op, obs, res))
                st.postselect(impl.pauli(obs), res)
            elif op == 'copy':
                hist.append((op,))
                st = st.copy()
            elif op == 'mlayer':
                qs = rng.sample(range(n), rng.randrange(1, n + 1))
                sd = rng.randrange(1 << 30)
                hist.append((op, qs, sd))
                R.seed_numba(sd)
                c = CI.Circuit(n)
                c.measure(*qs)
                c.forward(st)
                has_meas = True
        except Exception as e:
            ctx.fail('StabilizerState.' + op, 'implementation raised %r' % e, dict(N=n, history=hist, rows=rows, r=r))
            return
        if not check_inv(ctx, impl, st, n, hist, 'StabilizerState.' + op.split('-')[0]):
            return
        if has_meas and len(POOL) < 400 and rng.random() < 0.5:
            POOL.append((n, impl.ops_of(st), int(st.r)))
    ctx.traces += 1
    ctx.case(str(hist), has_meas, sample=dict(op='walk', N=n, start=kind, steps=[h[0] for h in hist[1:]], final_r=int(st.r)))


def closure(ctx, impl, n, budget_s):
    """breadth-first closure of the tableau space of n qubits under all Hermitian rotations and all tape-controlled measurements"""
    t0 = time.time()
    U = impl.U
    herm = [(l, p) for l in itertools.product('IXYZ', repeat=n) for p in (0, 2)]
    seen = set()
    start = []
    for r in range(n + 1):
        st = impl.pc.identity_map(n).to_state(r)
        start.append((tuple(impl.ops_of(st)), r))
    frontier = list(start)
    seen.update(start)
    nstates = ntrans = 0
    complete = True
    meas = U.stabilizer_measure.py_func
    R.warm_up()
    while frontier:
        if time.time() - t0 > budget_s:
            complete = False
            break
        rows, r = frontier.pop()
        nstates += 1
        gs, ps = G.rows_gp(list(rows))
        for Gop in herm:
            if all(c == 'I' for c in Gop[0]):
                continue
            a = np.array(gs, dtype=np.int_); b = np.array(ps, dtype=np.int_)
            U.clifford_rotate(impl.garr(Gop[0]), Gop[1], a, b)
            nxt = (tuple(O.from_gp(g, p) for g, p in zip(a, b)), r)
            ntrans += 1
            if nxt not in seen:
                bad = O.tableau_invariant(list(nxt[0]), n, r)
                if bad:
                    ctx.fail('clifford_rotate', 'closure: invariant broken: ' + bad, dict(rows=rows, r=r, G=Gop)); return
                seen.add(nxt); frontier.append(nxt)
        for ob in herm:
            for coin in (0, 1):
                a = np.array(gs, dtype=np.int_); b = np.array(ps, dtype=np.int_)
                with R.patched(R.Tape([coin])):
                    try:
                        a, b, r2, out, lp = meas(a, b, np.array([O.to_g(ob[0])], dtype=np.int_), np.array([ob[1]], dtype=np.int_), r)
                    except Exception as e:
                        ctx.fail('stabilizer_measure', 'closure: raised %r' % e, dict(rows=rows, r=r, obs=ob)); return
                nxt = (tuple(O.from_gp(g, p) for g, p in zip(a, b)), int(r2))
                ntrans += 1
                # exhaustive strict correspondence of the measurement kernel on this transition (raw tableau, rank, outcome)
                cb = (int(out[0]) + ob[1] // 2) % 2
                ctx.q('closure-measure', 'measurek %d %s %s %d' % (r, H.erows_ops(list(rows)), H.erows_ops([ob]), cb),
                      (int(r2), list(nxt[0]), [int(out[0])]),
                      lambda s_: (int(s_.split(' ')[1]), H.drows_ops(s_.split(' ')[2]), E.dints(s_.split(' ')[3])) if s_.startswith('ok ') else s_)
                if nxt not in seen:
                    bad = O.tableau_invariant(list(nxt[0]), n, int(r2))
                    if bad:
                        ctx.fail('stabilizer_measure', 'closure: invariant broken: ' + bad, dict(rows=rows, r=r, obs=ob, coin=coin)); return
                    seen.add(nxt); frontier.append(nxt)
    ctx.closure = dict(N=n, states=len(seen), expanded=nstates, transitions=ntrans, exhaustive=complete)
    ctx.notes.append('closure N=%d: %d tableaux reached, %d expanded, %d transitions, complete=%s' % (n, len(seen), nstates, ntrans, complete))
    for _ in range(min(len(seen), 2000)):
        ctx.evals += 1
    ctx.nontrivial.update(hash(s) for s in list(seen)[:5000])


def run(ctx):
    import impl
    rng = ctx.rng
    R.warm_up()
    for _ in range(ctx.budget(220, 2500)):
        walk(ctx, impl, rng)
    closure(ctx, impl, 1, 60)
    if ctx.tier == 'thorough':
        closure(ctx, impl, 2, 1500)


def extra_cov(ctx):
    c = getattr(ctx, 'closure', None)
    return dict(closure=c, exhaustive=bool(c and c.get('exhaustive')), states=(c or {}).get('states', 0), transitions=(c or {}).get('transitions', 0)) if c else None
