"""C04 Clifford maps form a group: z2inv, compose, inverse, identity_map; group laws on the implementation."""
import itertools
import numpy as np
import oracle as O
import gen as G
import enc as E
import hutil as H

RULE = ('pairs/triples of valid maps: all 24x24 one-qubit pairs; random N<=8 with random signs; z2inv on random invertible '
        'and singular binary matrices (n<=12). non-trivial = neither map is the identity; distinct = distinct map tuples.')
ASSUMPTIONS = []


def run(ctx):
    import impl
    U, pc = impl.U, impl.pc
    rng = ctx.rng

    def norm(rows):
        return [(r[0], r[1] % 4) for r in rows]

    def pair(A, B):
        n = len(A) // 2
        a, b = impl.cmap(A), impl.cmap(B)
        sa, sb = H.snapshot(a), H.snapshot(b)
        try:
            c = a.compose(b)
        except Exception as e:
            ctx.fail('CliffordMap.compose', 'implementation raised %r' % e, dict(A=A, B=B))
            return None
        if H.snapshot(a) != sa or H.snapshot(b) != sb:
            ctx.fail('CliffordMap.compose', 'operand modified', dict(A=A, B=B))
        if np.shares_memory(c.gs, a.gs) or np.shares_memory(c.gs, b.gs) or np.shares_memory(c.ps, a.ps) or np.shares_memory(c.ps, b.ps):
            ctx.fail('CliffordMap.compose', 'result aliases an operand', dict(A=A, B=B))
        C = impl.ops_of(c)
        ctx.q('compose', 'compose %s %s' % (H.erows_ops(A), H.erows_ops(B)), C, H.drows_ops)
        # acts as A then B on every generator and random operators
        want = [H.map_apply(B, H.map_apply(A, g)) for g in G.id_map_ops(n)]
        if C != want:
            ctx.fail('CliffordMap.compose', 'composition does not act as first map then second', dict(A=A, B=B, got=C, want=want))
        ctx.case((tuple(A), tuple(B)), norm(A) != G.id_map_ops(n) and norm(B) != G.id_map_ops(n),
                 sample=dict(op='compose', A=A, B=B, result=C))
        return C

    def inv(A):
        n = len(A) // 2
        a = impl.cmap(A)
        sa = H.snapshot(a)
        try:
            ai = a.inverse()
        except Exception as e:
            ctx.fail('CliffordMap.inverse', 'implementation raised %r on a valid map' % e, dict(A=A))
            ctx.q('inverse', 'inverse %s' % H.erows_ops(A), impl.errname(e))
            return None
        if H.snapshot(a) != sa:
            ctx.fail('CliffordMap.inverse', 'operand modified', dict(A=A))
        AI = impl.ops_of(ai)
        ctx.q('inverse', 'inverse %s' % H.erows_ops(A), AI, lambda s: H.drows_ops(s.split(' ')[1]) if s.startswith('ok ') else s)
        idm = G.id_map_ops(n)
        left = impl.ops_of(a.compose(ai))
        right = impl.ops_of(ai.compose(a))
        if left != idm or right != idm:
            ctx.fail('CliffordMap.inverse', 'inverse does not compose to the identity on both sides', dict(A=A, inv=AI, left=left, right=right))
        if H.valid_map(AI) is not None:
            ctx.fail('CliffordMap.inverse', 'inverse is not a valid map: ' + H.valid_map(AI), dict(A=A, inv=AI))
        return AI

    ones = G.all_one_qubit_maps()
    for A in ones:
        inv(A)
        for B in ones:
            pair(A, B)
    ctx.count('all-24x24')
    for _ in range(ctx.budget(150, 2000)):
        n = rng.choice([1, 2, 2, 3, 4, 5, 6, 8])
        A, B, C = (G.rand_map_ops(rng, n) for _ in range(3))
        ctx.count('N=%d' % n)
        AB = pair(A, B)
        AI = inv(A)
        if AB is None or AI is None:
            continue
        BC = pair(B, C)
        if BC is not None:
            l = impl.ops_of(impl.cmap(AB).compose(impl.cmap(C)))
            r = impl.ops_of(impl.cmap(A).compose(impl.cmap(BC)))
            if l != r:
                ctx.fail('CliffordMap.compose', 'not associative', dict(A=A, B=B, C=C))
        idn = pc.identity_map(n)
        ctx.q('idmap', 'idmap %d' % n, impl.ops_of(idn), H.drows_ops)
        if impl.ops_of(idn.compose(impl.cmap(A))) != norm(A) or impl.ops_of(impl.cmap(A).compose(idn)) != norm(A):
            ctx.fail('identity_map', 'identity is not neutral', dict(A=A))
        # inverse of a composition = reversed composition of inverses
        BI = inv(B)
        ABI = inv(AB)
        if BI is not None and ABI is not None:
            rev = impl.ops_of(impl.cmap(BI).compose(impl.cmap(AI)))
            if rev != ABI:
                ctx.fail('CliffordMap.inverse', 'inverse of a composition is not the reversed composition of inverses', dict(A=A, B=B))
    # histories on one map object: inverse, change the map in place (rotation / transformation / embed), inverse again
    for _ in range(ctx.budget(100, 1000)):
        n = rng.choice([1, 2, 3, 4])
        A = G.rand_map_ops(rng, n)
        m = impl.cmap(A)
        cur = [(x[0], x[1] % 4) for x in A]
        hist = []
        for step in range(rng.randrange(2, 6)):
            c = rng.random()
            try:
                if c < 0.45:
                    hist.append('inverse')
                    inv_ = impl.ops_of(m.inverse())
                    l = impl.ops_of(impl.cmap(cur).compose(impl.cmap(inv_)))
                    if l != G.id_map_ops(n):
                        ctx.fail('CliffordMap.inverse', 'after the history %s the inverse no longer composes with the (current) map to the identity' % hist,
                                 dict(start=A, history=hist, current=cur, inverse=inv_)); break
                elif c < 0.7:
                    Gop = G.rand_herm(rng, n, nonid=True)
                    hist.append(('rotate_by', Gop))
                    m.rotate_by(impl.pauli(Gop)); cur = [G.rotate_op(Gop, x) for x in cur]
                elif c < 0.9:
                    M2 = G.rand_map_ops(rng, n)
                    hist.append(('transform_by', M2))
                    m.transform_by(impl.cmap(M2)); cur = [H.map_apply(M2, x) for x in cur]
                else:
                    hist.append('compose')
                    B = G.rand_map_ops(rng, n)
                    got = impl.ops_of(m.compose(impl.cmap(B)))
                    if got != [H.map_apply(B, x) for x in cur]:
                        ctx.fail('CliffordMap.compose', 'after the history %s compose does not act as first map then second' % hist, dict(start=A, history=hist)); break
                if impl.ops_of(m) != cur:
                    ctx.fail('CliffordMap', 'map object differs from its tracked value after %s' % hist, dict(start=A, history=hist)); break
            except Exception as e:
                ctx.fail('CliffordMap', 'implementation raised %r in the history %s' % (e, hist), dict(start=A)); break
        ctx.case(('history', tuple(A), str(hist)), True, sample=dict(op='history', N=n, steps=[h if isinstance(h, str) else h[0] for h in hist]))
    # z2inv kernel
    for _ in range(ctx.budget(200, 3000)):
        n = rng.choice([1, 2, 3, 4, 6, 8, 12]) if rng.random() < 0.9 else rng.choice([31, 32, 33, 34, 40, 63, 64, 65, 66, 70])   # machine-word boundaries too
        mat = np.array([[rng.randrange(2) for _ in range(n)] for _ in range(n)], dtype=np.int_)
        if rng.random() < 0.5:  # force invertible: product of elementary operations on identity
            mat = np.eye(n, dtype=np.int_)
            for _k in range(3 * n):
                i, j = rng.randrange(n), rng.randrange(n)
                if i != j:
                    mat[i] = (mat[i] + mat[j]) % 2
            perm = list(range(n))
            rng.shuffle(perm)
            mat = mat[perm]
        sing = O.gf2_rank(mat.tolist()) < n
        ctx.case(('z2inv', mat.tobytes(), n), not sing, sample=dict(op='z2inv', mat=mat.tolist(), singular=sing))
        ctx.count('z2inv-singular' if sing else 'z2inv-invertible')
        try:
            res = U.z2inv(mat.copy())
            got = [[int(v) for v in row] for row in res]
        except ValueError:
            got = 'err ValueError'
        except Exception as e:
            got = impl.errname(e)
        ctx.q('z2inv', 'z2inv %s' % E.emat(mat.tolist()), got, lambda s: E.dmat(s.split(' ')[1]) if s.startswith('ok ') else s)
        if sing and got != 'err ValueError':
            ctx.fail('z2inv', 'singular matrix not rejected with ValueError', dict(mat=mat.tolist(), got=got))
        if not sing:
            if isinstance(got, str):
                ctx.fail('z2inv', 'invertible matrix rejected', dict(mat=mat.tolist(), got=got))
            elif (O.gf2_matmul(got, mat) != np.eye(n, dtype=int)).any() or (O.gf2_matmul(mat, got) != np.eye(n, dtype=int)).any():
                ctx.fail('z2inv', 'result is not the GF(2) inverse', dict(mat=mat.tolist(), got=got))
    # every operand form (Pauli with each phase, monomial with a coefficient, list, polynomial) under a composed map equals the two
    # maps applied in sequence, and the inverse undoes it; coefficients are never touched
    for _ in range(ctx.budget(60, 600)):
        n = rng.choice([1, 2, 2, 3])
        A, B = G.rand_map_ops(rng, n), G.rand_map_ops(rng, n)
        P = G.rand_op(rng, n)
        c0 = complex(rng.choice([0.5, -2, 1, 3]), rng.choice([0, 1, -0.5]))
        want = H.map_apply(B, H.map_apply(A, P))
        ctx.case(('operand-forms', tuple(A), tuple(B), P), True, sample=dict(op='compose on operand forms', P=P))
        try:
            mAB = impl.cmap(A).compose(impl.cmap(B))
            got_p = impl.ops_of(impl.pauli(P).transform_by(mAB))
            mono = pc.PauliMonomial(impl.garr(P[0]), P[1]).set_c(c0)
            mono.transform_by(mAB)
            got_m = (O.from_gp(mono.g, mono.p), complex(mono.c))
            mono2 = pc.PauliMonomial(impl.garr(P[0]), P[1]).set_c(c0)
            mono2.transform_by(impl.cmap(A)); mono2.transform_by(impl.cmap(B)); mono2.transform_by(mAB.inverse())
            got_m2 = (O.from_gp(mono2.g, mono2.p), complex(mono2.c))
            pol = impl.poly([(P, c0)]).transform_by(mAB)
            got_q = [(O.from_gp(g_, int(p_)), complex(c_)) for g_, p_, c_ in zip(pol.gs, pol.ps, pol.cs)]
        except Exception as e:
            ctx.fail('transform_by', 'implementation raised %r' % e, dict(A=A, B=B, P=P)); continue
        if got_p != want:
            ctx.fail('Pauli.transform_by', 'the composed map does not act as the two maps in sequence on a single operator', dict(A=A, B=B, P=P, got=got_p, want=want))
        if got_m != (want, c0):
            ctx.fail('PauliMonomial.transform_by', 'a monomial under the composed map: wrong image or coefficient touched (%s)' % (got_m,), dict(A=A, B=B, P=P, c=str(c0), want=want))
        if got_m2 != ((P[0], P[1] % 4), c0):
            ctx.fail('PauliMonomial.transform_by', 'A, B, then the inverse of the composition does not restore the monomial (%s)' % (got_m2,), dict(A=A, B=B, P=P, c=str(c0)))
        if got_q != [(want, c0)]:
            ctx.fail('PauliPolynomial.transform_by', 'a polynomial term under the composed map: wrong image or coefficient touched', dict(A=A, B=B, P=P, c=str(c0), got=str(got_q)))
    # inverse of valid maps on wide registers (2N and 4N beyond 64)
    for _ in range(ctx.budget(6, 40)):
        n = rng.choice([16, 17, 20, 33])
        small = G.rand_map_ops(rng, 3)
        pos = sorted(rng.sample(range(n), 3))
        big = H.embed_ops(small, pos, n) if hasattr(H, 'embed_ops') else None
        if big is None:
            break
        big = [(l, (k + 2 * rng.randrange(2)) % 4) for l, k in big]
        try:
            inv = impl.ops_of(impl.cmap(big).inverse())
        except Exception as e:
            ctx.fail('CliffordMap.inverse', 'implementation raised %r on a valid map of %d qubits' % (e, n), dict(N=n, small=small, pos=pos)); continue
        ctx.q('inverse', 'inverse %s' % H.erows_ops(big), inv, lambda s_: H.drows_ops(s_.split(' ')[1]) if s_.startswith('ok ') else s_)
        ctx.case(('wide-inverse', n, tuple(small), tuple(pos)), True, sample=dict(op='inverse', N=n, support=pos))
        ctx.count('wide-inverse')
        probes = G.id_map_ops(n)
        if [H.map_apply(inv, H.map_apply(big, P)) for P in probes] != probes or [H.map_apply(big, H.map_apply(inv, P)) for P in probes] != probes:
            ctx.fail('CliffordMap.inverse', 'inverse of a valid map on %d qubits is not a two-sided inverse' % n, dict(N=n, small=small, pos=pos))
    # maps whose table is stored in another dtype (unsigned and small integers, bool, float): same inverse and composition
    import impl as _impl
    pc_ = _impl.pc
    for _ in range(ctx.budget(60, 700)):
        n = rng.choice([1, 2, 2, 3, 4])
        A, B = G.rand_map_ops(rng, n), G.rand_map_ops(rng, n)
        dt = rng.choice([np.uint8, np.uint16, np.uint32, np.uint64, np.int8, np.int32, np.bool_, np.float64])
        ctx.case(('dtype-map', tuple(A), tuple(B), dt.__name__), True, sample=dict(op='inverse/compose dtypes', dtype=dt.__name__))
        ctx.count('dtype:' + dt.__name__)
        mk = lambda rows: pc_.CliffordMap(np.array([O.to_g(o[0]) for o in rows]).astype(dt), np.array([o[1] for o in rows]))
        want_inv = _impl.ops_of(_impl.cmap(A).inverse())
        want_cmp = _impl.ops_of(_impl.cmap(A).compose(_impl.cmap(B)))
        for nm, f, want in (('inverse', lambda: mk(A).inverse(), want_inv), ('compose', lambda: mk(A).compose(mk(B)), want_cmp)):
            try:
                res = f()
                raw = np.asarray(res.gs).astype(float)
                got = [O.from_gp([int(v) for v in g_], int(p_)) for g_, p_ in zip(np.asarray(res.gs), np.asarray(res.ps))] if np.isin(raw, (0.0, 1.0)).all() else ('non-binary table', raw.astype(int).tolist())
            except Exception as e:
                ctx.fail('CliffordMap.' + nm, 'implementation raised %r for a table stored as %s' % (e, dt.__name__), dict(A=A, B=B)); continue
            if got != want:
                ctx.fail('CliffordMap.' + nm, '%s of a map whose table is stored as %s differs from the same map stored as int64: %s' % (nm, dt.__name__, str(got)[:160]), dict(A=A, B=B, want=want))
