"""C15 Pauli polynomial arithmetic is a faithful operator algebra."""
import itertools
from fractions import Fraction
import numpy as np
import oracle as O
import gen as G
import enc as E
import hutil as H

RULE = ('expression trees of depth <=4 over operands of every kind (Pauli, PauliMonomial, PauliPolynomial, PauliList, plain number) '
        'with dyadic complex coefficients, repeated strings and all four phases, N<=3; operations + - scalar* / @ unary- reduce trace; '
        'every result is compared as a dense matrix with the same expression on dense operands, and with the Lean model (kind and '
        'coefficient map); near-tolerance coefficients on both sides of tol; to_qutip exports; rotations and maps act linearly. '
        'non-trivial = the result has at least two terms; distinct = distinct expression trees.')
ASSUMPTIONS = ['floating-point arithmetic on the dyadic coefficients used is exact', 'Pauli strings are linearly independent matrices']

COEF = [1, -1, 2, 0.5, -0.25, 1j, -1j, 0.5 + 0.5j, 2 - 1j, 3]
DIVS = [1, -1, 2, -4, 0.5, 1j, -2j]


class Node:
    def __init__(self, kind, val, dense, line=None):
        self.kind, self.val, self.dense, self.line = kind, val, dense, line


def coefmap(obj, impl):
    pc = impl.pc
    out = {}
    if isinstance(obj, pc.PauliMonomial):
        items = [(O.from_gp(obj.g, obj.p), complex(obj.c))]
    elif isinstance(obj, pc.Pauli):
        items = [(O.from_gp(obj.g, obj.p), 1.0)]
    elif isinstance(obj, pc.PauliPolynomial):
        items = [(O.from_gp(g, p), complex(c)) for g, p, c in zip(obj.gs, obj.ps, obj.cs)]
    elif isinstance(obj, pc.PauliList):
        return ('plist', impl.ops_of(obj))
    else:
        return ('num', complex(obj))
    for (l, k), c in items:
        out[l] = out.get(l, 0) + c * (1j ** k)
    return {k: v for k, v in out.items() if v != 0}


def kind_of(obj, impl):
    pc = impl.pc
    if isinstance(obj, pc.PauliMonomial):
        return 'mono'
    if isinstance(obj, pc.Pauli):
        return 'pauli'
    if isinstance(obj, pc.PauliPolynomial):
        return 'poly'
    if isinstance(obj, pc.PauliList):
        return 'plist'
    return 'num'


def model_coefmap(ans):
    """decode `ok <kind> <data>` from the driver into (kind, coefficient map)"""
    if not ans.startswith('ok '):
        return ans
    parts = ans.split(' ')
    kind = parts[1]
    if kind == 'pauli':
        g, p = E.dpauli(parts[2])
        l, k = O.from_gp(g, p)
        return kind, {l: 1j ** k}
    if kind == 'mono':
        g, p = E.dpauli(parts[2])
        l, k = O.from_gp(g, p)
        c = E.dcx(parts[3])
        return kind, ({l: c * 1j ** k} if c != 0 else {})
    if kind == 'poly':
        out = {}
        for g, p, c in E.dpoly(parts[2]):
            l, k = O.from_gp(g, p)
            out[l] = out.get(l, 0) + complex(float(c[0]), float(c[1])) * (1j ** k)
        return kind, {k: v for k, v in out.items() if v != 0}
    if kind == 'zero':        # the polynomial without terms: its number of qubits is part of the value
        return 'poly', {}, int(parts[2])
    if kind == 'plist':
        return kind, ('plist', H.drows_ops(parts[2]))
    return kind, ('num', E.dcx(parts[2]))


def run(ctx):
    import impl
    pc = impl.pc
    rng = ctx.rng
    reg = [0]

    def fresh():
        reg[0] += 1
        return 'r%d' % reg[0]

    def leaf(n):
        k = rng.choice(['pauli', 'pauli', 'mono', 'poly', 'poly', 'num', 'plist', 'zero'])
        name = fresh()
        if k == 'pauli':
            o = G.rand_op(rng, n)
            ctx.drv.ask('P set %s pauli %s' % (name, E.epauli(O.to_g(o[0]), o[1])))
            return Node(k, impl.pauli(o), O.dense(o), name)
        if k == 'mono':
            o = G.rand_op(rng, n); c = complex(rng.choice(COEF))
            ctx.drv.ask('P set %s mono %s %s' % (name, E.epauli(O.to_g(o[0]), o[1]), E.ecx(c)))
            return Node(k, pc.PauliMonomial(impl.garr(o[0]), o[1]).set_c(c), c * O.dense(o), name)
        if k == 'poly':
            base = [G.rand_op(rng, n) for _ in range(rng.randrange(1, 4))]
            terms = [(rng.choice(base)[0], rng.randrange(4)) for _ in range(rng.randrange(1, 5))]
            terms = [(t, complex(rng.choice(COEF))) for t in terms]
            ctx.drv.ask('P set %s poly %s' % (name, E.epoly([O.to_g(t[0][0]) for t in terms], [t[0][1] for t in terms], [t[1] for t in terms])))
            return Node(k, impl.poly(terms), sum(c * O.dense(o) for o, c in terms), name)
        if k == 'zero':
            # a polynomial without terms, as the library itself produces it (complete cancellation): a - a
            o = G.rand_op(rng, n)
            ctx.drv.ask('P set %s zero %d' % (name, n))
            base_ = impl.poly([(o, 1.0 + 0j)])
            return Node('poly', base_ - base_, np.zeros((2 ** n, 2 ** n), dtype=complex), name)
        if k == 'plist':
            ops = [G.rand_op(rng, n) for _ in range(rng.randrange(1, 3))]
            ctx.drv.ask('P set %s plist %s' % (name, H.erows_ops(ops)))
            return Node(k, impl.plist(ops, n), None, name)
        c = complex(rng.choice(COEF))
        ctx.drv.ask('P set %s num %s' % (name, E.ecx(c)))
        return Node('num', c, c * np.eye(2 ** n), name)

    def apply(op, a, b, n):
        """returns Node or ('err', name); mirrors the operation on impl, dense oracle and model"""
        name = fresh()
        try:
            if op == 'add':
                v = a.val + b.val
            elif op == 'sub':
                v = a.val - b.val
            elif op == 'matmul':
                v = a.val @ b.val
            elif op == 'neg':
                v = -a.val
            elif op == 'rmul':
                v = b * a.val
            elif op == 'div':
                v = a.val / b
            elif op == 'reduce':
                v = a.val.reduce()
            err = None
        except Exception as e:
            v, err = None, impl.errname(e)
        if op in ('add', 'sub', 'matmul'):
            ans = ctx.drv.ask('P %s %s %s %s' % (op, name, a.line, b.line))
        elif op == 'neg':
            ans = ctx.drv.ask('P neg %s %s' % (name, a.line))
        elif op == 'rmul':
            ans = ctx.drv.ask('P rmul %s %s %s' % (name, E.ecx(b), a.line))
        elif op == 'div':
            ans = ctx.drv.ask('P div %s %s %s' % (name, a.line, E.ecx(b)))
        else:
            ans = ctx.drv.ask('P reduce %s %s 1 10000000000' % (name, a.line))
        ctx.count('corr:' + op)
        desc = '%s(%s,%s)' % (op, a.kind, b.kind if isinstance(b, Node) else 'scalar')
        ctx.count('op:' + desc)
        if err is not None:
            if ans != err:
                ctx.mismatch(op, desc, ans[:300], err)
            return None
        mk = model_coefmap(ans)
        ik = (kind_of(v, impl), coefmap(v, impl))
        if ik == ('poly', {}) and hasattr(v, 'gs') and len(v.gs) == 0:     # no terms at all (not: terms with coefficient zero)
            ik = ('poly', {}, int(v.N))
        if mk != ik:
            ctx.mismatch(op, desc, str(mk)[:600], str(ik)[:600])
        if len(ik) == 3 and ik[2] != n:
            ctx.fail(type(a.val).__name__ + '.' + op, 'the result of %s has no terms and is a polynomial on %d qubits instead of %d' % (desc, ik[2], n),
                     dict(op=desc, a=str(coefmap(a.val, impl))[:400], b=str(coefmap(b.val, impl) if isinstance(b, Node) else b)[:400]))
        if not ans.startswith('ok'):
            return None
        # dense oracle
        dense = None
        if a.dense is not None and (not isinstance(b, Node) or b.dense is not None) and ik[0] not in ('plist',):
            if op == 'add':
                dense = a.dense + b.dense
            elif op == 'sub':
                dense = a.dense - b.dense
            elif op == 'matmul':
                dense = a.dense @ b.dense
            elif op == 'neg':
                dense = -a.dense
            elif op == 'rmul':
                dense = b * a.dense
            elif op == 'div':
                dense = a.dense / b
            else:
                dense = a.dense
            got = sum(c * O.dense((l, 0)) for l, c in ik[1].items()) if isinstance(ik[1], dict) else ik[1][1] * np.eye(2 ** n)
            if isinstance(got, (int, float)) and got == 0:
                got = np.zeros((2 ** n, 2 ** n))
            if not np.allclose(got, dense, atol=1e-9):
                ctx.fail(type(a.val).__name__ + '.' + op, 'result of %s does not denote the matrix %s of its operands' % (desc, op),
                         dict(op=desc, a=str(coefmap(a.val, impl))[:400], b=str(coefmap(b.val, impl) if isinstance(b, Node) else b)[:400], got=str(ik)[:400]))
        return Node(ik[0], v, dense, name)

    def tree(n, depth):
        if depth == 0 or rng.random() < 0.25:
            return leaf(n)
        op = rng.choice(['add', 'sub', 'matmul', 'matmul', 'neg', 'rmul', 'div', 'reduce'])
        a = tree(n, depth - 1)
        if a is None:
            return None
        if op in ('add', 'sub', 'matmul'):
            b = tree(n, depth - 1)
            if b is None:
                return None
            return apply(op, a, b, n)
        if op == 'neg':
            return apply(op, a, None, n)
        if op == 'rmul':
            return apply(op, a, complex(rng.choice(COEF)), n)
        if op == 'div':
            return apply(op, a, complex(rng.choice(DIVS)), n)
        if a.kind != 'poly':
            return a
        return apply('reduce', a, None, n)

    for it in range(ctx.budget(250, 3000)):
        n = rng.choice([1, 1, 2, 2, 3])
        if it % 50 == 0:
            ctx.drv.ask('reset'); reg[0] = 0
        t = tree(n, rng.choice([1, 2, 3, 4]))
        if t is None:
            ctx.case(('err-tree', it), False)
            continue
        cm = coefmap(t.val, impl)
        ctx.case((t.kind, str(cm)), isinstance(cm, dict) and len(cm) >= 2, sample=dict(op='expression', N=n, kind=t.kind, terms=(len(cm) if isinstance(cm, dict) else None)))
        # trace and qutip export of the result
        if t.kind in ('pauli', 'mono', 'poly') and t.dense is not None:
            try:
                tr = complex(t.val.trace())
                ans = ctx.drv.ask('P trace %s' % t.line)
                ctx.count('corr:trace')
                if ans.startswith('ok ') and abs(E.dcx(ans.split(' ')[1]) - tr) > 1e-9:
                    ctx.mismatch('trace', t.kind, ans, str(tr))
                want = complex(np.trace(t.dense))
                if abs(tr - want) > 1e-9:
                    # which terms make the difference: identity strings carrying a phase (known finding D13) or something else
                    if t.kind == 'poly':
                        idph = any(not any(g) and int(p) % 4 != 0 for g, p in zip(np.asarray(t.val.gs), np.asarray(t.val.ps)))
                    else:
                        idph = (not any(np.asarray(t.val.g))) and int(t.val.p) % 4 != 0
                    ctx.fail('Pauli.trace', 'trace %s, matrix trace %s' % (tr, want), dict(kind=t.kind, obj=str(cm)[:300]),
                             when='identity-string-term-with-nonzero-phase' if idph else '')
            except Exception as e:
                ctx.fail(type(t.val).__name__ + '.trace', 'implementation raised %r' % e, dict(kind=t.kind))
            if rng.random() < 0.3:
                try:
                    q = t.val.to_qutip()
                    qd = np.asarray(q.full()) if hasattr(q, 'full') else np.asarray(q) * np.eye(2 ** n)
                    if not np.allclose(qd, t.dense, atol=1e-9):
                        ctx.fail(type(t.val).__name__ + '.to_qutip', 'dense QuTiP export differs from the matrix denoted', dict(kind=t.kind, obj=str(cm)[:300]))
                    ctx.count('qutip')
                except Exception as e:
                    ctx.fail(type(t.val).__name__ + '.to_qutip', 'implementation raised %r' % e, dict(kind=t.kind))
    # reduce: merges equal strings, folds phases, drops only sub-tolerance terms
    for _ in range(ctx.budget(80, 800)):
        n = rng.choice([1, 2, 3])
        base = [G.rand_op(rng, n) for _ in range(3)]
        if _ % 8 == 7:        # wide registers: strings that differ on the first qubits only (more than 64 bits per string)
            n = rng.choice([33, 40, 64, 70])
            k0 = rng.choice([1, 2, 3])
            base = [(tuple(G.rand_letters(rng, k0, 1.0)) + ('I',) * (n - k0 - 2) + tuple(rng.choice(['IZ', 'XI', 'II'])), 0) for _k in range(3)]
        terms = [((rng.choice(base)[0], rng.randrange(4)), complex(rng.choice(COEF + [2.0 ** -40, 2.0 ** -30, -2.0 ** -34 * 1j]))) for _ in range(rng.randrange(1, 7))]
        p = impl.poly(terms)
        try:
            red = p.reduce()
        except Exception as e:
            ctx.fail('PauliPolynomial.reduce', 'implementation raised %r' % e, dict(terms=terms)); continue
        full = {}
        for (l, k), c in terms:
            full[l] = full.get(l, 0) + c * (1j ** k)
        got = coefmap(red, impl)
        ctx.drv.ask('P set rr poly %s' % E.epoly([O.to_g(t[0][0]) for t in terms], [t[0][1] for t in terms], [t[1] for t in terms]))
        ans = ctx.drv.ask('P reduce rq rr 1 10000000000')
        ctx.count('corr:reduce')
        if model_coefmap(ans) != (('poly', got) if len(red.gs) else ('poly', {}, n)):
            ctx.mismatch('reduce', str(terms)[:300], str(model_coefmap(ans))[:400], str(got)[:400])
        strs = [O.from_gp(g, 0)[0] for g in np.asarray(red.gs)]
        ctx.case(('reduce', str(terms)), len(full) >= 2, sample=dict(op='reduce', terms=len(terms), kept=len(got)))
        if len(set(strs)) != len(strs) or any(int(x) % 4 for x in np.asarray(red.ps)):
            ctx.fail('PauliPolynomial.reduce', 'equal strings not merged or phases not moved into the coefficients', dict(terms=terms))
        for l, c in full.items():
            if abs(c) > 1e-10:
                if l not in got or abs(got[l] - c) > 1e-12:
                    ctx.fail('PauliPolynomial.reduce', 'a term above the tolerance was dropped or changed', dict(terms=terms, string=l, want=str(c), got=str(got.get(l))))
            elif l in got:
                ctx.fail('PauliPolynomial.reduce', 'a term below the tolerance was kept', dict(terms=terms, string=l))
        for l in got:
            if l not in full:
                ctx.fail('PauliPolynomial.reduce', 'a term appeared from nowhere', dict(terms=terms, string=l))
    # reduce with a wide dynamic range and with explicit tolerances: the threshold is absolute (|c| <= tol), whatever the largest term
    for _ in range(ctx.budget(60, 600)):
        n = rng.choice([1, 2, 3])
        strs_ = []
        while len(strs_) < 3:
            l_ = G.rand_op(rng, n)[0]
            if l_ not in strs_:
                strs_.append(l_)
            if 4 ** n <= len(strs_):
                break
        big = rng.choice([2.0 ** 40, 2.0 ** 12, 2048.0, 1.0])
        tolp = rng.choice([(1, 10000000000), (1, 1024), (1, 8)])
        tolv = tolp[0] / tolp[1]
        small = rng.choice([tolv * 4, tolv * 64, 1.5, 50.0, tolv / 4])
        cs_ = [complex(big), complex(small) * rng.choice([1, 1j, -1]), complex(rng.choice([0.5, 3.0, tolv / 8]))][:len(strs_)]
        terms = [((l_, rng.randrange(4)), c_) for l_, c_ in zip(strs_, cs_)]
        try:
            red = impl.poly(terms).reduce(tol=tolv) if tolp != (1, 10000000000) or rng.random() < 0.5 else impl.poly(terms).reduce()
        except Exception as e:
            ctx.fail('PauliPolynomial.reduce', 'implementation raised %r' % e, dict(terms=terms, tol=tolv)); continue
        got = coefmap(red, impl)
        ctx.drv.ask('P set rr poly %s' % E.epoly([O.to_g(t[0][0]) for t in terms], [t[0][1] for t in terms], [t[1] for t in terms]))
        ans = ctx.drv.ask('P reduce rq rr %d %d' % tolp)
        ctx.count('corr:reduce(tol)')
        if model_coefmap(ans) != (('poly', got) if len(red.gs) else ('poly', {}, n)):
            ctx.mismatch('reduce(tol)', str((terms, tolv))[:300], str(model_coefmap(ans))[:400], str(got)[:400])
        ctx.case(('reduce-range', str(terms), tolv), True, sample=dict(op='reduce', tol=tolv, largest=big, kept=len(got)))
        for (l_, k_), c_ in terms:
            v_ = c_ * 1j ** k_
            if abs(v_) > tolv * 2 and (l_ not in got or abs(got[l_] - v_) > 1e-9 * max(1, abs(v_))):
                ctx.fail('PauliPolynomial.reduce', 'a term with |c| = %g above the tolerance %g was dropped (largest coefficient %g): the threshold is not absolute' % (abs(v_), tolv, big),
                         dict(terms=terms, tol=tolv, string=l_, got=str(got.get(l_))))
            if abs(v_) < tolv / 2 and l_ in got:
                ctx.fail('PauliPolynomial.reduce', 'a term with |c| = %g below the tolerance %g was kept' % (abs(v_), tolv), dict(terms=terms, tol=tolv, string=l_))
    # parts of a polynomial: slices, masks, index lists of polynomials that still carry phase indicators (unreduced products,
    # polynomials rotated in place, signed lists cast to polynomials): the parts add up to the whole
    for _ in range(ctx.budget(60, 600)):
        n = rng.choice([1, 2, 3])
        t1 = [(G.rand_op(rng, n), complex(rng.choice(COEF))) for _k in range(rng.randrange(1, 4))]
        t2 = [(G.rand_op(rng, n), complex(rng.choice(COEF))) for _k in range(rng.randrange(1, 4))]
        kind = rng.choice(['product', 'rotated', 'list'])
        try:
            if kind == 'product':
                P_ = impl.poly(t1) @ impl.poly(t2)
            elif kind == 'rotated':
                P_ = impl.poly(t1 + t2).rotate_by(impl.pauli(G.rand_herm(rng, n, nonid=True)))
            else:
                P_ = impl.plist([t[0] for t in t1 + t2]).as_polynomial()
            L_ = len(P_.cs)
            k_ = rng.randrange(0, L_ + 1)
            mk_ = np.array([rng.random() < 0.5 for _i in range(L_)])
            idx_ = [rng.randrange(L_) for _i in range(rng.randrange(1, 4))]
            whole = coefmap(P_, impl)
            pieces = [('slice', [P_[:k_], P_[k_:]]), ('mask', [P_[mk_], P_[~mk_]])]
            for nm_, parts in pieces:
                tot = {}
                for part in parts:
                    for l_, v_ in coefmap(part, impl).items():
                        tot[l_] = tot.get(l_, 0) + v_
                tot = {l_: v_ for l_, v_ in tot.items() if abs(v_) > 1e-12}
                if set(tot) != set(whole) or any(abs(tot[l_] - whole[l_]) > 1e-9 for l_ in tot):
                    ctx.fail('PauliPolynomial.__getitem__', 'the two parts of a polynomial taken by %s do not add up to the polynomial (%s polynomial still carrying phase indicators %s)'
                             % (nm_, kind, [int(v) for v in np.asarray(P_.ps)]), dict(kind=kind, t1=t1, t2=t2, how=nm_, k=k_, mask=mk_.tolist()))
            sel = P_[idx_]
            want_sel = {}
            for i_ in idx_:
                m_ = P_[i_]
                l_, ph_ = O.from_gp(m_.g, m_.p)
                want_sel[l_] = want_sel.get(l_, 0) + complex(m_.c) * 1j ** ph_
            got_sel = {}
            for g_, p_, c_ in zip(np.asarray(sel.gs), np.asarray(sel.ps), np.asarray(sel.cs)):
                l_, ph_ = O.from_gp(g_, p_)
                got_sel[l_] = got_sel.get(l_, 0) + complex(c_) * 1j ** ph_
            if set(k for k, v in got_sel.items() if abs(v) > 1e-12) != set(k for k, v in want_sel.items() if abs(v) > 1e-12) or any(abs(got_sel.get(l_, 0) - v_) > 1e-9 for l_, v_ in want_sel.items()):
                ctx.fail('PauliPolynomial.__getitem__', 'an index list selects terms that differ from the terms selected one by one', dict(kind=kind, t1=t1, t2=t2, idx=idx_))
        except Exception as e:
            ctx.fail('PauliPolynomial.__getitem__', 'implementation raised %r' % e, dict(kind=kind, t1=t1, t2=t2)); continue
        ctx.case(('poly-parts', kind, str(t1), str(t2)), True, sample=dict(op='parts of a polynomial', kind=kind, terms=L_))
    # inverse of a monomial: M @ M.inverse() is the identity, for every phase indicator and coefficient
    for _ in range(ctx.budget(60, 600)):
        n = rng.choice([1, 2, 3])
        P = G.rand_op(rng, n)
        c_ = complex(rng.choice([1, -1, 2, 0.5, -0.25, 3]), rng.choice([0, 0, 1, -0.5, 2]))
        how = rng.choice(['monomial', 'term of an unreduced product'])
        try:
            if how == 'monomial':
                M_ = pc.PauliMonomial(impl.garr(P[0]), P[1]).set_c(c_)
            else:
                Q = G.rand_op(rng, n)
                M_ = (impl.poly([(P, c_)]) @ impl.poly([(Q, 1.0)]))[0]
            inv_ = M_.inverse()
            prod = M_ @ inv_
            prod2 = inv_ @ M_
            cm1, cm2 = coefmap(prod.reduce(), impl), coefmap(prod2.reduce(), impl)
        except Exception as e:
            ctx.fail('PauliMonomial.inverse', 'implementation raised %r' % e, dict(P=P, c=str(c_), how=how)); continue
        ident = {tuple('I' * n): 1.0}
        ctx.case(('mono-inverse', P, c_, how), P[1] % 2 == 1, sample=dict(op='PauliMonomial.inverse', phase=int(M_.p) % 4, how=how))
        for cm in (cm1, cm2):
            if set(cm) != set(ident) or abs(cm[tuple('I' * n)] - 1.0) > 1e-9:
                ctx.fail('PauliMonomial.inverse', 'M @ M.inverse() is not the identity for a monomial with phase indicator %d (%s): got %s' % (int(M_.p) % 4, how, {''.join(k): str(v) for k, v in cm.items()}),
                         dict(P=P, c=str(c_), how=how)); break
    # histories: objects handed out by the library are changed in place by the caller; later arithmetic must not notice
    for _ in range(ctx.budget(40, 400)):
        n = rng.choice([1, 2, 3])
        c0 = complex(rng.choice([0.5, -3, 2j, 0.25]))
        ident = pc.pauli_identity(n)
        if rng.random() < 0.5:
            ident.set_cs(np.array([c0]))
        else:
            ident.cs *= c0
        z = pc.pauli_zero(n)
        terms = [(G.rand_op(rng, n), complex(rng.choice(COEF))) for _ in range(2)]
        r0 = impl.poly(terms) + impl.poly(terms[:1])
        for a_ in (r0.cs, r0.gs):   # mutate a result in place
            if a_.size:
                a_.flat[0] = a_.flat[0] + 1
        c = complex(rng.choice(COEF))
        d1 = sum(cc * O.dense(o) for o, cc in terms) + c * np.eye(2 ** n)
        checks = [('PauliPolynomial.__add__', lambda: impl.poly(terms) + c), ('PauliPolynomial.__radd__', lambda: c + impl.poly(terms)),
                  ('PauliPolynomial.__sub__', lambda: impl.poly(terms) - (-c))]
        for site, f in checks:
            try:
                cm = coefmap(f(), impl)
                got = sum(v * O.dense((l, 0)) for l, v in cm.items()) if cm else np.zeros_like(d1)
                if not np.allclose(got, d1):
                    ctx.fail(site, 'after an identity polynomial / an earlier result was modified in place by the caller, adding a number no longer adds that multiple of the identity',
                             dict(terms=terms, c=str(c), got=str(cm)[:300]))
            except Exception as e:
                ctx.fail(site, 'implementation raised %r' % e, dict(terms=terms))
        fresh = coefmap(pc.pauli_identity(n), impl)
        if fresh != {tuple('I' * n): 1.0}:
            ctx.fail('pauli_identity', 'identity polynomial is not the identity after an earlier one was modified in place', dict(N=n, got=str(fresh)))
        ctx.case(('inplace-history', n, str(terms), c), True, sample=dict(op='history: mutate handed-out objects, then add a number', N=n))
    # adding a plain number adds that multiple of the identity
    for _ in range(ctx.budget(30, 300)):
        n = rng.choice([1, 2, 3])
        terms = [(G.rand_op(rng, n), complex(rng.choice(COEF))) for _ in range(2)]
        c = complex(rng.choice(COEF))
        for res in (impl.poly(terms) + c, c + impl.poly(terms), impl.pauli(terms[0][0]) + c):
            base = terms if res is not None and not isinstance(res, type(None)) else terms
        d1 = sum(cc * O.dense(o) for o, cc in terms) + c * np.eye(2 ** n)
        r1 = impl.poly(terms) + c
        if not np.allclose(sum(v * O.dense((l, 0)) for l, v in coefmap(r1, impl).items()) if coefmap(r1, impl) else np.zeros_like(d1), d1):
            ctx.fail('PauliPolynomial.__add__', 'adding a number does not add that multiple of the identity', dict(terms=terms, c=str(c)))
        r2 = c + impl.pauli(terms[0][0])
        d2 = O.dense(terms[0][0]) + c * np.eye(2 ** n)
        if not np.allclose(sum(v * O.dense((l, 0)) for l, v in coefmap(r2, impl).items()) if coefmap(r2, impl) else np.zeros_like(d2), d2):
            ctx.fail('Pauli.__radd__', 'number + Pauli is not the operator plus that multiple of the identity', dict(P=terms[0][0], c=str(c)))
        ctx.case(('addnum', str(terms), c), True)
