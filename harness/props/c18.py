"""C18 diagonalize and SBRG return circuits that really diagonalize."""
import itertools
import numpy as np
from fractions import Fraction
import oracle as O
import gen as G
import enc as E
import hutil as H
import circ_util as CU

RULE = ('non-identity strings with sign x target qubit i0 x causal on/off (exhaustive N<=3, random N<=7); kernels front / condense / '
        'pauli_is_onsite / pauli_diagonalize1/2 against the model; pure states with signs (N<=6); commuting-term Hamiltonians (exactness, '
        'spectrum) and arbitrary Hamiltonians (diagonal form) with dyadic coefficients, N<=5, against dense matrices and against Model/SBRG.lean (effective Hamiltonian term by term, circuit layers, circuit action). non-trivial = operator not already Z on '
        'the target; distinct = distinct inputs.')
ASSUMPTIONS = ['SBRG: the model takes the leading-term indices chosen by the code (numpy.argmax over float magnitudes) as a parameter and exact rational coefficients; coefficients are compared to 1e-9 relative']


def coefmap_poly(p):
    out = {}
    for g, ph, c in zip(np.asarray(p.gs), np.asarray(p.ps), np.asarray(p.cs)):
        l, k = O.from_gp(g, ph)
        out[l] = out.get(l, 0) + complex(c) * (1j ** k)
    return {k: v for k, v in out.items() if abs(v) > 1e-12}


def run(ctx):
    import impl
    U, pc, CI = impl.U, impl.pc, impl.CI
    rng = ctx.rng
    cid = [0]

    def one(op, i0, causal):
        letters, p = op
        n = len(letters)
        g = impl.garr(letters)
        P = impl.pauli(op)
        rep = dict(P=op, i0=i0, causal=causal)
        try:
            circ = CI.diagonalize(P, i0, causal=causal)
            lst = impl.plist([op])
            circ.forward(lst)
            got = impl.ops_of(lst)[0]
        except Exception as e:
            ctx.fail('diagonalize', 'implementation raised %r' % e, rep); return
        already = (letters[i0] == 'Z' and sum(c != 'I' for c in letters) == 1)
        ctx.case((op, i0, causal), not already, sample=dict(op='diagonalize', P=op, i0=i0, causal=causal, result=got))
        if not causal:
            want = tuple('Z' if i == i0 else 'I' for i in range(n))
            if got[0] != want or got[1] % 2 != p % 2:
                ctx.fail('diagonalize', 'circuit does not map the operator to +-Z on qubit %d' % i0, dict(rep, got=got))
        else:
            tail = letters[i0:]
            if any(c != 'I' for c in tail):
                want = tuple(list(letters[:i0]) + ['Z' if i == i0 else 'I' for i in range(i0, n)])
                if got[0] != want or got[1] % 2 != p % 2:
                    ctx.fail('diagonalize', 'causal: the part supported on qubits >= %d is not mapped to Z_%d with earlier qubits untouched' % (i0, i0), dict(rep, got=got))
            for layer in circ.layers_forward():
                for gate in layer.gates:
                    if min(int(q) for q in gate.qubits) < i0:
                        ctx.fail('diagonalize', 'causal circuit acts on a qubit before %d' % i0, dict(rep, qubits=[int(q) for q in gate.qubits]))
        # model: same circuit structure and same action
        cid[0] += 1
        a = 'd%d' % cid[0]
        ans = ctx.drv.ask('circ %s diagpauli %s %d %d' % (a, E.estr(g), i0, 1 if causal else 0))
        ctx.count('corr:diagonalize')
        if ans == 'ok':
            ml = ctx.drv.ask('circ %s layers' % a)
            if ml != CU.impl_layers(circ):
                ctx.mismatch('diagonalize', 'layers of diagonalize(%s,%d,%s)' % (E.estr(g), i0, causal), ml, CU.impl_layers(circ))
            mf = ctx.drv.ask('circ %s fwd L 0 %s _ - none' % (a, H.erows_ops([op])))
            mv = H.drows_ops(mf.split(' ')[2])[0] if mf.startswith('ok ') else mf
            if mv != got:
                ctx.mismatch('diagonalize', 'forward of diagonalize(%s,%d,%s)' % (E.estr(g), i0, causal), str(mv), str(got))
        else:
            ctx.mismatch('diagonalize', 'circ diagpauli', ans, 'ok')

    for n in (1, 2, 3):
        for letters in itertools.product('IXYZ', repeat=n):
            if all(c == 'I' for c in letters):
                continue
            if n == 3 and ctx.tier == 'quick' and rng.random() < 0.6:
                continue
            for i0 in range(n):
                for causal in (False, True):
                    if causal and all(c == 'I' for c in letters[i0:]):
                        continue
                    one((letters, rng.choice((0, 2))), i0, causal)
    for _ in range(ctx.budget(150, 2000)):
        n = rng.choice([4, 5, 6, 7])
        op = G.rand_herm(rng, n, nonid=True)
        i0 = rng.randrange(n)
        causal = rng.random() < 0.5
        if causal and all(c == 'I' for c in op[0][i0:]):
            continue
        one(op, i0, causal)
    # kernels
    for _ in range(ctx.budget(300, 3000)):
        n = rng.choice([1, 2, 3, 4, 6])
        g1 = G.rand_op(rng, n, nonid=True, density=rng.choice([0.2, 0.5, 1.0]))[0]
        i0 = rng.randrange(n)
        a1 = impl.garr(g1)
        ctx.q('front', 'front %s' % E.estr(a1), int(U.front(a1)), int)
        gc, qs = U.condense(a1)
        ctx.q('condense', 'condense %s' % E.estr(a1), (E.estr(gc), [int(q) for q in qs]), lambda s: (s.split(' ')[0], E.dints(s.split(' ')[1])))
        ctx.q('onsite', 'onsite %s %d' % (E.estr(a1), i0), bool(U.pauli_is_onsite(a1, i0)), lambda s: s == 'true')
        gens = U.pauli_diagonalize1(a1.copy(), i0)
        ctx.q('diag1', 'diag1 %s %d' % (E.estr(a1), i0), [[int(v) for v in x] for x in gens], E.dstrs)
        cur = (g1, 0)
        for x in gens:
            cur = G.rotate_op(O.from_gp(x, 0), cur)
        if cur[0] != tuple('Z' if i == i0 else 'I' for i in range(n)):
            ctx.fail('pauli_diagonalize1', 'generators do not bring the string to Z on the target', dict(g=g1, i0=i0, got=cur))
        while True:
            g2 = G.rand_op(rng, n)[0]
            if O.anticommute((g1, 0), (g2, 0)):
                break
        a2 = impl.garr(g2)
        gens2, o1, o2 = U.pauli_diagonalize2(a1.copy(), a2.copy(), i0)
        ctx.q('diag2', 'diag2 %s %s %d' % (E.estr(a1), E.estr(a2), i0), ([[int(v) for v in x] for x in gens2], E.estr(o1), E.estr(o2)),
              lambda s: (E.dstrs(s.split(' ')[0]), s.split(' ')[1], s.split(' ')[2]))
        c1, c2 = (g1, 0), (g2, 0)
        for x in gens2:
            c1 = G.rotate_op(O.from_gp(x, 0), c1); c2 = G.rotate_op(O.from_gp(x, 0), c2)
        ok2 = c1[0] == tuple('Z' if i == i0 else 'I' for i in range(n)) and c2[0][i0] in 'XY' and sum(ch != 'I' for ch in c2[0]) == 1
        ctx.case(('diag2', g1, g2, i0), True)
        if not ok2 or O.from_gp(o1, 0)[0] != c1[0] or O.from_gp(o2, 0)[0] != c2[0]:
            ctx.fail('pauli_diagonalize2', 'pair not brought to Z and X/Y on the target (or returned strings differ from the rotated inputs)', dict(g1=g1, g2=g2, i0=i0, got=(c1, c2)))
    # states
    for _ in range(ctx.budget(80, 800)):
        n = rng.choice([1, 2, 3, 4, 5, 6])
        rows, _r = G.rand_tableau(rng, n, 0)
        st = impl.state(rows, 0)
        try:
            circ = CI.diagonalize(st)
            w = impl.state(rows, 0)
            circ.forward(w)
            got = impl.ops_of(w)
            zero = G.map_to_state_ops(G.id_map_ops(n))
            ctx.case(('state', tuple(rows)), True, sample=dict(op='diagonalize(state)', N=n))
            if got != zero or int(w.r) != 0:
                ctx.fail('diagonalize', 'circuit does not map the state to |0...0>', dict(rows=rows, got=got)); continue
            circ.backward(w)
            if impl.ops_of(w) != [(x[0], x[1] % 4) for x in rows]:
                ctx.fail('diagonalize', 'backward pass does not re-encode the state', dict(rows=rows, got=impl.ops_of(w)))
            # the state evolves in place; diagonalizing it again must diagonalize the *current* state
            cur = list(rows)
            for _step in range(rng.randrange(1, 4)):
                if rng.random() < 0.5:
                    Gop = G.rand_herm(rng, n, nonid=True)
                    st.rotate_by(impl.pauli(Gop)); cur = [G.rotate_op(Gop, x) for x in cur]
                else:
                    d = CU.rand_gate(rng, n, kinds=('gen', 'named', 'cnot'))
                    CU.impl_gate(impl, d).forward(st); cur = [CU.oracle_gate(d, x) for x in cur]
                c2 = CI.diagonalize(st)
                w2 = impl.state(cur, 0)
                c2.forward(w2)
                if impl.ops_of(w2) != zero:
                    ctx.fail('diagonalize', 'after the state was evolved in place, diagonalizing it again does not map the current state to |0...0>', dict(rows=rows, current=cur, got=impl.ops_of(w2)))
                    break
            cid[0] += 1
            a = 's%d' % cid[0]
            ctx.drv.ask('circ %s diagstate 0 %s' % (a, H.erows_ops(rows)))
            mf = ctx.drv.ask('circ %s fwd S 0 %s _ - none' % (a, H.erows_ops(rows)))
            ctx.count('corr:diagstate')
            mv = H.drows_ops(mf.split(' ')[2]) if mf.startswith('ok ') else mf
            if mv != got:
                ctx.mismatch('diagonalize(state)', 'forward', str(mv)[:400], str(got)[:400])
        except Exception as e:
            ctx.fail('diagonalize', 'implementation raised %r' % e, dict(rows=rows))
    # SBRG
    sbid = 0
    for _ in range(ctx.budget(60, 600)):
        n = rng.choice([2, 3, 4, 5])
        commuting = rng.random() < 0.5
        boundary = _ < 6 or rng.random() < 0.08       # Hamiltonians without any non-identity term, one-qubit registers
        if boundary:
            n = rng.choice([1, 1, 2, 3])
            commuting = True
            strs = [] if rng.random() < 0.6 else [rng.choice([('Z',) * 1 + ('I',) * (n - 1), ('X',) + ('I',) * (n - 1)])]
        elif commuting:
            rows, _r = G.rand_tableau(rng, n, 0)
            base = rows[:n]
            strs = []
            for _k in range(rng.randrange(1, 6)):
                e = G.group_product(rng, base, n)
                if any(c != 'I' for c in e[0]):
                    strs.append(e[0])
            strs = list(dict.fromkeys(strs))
            if not strs:
                continue
        else:
            strs = list(dict.fromkeys(G.rand_letters(rng, n, 0.7) for _k in range(rng.randrange(2, 9))))
            strs = [s for s in strs if any(c != 'I' for c in s)]
            if not strs:
                continue
        cs = rng.sample([1.0, 2.0, -0.5, 4.0, -3.0, 0.25, 8.0, -16.0], len(strs)) if len(strs) <= 8 else None
        if cs and rng.random() < 0.3:        # a very small term (far below the square root of the tolerance)
            cs[rng.randrange(len(cs))] = rng.choice([2.0 ** -20, -2.0 ** -24])
        terms = [((s, 0), complex(c)) for s, c in zip(strs, cs)]
        if rng.random() < 0.3 or (boundary and (not terms and rng.random() < 0.7)):        # a constant (identity) term, sometimes the largest coefficient
            terms.insert(rng.randrange(len(terms) + 1), ((tuple('I' * n), 0), complex(rng.choice([32.0, 0.125, -64.0]))))
        H0 = impl.poly(terms) if terms else pc.pauli_zero(n)
        rate = rng.choice([2.0, 2.0, 1.0, 1.5, 0.5, 3.0])
        tol = rng.choice([1e-8, 1e-8, 2.0 ** -12])
        rep = dict(N=n, terms=terms, commuting=commuting, max_rate=rate, tol=tol)
        leads = []
        _argmax = np.argmax

        def rec_argmax(a, *args, **kw):
            v = _argmax(a, *args, **kw)
            leads.append(int(v))
            return v
        try:
            np.argmax = rec_argmax          # record the leading term the code picks at every iteration
            try:
                heff, circ = CI.SBRG(H0, max_rate=rate, tol=tol)
            finally:
                np.argmax = _argmax
        except Exception as e:
            ctx.fail('SBRG', 'implementation raised %r' % e, rep); continue
        # correspondence with Model/SBRG.lean on the same Hamiltonian and the same choice of leading terms
        sbid += 1
        fr = Fraction(rate)
        ft = Fraction(1, 10 ** 8) if tol == 1e-8 else Fraction(tol)
        ans = ctx.drv.ask('circ sb%d sbrg %d %s %s %d %d %d %d' % (sbid, n, E.epoly(H0.gs, H0.ps, H0.cs), E.eints(leads) if leads else '_',
                                                              fr.numerator, fr.denominator, ft.numerator, ft.denominator))
        ctx.count('corr:sbrg'); ctx.traces += 1
        iv = [(O.from_gp(g, 0)[0], int(p_), complex(c)) for g, p_, c in zip(heff.gs, heff.ps, heff.cs)]
        if ans.startswith('ok '):
            mv = [(O.from_gp(g, 0)[0], p_, complex(float(c[0]), float(c[1]))) for g, p_, c in E.dpoly(ans.split(" ")[1])]
            same = len(mv) == len(iv) and all(a[0] == b[0] and a[1] == b[1] and abs(a[2] - b[2]) <= 1e-9 * max(1.0, abs(b[2])) for a, b in zip(mv, iv))
            if not same:
                ctx.mismatch('SBRG', 'sbrg heff', str(mv)[:700], str(iv)[:700], dict(rep=rep, leads=leads))
            ml = ctx.drv.ask('circ sb%d layers' % sbid)
            il = CU.impl_layers(circ)
            if ml != il:
                ctx.mismatch('SBRG', 'sbrg circuit layers', ml, il, dict(rep=rep, leads=leads))
            probes = [G.rand_op(rng, n) for _q in range(3)] + G.id_map_ops(n)
            lst = impl.plist(probes)
            circ.forward(lst)
            a2 = ctx.drv.ask('circ sb%d fwd L 0 %s _ - none' % (sbid, H.erows_ops(probes)))
            mv2 = H.drows_ops(a2.split(' ')[2]) if a2.startswith('ok ') else a2
            if mv2 != impl.ops_of(lst):
                ctx.mismatch('SBRG', 'sbrg circuit forward', str(mv2)[:500], str(impl.ops_of(lst))[:500], dict(rep=rep, leads=leads))
        else:
            ctx.mismatch('SBRG', 'sbrg', ans, str(iv)[:500], dict(rep=rep, leads=leads))
        hm = coefmap_poly(heff)
        ctx.case(('sbrg', tuple(terms)), True, sample=dict(op='SBRG', N=n, commuting=commuting, terms=len(terms), heff_terms=len(hm)))
        ctx.count('sbrg:' + ('commuting' if commuting else 'generic'))
        if any(c in 'XY' for l in hm for c in l):
            ctx.fail('SBRG', 'effective Hamiltonian contains a string that is not made of I and Z', dict(rep, heff=str(hm))); continue
        if commuting:
            Hc = impl.poly(terms) if terms else pc.pauli_zero(n)
            circ.forward(Hc)
            fm = coefmap_poly(Hc)
            if set(fm) != set(hm) or any(abs(fm[k] - hm[k]) > 1e-9 for k in fm):
                ctx.fail('SBRG', 'commuting terms: the circuit does not map the input exactly onto the effective Hamiltonian', dict(rep, forward=str(fm), heff=str(hm)))
            d0 = sum(c * O.dense(o) for o, c in terms) if terms else np.zeros((2 ** n, 2 ** n), dtype=complex)
            d1 = sum(v * O.dense((l, 0)) for l, v in hm.items()) if hm else np.zeros_like(d0)
            if not np.allclose(np.sort(np.linalg.eigvalsh(d0)), np.sort(np.linalg.eigvalsh(d1)), atol=1e-8):
                ctx.fail('SBRG', 'commuting terms: spectrum not preserved', rep)
