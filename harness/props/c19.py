"""C19 stabilizer-group sampling and classical-shadow snapshots agree with the state."""
import itertools
import math
import numpy as np
import oracle as O
import gen as G
import enc as E
import hutil as H
import rng as R
import circ_util as CU

RULE = ('states of all ranks and sign patterns (N<=6): sample(L) with the selector recorded, density_matrix expansion (every '
        'group element once, weight 2^-N, N<=5), ClassicalShadow.snapshots with fixed circuits and with random on-site / global / '
        'brick-wall circuits; uniformity of sampling tested with an exact multinomial bound. non-trivial = state with at least two '
        'active stabilizers and some negative sign; distinct = distinct (state, selector / circuit).')
ASSUMPTIONS = ['uniformity of numpy.random.randint for the selector (statistical support only)',
               'a snapshot reached with probability 2^log2prob > 0 has non-zero overlap with the measured state (projection postulate, C06)']


def run(ctx):
    import impl
    pc, CI = impl.pc, impl.CI
    rng = ctx.rng
    R.warm_up()
    # ---- sample: in the group with the correct sign
    for _ in range(ctx.budget(200, 2500)):
        n = rng.choice([1, 2, 3, 4, 5, 6])
        rows, r = G.rand_tableau(rng, n)
        act = rows[r:n]
        st = impl.state(rows, r)
        L = rng.choice([1, 3, 8])
        np.random.seed(rng.randrange(1 << 30))
        state0 = np.random.get_state()
        try:
            smp = st.sample(L)
        except Exception as e:
            ctx.fail('StabilizerState.sample', 'implementation raised %r' % e, dict(rows=rows, r=r)); continue
        got = impl.ops_of(smp)
        np.random.set_state(state0)
        C = np.random.randint(2, size=(L, n - r))   # the selector the code drew (same generator state)
        repro = [O.oprod([a_ for b_, a_ in zip(c_, act) if b_], n) for c_ in C.tolist()]
        if repro == got:   # the recorded selector reproduces the draw: compare the model on it
            ctx.q('sample', 'sample %d %s %s' % (r, H.erows_ops(rows), E.emat(C.tolist()) if n - r else ';'.join('_' for _ in range(L))),
                  got, H.drows_ops)
        else:              # the code draws its selector differently: observed-output mode (membership below)
            ctx.count('selector-not-reproducible')
        ctx.case(('sample', tuple(rows), r, C.tobytes()), len(act) >= 2 and any(x[1] for x in act), sample=dict(op='sample', N=n, r=r, L=L, result=got[:2]))
        if len(got) != L:
            ctx.fail('StabilizerState.sample', 'returned %d operators for L=%d' % (len(got), L), dict(rows=rows, r=r))
        for P in got:
            if O.expect_spec(act, P) != 1 or O.in_group_sign(act, P) != 1:
                ctx.fail('StabilizerState.sample', 'sampled operator is not a stabilizer-group element with the correct sign', dict(rows=rows, r=r, P=P))
            ex = int(st.expect(impl.plist([P], n))[0])
            if ex != 1:
                ctx.fail('StabilizerState.sample', 'sampled operator has expectation %d in the state' % ex, dict(rows=rows, r=r, P=P))
    # ---- uniformity over the group (exact tail bound, alpha = 1e-9 per test)
    for _ in range(ctx.budget(3, 12)):
        n = rng.choice([2, 3])
        rows, r = G.rand_tableau(rng, n, rng.choice([0, 1]))
        k = n - r
        if k == 0:
            continue
        st = impl.state(rows, r)
        np.random.seed(rng.randrange(1 << 30))
        T = 4000
        cnt = {}
        for P in impl.ops_of(st.sample(T)):
            cnt[P] = cnt.get(P, 0) + 1
        cells = 2 ** k
        p = 1.0 / cells
        # each cell is Binomial(T, p); Hoeffding: P(|X - Tp| > t) <= 2 exp(-2 t^2 / T); union over cells
        t = math.sqrt(T * math.log(2 * cells / 1e-9) / 2)
        ctx.count('uniformity-tests')
        if len(cnt) != cells or any(abs(v - T * p) > t for v in cnt.values()):
            ctx.fail('StabilizerState.sample', 'samples are not uniform over the %d group elements (counts %s, tolerance %.0f)' % (cells, sorted(cnt.values()), t),
                     dict(rows=rows, r=r))
    # ---- uniformity also for small sample sizes (many calls of sample(1), sample(2), sample(3) tallied together)
    for L in (1, 2, 3):
        n = 3
        rows, r = G.rand_tableau(rng, n, 0)
        st = impl.state(rows, 0)
        np.random.seed(rng.randrange(1 << 30))
        calls = ctx.budget(2400, 8000) // L
        cnt = {}
        for _ in range(calls):
            for P in impl.ops_of(st.sample(L)):
                cnt[P] = cnt.get(P, 0) + 1
        T = calls * L
        t = math.sqrt(T * math.log(2 * 8 / 1e-9) / 2)
        ctx.count('uniformity-small-L')
        ctx.case(('uniform-small', L), True)
        if len(cnt) != 8 or any(abs(v - T / 8) > t for v in cnt.values()):
            ctx.fail('StabilizerState.sample', 'sample(%d) called %d times is not uniform over the 8 group elements (counts %s, tolerance %.0f)' % (L, calls, sorted(cnt.values()), t),
                     dict(rows=rows, L=L))
    # ---- density matrix expansion
    for _ in range(ctx.budget(80, 800)):
        n = rng.choice([1, 2, 3, 4, 5]) if _ > 0 else 9      # one state with nine generators (more than one byte of selector bits)
        rows, r = G.rand_tableau(rng, n) if n < 9 else G.rand_tableau(rng, n, 0)
        act = rows[r:n]
        st = impl.state(rows, r)
        try:
            dm = st.density_matrix
            terms = [(O.from_gp(g, p), complex(c)) for g, p, c in zip(dm.gs, dm.ps, dm.cs)]
        except Exception as e:
            ctx.fail('StabilizerState.density_matrix', 'implementation raised %r' % e, dict(rows=rows, r=r)); continue
        ctx.q('density', 'density %d %s' % (r, H.erows_ops(rows)), [t[0] for t in terms], H.drows_ops)
        # the whole polynomial (strings, phases, weights) against the model's densityPoly, about which C12_density_* are proved
        ctx.q('density_matrix', 'densitypoly %d %s' % (r, H.erows_ops(rows)), [(t[0], t[1]) for t in terms],
              lambda s_: [(O.from_gp(g, p), complex(float(c[0]), float(c[1]))) for g, p, c in E.dpoly(s_)])
        grp = O.group_elements(act, n)
        ctx.case(('density', tuple(rows), r), len(act) >= 2, sample=dict(op='density_matrix', N=n, r=r, terms=len(terms)))
        if sorted(t[0] for t in terms) != sorted(grp) or len(set(t[0] for t in terms)) != len(terms):
            ctx.fail('StabilizerState.density_matrix', 'expansion does not list every group element exactly once', dict(rows=rows, r=r, got=[t[0] for t in terms]))
        if any(abs(t[1] - 2.0 ** (-n)) > 1e-15 for t in terms):
            ctx.fail('StabilizerState.density_matrix', 'weights are not 2^-N', dict(rows=rows, r=r))
        if n <= 3:
            dense = sum(c * O.dense(o) for o, c in terms)
            if not np.allclose(dense, O.dense_state(act, n)):
                ctx.fail('StabilizerState.density_matrix', 'dense sum differs from the density matrix', dict(rows=rows, r=r))
    # ---- classical shadows
    for _ in range(ctx.budget(80, 800)):
        n = rng.choice([2, 3, 4, 4, 6]) if rng.random() < 0.8 else 2
        rows, r = G.rand_tableau(rng, n, rng.choice([0, 0, 1]))
        act = rows[r:n]
        base = impl.state(rows, r)
        snap0 = H.snapshot(base)
        kind = rng.choice(['fixed', 'onsite', 'global', 'brickwall'])
        try:
            if kind == 'fixed':
                prog = CU.rand_program(rng, n, rng.randrange(1, 8), kinds=('gen', 'fmap', 'named', 'cnot'))
                circ = CI.CliffordCircuit(n)
                mid = 'sh%d' % _
                ctx.drv.ask('circ %s new %d' % (mid, n))
                for d in prog:
                    circ.take(CU.impl_gate(impl, d)); CU.model_take(ctx.drv, mid, d)
                # the POVM itself: back-evolved zero state
                if rng.random() < 0.5:      # the measurement circuit may have been compiled (both maps) before it is used
                    circ.compile(); ctx.drv.ask('circ %s compile' % mid)
                    ctx.count('shadow:compiled')
                pv = next(iter(circ.povm(1)))
                ansp = ctx.drv.ask('circ %s povm -' % mid)
                ctx.count('corr:povm')
                mvp = H.drows_ops(ansp.split(' ')[2]) if ansp.startswith('ok ') else ansp
                if mvp != impl.ops_of(pv):
                    ctx.mismatch('CliffordCircuit.povm', 'circ povm', str(mvp)[:600], str(impl.ops_of(pv))[:600], dict(program=prog))
            elif kind == 'onsite':
                circ = CI.onsite_rcc(n)
            elif kind == 'global':
                circ = CI.global_rcc(n)
            else:
                if n % 2:
                    continue
                circ = CI.brickwall_rcc(n, rng.randrange(1, 4))
            R.seed_numba(rng.randrange(1 << 30)); np.random.seed(rng.randrange(1 << 30))
            shadow = pc.ClassicalShadow(base, circ)
            snaps = list(shadow.snapshots(3))
        except Exception as e:
            import traceback
            ctx.fail('ClassicalShadow.snapshots', 'implementation raised %r' % e, dict(rows=rows, r=r, kind=kind, tb=traceback.format_exc()[-500:])); continue
        ctx.count('shadow:' + kind)
        ctx.case(('shadow', tuple(rows), r, kind, _), True, sample=dict(op='snapshots', N=n, r=r, circuit=kind))
        if H.snapshot(base) != snap0:
            ctx.fail('ClassicalShadow.snapshots', 'taking snapshots changed the base state', dict(rows=rows, r=r, kind=kind))
        for s in snaps:
            srows, sr = impl.ops_of(s), int(s.r)
            bad = O.tableau_invariant(srows, n, sr)
            if bad:
                ctx.fail('ClassicalShadow.snapshots', 'snapshot is not a valid state: ' + bad, dict(rows=rows, r=r, kind=kind, snap=srows)); continue
            if sr != 0:
                ctx.fail('ClassicalShadow.snapshots', 'snapshot is not pure (r=%d)' % sr, dict(rows=rows, r=r, kind=kind)); continue
            # non-zero overlap with the measured state: Tr(rho sigma) > 0 (oracle: no group element of rho has the opposite sign in sigma)
            ov = 1.0
            cur = list(srows[0:n])
            for a_ in act:
                k, d, new = O.measure_spec(cur, n, a_, random_out=0)
                if k == 'determined' and d != 0:
                    ov = 0.0
                    break
                cur = new
            if ov == 0.0:
                ctx.fail('ClassicalShadow.snapshots', 'snapshot has zero overlap with the measured state', dict(rows=rows, r=r, kind=kind, snap=srows))
            if kind == 'fixed':
                # correspondence: the model's snapshot with the coins that explain the observed snapshot
                pulls = [CU.oracle_backward(prog, [(tuple('Z' if i == q else 'I' for i in range(n)), 0)])[0] for q in range(n)]
                cur, coins, okc = list(act), [], True
                for pl in pulls:
                    sg = O.in_group_sign(srows[0:n], pl)
                    if sg is None:
                        okc = False
                        break
                    o_ = 0 if sg == 1 else 1
                    k_, d_, new_ = O.measure_spec(cur, n, pl, random_out=o_)
                    if k_ != 'determined':
                        coins.append(((pl[1] + 2 * o_) % 4) // 2)
                    cur = new_
                if okc:
                    ans = ctx.drv.ask('circ %s snapshot %d %s %s -' % (mid, r, H.erows_ops(rows), E.ebits(coins)))
                    ctx.count('corr:snapshot'); ctx.traces += 1
                    if ans.startswith('ok '):
                        w_ = ans.split(' ')
                        mv = (int(w_[1]), O.canon_group(H.drows_ops(w_[2])[int(w_[1]):n])[0], int(w_[5]))
                    else:
                        mv = ans
                    iv = (sr, O.canon_group(srows[sr:n])[0], 0)
                    if mv != iv:
                        ctx.mismatch('ClassicalShadow.snapshots', 'circ snapshot', str(mv)[:600], str(iv)[:600], dict(rows=rows, r=r, program=prog, coins=coins))
                # stabilized up to sign by the back-evolved computational basis: Z_k pulled back through the circuit
                for q in range(n):
                    z = (tuple('Z' if i == q else 'I' for i in range(n)), 0)
                    pulled = CU.oracle_backward(prog, [z])[0]
                    if O.in_group_sign(srows[0:n], pulled) is None:
                        ctx.fail('ClassicalShadow.snapshots', 'snapshot is not stabilized (up to sign) by the back-evolved Z_%d' % q,
                                 dict(rows=rows, r=r, snap=srows, pulled=pulled)); break
