"""C12 state-map duality and state constructors denote the documented states."""
import itertools
import numpy as np
import oracle as O
import gen as G
import enc as E
import hutil as H
import rng as R

RULE = ('valid maps with all sign patterns (N<=8) converted to states and back; every named constructor for N<=8; '
        'stabilizer_state on independent commuting signed lists of every length 1<=L<=N in every input format '
        '(PauliList, strings, code arrays), plus anticommuting and dependent lists; dense projector products for N<=4. '
        'non-trivial = the map/list is not the identity / computational one; distinct = distinct inputs.')
ASSUMPTIONS = ['rho = 2^-r prod (1+S_a)/2 is the density matrix of the stabilizer state (textbook)', 'QuTiP dense export compared numerically']

LET2CODE = {'I': 0, 'X': 1, 'Y': 2, 'Z': 3}


def run(ctx):
    import impl
    U, pc = impl.U, impl.pc
    rng = ctx.rng
    R.warm_up()
    # map <-> state
    for _ in range(ctx.budget(200, 2500)):
        n = rng.choice([1, 2, 3, 4, 5, 6, 8])
        rows = G.rand_map_ops(rng, n)
        r = rng.choice([None, 0, rng.randrange(n + 1)])
        mp = impl.cmap(rows)
        try:
            st = mp.to_state(r)
        except Exception as e:
            ctx.fail('CliffordMap.to_state', 'implementation raised %r' % e, dict(map=rows, r=r)); continue
        srows = impl.ops_of(st)
        ctx.q('maptostate', 'maptostate %s' % H.erows_ops(rows), srows, H.drows_ops)
        want = G.map_to_state_ops([(x[0], x[1] % 4) for x in rows])
        ctx.case(('to_state', tuple(rows), r), any(x[1] for x in rows), sample=dict(op='to_state', N=n, r=r, map=rows))
        if srows != want or int(st.r) != (0 if r is None else r):
            ctx.fail('CliffordMap.to_state', 'state is not the image of |0..0> under the map (signs included) / wrong r',
                     dict(map=rows, r=r, got=srows, got_r=int(st.r), want=want))
            continue
        # stabilizers are the images of Z_k, signs included
        for k in range(n):
            img = H.map_apply(rows, (tuple('Z' if i == k else 'I' for i in range(n)), 0))
            if srows[k] != img:
                ctx.fail('CliffordMap.to_state', 'stabilizer %d is not the image of Z_%d' % (k, k), dict(map=rows))
        back = impl.ops_of(st.to_map())
        ctx.q('statetomap', 'statetomap %s' % H.erows_ops(srows), back, H.drows_ops)
        if back != [(x[0], x[1] % 4) for x in rows]:
            ctx.fail('StabilizerState.to_map', 'converting back does not give the same map', dict(map=rows, got=back))
        # kernels
        gs = np.array([O.to_g(x[0]) for x in rows], dtype=np.int_); ps = np.array([x[1] for x in rows], dtype=np.int_)
        g2, p2 = U.map_to_state(gs, ps)
        g3, p3 = U.state_to_map(g2, p2)
        if (g3 != gs).any() or (p3 != ps).any():
            ctx.fail('state_to_map', 'state_to_map(map_to_state(x)) != x', dict(map=rows))
    # named constructors
    for n in range(1, ctx.size(7, 10)):
        Zs = [(tuple('Z' if i == k else 'I' for i in range(n)), 0) for k in range(n)]
        cases = [('zero', pc.zero_state(n), Zs, 0), ('one', pc.one_state(n), [O.oneg(z) for z in Zs], 0),
                 ('mixed', pc.maximally_mixed_state(n), [], n)]
        for name, st, gens, r in cases:
            rows = impl.ops_of(st)
            line = {'zero': 'zero %d', 'one': 'one %d', 'mixed': 'mixed %d'}[name] % n
            ctx.q(name, line, (int(st.r), rows), lambda s: (int(s.split(' ')[0]), H.drows_ops(s.split(' ')[1])))
            inv = O.tableau_invariant(rows, n, int(st.r))
            if inv or int(st.r) != r or O.canon_group(rows[r:n])[0] != O.canon_group(gens)[0]:
                ctx.fail(name + '_state', 'constructor does not return the documented state (%s)' % inv, dict(N=n, rows=rows, r=int(st.r)))
            ctx.case((name, n), True, sample=dict(op=name + '_state', N=n))
        if n >= 2:
            try:
                st = pc.ghz_state(n)
                rows = impl.ops_of(st)
                gens = [(tuple('Z' if i in (k, k + 1) else 'I' for i in range(n)), 0) for k in range(n - 1)] + [(tuple('X' * n), 0)]
                ctx.q('ghz', 'ghz %d' % n, (int(st.r), O.canon_group(rows[int(st.r):n])[0]),
                      lambda s, n=n: (int(s.split(' ')[1]), O.canon_group(H.drows_ops(s.split(' ')[2])[int(s.split(' ')[1]):n])[0]) if s.startswith('ok') else s)
                inv = O.tableau_invariant(rows, n, int(st.r))
                if inv or int(st.r) != 0 or O.canon_group(rows[0:n])[0] != O.canon_group(gens)[0]:
                    ctx.fail('ghz_state', 'not the GHZ state (%s)' % inv, dict(N=n, rows=rows))
            except Exception as e:
                ctx.fail('ghz_state', 'implementation raised %r' % e, dict(N=n))
        for _ in range(3):
            R.seed_numba(rng.randrange(1 << 30))
            st = pc.random_bit_state(n)
            rows = impl.ops_of(st)
            if O.tableau_invariant(rows, n, int(st.r)) or int(st.r) != 0 or any(x[0] != Zs[k][0] or x[1] % 2 for k, x in enumerate(rows[:n])):
                ctx.fail('random_bit_state', 'not a computational basis state', dict(N=n, rows=rows))
            st = pc.random_pauli_state(n)
            rows = impl.ops_of(st)
            bad = O.tableau_invariant(rows, n, int(st.r))
            if bad or any(sum(c != 'I' for c in x[0]) != 1 or x[0][k] == 'I' for k, x in enumerate(rows[:n])):
                ctx.fail('random_pauli_state', 'not a product of single-qubit stabilizer states (%s)' % bad, dict(N=n, rows=rows))
            st = pc.random_clifford_state(n)
            bad = O.tableau_invariant(impl.ops_of(st), n, int(st.r))
            if bad:
                ctx.fail('random_clifford_state', 'invalid tableau: %s' % bad, dict(N=n, rows=impl.ops_of(st)))
            ctx.case(('random-ctors', n, _), True)
    # constructors hand out fresh objects: changing one in place must not affect the next one built
    for _ in range(ctx.budget(40, 400)):
        n = rng.choice([1, 2, 3, 4])
        for name, mk in (('zero_state', lambda: pc.zero_state(n)), ('one_state', lambda: pc.one_state(n)), ('maximally_mixed_state', lambda: pc.maximally_mixed_state(n)),
                         ('identity_map', lambda: pc.identity_map(n)), ('ghz_state', (lambda: pc.ghz_state(n)) if n >= 2 else None)):
            if mk is None:
                continue
            a = mk()
            va = (impl.ops_of(a), int(getattr(a, 'r', 0)))
            a.rotate_by(impl.pauli(G.rand_herm(rng, n, nonid=True)))
            a.transform_by(impl.cmap(G.rand_map_ops(rng, n)))
            if hasattr(a, 'measure'):
                R.seed_numba(rng.randrange(1 << 30))
                a.measure(impl.plist([G.rand_herm(rng, n, nonid=True)], n))
            b = mk()
            if (impl.ops_of(b), int(getattr(b, 'r', 0))) != va:
                ctx.fail(name, 'constructor result depends on what was done in place to an earlier result', dict(N=n, first=va, second=(impl.ops_of(b), int(getattr(b, 'r', 0)))))
            ctx.case(('fresh', name, n, _), True)
    # stabilizer_state
    for _ in range(ctx.budget(250, 3000)):
        n = rng.choice([1, 2, 3, 4, 5, 6])
        rows, _r = G.rand_tableau(rng, n, 0)
        L = rng.randrange(1, n + 1)
        # independent commuting signed list: products of distinct subsets chosen to stay independent
        base = rows[:n]
        sel = rng.sample(range(n), L)
        stabs = []
        for i in sel:
            e = base[i]
            for j in range(n):
                if j not in sel and False:
                    pass
            stabs.append(e)
        # mix them by an invertible GF(2) combination (keeps independence)
        for _k in range(2 * L):
            i, j = rng.randrange(L), rng.randrange(L)
            if i != j:
                stabs[i] = O.omul(stabs[i], stabs[j])
        stabs = [(s[0], (s[1] + rng.choice((0, 2))) % 4) for s in stabs]
        fmt = rng.choice(['list', 'strings', 'codes'])
        try:
            if fmt == 'list':
                st = pc.stabilizer_state(impl.plist(stabs, n))
            elif fmt == 'strings':
                st = pc.stabilizer_state(*[('-' if s[1] == 2 else '') + ''.join(s[0]) for s in stabs])
            else:
                st = pc.stabilizer_state([[LET2CODE[c] for c in s[0]] + [5 if s[1] == 2 else 4] for s in stabs])
        except Exception as e:
            ctx.fail('stabilizer_state', 'implementation raised %r' % e, dict(N=n, stabs=stabs, fmt=fmt)); continue
        srows, sr = impl.ops_of(st), int(st.r)
        ctx.count('fmt=' + fmt); ctx.count('L=%d/N=%d' % (L, n))
        ctx.case(('stabilizer_state', tuple(stabs)), True, sample=dict(op='stabilizer_state', N=n, L=L, stabs=stabs, fmt=fmt))

        def dec(s, n=n):
            if not s.startswith('ok '):
                return s
            _, r_, t_ = s.split(' ')
            rw = H.drows_ops(t_)
            return (int(r_), O.canon_group(rw[int(r_):n])[0])
        ctx.q('stabstate', 'stabstate %d %s' % (n, H.erows_ops(stabs)), (sr, O.canon_group(srows[sr:n])[0]), dec, info=dict(raw=H.erows_ops(srows)))
        inv = O.tableau_invariant(srows, n, sr)
        if inv or sr != n - L or O.canon_group(srows[sr:n])[0] != O.canon_group(stabs)[0]:
            ctx.fail('stabilizer_state', 'state is not the normalised projector onto the joint +1 eigenspace (%s)' % inv,
                     dict(N=n, stabs=stabs, rows=srows, r=sr))
        elif n <= 4 and rng.random() < 0.3:
            d = 2 ** n
            proj = np.eye(d, dtype=complex)
            for s in stabs:
                proj = proj @ (np.eye(d) + O.dense(s)) / 2
            rho = proj / np.trace(proj)
            if not np.allclose(rho, O.dense_state(srows[sr:n], n)):
                ctx.fail('stabilizer_state', 'dense projector product differs', dict(N=n, stabs=stabs))
            try:
                q = np.asarray(st.to_qutip().full())
                if not np.allclose(q, rho):
                    ctx.fail('StabilizerState.to_qutip', 'dense export differs from the normalised projector product', dict(N=n, stabs=stabs))
            except Exception as e:
                ctx.fail('StabilizerState.to_qutip', 'implementation raised %r' % e, dict(N=n, stabs=stabs))
            ctx.count('dense')
    # anticommuting input rejected
    for _ in range(ctx.budget(40, 300)):
        n = rng.choice([1, 2, 3, 4])
        a = G.rand_herm(rng, n, nonid=True)
        while True:
            b = G.rand_herm(rng, n, nonid=True)
            if O.anticommute(a, b):
                break
        lst = [a, b] + [G.rand_herm(rng, n) for _ in range(rng.randrange(0, 2))]
        rng.shuffle(lst)
        try:
            pc.stabilizer_state(impl.plist(lst, n)); got = 'no error'
        except ValueError:
            got = 'err ValueError'
        except Exception as e:
            got = impl.errname(e)
        ctx.q('stabstate', 'stabstate %d %s' % (n, H.erows_ops(lst)), got)
        ctx.case(('anti', tuple(lst)), True)
        if got != 'err ValueError':
            ctx.fail('stabilizer_state', 'anticommuting stabilizers not rejected with ValueError (%s)' % got, dict(stabs=lst))
    # dependent commuting lists (two or more stabilizers) rejected
    for _ in range(ctx.budget(60, 500)):
        n = rng.choice([2, 3, 4, 5])
        rows, _r = G.rand_tableau(rng, n, 0)
        L0 = rng.randrange(1, n + 1)
        sel = [rows[i] for i in rng.sample(range(n), L0)]
        # a product of a non-empty selection (or a repeated element, or the identity) is appended: the list becomes dependent
        kind = rng.choice(['product', 'product', 'repeat', 'identity'])
        if kind == 'product':
            sub = [x for x in sel if rng.random() < 0.6] or [sel[0]]
            extra = O.oprod(sub, n)
        elif kind == 'repeat':
            extra = rng.choice(sel)
        else:
            extra = (tuple('I' * n), 0)
        extra = (extra[0], rng.choice((0, 2)) if extra[1] % 2 == 0 else 0)
        lst = list(sel)
        lst.insert(rng.randrange(len(lst) + 1), extra)
        try:
            pc.stabilizer_state(impl.plist(lst, n)); got = 'no error'
        except ValueError:
            got = 'err ValueError'
        except Exception as e:
            got = impl.errname(e)
        ctx.q('stabstate', 'stabstate %d %s' % (n, H.erows_ops(lst)), got)
        ctx.count('dependent:' + kind)
        ctx.case(('dependent', tuple(lst)), True, sample=dict(op='stabilizer_state', N=n, stabs=lst, kind='dependent'))
        if got != 'err ValueError':
            ctx.fail('stabilizer_state', 'dependent stabilizers not rejected with ValueError (%s)' % got, dict(stabs=lst))
    # anticommuting pair hidden among commuting neighbours: every list-adjacent pair commutes, two non-adjacent entries anticommute
    for _ in range(ctx.budget(60, 500)):
        n = rng.choice([2, 3, 4, 5])
        rows, _r = G.rand_tableau(rng, n, 0)
        stab, destab = rows[:n], rows[n:]
        k = rng.randrange(n)
        others = [i for i in range(n) if i != k]
        rng.shuffle(others)
        # stab[k] anticommutes with destab[k] only; the entries between them are stabilizers other than k (commute with both)
        between = [stab[i] for i in others[:rng.randrange(1, len(others) + 1)]] if others else []
        if not between:
            continue
        lst = [stab[k]] + between + [destab[k]]
        if rng.random() < 0.5:
            lst.reverse()
        lst = [(x[0], rng.choice((0, 2))) for x in lst]
        try:
            pc.stabilizer_state(impl.plist(lst, n)); got = 'no error'
        except ValueError:
            got = 'err ValueError'
        except Exception as e:
            got = impl.errname(e)
        ctx.q('stabstate', 'stabstate %d %s' % (n, H.erows_ops(lst)), got)
        ctx.case(('anti-nonadjacent', tuple(lst)), True, sample=dict(op='stabilizer_state', N=n, stabs=lst, kind='non-adjacent anticommuting pair'))
        ctx.count('anti-nonadjacent')
        if got != 'err ValueError':
            ctx.fail('stabilizer_state', 'a list with a non-adjacent anticommuting pair is not rejected with ValueError (%s)' % got, dict(stabs=lst))
    # dense export through the expansion over the stabilizer group (density_matrix), small and with nine or more generators
    small = [(rng.choice([1, 2, 3, 4]), None) for _ in range(ctx.budget(25, 300))]
    for n, r in [(rng.choice([1, 2, 3]), 0), (rng.choice([2, 3, 4]), 1), (9, 0), (10, 1)][:ctx.budget(3, 4)] + small:
        rows, r = G.rand_tableau(rng, n, r)
        st = impl.state(rows, r)
        try:
            dm = st.density_matrix
            terms = sorted((O.from_gp(g, p), round(float(np.real(c)) * 2 ** n, 9)) for g, p, c in zip(dm.gs, dm.ps, dm.cs))
        except Exception as e:
            ctx.fail('StabilizerState.density_matrix', 'implementation raised %r' % e, dict(N=n, r=r)); continue
        # the polynomial as returned (order, phases, weights) against the model's densityPoly (C12_density_*: Hermitian, trace
        # one, rho.rho = 2^-r rho); then the property itself on the implementation: rho.rho = 2^-r rho through the library's own @
        ctx.q('density_matrix', 'densitypoly %d %s' % (r, H.erows_ops(rows)), [(O.from_gp(g, p), complex(c)) for g, p, c in zip(dm.gs, dm.ps, dm.cs)],
              lambda s_: [(O.from_gp(g, p), complex(float(c[0]), float(c[1]))) for g, p, c in E.dpoly(s_)])
        if n - r <= 5:
            try:
                sq = (dm @ dm).reduce()
                a_ = {O.from_gp(g, p)[0]: complex(c) * 1j ** int(p) for g, p, c in zip(sq.gs, sq.ps, sq.cs)}
                b_ = {O.from_gp(g, p)[0]: complex(c) * 1j ** int(p) * 2.0 ** (-r) for g, p, c in zip(dm.gs, dm.ps, dm.cs)}
                if set(a_) != set(b_) or any(abs(a_[k] - b_[k]) > 1e-12 for k in a_):
                    ctx.fail('StabilizerState.density_matrix', 'rho @ rho is not 2^-r rho: the expansion does not denote a density matrix of rank 2^r', dict(N=n, r=r, rows=rows))
                if abs(complex(dm.trace()) - 1) > 1e-12:
                    ctx.fail('StabilizerState.density_matrix', 'trace of the expansion is not 1 (%s)' % dm.trace(), dict(N=n, r=r, rows=rows))
            except Exception as e:
                ctx.fail('StabilizerState.density_matrix', 'implementation raised %r in rho @ rho' % e, dict(N=n, r=r, rows=rows))
        want = sorted((o_, 1.0) for o_ in O.group_elements(rows[r:n], n))
        ctx.case(('density-export', n, r, tuple(rows)), n - r >= 2, sample=dict(op='density_matrix', N=n, r=r, terms=len(terms)))
        ctx.count('density-export:%d-generators' % (n - r))
        if terms != want:
            ctx.fail('StabilizerState.density_matrix', 'the expansion is not every group element exactly once with weight 2^-N (%d terms, %d group elements)' % (len(terms), len(want)),
                     dict(N=n, r=r, rows=rows))
