"""C02 rotation = conjugation by exp(i pi/4 G): kernel, PauliList/Pauli/polynomial/state/map methods, masks."""
import itertools
import numpy as np
import oracle as O
import gen as G
import enc as E
import hutil as H

RULE = ('(generator, operand) pairs: exhaustive for N<=2 over all Hermitian generators (both signs) and all operands '
        '(all 4 phases); random N<=8; all masks for N<=4 with a generator of matching size; method-level calls on '
        'Pauli, PauliList, PauliPolynomial, StabilizerState and clifford_rotation_map; sequences G, -G and four-fold. '
        'non-trivial = generator and operand anticommute; distinct = distinct (generator, mask, operand).')
ASSUMPTIONS = ['exp(i pi/4 G) = (1 + iG)/sqrt(2) for G^2 = 1 (textbook)']


def _dense_conj(Gop, P):
    d = 2 ** len(P[0])
    g = O.dense(Gop)
    return (np.eye(d) - 1j * g) @ O.dense(P) @ (np.eye(d) + 1j * g) / 2


def run(ctx):
    import impl
    U, pc = impl.U, impl.pc
    rng = ctx.rng

    def one(Gop, Ps, idx=None, n=None):
        """rotate the list Ps by Gop (on qubits idx if given); compares kernel/method, model, oracle"""
        n = len(Ps[0][0])
        lst = impl.plist(Ps)
        gen = impl.pauli(Gop)
        if idx is None:
            try:
                lst.rotate_by(gen)
            except Exception as e:
                ctx.fail('PauliList.rotate_by', 'implementation raised %r' % e, dict(G=Gop, Ps=Ps))
                return
            line = 'rotate %s %s' % (E.epauli(O.to_g(Gop[0]), Gop[1]), H.erows_ops(Ps))
            want = [G.rotate_op(Gop, P) for P in Ps]
        else:
            m = [i in idx for i in range(n)]
            try:
                lst.rotate_by(gen, np.array(m))
            except Exception as e:
                ctx.fail('PauliList.rotate_by(mask)', 'implementation raised %r' % e, dict(G=Gop, Ps=Ps, idx=idx))
                return
            line = 'rotatemasked %s %s %s' % (E.epauli(O.to_g(Gop[0]), Gop[1]), E.ebits(m), H.erows_ops(Ps))
            want = [H.rotate_masked(Gop, idx, P) for P in Ps]
        got = impl.ops_of(lst)
        rawp = [int(v) for v in np.asarray(lst.ps)]
        if any(v < 0 or v > 3 for v in rawp):
            ctx.fail('PauliList.rotate_by' + ('(mask)' if idx else ''), 'phase indicators leave {0,1,2,3} (%s): printing, tokenizing and the overlap kernels read them without reduction' % rawp,
                     dict(G=Gop, idx=idx, Ps=Ps, raw_ps=rawp))
        ctx.q('rotate' if idx is None else 'rotatemasked', line, got, H.drows_ops)
        for P, g_, w_ in zip(Ps, got, want):
            anti = g_ != P
            ctx.case((Gop, tuple(idx) if idx else None, P), anti,
                     sample=dict(op='rotate_by', G=Gop, mask=idx, P=P, result=g_))
            if g_ != w_:
                ctx.fail('PauliList.rotate_by' + ('(mask)' if idx else ''), 'result is not U^dagger P U',
                         dict(G=Gop, idx=idx, P=P, got=g_, want=w_))
        return got

    # exhaustive N = 1, 2
    for n in (1, 2):
        strs = list(itertools.product('IXYZ', repeat=n))
        allP = [(s, p) for s in strs for p in range(4)]
        for gs_ in strs:
            for sg in (0, 2):
                one((gs_, sg), allP)
        ctx.count('exhaustive-N=%d' % n)
    # random, dense check for small N
    for _ in range(ctx.budget(250, 3000)):
        n = rng.choice([2, 3, 4, 5, 6, 8])
        Gop = G.rand_herm(rng, n)
        Ps = [G.rand_op(rng, n) for _ in range(rng.randrange(1, 6))]
        got = one(Gop, Ps)
        ctx.count('N=%d' % n)
        if got and n <= 4 and rng.random() < 0.4:
            for P, g_ in zip(Ps, got):
                if not np.allclose(O.dense(g_), _dense_conj(Gop, P)):
                    ctx.fail('PauliList.rotate_by', 'dense (1-iG)P(1+iG)/2 differs', dict(G=Gop, P=P, got=g_))
            ctx.count('dense')
    # masks: all masks N<=4, random beyond
    for n in (2, 3, 4):
        for k in range(1, n + 1):
            for idx in itertools.combinations(range(n), k):
                for _ in range(ctx.budget(2, 12)):
                    Gop = G.rand_herm(rng, k)
                    Ps = [G.rand_op(rng, n) for _ in range(4)]
                    one(Gop, Ps, list(idx))
                    ctx.count('mask-N=%d-k=%d' % (n, k))
    for _ in range(ctx.budget(60, 800)):
        n = rng.choice([5, 6, 8])
        m, idx = G.rand_mask(rng, n)
        one(G.rand_herm(rng, len(idx)), [G.rand_op(rng, n) for _ in range(3)], idx)
    # sequences: -G undoes G, four rotations restore, on the implementation
    for _ in range(ctx.budget(100, 1000)):
        n = rng.choice([1, 2, 3, 5])
        Gop = G.rand_herm(rng, n)
        Ps = [G.rand_op(rng, n) for _ in range(4)]
        lst = impl.plist(Ps)
        lst.rotate_by(impl.pauli(Gop)).rotate_by(-impl.pauli(Gop))
        if impl.ops_of(lst) != Ps:
            ctx.fail('PauliList.rotate_by', 'rotating by -G does not undo rotating by G', dict(G=Gop, Ps=Ps, got=impl.ops_of(lst)))
        lst = impl.plist(Ps)
        for _k in range(4):
            lst.rotate_by(impl.pauli(Gop))
        if impl.ops_of(lst) != Ps:
            ctx.fail('PauliList.rotate_by', 'four rotations do not restore the input', dict(G=Gop, Ps=Ps, got=impl.ops_of(lst)))
        rawp = [int(v) for v in np.asarray(lst.ps)]
        if rawp != [P[1] for P in Ps]:
            ctx.fail('PauliList.rotate_by', 'four rotations restore the operators but not their phase indicators (%s instead of %s): the result no longer prints / tokenizes / compares as the input'
                     % (rawp, [P[1] for P in Ps]), dict(G=Gop, Ps=Ps, raw_ps=rawp))
        else:
            try:
                back = impl.ops_of(pc.paulis(*[ln.strip() for ln in repr(lst).splitlines()])) if len(Ps) > 1 else None
                if back is not None and back != Ps:
                    ctx.fail('PauliList.rotate_by', 'after four rotations the printed list parses to different operators', dict(G=Gop, Ps=Ps, got=back))
            except Exception as e:
                ctx.fail('PauliList.rotate_by', 'after four rotations the list cannot be printed and parsed back (%r)' % e, dict(G=Gop, Ps=Ps))
        # a pure state rotated twice (signs 2 -> 0 -> ...) still overlaps with itself
        rows_, _r = G.rand_tableau(rng, n, 0)
        st_ = impl.state(rows_, 0)
        st_.rotate_by(impl.pauli(Gop)).rotate_by(impl.pauli(Gop))
        try:
            ov = float(st_.expect(st_.copy()))
            if abs(ov - 1.0) > 1e-9:
                ctx.fail('StabilizerState.rotate_by', 'a pure state rotated twice has overlap %s with its own copy (phase indicators %s)' % (ov, [int(v) for v in st_.ps]), dict(G=Gop, rows=rows_))
        except Exception as e:
            ctx.fail('StabilizerState.rotate_by', 'overlap of a twice-rotated pure state with its copy raised %r' % e, dict(G=Gop, rows=rows_))
        ctx.case(('seq', Gop, tuple(Ps)), True)
    # objects whose tables are views: strided and reversed slices, Fortran order, the transposed view returned by inverse()
    for _ in range(ctx.budget(120, 1200)):
        n = rng.choice([1, 2, 3, 4])
        Gop = G.rand_herm(rng, n, nonid=True)
        Ps = [G.rand_op(rng, n) for _ in range(rng.randrange(2, 7))]
        kind = rng.choice(['step2', 'reversed', 'fortran', 'map-inverse', 'map-rows', 'state-rows', 'mask-view'])
        try:
            if kind == 'step2':
                obj = impl.plist(Ps)[::2]; vals = Ps[::2]
            elif kind == 'reversed':
                obj = impl.plist(Ps)[::-1]; vals = Ps[::-1]
            elif kind == 'fortran':
                base = impl.plist(Ps)
                obj = pc.PauliList(np.asfortranarray(base.gs), base.ps.copy()); vals = Ps
            elif kind == 'map-inverse':
                M = G.rand_map_ops(rng, n)
                obj = impl.cmap(M).inverse(); vals = impl.ops_of(obj)
            elif kind == 'map-rows':
                M = G.rand_map_ops(rng, n)
                obj = impl.cmap(M)[::2]; vals = [(x[0], x[1] % 4) for x in M[::2]]
            elif kind == 'state-rows':
                rows, r = G.rand_tableau(rng, n)
                obj = impl.state(rows, r).stabilizers; vals = [(x[0], x[1] % 4) for x in rows[r:n]]
            else:
                obj = impl.plist(Ps)[np.array([i % 2 == 0 for i in range(len(Ps))])]; vals = Ps[::2]
            obj.rotate_by(impl.pauli(Gop))
            got = impl.ops_of(obj)
        except Exception as e:
            ctx.fail('PauliList.rotate_by', 'implementation raised %r on a %s view' % (e, kind), dict(G=Gop, Ps=Ps, kind=kind)); continue
        ctx.count('view:' + kind)
        want = [G.rotate_op(Gop, P) for P in vals]
        ctx.case(('view', kind, Gop, tuple(vals)), any(O.anticommute(Gop, P) for P in vals), sample=dict(op='rotate_by on a ' + kind + ' view', G=Gop))
        if got != want:
            ctx.fail('PauliList.rotate_by', 'rotating a list whose table is a %s view does not give U^dagger P U for every entry' % kind,
                     dict(G=Gop, vals=vals, kind=kind, got=got, want=want))
    # kernel called directly (in place on arrays), Pauli, polynomial, state, rotation map
    for _ in range(ctx.budget(80, 800)):
        n = rng.choice([1, 2, 3, 4, 6])
        Gop = G.rand_herm(rng, n)
        P = G.rand_op(rng, n)
        want = G.rotate_op(Gop, P)
        gs = np.array([O.to_g(P[0])], dtype=np.int_)
        ps = np.array([P[1]], dtype=np.int_)
        U.clifford_rotate(impl.garr(Gop[0]), Gop[1], gs, ps)
        if O.from_gp(gs[0], ps[0]) != want:
            ctx.fail('clifford_rotate', 'kernel result is not U^dagger P U', dict(G=Gop, P=P, got=O.from_gp(gs[0], ps[0]), want=want))
        sl = U.clifford_rotate_signless(impl.garr(Gop[0]), np.array([O.to_g(P[0])], dtype=np.int_))
        ctx.q('rotsignless', 'rotsignless %s %s' % (E.estr(O.to_g(Gop[0])), E.estrs([O.to_g(P[0])])), [[int(v) for v in sl[0]]], E.dstrs)
        if O.from_gp(sl[0], 0)[0] != want[0]:
            ctx.fail('clifford_rotate_signless', 'string differs from the rotated string', dict(G=Gop, P=P))
        pa = impl.pauli(P).rotate_by(impl.pauli(Gop))
        if impl.ops_of(pa) != want:
            ctx.fail('Pauli.rotate_by', 'result is not U^dagger P U', dict(G=Gop, P=P, got=impl.ops_of(pa), want=want))
        # polynomial: coefficients untouched
        terms = [(G.rand_op(rng, n), complex(rng.choice([1, -2, 0.5]), rng.choice([0, 1, -0.25]))) for _ in range(3)]
        try:
            po = impl.poly(terms).rotate_by(impl.pauli(Gop))
            gotp = [(O.from_gp(g, p), complex(c)) for g, p, c in zip(po.gs, po.ps, po.cs)]
            wantp = [(G.rotate_op(Gop, t[0]), t[1]) for t in terms]
            if gotp != wantp:
                ctx.fail('PauliPolynomial.rotate_by', 'terms not rotated one by one with coefficients untouched', dict(G=Gop, terms=terms, got=gotp))
        except Exception as e:
            ctx.fail('PauliPolynomial.rotate_by', 'implementation raised %r' % e, dict(G=Gop, terms=terms))
        # state: every tableau row rotated, r kept
        rows, r = G.rand_tableau(rng, n)
        st = impl.state(rows, r).rotate_by(impl.pauli(Gop))
        if impl.ops_of(st) != [G.rotate_op(Gop, R) for R in rows] or st.r != r:
            ctx.fail('StabilizerState.rotate_by', 'tableau rows not rotated row by row', dict(G=Gop, rows=rows, r=r, got=impl.ops_of(st)))
        # rotation map
        mp = pc.clifford_rotation_map(impl.pauli(Gop))
        gotm = impl.ops_of(mp)
        ctx.q('rotationmap', 'rotationmap %s' % E.epauli(O.to_g(Gop[0]), Gop[1]), gotm, H.drows_ops)
        if gotm != [G.rotate_op(Gop, R) for R in G.id_map_ops(n)]:
            ctx.fail('clifford_rotation_map', 'rows are not the rotated generators', dict(G=Gop, got=gotm))
        ctx.case(('methods', Gop, P), O.anticommute(Gop, P))
    # rotations reached through gates: clifford_rotation_gate(G) and CliffordGate.set_generator, forward = rotation by G on the
    # gate's qubits, backward = rotation by -G; gates covering the whole register of the object and gates on a strict subset
    for _ in range(ctx.budget(120, 1500)):
        n = rng.choice([1, 1, 2, 2, 3, 4, 5])
        whole = rng.random() < 0.5
        if whole:
            full = (tuple(rng.choice('XYZ') for _ in range(n)), rng.choice([0, 2]))
        else:
            full = G.rand_herm(rng, n, nonid=True)
        idx = [i for i, c in enumerate(full[0]) if c != 'I']
        cond = (tuple(full[0][i] for i in idx), full[1])
        how = rng.choice(['clifford_rotation_gate', 'set_generator'])
        if how == 'clifford_rotation_gate':
            gate = pc.clifford_rotation_gate(impl.pauli(full))
        else:
            gate = impl.CI.CliffordGate(*idx)
            gate.set_generator(impl.pauli(cond))
        Ps = [G.rand_op(rng, n) for _ in range(4)]
        rows, r = G.rand_tableau(rng, n)
        minus = (full[0], (full[1] + 2) % 4)
        ctx.case(('gate', how, full, tuple(Ps)), any(O.anticommute(full, P) for P in Ps),
                 sample=dict(op='rotation gate', built=how, G=full, whole_register=len(idx) == n))
        ctx.count('gate:%s:%s' % (how, 'whole' if len(idx) == n else 'part'))
        try:
            for direction, gen in (('forward', full), ('backward', minus)):
                fn = getattr(gate, direction)
                got = impl.ops_of(fn(impl.plist(Ps)))
                want = [G.rotate_op(gen, P) for P in Ps]
                if got != want:
                    ctx.fail('CliffordGate.' + direction, 'a rotation gate run %s does not rotate a list by %sG' % (direction, '' if direction == 'forward' else '-'),
                             dict(G=full, built=how, qubits=idx, Ps=Ps, got=got, want=want))
                got1 = impl.ops_of(fn(impl.pauli(Ps[0])))
                if got1 != want[0]:
                    ctx.fail('CliffordGate.' + direction, 'a rotation gate run %s does not rotate a Pauli operator by %sG' % (direction, '' if direction == 'forward' else '-'),
                             dict(G=full, built=how, qubits=idx, P=Ps[0], got=got1, want=want[0]))
                st = fn(impl.state(rows, r))
                if impl.ops_of(st) != [G.rotate_op(gen, R) for R in rows] or st.r != r:
                    ctx.fail('CliffordGate.' + direction, 'a rotation gate run %s does not rotate the tableau rows of a state by %sG' % (direction, '' if direction == 'forward' else '-'),
                             dict(G=full, built=how, qubits=idx, rows=rows, r=r, got=impl.ops_of(st)))
            back = impl.ops_of(gate.backward(gate.forward(impl.plist(Ps))))
            if back != Ps:
                ctx.fail('CliffordGate.backward', 'backward (rotation by -G) does not undo forward (rotation by G)', dict(G=full, built=how, qubits=idx, Ps=Ps, got=back))
        except Exception as e:
            ctx.fail('CliffordGate', 'implementation raised %r' % e, dict(G=full, built=how, qubits=idx))
