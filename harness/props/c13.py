"""C13 torchclifford computes the same results as pyclifford (port equivalence), and both agree with the Lean model."""
import itertools
import numpy as np
import oracle as O
import gen as G
import enc as E
import hutil as H
import circ_util as CU

RULE = ('every shared deterministic function (kernels and class layer) on the same generated inputs for both packages: parsing, '
        'products, rotations, map transforms, compose/inverse, state/map conversion, projection, expectation, entropy, polynomial '
        'algebra, gate/layer/circuit application, diagonalisation kernels; N<=6, all phases, ranks and masks. Strings, phases, ranks '
        'and integers are compared exactly, complex64 coefficients with absolute tolerance 1e-5. non-trivial = non-identity inputs; '
        'distinct = distinct (function, input).')
ASSUMPTIONS = ['float32 holds the small integers of strings/phases exactly; torch evaluates 1j**ps through floating exp (noise <= 1e-7)',
               'functions with no torch counterpart (named gates, Circuit, MeasureLayer, postselect, PauliMonomial, SBRG) are outside the property']


def run(ctx, only=None):
    """only = None: the whole port-equivalence check (C13). only = set of probe names: the torch mirror of another property's check
    (harness/tmirror.py): the same generated inputs, only the named shared functions are compared, failures are reported for ctx.prop."""
    import impl
    import torch
    import torchclifford as tc
    import torchclifford.utils as TU
    import torchclifford.circuit as TCI
    import torchclifford.paulialg as TPA
    import torchclifford.stabilizer as TST
    assert tc.__file__.startswith(impl.common.REPO)
    U, pc, CI = impl.U, impl.pc, impl.CI
    rng = ctx.rng
    F = torch.float32

    def tg(letters):
        return torch.tensor(O.to_g(letters), dtype=F)

    def tpauli(op):
        return TPA.Pauli(tg(op[0]), op[1])

    def tlist(ops, n):
        if not ops:
            return TPA.PauliList(torch.zeros((0, 2 * n), dtype=F), torch.zeros(0, dtype=F))
        return TPA.PauliList(torch.tensor([O.to_g(o[0]) for o in ops], dtype=F), torch.tensor([o[1] for o in ops], dtype=F))

    def tmap(rows):
        return TST.CliffordMap(torch.tensor([O.to_g(o[0]) for o in rows], dtype=F), torch.tensor([o[1] for o in rows], dtype=F))

    def tstate(rows, r):
        return TST.StabilizerState(torch.tensor([O.to_g(o[0]) for o in rows], dtype=F), ps=torch.tensor([o[1] for o in rows], dtype=F)).set_r(r)

    def tpoly(terms):
        p = TPA.PauliPolynomial(torch.tensor([O.to_g(t[0][0]) for t in terms], dtype=F), torch.tensor([t[0][1] for t in terms], dtype=F))
        return p.set_cs(torch.tensor([t[1] for t in terms], dtype=torch.complex64))

    def ival(x):
        return int(round(float(x)))

    def t_ops(obj):
        if hasattr(obj, 'gs'):
            return [O.from_gp([ival(v) for v in g], ival(p)) for g, p in zip(obj.gs.tolist(), obj.ps.tolist())]
        return O.from_gp([ival(v) for v in obj.g.tolist()], ival(obj.p))

    def cmap_of(gs, ps, cs):
        out = {}
        for g, p, c in zip(gs, ps, cs):
            l, k = O.from_gp([ival(v) for v in g], ival(p))
            out[l] = out.get(l, 0) + complex(c) * (1j ** k)
        return out

    def close_maps(a, b, tol=1e-5):
        keys = set(a) | set(b)
        return all(abs(a.get(k, 0) - b.get(k, 0)) <= tol for k in keys)

    def probe(name, f_py, f_t, inp, cmp=None, when_pred=None):
        """run both; report a failure when the results differ"""
        if only is not None and name not in only:
            return None, None
        ctx.count(('torch-mirror:' if only is not None else 'fn:') + name)
        try:
            a = f_py()
        except Exception as e:
            a = impl.errname(e)
        try:
            b = f_t()
        except Exception as e:
            b = impl.errname(e)
        same = (cmp(a, b) if (cmp and not isinstance(a, str) and not isinstance(b, str)) else a == b)
        ctx.case((name, str(inp)[:300]), True, sample=dict(op=name, input=str(inp)[:200], py=str(a)[:120], torch=str(b)[:120]))
        if not same:
            when = when_pred(a, b) if when_pred else ''
            ctx.fail('torch.' + name, 'torchclifford returns %s, pyclifford returns %s' % (str(b)[:200], str(a)[:200]), dict(fn=name, input=str(inp)[:1500]), when=when or '')
        return a, b

    for it in range(ctx.budget(120, 1500) if only is None else (40 if ctx.tier == 'quick' else 400)):
        n = rng.choice([1, 2, 2, 3, 3, 4, 5, 6])
        P, Q = G.rand_op(rng, n), G.rand_op(rng, n)
        Ps = [G.rand_op(rng, n) for _ in range(rng.randrange(1, 5))]
        Gop = G.rand_herm(rng, n, nonid=True)
        M, M2 = G.rand_map_ops(rng, n), G.rand_map_ops(rng, n)
        rows, r = G.rand_tableau(rng, n)
        m, idx = G.rand_mask(rng, n)
        Ms = G.rand_map_ops(rng, len(idx))
        Gs = G.rand_herm(rng, len(idx), nonid=True)
        gsP = np.array([O.to_g(o[0]) for o in Ps], dtype=np.int_)
        psP = np.array([o[1] for o in Ps], dtype=np.int_)
        tgsP, tpsP = torch.tensor(gsP, dtype=F), torch.tensor(psP, dtype=F)
        ga, gb = impl.garr(P[0]), impl.garr(Q[0])
        # ---- kernels
        probe('acq', lambda: int(U.acq(ga, gb)), lambda: ival(TU.acq(tg(P[0]), tg(Q[0]))), (P, Q))
        probe('ipow', lambda: int(U.ipow(ga, gb)), lambda: ival(TU.ipow(tg(P[0]), tg(Q[0]))), (P, Q))
        probe('ps0', lambda: [int(v) for v in U.ps0(gsP)], lambda: [ival(v) for v in TU.ps0(tgsP)], Ps)
        probe('acq_mat', lambda: U.acq_mat(gsP).tolist(), lambda: [[ival(v) for v in row] for row in TU.acq_mat(tgsP).tolist()], Ps)
        probe('acq_grid', lambda: U.acq_mat(gsP).tolist(), lambda: [[ival(v) for v in row] for row in TU.acq_grid(tgsP, tgsP).tolist()], Ps)
        probe('pauli_tokenize', lambda: U.pauli_tokenize(gsP, psP % 4).tolist(), lambda: [[ival(v) for v in row] for row in TU.pauli_tokenize(tgsP, tpsP % 4).tolist()], Ps)
        probe('ipow_product', lambda: [int(U.ipow(a, b)) for a in gsP for b in gsP],
              lambda: [ival(v) for v in TU.ipow_product(tgsP, tgsP).tolist()], Ps)
        C = np.array([[rng.randrange(2) for _ in range(2 * n)] for _ in range(2)], dtype=np.int_)
        gm = np.array([O.to_g(o[0]) for o in M], dtype=np.int_); pm = np.array([o[1] for o in M], dtype=np.int_)
        tgm, tpm = torch.tensor(gm, dtype=F), torch.tensor(pm, dtype=F)
        probe('pauli_combine', lambda: [O.from_gp(g, p) for g, p in zip(*U.pauli_combine(C, gm, pm))],
              lambda: [O.from_gp([ival(v) for v in g], ival(p)) for g, p in zip(*[x.tolist() for x in TU.pauli_combine(torch.tensor(C, dtype=F), tgm, tpm)])], (C.tolist(), M))
        probe('pauli_transform', lambda: [O.from_gp(g, p) for g, p in zip(*U.pauli_transform(gsP, psP, gm, pm))],
              lambda: [O.from_gp([ival(v) for v in g], ival(p)) for g, p in zip(*[x.tolist() for x in TU.pauli_transform(tgsP, tpsP, tgm, tpm)])], (Ps, M))
        probe('clifford_rotate', lambda: [O.from_gp(g, p) for g, p in zip(*U.clifford_rotate(impl.garr(Gop[0]), Gop[1], gsP.copy(), psP.copy()))],
              lambda: [O.from_gp([ival(v) for v in g], ival(p)) for g, p in zip(*[x.tolist() for x in TU.clifford_rotate(tg(Gop[0]), Gop[1], tgsP.clone(), tpsP.clone())])], (Gop, Ps))
        probe('clifford_rotate_signless', lambda: U.clifford_rotate_signless(impl.garr(Gop[0]), gsP.copy()).tolist(),
              lambda: [[ival(v) for v in row] for row in TU.clifford_rotate_signless(tg(Gop[0]), tgsP.clone()).tolist()], (Gop, Ps))
        nz = G.rand_op(rng, n, nonid=True)[0]
        i0 = rng.randrange(n)
        probe('front', lambda: int(U.front(impl.garr(nz))), lambda: ival(TU.front(tg(nz))), nz)
        probe('condense', lambda: (U.condense(impl.garr(nz))[0].tolist(), [int(q) for q in U.condense(impl.garr(nz))[1]]),
              lambda: ([ival(v) for v in TU.condense(tg(nz))[0].tolist()], [ival(q) for q in TU.condense(tg(nz))[1].tolist()]), nz)
        probe('pauli_is_onsite', lambda: bool(U.pauli_is_onsite(impl.garr(nz), i0)), lambda: bool(TU.pauli_is_onsite(tg(nz), i0)), (nz, i0))
        probe('pauli_diagonalize1', lambda: [[int(v) for v in x] for x in U.pauli_diagonalize1(impl.garr(nz), i0)],
              lambda: [[ival(v) for v in x.tolist()] for x in TU.pauli_diagonalize1(tg(nz), i0)], (nz, i0))
        while True:
            nz2 = G.rand_op(rng, n)[0]
            if O.anticommute((nz, 0), (nz2, 0)):
                break
        def d2py():
            a, b, c = U.pauli_diagonalize2(impl.garr(nz), impl.garr(nz2), i0)
            return ([[int(v) for v in x] for x in a], [int(v) for v in b], [int(v) for v in c])
        def d2t():
            a, b, c = TU.pauli_diagonalize2(tg(nz), tg(nz2), i0)
            return ([[ival(v) for v in x.tolist()] for x in a], [ival(v) for v in b.tolist()], [ival(v) for v in c.tolist()])
        probe('pauli_diagonalize2', d2py, d2t, (nz, nz2, i0))
        probe('map_to_state', lambda: [O.from_gp(g, p) for g, p in zip(*U.map_to_state(gm, pm))],
              lambda: [O.from_gp([ival(v) for v in g], ival(p)) for g, p in zip(*[x.tolist() for x in TU.map_to_state(tgm, tpm)])], M)
        probe('state_to_map', lambda: [O.from_gp(g, p) for g, p in zip(*U.state_to_map(gm, pm))],
              lambda: [O.from_gp([ival(v) for v in g], ival(p)) for g, p in zip(*[x.tolist() for x in TU.state_to_map(tgm, tpm)])], M)
        mr, mc = rng.choice([2, 3, 4]), rng.choice([2, 3, 4])
        mat = np.array([[rng.randrange(2) for _ in range(mc)] for _ in range(mr)], dtype=np.int_)
        probe('z2rank', lambda: int(U.z2rank(mat.copy())), lambda: ival(TU.z2rank(torch.tensor(mat, dtype=F))), mat.tolist(),
              when_pred=lambda a, b: 'real-rank-differs-from-gf2-rank' if (not isinstance(b, str) and np.linalg.matrix_rank(mat) == b and b != a) else '')
        grs, prs = G.rows_gp(rows)
        tgr, tpr = torch.tensor(grs, dtype=F), torch.tensor(prs, dtype=F)
        obs = [G.rand_observable(rng, rows, n, r)[0] for _ in range(3)]
        go, po = np.array([O.to_g(o[0]) for o in obs], dtype=np.int_), np.array([o[1] for o in obs], dtype=np.int_)
        probe('stabilizer_expect', lambda: [int(v) for v in U.stabilizer_expect(np.array(grs), np.array(prs), go, po, r)],
              lambda: [ival(v) for v in TU.stabilizer_expect(tgr, tpr, torch.tensor(go, dtype=F), torch.tensor(po, dtype=F), r).tolist()], (rows, r, obs))
        probe('vectorizable_stabilizer_expect', lambda: [int(v) for v in U.stabilizer_expect(np.array(grs), np.array(prs), go, po, r)],
              lambda: [ival(v) for v in TU.vectorizable_stabilizer_expect(tgr, tpr, torch.tensor(go, dtype=F), torch.tensor(po, dtype=F), r).tolist()], (rows, r, obs))
        cobs = [o[0] for o in G.commuting_list(rng, rows, n, r, 2)[0]]
        gco = np.array([O.to_g(x) for x in cobs], dtype=np.int_).reshape(len(cobs), 2 * n)
        def projpy():
            a, b = U.stabilizer_project(np.array(grs), gco, r)
            return (a.tolist(), int(b))
        def projt():
            a, b = TU.stabilizer_project(tgr.clone(), torch.tensor(gco, dtype=F), r)
            return ([[ival(v) for v in row] for row in a.tolist()], int(b))
        probe('stabilizer_project', projpy, projt, (rows, r, cobs))
        # ---- class layer
        s = rng.choice(['', '+', '-', 'i', '-i']) + ''.join(P[0])
        probe('pauli()', lambda: impl.ops_of(pc.pauli(s)), lambda: t_ops(tc.pauli(s)), s)
        probe('repr', lambda: repr(impl.pauli(P)), lambda: repr(tpauli(P)), P)
        probe('Pauli.__matmul__', lambda: impl.ops_of(impl.pauli(P) @ impl.pauli(Q)), lambda: t_ops(tpauli(P) @ tpauli(Q)), (P, Q))
        probe('PauliList.rotate_by', lambda: impl.ops_of(impl.plist(Ps).rotate_by(impl.pauli(Gop))), lambda: t_ops(tlist(Ps, n).rotate_by(tpauli(Gop))), (Gop, Ps))
        probe('PauliList.rotate_by(mask)', lambda: impl.ops_of(impl.plist(Ps).rotate_by(impl.pauli(Gs), np.array(m))),
              lambda: t_ops(tlist(Ps, n).rotate_by(tpauli(Gs), torch.tensor(m))), (Gs, m, Ps))
        probe('PauliList.transform_by', lambda: impl.ops_of(impl.plist(Ps).transform_by(impl.cmap(M))), lambda: t_ops(tlist(Ps, n).transform_by(tmap(M))), (M, Ps))
        probe('PauliList.transform_by(mask)', lambda: impl.ops_of(impl.plist(Ps).transform_by(impl.cmap(Ms), np.array(m))),
              lambda: t_ops(tlist(Ps, n).transform_by(tmap(Ms), torch.tensor(m))), (Ms, m, Ps))
        probe('clifford_rotation_map', lambda: impl.ops_of(pc.clifford_rotation_map(impl.pauli(Gop))), lambda: t_ops(tc.clifford_rotation_map(tpauli(Gop))), Gop)
        probe('CliffordMap.compose', lambda: impl.ops_of(impl.cmap(M).compose(impl.cmap(M2))), lambda: t_ops(tmap(M).compose(tmap(M2))), (M, M2))
        probe('CliffordMap.inverse', lambda: impl.ops_of(impl.cmap(M).inverse()), lambda: t_ops(tmap(M).inverse()), M)
        probe('CliffordMap.embed', lambda: impl.ops_of(pc.identity_map(n).embed(impl.cmap(Ms), np.array(m))), lambda: t_ops(tc.identity_map(n).embed(tmap(Ms), torch.tensor(m))), (Ms, m))
        probe('CliffordMap.to_state', lambda: (impl.ops_of(impl.cmap(M).to_state(r)), r), lambda: (t_ops(tmap(M).to_state(r)), int(tmap(M).to_state(r).r)), (M, r))
        probe('StabilizerState.to_map', lambda: impl.ops_of(impl.state(rows, r).to_map()), lambda: t_ops(tstate(rows, r).to_map()), rows)
        probe('StabilizerState.copy', lambda: (impl.ops_of(impl.state(rows, r).copy()), r), lambda: (t_ops(tstate(rows, r).copy()), int(tstate(rows, r).copy().r)), rows)
        probe('StabilizerState.expect(PauliList)', lambda: [int(v) for v in impl.state(rows, r).expect(impl.plist(obs, n))],
              lambda: [ival(v) for v in tstate(rows, r).expect(tlist(obs, n)).tolist()], (rows, r, obs))
        # overlap Tr(rho sigma) of a pure rho with a state sigma of any rank (deterministic: no coins are drawn)
        rows_p, _r0 = G.rand_tableau(rng, n, 0)
        rows_s, r_s = (rows, r) if rng.random() < 0.6 else (rows_p, rng.randrange(n + 1))

        def overlap_explained(a_, b_):
            # the recorded divergence of the torch projection-trace kernel lives in its determined branch (an observable that is
            # already, up to sign, a stabilizer): is that branch taken at all in this chain?
            cur = list(rows_p[0:n])
            for s_ in rows_s[r_s:n]:
                k_, d_, new_ = O.measure_spec(cur, n, s_, random_out=0)
                if k_ == 'determined':
                    return 'determined-branch-in-torch-projection-trace'
                cur = new_
            return ''
        probe('StabilizerState.expect(StabilizerState)', lambda: float(impl.state(rows_p, 0).expect(impl.state(rows_s, r_s))),
              lambda: float(tstate(rows_p, 0).expect(tstate(rows_s, r_s))), (rows_p, rows_s, r_s), cmp=lambda a_, b_: abs(a_ - b_) < 1e-6,
              when_pred=overlap_explained)
        terms = [((o[0], (o[1] + rng.randrange(4)) % 4), complex(rng.choice([1, -1, 2, 0.5]), rng.choice([0, 1, -0.5]))) for o in obs]
        probe('StabilizerState.expect(PauliPolynomial)', lambda: complex(impl.state(rows, r).expect(impl.poly(terms))),
              lambda: complex(tstate(rows, r).expect(tpoly(terms))), (rows, r, terms), cmp=lambda a, b: abs(a - b) < 1e-5)
        reg = sorted(rng.sample(range(n), rng.randrange(1, n + 1)))
        def entropy_real_rank():
            # the (repaired) entropy algorithm with the real matrix rank in place of the GF(2) rank: what torch's z2rank computes
            act = rows[r:n]
            L = len(act)
            rk = lambda mm: int(np.linalg.matrix_rank(np.array(mm, dtype=float))) if len(mm) and len(mm[0]) else 0
            sub = lambda o, keep: [b for i in range(n) if (i in reg) == keep for b in O.to_g(o[0])[2 * i:2 * i + 2]]
            if L == n:
                across = [o for o in act if any(sub(o, True)) and any(sub(o, False))]
                am = [[int(O.anticommute((tuple(x[0][i] for i in reg), 0), (tuple(y[0][i] for i in reg), 0))) for y in across] for x in across]
                return rk(am) // 2
            return len(reg) - (L - rk([sub(o, False) for o in act]))
        probe('StabilizerState.entropy', lambda: int(impl.state(rows, r).entropy(reg)), lambda: ival(tstate(rows, r).entropy(reg)), (rows, r, reg),
              when_pred=lambda a, b: 'explained-by-real-rank-in-torch-z2rank' if (not isinstance(b, str) and not isinstance(a, str) and a == _entropy_gf2(rows, r, n, reg) and b == entropy_real_rank()) else '')
        indep = rows[:n][:rng.randrange(1, n + 1)]
        probe('stabilizer_state', lambda: (lambda st: (int(st.r), O.canon_group(impl.ops_of(st)[int(st.r):n])[0]))(pc.stabilizer_state(impl.plist(indep, n))),
              lambda: (lambda st: (int(st.r), O.canon_group(t_ops(st)[int(st.r):n])[0]))(tc.stabilizer_state(tlist(indep, n))), indep)
        # rejected input: lists with an anticommuting pair, adjacent or far apart in the list (same error in both packages)
        if n >= 2:
            ja = rng.randrange(n)
            others = [rows[j] for j in range(n) if j != ja]
            rng.shuffle(others)
            mid = others[:rng.randrange(0, len(others) + 1)]
            badl = [rows[ja]] + mid + [rows[n + ja]]          # the destabilizer partner anticommutes with rows[ja] only
            if rng.random() < 0.5:
                badl.reverse()
            st_py = lambda: (lambda st: (int(st.r), O.canon_group(impl.ops_of(st)[int(st.r):n])[0]))(pc.stabilizer_state(impl.plist(badl, n)))
            st_t = lambda: (lambda st: (int(st.r), O.canon_group(t_ops(st)[int(st.r):n])[0]))(tc.stabilizer_state(tlist(badl, n)))
            probe('stabilizer_state(anticommuting list)', st_py, st_t, badl)
        for nm in ('zero_state', 'one_state', 'maximally_mixed_state', 'ghz_state'):
            if nm == 'ghz_state' and n < 2:
                continue
            probe(nm, lambda: (lambda st: (int(st.r), O.canon_group(impl.ops_of(st)[int(st.r):n])[0]))(getattr(pc, nm)(n)),
                  lambda: (lambda st: (int(st.r), O.canon_group(t_ops(st)[int(st.r):n])[0]))(getattr(tc, nm)(n)), n)
        t2 = [(G.rand_op(rng, n), complex(rng.choice([1, -1, 2, 0.5]), rng.choice([0, 1, -0.5]))) for _ in range(2)]
        pa = lambda p: cmap_of(np.asarray(p.gs), np.asarray(p.ps), np.asarray(p.cs))
        ta = lambda p: cmap_of(p.gs.tolist(), p.ps.tolist(), p.cs.tolist())
        probe('PauliPolynomial.__matmul__', lambda: pa(impl.poly(terms) @ impl.poly(t2)), lambda: ta(tpoly(terms) @ tpoly(t2)), (terms, t2), cmp=close_maps)
        # polynomials without terms (complete cancellation) keep their number of qubits through products and sums
        probe('PauliPolynomial.__matmul__(no terms)',
              lambda: (lambda z_: [tuple(np.asarray(x_.gs).shape) for x_ in (z_, z_ @ impl.poly(t2), impl.poly(t2) @ z_, (z_ @ impl.poly(t2)) + impl.poly(t2))])(impl.poly(terms) - impl.poly(terms)),
              lambda: (lambda z_: [tuple(x_.gs.shape) for x_ in (z_, z_ @ tpoly(t2), tpoly(t2) @ z_, (z_ @ tpoly(t2)) + tpoly(t2))])(tpoly(terms) - tpoly(terms)), (terms, t2))
        probe('PauliPolynomial.__add__', lambda: pa(impl.poly(terms) + impl.poly(t2)), lambda: ta(tpoly(terms) + tpoly(t2)), (terms, t2), cmp=close_maps)
        probe('PauliPolynomial.__sub__', lambda: pa(impl.poly(terms) - impl.poly(t2)), lambda: ta(tpoly(terms) - tpoly(t2)), (terms, t2), cmp=close_maps)
        probe('PauliPolynomial.__rmul__', lambda: pa((0.5 - 1j) * impl.poly(terms)), lambda: ta((0.5 - 1j) * tpoly(terms)), terms, cmp=close_maps)
        probe('PauliPolynomial.reduce', lambda: pa(impl.poly(terms + terms).reduce()), lambda: ta(tpoly(terms + terms).reduce()), terms, cmp=close_maps)
        probe('PauliPolynomial.rotate_by', lambda: pa(impl.poly(terms).rotate_by(impl.pauli(Gop))), lambda: ta(tpoly(terms).rotate_by(tpauli(Gop))), (Gop, terms), cmp=close_maps)
        # ---- gates, layers, circuits (generator and map gates)
        prog = CU.rand_program(rng, n, rng.randrange(1, 7), kinds=('gen', 'fmap', 'bmap'))

        def tgate(d):
            g = TCI.CliffordGate(*d.get('order', d['qubits']))
            if d['kind'] == 'gen':
                g.set_generator(tpauli(d['gen']))
            elif d['kind'] == 'fmap':
                g.set_forward_map(tmap(d['F']))
            else:
                g.set_backward_map(tmap(d['Fi']))
            return g

        def run_py(compiled, back):
            c = CI.CliffordCircuit(n)
            for d in prog:
                c.take(CU.impl_gate(impl, d))
            if compiled:
                c.compile()
            lst = impl.plist(Ps)
            (c.backward if back else c.forward)(lst)
            return impl.ops_of(lst), CU.impl_layers(c)

        def run_t(compiled, back):
            c = TCI.CliffordCircuit()
            c.N = n
            for d in prog:
                c.take(tgate(d))
            if compiled:
                c.compile(n)
            lst = tlist(Ps, n)
            (c.backward if back else c.forward)(lst)
            return t_ops(lst), CU.impl_layers(c)
        for compiled in (False, True):
            for back in (False, True):
                probe('CliffordCircuit.%s%s' % ('backward' if back else 'forward', '(compiled)' if compiled else ''),
                      lambda: run_py(compiled, back), lambda: run_t(compiled, back), (prog, Ps))
        d0 = prog[0]
        probe('CliffordGate.forward', lambda: impl.ops_of(CU.impl_gate(impl, d0).forward(impl.plist(Ps))), lambda: t_ops(tgate(d0).forward(tlist(Ps, n))), (d0, Ps))
        probe('CliffordGate.backward', lambda: impl.ops_of(CU.impl_gate(impl, d0).backward(impl.plist(Ps))), lambda: t_ops(tgate(d0).backward(tlist(Ps, n))), (d0, Ps))
        probe('clifford_rotation_gate', lambda: impl.ops_of(CI.clifford_rotation_gate(impl.pauli(Gop)).forward(impl.plist(Ps))),
              lambda: t_ops(TCI.clifford_rotation_gate(tpauli(Gop)).forward(tlist(Ps, n))), (Gop, Ps))
        probe('diagonalize(Pauli)', lambda: impl.ops_of(CI.diagonalize(impl.pauli((nz, 0)), i0).forward(impl.plist([(nz, 0)]))),
              lambda: t_ops(TCI.diagonalize(tpauli((nz, 0)), i0).forward(tlist([(nz, 0)], n))), (nz, i0))
        if only is not None:
            continue
        # ---- correspondence of the torch results with the Lean model on a few shared kernels
        tpj = TU.stabilizer_project(tgr.clone(), torch.tensor(gco, dtype=F), r)
        ctx.q('T.stabilizer_project', 'T.project %d %s %s' % (r, H.erows_ops(rows), E.estrs(gco.tolist())),
              (int(tpj[1]), [O.from_gp([ival(v) for v in g], 0)[0] for g in tpj[0].tolist()]),
              lambda s_: (int(s_.split(' ')[0]), [o_[0] for o_ in H.drows_ops(s_.split(' ')[1])]))
        tr = TU.clifford_rotate(tg(Gop[0]), Gop[1], tgsP.clone(), tpsP.clone())
        ctx.q('T.clifford_rotate', 'rotate %s %s' % (E.epauli(O.to_g(Gop[0]), Gop[1]), H.erows_ops(Ps)),
              [O.from_gp([ival(v) for v in g], ival(p)) for g, p in zip(tr[0].tolist(), tr[1].tolist())], H.drows_ops)
        tt = TU.pauli_transform(tgsP, tpsP, tgm, tpm)
        ctx.q('T.pauli_transform', 'transform %s %s' % (H.erows_ops(M), H.erows_ops(Ps)),
              [O.from_gp([ival(v) for v in g], ival(p)) for g, p in zip(tt[0].tolist(), tt[1].tolist())], H.drows_ops)
        ctx.q('T.acq', 'acq %s %s' % (E.estr(ga), E.estr(gb)), ival(TU.acq(tg(P[0]), tg(Q[0]))), int)
        # ---- correspondence of the torch kernels with their own Lean model (Model/Torch.lean)
        ctx.q('T.acq_grid', 'T.acqgrid %s %s' % (E.estr(ga), E.estr(gb)), ival(TU.acq_grid(tg(P[0]).unsqueeze(0), tg(Q[0]).unsqueeze(0))[0, 0]), int)
        ctx.q('T.clifford_rotate(model)', 'T.rotate %s %s' % (E.epauli(O.to_g(Gop[0]), Gop[1]), H.erows_ops(Ps)),
              [O.from_gp([ival(v) for v in g], ival(p)) for g, p in zip(tr[0].tolist(), tr[1].tolist())], H.drows_ops)
        ts = TU.clifford_rotate_signless(tg(Gop[0]), tgsP.clone())
        ctx.q('T.clifford_rotate_signless', 'T.rotsignless %s %s' % (E.estr(O.to_g(Gop[0])), E.estrs(gsP.tolist())), [[ival(v) for v in row] for row in ts.tolist()], E.dstrs)
        ctx.q('T.pauli_is_onsite', 'T.onsite %s %d' % (E.estr(O.to_g(nz)), i0), bool(TU.pauli_is_onsite(tg(nz), i0)), lambda s: s == 'true')
        ctx.q('T.front', 'T.front %s' % E.estr(O.to_g(nz)), ival(TU.front(tg(nz))), int)
        tcd = TU.condense(tg(nz))
        ctx.q('T.condense', 'T.condense %s' % E.estr(O.to_g(nz)), (E.estr([ival(v) for v in tcd[0].tolist()]), [ival(q) for q in tcd[1].tolist()]),
              lambda s: (s.split(' ')[0], E.dints(s.split(' ')[1])))
        tms = TU.map_to_state(tgm, tpm)
        ctx.q('T.map_to_state', 'T.maptostate %s' % H.erows_ops(M), [O.from_gp([ival(v) for v in g], ival(p)) for g, p in zip(tms[0].tolist(), tms[1].tolist())], H.drows_ops)
        tsm = TU.state_to_map(tgm, tpm)
        ctx.q('T.state_to_map', 'T.statetomap %s' % H.erows_ops(M), [O.from_gp([ival(v) for v in g], ival(p)) for g, p in zip(tsm[0].tolist(), tsm[1].tolist())], H.drows_ops)
        tve = TU.vectorizable_stabilizer_expect(tgr, tpr, torch.tensor(go, dtype=F), torch.tensor(po, dtype=F), r)
        ctx.q('T.vectorizable_stabilizer_expect', 'T.vecexpect %d %s %s' % (r, H.erows_ops(rows), H.erows_ops(obs)), [ival(v) for v in tve.tolist()], E.dints)
        ctx.q('T.ipow', 'ipow %s %s' % (E.estr(ga), E.estr(gb)), ival(TU.ipow(tg(P[0]), tg(Q[0]))), int)
        # second batch of torch kernels against their own model (Model/Torch.lean)
        ctx.q('T.ipow(model)', 'T.ipow %s %s' % (E.estr(ga), E.estr(gb)), ival(TU.ipow(tg(P[0]), tg(Q[0]))), int)
        ctx.q('T.acq(model)', 'T.acq %s %s' % (E.estr(ga), E.estr(gb)), ival(TU.acq(tg(P[0]), tg(Q[0]))), int)
        ctx.q('T.ps0', 'T.p0 %s' % E.estr(ga), ival(TU.ps0(tg(P[0]).unsqueeze(0))[0]), int)
        tam = TU.acq_mat(tgsP)
        ctx.q('T.acq_mat', 'T.acqmat %s' % E.estrs(gsP.tolist()), [[ival(v) % 2 for v in row] for row in tam.tolist()],
              lambda s_: [E.dints(r_) for r_ in s_.split(';')])
        if len(Ps) >= 2:
            tip = TU.ipow_product(tgsP[:2], tgsP[1:])
            ctx.q('T.ipow_product', 'T.ipowproduct %s %s' % (E.estrs(gsP[:2].tolist()), E.estrs(gsP[1:].tolist())), [ival(v) for v in tip.tolist()], E.dints)
        sel = [rng.randrange(2) for _q in range(len(Ps))]
        tcb = TU.pauli_combine(torch.tensor([sel], dtype=F), tgsP, tpsP)
        ctx.q('T.pauli_combine', 'T.combine %d %s %s' % (n, E.ebits(sel), H.erows_ops(Ps)),
              O.from_gp([ival(v) for v in tcb[0][0].tolist()], ival(tcb[1][0])), lambda s_: H.drows_ops(s_)[0])
        ctx.q('T.pauli_transform(model)', 'T.transform %s %s' % (H.erows_ops(M), H.erows_ops(Ps)),
              [O.from_gp([ival(v) for v in g], ival(p)) for g, p in zip(tt[0].tolist(), tt[1].tolist())], H.drows_ops)
        td1 = TU.pauli_diagonalize1(tg(nz), i0)
        ctx.q('T.pauli_diagonalize1', 'T.diag1 %s %d' % (E.estr(O.to_g(nz)), i0), [[ival(v) for v in g.tolist()] for g in td1], E.dstrs)
        nz2 = G.rand_letters(rng, n, 0.7)
        if O.anticommute((nz, 0), (nz2, 0)):
            td2 = TU.pauli_diagonalize2(tg(nz), tg(nz2), i0)
            ctx.q('T.pauli_diagonalize2', 'T.diag2 %s %s %d' % (E.estr(O.to_g(nz)), E.estr(O.to_g(nz2)), i0),
                  ([[ival(v) for v in g.tolist()] for g in td2[0]], [ival(v) for v in td2[1].tolist()], [ival(v) for v in td2[2].tolist()]),
                  lambda s_: (E.dstrs(s_.split(' ')[0]), E.dstr(s_.split(' ')[1]), E.dstr(s_.split(' ')[2])))
    # ================= structured probes (added after the torch-side seed round): inputs a uniform random draw rarely produces
    nx = 30 if ctx.tier == 'quick' else 300
    tq = lambda q: np.asarray(q.full()) if hasattr(q, 'full') else np.asarray(q)
    # ---- selection from lists: integer, slice, boolean masks given as torch / numpy / list, index arrays
    for _ in range(nx):
        n = rng.choice([1, 2, 3]); L = rng.randrange(1, 6)
        Ps = [G.rand_op(rng, n) for _ in range(L)]
        m = [rng.random() < 0.5 for _ in range(L)]
        idx = [rng.randrange(-L, L) for _ in range(rng.randrange(1, 4))]
        a, b = sorted((rng.randrange(0, L + 1), rng.randrange(0, L + 1)))
        for nm, ip, it_ in (('int', idx[0], idx[0]), ('slice', slice(a, b), slice(a, b)), ('slice-step', slice(None, None, -1), None),
                            ('mask(torch.bool)', np.array(m), torch.tensor(m)), ('mask(numpy.bool)', np.array(m), np.array(m)), ('mask(list)', m, m),
                            ('index array', np.array(idx), torch.tensor(idx)), ('index list', idx, idx)):
            if it_ is None:
                continue
            probe('PauliList.__getitem__', lambda: impl.ops_of(impl.plist(Ps)[ip]), lambda: t_ops(tlist(Ps, n)[it_]), (nm, Ps, str(ip)))
        # units times a list; division by units
        for c in (1, 1j, -1, -1j):
            probe('PauliList.__rmul__', lambda: (impl.ops_of(c * impl.plist(Ps)), [int(v) for v in (c * impl.plist(Ps)).ps]),
                  lambda: (t_ops(c * tlist(Ps, n)), [ival(v) for v in (c * tlist(Ps, n)).ps.tolist()]), (c, Ps))
            probe('PauliList.__truediv__', lambda: impl.ops_of(impl.plist(Ps) / c), lambda: t_ops(tlist(Ps, n) / c), (c, Ps))
        probe('PauliList.__neg__', lambda: (impl.ops_of(-impl.plist(Ps)), [int(v) for v in (-impl.plist(Ps)).ps], np.asarray((-impl.plist(Ps)).tokenize()).tolist()),
              lambda: (t_ops(-tlist(Ps, n)), [ival(v) for v in (-tlist(Ps, n)).ps.tolist()], [[ival(v) for v in row] for row in (-tlist(Ps, n)).tokenize().tolist()]), Ps)
        probe('repr(PauliList)', lambda: repr(1j * impl.plist(Ps)), lambda: repr(1j * tlist(Ps, n)), Ps)
        probe('PauliList.tokenize', lambda: np.asarray((1j * impl.plist(Ps)).tokenize()).tolist(), lambda: [[ival(v) for v in row] for row in (1j * tlist(Ps, n)).tokenize().tolist()], Ps)
    # ---- sums and differences with every operand form the port has (Pauli, PauliList, polynomial), both operand orders
    for _ in range(nx):
        n = rng.choice([1, 2, 3])
        ts_ = [(G.rand_op(rng, n), complex(rng.choice([1, -1, 2, 0.5]), rng.choice([0, 1, -0.5]))) for _k in range(2)]
        Pk, Ls = G.rand_op(rng, n), [G.rand_op(rng, n) for _k in range(2)]
        pa_ = lambda p: cmap_of(np.asarray(p.gs), np.asarray(p.ps), np.asarray(p.cs))
        ta_ = lambda p: cmap_of(p.gs.tolist(), p.ps.tolist(), p.cs.tolist())
        for nm, fp, ft in (('poly + Pauli', lambda: impl.poly(ts_) + impl.pauli(Pk), lambda: tpoly(ts_) + tpauli(Pk)),
                           ('Pauli + poly', lambda: impl.pauli(Pk) + impl.poly(ts_), lambda: tpauli(Pk) + tpoly(ts_)),
                           ('poly - Pauli', lambda: impl.poly(ts_) - impl.pauli(Pk), lambda: tpoly(ts_) - tpauli(Pk)),
                           ('Pauli - poly', lambda: impl.pauli(Pk) - impl.poly(ts_), lambda: tpauli(Pk) - tpoly(ts_)),
                           ('poly + PauliList', lambda: impl.poly(ts_) + impl.plist(Ls), lambda: tpoly(ts_) + tlist(Ls, n)),
                           ('Pauli + Pauli', lambda: impl.pauli(Pk) + impl.pauli(Ls[0]), lambda: tpauli(Pk) + tpauli(Ls[0])),
                           ('poly @ Pauli', lambda: impl.poly(ts_) @ impl.pauli(Pk), lambda: tpoly(ts_) @ tpauli(Pk)),
                           ('Pauli @ poly', lambda: impl.pauli(Pk) @ impl.poly(ts_), lambda: tpauli(Pk) @ tpoly(ts_))):
            probe('PauliPolynomial arithmetic (mixed operands)', lambda: pa_(fp()), lambda: ta_(ft()), (nm, ts_, Pk, Ls), cmp=close_maps)
    # ---- print-then-parse (the printed form of real phases carries a blank), traces with complex coefficients, reduce leaves its
    #      receiver alone, rotation gates with an explicit register, density matrices of wide mixed states, unsorted regions
    for _ in range(nx):
        n = rng.choice([1, 2, 3])
        Pk = G.rand_op(rng, n)
        probe('pauli(repr(P))', lambda: impl.ops_of(pc.pauli(repr(impl.pauli(Pk)))), lambda: t_ops(tc.pauli(repr(tpauli(Pk)))), Pk)
        Ls = [G.rand_op(rng, n) for _k in range(3)]
        probe('paulis(repr lines)', lambda: impl.ops_of(pc.paulis(*[ln for ln in repr(impl.plist(Ls)).splitlines()])),
              lambda: t_ops(tc.paulis(*[ln for ln in repr(tlist(Ls, n)).splitlines()])), Ls)
        ts_ = [((tuple('I' * n), rng.randrange(4)), complex(rng.choice([0.5, -2, 1]), rng.choice([2, -0.5, 1]))), (G.rand_op(rng, n), complex(1, 1))]
        probe('PauliPolynomial.trace', lambda: complex(impl.poly(ts_).reduce().trace()), lambda: complex(tpoly(ts_).reduce(tol=1e-7).trace()), ts_, cmp=lambda a_, b_: abs(a_ - b_) < 1e-5)
        probe('PauliPolynomial.trace', lambda: complex((impl.poly(ts_) @ impl.poly(ts_)).reduce().trace()), lambda: complex((tpoly(ts_) @ tpoly(ts_)).reduce(tol=1e-7).trace()), ('product', ts_), cmp=lambda a_, b_: abs(a_ - b_) < 1e-4)
        pa_ = lambda p: cmap_of(np.asarray(p.gs), np.asarray(p.ps), np.asarray(p.cs))
        ta_ = lambda p: cmap_of(p.gs.tolist(), p.ps.tolist(), p.cs.tolist())
        t1_ = [(G.rand_op(rng, n), complex(rng.choice([1, -1, 2]), rng.choice([0, 1]))) for _k in range(2)]

        def recv_py():
            P_ = impl.poly(t1_) @ impl.poly(ts_); before = pa_(P_); P_.reduce(); return close_maps(before, pa_(P_))

        def recv_t():
            P_ = tpoly(t1_) @ tpoly(ts_); before = ta_(P_); P_.reduce(); return close_maps(before, ta_(P_))
        probe('PauliPolynomial.reduce leaves its receiver unchanged', recv_py, recv_t, (t1_, ts_))
        # rotation gates with an explicit register (generators with identity sites before or between the others)
        m_ = rng.choice([3, 4])
        reg = sorted(rng.sample(range(m_ + 1), m_))
        gen = (tuple(rng.choice('IIXYZ') for _k in range(m_)), rng.choice([0, 2]))
        if all(c == 'I' for c in gen[0]):
            gen = (('I',) * (m_ - 1) + ('X',), 0)
        Qs_ = [G.rand_op(rng, m_ + 1) for _k in range(3)]
        probe('clifford_rotation_gate(qubits=)', lambda: impl.ops_of(CI.clifford_rotation_gate(impl.pauli(gen), np.array(reg)).forward(impl.plist(Qs_))),
              lambda: t_ops(TCI.clifford_rotation_gate(tpauli(gen), np.array(reg)).forward(tlist(Qs_, m_ + 1))), (gen, reg, Qs_))
        # diagonalizing circuits used after compile() / after copy() of the fresh circuit
        n5 = rng.choice([2, 3, 4])
        nz5 = G.rand_op(rng, n5, nonid=True)[0]
        i5 = rng.randrange(n5)
        Q5 = [(nz5, 0)] + [G.rand_op(rng, n5) for _k in range(2)]

        def dg(side, how):
            c_ = (CI.diagonalize(impl.pauli((nz5, 0)), i5) if side == 'py' else TCI.diagonalize(tpauli((nz5, 0)), i5))
            if how == 'compiled':
                c_.compile()
            elif how == 'copy':
                c_ = c_.copy()
            lst_ = impl.plist(Q5) if side == 'py' else tlist(Q5, n5)
            c_.forward(lst_)
            return impl.ops_of(lst_) if side == 'py' else t_ops(lst_)
        for how in ('compiled', 'copy'):
            probe('diagonalize(Pauli)', lambda: dg('py', how), lambda: dg('t', how), (nz5, i5, how))
        rows5, _r5 = G.rand_tableau(rng, n5, 0)

        def dgs(side, how):
            st_ = impl.state(rows5, 0) if side == 'py' else tstate(rows5, 0)
            c_ = (CI.diagonalize(st_) if side == 'py' else TCI.diagonalize(st_))
            if how == 'copy':
                c_ = c_.copy()
            elif how == 'used-then-copy':
                c_.forward(impl.state(rows5, 0) if side == 'py' else tstate(rows5, 0)); c_ = c_.copy()
            elif how == 'compiled':
                c_.compile()
            s2 = impl.state(rows5, 0) if side == 'py' else tstate(rows5, 0)
            c_.forward(s2)
            ops_ = impl.ops_of(s2) if side == 'py' else t_ops(s2)
            return O.canon_group(ops_[0:n5])[0]
        for how in ('plain', 'copy', 'used-then-copy', 'compiled'):
            probe('diagonalize(StabilizerState)', lambda: dgs('py', how), lambda: dgs('t', how), (rows5, how))
        # wide mixed states: few active stabilizers on many qubits (coefficients 2^-N far below the default tolerance of reduce)
        Nw = rng.choice([12, 17, 18, 20])
        stabs = [(tuple('Z' if j in (0, Nw - 1) else 'I' for j in range(Nw)), 2), (tuple('X' if j < 2 or j == Nw - 1 else 'I' for j in range(Nw)), 0)][:rng.choice([1, 2])]
        if len(stabs) == 2 and O.anticommute(stabs[0], stabs[1]):
            stabs = stabs[:1]
        dm_py = lambda: (lambda d_: sorted((O.from_gp(g_, int(p_)), round(float(np.real(c_)) * 2 ** Nw, 6)) for g_, p_, c_ in zip(np.asarray(d_.gs), np.asarray(d_.ps), np.asarray(d_.cs))))(pc.stabilizer_state(impl.plist(stabs, Nw)).density_matrix)
        dm_t = lambda: (lambda d_: sorted((O.from_gp([ival(v) for v in g_], ival(p_)), round(float(complex(c_).real) * 2 ** Nw, 6)) for g_, p_, c_ in zip(d_.gs.tolist(), d_.ps.tolist(), d_.cs.tolist())))(tc.stabilizer_state(tlist(stabs, Nw)).density_matrix)
        probe('StabilizerState.density_matrix', dm_py, dm_t, ('wide', Nw, len(stabs)))
        # regions as unsorted index lists / tuples
        n4 = rng.choice([3, 4, 5])
        rows4, r4 = G.rand_tableau(rng, n4, rng.choice([0, 1, None]))
        reg4 = rng.sample(range(n4), rng.randrange(2, n4 + 1))
        probe('StabilizerState.entropy', lambda: int(impl.state(rows4, r4).entropy(list(reg4))), lambda: ival(tstate(rows4, r4).entropy(list(reg4))), (rows4, r4, 'unsorted', reg4),
              when_pred=lambda a_, b_: 'explained-by-real-rank-in-torch-z2rank' if (not isinstance(b_, str) and not isinstance(a_, str) and _entropy_gf2(rows4, r4, n4, sorted(reg4)) == a_ and _entropy_real_rank(rows4, r4, n4, sorted(reg4)) == b_) else '')
    # ---- reduce around the tolerance: moduli between tol and sqrt(tol), explicit tolerances
    for _ in range(nx):
        n = rng.choice([1, 2])
        strs = [G.rand_op(rng, n) for _ in range(3)]
        # explicit tolerances only: the two packages have different defaults (1e-10 and 1e-5: float64 vs complex64 coefficients)
        tolv = rng.choice([1e-4, 1e-3, 0.1])
        mags = [1.0, rng.choice([3e-3, 3e-4, 2e-5, 0.2, 0.05]), rng.choice([0.5, -0.499, 4e-3])]
        terms_ = [(s_, complex(mg, 0) * rng.choice([1, 1j, -1])) for s_, mg in zip(strs, mags)]
        kw = {} if tolv is None else dict(tol=tolv)
        merged_ = {}
        for (l_, k_), c_ in terms_:
            merged_[l_] = merged_.get(l_, 0) + c_ * 1j ** k_
        if any(tolv / 3 < abs(v_) < 3 * tolv for v_ in merged_.values()):
            continue            # a merged modulus at the tolerance itself: float64 and complex64 may round to different sides
        pa_ = lambda p: cmap_of(np.asarray(p.gs), np.asarray(p.ps), np.asarray(p.cs))
        ta_ = lambda p: cmap_of(p.gs.tolist(), p.ps.tolist(), p.cs.tolist())
        probe('PauliPolynomial.reduce(tol)', lambda: (pa_(impl.poly(terms_).reduce(**kw)), len(impl.poly(terms_).reduce(**kw).cs)),
              lambda: (ta_(tpoly(terms_).reduce(**kw)), len(tpoly(terms_).reduce(**kw).cs)), (terms_, tolv),
              cmp=lambda a_, b_: a_[1] == b_[1] and close_maps(a_[0], b_[0]))
    # ---- expectation of a single Pauli operator with every phase (imaginary ones included), states of every rank incl. r = N
    for _ in range(nx):
        n = rng.choice([1, 2, 3])
        rows, r = G.rand_tableau(rng, n, rng.choice([0, None, n]))
        Pk = G.rand_observable(rng, rows, n, r)[0]
        for k in range(4):
            Pq = (Pk[0], k)
            probe('StabilizerState.expect(Pauli)', lambda: complex(impl.state(rows, r).expect(impl.pauli(Pq))), lambda: complex(tstate(rows, r).expect(tpauli(Pq))), (rows, r, Pq),
                  cmp=lambda a_, b_: abs(a_ - b_) < 1e-5)
        obs_ = [G.rand_observable(rng, rows, n, r)[0] for _ in range(3)]
        probe('StabilizerState.expect(PauliList)', lambda: [int(v) for v in impl.state(rows, r).expect(impl.plist(obs_, n))],
              lambda: [ival(v) for v in tstate(rows, r).expect(tlist(obs_, n)).tolist()], (rows, r, obs_))
        # the batched entry point (torch only): a list of states of one rank against a list, an operator with every phase, a polynomial
        from torchclifford.stabilizer import vectorizable_expct as _vex
        rows2 = G.rand_tableau(rng, n, r)[0]
        sts_ = [rows, rows2, rows]
        probe('vectorizable_expct(PauliList)', lambda: [[int(v) for v in impl.state(rw, r).expect(impl.plist(obs_, n))] for rw in sts_],
              lambda: [[ival(v) for v in row_] for row_ in _vex([tstate(rw, r) for rw in sts_], tlist(obs_, n)).tolist()], (sts_, r, obs_))
        for k in range(4):
            Pq = (Pk[0], k)
            probe('vectorizable_expct(Pauli)', lambda: [complex(impl.state(rw, r).expect(impl.pauli(Pq))) for rw in sts_],
                  lambda: [complex(v) for v in _vex([tstate(rw, r) for rw in sts_], tpauli(Pq)).tolist()], (sts_, r, Pq),
                  cmp=lambda a_, b_: len(a_) == len(b_) and all(abs(x_ - y_) < 1e-5 for x_, y_ in zip(a_, b_)))
        terms_v = [((G.rand_observable(rng, rows, n, r)[0][0], rng.randrange(4)), complex(rng.choice([1, -2, 0.5])) * rng.choice([1, 1j])) for _ in range(3)]
        # ... and against the Lean model of the batched entry point (T.vexpectPoly / T.vexpectList; theorems C13_vexpectPoly, C07_batched_expect_is_trace)
        rc_ = lambda z_: (round(complex(z_).real, 4) + 0.0, round(complex(z_).imag, 4) + 0.0)
        try:
            if only is not None and 'vectorizable_expct(PauliPolynomial)' not in only:
                raise StopIteration
            tv_ = [rc_(v) for v in _vex([tstate(rw, r) for rw in sts_], tpoly(terms_v)).tolist()]
            ctx.q('T.vexpectPoly', 'T.vexpectpoly %d %s %s' % (r, ';'.join(H.erows_ops(rw) for rw in sts_), E.epoly([O.to_g(t[0][0]) for t in terms_v], [t[0][1] for t in terms_v], [t[1] for t in terms_v])),
                  tv_, lambda s_: [rc_(E.dcx(x_)) for x_ in s_.split(';')])
            tl_ = [[ival(v) for v in row_] for row_ in _vex([tstate(rw, r) for rw in sts_], tlist(obs_, n)).tolist()]
            ctx.q('T.vexpectList', 'T.vexpectlist %d %s %s' % (r, ';'.join(H.erows_ops(rw) for rw in sts_), H.erows_ops(obs_)), tl_, lambda s_: [E.dints(x_) for x_ in s_.split(';')])
        except StopIteration:
            pass
        except Exception as e_:
            ctx.fail('torch.vectorizable_expct', 'torchclifford raised %r' % (e_,), dict(states=sts_, r=r, terms=terms_v, obs=obs_))
        probe('vectorizable_expct(PauliPolynomial)', lambda: [complex(impl.state(rw, r).expect(impl.poly(terms_v))) for rw in sts_],
              lambda: [complex(v) for v in _vex([tstate(rw, r) for rw in sts_], tpoly(terms_v)).tolist()], (sts_, r, terms_v),
              cmp=lambda a_, b_: len(a_) == len(b_) and all(abs(x_ - y_) < 1e-5 for x_, y_ in zip(a_, b_)))
        if n <= 3:
            probe('StabilizerState.to_qutip', lambda: np.round(tq(impl.state(rows, r).to_qutip()), 6).tolist(), lambda: np.round(tq(tstate(rows, r).to_qutip()), 6).tolist(), (rows, r))
    # ---- entropy on many (state, region) pairs, small N (the recorded real-rank finding needs larger matrices), generators re-mixed
    for _ in range(nx * 12):
        n = rng.choice([2, 3, 4, 4, 4, 5])
        rows, r = G.rand_tableau(rng, n, rng.choice([0, 1, 1, 2, None]))
        r = min(r, n)
        reg = sorted(rng.sample(range(n), rng.randrange(0, n + 1)))
        if not reg:
            continue
        arg = list(reg)
        if rng.random() < 0.5:
            rng.shuffle(arg)                 # the order in which the qubits of a region are listed is immaterial
            pairs_ = [(a_, b_) for a_ in reg for b_ in reg if b_ - a_ + 1 == len(reg) and reg != list(range(a_, b_ + 1))]
            if pairs_ and rng.random() < 0.7:   # ... also when first and last entry look like the ends of a block of adjacent qubits
                a_, b_ = rng.choice(pairs_)
                mid_ = [q_ for q_ in reg if q_ not in (a_, b_)]
                rng.shuffle(mid_)
                arg = [a_] + mid_ + [b_]
        if rng.random() < 0.3:
            arg = tuple(arg)
        probe('StabilizerState.entropy', lambda: int(impl.state(rows, r).entropy(arg)), lambda: ival(tstate(rows, r).entropy(arg)), (rows, r, arg),
              when_pred=lambda a_, b_: 'explained-by-real-rank-in-torch-z2rank' if (not isinstance(b_, str) and not isinstance(a_, str) and _entropy_gf2(rows, r, n, reg) == a_ and _entropy_real_rank(rows, r, n, reg) == b_) else '')
    # ---- a copy of an operator taken out of a list or map stays what it was when the list is rewritten afterwards (embedding a small map,
    #      overwriting rows and phases through the public arrays); a copy of a circuit takes further gates like the original
    for _ in range(nx):
        n = rng.choice([2, 3, 4])
        A = G.rand_map_ops(rng, n)
        m, idx = G.rand_mask(rng, n)
        Ms = G.rand_map_ops(rng, len(idx))
        k = rng.randrange(2 * n)

        def cp_hist(side, how):
            mp = impl.cmap(A) if side == 'py' else tmap(A)
            cpy = mp[k].copy()
            if how == 'embed':
                mp.embed(impl.cmap(Ms) if side == 'py' else tmap(Ms), np.array(m) if side == 'py' else torch.tensor(m))
            elif how == 'write':
                mp.ps[k] = (mp.ps[k] + 2) % 4
                mp.gs[k, 0] = 1 - mp.gs[k, 0]
            else:
                mp.ps[:] = 2
            return impl.ops_of(cpy) if side == 'py' else t_ops(cpy)
        for how in ('embed', 'write', 'fill'):
            probe('Pauli.copy (taken from a list that is rewritten afterwards)', lambda: cp_hist('py', how), lambda: cp_hist('t', how), (A, k, how, Ms, m))
        n6 = n + 1
        prog6 = CU.rand_program(rng, n, rng.randrange(1, 4), kinds=('gen', 'fmap'))
        extra6 = CU.shift_gate(CU.rand_program(rng, 2, 1, kinds=('gen',))[0], n - 1)      # touches qubit n, beyond the circuit so far
        if n not in extra6['qubits']:
            continue
        Qs6 = [G.rand_op(rng, n6) for _q in range(3)]

        def tgate6(d):
            g = TCI.CliffordGate(*d.get('order', d['qubits']))
            if d['kind'] == 'gen':
                g.set_generator(tpauli(d['gen']))
            else:
                g.set_forward_map(tmap(d['F']))
            return g

        def grow(side, compiled):
            if side == 'py':
                c = CI.CliffordCircuit(n6)
                for d in prog6 + [extra6]:
                    c.take(CU.impl_gate(impl, d))
                lst = impl.plist(Qs6)
            else:
                c0 = TCI.CliffordCircuit()          # the register is whatever the gates need
                for d in prog6:
                    c0.take(tgate6(d))
                c = c0.copy()
                c.take(tgate6(extra6))
                lst = tlist(Qs6, n6)
            if compiled:
                c.compile()
            c.forward(lst)
            return (impl.ops_of(lst) if side == 'py' else t_ops(lst)), int(c.N)
        for compiled in (False, True):
            probe('CliffordCircuit.copy (extended afterwards)', lambda: grow('py', compiled), lambda: grow('t', compiled), (prog6, extra6, Qs6, compiled))
    # ---- smaller public entry points: bit-string probabilities, weights, unit and zero polynomials, casts, prior POVM of a circuit
    for _ in range(nx):
        n = rng.choice([1, 2, 3])
        rows, _r = G.rand_tableau(rng, n, 0)
        allbits = [[(b_ >> j_) & 1 for j_ in range(n)] for b_ in range(2 ** n)]
        probe('StabilizerState.get_prob', lambda: [round(float(impl.state(rows, 0).get_prob(np.array(bs_))), 6) for bs_ in allbits],
              lambda: [round(float(tstate(rows, 0).get_prob(torch.tensor(bs_))), 6) for bs_ in allbits], rows)
        Ps = [G.rand_op(rng, n) for _k in range(3)] + [(tuple('I' for _q in range(n)), 0)]
        probe('weight', lambda: ([int(impl.pauli(P_).weight()) for P_ in Ps], [int(v) for v in impl.plist(Ps).weight()]),
              lambda: ([ival(tpauli(P_).weight()) for P_ in Ps], [ival(v) for v in tlist(Ps, n).weight().tolist()]), Ps)
        probe('Pauli.as_list', lambda: [impl.ops_of(impl.pauli(P_).as_list()) for P_ in Ps], lambda: [t_ops(tpauli(P_).as_list()) for P_ in Ps], Ps)
        ts_ = [(G.rand_op(rng, n), complex(rng.choice([1, -1, 2, 0.5]), rng.choice([0, 1, -0.5]))) for _k in range(2)]
        pa_ = lambda p: cmap_of(np.asarray(p.gs), np.asarray(p.ps), np.asarray(p.cs))
        ta_ = lambda p: cmap_of(p.gs.tolist(), p.ps.tolist(), p.cs.tolist())
        for nm, fp, ft in (('identity @ poly', lambda: pc.pauli_identity(n) @ impl.poly(ts_), lambda: tc.pauli_identity(n) @ tpoly(ts_)),
                           ('poly @ identity', lambda: impl.poly(ts_) @ pc.pauli_identity(n), lambda: tpoly(ts_) @ tc.pauli_identity(n)),
                           ('zero + poly', lambda: pc.pauli_zero(n) + impl.poly(ts_), lambda: tc.pauli_zero(n) + tpoly(ts_)),
                           ('poly - identity', lambda: impl.poly(ts_) - pc.pauli_identity(n), lambda: tpoly(ts_) - tc.pauli_identity(n)),
                           ('zero @ poly', lambda: (pc.pauli_zero(n) @ impl.poly(ts_)).reduce(), lambda: (tc.pauli_zero(n) @ tpoly(ts_)).reduce())):
            probe('pauli_identity / pauli_zero', lambda: pa_(fp()), lambda: ta_(ft()), (nm, n, ts_), cmp=close_maps)
        progp = CU.rand_program(rng, n, rng.randrange(1, 5), kinds=('gen', 'fmap', 'bmap'))

        def povm_(side):
            if side == 'py':
                c = CI.identity_circuit(n)
                for d in progp:
                    c.take(CU.impl_gate(impl, d))
                return [impl.ops_of(s_) for s_ in c.povm(2)]
            c = TCI.identity_circuit(n)
            for d in progp:
                g = TCI.CliffordGate(*d.get('order', d['qubits']))
                if d['kind'] == 'gen':
                    g.set_generator(tpauli(d['gen']))
                elif d['kind'] == 'fmap':
                    g.set_forward_map(tmap(d['F']))
                else:
                    g.set_backward_map(tmap(d['Fi']))
                c.take(g)
            return [t_ops(s_) for s_ in c.povm(2)]
        probe('CliffordCircuit.povm', lambda: povm_('py'), lambda: povm_('t'), progp)
    # ---- third-pass additions: basis states with correlated Z-type generators, regions given as ranges with a step, gates on three
    #      qubits that share only interior qubits, pairwise anticommuting triples, queries that must not rewrite their argument,
    #      a gate on the whole register applied to a single operator
    for _ in range(nx):
        n = rng.choice([2, 2, 3, 3, 4])
        ctb = G.rand_css_tableau(rng, n, rng.choice(['Z', 'Z', 'X']))
        allbits = [[(b_ >> j_) & 1 for j_ in range(n)] for b_ in range(2 ** n)]
        probe('StabilizerState.get_prob', lambda: [round(float(impl.state(ctb, 0).get_prob(np.array(bs_))), 6) for bs_ in allbits],
              lambda: [round(float(tstate(ctb, 0).get_prob(torch.tensor(bs_))), 6) for bs_ in allbits], ('css', ctb))
        n8 = rng.choice([3, 4, 5, 6])
        rows8, r8 = G.rand_tableau(rng, n8, rng.choice([0, 1, 2]))
        a8 = rng.randrange(0, n8 - 1); st8 = rng.choice([2, 2, 3, -1, -2]); b8 = rng.randrange(a8 + 1, n8 + 1)
        rg8 = range(a8, b8, st8) if st8 > 0 else range(b8 - 1, a8 - 1 if a8 > 0 else -1, st8)
        if len(rg8) > 0:
            probe('StabilizerState.entropy', lambda: int(impl.state(rows8, r8).entropy(rg8)), lambda: ival(tstate(rows8, r8).entropy(rg8)), ('range', rows8, r8, str(rg8)),
                  when_pred=lambda a_, b_: 'explained-by-real-rank-in-torch-z2rank' if (not isinstance(b_, str) and not isinstance(a_, str) and _entropy_gf2(rows8, r8, n8, sorted(rg8)) == a_ and _entropy_real_rank(rows8, r8, n8, sorted(rg8)) == b_) else '')
        # pairwise anticommuting triples (every operator anticommutes with an even number of the others) are still rejected
        n3 = rng.choice([1, 2, 3])
        for _try in range(200):
            tri = [G.rand_herm(rng, n3, nonid=True) for _k in range(3)]
            if all(O.anticommute(tri[i_], tri[j_]) for i_ in range(3) for j_ in range(i_)):
                break
        else:
            tri = None
        if tri is not None:
            pad = rng.randrange(0, 3)
            tri = [(tuple('I' for _q in range(pad)) + o_[0], o_[1]) for o_ in tri]
            probe('stabilizer_state(anticommuting list)', lambda: (lambda st: (int(st.r), O.canon_group(impl.ops_of(st)[int(st.r):n3 + pad])[0]))(pc.stabilizer_state(impl.plist(tri, n3 + pad))),
                  lambda: (lambda st: (int(st.r), O.canon_group(t_ops(st)[int(st.r):n3 + pad])[0]))(tc.stabilizer_state(tlist(tri, n3 + pad))), ('triple', tri))
        # expect(polynomial whose terms carry phases): the value, the argument afterwards, the value of a second call
        nq = rng.choice([1, 2, 3])
        rowsq, rq = G.rand_tableau(rng, nq)
        termsq = [((G.rand_observable(rng, rowsq, nq, rq)[0][0], rng.randrange(4)), complex(rng.choice([1, -2, 0.5]), rng.choice([0, 1]))) for _k in range(3)]
        rc2 = lambda z_: (round(complex(z_).real, 4) + 0.0, round(complex(z_).imag, 4) + 0.0)

        def twice(side):
            pl_ = impl.poly(termsq) if side == 'py' else tpoly(termsq)
            st_ = impl.state(rowsq, rq) if side == 'py' else tstate(rowsq, rq)
            v1 = rc2(st_.expect(pl_))
            after = sorted((k_, rc2(v_)) for k_, v_ in (cmap_of(np.asarray(pl_.gs), np.asarray(pl_.ps), np.asarray(pl_.cs)) if side == 'py' else cmap_of(pl_.gs.tolist(), pl_.ps.tolist(), pl_.cs.tolist())).items())
            raw = ([int(v) for v in np.asarray(pl_.ps)], [rc2(v) for v in np.asarray(pl_.cs)]) if side == 'py' else ([ival(v) for v in pl_.ps.tolist()], [rc2(v) for v in pl_.cs.tolist()])
            v2 = rc2(st_.expect(pl_))
            return v1, after, raw, v2
        probe('StabilizerState.expect leaves its argument unchanged', lambda: twice('py'), lambda: twice('t'), (rowsq, rq, termsq))
        # a rotation gate whose generator covers the whole register, applied to a single operator (not a list), forward and backward;
        # the diagonalizing circuit of an operator applied to the operator itself
        ng = rng.choice([1, 1, 2, 3])
        gen_g = (tuple(rng.choice('XYZ') for _q in range(ng)), rng.choice((0, 2)))
        Pg = G.rand_op(rng, ng)
        for back in (False, True):
            def single(side):
                if side == 'py':
                    gt = CI.clifford_rotation_gate(impl.pauli(gen_g)); P_ = impl.pauli(Pg)
                else:
                    gt = TCI.clifford_rotation_gate(tpauli(gen_g)); P_ = tpauli(Pg)
                (gt.backward if back else gt.forward)(P_)
                return impl.ops_of(P_) if side == 'py' else t_ops(P_)
            probe('CliffordGate.forward(single Pauli)', lambda: single('py'), lambda: single('t'), (gen_g, Pg, back))
        Pd = G.rand_op(rng, ng, phases=(0, 2), nonid=True)
        for i0_ in range(ng):
            def dsingle(side):
                P_ = impl.pauli(Pd) if side == 'py' else tpauli(Pd)
                c_ = (CI if side == 'py' else TCI).diagonalize(P_, i0_)
                Q_ = impl.pauli(Pd) if side == 'py' else tpauli(Pd)
                c_.forward(Q_)
                return impl.ops_of(Q_) if side == 'py' else t_ops(Q_)
            probe('diagonalize(Pauli)', lambda: dsingle('py'), lambda: dsingle('t'), ('single', Pd, i0_))
    # gates on three qubits of a wider register that share interior qubits only, after a gate the second one is disjoint from
    for _ in range(nx):
        n = rng.choice([5, 5, 6])
        for _try in range(100):
            T1, T2 = sorted(rng.sample(range(n), 3)), sorted(rng.sample(range(n), 3))
            if set(T1) & set(T2) and T1[0] != T2[0] and T1[-1] != T2[-1]:
                break
        free = [q_ for q_ in range(n) if q_ not in T2]
        first = [rng.choice(free)] if free else [T1[0]]

        def g3(qs):
            return dict(kind='gen', qubits=list(qs), gen=(tuple(rng.choice('XYZ') for _q in qs), rng.choice((0, 2))), order=list(qs), via='set')
        prog3 = [g3(first), g3(T1), g3(T2)] + ([g3(sorted(rng.sample(range(n), 3)))] if rng.random() < 0.5 else [])
        Qs3 = [G.rand_op(rng, n) for _k in range(4)]

        def run3(side, compiled, back):
            if side == 'py':
                c = CI.CliffordCircuit(n)
                for d in prog3:
                    c.take(CU.impl_gate(impl, d))
                lst = impl.plist(Qs3)
            else:
                c = TCI.CliffordCircuit(); c.N = n
                for d in prog3:
                    g_ = TCI.CliffordGate(*d['qubits']); g_.set_generator(tpauli(d['gen'])); c.take(g_)
                lst = tlist(Qs3, n)
            if compiled:
                c.compile()
            (c.backward if back else c.forward)(lst)
            return (impl.ops_of(lst) if side == 'py' else t_ops(lst)), CU.impl_layers(c)
        for compiled in (False, True):
            probe('CliffordCircuit.forward(compiled)' if compiled else 'CliffordCircuit.forward', lambda: run3('py', compiled, False), lambda: run3('t', compiled, False), ('three-qubit gates', prog3, Qs3))
            probe('CliffordCircuit.backward(compiled)' if compiled else 'CliffordCircuit.backward', lambda: run3('py', compiled, True), lambda: run3('t', compiled, True), ('three-qubit gates', prog3, Qs3))
    # ---- regions given as boolean masks (numpy mask for pyclifford, torch mask for the port)
    for _ in range(nx * 3):
        n = rng.choice([2, 3, 4, 4, 5])
        rows, r = G.rand_tableau(rng, n, rng.choice([0, 1, 1, 2, None]))
        r = min(r, n)
        bm = [rng.random() < 0.5 for _q in range(n)]
        reg = [q_ for q_ in range(n) if bm[q_]]
        probe('StabilizerState.entropy', lambda: int(impl.state(rows, r).entropy(np.array(bm, dtype=bool))), lambda: ival(tstate(rows, r).entropy(torch.tensor(bm, dtype=torch.bool))),
              ('bool-mask', rows, r, bm),
              when_pred=lambda a_, b_: 'explained-by-real-rank-in-torch-z2rank' if (not isinstance(b_, str) and not isinstance(a_, str) and _entropy_gf2(rows, r, n, reg) == a_ and _entropy_real_rank(rows, r, n, reg) == b_) else '')
    # ---- large grids of string pairs (more than 4096 pairs, sizes that are not multiples of a block), products of long polynomials
    for L1, L2 in ([(70, 70), (100, 45)] if ctx.tier == 'quick' else [(70, 70), (100, 45), (129, 33), (64, 65), (300, 17), (5000, 1), (1, 4099)]):
        n = rng.choice([3, 4, 5])
        A_ = np.array([[rng.randrange(2) for _ in range(2 * n)] for _ in range(L1)], dtype=np.int_)
        B_ = np.array([[rng.randrange(2) for _ in range(2 * n)] for _ in range(L2)], dtype=np.int_)
        probe('ipow_product', lambda: [int(U.ipow(a, b)) for a in A_ for b in B_],
              lambda: [ival(v) for v in TU.ipow_product(torch.tensor(A_, dtype=F), torch.tensor(B_, dtype=F)).reshape(-1).tolist()], ('grid', L1, L2, n))
        if L1 * L2 <= 5000:
            ta_ = [((O.from_gp(g_, 0)[0], rng.randrange(4)), complex(rng.choice([1, -1, 2]))) for g_ in A_.tolist()]
            tb_ = [((O.from_gp(g_, 0)[0], rng.randrange(4)), complex(rng.choice([1, -1, 2]))) for g_ in B_.tolist()]
            pa_ = lambda p: cmap_of(np.asarray(p.gs), np.asarray(p.ps), np.asarray(p.cs))
            tq_ = lambda p: cmap_of(p.gs.tolist(), p.ps.tolist(), p.cs.tolist())
            probe('PauliPolynomial.__matmul__', lambda: pa_(impl.poly(ta_) @ impl.poly(tb_)), lambda: tq_(tpoly(ta_) @ tpoly(tb_)), ('long', L1, L2, n), cmp=close_maps)
    # ---- sums on wide registers whose strings differ only on the last qubits (or only on the first ones)
    for _ in range(max(4, nx // 6)):
        n = rng.choice([13, 14, 16, 20, 24, 27, 33, 40])
        base = G.rand_op(rng, n)[0]
        def tweak(l_, where):
            l_ = list(l_)
            for q_ in where:
                l_[q_] = rng.choice([c_ for c_ in 'IXYZ' if c_ != l_[q_]])
            return tuple(l_)
        variants = [base, tweak(base, [n - 1]), tweak(base, [n - 1]), tweak(base, [n - 2, n - 1]), tweak(base, [0]), tweak(base, [0, n - 1])]
        terms_w = [((v_, rng.randrange(4)), complex(rng.choice([1, -1, 2, 0.5]))) for v_ in variants for _k in range(rng.choice([1, 2]))]
        rng.shuffle(terms_w)
        pa_ = lambda p: cmap_of(np.asarray(p.gs), np.asarray(p.ps), np.asarray(p.cs))
        tq_ = lambda p: cmap_of(p.gs.tolist(), p.ps.tolist(), p.cs.tolist())
        probe('PauliPolynomial.reduce', lambda: (pa_(impl.poly(terms_w).reduce()), len(impl.poly(terms_w).reduce().cs)), lambda: (tq_(tpoly(terms_w).reduce()), len(tpoly(terms_w).reduce().cs)), ('wide', n, terms_w),
              cmp=lambda a_, b_: a_[1] == b_[1] and close_maps(a_[0], b_[0]))
        half = len(terms_w) // 2
        probe('PauliPolynomial.__add__', lambda: pa_(impl.poly(terms_w[:half]) + impl.poly(terms_w[half:])), lambda: tq_(tpoly(terms_w[:half]) + tpoly(terms_w[half:])), ('wide', n, terms_w), cmp=close_maps)
    # ---- density matrices of states with nine or more active stabilizers (more than 256 group elements)
    for n in ([9] if ctx.tier == 'quick' else [9, 10, 11]):
        rows, r = G.rand_tableau(rng, n, rng.choice([0, 0, 1]))
        dmp = lambda: (lambda d_: sorted((O.from_gp(g_, int(p_)), round(float(np.real(c_)) * 2 ** n, 6)) for g_, p_, c_ in zip(np.asarray(d_.gs), np.asarray(d_.ps), np.asarray(d_.cs))))(impl.state(rows, r).density_matrix)
        dmt = lambda: (lambda d_: sorted((O.from_gp([ival(v) for v in g_], ival(p_)), round(float(complex(c_).real) * 2 ** n, 6)) for g_, p_, c_ in zip(d_.gs.tolist(), d_.ps.tolist(), d_.cs.tolist())))(tstate(rows, r).density_matrix)
        probe('StabilizerState.density_matrix', dmp, dmt, ('many-generators', n, r, rows))
    # ---- maps with structure: Pauli layers, signed permutations (SWAP / Hadamard layers), wide registers
    def special_map(n):
        kind = rng.choice(['random', 'pauli-layer', 'signed-permutation', 'identity', 'css', 'css'])
        if kind == 'random':
            return G.rand_map_ops(rng, n)
        if kind == 'css':            # CNOT / SWAP networks with Pauli signs: X strings to X strings, Z strings to Z strings
            tb_ = G.rand_css_tableau(rng, n, 'Z')
            return [(o_[0], 2 * rng.randrange(2)) for k_ in range(n) for o_ in (tb_[n + k_], tb_[k_])]
        rows_ = G.id_map_ops(n)
        if kind == 'signed-permutation':
            perm = list(range(n)); rng.shuffle(perm)
            new = []
            for k in range(n):
                xr, zr = rows_[2 * perm[k]], rows_[2 * perm[k] + 1]
                new += ([zr, xr] if rng.random() < 0.5 else [xr, zr])
            rows_ = new
        if kind != 'identity':
            rows_ = [(l_, 2 * rng.randrange(2)) for l_, _p in rows_]
        return rows_
    for _ in range(nx * 2):
        n = rng.choice([1, 2, 2, 3, 3, 4])
        A, B = special_map(n), special_map(n)
        probe('CliffordMap.compose', lambda: impl.ops_of(impl.cmap(A).compose(impl.cmap(B))), lambda: t_ops(tmap(A).compose(tmap(B))), (A, B))
        probe('CliffordMap.inverse', lambda: impl.ops_of(impl.cmap(A).inverse()), lambda: t_ops(tmap(A).inverse()), A)
        Qs = [G.rand_op(rng, n) for _ in range(3)]
        probe('PauliList.transform_by', lambda: impl.ops_of(impl.plist(Qs).transform_by(impl.cmap(A))), lambda: t_ops(tlist(Qs, n).transform_by(tmap(A))), (A, Qs))
    for n in ([12, 16] if ctx.tier == 'quick' else [12, 14, 16, 20, 24, 33]):
        A = G.rand_map_ops(rng, n, depth=3 * n)
        probe('CliffordMap.inverse', lambda: impl.ops_of(impl.cmap(A).inverse()), lambda: t_ops(tmap(A).inverse()), ('wide', n, A))
        Qs = [G.rand_op(rng, n) for _ in range(3)]
        gF = TCI.CliffordGate(*range(n)); gF.set_forward_map(tmap(A))
        gP = CI.CliffordGate(*range(n)); gP.set_forward_map(impl.cmap(A))
        probe('CliffordGate.backward', lambda: impl.ops_of(gP.backward(gP.forward(impl.plist(Qs)))), lambda: t_ops(gF.backward(gF.forward(tlist(Qs, n)))), ('wide', n))
    # ---- deeper programs: packing into layers, copies of circuits and of compiled layers, backward of copies
    for _ in range(nx):
        n = rng.choice([3, 4, 4, 5])
        prog = CU.rand_program(rng, n - 1 if rng.random() < 0.3 else n, rng.randrange(4, 12), kinds=('gen', 'fmap', 'bmap'))   # sometimes the last qubit stays idle
        Qs = [G.rand_op(rng, n) for _ in range(3)]

        def tgate2(d):
            g = TCI.CliffordGate(*d.get('order', d['qubits']))
            if d['kind'] == 'gen':
                g.set_generator(tpauli(d['gen']))
            elif d['kind'] == 'fmap':
                g.set_forward_map(tmap(d['F']))
            else:
                g.set_backward_map(tmap(d['Fi']))
            return g

        def build(side):
            if side == 'py':
                c = CI.CliffordCircuit(n)
                for d in prog:
                    c.take(CU.impl_gate(impl, d))
            else:
                c = TCI.CliffordCircuit(); c.N = n
                for d in prog:
                    c.take(tgate2(d))
            return c

        def act(side, how, back):
            c = build(side)
            if how == 'copy':
                c = c.copy()
                if getattr(c, 'N', None) is None:
                    c.N = n
            elif how == 'layer-compiled-copy':
                for layer in c.layers_forward():
                    layer.compile(n)
                c = c.copy()
                if getattr(c, 'N', None) is None:
                    c.N = n
            elif how == 'compiled':
                c.compile(n) if side == 't' else c.compile()
            elif how == 'copy-compiled':          # the copy must know its register: compile() without arguments
                c = c.copy()
                c.compile()
            lst = impl.plist(Qs) if side == 'py' else tlist(Qs, n)
            (c.backward if back else c.forward)(lst)
            return (impl.ops_of(lst) if side == 'py' else t_ops(lst)), CU.impl_layers(c)
        # the same program with its rotation gates built by clifford_rotation_gate from the full-register generator
        def full_gen(d):
            l = ['I'] * n
            for j, q in enumerate(d['qubits']):
                l[q] = d['gen'][0][j]
            return (tuple(l), d['gen'][1])

        def act_rot(side, back):
            if side == 'py':
                c = CI.CliffordCircuit(n)
                for d in prog:
                    c.take(CI.clifford_rotation_gate(impl.pauli(full_gen(d))) if d['kind'] == 'gen' and 'order' not in d else CU.impl_gate(impl, d))
            else:
                c = TCI.CliffordCircuit(); c.N = n
                for d in prog:
                    c.take(TCI.clifford_rotation_gate(tpauli(full_gen(d))) if d['kind'] == 'gen' and 'order' not in d else tgate2(d))
            lst = impl.plist(Qs) if side == 'py' else tlist(Qs, n)
            c.forward(lst)
            if back:
                c.backward(lst)
            return (impl.ops_of(lst) if side == 'py' else t_ops(lst)), CU.impl_layers(c)
        probe('CliffordCircuit.forward', lambda: act_rot('py', False), lambda: act_rot('t', False), ('gates built by clifford_rotation_gate', prog, Qs))
        probe('CliffordCircuit.backward', lambda: act_rot('py', True), lambda: act_rot('t', True), ('gates built by clifford_rotation_gate', prog, Qs))
        nzs = G.rand_op(rng, n, nonid=True)[0]
        for i0_ in range(n):
            for causal in (False, True):
                if causal and not any(c_ != 'I' for c_ in nzs[i0_:]):
                    continue
                probe('diagonalize(Pauli)', lambda: (impl.ops_of(CI.diagonalize(impl.pauli((nzs, 0)), i0_, causal).forward(impl.plist([(nzs, 0)] + Qs))), CU.impl_layers(CI.diagonalize(impl.pauli((nzs, 0)), i0_, causal))),
                      lambda: (t_ops(TCI.diagonalize(tpauli((nzs, 0)), i0_, causal).forward(tlist([(nzs, 0)] + Qs, n))), CU.impl_layers(TCI.diagonalize(tpauli((nzs, 0)), i0_, causal))), (nzs, i0_, causal))
        for how in ('plain', 'copy', 'layer-compiled-copy', 'compiled', 'copy-compiled'):
            for back in (False, True):
                nm = {'plain': 'CliffordCircuit.%s', 'copy': 'CliffordCircuit.copy.%s', 'copy-compiled': 'CliffordCircuit.copy.%s', 'layer-compiled-copy': 'CliffordLayer.copy(compiled).%s', 'compiled': 'CliffordCircuit.%s(compiled)'}[how] % ('backward' if back else 'forward')
                probe(nm, lambda: act('py', how, back), lambda: act('t', how, back), (prog, Qs, how))


def _entropy_gf2(rows, r, n, reg):
    """the entropy with the GF(2) rank (what the property demands)"""
    act = rows[r:n]
    L = len(act)
    rk = lambda mm: O.gf2_rank([list(x) for x in mm]) if len(mm) and len(mm[0]) else 0
    sub = lambda o, keep: [b for i in range(n) if (i in reg) == keep for b in O.to_g(o[0])[2 * i:2 * i + 2]]
    return len(reg) - (L - rk([sub(o, False) for o in act]))


def _entropy_real_rank(rows, r, n, reg):
    """the (repaired) entropy algorithm with the real matrix rank in place of the GF(2) rank: what torch's z2rank computes"""
    act = rows[r:n]
    L = len(act)
    rk = lambda mm: int(np.linalg.matrix_rank(np.array(mm, dtype=float))) if len(mm) and len(mm[0]) else 0
    sub = lambda o, keep: [b for i in range(n) if (i in reg) == keep for b in O.to_g(o[0])[2 * i:2 * i + 2]]
    if L == n:
        across = [o for o in act if any(sub(o, True)) and any(sub(o, False))]
        am = [[int(O.anticommute((tuple(x[0][i] for i in reg), 0), (tuple(y[0][i] for i in reg), 0))) for y in across] for x in across]
        return rk(am) // 2
    return len(reg) - (L - rk([sub(o, False) for o in act]))
