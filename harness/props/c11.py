"""C11 named gates are the textbook Cliffords; C(0..23) enumerates the one-qubit group."""
import itertools
import numpy as np
import oracle as O
import gen as G
import enc as E
import hutil as H

RULE = ('the finite gate tables (H,S,X,Y,Z, CNOT in both orientations, C(0..23)) exhaustively on all one/two-qubit operators, '
        'times placements at every position (pair) of registers N<=6 on random operators; pairwise distinctness, closure under '
        'compose/inverse of the 24 gates on the implementation; rejected indices and qubit counts. non-trivial = operator '
        'non-identity on the gate qubits; distinct = distinct (gate, placement, operator).')
ASSUMPTIONS = []

# textbook conjugation tables (images of X and Z as oracle operators on the gate's own qubits)
TEXT = {
    'H': [(('Z',), 0), (('X',), 0)],
    'S': [(('Y',), 0), (('Z',), 0)],
    'X': [(('X',), 0), (('Z',), 2)],
    'Y': [(('X',), 2), (('Z',), 2)],
    'Z': [(('X',), 2), (('Z',), 0)],
}


def cnot_rows(cpos, tpos):
    """images of X_0,Z_0,X_1,Z_1 (ascending positions) for control at cpos, target at tpos"""
    rows = [None] * 4
    def op(d):
        l = ['I', 'I']
        for k, v in d.items():
            l[k] = v
        return (tuple(l), 0)
    rows[2 * cpos] = op({cpos: 'X', tpos: 'X'})
    rows[2 * cpos + 1] = op({cpos: 'Z'})
    rows[2 * tpos] = op({tpos: 'X'})
    rows[2 * tpos + 1] = op({cpos: 'Z', tpos: 'Z'})
    return rows


def run(ctx):
    import impl
    CI, pc = impl.CI, impl.pc
    rng = ctx.rng

    def apply_gate(gate, Ps):
        lst = impl.plist(Ps)
        gate.forward(lst)
        return impl.ops_of(lst)

    # single-qubit named gates at every position
    for name, rows in TEXT.items():
        for n in range(1, ctx.size(5, 7)):
            for q in range(n):
                Ps = [G.rand_op(rng, n) for _ in range(6)] + [(tuple(c if i == q else 'I' for i in range(n)), p) for c in 'XYZ' for p in (0, 1)]
                try:
                    got = apply_gate(getattr(CI, name)(q), Ps)
                except Exception as e:
                    ctx.fail(name, 'implementation raised %r' % e, dict(N=n, q=q)); continue
                for P, g_ in zip(Ps, got):
                    w = H.map_apply_masked(rows, [q], P)
                    ctx.case((name, n, q, P), P[0][q] != 'I', sample=dict(op=name, N=n, qubit=q, P=P, result=g_))
                    if g_ != w:
                        ctx.fail(name, 'gate %s on qubit %d of %d does not act by the textbook table' % (name, q, n), dict(P=P, got=g_, want=w))
    # CNOT both orientations at all position pairs
    for n in range(2, ctx.size(5, 7)):
        for c, t in itertools.permutations(range(n), 2):
            lo, hi = min(c, t), max(c, t)
            rows = cnot_rows(0 if c < t else 1, 1 if c < t else 0)
            Ps = [G.rand_op(rng, n) for _ in range(5)]
            for a, b in (('X', 'I'), ('I', 'X'), ('Z', 'I'), ('I', 'Z'), ('Y', 'Y')):
                l = ['I'] * n; l[c] = a; l[t] = b
                Ps.append((tuple(l), 0))
            try:
                got = apply_gate(CI.CNOT(c, t), Ps)
            except Exception as e:
                ctx.fail('CNOT', 'implementation raised %r' % e, dict(N=n, c=c, t=t)); continue
            for P, g_ in zip(Ps, got):
                w = H.map_apply_masked(rows, [lo, hi], P)
                ctx.case(('CNOT', n, c, t, P), P[0][c] != 'I' or P[0][t] != 'I', sample=dict(op='CNOT', N=n, c=c, t=t, P=P, result=g_))
                if g_ != w:
                    ctx.fail('CNOT', 'CNOT(%d,%d) in %d qubits does not send X_c->X_cX_t, Z_t->Z_cZ_t' % (c, t, n), dict(P=P, got=g_, want=w))
    # qubit labels of every integer kind (Python int, signed and unsigned numpy integers, mixed), both orientations
    kinds = [int, np.int64, np.int32, np.int8, np.intp, np.uint8, np.uint16, np.uint32, np.uint64]
    for _ in range(ctx.budget(150, 1500)):
        n = rng.randrange(2, 7)
        c, t = rng.sample(range(n), 2)
        kc, kt = rng.choice(kinds), rng.choice(kinds)
        if np.array([kc(c), kt(t)]).dtype.kind not in 'iu':   # numpy promotes int64 with uint64 to float: not a list of integer labels
            kt = kc
        lo, hi = min(c, t), max(c, t)
        rows = cnot_rows(0 if c < t else 1, 1 if c < t else 0)
        Ps = [G.rand_op(rng, n) for _ in range(3)]
        for a, b in (('X', 'I'), ('I', 'Z')):
            l = ['I'] * n; l[c] = a; l[t] = b
            Ps.append((tuple(l), 0))
        ctx.case(('CNOT-labels', n, c, t, kc.__name__, kt.__name__), True, sample=dict(op='CNOT', N=n, c=c, t=t, label_types=[kc.__name__, kt.__name__]))
        ctx.count('labels:%s' % ('unsigned' if 'uint' in kc.__name__ + kt.__name__ else 'signed'))
        try:
            got = apply_gate(CI.CNOT(kc(c), kt(t)), Ps)
        except Exception as e:
            ctx.fail('CNOT', 'implementation raised %r for labels of type %s, %s' % (e, kc.__name__, kt.__name__), dict(N=n, c=c, t=t)); continue
        want = [H.map_apply_masked(rows, [lo, hi], P) for P in Ps]
        if got != want:
            ctx.fail('CNOT', 'CNOT(control=%d, target=%d) with labels of type %s, %s does not send X_c->X_cX_t, Z_t->Z_cZ_t' % (c, t, kc.__name__, kt.__name__),
                     dict(N=n, c=c, t=t, Ps=Ps, got=got, want=want))
        name = rng.choice(list(TEXT)); q = rng.randrange(n); kq = rng.choice(kinds)
        try:
            got1 = apply_gate(getattr(CI, name)(kq(q)), Ps)
        except Exception as e:
            ctx.fail(name, 'implementation raised %r for a label of type %s' % (e, kq.__name__), dict(N=n, q=q)); continue
        if got1 != [H.map_apply_masked(TEXT[name], [q], P) for P in Ps]:
            ctx.fail(name, 'gate %s on qubit %d given as %s does not act by the textbook table' % (name, q, kq.__name__), dict(N=n, q=q, Ps=Ps, got=got1))
    # the 24 indexed gates
    tabs = []
    for k in range(24):
        try:
            g = CI.C(k, 0)
            tabs.append(impl.ops_of(g.forward_map))
        except Exception as e:
            ctx.fail('C', 'C(%d) raised %r' % (k, e), dict(k=k)); tabs.append(None)
    ok = [t for t in tabs if t is not None]
    for k, t in enumerate(tabs):
        if t is None:
            continue
        ctx.case(('C', k), True, sample=dict(op='C', k=k, table=t))
        v = H.valid_map(t)
        if v:
            ctx.fail('C', 'C(%d) is not a valid gate: %s' % (k, v), dict(k=k, table=t))
        for j in range(k):
            if tabs[j] == t:
                ctx.fail('C', 'C(%d) and C(%d) are the same gate' % (j, k), dict(j=j, k=k, table=t))
        # acts by its table at any position
        n = rng.randrange(1, 5); q = rng.randrange(n)
        Ps = [G.rand_op(rng, n) for _ in range(3)]
        got = apply_gate(CI.C(k, q), Ps)
        if got != [H.map_apply_masked(t, [q], P) for P in Ps]:
            ctx.fail('C', 'C(%d) placed on qubit %d of %d does not act by its table' % (k, q, n), dict(k=k, Ps=Ps, got=got))
    if len(ok) == 24:
        for a in range(24):
            ia = impl.ops_of(impl.cmap(tabs[a]).inverse())
            if ia not in tabs:
                ctx.fail('C', 'inverse of C(%d) is not among the 24 gates' % a, dict(k=a, inverse=ia))
            for b in range(24):
                ab = impl.ops_of(impl.cmap(tabs[a]).compose(impl.cmap(tabs[b])))
                ctx.case(('C-compose', a, b), True)
                if ab not in tabs:
                    ctx.fail('C', 'C(%d) then C(%d) is not among the 24 gates' % (a, b), dict(a=a, b=b, product=ab))
    # gate constructors hand out fresh tables: changing one gate's map in place must not affect the next gate built
    for name in list(TEXT) + ['CNOT', 'C']:
        for _ in range(ctx.budget(3, 20)):
            mk = (lambda: CI.CNOT(0, 1)) if name == 'CNOT' else ((lambda k=rng.randrange(24): CI.C(k, 0)) if name == 'C' else (lambda: getattr(CI, name)(0)))
            g1 = mk()
            t1 = impl.ops_of(g1.forward_map)
            nq = len(t1) // 2
            g1.backward(impl.plist([G.rand_op(rng, nq)]))          # fills the lazily computed inverse
            g1.forward_map.rotate_by(impl.pauli(G.rand_herm(rng, nq, nonid=True)))
            g1.forward_map.gs[:] = (g1.forward_map.gs + 1) % 2      # the caller scribbles over the arrays it was handed
            g1.backward_map.ps[:] = (g1.backward_map.ps + 2) % 4
            t2 = impl.ops_of(mk().forward_map)
            ctx.case(('fresh-gate', name, _), True)
            if t2 != t1:
                ctx.fail(name, 'the table of a newly built gate depends on what was done in place to the map of an earlier gate', dict(first=t1, second=t2))
    # rejected input
    for k in list(range(-3, 0)) + list(range(24, 30)) + [100, -24, 10 ** 6, 0.5, 2.5, 23.9, -0.5, '3', '07', None]:
        try:
            CI.C(k, 0); got = 'no error'
        except ValueError:
            got = 'err ValueError'
        except Exception as e:
            got = impl.errname(e)
        ctx.case(('C-bad', k), True)
        if got != 'err ValueError':
            ctx.fail('C', 'index %r not rejected with ValueError (%s)' % (k, got), dict(k=repr(k)))
    for name, nq in (('H', 1), ('S', 1), ('X', 1), ('Y', 1), ('Z', 1), ('CNOT', 2)):
        for qs in ((), (0, 1, 2), (0, 1) if nq == 1 else (0,)):
            try:
                getattr(CI, name)(*qs); got = 'no error'
            except ValueError:
                got = 'err ValueError'
            except Exception as e:
                got = impl.errname(e)
            ctx.case((name + '-count', qs), True)
            if got != 'err ValueError':
                ctx.fail(name, 'wrong qubit count %s not rejected with ValueError (%s)' % (qs, got), dict(qubits=qs))
    for qs in ((), (0, 1)):
        try:
            CI.C(0, *qs); got = 'no error'
        except ValueError:
            got = 'err ValueError'
        except Exception as e:
            got = impl.errname(e)
        if got != 'err ValueError':
            ctx.fail('C', 'wrong qubit count %s not rejected with ValueError (%s)' % (qs, got), dict(qubits=qs))
    # named gates after use, copied, inside circuits, compiled: still the textbook action in both directions
    # (backward = conjugation by the inverse table, obtained from the oracle, not from the library)
    def inv_rows(rows):
        """oracle inverse of a small table: search the images of X_k, Z_k among all operators"""
        nq = len(rows) // 2
        gens = G.id_map_ops(nq)
        out = []
        for target in gens:
            found = None
            for letters in itertools.product('IXYZ', repeat=nq):
                for ph in (0, 2):
                    if H.map_apply(rows, (letters, ph)) == target:
                        found = (letters, ph)
            out.append(found)
        return out
    cases = [(nm, 1, TEXT[nm], (lambda q, nm=nm: getattr(CI, nm)(q[0]))) for nm in TEXT]
    for kk in range(24):
        try:
            cases.append(('C(%d)' % kk, 1, impl.ops_of(CI.C(kk, 0).forward_map), (lambda q, kk=kk: CI.C(kk, q[0]))))
        except Exception:
            pass
    cases.append(('CNOT(c<t)', 2, cnot_rows(0, 1), lambda q: CI.CNOT(q[0], q[1])))
    cases.append(('CNOT(c>t)', 2, cnot_rows(1, 0), lambda q: CI.CNOT(q[1], q[0])))
    for nm, nq, rows, mk in cases:
        irows = inv_rows(rows)
        for _ in range(ctx.budget(2, 12)):
            n = rng.randrange(nq, 5)
            qs = sorted(rng.sample(range(n), nq))
            Ps = [G.rand_op(rng, n) for _k in range(4)]
            wantF = [H.map_apply_masked(rows, qs, P) for P in Ps]
            wantB = [H.map_apply_masked(irows, qs, P) for P in Ps]
            for how in ('used-then-copied', 'circuit', 'circuit-compiled', 'Circuit-compiled', 'circuit-copy'):
                ctx.case(('named-history', nm, how, n, tuple(qs), tuple(Ps)), True, sample=dict(op=nm, how=how, N=n, qubits=qs))
                ctx.count('history:' + how)
                try:
                    g = mk(qs)
                    if how == 'used-then-copied':
                        g.backward(impl.plist(Ps)); g.forward(impl.plist(Ps))       # fills the lazily computed maps
                        obj = g.copy()
                    else:
                        obj = (CI.Circuit(n) if how.startswith('Circuit') else CI.CliffordCircuit(n))
                        obj.take(g)
                        if how.endswith('compiled'):
                            obj.compile()
                        if how == 'circuit-copy':
                            obj.backward(impl.plist(Ps))
                            obj = obj.copy()
                    gotF = impl.ops_of(obj.forward(impl.plist(Ps)))
                    gotB = impl.ops_of(obj.backward(impl.plist(Ps)))
                except Exception as e:
                    ctx.fail(nm, 'implementation raised %r (%s)' % (e, how), dict(N=n, qubits=qs)); continue
                if gotF != wantF:
                    ctx.fail(nm, 'gate %s on qubits %s (%s): forward is not the textbook conjugation' % (nm, qs, how), dict(N=n, qubits=qs, Ps=Ps, got=gotF, want=wantF))
                if gotB != wantB:
                    ctx.fail(nm, 'gate %s on qubits %s (%s): backward is not the conjugation by the inverse gate' % (nm, qs, how), dict(N=n, qubits=qs, Ps=Ps, got=gotB, want=wantB))
    # sequences of named gates placed with take(): the circuit acts as the gates applied one after the other in the order given
    # (several gates stacked on one qubit, then a CNOT in either orientation across it), forward and backward, plain and compiled
    one_q = [c_ for c_ in cases if c_[1] == 1]
    two_q = [c_ for c_ in cases if c_[1] == 2]
    inv_cache = {}
    for _ in range(ctx.budget(40, 400)):
        n = rng.choice([2, 3, 3, 4])
        seq = []
        qa = rng.randrange(n)
        for _k in range(rng.choice([1, 2, 2, 3])):           # a stack on one qubit
            seq.append((rng.choice(one_q), [qa]))
        qb = rng.choice([q_ for q_ in range(n) if q_ != qa])
        seq.append((rng.choice(two_q), sorted([qa, qb])))    # CNOT(c<t) or CNOT(c>t) across it
        for _k in range(rng.randrange(0, 3)):
            if rng.random() < 0.5:
                seq.append((rng.choice(one_q), [rng.randrange(n)]))
            else:
                seq.append((rng.choice(two_q), sorted(rng.sample(range(n), 2))))
        if rng.random() < 0.3:
            rng.shuffle(seq)
        Ps = [G.rand_op(rng, n) for _k in range(4)]
        wantF = list(Ps)
        for (nm_, nq_, rows_, mk_), qs_ in seq:
            wantF = [H.map_apply_masked(rows_, qs_, P) for P in wantF]
        wantB = list(Ps)
        for (nm_, nq_, rows_, mk_), qs_ in reversed(seq):
            if nm_ not in inv_cache:
                inv_cache[nm_] = inv_rows(rows_)
            wantB = [H.map_apply_masked(inv_cache[nm_], qs_, P) for P in wantB]
        desc = [(c_[0], qs_) for c_, qs_ in seq]
        for how in ('circuit', 'circuit-compiled', 'Circuit', 'Circuit-compiled'):
            ctx.case(('named-sequence', how, n, str(desc), tuple(Ps)), True, sample=dict(op='sequence', how=how, N=n, gates=desc))
            ctx.count('sequence:' + how)
            try:
                obj = (CI.Circuit(n) if how.startswith('Circuit') else CI.CliffordCircuit(n))
                for (nm_, nq_, rows_, mk_), qs_ in seq:
                    obj.take(mk_(qs_))
                if how.endswith('compiled'):
                    obj.compile()
                gotF = impl.ops_of(obj.forward(impl.plist(Ps)))
                gotB = impl.ops_of(obj.backward(impl.plist(Ps)))
            except Exception as e:
                ctx.fail('named gates in sequence', 'implementation raised %r (%s)' % (e, how), dict(N=n, gates=desc)); continue
            if gotF != wantF:
                ctx.fail('named gates in sequence', 'the circuit built from %s (%s) does not act as the gates applied in that order' % (desc, how), dict(N=n, gates=desc, Ps=Ps, got=gotF, want=wantF))
            if gotB != wantB:
                ctx.fail('named gates in sequence', 'the circuit built from %s (%s) run backward does not act as the inverse gates in reverse order' % (desc, how), dict(N=n, gates=desc, Ps=Ps, got=gotB, want=wantB))
