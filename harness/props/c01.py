"""C01 Pauli multiplication is exact: correspondence of acq/ipow/p0/mul/chains/batch_dot with the model,
and the property itself on the implementation against the letter-table oracle and dense matrices."""
import itertools
import numpy as np
import oracle as O
import gen as G
import enc as E

RULE = ('pairs of operators: exhaustive over all strings and phases for N=1, all string pairs for N=2 (all 16 phase '
        'pairs in thorough), random N<=12 and N=40 beyond; chains of up to 50 factors; polynomial products. '
        'A case is non-trivial when both operands are non-identity; distinct = distinct (operand, operand) tuples.')
ASSUMPTIONS = ['the N-qubit operator is the Kronecker product of one-qubit matrices (definition of act on lists)',
               'float products of dyadic coefficients are exact']


def _pairs(ctx):
    rng = ctx.rng
    phases = range(4)
    # N = 1 exhaustive
    for a, b in itertools.product('IXYZ', repeat=2):
        for pa, pb in itertools.product(phases, repeat=2):
            yield ((a,), pa), ((b,), pb)
    # N = 2: all string pairs
    strs2 = list(itertools.product('IXYZ', repeat=2))
    for a in strs2:
        for b in strs2:
            if ctx.tier == 'thorough':
                for pa, pb in itertools.product(phases, repeat=2):
                    yield (a, pa), (b, pb)
            else:
                yield (a, rng.randrange(4)), (b, rng.randrange(4))
    n_rand = ctx.budget(1500, 20000)
    for _ in range(n_rand):
        n = rng.choice([3, 3, 4, 5, 6, 8, 12])
        yield G.rand_op(rng, n), G.rand_op(rng, n)
    for _ in range(ctx.budget(20, 200)):
        yield G.rand_op(rng, 40), G.rand_op(rng, 40)


def run(ctx):
    import impl
    U, pc = impl.U, impl.pc
    rng = ctx.rng
    # ---- pairs: kernels and Pauli.__matmul__
    for a, b in _pairs(ctx):
        n = len(a[0])
        ga, gb = impl.garr(a[0]), impl.garr(b[0])
        nontriv = any(c != 'I' for c in a[0]) and any(c != 'I' for c in b[0])
        ctx.case((a, b), nontriv, sample=dict(op='matmul', a=E.epauli(ga, a[1]), b=E.epauli(gb, b[1])))
        ctx.count('N=%d' % n)
        try:
            acq_i = int(U.acq(ga, gb))
            ipow_i = int(U.ipow(ga, gb))
            pr = pc.Pauli(ga, a[1]) @ pc.Pauli(gb, b[1])
            prod_i = ([int(v) for v in pr.g], int(pr.p) % 4)
        except Exception as e:
            ctx.fail('Pauli.__matmul__', 'implementation raised %r' % e, dict(a=a, b=b))
            continue
        sa, sb = E.estr(ga), E.estr(gb)
        ctx.q('acq', 'acq %s %s' % (sa, sb), acq_i, int)
        ctx.q('ipow', 'ipow %s %s' % (sa, sb), ipow_i, int)
        ctx.q('mul', 'mul %s:%d %s:%d' % (sa, a[1], sb, b[1]), prod_i, lambda s: (E.dpauli(s)[0], E.dpauli(s)[1] % 4))
        # property on the implementation, independent oracle
        want = O.omul(a, b)
        got = O.from_gp(*prod_i)
        if got != want:
            ctx.fail('Pauli.__matmul__', 'product differs from the matrix product', dict(a=a, b=b, got=got, want=want))
        if bool(acq_i) != O.anticommute(a, b) or acq_i not in (0, 1):
            ctx.fail('acq', 'anticommutation indicator wrong', dict(a=a, b=b, got=acq_i, want=int(O.anticommute(a, b))))
        if n <= 3 and rng.random() < 0.3:
            if not np.allclose(O.dense(got), O.dense(a) @ O.dense(b)):
                ctx.fail('Pauli.__matmul__', 'dense matrix product differs', dict(a=a, b=b, got=got))
            ctx.count('dense')
    # ---- p0 / ps0 / acq_mat
    for _ in range(ctx.budget(100, 1000)):
        n = rng.choice([1, 2, 3, 5, 8])
        L = rng.randrange(1, 6)
        ops = [G.rand_op(rng, n) for _ in range(L)]
        gs = np.array([O.to_g(o[0]) for o in ops], dtype=np.int_)
        ctx.case(('ps0', tuple(ops)), True)
        ps0 = [int(v) for v in U.ps0(gs)]
        for g, v in zip(gs, ps0):
            ctx.q('p0', 'p0 %s' % E.estr(g), v, int)
            want = sum(1 for c in O.from_gp(g, 0)[0] if c == 'Y') % 4
            if v != want:
                ctx.fail('ps0', 'bare phase is not the number of Y letters mod 4', dict(g=E.estr(g), got=v, want=want))
        am = U.acq_mat(gs)
        ctx.q('acqmat', 'acqmat %s' % E.estrs(gs), ';'.join(E.eints(r) for r in am.tolist()))
    # ---- chains: phases never drift
    for _ in range(ctx.budget(120, 1500)):
        n = rng.choice([1, 2, 3, 4, 6, 10])
        L = rng.choice([2, 3, 5, 10, 25, 50])
        ops = [G.rand_op(rng, n) for _ in range(L)]
        ctx.case(('chain', tuple(ops)), True, sample=dict(op='chain', length=L, N=n))
        ctx.count('chain-len-%d' % L)
        acc = impl.pauli(ops[0])
        for o in ops[1:]:
            acc = acc @ impl.pauli(o)
        got = O.from_gp(acc.g, acc.p)
        gs, ps = G.rows_gp(ops)
        ctx.q('chain', 'chain %s' % E.erows(gs, ps), got, lambda s: O.from_gp(*E.dpauli(s)))
        want = ops[0]
        for o in ops[1:]:
            want = O.omul(want, o)
        if got != want:
            ctx.fail('Pauli.__matmul__', 'chain of %d products drifts from the matrix product' % L, dict(ops=ops, got=got, want=want))
        # associativity with a random bracketing and squares
        k = rng.randrange(1, L)
        left = impl.pauli(ops[0])
        for o in ops[1:k]:
            left = left @ impl.pauli(o)
        right = impl.pauli(ops[k])
        for o in ops[k + 1:]:
            right = right @ impl.pauli(o)
        lr = left @ right
        if O.from_gp(lr.g, lr.p) != got:
            ctx.fail('Pauli.__matmul__', 'associativity fails', dict(ops=ops, split=k))
        sq = acc @ acc
        sq = O.from_gp(sq.g, sq.p)
        if any(c != 'I' for c in sq[0]) or sq[1] != (2 * got[1]) % 4:
            ctx.fail('Pauli.__matmul__', 'square is not i^(2p) identity', dict(op=got, square=sq))
    # ---- the chain kernel (pauli_combine) on arbitrary lists: repeated operators, dependent lists, phased identities, partial
    #      products that pass through a multiple of the identity (X.Y.Z = iI, iX.iX = -I)
    import hutil as H
    for _ in range(ctx.budget(150, 2000)):
        n = rng.choice([1, 1, 2, 2, 3, 4, 6])
        pool = [G.rand_op(rng, n) for _ in range(rng.randrange(1, 4))]
        pool.append((tuple('I' * n), rng.randrange(4)))
        if n == 1:
            pool += [(('X',), 0), (('Y',), 0), (('Z',), 0)]
        L = rng.choice([2, 3, 4, 6, 9])
        rows = [rng.choice(pool) for _ in range(L)]
        C = np.array([[1 if rng.random() < 0.7 else 0 for _ in range(L)] for _ in range(3)], dtype=np.int_)
        C[0, :] = 1
        gs_in, ps_in = G.rows_gp(rows)
        gs_in = np.array(gs_in, dtype=np.int_); ps_in = np.array(ps_in, dtype=np.int_)
        ctx.case(('combine', tuple(rows), str(C.tolist())), True, sample=dict(op='pauli_combine', length=L, N=n))
        try:
            go, po = U.pauli_combine(C, gs_in, ps_in)
        except Exception as e:
            ctx.fail('pauli_combine', 'implementation raised %r' % e, dict(rows=rows, C=C.tolist())); continue
        for c, g_, p_ in zip(C, go, po):
            got = O.from_gp(g_, p_)
            ctx.q('combine', 'combine %d %s %s' % (n, E.ebits(c), H.erows_ops(rows)), got, lambda s: O.from_gp(*E.dpauli(s)))
            want = O.oprod([r for b, r in zip(c, rows) if b], n)
            if got != want:
                ctx.fail('pauli_combine', 'chain product of the selected operators drifts from the matrix product (the partial products pass through a multiple of the identity)',
                         dict(rows=rows, selection=c.tolist(), got=got, want=want))
    # ---- mixed operand forms: the same operator written as Pauli (phase in p), monomial (phase or scale in c), polynomial
    def _forms(op):
        yield 'Pauli', impl.pauli(op), 1
        for k in range(4):
            yield 'PauliMonomial(c=i^%d)' % k, pc.PauliMonomial(impl.garr(op[0]), (op[1] - k) % 4).set_c(1j ** k), 1
        yield 'PauliMonomial(c=2.5)', pc.PauliMonomial(impl.garr(op[0]), op[1]).set_c(2.5), 2.5
        yield 'PauliPolynomial', impl.poly([(op, 1.0)]), 1
    def _value(obj, n):
        if isinstance(obj, pc.PauliPolynomial):
            d = {}
            for g, p, c in zip(np.asarray(obj.gs), np.asarray(obj.ps), np.asarray(obj.cs)):
                l, k = O.from_gp(g, p)
                d[l] = d.get(l, 0) + complex(c) * 1j ** k
            return {l: v for l, v in d.items() if abs(v) > 1e-12}
        l, k = O.from_gp(obj.g, obj.p)
        return {l: complex(getattr(obj, 'c', 1)) * 1j ** k}
    for _ in range(ctx.budget(60, 800)):
        n = rng.choice([1, 2, 3, 5])
        a, b = G.rand_op(rng, n), G.rand_op(rng, n)
        for (na, fa, sa) in _forms(a):
            for (nb, fb, sb) in _forms(b):
                ctx.case(('forms', a, b, na, nb), True, sample=dict(op='matmul forms', left=na, right=nb))
                try:
                    pr = fa @ fb
                    got = _value(pr, n)
                except Exception as e:
                    ctx.fail('__matmul__', 'implementation raised %r for %s @ %s' % (e, na, nb), dict(a=a, b=b)); continue
                l, k = O.omul(a, b)
                want = {l: sa * sb * 1j ** k}
                if set(got) != set(want) or abs(got[l] - want[l]) > 1e-9:
                    ctx.fail('__matmul__', '%s @ %s is not the matrix product (coefficient or phase of an operand lost)' % (na, nb),
                             dict(a=a, b=b, left=na, right=nb, got={''.join(x): str(v) for x, v in got.items()}, want={''.join(x): str(v) for x, v in want.items()}))
    # every operator squares to +-identity, so c i^p P has the inverse P / (c i^p): the library's PauliMonomial.inverse(), for all four
    # phase indicators (an odd indicator means the operator squares to MINUS the identity)
    for _ in range(ctx.budget(60, 800)):
        n = rng.choice([1, 2, 3])
        a = G.rand_op(rng, n)
        for k in range(4):
            for cf in (1.0, -2.0, 0.5j):
                ctx.case(('inverse', a[0], k, cf), k % 2 == 1, sample=dict(op='PauliMonomial.inverse', phase=k))
                try:
                    M_ = pc.PauliMonomial(impl.garr(a[0]), k).set_c(cf)
                    got = _value((M_ @ M_.inverse()).reduce(), n)
                except Exception as e:
                    ctx.fail('PauliMonomial.inverse', 'implementation raised %r' % e, dict(a=a, phase=k, c=str(cf))); continue
                if set(got) != {tuple('I' * n)} or abs(got[tuple('I' * n)] - 1) > 1e-9:
                    ctx.fail('PauliMonomial.inverse', 'M @ M.inverse() is not the identity for phase indicator %d (such an operator squares to %s identity)' % (k, 'minus' if k % 2 else 'plus'),
                             dict(a=a, phase=k, c=str(cf), got={''.join(x): str(v) for x, v in got.items()}))
    # strings stored in other integer dtypes (signed and unsigned, e.g. from numpy.unpackbits): same products
    for _ in range(ctx.budget(80, 1000)):
        n = rng.choice([1, 2, 3, 5])
        a, b = G.rand_op(rng, n), G.rand_op(rng, n)
        da, db = rng.choice([np.int8, np.int32, np.int64, np.uint8, np.uint16, np.uint64]), rng.choice([np.int8, np.int32, np.int64, np.uint8, np.uint16, np.uint64])
        if np.result_type(da, db).kind not in 'iu':
            db = da
        ctx.case(('dtype', a, b, da.__name__, db.__name__), True, sample=dict(op='matmul dtypes', left=da.__name__, right=db.__name__))
        ctx.count('dtype:' + ('unsigned' if 'uint' in da.__name__ + db.__name__ else 'signed'))
        try:
            pr = pc.Pauli(np.array(O.to_g(a[0]), dtype=da), a[1]) @ pc.Pauli(np.array(O.to_g(b[0]), dtype=db), b[1])
            raw = [int(v) for v in pr.g]
            got = O.from_gp(raw, pr.p) if all(v in (0, 1) for v in raw) else ('non-binary string', raw)
        except Exception as e:
            ctx.fail('Pauli.__matmul__', 'implementation raised %r for strings of dtype %s, %s' % (e, da.__name__, db.__name__), dict(a=a, b=b)); continue
        if got != O.omul(a, b):
            ctx.fail('Pauli.__matmul__', 'product of operators whose strings are stored as %s and %s is not the matrix product: %s' % (da.__name__, db.__name__, str(got)[:120]), dict(a=a, b=b, want=O.omul(a, b)))
    # ---- histories: operands that have been multiplied before and changed in place since (caches, aliasing)
    for _ in range(ctx.budget(120, 1500)):
        n = rng.choice([1, 2, 3, 4, 6])
        vals = [G.rand_op(rng, n) for _ in range(rng.randrange(2, 5))]
        objs = [impl.pauli(v) for v in vals]
        hist = []
        for step in range(rng.randrange(3, 12)):
            c = rng.random()
            if c < 0.5:
                i, j = rng.randrange(len(objs)), rng.randrange(len(objs))
                hist.append(('mul', i, j))
                try:
                    pr = objs[i] @ objs[j]
                    got = O.from_gp(pr.g, pr.p)
                except Exception as e:
                    ctx.fail('Pauli.__matmul__', 'implementation raised %r in a history' % e, dict(start=vals, history=hist)); break
                want = O.omul(vals[i], vals[j])
                if got != want:
                    ctx.fail('Pauli.__matmul__', 'product of operands with a history (earlier products, in-place rotations/transformations) differs from the matrix product',
                             dict(start=vals, history=hist, a=vals[i], b=vals[j], got=got, want=want)); break
                if rng.random() < 0.3 and len(objs) < 7:
                    objs.append(pr); vals.append(want)
            elif c < 0.8:
                i = rng.randrange(len(objs))
                Gop = G.rand_herm(rng, n, nonid=True)
                hist.append(('rotate_by', i, Gop))
                objs[i].rotate_by(impl.pauli(Gop))
                vals[i] = G.rotate_op(Gop, vals[i])
            else:
                i = rng.randrange(len(objs))
                M = G.rand_map_ops(rng, n)
                hist.append(('transform_by', i, M))
                objs[i].transform_by(impl.cmap(M))
                vals[i] = H.map_apply(M, vals[i])
        ctx.traces += 1
        ctx.case(('history', tuple(vals), str(hist)), True, sample=dict(op='history', N=n, steps=[h[0] for h in hist]))
    # ---- polynomial products (batch_dot through PauliPolynomial.__matmul__)
    for _ in range(ctx.budget(60, 600)):
        n = rng.choice([1, 2, 3, 5])
        L1, L2 = rng.randrange(1, 5), rng.randrange(1, 5)
        coef = lambda: complex(rng.choice([1, -1, 2, 0.5, -0.25, 3]), rng.choice([0, 0, 1, -0.5, 2]))
        t1 = [(G.rand_op(rng, n), coef()) for _ in range(L1)]
        t2 = [(G.rand_op(rng, n), coef()) for _ in range(L2)]
        ctx.case(('poly', tuple(t1), tuple(t2)), True, sample=dict(op='batch_dot', L1=L1, L2=L2, N=n))
        try:
            pr = impl.poly(t1) @ impl.poly(t2)
            gs, ps, cs = np.asarray(pr.gs), np.asarray(pr.ps), np.asarray(pr.cs)
        except Exception as e:
            ctx.fail('PauliPolynomial.__matmul__', 'implementation raised %r' % e, dict(t1=t1, t2=t2))
            continue
        got = [(O.from_gp(g, p), complex(c)) for g, p, c in zip(gs, ps, cs)]
        l1 = E.epoly(*zip(*[(O.to_g(o[0]), o[1], c) for o, c in t1]))
        l2 = E.epoly(*zip(*[(O.to_g(o[0]), o[1], c) for o, c in t2]))
        ctx.drv.ask('P set a poly ' + l1)
        ctx.drv.ask('P set b poly ' + l2)
        ans = ctx.drv.ask('P matmul c a b')
        model = [(O.from_gp(g, p), complex(float(c[0]), float(c[1]))) for g, p, c in E.dpoly(ans.split(' ')[2])] if ans.startswith('ok poly') else ans
        ctx.count('corr:batch_dot')
        if model != got:
            ctx.mismatch('batch_dot', 'P matmul %s %s' % (l1, l2), str(model), str(got))
        want = [(O.omul(a, b), ca * cb) for a, ca in t1 for b, cb in t2]
        if got != want:
            ctx.fail('batch_dot', 'term j1*L2+j2 is not term j1 times term j2', dict(t1=t1, t2=t2, got=got, want=want))
