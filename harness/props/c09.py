"""C09 a circuit acts as the ordered product of its gates."""
import numpy as np
import oracle as O
import gen as G
import enc as E
import hutil as H
import circ_util as CU

RULE = ('gate programs (generator gates, forward-map gates, backward-map gates, named gates, CNOT in both orientations; '
        'ascending qubit tuples) of length <=30 on N<=6 qubits, biased to overlapping and sliding gates; configurations '
        '{uncompiled, layer-compiled, circuit-compiled} x {CliffordCircuit, Circuit} x {original, copy, copy extended with further gates, composed halves}; inputs: '
        'Pauli lists with all phases, polynomials, stabilizer states. non-trivial = program with at least two overlapping gates; '
        'distinct = distinct (program, configuration).')
ASSUMPTIONS = []


def overlapping(prog):
    for i, a in enumerate(prog):
        for b in prog[i + 1:]:
            if set(a['qubits']) & set(b['qubits']):
                return True
    return False


def run(ctx):
    import impl
    CI, pc = impl.CI, impl.pc
    rng = ctx.rng
    cid = 0
    def one(force=None):
        nonlocal cid
        N = rng.choice([1, 2, 3, 3, 4, 5, 6]) if force is None else rng.choice([3, 4, 4, 5])
        length = rng.choice([1, 2, 3, 5, 8, 12, 20, 30]) if force is None else rng.choice([5, 8, 12, 16])
        prog = CU.rand_program(rng, N, length)
        if force is None and rng.random() < 0.05:       # a wide register: qubit indices beyond 63, gates on the top qubits
            N = rng.choice([65, 66, 72])
            length = min(length, 8)
            prog = CU.wide_program(rng, N, length)
            ctx.count('wide-register')
        klass = rng.choice(['CliffordCircuit', 'Circuit']) if force is None else force[0]
        conf = rng.choice(['plain', 'plain', 'layers', 'compiled', 'copy', 'copy-compiled', 'composed', 'composed-compiled', 'recompiled', 'recompiled', 'copy-extended', 'copy-extended', 'copy-extended-compiled']) if force is None else force[1]
        ctx.count('class=' + klass); ctx.count('conf=' + conf); ctx.count('N=%d' % N)
        Ps = [G.rand_op(rng, N) for _ in range(4)] + G.id_map_ops(N)
        rows, r = G.rand_tableau(rng, N)
        rep = dict(N=N, program=[{k: v for k, v in d.items()} for d in prog], klass=klass, conf=conf)
        try:
            mk = (lambda: CI.CliffordCircuit(N)) if klass == 'CliffordCircuit' else (lambda: CI.Circuit(N))
            cid += 1
            a = 'c%d' % cid
            ctx.drv.ask('circ %s new %d' % (a, N))
            if conf.startswith('composed') and klass == 'CliffordCircuit':
                k = rng.randrange(0, length + 1)
                c1, c2 = mk(), mk()
                ctx.drv.ask('circ %sb new %d' % (a, N))
                for d in prog[:k]:
                    c1.take(CU.impl_gate(impl, d)); CU.model_take(ctx.drv, a, d)
                for d in prog[k:]:
                    c2.take(CU.impl_gate(impl, d)); CU.model_take(ctx.drv, a + 'b', d)
                circ = c1.compose(c2)
                ctx.drv.ask('circ %s compose %sb' % (a, a))
            elif conf.startswith('copy-extended') and klass == 'CliffordCircuit':
                # copy a circuit, then keep building on the copy (the original goes its own way): the copy is a circuit like any other
                c0 = mk()
                k = rng.randrange(0, length + 1)
                for d in prog[:k]:
                    c0.take(CU.impl_gate(impl, d)); CU.model_take(ctx.drv, a, d)
                circ = c0.copy()
                ctx.drv.ask('circ %s copy %sk' % (a, a)); a = a + 'k'
                c0.take(CI.H(0))
                for d in prog[k:]:
                    circ.take(CU.impl_gate(impl, d)); CU.model_take(ctx.drv, a, d)
            elif conf == 'recompiled':
                # compile (whole circuit or layer by layer), keep adding gates, compile again: the second compilation must see the new gates
                circ = mk()
                k = rng.randrange(0, length + 1)
                for d in prog[:k]:
                    circ.take(CU.impl_gate(impl, d)); CU.model_take(ctx.drv, a, d)
                if rng.random() < 0.5:
                    circ.compile(); ctx.drv.ask('circ %s compile' % a)
                else:
                    for layer in circ.layers_forward():
                        layer.compile(N)
                    ctx.drv.ask('circ %s compile' % a)
                for d in prog[k:]:
                    circ.take(CU.impl_gate(impl, d)); CU.model_take(ctx.drv, a, d)
            else:
                circ = mk()
                for d in prog:
                    circ.take(CU.impl_gate(impl, d)); CU.model_take(ctx.drv, a, d)
            # layer structure (strict)
            lay = CU.impl_layers(circ)
            ml = ctx.drv.ask('circ %s layers' % a)
            ctx.count('corr:layers')
            if ml.replace('Gc', 'G') != lay.replace('Gc', 'G'):
                ctx.mismatch('take', 'program of %d gates' % length, ml, lay, dict(rep=rep))
            if conf in ('copy', 'copy-compiled') and klass == 'CliffordCircuit':
                orig = circ
                circ = circ.copy()
                ctx.drv.ask('circ %s copy %sk' % (a, a)); a = a + 'k'
                # mutate the original afterwards: the copy must not notice
                orig.take(CI.H(0))
            if conf == 'layers':
                for layer in circ.layers_forward():
                    layer.compile(N)
                ctx.drv.ask('circ %s compilelayers' % a)
            if conf == 'recompiled':
                lay = CU.impl_layers(circ)
            if conf.endswith('compiled'):
                circ.compile()
                ctx.drv.ask('circ %s compile' % a)
            # forward on a Pauli list, a polynomial and a state
            lst = impl.plist(Ps)
            circ.forward(lst)
            got = impl.ops_of(lst)
            want = CU.oracle_forward(prog, Ps)
            ctx.case((tuple(map(str, prog)), klass, conf), overlapping(prog), sample=dict(op='forward', N=N, length=length, klass=klass, conf=conf, layers=lay))
            if got != want:
                ctx.fail('%s.forward' % klass, 'forward differs from applying the gates one at a time in program order (configuration %s)' % conf,
                         dict(rep, Ps=Ps, got=got, want=want))
            if a is not None:
                ans = ctx.drv.ask('circ %s fwd L 0 %s _ - none' % (a, H.erows_ops(Ps)))
                ctx.count('corr:forward'); ctx.traces += 1
                mv = H.drows_ops(ans.split(' ')[2]) if ans.startswith('ok ') else ans
                if mv != got:
                    ctx.mismatch('forward', 'circ fwd L (program of %d gates, %s)' % (length, conf), str(mv)[:500], str(got)[:500], dict(rep=rep))
            st = impl.state(rows, r)
            circ.forward(st)
            if impl.ops_of(st) != CU.oracle_forward(prog, rows) or int(st.r) != r:
                ctx.fail('%s.forward' % klass, 'forward on a state differs from gate-by-gate application (configuration %s)' % conf, dict(rep, rows=rows, r=r))
            terms = [(G.rand_op(rng, N), complex(rng.choice([1, -2, 0.5]), rng.choice([0, 1]))) for _ in range(3)]
            po = impl.poly(terms)
            circ.forward(po)
            gotp = [(O.from_gp(g, p), complex(c)) for g, p, c in zip(po.gs, po.ps, po.cs)]
            if gotp != list(zip(CU.oracle_forward(prog, [t[0] for t in terms]), [t[1] for t in terms])):
                ctx.fail('%s.forward' % klass, 'forward on a polynomial differs from gate-by-gate application', dict(rep, terms=terms))
            # each gate acts only on its qubits: untouched columns
            if length == 1:
                d = prog[0]
                for P, g_ in zip(Ps, got):
                    for q in range(N):
                        if q not in d['qubits'] and g_[0][q] != P[0][q]:
                            ctx.fail('CliffordGate.forward', 'gate changed a qubit outside its declared qubits', dict(rep, P=P, got=g_))
        except Exception as e:
            import traceback
            ctx.fail('%s' % klass, 'implementation raised %r' % e, dict(rep, tb=traceback.format_exc()[-600:]))

    for it in range(ctx.budget(250, 3000)):
        one()
    # the same object after earlier use: one backward run (povm() does this), then forward; forward twice; backward twice then forward
    for _ in range(ctx.budget(80, 800)):
        N = rng.choice([1, 2, 3, 3, 4])
        prog = CU.rand_program(rng, N, rng.choice([1, 2, 3, 5, 8]))
        klass = rng.choice(['CliffordCircuit', 'Circuit', 'gate'])
        Ps = [G.rand_op(rng, N) for _k in range(4)]
        scratch = [G.rand_op(rng, N) for _k in range(2)]
        pre = rng.choice([('b',), ('b', 'b'), ('f',), ('b', 'f'), ('f', 'b')])
        try:
            if klass == 'gate':
                prog = prog[:1]
                obj = CU.impl_gate(impl, prog[0])
            else:
                obj = CI.CliffordCircuit(N) if klass == 'CliffordCircuit' else CI.Circuit(N)
                for d in prog:
                    obj.take(CU.impl_gate(impl, d))
            ctx.case(('used-then-forward', klass, str(prog), pre, tuple(Ps)), True, sample=dict(op='forward after earlier runs', how=klass, earlier=pre, N=N))
            ctx.count('used-then-forward:' + ''.join(pre))
            for step in pre:
                (obj.backward if step == 'b' else obj.forward)(impl.plist(scratch))
            got = impl.ops_of(obj.forward(impl.plist(Ps)))
            want = CU.oracle_forward(prog, Ps)
            if got != want:
                ctx.fail('%s.forward' % (type(obj).__name__), 'after earlier runs %s of the same object, forward is no longer the ordered product of its gates' % (pre,),
                         dict(N=N, program=prog, Ps=Ps, earlier=pre, got=got, want=want))
            gotb = impl.ops_of(obj.backward(impl.plist(Ps)))
            wantb = CU.oracle_backward(prog, Ps)
            if gotb != wantb:
                ctx.fail('%s.backward' % (type(obj).__name__), 'after earlier runs %s and a forward run of the same object, backward is no longer the inverse product' % (pre,),
                         dict(N=N, program=prog, Ps=Ps, earlier=pre, got=gotb, want=wantb))
        except Exception as e:
            ctx.fail(klass, 'implementation raised %r after earlier runs %s' % (e, pre), dict(N=N, program=prog))
    # a broken correspondence is not yet a violation: search the configurations that disagreed for an input on which the
    # property itself fails (forward differs from the ordered product)
    if ctx.mismatches and not ctx.failures:
        forces = sorted({(m['rep']['klass'], m['rep']['conf']) for m in ctx.mismatches if 'rep' in m})
        n_search = 0
        while forces and not ctx.failures and n_search < ctx.budget(1500, 6000):
            one(forces[n_search % len(forces)])
            n_search += 1
        ctx.count('failing-input-search', n_search)
