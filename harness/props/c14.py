"""C14 mid-circuit measurement and post-selection follow the quantum trajectory."""
import numpy as np
import oracle as O
import gen as G
import enc as E
import hutil as H
import rng as R
import circ_util as CU

RULE = ('programs interleaving gates and measurement layers (N<=5, <=12 items, 1-3 measured qubits per layer), input states pure and '
        'mixed, jitted coins observed; post-selection of signed Paulis on pure states (all branches: certain, impossible, random); '
        'backward with the own record, supplied possible / impossible / wrong-length records. non-trivial = at least one random '
        'measurement outcome; distinct = distinct (program, state, outcomes).')
ASSUMPTIONS = ['projection postulate at group level (see C06)']


def rand_mprog(rng, N, length):
    prog = []
    for _ in range(length):
        if rng.random() < 0.35:
            k = rng.randrange(1, min(3, N) + 1)
            prog.append(dict(kind='meas', qubits=rng.sample(range(N), k)))
        else:
            prog.append(CU.rand_gate(rng, N))
    if not any(d['kind'] == 'meas' for d in prog):
        prog.insert(rng.randrange(len(prog) + 1), dict(kind='meas', qubits=[rng.randrange(N)]))
    return prog


def Zop(N, q):
    return (tuple('Z' if i == q else 'I' for i in range(N)), 0)


def oracle_traj(prog, rows, r, N, results):
    """follow the trajectory with the recorded results (+1/-1 in order); returns (kinds, determined list, active generators)"""
    act = list(rows[r:N])
    kinds, det = [], []
    it = iter(results)
    for d in prog:
        if d['kind'] == 'meas':
            for q in d['qubits']:
                res = next(it)
                k, dd, new = O.measure_spec(act, N, Zop(N, q), random_out=(0 if res == 1 else 1))
                kinds.append(k); det.append(dd); act = new
        else:
            act = [CU.oracle_gate(d, P) for P in act]
    return kinds, det, act


def run(ctx):
    import impl
    CI, pc = impl.CI, impl.pc
    rng = ctx.rng
    R.warm_up()
    cid = 0
    for it in range(ctx.budget(150, 1500)):
        N = rng.choice([1, 2, 3, 3, 4, 5])
        prog = rand_mprog(rng, N, rng.choice([1, 2, 3, 5, 8, 12]))
        rows, r = G.rand_tableau(rng, N, rng.choice([0, 0, None]))
        rep = dict(N=N, program=prog, rows=rows, r=r)
        try:
            circ = CI.Circuit(N)
            cid += 1
            a = 'm%d' % cid
            ctx.drv.ask('circ %s new %d' % (a, N))
            for d in prog:
                if d['kind'] == 'meas':
                    circ.measure(*d['qubits']); ctx.drv.ask('circ %s meas %s' % (a, E.eints(d['qubits'])))
                else:
                    circ.take(CU.impl_gate(impl, d)); CU.model_take(ctx.drv, a, d)
            lay = CU.impl_layers(circ)
            ml = ctx.drv.ask('circ %s layers' % a)
            ctx.count('corr:layers')
            if ml != lay:
                ctx.mismatch('take', 'program with measurements', ml, lay, dict(rep=rep))
            # gates added after a measurement never move in front of it: order of layers vs program order
            seen_meas = 0
            pos = {}
            for li, layer in enumerate(circ.layers_forward()):
                if not hasattr(layer, 'gates'):
                    seen_meas += 1
            st = impl.state(rows, r)
            sd = rng.randrange(1 << 30)
            R.seed_numba(sd)
            circ.forward(st)
            results = [int(v) for v in circ.measure_result]
            lp = float(circ.log2prob)
            post, r2 = impl.ops_of(st), int(st.r)
            rep.update(results=results, log2prob=lp, post=post, r_post=r2, seed=sd)
            nm = sum(len(d['qubits']) for d in prog if d['kind'] == 'meas')
            if len(results) != nm or any(v not in (1, -1) for v in results):
                ctx.fail('Circuit.forward', 'measure_result %s is not one +1/-1 per measured qubit in order' % results, rep); continue
            kinds, det, act = oracle_traj(prog, rows, r, N, results)
            nrand = sum(1 for k in kinds if k != 'determined')
            for k in kinds:
                ctx.count('branch:' + k)
            ctx.case((str(prog), tuple(rows), r, tuple(results)), nrand > 0,
                     sample=dict(op='Circuit.forward', N=N, r=r, layers=lay, results=results, log2prob=lp))
            bad = False
            for i, (dd, res) in enumerate(zip(det, results)):
                if dd is not None and (1 if dd == 0 else -1) != res:
                    ctx.fail('MeasureLayer.forward', 'measurement %d: outcome fixed by the state is %+d, recorded %+d' % (i, 1 if dd == 0 else -1, res), rep); bad = True
            if abs(lp + nrand) > 1e-9:
                ctx.fail('Circuit.forward', 'accumulated log2prob %s, true log2 probability %d' % (lp, -nrand), rep); bad = True
            inv = O.tableau_invariant(post, N, r2)
            if inv:
                ctx.fail('Circuit.forward', 'final tableau invalid: ' + inv, rep); bad = True
            else:
                want = (N - len(O.canon_group(act)[0]), O.canon_group(act)[0])
                got = (r2, O.canon_group(post[r2:N])[0])
                if got != want:
                    ctx.fail('MeasureLayer.forward', 'final state/rank is not the trajectory state (rank %d, expected %d)' % (r2, want[0]), rep); bad = True
            # model with the coins of the random outcomes
            coins = [0 if res == 1 else 1 for k, res in zip(kinds, results) if k != 'determined']
            ans = ctx.drv.ask('circ %s fwd S %d %s %s - none' % (a, r, H.erows_ops(rows), E.ebits(coins)))
            ctx.count('corr:forward'); ctx.traces += 1
            if ans.startswith('ok '):
                _, mr, mt, mc, _ = ans.split(' ')
                mrows = H.drows_ops(mt)
                mv = (int(mr), O.canon_group(mrows[int(mr):N])[0], int(mc))
                rec = ctx.drv.ask('circ %s record' % a).split(' ')
                mv = mv + (E.dints(rec[0]), int(rec[1]))
            else:
                mv = ans
            iv = (r2, O.canon_group(post[r2:N])[0], 0, results, nrand)
            if mv != iv:
                ctx.mismatch('Circuit.forward', 'circ fwd S', str(mv)[:800], str(iv)[:800], dict(rep=rep))
            if bad:
                continue
            # backward with the own record restores a state compatible with the trajectory; pure input only (post-selection needs r=0)
            if r2 == 0:
                st2 = impl.state(post, 0)
                try:
                    circ.backward(st2)
                    inv = O.tableau_invariant(impl.ops_of(st2), N, int(st2.r))
                    if inv:
                        ctx.fail('Circuit.backward', 'backward with the own record gives an invalid tableau: ' + inv, rep)
                    mb = ctx.drv.ask('circ %s bwd S 0 %s _ - none' % (a, H.erows_ops(post)))
                    ctx.count('corr:backward')
                    iv2 = (int(st2.r), O.canon_group(impl.ops_of(st2)[int(st2.r):N])[0])
                    mv2 = (int(mb.split(' ')[1]), O.canon_group(H.drows_ops(mb.split(' ')[2])[int(mb.split(' ')[1]):N])[0]) if mb.startswith('ok ') else mb
                    if mv2 != iv2:
                        ctx.mismatch('Circuit.backward', 'circ bwd S own record', str(mv2)[:600], str(iv2)[:600], dict(rep=rep))
                    # oracle: adjoint of the recorded trajectory
                    act2 = list(post[0:N])
                    itr = list(results)
                    okk = True
                    for d in reversed(prog):
                        if d['kind'] == 'meas':
                            for q in reversed(d['qubits']):
                                res = itr.pop()
                                k, dd, new = O.measure_spec(act2, N, Zop(N, q), random_out=(0 if res == 1 else 1))
                                if k == 'determined' and (1 if dd == 0 else -1) != res:
                                    okk = False
                                act2 = new
                        else:
                            act2 = [CU.oracle_gate(d, P, inverse=True) for P in act2]
                    if okk and O.canon_group(act2)[0] != iv2[1]:
                        ctx.fail('Circuit.backward', 'backward with the own record is not the adjoint of the recorded trajectory', rep)
                except ValueError as e:
                    ctx.fail('Circuit.backward', 'own record rejected: %r' % e, rep)
                # the same record supplied explicitly, in every container the API may meet (list, tuple, numpy arrays): same state
                for form, rec_ in (('list', list(results)), ('tuple', tuple(results)), ('numpy int64 array', np.array(results, dtype=np.int64)),
                                   ('numpy int8 array', np.array(results, dtype=np.int8))):
                    st3 = impl.state(post, 0)
                    try:
                        circ.backward(st3, measure_result=rec_)
                        got3 = (int(st3.r), O.canon_group(impl.ops_of(st3)[int(st3.r):N])[0])
                    except Exception as e:
                        got3 = impl.errname(e) + ': ' + str(e)[:80]
                    ctx.count('record-form:' + form)
                    if got3 != iv2:
                        ctx.fail('Circuit.backward', 'the circuit\'s own record supplied as a %s gives %s instead of the state reached with the stored record' % (form, str(got3)[:160]),
                                 dict(rep, record=[int(v) for v in results], form=form)); break
                # wrong-length record
                try:
                    circ.backward(impl.state(post, 0), measure_result=results + [1]); gotw = 'no error'
                except ValueError:
                    gotw = 'err ValueError'
                except Exception as e:
                    gotw = impl.errname(e)
                if gotw != 'err ValueError':
                    ctx.fail('Circuit.backward', 'record of wrong length not rejected with ValueError (%s)' % gotw, rep)
                # impossible record: flip a determined final measurement
                flip = list(results)
                flip[-1] = -flip[-1]
                act3 = list(post[0:N])
                lastm = [d for d in prog if d['kind'] == 'meas'][-1]
                tail_gates = prog[len(prog) - 1 - [d['kind'] for d in reversed(prog)].index('meas') + 1:]
                for d in reversed(tail_gates):
                    act3 = [CU.oracle_gate(d, P, inverse=True) for P in act3]
                k, dd, _ = O.measure_spec(act3, N, Zop(N, lastm['qubits'][-1]), random_out=0)
                if k == 'determined':
                    try:
                        circ.backward(impl.state(post, 0), measure_result=flip); goti = 'no error'
                    except ValueError:
                        goti = 'err ValueError'
                    except Exception as e:
                        goti = impl.errname(e)
                    want_i = 'err ValueError' if (1 if dd == 0 else -1) != flip[-1] else 'no error'
                    ctx.count('impossible-record')
                    if goti != want_i and want_i == 'err ValueError':
                        ctx.fail('Circuit.backward', 'impossible record not rejected with ValueError (%s)' % goti, dict(rep, record=flip))
            # a second run of the same circuit object on another input: the record and the log-probability accumulate, and a
            # backward pass without a supplied record replays the outcomes of the LAST run (not of the first one)
            if nm > 0 and it % 2 == 0:
                rowsB, _rB = G.rand_tableau(rng, N, 0)
                stB = impl.state(rowsB, 0)
                sdB = rng.randrange(1 << 30)
                R.seed_numba(sdB)
                circ.forward(stB)
                allres = [int(v) for v in circ.measure_result]
                resB = allres[len(results):]
                postB = impl.ops_of(stB)
                repB = dict(rep, second_input=rowsB, second_seed=sdB, record_after_two_runs=allres)
                ctx.count('history:second-run')
                if allres[:len(results)] != results or len(resB) != nm:
                    ctx.fail('Circuit.forward', 'after a second run the record %s is not the first run\'s record %s followed by %d new outcomes' % (allres, results, nm), repB)
                else:
                    kindsB, detB, actB = oracle_traj(prog, rowsB, 0, N, resB)
                    nrandB = sum(1 for k in kindsB if k != 'determined')
                    if abs(float(circ.log2prob) + nrand + nrandB) > 1e-9:
                        ctx.fail('Circuit.forward', 'log2prob accumulated over two runs is %s, the two trajectories have log2 probability %d and %d' % (float(circ.log2prob), -nrand, -nrandB), repB)
                    # the model object, run a second time with the coins of the second run, holds the same accumulated record
                    coinsB = [0 if res_ == 1 else 1 for k_, res_ in zip(kindsB, resB) if k_ != 'determined']
                    ansB = ctx.drv.ask('circ %s fwd S 0 %s %s - none' % (a, H.erows_ops(rowsB), E.ebits(coinsB)))
                    recB = ctx.drv.ask('circ %s record' % a).split(' ')
                    ctx.count('corr:second-run')
                    mvB = (E.dints(recB[0]), int(recB[1])) if ansB.startswith('ok ') else ansB
                    if mvB != (allres, nrand + nrandB):
                        ctx.mismatch('Circuit.forward', 'circ fwd S (second run of the same object)', str(mvB)[:600], str((allres, nrand + nrandB))[:600], dict(rep=repB))
                    if int(stB.r) == 0:
                        mbB = ctx.drv.ask('circ %s bwd S 0 %s _ - none' % (a, H.erows_ops(postB)))
                        st_own = impl.state(postB, 0)
                        try:
                            circ.backward(st_own)
                        except ValueError as e_:
                            ctx.fail('Circuit.backward', 'after two forward runs, backward() with the own record raised %r on the state the last run ended in (it does not replay the last run\'s outcomes)' % (e_,), repB)
                            continue
                        # reference: a fresh circuit with the same program, the last run's outcomes supplied explicitly
                        fresh = CI.Circuit(N)
                        for d in prog:
                            if d['kind'] == 'meas':
                                fresh.measure(*d['qubits'])
                            else:
                                fresh.take(CU.impl_gate(impl, d))
                        st_ref = impl.state(postB, 0)
                        fresh.backward(st_ref, measure_result=list(resB))
                        g_own = O.canon_group(impl.ops_of(st_own)[int(st_own.r):N])[0]
                        g_ref = O.canon_group(impl.ops_of(st_ref)[int(st_ref.r):N])[0]
                        if g_own != g_ref:
                            ctx.fail('Circuit.backward', 'after two forward runs, backward() with the own record does not replay the outcomes of the last run', repB)
                        ctx.count('corr:second-run-backward')
                        mvO = (int(mbB.split(' ')[1]), O.canon_group(H.drows_ops(mbB.split(' ')[2])[int(mbB.split(' ')[1]):N])[0]) if mbB.startswith('ok ') else mbB
                        if mvO != (int(st_own.r), g_own):
                            ctx.mismatch('Circuit.backward', 'circ bwd S own record after two runs', str(mvO)[:600], str((int(st_own.r), g_own))[:600], dict(rep=repB))
        except Exception as e:
            import traceback
            ctx.fail('Circuit', 'implementation raised %r' % e, dict(rep, tb=traceback.format_exc()[-700:]))
    # post-selection
    for _ in range(ctx.budget(300, 3000)):
        N = rng.choice([1, 2, 3, 4, 5])
        rows, _r = G.rand_tableau(rng, N, 0)
        obs, kind = G.rand_observable(rng, rows, N, 0)
        res = rng.randrange(2)
        st = impl.state(rows, 0)
        rep = dict(N=N, rows=rows, obs=obs, res=res)
        try:
            pr = float(st.postselect(impl.pauli(obs), res))
        except Exception as e:
            ctx.fail('StabilizerState.postselect', 'implementation raised %r' % e, rep); continue
        post = impl.ops_of(st)
        k, dd, new = O.measure_spec(rows[0:N], N, obs, random_out=res)
        wantp = (1.0 if dd == res else 0.0) if k == 'determined' else 0.5
        ctx.count('postselect:' + k + (':p=%s' % wantp))
        ctx.case(('postselect', tuple(rows), obs, res), k != 'determined', sample=dict(op='postselect', N=N, obs=obs, res=res, prob=pr))
        ans = ctx.drv.ask('postselect 0 %s %s %d' % (H.erows_ops(rows), E.epauli(O.to_g(obs[0]), obs[1]), res))
        ctx.count('corr:postselect')
        from fractions import Fraction
        mv = (O.canon_group(H.drows_ops(ans.split(' ')[2])[0:N])[0], float(Fraction(ans.split(' ')[3]))) if ans.startswith('ok ') else ans
        if mv != (O.canon_group(post[0:N])[0], pr):
            ctx.mismatch('postselect', ans[:300], str(mv)[:500], str((O.canon_group(post[0:N])[0], pr))[:500], dict(rep=rep))
        if N <= 4:
            # density_matrix of the state after the call against the model's densityPoly (C14_postselect_is_projection is about it)
            try:
                dm = st.density_matrix
                ctx.q('density_matrix', 'densitypoly 0 %s' % H.erows_ops(post), [(O.from_gp(g_, p_), complex(c_)) for g_, p_, c_ in zip(dm.gs, dm.ps, dm.cs)],
                      lambda s_: [(O.from_gp(g_, p_), complex(float(c_[0]), float(c_[1]))) for g_, p_, c_ in E.dpoly(s_)])
            except Exception as e:
                ctx.fail('StabilizerState.density_matrix', 'implementation raised %r after post-selection' % e, rep)
        if abs(pr - wantp) > 1e-12:
            ctx.fail('StabilizerState.postselect', 'returned probability %s, Born probability of the requested outcome is %s' % (pr, wantp), rep); continue
        inv = O.tableau_invariant(post, N, 0)
        if inv:
            ctx.fail('StabilizerState.postselect', 'tableau invalid after post-selection: ' + inv, rep); continue
        want_state = rows[0:N] if wantp == 0.0 else new
        if O.canon_group(post[0:N])[0] != O.canon_group(want_state)[0]:
            ctx.fail('StabilizerState.postselect', 'state after post-selection is not the projected state (unchanged when impossible)', rep)
    rows, r = G.rand_tableau(rng, 2, 1)
    try:
        impl.state(rows, 1).postselect(impl.pauli(Zop(2, 0)), 0); got = 'no error'
    except ValueError:
        got = 'err ValueError'
    except Exception as e:
        got = impl.errname(e)
    if got != 'err ValueError':
        ctx.fail('StabilizerState.postselect', 'mixed state not rejected with ValueError (%s)' % got, dict(rows=rows))
