"""Gate programs for the circuit properties (C09, C10, C14): generation, building the implementation circuit,
mirroring it into a model session, and the sequential oracle."""
import numpy as np
import oracle as O
import gen as G
import enc as E
import hutil as H

NAMED = {
    'H': [(('Z',), 0), (('X',), 0)],
    'S': [(('Y',), 0), (('Z',), 0)],
    'X': [(('X',), 0), (('Z',), 2)],
    'Y': [(('X',), 2), (('Z',), 2)],
    'Z': [(('X',), 2), (('Z',), 0)],
}


def rand_map_pair(rng, n, depth=None):
    """(rows of a valid map F, rows of its inverse), from a rotation sequence"""
    depth = (n + 2 + rng.randrange(2 * n + 2)) if depth is None else depth
    gens = [G.rand_herm(rng, n, nonid=True) for _ in range(depth)]
    F = G.id_map_ops(n)
    for g in gens:
        F = [G.rotate_op(g, R) for R in F]
    Fi = G.id_map_ops(n)
    for g in reversed(gens):
        Fi = [G.rotate_op(O.oneg(g), R) for R in Fi]
    return F, Fi


def rand_gate(rng, N, kinds=('gen', 'fmap', 'bmap', 'named', 'cnot')):
    """a gate description: dict(kind, qubits (ascending), and data); `act` = oracle rows of the forward action"""
    kind = rng.choice(kinds)
    if kind == 'cnot' and N < 2:
        kind = 'named'
    if kind == 'named':
        name = rng.choice(list(NAMED))
        q = rng.randrange(N)
        return dict(kind='named', name=name, qubits=[q], F=NAMED[name])
    if kind == 'cnot':
        c, t = rng.sample(range(N), 2)
        import props.c11 as c11
        return dict(kind='cnot', c=c, t=t, qubits=sorted([c, t]), F=c11.cnot_rows(0 if c < t else 1, 1 if c < t else 0))
    k = rng.choice([1, 1, 2, 2, 3]) if N >= 3 else rng.randrange(1, N + 1)
    k = min(k, N)
    qubits = sorted(rng.sample(range(N), k))
    # the library places a gate through the boolean mask of its qubit set, i.e. the listed order is ignored; a gate on the
    # whole register is sometimes given with its qubits listed in another order (the action must not depend on it)
    order = list(qubits)
    if k == N and k > 1 and rng.random() < 0.5:
        rng.shuffle(order)
    if kind == 'gen':
        # generator with full support on its qubits (as clifford_rotation_gate produces after condensing)
        g = (tuple(rng.choice('XYZ') for _ in range(k)), rng.choice((0, 2)))
        # how the generator gate is built: set_generator on a gate, or clifford_rotation_gate from a Pauli / a string / a monomial
        # with coefficient 1 (all describe the same operator; the qubit list is ascending for the constructor route)
        via = rng.choice(['set', 'set', 'rot-pauli', 'rot-mono', 'rot-str']) if order == qubits else 'set'
        return dict(kind='gen', qubits=qubits, gen=g, order=order, via=via)
    F, Fi = rand_map_pair(rng, k)
    return dict(kind=kind, qubits=qubits, F=F, Fi=Fi, order=order)


def rand_program(rng, N, length, kinds=('gen', 'fmap', 'bmap', 'named', 'cnot')):
    return [rand_gate(rng, N, kinds) for _ in range(length)]


def shift_gate(d, off):
    """the same gate `off` qubits further up the register"""
    e = dict(d)
    e['qubits'] = [q + off for q in d['qubits']]
    if 'order' in d:
        e['order'] = [q + off for q in d['order']]
    if d['kind'] == 'cnot':
        e['c'], e['t'] = d['c'] + off, d['t'] + off
    return e


def wide_program(rng, N, length, kinds=('gen', 'fmap', 'bmap', 'named', 'cnot'), window=6):
    """a program on the top `window` qubits of a wide register (qubit indices beyond 63 included)"""
    return [shift_gate(d, N - window) for d in rand_program(rng, window, length, kinds)]


def impl_gate(impl, d):
    CI = impl.CI
    if d['kind'] == 'named':
        return getattr(CI, d['name'])(*d['qubits'])
    if d['kind'] == 'cnot':
        return CI.CNOT(d['c'], d['t'])
    if d['kind'] == 'gen' and d.get('via', 'set') != 'set':
        gen = d['gen']
        if d['via'] == 'rot-pauli':
            go = impl.pauli(gen)
        elif d['via'] == 'rot-mono':
            go = impl.pc.PauliMonomial(impl.garr(gen[0]), gen[1]).set_c(1.0)
        else:
            go = ('-' if gen[1] == 2 else '') + ''.join(gen[0])
        return CI.clifford_rotation_gate(go, np.array(d['qubits']))
    g = CI.CliffordGate(*d.get('order', d['qubits']))
    if d['kind'] == 'gen':
        g.set_generator(impl.pauli(d['gen']))
    elif d['kind'] == 'fmap':
        g.set_forward_map(impl.cmap(d['F']))
    else:
        g.set_backward_map(impl.cmap(d['Fi']))
    return g


def model_take(drv, cid, d):
    qs = E.eints([d['c'], d['t']] if d['kind'] == 'cnot' else d.get('order', d['qubits']))
    if d['kind'] == 'gen':
        return drv.ask('circ %s gen %s %s' % (cid, qs, E.epauli(O.to_g(d['gen'][0]), d['gen'][1])))
    if d['kind'] == 'bmap':
        return drv.ask('circ %s bmap %s %s' % (cid, qs, H.erows_ops(d['Fi'])))
    return drv.ask('circ %s fmap %s %s' % (cid, qs, H.erows_ops(d['F'])))


def oracle_gate(d, P, inverse=False):
    if d['kind'] == 'gen':
        g = d['gen'] if not inverse else O.oneg(d['gen'])
        return H.rotate_masked(g, d['qubits'], P)
    if not inverse:
        return H.map_apply_masked(d['F'], d['qubits'], P)
    if 'Fi' in d:
        return H.map_apply_masked(d['Fi'], d['qubits'], P)
    Fi = oracle_inverse(d['F'])
    return H.map_apply_masked(Fi, d['qubits'], P)


def oracle_inverse(F):
    """inverse of a small map by exhaustive search over the images (n <= 2 used for named gates)"""
    import itertools
    n = len(F) // 2
    gens = G.id_map_ops(n)
    out = []
    cands = [(l, p) for l in itertools.product('IXYZ', repeat=n) for p in (0, 2)]
    for g in gens:
        for c in cands:
            if H.map_apply(F, c) == g:
                out.append(c)
                break
    return out


def oracle_forward(prog, Ps):
    out = list(Ps)
    for d in prog:
        out = [oracle_gate(d, P) for P in out]
    return out


def oracle_backward(prog, Ps):
    out = list(Ps)
    for d in reversed(prog):
        out = [oracle_gate(d, P, inverse=True) for P in out]
    return out


def impl_layers(circ):
    out = []
    for layer in circ.layers_forward():
        if hasattr(layer, 'gates'):
            out.append('G' + ('c' if layer.forward_map is not None else '') +
                       ''.join('[' + '.'.join(str(int(q)) for q in g.qubits) + ']' for g in layer.gates))
        else:
            out.append('M[' + '.'.join(str(int(q)) for q in layer.qubits) + ']')
    return '|'.join(out)
