"""Shared machinery of the checks: environment, Lean build + axiom audit, model driver, evidence, replays."""
import fcntl
import hashlib
import json
import os
import random
import re
import subprocess
import sys
import time

VERIF = os.path.dirname(os.path.dirname(os.path.abspath(__file__)))
REPO = os.environ.get('VERIF_REPO', '/repo')
LEAN = os.path.join(VERIF, 'lean')
DRV = os.path.join(LEAN, '.lake', 'build', 'bin', 'pcdrv')
ALLOWED_AXIOMS = {'propext', 'Classical.choice', 'Quot.sound'}
FORBIDDEN = re.compile(r'\b(sorry|admit|native_decide|bv_decide|implemented_by)\b|^\s*axiom\s|\bunsafe\s|maxHeartbeats\s+0\b', re.M)


class Infra(Exception):
    """infrastructure failure: exit 2, never a VIOLATION"""


def seed():
    try:
        return int(os.environ.get('VERIF_SEED', '0'))
    except ValueError:
        return 0


def tier(default='quick'):
    t = os.environ.get('VERIF_TIER', default)
    return t if t in ('quick', 'thorough') else default


def import_repo():
    """import pyclifford / torchclifford from the working tree under test"""
    if REPO not in sys.path:
        sys.path.insert(0, REPO)
    import warnings
    warnings.filterwarnings('ignore')


# ------------------------------------------------------------------ Lean build and audit
def _strip_comments(src):
    src = re.sub(r'/-.*?-/', '', src, flags=re.S)
    src = re.sub(r'--.*', '', src)
    return src


def lean_sources():
    out = []
    for root, _, files in os.walk(LEAN):
        if '.lake' in root:
            continue
        for f in files:
            if f.endswith('.lean'):
                out.append(os.path.join(root, f))
    return sorted(out)


THOROUGH_SCALE = {'C01': 24, 'C02': 40, 'C03': 24, 'C04': 4, 'C06': 20, 'C07': 20, 'C08': 30, 'C09': 4, 'C10': 4, 'C11': 4, 'C12': 20,
                  'C13': 2, 'C14': 12, 'C15': 40, 'C20': 60}


def grep_forbidden():
    hits = []
    for f in lean_sources():
        src = _strip_comments(open(f).read())
        # string literals may mention words; drop them
        src = re.sub(r'"(?:[^"\\]|\\.)*"', '""', src)
        for m in FORBIDDEN.finditer(src):
            hits.append('%s: %s' % (os.path.relpath(f, LEAN), m.group(0).strip()))
    return hits


def lake(args, timeout=3000):
    lock = open(os.path.join(LEAN, '.build.lock'), 'w')
    fcntl.flock(lock, fcntl.LOCK_EX)
    try:
        p = subprocess.run(['lake'] + args, cwd=LEAN, stdout=subprocess.PIPE, stderr=subprocess.STDOUT,
                           text=True, timeout=timeout)
        return p.returncode, p.stdout
    finally:
        fcntl.flock(lock, fcntl.LOCK_UN)
        lock.close()


def build(targets):
    """returns (ok, log)"""
    rc, out = lake(['build'] + targets)
    return rc == 0, out


def obligations():
    return json.load(open(os.path.join(LEAN, 'obligations.json')))


def audit(prop):
    """Build the property module and print the axioms of every registered theorem.
    Returns dict theorem -> {'ok': bool, 'axioms': [...], 'strength':..., 'note':...} and a log."""
    obl = [o for o in obligations().get(prop, []) if o.get('tier') != 'thorough' or tier() == 'thorough' or os.environ.get('VERIF_AUDIT_ALL')]
    res = {}
    if not obl:
        return res, 'no obligations registered'
    mods = sorted({o.get('module', 'PyCliffordModel.Properties.' + prop) for o in obl})
    ok, log = build(mods)
    if not ok:
        # find out which modules fail, so that theorems of the modules that still build stay discharged
        okmods = set()
        for m in mods:
            ok1, log1 = build([m])
            if ok1:
                okmods.add(m)
        for o in obl:
            if o.get('module', 'PyCliffordModel.Properties.' + prop) not in okmods:
                res[o['theorem']] = dict(o, ok=False, axioms=[], why='module does not build')
        mods = sorted(okmods)
        obl = [o for o in obl if o['theorem'] not in res]
        if not obl:
            return res, log
    if tier() == 'thorough':
        # independent re-check of the compiled declarations by the toolchain's external checker
        for m in list(mods):
            rc_, out_ = lake(['env', 'leanchecker', m], timeout=3600)
            if rc_ != 0:
                for o in obl:
                    if o.get('module', 'PyCliffordModel.Properties.' + prop) == m:
                        res[o['theorem']] = dict(o, ok=False, axioms=[], why='leanchecker rejected module %s: %s' % (m, out_[-300:]))
                mods.remove(m)
        obl = [o for o in obl if o['theorem'] not in res]
        if not obl:
            return res, log
    src = ''.join('import %s\n' % m for m in mods) + ''.join('#print axioms %s\n' % o['theorem'] for o in obl)
    tmp = os.path.join(LEAN, '.lake', 'audit_%s_%d.lean' % (prop, os.getpid()))
    open(tmp, 'w').write(src)
    try:
        p = subprocess.run(['lake', 'env', 'lean', tmp], cwd=LEAN, stdout=subprocess.PIPE,
                           stderr=subprocess.STDOUT, text=True, timeout=1200)
    finally:
        os.unlink(tmp)
    out = p.stdout
    # parse blocks: "'name' depends on axioms: [a, b]" or "'name' does not depend on any axioms"
    found = {}
    for m in re.finditer(r"'([^']+)' depends on axioms: \[([^\]]*)\]", out, flags=re.S):
        found[m.group(1)] = [a.strip() for a in m.group(2).replace('\n', ' ').split(',') if a.strip()]
    for m in re.finditer(r"'([^']+)' does not depend on any axioms", out):
        found[m.group(1)] = []
    for o in obl:
        name = o['theorem']
        full = name if name in found else ('PC.' + name if 'PC.' + name in found else None)
        if full is None:
            res[name] = dict(o, ok=False, axioms=[], why='theorem not found')
        else:
            ax = found[full]
            bad = [a for a in ax if a not in ALLOWED_AXIOMS]
            res[name] = dict(o, ok=not bad, axioms=ax, why=('axioms outside the allowed set: %s' % bad) if bad else '')
    return res, out


# ------------------------------------------------------------------ model driver
class Driver:
    def __init__(self):
        if not os.path.exists(DRV):
            raise Infra('model driver not built: ' + DRV)
        self.p = subprocess.Popen([DRV], stdin=subprocess.PIPE, stdout=subprocess.PIPE, text=True, bufsize=1)
        self.n = 0

    def ask(self, line):
        self.p.stdin.write(line + '\n')
        self.p.stdin.flush()
        self.n += 1
        out = self.p.stdout.readline()
        if not out:
            raise Infra('model driver died on: ' + line[:200])
        out = out.rstrip('\n')
        if out.startswith('bad-request'):
            raise Infra('driver rejected request: ' + out[:300])
        return out

    def ask_many(self, lines):
        """pipeline a batch (much faster than one round trip per line)"""
        res = []
        # chunks bounded in lines AND bytes: the driver answers while we are still writing, and a pipe holds 64 KiB; a chunk
        # whose requests or answers exceed that would block both sides for ever (answers are about as long as requests)
        chunks, cur, size = [], [], 0
        for ln in lines:
            if cur and (len(cur) >= 200 or size + len(ln) + 1 > 24000):
                chunks.append(cur); cur, size = [], 0
            cur.append(ln); size += len(ln) + 1
        if cur:
            chunks.append(cur)
        for chunk in chunks:
            self.p.stdin.write('\n'.join(chunk) + '\n')
            self.p.stdin.flush()
            for ln in chunk:
                out = self.p.stdout.readline()
                if not out:
                    raise Infra('model driver died on: ' + ln[:200])
                out = out.rstrip('\n')
                if out.startswith('bad-request'):
                    raise Infra('driver rejected request: ' + out[:300])
                res.append(out)
        self.n += len(lines)
        return res

    def close(self):
        try:
            self.p.stdin.close()
            self.p.wait(timeout=5)
        except Exception:
            self.p.kill()


# ------------------------------------------------------------------ findings
def known_findings():
    path = os.path.join(VERIF, 'KNOWN_FINDINGS.txt')
    out = []
    if os.path.exists(path):
        for ln in open(path):
            ln = ln.strip()
            if ln.startswith('finding:'):
                d = dict(kv.split('=', 1) for kv in ln.split()[1:4] if '=' in kv)
                d['text'] = ln
                out.append(d)
    return out


# ------------------------------------------------------------------ context of one check
class Ctx:
    def __init__(self, prop, tier_):
        self.prop = prop
        self.tier = tier_
        self.seed = seed()
        self.rng = random.Random((self.seed * 1000003) ^ int(hashlib.sha1(prop.encode()).hexdigest()[:8], 16))
        self.t0 = time.time()
        self.evals = 0
        self.nontrivial = set()
        self.samples = []
        self.dist = {}
        self.failures = []      # property-level failures found on the implementation (dicts)
        self.mismatches = []    # model/implementation disagreements (dicts)
        self.known_hits = []
        self.notes = []
        self.traces = 0
        self._drv = None

    @property
    def drv(self):
        if self._drv is None:
            self._drv = Driver()
        return self._drv

    def count(self, key, n=1):
        self.dist[key] = self.dist.get(key, 0) + n

    def case(self, key, nontrivial=True, sample=None):
        """register one evaluated case; key is any hashable description for distinctness"""
        self.evals += 1
        if nontrivial:
            self.nontrivial.add(hash(key) if not isinstance(key, (str, int)) else key)
        if sample is not None and (self.evals in (1, 7, 40, 300, 1200, 5000, 20000) or len(self.samples) < 2):
            self.samples.append(sample)

    def fail(self, site, what, replay, when=''):
        """a property-level failure observed on the implementation (with an independent oracle)"""
        rec = dict(kind='property-failure', site=site, when=when, what=what, replay=replay)
        for k in known_findings():
            if k.get('property') == self.prop and k.get('site') == site and k.get('when') == when:
                self.known_hits.append((k, rec))
                return
        if len(self.failures) < 20:
            self.failures.append(rec)

    def mismatch(self, op, request, model, impl, extra=None):
        rec = dict(kind='model-implementation-disagreement', op=op, request=request, model=model, impl=impl)
        if extra:
            rec.update(extra)
        if len(self.mismatches) < 20:
            self.mismatches.append(rec)

    def budget(self, quick, thorough):
        # thorough budgets of the checks that are cheap per case are scaled up so that every thorough run explores for minutes
        return quick if self.tier == 'quick' else thorough * THOROUGH_SCALE.get(self.prop, 1)

    def size(self, quick, thorough):
        """a size bound (not an iteration count): never scaled"""
        return quick if self.tier == 'quick' else thorough

    def elapsed(self):
        return time.time() - self.t0


def write_json_atomic(path, obj):
    os.makedirs(os.path.dirname(path), exist_ok=True)
    tmp = path + '.tmp%d' % os.getpid()
    with open(tmp, 'w') as f:
        json.dump(obj, f, indent=1, default=str)
    os.replace(tmp, path)


def finish(ctx, audit_res, audit_log, build_ok, build_log, rule, extra_cov=None, assumptions=None):
    """verdict, evidence, replay, exit code"""
    if ctx._drv is not None:
        ctx._drv.close()
    prop = ctx.prop
    obl = len(audit_res)
    disch = sum(1 for v in audit_res.values() if v['ok'])
    broken_thms = [k for k, v in audit_res.items() if not v['ok']]
    forb = grep_forbidden()
    violations = 0
    lines = []
    replay_path = None
    for k, rec in ctx.known_hits[:50]:
        pass
    seen = set()
    for k, rec in ctx.known_hits:
        if k['text'] not in seen:
            seen.add(k['text'])
            lines.append('KNOWN-FINDING: property=%s %s' % (prop, k['text'].split(' ', 2)[2] if k['text'].count(' ') >= 2 else k['text']))
    if ctx.failures:
        violations = len(ctx.failures)
        h = hashlib.sha1(json.dumps(ctx.failures[0], sort_keys=True, default=str).encode()).hexdigest()[:10]
        replay_path = os.path.join(VERIF, 'replays', '%s-%s.json' % (prop, h))
        write_json_atomic(replay_path, dict(property=prop, seed=ctx.seed, tier=ctx.tier, kind='failing-input',
                                            failures=ctx.failures, mismatches=ctx.mismatches[:5]))
        lines.append('VIOLATION property=%s replay=%s' % (prop, replay_path))
    elif ctx.mismatches or broken_thms or forb or not build_ok:
        violations = 1
        what = dict(property=prop, seed=ctx.seed, tier=ctx.tier, kind='no-failing-input-found',
                    broken_theorems=broken_thms, forbidden_constructs=forb, build_ok=build_ok,
                    correspondence_disagreements=ctx.mismatches,
                    build_log_tail=(build_log or '')[-3000:], audit_log_tail=(audit_log or '')[-3000:],
                    note='the property-level search on the implementation found no failing input; '
                         'the theorem(s)/correspondence named here no longer check, so the property is no longer shown to hold')
        h = hashlib.sha1(json.dumps(what, sort_keys=True, default=str).encode()).hexdigest()[:10]
        replay_path = os.path.join(VERIF, 'replays', '%s-%s.json' % (prop, h))
        write_json_atomic(replay_path, what)
        lines.append('VIOLATION property=%s replay=%s no-failing-input-found' % (prop, replay_path))
    cov = dict(
        obligations=max(obl, 0), discharged=disch,
        checker_cmd='cd lean && lake build PyCliffordModel.Properties.%s && lake env lean <#print axioms of each registered theorem>' % prop,
        trusted_base=['Lean 4.33.0 kernel', 'axioms: ' + ', '.join(sorted({a for v in audit_res.values() for a in v['axioms']}) or ['none']),
                      'hand-written Model/ tied to the code by the correspondence run below',
                      'harness oracle (harness/oracle.py) and driver glue (lean/Driver/Main.lean)',
                      'numpy/numba/torch executing the implementation'],
        theorems=[dict(theorem=k, strength=v.get('strength'), ok=v['ok'], axioms=v['axioms'], note=v.get('note', '')) for k, v in audit_res.items()],
        evaluations=ctx.evals, distinct_nontrivial=len(ctx.nontrivial), rule=rule,
        samples=ctx.samples[:6] or ['(none)'], traces_validated_against_impl=ctx.traces,
        distribution=ctx.dist, driver_requests=(ctx._drv.n if ctx._drv else 0),
        model_implementation_disagreements=len(ctx.mismatches), property_failures=len(ctx.failures),
        known_findings_hit=len(seen), notes=ctx.notes, repo=REPO,
    )
    if extra_cov:
        cov.update(extra_cov)
    if obl == 0:   # no theorem registered for this property yet: the schema's proof keys would be vacuous, drop them
        for k_ in ('obligations', 'discharged'):
            cov.pop(k_, None)
    ev = dict(property_id=prop, tier=ctx.tier, seed=ctx.seed, level='proof', coverage=cov,
              assumptions=assumptions or [], wall_s=round(ctx.elapsed(), 2), violations=violations)
    write_json_atomic(os.path.join(VERIF, 'evidence', '%s.json' % prop), ev)
    for ln in lines:
        print(ln)
    print('%s %s tier=%s seed=%d obligations=%d discharged=%d evaluations=%d disagreements=%d failures=%d wall=%.1fs' % (
        'FAIL' if violations else 'OK', prop, ctx.tier, ctx.seed, obl, disch, ctx.evals, len(ctx.mismatches),
        len(ctx.failures), ctx.elapsed()))
    return 1 if violations else 0


# ------------------------------------------------------------------ queued model/implementation comparison
def _q(self, op, line, impl, dec=None, info=None):
    """queue a request for the model; `impl` is the implementation's (canonicalised) value, `dec` turns the
    driver's answer into the same canonical form"""
    if not hasattr(self, '_queue'):
        self._queue = []
    self._queue.append((op, line, impl, dec, info))
    if len(self._queue) >= 2000:
        self.flush()


def _flush(self):
    qu = getattr(self, '_queue', [])
    if not qu:
        return
    self._queue = []
    outs = self.drv.ask_many([x[1] for x in qu])
    for (op, line, impl, dec, info), out in zip(qu, outs):
        try:
            mv = dec(out) if dec else out
        except Exception as e:  # undecodable answer = disagreement, shown raw
            mv = 'undecodable(%s): %s' % (e, out[:200])
        self.count('corr:' + op)
        if mv != impl:
            self.mismatch(op, line[:2000], mv if isinstance(mv, (str, int, float, list, tuple, dict)) else str(mv),
                          impl if isinstance(impl, (str, int, float, list, tuple, dict)) else str(impl), info)


Ctx.q = _q
Ctx.flush = _flush
