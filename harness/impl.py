"""Adapters to the implementation under test (imported in-process from the working tree, VERIF_REPO)."""
import numpy as np
import common

common.import_repo()
import pyclifford as pc            # noqa: E402
import pyclifford.utils as U       # noqa: E402
import pyclifford.paulialg as PA   # noqa: E402
import pyclifford.stabilizer as ST  # noqa: E402
import pyclifford.circuit as CI    # noqa: E402
import oracle as O                 # noqa: E402

assert pc.__file__.startswith(common.REPO), (pc.__file__, common.REPO)


def garr(letters):
    return np.array(O.to_g(letters), dtype=np.int_)


def pauli(op):
    return pc.Pauli(garr(op[0]), int(op[1]))


def plist(ops, n=None):
    if len(ops) == 0:
        return pc.PauliList(np.zeros((0, 2 * n), dtype=np.int_), np.zeros(0, dtype=np.int_))
    gs = np.array([O.to_g(o[0]) for o in ops], dtype=np.int_)
    ps = np.array([o[1] for o in ops], dtype=np.int_)
    return pc.PauliList(gs, ps)


def cmap(rows):
    gs = np.array([O.to_g(o[0]) for o in rows], dtype=np.int_)
    ps = np.array([o[1] for o in rows], dtype=np.int_)
    return pc.CliffordMap(gs, ps)


def state(rows, r):
    gs = np.array([O.to_g(o[0]) for o in rows], dtype=np.int_)
    ps = np.array([o[1] for o in rows], dtype=np.int_)
    return pc.StabilizerState(gs, ps=ps).set_r(int(r))


def poly(terms):
    """terms: list of (op, complex)"""
    gs = np.array([O.to_g(t[0][0]) for t in terms], dtype=np.int_)
    ps = np.array([t[0][1] for t in terms], dtype=np.int_)
    cs = np.array([t[1] for t in terms], dtype=np.complex128)
    return pc.PauliPolynomial(gs, ps).set_cs(cs)


def ops_of(obj):
    """oracle operators of a Pauli / PauliList-like object"""
    if hasattr(obj, 'gs'):
        return [O.from_gp(g, p) for g, p in zip(np.asarray(obj.gs), np.asarray(obj.ps))]
    return O.from_gp(np.asarray(obj.g), obj.p)


def rows_raw(obj):
    """(gs as lists, ps as ints) without reducing phases"""
    return [[int(v) for v in g] for g in np.asarray(obj.gs)], [int(p) for p in np.asarray(obj.ps)]


def errname(e):
    return 'err ' + type(e).__name__
