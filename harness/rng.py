"""RNG control without editing the repository: numba seeding, and tape-driven execution of the un-jitted
`py_func` of the kernels that draw, with numpy.random patched only around the call (after every jitted
drawing function has been compiled once: patching before numba's first compilation poisons its typing
registry)."""
import contextlib
import numpy as np
import numba


@numba.njit
def _seed(s):
    np.random.seed(s)


def seed_numba(s):
    _seed(int(s) % (2 ** 31))
    np.random.seed(int(s) % (2 ** 31))


_warm = False


def warm_up():
    """compile every jitted function that draws before any patch is installed"""
    global _warm
    if _warm:
        return
    import impl
    impl.U.random_pair(2)
    impl.U.random_pauli(1)
    try:
        impl.ST.random_bit_state_gs_ps(1)
    except Exception:
        pass
    z = impl.pc.zero_state(1)
    try:
        z.measure(impl.pc.paulis('X'))
    except Exception:
        pass
    _warm = True


class TapeExhausted(Exception):
    pass


class Tape:
    def __init__(self, bits):
        self.bits = list(bits)
        self.pos = 0
        self.calls = 0
        self.foreign = 0

    def take(self, k):
        if self.pos + k > len(self.bits):
            raise TapeExhausted()
        out = self.bits[self.pos:self.pos + k]
        self.pos += k
        return out

    def randint(self, low, high=None, size=None, dtype=int):
        self.calls += 1
        if high is None:
            low, high = 0, low
        if (low, high) != (0, 2):
            # a draw the pinned code never makes (the model knows only bit draws): serve it deterministically from the tape
            # (binary expansion reduced into the range) so that the code under test keeps running; its output then simply
            # differs from the model's, which is reported as a broken correspondence, not as a harness failure
            self.foreign += 1
            span = int(high) - int(low)
            nb = max(1, (max(span, 1) - 1).bit_length())

            def one():
                v = 0
                for b in self.take(nb):
                    v = 2 * v + int(b)
                return int(low) + (v % max(span, 1))
            if size is None:
                return one()
            shape = (size,) if np.isscalar(size) else tuple(size)
            return np.array([one() for _ in range(int(np.prod(shape)))], dtype=np.int_).reshape(shape)
        if size is None:
            return int(self.take(1)[0])
        shape = (size,) if np.isscalar(size) else tuple(size)
        n = int(np.prod(shape))
        return np.array(self.take(n), dtype=np.int_).reshape(shape)

    def choice(self, a, size=None):
        self.calls += 1
        a = np.asarray(a)
        if len(a) != 2:
            self.foreign += 1
            idx = self.randint(0, len(a), size)
            return a[idx]
        if size is None:
            return a[self.take(1)[0]]
        shape = (size,) if np.isscalar(size) else tuple(size)
        n = int(np.prod(shape))
        return a[np.array(self.take(n), dtype=np.int_)].reshape(shape)


@contextlib.contextmanager
def patched(tape):
    warm_up()
    o1, o2 = np.random.randint, np.random.choice
    np.random.randint = tape.randint
    np.random.choice = tape.choice
    try:
        yield tape
    finally:
        np.random.randint = o1
        np.random.choice = o2
