#!/venv/bin/python
"""vcheck.py <Cxx> [--tier quick|thorough] [--replay file]

One check = (1) regenerate the finite tables from the running code, (2) build the Lean model, the proofs of
the property and the driver, (3) audit the axioms of the property's theorems, (4) run the correspondence
between the model and the implementation and the property-level oracle tests on the implementation,
(5) verdict + evidence.  Exit 0 held / 1 VIOLATION / 2 infrastructure failure."""
import argparse
import importlib
import json
import os
import sys
import traceback

HERE = os.path.dirname(os.path.abspath(__file__))
sys.path.insert(0, HERE)
import common  # noqa: E402


def main():
    ap = argparse.ArgumentParser()
    ap.add_argument('prop')
    ap.add_argument('--tier', default=None)
    ap.add_argument('--replay', default=None)
    a = ap.parse_args()
    prop = a.prop.upper()
    tier = a.tier or common.tier()
    if a.replay:
        rp = json.load(open(a.replay))
        os.environ['VERIF_SEED'] = str(rp.get('seed', 0))
        tier = rp.get('tier', tier)
        print('replaying %s (seed %s, tier %s): re-running the check that produced it' % (a.replay, rp.get('seed'), tier))
    os.environ['VERIF_TIER'] = tier
    ctx = common.Ctx(prop, tier)
    try:
        mod = importlib.import_module('props.' + prop.lower())
        # 1. regeneration
        import extract
        extract.regenerate(ctx)
        # 2. build
        build_ok, build_log = common.build(['pcdrv'])
        if not build_ok and not os.path.exists(common.DRV):
            raise common.Infra('lake build failed and no driver binary exists:\n' + build_log[-2000:])
        # 3. audit
        audit_res, audit_log = common.audit(prop)
        # 4. correspondence + property-level tests
        mod.run(ctx)
        ctx.flush()
        # 5. verdict
        rc = common.finish(ctx, audit_res, audit_log, build_ok, build_log, mod.RULE,
                           extra_cov=getattr(mod, 'extra_cov', lambda c: None)(ctx),
                           assumptions=getattr(mod, 'ASSUMPTIONS', []))
        sys.exit(rc)
    except common.Infra as e:
        print('INFRASTRUCTURE FAILURE (not a violation): %s' % e)
        sys.exit(2)
    except SystemExit:
        raise
    except Exception:
        traceback.print_exc()
        print('INFRASTRUCTURE FAILURE (not a violation): unexpected exception in the harness')
        sys.exit(2)


if __name__ == '__main__':
    main()
