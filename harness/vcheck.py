#!/venv/bin/python
"""vcheck.py <Cxx> [--tier quick|thorough] [--replay file]

One check = (1) regenerate the finite tables from the running code, (2) build the Lean model, the proofs of
the property and the driver, (3) audit the axioms of the property's theorems, (4) run the correspondence
between the model and the implementation and the property-level oracle tests on the implementation,
(5) verdict + evidence.  Exit 0 held / 1 VIOLATION / 2 infrastructure failure."""
import argparse
import importlib
import json
import os
import sys
import traceback

HERE = os.path.dirname(os.path.abspath(__file__))
sys.path.insert(0, HERE)
import common  # noqa: E402


def main():
    ap = argparse.ArgumentParser()
    ap.add_argument('prop')
    ap.add_argument('--tier', default=None)
    ap.add_argument('--replay', default=None)
    a = ap.parse_args()
    prop = a.prop.upper()
    tier = a.tier or common.tier()
    if a.replay:
        rp = json.load(open(a.replay))
        os.environ['VERIF_SEED'] = str(rp.get('seed', 0))
        tier = rp.get('tier', tier)
        print('replaying %s (seed %s, tier %s): re-running the check that produced it' % (a.replay, rp.get('seed'), tier))
    os.environ['VERIF_TIER'] = tier
    # watchdog: a check that hangs is an infrastructure failure (exit 2), never a silent wait
    import signal

    def _timeout(signum, frame):
        print('INFRASTRUCTURE FAILURE (not a violation): the check exceeded its time limit')
        os._exit(2)
    signal.signal(signal.SIGALRM, _timeout)
    signal.alarm(int(os.environ.get('VERIF_TIMEOUT', 1800 if tier == 'quick' else 4 * 3600)))
    ctx = common.Ctx(prop, tier)
    try:
        mod = importlib.import_module('props.' + prop.lower())
        # 1. regeneration
        import extract
        extract.regenerate(ctx)
        # 2. build
        build_ok, build_log = common.build(['pcdrv'])
        if not build_ok and not os.path.exists(common.DRV):
            raise common.Infra('lake build failed and no driver binary exists:\n' + build_log[-2000:])
        # 3. audit
        audit_res, audit_log = common.audit(prop)
        # 4. correspondence + property-level tests
        try:
            mod.run(ctx)
            import tmirror
            tmirror.run(ctx)
        except (common.Infra, SystemExit):
            raise
        except Exception as e:
            # who raised? walk the traceback from the innermost frame outwards, skipping third-party frames: if the first frame
            # that belongs to us or to the code under test lies in the repository, the IMPLEMENTATION raised on an input that the
            # harness generates for the pinned code (which accepts it): that is a failure of the implementation, with the
            # traceback as replay; if it lies in the harness, it is our bug (infrastructure failure).
            repo = os.path.realpath(common.REPO)
            who = None
            for fr in reversed(traceback.extract_tb(e.__traceback__)):
                fn = os.path.realpath(fr.filename)
                if fn.startswith(repo + os.sep):
                    who = ('impl', fr)
                    break
                if fn.startswith(os.path.realpath(HERE) + os.sep):
                    who = ('harness', fr)
                    break
            if who is None or who[0] != 'impl':
                raise
            fr = who[1]
            ctx.fail('%s:%s' % (os.path.relpath(fr.filename, repo), fr.name),
                     'the implementation raised %r on an input the pinned code accepts (the run stopped here)' % (e,),
                     dict(traceback=traceback.format_exc()[-3000:]))
        ctx.flush()
        # 5. verdict
        rc = common.finish(ctx, audit_res, audit_log, build_ok, build_log, mod.RULE,
                           extra_cov=getattr(mod, 'extra_cov', lambda c: None)(ctx),
                           assumptions=getattr(mod, 'ASSUMPTIONS', []))
        sys.exit(rc)
    except common.Infra as e:
        print('INFRASTRUCTURE FAILURE (not a violation): %s' % e)
        sys.exit(2)
    except SystemExit:
        raise
    except Exception:
        traceback.print_exc()
        print('INFRASTRUCTURE FAILURE (not a violation): unexpected exception in the harness')
        sys.exit(2)


if __name__ == '__main__':
    main()
