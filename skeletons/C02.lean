import PyCliffordModel.Proofs.Rotate
/-!
# C02 — Clifford rotation by a Pauli generator is conjugation by `exp(iπ/4·G)`

`U = exp(iπ/4 G) = (1 + iG)/√2` for `G² = 1`, so `U†PU = (1 − iG) P (1 + iG) / 2`.
`C02_conj_*` prove, in any ring with a central `i`, `i² = −1`, that this is `P` when `P` commutes with `G`
and `i·P·G` when it anticommutes. The model theorems show `rotate` implements exactly that rule.
-/
namespace PC

/-- commuting case of the conjugation (any ring; `i` central, `i² = -1`, `G² = 1`) -/
theorem C02_conj_commute {R : Type} [Ring R] (i G P : R) (hi : i * i = -1) (hiG : i * G = G * i)
    (hiP : i * P = P * i) (hG : G * G = 1) (hc : P * G = G * P) :
    (1 - i * G) * P * (1 + i * G) = 2 * P := by
  sorry

/-- anticommuting case -/
theorem C02_conj_anticommute {R : Type} [Ring R] (i G P : R) (hi : i * i = -1) (hiG : i * G = G * i)
    (hiP : i * P = P * i) (hG : G * G = 1) (hc : P * G = -(G * P)) :
    (1 - i * G) * P * (1 + i * G) = 2 * (i * P * G) := by
  sorry

/-- `P` is returned unchanged when it commutes with `G` -/
theorem C02_rotate_commute (G P : Pauli) (h : acq G.g P.g = 0) : rotate G P = P := by
  sorry

/-- … and as the exactly-signed product `i·P·G` when it anticommutes (all four phases of `P`, both signs of `G`) -/
theorem C02_rotate_anticommute (G P : Pauli) (h : acq G.g P.g = 1) : rotate G P = smulI 1 (mul P G) := by
  sorry

/-- rotating by `−G` undoes rotating by `G` (Hermitian `G`) -/
theorem C02_rotate_neg_cancel (G P : Pauli) (hG : G.p % 2 = 0) (hl : G.g.length = P.g.length) :
    PEq (rotate (neg G) (rotate G P)) P ∧ PEq (rotate G (rotate (neg G) P)) P := by
  sorry

/-- two rotations give `G·P·G`: the sign of `P` flips iff it anticommutes with `G` -/
theorem C02_rotate_twice (G P : Pauli) (hG : G.p % 2 = 0) (hl : G.g.length = P.g.length) :
    PEq (rotate G (rotate G P)) ⟨P.g, P.p + 2 * acq G.g P.g⟩ := by
  sorry

/-- four rotations by `G` restore every input -/
theorem C02_rotate_four (G P : Pauli) (hG : G.p % 2 = 0) (hl : G.g.length = P.g.length) :
    PEq (rotate G (rotate G (rotate G (rotate G P)))) P := by
  sorry

/-- rotation is multiplicative (it is a conjugation) -/
theorem C02_rotate_mul (G P Q : Pauli) (hG : G.p % 2 = 0) (hP : G.g.length = P.g.length)
    (hQ : G.g.length = Q.g.length) :
    PEq (rotate G (mul P Q)) (mul (rotate G P) (rotate G Q)) := by
  sorry

/-- rotation preserves commutation relations -/
theorem C02_rotate_acq (G P Q : Pauli) (hP : G.g.length = P.g.length) (hQ : G.g.length = Q.g.length) :
    acq (rotate G P).g (rotate G Q).g = acq P.g Q.g := by
  sorry

/-- with a qubit mask the same rule is applied with the generator embedded among identity wires -/
theorem C02_rotateMasked_eq_embed (G P : Pauli) (m : List Bool) (hm : maskCount m = G.g.length)
    (hl : m.length = P.g.length) :
    rotateMasked G m P = rotate (embedGen m P.g.length G) P := by
  sorry

/-- … and every unmasked qubit is untouched -/
theorem C02_rotateMasked_untouched (G P : Pauli) (m : List Bool) (i : Nat) (hm : maskCount m = G.g.length)
    (hl : m.length = P.g.length) (hi : m.getD i false = false) :
    (rotateMasked G m P).g.getD i (false, false) = P.g.getD i (false, false) := by
  sorry

end PC
