import PyCliffordModel.Model.TorchPoly
import PyCliffordModel.Properties.C06e
import PyCliffordModel.Proofs.TorchLemmas

/-! C07 / C13 for the batched entry point of the port: `vectorizable_expct` returns, state by state, what
    `StabilizerState.expect` returns, hence `Tr(ρ P)` per operator and `Tr(ρ a)` per polynomial, imaginary phases included. -/
namespace PC

/-- batched list expectation = sequential expectation, state by state -/
theorem C13_vexpectList (sts : List State) (obs : List Pauli) (n : Nat)
    (h : ∀ st ∈ sts, st.rows.length = 2 * n ∧ ∀ R ∈ st.rows, R.g.length = n) :
    T.vexpectList sts obs = sts.map fun st => obs.map (expect1 st) := by
  unfold T.vexpectList
  apply List.map_congr_left
  intro st hst
  apply List.map_congr_left
  intro O _
  exact Tc.vecExpect_eq st O n (h st hst).1 (h st hst).2

/-- batched polynomial expectation = `StabilizerState.expect(PauliPolynomial)`, state by state -/
theorem C13_vexpectPoly (sts : List State) (a : Poly) (n : Nat)
    (h : ∀ st ∈ sts, st.rows.length = 2 * n ∧ ∀ R ∈ st.rows, R.g.length = n) :
    T.vexpectPoly sts a = sts.map fun st => expectPoly st a := by
  unfold T.vexpectPoly expectPoly
  apply List.map_congr_left
  intro st hst
  have e : (fun (acc : Cx) (t : Pauli × Cx) => acc.add ((t.2.mul (Cx.ipow t.1.p)).mul (Cx.ofInt (T.vecExpect1 st ⟨t.1.g, 0⟩))))
      = fun acc t => acc.add ((t.2.mul (Cx.ipow t.1.p)).mul (Cx.ofInt (expect1 st ⟨t.1.g, 0⟩))) := by
    funext acc t
    rw [Tc.vecExpect_eq st ⟨t.1.g, 0⟩ n (h st hst).1 (h st hst).2]
  rw [e]

/-- **the batched expectation of a polynomial is `Tr(ρ a)` for every state of the batch** (phases `i`, `-i` of the terms included) -/
theorem C07_batched_expect_is_trace (sts : List State) (a : Poly) (n : Nat)
    (h : ∀ st ∈ sts, TabInv st n) (ha : ∀ t ∈ a, t.1.g.length = n) :
    T.vexpectPoly sts a
      = sts.map fun st => (⟨(2 : Rat) ^ n, 0⟩ : Cx).mul (coef (polyMatmul (densityPoly st) a) (idStr n)) := by
  rw [C13_vexpectPoly sts a n (fun st hst => ⟨(h st hst).1, (h st hst).2.2.1⟩)]
  apply List.map_congr_left
  intro st hst
  exact (C07_expectPoly_is_trace st n a (h st hst) ha).symm

/-- non-vacuity and the repaired case: `⟨0| iZ |0⟩ = i` for both states of a batch (the unrepaired code returned `-1`) -/
example : T.vexpectPoly [⟨[⟨[(false, true)], 0⟩, ⟨[(true, false)], 0⟩], 0⟩, ⟨[⟨[(false, true)], 0⟩, ⟨[(true, false)], 0⟩], 0⟩]
    [(⟨[(false, true)], 1⟩, Cx.one)] = [⟨0, 1⟩, ⟨0, 1⟩] := by decide +kernel

end PC
