import PyCliffordModel.Proofs.TorchLemmas
/-!
# C13 — the torchclifford kernels compute what the pyclifford kernels compute (on every well-formed input)
-/
namespace PC

theorem C13_acqGrid (g1 g2 : PStr) : T.acqGrid g1 g2 = acq g1 g2 := by
  sorry

theorem C13_cliffordRotate (G P : Pauli) (hl : G.g.length = P.g.length) : T.cliffordRotate G P = ⟨(rotate G P).g, (rotate G P).p % 4⟩ := by
  sorry

theorem C13_rotateSignless (g h : PStr) (hl : g.length = h.length) : T.rotateSignless g h = rotateSignless g h := by
  sorry

theorem C13_isOnsite (g : PStr) (i0 : Nat) (hi : i0 < g.length) : T.isOnsite g i0 = isOnsite g i0 := by
  sorry

/-- `front` agrees on non-identity strings (on the identity string torch returns 0, pyclifford `N-1`; never reached through the public API) -/
theorem C13_front (g : PStr) (hg : anyBit g = true) : T.front g = front g := by
  sorry

theorem C13_condense (g : PStr) : T.condense g = condense g := by
  sorry

theorem C13_mapToState (M : List Pauli) (n : Nat) (h : M.length = 2 * n) : T.mapToState M = mapToState M := by
  sorry

theorem C13_stateToMap (T0 : List Pauli) (n : Nat) (h : T0.length = 2 * n) : T.stateToMap T0 = stateToMap T0 := by
  sorry

theorem C13_batchDot {C : Type} (cmul : C → C → C) (a b : List (Pauli × C)) : T.batchDot cmul a b = batchDot cmul a b := by
  sorry

/-- the vectorised expectation equals the sequential one on every tableau with `2N` rows of `N` qubits -/
theorem C13_vecExpect (st : State) (obs : Pauli) (n : Nat) (hs : st.rows.length = 2 * n) (hr : st.r ≤ n)
    (hrow : ∀ R ∈ st.rows, R.g.length = n) (ho : obs.g.length = n) : T.vecExpect1 st obs = expect1 st obs := by
  sorry

end PC
