import PyCliffordModel.Proofs.RankLemmas
/-!
# C08 — entropy: `z2rank` is the GF(2) rank, and the reported entropy is `|R| − log2 #{group elements supported in R}`
-/
namespace PC

/-- **`z2rank` is the rank**: the number of vanishing row combinations is `2^(rows − z2rank)` -/
theorem C08_z2rank_kernel (A : BMat) (nr nc : Nat) (hA : IsMat A nr nc) :
    z2rank A nc ≤ nr ∧ kernelCount A nc = 2 ^ (nr - z2rank A nc) := by
  sorry

/-- the rank is at most the number of columns -/
theorem C08_z2rank_le_cols (A : BMat) (nr nc : Nat) (hA : IsMat A nr nc) : z2rank A nc ≤ nc := by
  sorry

/-- mixed states (fewer than `N` generators): the reported entropy is `|R| − log2 #{group elements supported in R}` -/
theorem C08_entropy_mixed (gs : List PStr) (N : Nat) (m : List Bool) (hL : gs.length ≠ N)
    (hg : ∀ g ∈ gs, g.length = N) (hm : m.length = N) :
    supportedCount gs m = 2 ^ (Int.toNat ((maskCount m : Int) - entropy gs N m)) ∧
    entropy gs N m ≤ (maskCount m : Int) := by
  sorry

/-- the empty region has entropy 0 (index list or mask) -/
theorem C08_entropy_empty (st : State) : entropyIdx st [] = .ok 0 ∧ entropyMask st [] = 0 := by
  sorry

/-- the whole system has entropy `r` -/
theorem C08_entropy_whole (st : State) (n : Nat) (h : TabInv st n) :
    entropyMask st (List.replicate n true) = if n = 0 then 0 else (st.r : Int) := by
  sorry

/-- index lists, and boolean masks selecting the same qubits, give the same entropy -/
theorem C08_entropy_idx_mask (st : State) (n : Nat) (qs : List Nat) (h : TabInv st n) (h0 : qs ≠ []) (hq : ∀ q ∈ qs, q < n) :
    entropyIdx st (qs.map Int.ofNat) = .ok (entropyMask st ((List.range n).map fun i => qs.contains i)) := by
  sorry

end PC
