import PyCliffordModel.Proofs.GroupLemmas
/-!
# Second parts of C05 / C06 / C12 / C19: all phases stay Hermitian, the encoding map of a reachable state is a valid
Clifford map, `stabilizer_state` returns exactly its input as generators, lists of commuting observables
-/
namespace PC

/-- all `2N` phases stay Hermitian under measurement (every coin), so the whole tableau — standby rows and destabilizers
    included — stays a list of Hermitian operators -/
theorem C05_measure_allHerm (st st' : State) (n : Nat) (obs : List Pauli) (coins rest : List Bool) (outs : List Int) (k : Nat)
    (h : TabInv st n) (hh : AllHerm st.rows) (ho : ∀ o ∈ obs, o.g.length = n ∧ o.p % 2 = 0)
    (hm : measure st obs coins = .ok (st', outs, k, rest)) : AllHerm st'.rows := by
  sorry

/-- … and under every other admissible operation -/
theorem C05_step_allHerm (st st' : State) (n : Nat) (op : StOp) (h : TabInv st n) (hh : AllHerm st.rows) (hop : op.Ok n)
    (hs : applyOp n st op = some st') : AllHerm st'.rows := by
  sorry

/-- **the encoding map of a state with the invariant and Hermitian rows is a valid Clifford map** (so `to_map()` of any
    reachable state may be used as a gate) -/
theorem C12_toMap_valid (st : State) (n : Nat) (h : TabInv st n) (hh : AllHerm st.rows) : ValidMap (stateToMap st.rows) n := by
  sorry

/-- **`stabilizer_state` of `L` independent commuting signed stabilizers** (independence = the constructor ends with rank
    `N − L`): the active generators are exactly the input, in order, with their signs; the state has the invariant and rank `N − L` -/
theorem C12_stabilizerState_spec (N : Nat) (stabs : List Pauli) (st : State)
    (hl : ∀ s ∈ stabs, s.g.length = N ∧ s.p % 2 = 0) (hs : stabilizerState N stabs = .ok st)
    (hr : st.r + stabs.length = N) : TabInv st N ∧ st.active = stabs := by
  sorry

/-- measuring a list of **commuting** Hermitian observables: afterwards every observable of the list, with the sign of its
    recorded outcome, stabilizes the state -/
theorem C06_measure_list_stabilized (st st' : State) (n : Nat) (obs : List Pauli) (coins rest : List Bool) (outs : List Int) (k : Nat)
    (h : TabInv st n) (ho : ∀ o ∈ obs, o.g.length = n ∧ o.p % 2 = 0)
    (hc : ∀ a ∈ obs, ∀ b ∈ obs, acq a.g b.g = 0)
    (hm : measure st obs coins = .ok (st', outs, k, rest)) :
    outs.length = obs.length ∧ ∀ i, i < obs.length → InGroup st' ⟨(rowAt obs i).g, (rowAt obs i).p + 2 * outs.getD i 0⟩ := by
  sorry

/-- **repeating the measurement of a commuting list returns the same outcomes with log2-probability 0 and leaves the state unchanged** -/
theorem C06_repeat_list (st st' : State) (n : Nat) (obs : List Pauli) (coins rest coins2 : List Bool) (outs : List Int) (k : Nat)
    (h : TabInv st n) (ho : ∀ o ∈ obs, o.g.length = n ∧ o.p % 2 = 0)
    (hc : ∀ a ∈ obs, ∀ b ∈ obs, acq a.g b.g = 0)
    (hm : measure st obs coins = .ok (st', outs, k, rest)) :
    measure st' obs coins2 = .ok (st', outs, 0, coins2) := by
  sorry

end PC
