import PyCliffordModel.Proofs.TrajLemmas
/-!
# C14 — mid-circuit measurement and post-selection follow the quantum trajectory
-/
namespace PC

/-- **a measurement layer measures `Z` on its qubits exactly like a direct state measurement**: same outcomes (recorded as
    `+1/−1` in order, one per measured qubit), same number of undetermined outcomes (log-probability), same post-state and rank;
    the tableau invariant is kept; non-states are rejected -/
theorem C14_measureLayer_is_measure (N : Nat) (qs : List Nat) (a : Option (List Int)) (b : Option Nat)
    (rows : List Pauli) (r : Nat) (coins : List Bool) (rnd : List CMap) (L' : Layer) (x' : Run)
    (h : TabInv ⟨rows, r⟩ N) (hq : ∀ q ∈ qs, q < N)
    (hf : Layer.forward N (.meas qs a b) ⟨⟨rows, r, true⟩, coins, rnd⟩ = .ok (L', x')) :
    ∃ outs k, measure ⟨rows, r⟩ (measObs N qs) coins = .ok (⟨x'.obj.rows, x'.obj.r⟩, outs, k, x'.coins) ∧
      L' = .meas qs (some (outs.map fun o => if o % 2 = 0 then 1 else -1)) (some k) ∧
      outs.length = qs.length ∧ TabInv ⟨x'.obj.rows, x'.obj.r⟩ N ∧ x'.obj.r ≤ r ∧ x'.obj.isState = true := by
  sorry

theorem C14_measureLayer_rejects_nonstate (N : Nat) (qs : List Nat) (a : Option (List Int)) (b : Option Nat) (x : Run)
    (hs : x.obj.isState = false) : Layer.forward N (.meas qs a b) x = .error .notImplemented := by
  sorry

/-- **gates added after a measurement never move in front of it**: whatever gate is taken, every layer up to and including
    the last measurement layer is unchanged, and the gate lands after it -/
theorem C14_take_after_measure (c c' : Circ) (g : Gate) (pre post : List Layer) (qs : List Nat) (a : Option (List Int))
    (b : Option Nat) (hl : c.layers = pre ++ Layer.meas qs a b :: post) (hp : ∀ L ∈ post, L.isMeas = false)
    (ht : c.take g = .ok c') :
    ∃ post', c'.layers = pre ++ Layer.meas qs a b :: post' ∧ post' ≠ [] ∧ (∀ L ∈ post', L.isMeas = false) := by
  sorry

/-- **post-selection on a pure state**: returns the Born probability of the requested outcome of the *signed* observable —
    `1` if `(−1)^res P` stabilizes the state, `0` if `−(−1)^res P` does (state unchanged in both cases), `½` otherwise, after
    which `(−1)^res P` stabilizes the state together with every former stabilizer commuting with `P` -/
theorem C14_postselect_spec (st st' : State) (n : Nat) (P : Pauli) (res : Nat) (t : Dy) (h : TabInv st n) (hr : st.r = 0)
    (hP : P.g.length = n) (hp : P.p % 2 = 0) (hres : res < 2) (hm : postselect st P res = .ok (st', t)) :
    TabInv st' n ∧ st'.r = 0 ∧
    ((InGroup st ⟨P.g, P.p + 2 * (res : Int)⟩ ∧ st' = st ∧ t = ⟨false, 0⟩) ∨
     (InGroup st ⟨P.g, P.p + 2 * (res : Int) + 2⟩ ∧ st' = st ∧ t = ⟨true, 0⟩) ∨
     ((∀ b : Int, ¬ InGroup st ⟨P.g, P.p + 2 * b⟩) ∧ t = ⟨false, 1⟩ ∧ InGroup st' ⟨P.g, P.p + 2 * (res : Int)⟩ ∧
      (∀ Q : Pauli, InGroup st Q → acq Q.g P.g = 0 → InGroup st' Q))) := by
  sorry

/-- post-selection on a mixed state is rejected with `ValueError` -/
theorem C14_postselect_mixed (st : State) (P : Pauli) (res : Nat) (hr : st.r ≠ 0) : postselect st P res = .error .value := by
  sorry

/-- **running a measurement layer backward post-selects the recorded outcomes, last qubit first, and raises `ValueError` exactly
    when the record has the wrong length or some step is impossible** -/
theorem C14_measBackward_spec (N : Nat) (qs : List Nat) (rec : List Int) (st : State) :
    (rec.length ≠ qs.length → measBackward N qs rec st = .error .value) ∧
    (∀ st', measBackward N qs rec st = .ok st' → rec.length = qs.length) ∧
    (∀ q m (s s' : State) (t : Dy), qs = [q] → rec = [m] → st = s →
       postselect s ⟨unitZ N q, 0⟩ (if m = 1 then 0 else 1) = .ok (s', t) →
       measBackward N qs rec st = if t.zero then .error .value else .ok s') := by
  sorry

end PC
