import PyCliffordModel.Proofs.CompileLemmas
/-!
# C09/C10 (second part) — compiling layers and circuits into single maps never changes the action
-/
namespace PC

/-- gates of one layer are pairwise independent (what `take` guarantees) -/
def LayerOK (N : Nat) (gs : List Gate) : Prop :=
  (∀ g ∈ gs, g.WF N) ∧ gs.Pairwise (fun g h => g.indep h = true)

/-- **compiling a layer**: the forward map is valid and acts as the gates of the layer applied one at a time; the backward
    map is valid and acts as their inverses -/
theorem C09_layer_compile_sound (N : Nat) (gs gs' : List Gate) (F B : CMap) (h : LayerOK N gs)
    (hc : compileGates N gs (idMap N) (idMap N) = .ok (gs', F, B)) :
    ValidMap F N ∧ ValidMap B N ∧
    (∀ P : Pauli, P.g.length = N → PEq (transform F P) (seqAct gs N P) ∧ PEq (transform B P) (seqActInv gs N P)) := by
  sorry

/-- **compiling a circuit** built from a program: the compiled forward map acts as the gates in program order, the
    compiled backward map as the inverse gates in reverse order; hence running the compiled circuit forward (resp. backward)
    gives the same result as the uncompiled one, and compiled backward undoes compiled forward -/
theorem C09_circuit_compile_sound (N : Nat) (prog : List Gate) (c c' : Circ) (F B : CMap)
    (hw : ∀ g ∈ prog, g.WF N) (hb : buildCirc N prog = .ok c) (hc : c.compile = .ok c')
    (hF : c'.fmap = some F) (hB : c'.bmap = some B) :
    ValidMap F N ∧ ValidMap B N ∧
    (∀ P : Pauli, P.g.length = N →
      PEq (transform F P) (seqAct prog N P) ∧ PEq (transform B P) (seqActInv prog N P) ∧
      PEq (transform B (transform F P)) P ∧ PEq (transform F (transform B P)) P) := by
  sorry

/-- a compiled circuit always has both maps -/
theorem C09_compile_sets_maps (N : Nat) (prog : List Gate) (c c' : Circ)
    (hw : ∀ g ∈ prog, g.WF N) (hb : buildCirc N prog = .ok c) (hc : c.compile = .ok c') :
    ∃ F B, c'.fmap = some F ∧ c'.bmap = some B ∧ c'.unitary = true := by
  sorry

/-- C10 at circuit level (uncompiled): the model's `backward` after `forward` restores every row up to the representation of
    phases, for every circuit built from a program of deterministic gates -/
theorem C10_circuit_backward_forward (N : Nat) (prog : List Gate) (c : Circ) (rows : List Pauli) (r : Nat) (s : Bool)
    (coins : List Bool) (rnd : List CMap)
    (hw : ∀ g ∈ prog, g.WF N) (hb : buildCirc N prog = .ok c) (hr : ∀ R ∈ rows, R.g.length = N) :
    ∃ c1 x1 c2 x2, c.forward ⟨⟨rows, r, s⟩, coins, rnd⟩ = .ok (c1, x1) ∧ c1.backward x1 none = .ok (c2, x2) ∧
      RowsPEq' x2.obj.rows rows ∧ x2.obj.r = r := by
  sorry

end PC
