import PyCliffordModel.Properties.C18b
import PyCliffordModel.Properties.C05b
/-!
# C16 (random-circuit constructors) — brick-wall, on-site and global random circuits produce valid states and resample

`brickwall_rcc`, `onsite_rcc`, `global_rcc` build circuits of gates without generator or map; such a gate draws a fresh
random Clifford map at every call (the model takes the maps from an explicit supply). Whatever valid maps are drawn, the
state produced is valid; one map is consumed per gate and per call, and nothing is cached in the circuit.
-/
namespace PC

/-- a gate without generator and without maps: it draws a random Clifford map at every call -/
def Gate.isRandom (g : Gate) : Prop := g.gen = none ∧ g.fmap = none ∧ g.bmap = none

/-- a circuit of `m`-qubit random gates on `N` qubits, not compiled -/
def RandomCirc (c : Circ) (N m : Nat) : Prop :=
  c.N = N ∧ c.unitary = true ∧ c.fmap = none ∧ c.bmap = none ∧ (∀ L ∈ c.layers, ∃ gs, L = .gates gs none none) ∧
  ∀ g ∈ c.allGates, g.isRandom ∧ g.qubits.length = m ∧ g.qubits ≠ [] ∧ (∀ q ∈ g.qubits, q < N) ∧ g.qubits.Nodup

/-- **the constructors**: `brickwall_rcc(N, depth)` (even `N`) is a circuit of `depth * N/2` two-qubit random gates,
    `onsite_rcc(N)` of `N` one-qubit random gates, `global_rcc(N)` (`N ≥ 1`) of one `N`-qubit random gate; an odd `N` is
    rejected by the assertion of `brickwall_rcc` -/
theorem C16_rcc_constructors (N depth : Nat) :
    (N % 2 = 0 → ∃ c, brickwallRcc N depth = .ok c ∧ RandomCirc c N 2 ∧ c.allGates.length = depth * (N / 2)) ∧
    (N % 2 = 1 → brickwallRcc N depth = .error .assertion) ∧
    (∃ c, onsiteRcc N = .ok c ∧ RandomCirc c N 1 ∧ c.allGates.length = N) ∧
    (1 ≤ N → ∃ c, globalRcc N = .ok c ∧ RandomCirc c N N ∧ c.allGates.length = 1) := by
  sorry

/-- **every state produced by a random circuit is valid, and gates are resampled at every call**: running a circuit of
    random gates forward (or backward) on a valid state, with any supply of valid maps of the gates' size, succeeds when
    the supply has one map per gate, leaves a valid state of the same rank, consumes exactly one map per gate, leaves the
    coins alone and returns the circuit unchanged (nothing is cached: the next call draws again) -/
theorem C16_random_circuit_valid (N m : Nat) (c : Circ) (st : State) (coins : List Bool) (rnd : List CMap)
    (hc : RandomCirc c N m) (hr : ∀ M ∈ rnd, ValidMap M m) (hn : c.allGates.length ≤ rnd.length) (h : TabInv st N) :
    (∃ x', c.forward ⟨⟨st.rows, st.r, true⟩, coins, rnd⟩ = .ok (c, x') ∧ TabInv ⟨x'.obj.rows, x'.obj.r⟩ N ∧
       x'.obj.r = st.r ∧ x'.rnd = rnd.drop c.allGates.length ∧ x'.coins = coins) ∧
    (∃ x', c.backward ⟨⟨st.rows, st.r, true⟩, coins, rnd⟩ none = .ok (c, x') ∧ TabInv ⟨x'.obj.rows, x'.obj.r⟩ N ∧
       x'.obj.r = st.r ∧ x'.rnd = rnd.drop c.allGates.length ∧ x'.coins = coins) := by
  sorry

/-- with too few maps in the supply the run stops with the supply error (the model's stand-in for "the RNG is asked again") -/
theorem C16_random_circuit_needs_maps (N m : Nat) (c : Circ) (st : State) (coins : List Bool) (rnd : List CMap)
    (hc : RandomCirc c N m) (hr : ∀ M ∈ rnd, ValidMap M m) (hn : rnd.length < c.allGates.length) (h : TabInv st N) :
    c.forward ⟨⟨st.rows, st.r, true⟩, coins, rnd⟩ = .error .coin := by
  sorry

end PC
