import PyCliffordModel.Properties.C09b
/-!
# C10 (circuit level, continued) — both orders, compiled and layer-compiled circuits

`C10_circuit_backward_forward` (C09b) is the uncompiled circuit, backward after forward. Here: forward after backward;
the compiled circuit (single forward/backward maps) in both orders; the layer-compiled circuit (every layer carries its
own maps, the circuit none) in both orders.
-/
namespace PC

/-- uncompiled circuit, the other order: `forward` after `backward` restores every row (up to the representation of phases) -/
theorem C10_circuit_forward_backward (N : Nat) (prog : List Gate) (c : Circ) (rows : List Pauli) (r : Nat) (s : Bool)
    (coins : List Bool) (rnd : List CMap)
    (hw : ∀ g ∈ prog, g.WF N) (hbm : ∀ g ∈ prog, g.BmapOK) (hb : buildCirc N prog = .ok c)
    (hr : ∀ R ∈ rows, R.g.length = N) :
    ∃ c1 x1 c2 x2, c.backward ⟨⟨rows, r, s⟩, coins, rnd⟩ none = .ok (c1, x1) ∧ c1.forward x1 = .ok (c2, x2) ∧
      RowsPEq' x2.obj.rows rows ∧ x2.obj.r = r ∧ x2.coins = coins ∧ x2.rnd = rnd := by
  sorry

/-- **compiled circuit, both orders**: after `compile()`, `backward` after `forward` and `forward` after `backward` restore
    every row, the rank, the coins and the random supply -/
theorem C10_compiled_roundtrip (N : Nat) (prog : List Gate) (c c' : Circ) (rows : List Pauli) (r : Nat) (s : Bool)
    (coins : List Bool) (rnd : List CMap)
    (hw : ∀ g ∈ prog, g.WF N) (hbm : ∀ g ∈ prog, g.BmapOK) (hb : buildCirc N prog = .ok c) (hc : c.compile = .ok c')
    (hr : ∀ R ∈ rows, R.g.length = N) :
    (∃ c1 x1 c2 x2, c'.forward ⟨⟨rows, r, s⟩, coins, rnd⟩ = .ok (c1, x1) ∧ c1.backward x1 none = .ok (c2, x2) ∧
      RowsPEq' x2.obj.rows rows ∧ x2.obj.r = r ∧ x2.coins = coins ∧ x2.rnd = rnd) ∧
    (∃ c1 x1 c2 x2, c'.backward ⟨⟨rows, r, s⟩, coins, rnd⟩ none = .ok (c1, x1) ∧ c1.forward x1 = .ok (c2, x2) ∧
      RowsPEq' x2.obj.rows rows ∧ x2.obj.r = r ∧ x2.coins = coins ∧ x2.rnd = rnd) := by
  sorry

/-- the compiled circuit runs forward / backward exactly as the uncompiled one (rows up to phase representation) -/
theorem C10_compiled_same_as_uncompiled (N : Nat) (prog : List Gate) (c c' : Circ) (rows : List Pauli) (r : Nat) (s : Bool)
    (coins : List Bool) (rnd : List CMap)
    (hw : ∀ g ∈ prog, g.WF N) (hbm : ∀ g ∈ prog, g.BmapOK) (hb : buildCirc N prog = .ok c) (hc : c.compile = .ok c')
    (hr : ∀ R ∈ rows, R.g.length = N) :
    (∃ c1 x1 c2 x2, c.forward ⟨⟨rows, r, s⟩, coins, rnd⟩ = .ok (c1, x1) ∧ c'.forward ⟨⟨rows, r, s⟩, coins, rnd⟩ = .ok (c2, x2) ∧
      RowsPEq' x1.obj.rows x2.obj.rows) ∧
    (∃ c1 x1 c2 x2, c.backward ⟨⟨rows, r, s⟩, coins, rnd⟩ none = .ok (c1, x1) ∧ c'.backward ⟨⟨rows, r, s⟩, coins, rnd⟩ none = .ok (c2, x2) ∧
      RowsPEq' x1.obj.rows x2.obj.rows) := by
  sorry

/-- compile every layer but not the circuit (`for layer in circ.layers: layer.compile(N)`) -/
def Circ.compileLayersOnly (c : Circ) : Except Err Circ :=
  match compileLayers c.N c.layers (idMap c.N) (idMap c.N) with
  | .error e => .error e
  | .ok (Ls, _, _) => .ok { c with layers := Ls }

/-- **layer-compiled circuit**: runs forward as the program, and `backward` after `forward` / `forward` after `backward`
    restore every row -/
theorem C10_layer_compiled_roundtrip (N : Nat) (prog : List Gate) (c c' : Circ) (rows : List Pauli) (r : Nat) (s : Bool)
    (coins : List Bool) (rnd : List CMap)
    (hw : ∀ g ∈ prog, g.WF N) (hbm : ∀ g ∈ prog, g.BmapOK) (hb : buildCirc N prog = .ok c)
    (hc : c.compileLayersOnly = .ok c') (hr : ∀ R ∈ rows, R.g.length = N) :
    (∃ c1 x1, c'.forward ⟨⟨rows, r, s⟩, coins, rnd⟩ = .ok (c1, x1) ∧ RowsPEq' x1.obj.rows (rows.map (seqAct prog N)) ∧
      ∃ c2 x2, c1.backward x1 none = .ok (c2, x2) ∧ RowsPEq' x2.obj.rows rows ∧ x2.obj.r = r) ∧
    (∃ c1 x1, c'.backward ⟨⟨rows, r, s⟩, coins, rnd⟩ none = .ok (c1, x1) ∧ RowsPEq' x1.obj.rows (rows.map (seqActInv prog N)) ∧
      ∃ c2 x2, c1.forward x1 = .ok (c2, x2) ∧ RowsPEq' x2.obj.rows rows ∧ x2.obj.r = r) := by
  sorry

end PC
