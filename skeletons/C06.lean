import PyCliffordModel.Proofs.MeasureLemmas
/-!
# C06 — measurement follows the projection postulate at the level of the stabilizer group;  C07 — expectations

`InGroup st P` (Spec/Tableau): `P` is a product of active stabilizers of `st` with its exact sign, i.e. `P` stabilizes
the state. For a Hermitian observable `O` and a bit `b`, `⟨O.g, O.p + 2*b⟩` is `(−1)^b O`.
Group-level projection postulate (textbook): if `(−1)^b O` is a stabilizer the outcome is `b` with probability 1 and the
state is unchanged; otherwise both outcomes have probability ½, the post-measurement state is stabilized by
`(−1)^out O` and by every former stabilizer commuting with `O`, and the rank drops by one exactly when `O` commutes with
the whole group (an undetermined logical operator was measured).
-/
namespace PC

/-- `O` commutes with every active stabilizer -/
def CommutesWithGroup (st : State) (O : Pauli) : Prop := ∀ R ∈ st.active, acq R.g O.g = 0

/-- **determined branch**: the outcome returned is the eigenvalue fixed by the state, and the state is unchanged -/
theorem C06_determined (st st' : State) (n : Nat) (O : Pauli) (coin : Bool) (out : Int)
    (h : TabInv st n) (ho : O.g.length = n) (hp : O.p % 2 = 0)
    (hm : measure1 st O coin = .ok (st', out, false)) :
    st' = st ∧ (out = 0 ∨ out = 1) ∧ InGroup st ⟨O.g, O.p + 2 * out⟩ := by
  sorry

/-- **random branch**: neither `O` nor `−O` was a stabilizer; the outcome follows the coin; afterwards `(−1)^out O` is a
    stabilizer, every former stabilizer commuting with `O` still is, and the rank drops exactly when `O` commuted with the
    whole group -/
theorem C06_random (st st' : State) (n : Nat) (O : Pauli) (coin : Bool) (out : Int)
    (h : TabInv st n) (ho : O.g.length = n) (hp : O.p % 2 = 0)
    (hm : measure1 st O coin = .ok (st', out, true)) :
    (∀ b : Int, ¬ InGroup st ⟨O.g, O.p + 2 * b⟩) ∧
    out = (((if coin then 2 else 0) - O.p) % 4) / 2 ∧ (out = 0 ∨ out = 1) ∧
    InGroup st' ⟨O.g, O.p + 2 * out⟩ ∧
    (∀ P : Pauli, InGroup st P → acq P.g O.g = 0 → InGroup st' P) ∧
    ((CommutesWithGroup st O → st'.r + 1 = st.r) ∧ (¬ CommutesWithGroup st O → st'.r = st.r)) := by
  sorry

/-- the outcome is reported as certain exactly when plus or minus the observable is already a stabilizer -/
theorem C06_flag_iff (st st' : State) (n : Nat) (O : Pauli) (coin : Bool) (out : Int) (rnd : Bool)
    (h : TabInv st n) (ho : O.g.length = n) (hp : O.p % 2 = 0)
    (hm : measure1 st O coin = .ok (st', out, rnd)) :
    rnd = false ↔ ∃ b : Int, InGroup st ⟨O.g, O.p + 2 * b⟩ := by
  sorry

/-- **repeating the measurement returns the same outcome with probability one and leaves the state unchanged** -/
theorem C06_repeat (st st' : State) (n : Nat) (O : Pauli) (c1 c2 : Bool) (out : Int) (rnd : Bool)
    (h : TabInv st n) (ho : O.g.length = n) (hp : O.p % 2 = 0)
    (hm : measure1 st O c1 = .ok (st', out, rnd)) :
    measure1 st' O c2 = .ok (st', out, false) := by
  sorry

/-- the reported log2-probability of a list is minus the number of undetermined outcomes (each has probability ½), and
    one outcome bit is returned per observable -/
theorem C06_measure_list (st st' : State) (obs : List Pauli) (coins rest : List Bool) (outs : List Int) (k : Nat)
    (hm : measure st obs coins = .ok (st', outs, k, rest)) :
    outs.length = obs.length ∧ k ≤ obs.length ∧ rest.length + k = coins.length := by
  sorry

/-! ## C07 -/

/-- **expectation of a Hermitian Pauli**: `+1` iff it is a stabilizer, `−1` iff its negative is, `0` otherwise -/
theorem C07_expect_spec (st : State) (n : Nat) (O : Pauli) (h : TabInv st n) (ho : O.g.length = n) (hp : O.p % 2 = 0) :
    (expect1 st O = 1 ∨ expect1 st O = -1 ∨ expect1 st O = 0) ∧
    (expect1 st O = 1 ↔ InGroup st O) ∧ (expect1 st O = -1 ↔ InGroup st (neg O)) := by
  sorry

/-- expectation queries agree with measurement: the expectation is non-zero exactly when a measurement would be certain -/
theorem C07_expect_vs_measure (st st' : State) (n : Nat) (O : Pauli) (coin : Bool) (out : Int) (rnd : Bool)
    (h : TabInv st n) (ho : O.g.length = n) (hp : O.p % 2 = 0)
    (hm : measure1 st O coin = .ok (st', out, rnd)) :
    (rnd = true ↔ expect1 st O = 0) ∧ (rnd = false → expect1 st O = if out = 0 then 1 else -1) := by
  sorry

/-- one step of the overlap computation `Tr(ρ σ)` (projection of a pure `ρ` onto a stabilizer `O` of `σ`): factor 1 if `O`
    stabilizes `ρ`, factor 0 if `−O` does, factor ½ otherwise, after which `O` stabilizes the projected state -/
theorem C07_projTrace1_spec (st st' : State) (n : Nat) (O : Pauli) (t t' : Dy) (h : TabInv st n) (hr : st.r = 0)
    (ho : O.g.length = n) (hp : O.p % 4 = 0 ∨ O.p % 4 = 2) (hpr : 0 ≤ O.p ∧ O.p < 4)
    (hm : projTrace1 st O t = .ok (st', t')) :
    TabInv st' n ∧ st'.r = 0 ∧
    ((InGroup st O ∧ st' = st ∧ t' = t) ∨ (InGroup st (neg O) ∧ st' = st ∧ t' = ⟨true, t.k⟩) ∨
     ((∀ b : Int, ¬ InGroup st ⟨O.g, O.p + 2 * b⟩) ∧ InGroup st' O ∧ t' = ⟨t.zero, t.k + 1⟩)) := by
  sorry

end PC
