import PyCliffordModel.Model.Index
/-!
# C20 (selection) — integer, slice, boolean-mask and index-array selection follow list arithmetic

`getInt`, `getSlice`, `getMask`, `getIdx` (Model/Index.lean) are what `PauliList.__getitem__` does on the rows (numpy on the
row axis). The theorems relate them to the plain list operations `getElem`, `drop/take`, `reverse`, `filter`, `map`.
-/
namespace PC

/-- integer selection: `0 ≤ i < L` picks row `i`, `−L ≤ i < 0` picks row `L + i`, anything else is an `IndexError` -/
theorem C20_getInt (rows : List Pauli) (i : Int) :
    (0 ≤ i → i < (rows.length : Int) → getInt rows i = .ok (rowAt rows i.toNat)) ∧
    (-(rows.length : Int) ≤ i → i < 0 → getInt rows i = .ok (rowAt rows (i + rows.length).toNat) ∧ (i + rows.length).toNat < rows.length) ∧
    (i < -(rows.length : Int) ∨ (rows.length : Int) ≤ i → getInt rows i = .error .index) := by
  sorry

/-- a slice only ever selects existing rows, in strictly increasing order for a positive step and strictly decreasing
    order for a negative step; step 0 is a `ValueError` -/
theorem C20_sliceIndices (L : Nat) (start stop : Option Int) (step : Int) :
    (step = 0 → sliceIndices L start stop step = .error .value) ∧
    (∀ idx, sliceIndices L start stop step = .ok idx →
      (∀ k ∈ idx, k < L) ∧ (0 < step → idx.Pairwise (· < ·)) ∧ (step < 0 → idx.Pairwise (· > ·))) := by
  sorry

/-- `rows[:]` is the whole list, `rows[::-1]` the reversed list -/
theorem C20_slice_full (rows : List Pauli) :
    getSlice rows none none 1 = .ok rows ∧ getSlice rows none none (-1) = .ok rows.reverse := by
  sorry

/-- `rows[a:b]` for `0 ≤ a ≤ b ≤ L` is `drop a` then `take (b − a)`; bounds beyond the ends are clipped -/
theorem C20_slice_take_drop (rows : List Pauli) (a b : Nat) (hab : a ≤ b) :
    getSlice rows (some a) (some b) 1 = .ok ((rows.drop a).take (b - a)) := by
  sorry

/-- negative bounds count from the end: `rows[-k:]` are the last `k` rows (`k ≤ L`) -/
theorem C20_slice_last (rows : List Pauli) (k : Nat) (hk : k ≤ rows.length) (hk0 : 0 < k) :
    getSlice rows (some (-(k : Int))) none 1 = .ok (rows.drop (rows.length - k)) := by
  sorry

/-- boolean masks: a mask of the right length keeps exactly the rows where it is true, in order; a non-empty mask of another
    length is an `IndexError` -/
theorem C20_getMask (rows : List Pauli) (m : List Bool) :
    (m.length = rows.length → ∃ out, getMask rows m = .ok out ∧ out.length = (m.filter id).length ∧
        out = ((rows.zip m).filter (·.2)).map (·.1)) ∧
    (m ≠ [] → m.length ≠ rows.length → getMask rows m = .error .index) := by
  sorry

/-- index arrays: one row per index, each selected like an integer index; one bad index makes the whole selection fail -/
theorem C20_getIdx (rows : List Pauli) (idx : List Int) :
    (∀ out, getIdx rows idx = .ok out → out.length = idx.length ∧
        ∀ k, k < idx.length → getInt rows (idx.getD k 0) = .ok (rowAt out k)) ∧
    ((∃ i ∈ idx, i < -(rows.length : Int) ∨ (rows.length : Int) ≤ i) → getIdx rows idx = .error .index) := by
  sorry

end PC
