import PyCliffordModel.Properties.C16c
import PyCliffordModel.Properties.C09b
import PyCliffordModel.Proofs.CompileStLemmas
/-!
# C16 / C09 — a refused `compile()` changes nothing a user can observe

A circuit that contains gates without generator or map cannot be compiled: `compile()` raises. Python has mutated the
object by then (`Circ.compileSt` models the object after the call). The pinned code left an identity map in the failing layer
and in the circuit, so that the random gates were never sampled again (repaired in /repo). For the repaired code:
`compileSt` agrees with the functional `compile` about the outcome; after a refusal the circuit holds no compiled map of its
own; and the circuit left behind acts exactly as before on every input and every supply of random maps — in particular it
still consumes one fresh map per random gate and per call.
-/
namespace PC

/-- a gate of a program that may contain random gates -/
def Gate.OKr (g : Gate) (N : Nat) : Prop :=
  g.WF N ∨ (g.isRandom ∧ g.qubits ≠ [] ∧ (∀ q ∈ g.qubits, q < N) ∧ g.qubits.Nodup)

/-- two runs agree: same error, or the same object up to the representation of phases, the same rank, the same unused coins
    and the same unused random maps -/
def RunRel (a b : Except Err (Circ × Run)) : Prop :=
  match a, b with
  | .ok (_, x), .ok (_, y) =>
    RowsPEq' x.obj.rows y.obj.rows ∧ x.obj.r = y.obj.r ∧ x.obj.isState = y.obj.isState ∧ x.coins = y.coins ∧ x.rnd = y.rnd
  | .error e, .error e' => e = e'
  | _, _ => False

/-- **the state transformer agrees with the functional model** on the outcome, and on the circuit when the call succeeds -/
theorem C09_compileSt_agrees (c : Circ) :
    (∀ c', c.compile = .ok c' ↔ c.compileSt = (c', .ok ())) ∧
    (∀ e, c.compile = .error e ↔ c.compileSt.2 = .error e) :=
  Cs.compileSt_agrees c

/-- **after a refusal the circuit holds no compiled map**, its size, flags and record are untouched, and it has the same
    number of layers -/
theorem C16_refused_compile_resets (c : Circ) (e : Err) (h : c.compileSt.2 = .error e) (hu : c.unitary = true) :
    c.compileSt.1.fmap = none ∧ c.compileSt.1.bmap = none ∧ c.compileSt.1.N = c.N ∧ c.compileSt.1.unitary = true ∧
    c.compileSt.1.layers.length = c.layers.length ∧ c.compileSt.1.results = c.results :=
  Cs.refused_resets c e h hu

/-- a circuit with a random gate is always refused, with the error of `gate.compile()` -/
theorem C16_random_gate_refused (N : Nat) (prog : List Gate) (c : Circ)
    (hw : ∀ g ∈ prog, g.OKr N) (hr : ∃ g ∈ prog, g.isRandom) (hb : buildCirc N prog = .ok c) :
    c.compile = .error .value :=
  Cs.random_gate_refused N prog c hw hr hb

/-- **a refused `compile()` changes nothing observable**: for a circuit built from a program of deterministic and random
    gates, the circuit left behind by a refused `compile()` runs forward and backward exactly as the original — same
    object (up to the representation of phases), same unused coins, same unused random maps, hence one fresh map per random
    gate and call, as before — or fails with the same error -/
theorem C16_refused_compile_behaviour (N : Nat) (prog : List Gate) (c : Circ) (e : Err) (x : Run)
    (hw : ∀ g ∈ prog, g.OKr N) (hbm : ∀ g ∈ prog, g.BmapOK) (hb : buildCirc N prog = .ok c)
    (hc : c.compileSt.2 = .error e) (hx : ∀ R ∈ x.obj.rows, R.g.length = N) :
    RunRel (c.compileSt.1.forward x) (c.forward x) ∧ RunRel (c.compileSt.1.backward x none) (c.backward x none) := by
  have key : ∀ a b : Except Err (Circ × Run), Cs.Sim Cs.CR a b → RunRel a b := by
    intro a b h
    rcases h with ⟨e0, rfl, rfl⟩ | ⟨⟨_, _⟩, ⟨_, _⟩, rfl, rfl, h⟩
    · exact rfl
    · exact h
  obtain ⟨h1, h2⟩ := Cs.refused_behaviour N prog c e x hw hbm hb hc hx
  exact ⟨key _ _ h1, key _ _ h2⟩

/-- … and the random gates are still random afterwards: a second `compile()` is refused again -/
theorem C16_refused_compile_again (c : Circ) (e : Err) (h : c.compileSt.2 = .error e) :
    ∃ e', c.compileSt.1.compileSt.2 = .error e' :=
  Cs.refused_again c e h

/-- non-vacuity: `H`-like rotation gate on qubit 0 followed by a random gate on qubits 0,1 of a 2-qubit register -/
example : ∃ c : Circ, buildCirc 2 [{ qubits := [0], gen := some ⟨[(true, true)], 0⟩ }, { qubits := [0, 1] }] = .ok c ∧
    c.compileSt.2 = .error .value := by
  refine ⟨_, rfl, ?_⟩
  decide

end PC
