import PyCliffordModel.Proofs.Tableau
/-!
# C05 — every reachable stabilizer state satisfies the tableau invariant
-/
namespace PC

/-- the identity map is a valid Clifford map -/
theorem C05_idMap_valid (n : Nat) : ValidMap (idMap n) n := by
  sorry

/-- converting any valid map to a state (any `r ≤ n`) gives a valid tableau: covers `zero_state`,
    `maximally_mixed_state`, `random_*_state`, `CliffordMap.to_state` -/
theorem C05_toState_inv (M : List Pauli) (n r : Nat) (hM : ValidMap M n) (hr : r ≤ n) :
    TabInv (toState M r) n := by
  sorry

theorem C05_oneState_inv (n : Nat) : TabInv (oneState n) n := by
  sorry

/-- rotation by a Hermitian generator preserves the invariant -/
theorem C05_rotate_inv (st : State) (n : Nat) (G : Pauli) (h : TabInv st n) (hG : G.p % 2 = 0)
    (hl : G.g.length = n) : TabInv ⟨st.rows.map (rotate G), st.r⟩ n := by
  sorry

/-- … also through any qubit mask -/
theorem C05_rotateMasked_inv (st : State) (n : Nat) (G : Pauli) (m : List Bool) (h : TabInv st n)
    (hG : G.p % 2 = 0) (hm : maskCount m = G.g.length) (hl : m.length = n) :
    TabInv ⟨st.rows.map (rotateMasked G m), st.r⟩ n := by
  sorry

/-- **measurement of one Hermitian observable preserves the invariant, for either coin**; the outcome is a bit and
    the rank never grows -/
theorem C05_measure1_inv (st st' : State) (n : Nat) (obs : Pauli) (coin : Bool) (out : Int) (rnd : Bool)
    (h : TabInv st n) (ho : obs.g.length = n) (hp : obs.p % 2 = 0)
    (hm : measure1 st obs coin = .ok (st', out, rnd)) :
    TabInv st' n ∧ (out = 0 ∨ out = 1) ∧ st'.r ≤ st.r := by
  sorry

/-- under the invariant, measuring a Hermitian observable never trips the internal assertion -/
theorem C05_measure1_total (st : State) (n : Nat) (obs : Pauli) (coin : Bool)
    (h : TabInv st n) (ho : obs.g.length = n) (hp : obs.p % 2 = 0) :
    ∃ res, measure1 st obs coin = .ok res := by
  sorry

/-- lists of observables, **every coin sequence** -/
theorem C05_measure_inv (st st' : State) (n : Nat) (obs : List Pauli) (coins rest : List Bool) (outs : List Int) (k : Nat)
    (h : TabInv st n) (ho : ∀ o ∈ obs, o.g.length = n ∧ o.p % 2 = 0)
    (hm : measure st obs coins = .ok (st', outs, k, rest)) :
    TabInv st' n ∧ st'.r ≤ st.r ∧ outs.length = obs.length ∧ k ≤ obs.length := by
  sorry

/-- projection (strings only), as used by `stabilizer_state`: keeps the commutation pattern and `r ≤ n` -/
theorem C05_project1_inv (st : State) (n : Nat) (obs : PStr) (h : TabInv st n) (hh : AllHerm st.rows)
    (ho : obs.length = n) : TabInv (project1 st obs) n ∧ AllHerm (project1 st obs).rows := by
  sorry

/-- post-selection (pure states) preserves the invariant -/
theorem C05_postselect_inv (st st' : State) (n : Nat) (P : Pauli) (res : Nat) (t : Dy) (h : TabInv st n)
    (hP : P.g.length = n) (hp : P.p % 2 = 0) (hres : res < 2)
    (hm : postselect st P res = .ok (st', t)) : TabInv st' n := by
  sorry

end PC
