import PyCliffordModel.Properties.C11b
import PyCliffordModel.Properties.C12
/-!
# C18 (circuit level, continued) — causal diagonalisation of an operator; diagonalisation of a state

`diagonalize(P, i0, causal=True)` works on the part of the operator supported on qubits `≥ i0`: the circuit only
contains gates on those qubits, sends that part to `Z` on qubit `i0` (identity on later qubits) and leaves the
earlier qubits of *every* operator untouched. `diagonalize(state)` returns one global gate whose backward map is the
encoding map of the state: forward sends the state to `|0…0⟩`, backward re-encodes it.
-/
namespace PC

/-- all gates of a circuit, in layer order -/
def Circ.allGates (c : Circ) : List Gate := c.layers.flatMap fun | .gates gs _ _ => gs | .meas .. => []

/-- **causal mode only uses qubits `≥ i0`** -/
theorem C18_causal_support (g : PStr) (i0 : Nat) (c : Circ) (hi : i0 < g.length)
    (hc : diagonalizePauli g i0 true = .ok c) :
    c.N = g.length ∧ ∀ gt ∈ c.allGates, ∀ q ∈ gt.qubits, i0 ≤ q ∧ q < g.length := by
  sorry

/-- **causal mode diagonalises the part supported on qubits `≥ i0`**: the circuit, run forward on the operator, leaves its
    first `i0` qubits as they were and sends the rest to `Z` on qubit `i0` and identity on later qubits, keeping the phase
    Hermitian (i.e. the result is `±` the product of the untouched earlier part and `Z_{i0}`) -/
theorem C18_causal_sound (g : PStr) (p : Int) (i0 : Nat) (c : Circ) (hi : i0 < g.length) (hg : anyBit (g.drop i0) = true)
    (hc : diagonalizePauli g i0 true = .ok c) :
    ∃ c' R, c.forward ⟨⟨[⟨g, p⟩], 0, false⟩, [], []⟩ = .ok (c', ⟨⟨[R], 0, false⟩, [], []⟩) ∧
      R.g.take i0 = g.take i0 ∧ R.g.drop i0 = unitZ (g.length - i0) 0 ∧ R.p % 2 = p % 2 := by
  sorry

/-- **causal mode leaves the earlier qubits of every operator untouched** -/
theorem C18_causal_untouched (g : PStr) (i0 : Nat) (c : Circ) (Q : Pauli) (hi : i0 < g.length) (hQ : Q.g.length = g.length)
    (hc : diagonalizePauli g i0 true = .ok c) :
    ∃ c' R, c.forward ⟨⟨[Q], 0, false⟩, [], []⟩ = .ok (c', ⟨⟨[R], 0, false⟩, [], []⟩) ∧
      R.g.take i0 = Q.g.take i0 ∧ R.g.length = Q.g.length := by
  sorry

/-- building the circuit never fails for an in-range target qubit (both modes) -/
theorem C18_diagonalizePauli_ok (g : PStr) (i0 : Nat) (causal : Bool) (hi : i0 < g.length) :
    ∃ c, diagonalizePauli g i0 causal = .ok c := by
  sorry

/-- **`diagonalize(state)`**: for a pure state with Hermitian tableau, the returned circuit run forward maps the tableau
    to that of `|0…0⟩` (stabilizers `+Z_k`, destabilizers `X_k`), and run backward on `|0…0⟩` re-encodes the state -/
theorem C18_diagonalizeState_sound (st : State) (n : Nat) (coins : List Bool) (rnd : List CMap)
    (h : TabInv st n) (hn : 0 < n) (hH : AllHerm st.rows) :
    ∃ c, diagonalizeState st = .ok c ∧
      (∃ c' rows', c.forward ⟨⟨st.rows, st.r, true⟩, coins, rnd⟩ = .ok (c', ⟨⟨rows', st.r, true⟩, coins, rnd⟩) ∧
        RowsPEq' rows' (zeroState n).rows) ∧
      (∃ c' rows', c.backward ⟨⟨(zeroState n).rows, st.r, true⟩, coins, rnd⟩ none = .ok (c', ⟨⟨rows', st.r, true⟩, coins, rnd⟩) ∧
        RowsPEq' rows' st.rows) := by
  sorry

end PC
