import PyCliffordModel.Proofs.ReachLemmas
/-!
# C05 (second part) — maps, gates, `stabilizer_state`, and every finite history
-/
namespace PC

/-- transformation by a valid Clifford map preserves the tableau invariant -/
theorem C05_transform_inv (st : State) (n : Nat) (M : List Pauli) (h : TabInv st n) (hM : ValidMap M n) :
    TabInv ⟨st.rows.map (transform M), st.r⟩ n := by
  sorry

/-- … also through any qubit mask (a valid map on the masked qubits) -/
theorem C05_transformMasked_inv (st : State) (n : Nat) (M : List Pauli) (m : List Bool) (h : TabInv st n)
    (hm : m.length = n) (hM : ValidMap M (maskCount m)) :
    TabInv ⟨st.rows.map (transformMasked M m), st.r⟩ n := by
  sorry

/-- every deterministic gate preserves the invariant -/
theorem C05_gate_inv (st : State) (n : Nat) (g : Gate) (h : TabInv st n) (hg : g.WF n) :
    TabInv ⟨st.rows.map (gateAct g n), st.r⟩ n := by
  sorry

/-- **one step**: every admissible public operation preserves the invariant (measurement: for every coin sequence) -/
theorem C05_step_inv (st st' : State) (n : Nat) (op : StOp) (h : TabInv st n) (hop : op.Ok n)
    (hs : applyOp n st op = some st') : TabInv st' n := by
  sorry

/-- **every reachable state**: any finite history of admissible operations from a state with the invariant (in particular
    from every constructor, `C05_toState_inv`, `C05_oneState_inv`, `C05_stabilizerState_inv`) ends in a state with the invariant -/
theorem C05_reachable_inv (st st' : State) (n : Nat) (ops : List StOp) (h : TabInv st n) (hops : ∀ op ∈ ops, op.Ok n)
    (hs : applyOps n st ops = some st') : TabInv st' n := by
  sorry

/-- `stabilizer_state(list)`: for commuting Hermitian stabilizers of the right size the result (when the constructor succeeds)
    has the invariant -/
theorem C05_stabilizerState_inv (N : Nat) (stabs : List Pauli) (st : State) (hl : ∀ s ∈ stabs, s.g.length = N ∧ s.p % 2 = 0)
    (hs : stabilizerState N stabs = .ok st) : TabInv st N := by
  sorry

end PC
