import PyCliffordModel.Proofs.CircuitLemmas
/-!
# C09 — a circuit acts as the ordered product of its gates;  C10 (gate level) — backward inverts forward
-/
namespace PC

/-- `utils.mask` agrees with `maskOf` on in-range qubit lists -/
theorem C09_qMask (qubits : List Nat) (N : Nat) (h0 : qubits ≠ []) (h : ∀ q ∈ qubits, q < N) :
    qMask qubits N = .ok (maskOf qubits N) := by
  sorry

/-- **each gate acts only on its declared qubits** and leaves every other qubit untouched -/
theorem C09_gate_local (g : Gate) (N : Nat) (P : Pauli) (i : Nat) (hg : g.WF N) (hP : P.g.length = N)
    (hi : i ∉ g.qubits) : (gateAct g N P).g.getD i (false, false) = P.g.getD i (false, false) := by
  sorry

/-- the model's `CliffordGate.forward` on a list of operators is `gateAct` row by row (deterministic gates: the gate is
    returned unchanged and the random supply untouched) -/
theorem C09_gate_forward (g : Gate) (N : Nat) (rows : List Pauli) (rnd : List CMap) (hg : g.WF N)
    (hr : ∀ R ∈ rows, R.g.length = N) :
    ∃ rows', g.forward N rows rnd = .ok (g, rows', rnd) ∧ RowsPEq' rows' (rows.map (gateAct g N)) := by
  sorry

/-- gates on disjoint qubit sets commute -/
theorem C09_disjoint_commute (g h : Gate) (N : Nat) (P : Pauli) (hg : g.WF N) (hh : h.WF N) (hP : P.g.length = N)
    (hd : g.indep h = true) : PEq (gateAct g N (gateAct h N P)) (gateAct h N (gateAct g N P)) := by
  sorry

/-- **packing gates into layers never changes the action**: for every program of deterministic gates, the circuit built
    by `take` runs forward, on every operator list, as the gates applied one at a time in program order -/
theorem C09_program_sound (N : Nat) (prog : List Gate) (c : Circ) (rows : List Pauli) (r : Nat) (s : Bool)
    (coins : List Bool) (rnd : List CMap)
    (hw : ∀ g ∈ prog, g.WF N) (hb : buildCirc N prog = .ok c) (hr : ∀ R ∈ rows, R.g.length = N) :
    ∃ c' rows', c.forward ⟨⟨rows, r, s⟩, coins, rnd⟩ = .ok (c', ⟨⟨rows', r, s⟩, coins, rnd⟩) ∧
      RowsPEq' rows' (rows.map (seqAct prog N)) := by
  sorry

/-- composing circuits: `c₁.compose(c₂)` built from two programs acts as the concatenated program -/
theorem C09_compose_sound (N : Nat) (p1 p2 : List Gate) (c1 c2 c : Circ) (rows : List Pauli) (r : Nat) (s : Bool)
    (coins : List Bool) (rnd : List CMap)
    (hw1 : ∀ g ∈ p1, g.WF N) (hw2 : ∀ g ∈ p2, g.WF N) (hb1 : buildCirc N p1 = .ok c1) (hb2 : buildCirc N p2 = .ok c2)
    (hc : c1.compose c2 = .ok c) (hr : ∀ R ∈ rows, R.g.length = N) :
    ∃ c' rows', c.forward ⟨⟨rows, r, s⟩, coins, rnd⟩ = .ok (c', ⟨⟨rows', r, s⟩, coins, rnd⟩) ∧
      RowsPEq' rows' (rows.map (seqAct (p1 ++ p2) N)) := by
  sorry

/-- C10, gate level: the backward action undoes the forward action, both orders, every operator with every phase -/
theorem C10_gate_inverse (g : Gate) (N : Nat) (P : Pauli) (hg : g.WF N) (hP : P.g.length = N) :
    PEq (gateActInv g N (gateAct g N P)) P ∧ PEq (gateAct g N (gateActInv g N P)) P := by
  sorry

/-- C10, program level: inverse gates in reverse order undo the program -/
theorem C10_program_inverse (prog : List Gate) (N : Nat) (P : Pauli) (hw : ∀ g ∈ prog, g.WF N) (hP : P.g.length = N) :
    PEq (seqActInv prog N (seqAct prog N P)) P ∧ PEq (seqAct prog N (seqActInv prog N P)) P := by
  sorry

/-- C10: the model's `CliffordGate.backward` is `gateActInv` row by row (the lazily computed inverse is cached in the gate) -/
theorem C10_gate_backward (g : Gate) (N : Nat) (rows : List Pauli) (rnd : List CMap) (hg : g.WF N)
    (hb : g.bmap = none) (hr : ∀ R ∈ rows, R.g.length = N) :
    ∃ g' rows', g.backward N rows rnd = .ok (g', rows', rnd) ∧ RowsPEq' rows' (rows.map (gateActInv g N)) := by
  sorry

end PC
