import PyCliffordModel.Properties.C16b
import PyCliffordModel.Proofs.SurjLemmas
/-!
# C16 (uniformity over the whole group, every `N`)

`C16_randomClifford_multiplicity` says the sampler is exactly uniform on its image. Here: the image is everything.
Every list of `2n` strings on `n` qubits with the canonical commutation pattern (every symplectic matrix over GF(2)) is
produced by some accepted tape, hence by exactly `2^n` of the `2^(tapeLen n)` accepted tapes: under a uniform tape that
needs no resampling, `random_clifford(n)` is exactly uniform over `Sp(2n, 2)`, for every `n`.
-/
namespace PC

/-- **surjectivity**: every symplectic list of rows is the output of the sampler on some tape of the accepted length -/
theorem C16_randomClifford_surjective (n : Nat) (rows : List PStr)
    (hl : rows.length = 2 * n) (hr : ∀ r ∈ rows, r.length = n) (hs : Rn.SymS rows) :
    ∃ t, t.length = tapeLen n ∧ randomClifford n t = some (rows, []) := by
  rw [Sj.tapeLen_eq tapeLen rfl (fun _ => rfl) n]
  exact Sj.surj n rows hl hr hs

/-- **exact uniformity over the whole symplectic group, for every `n`**: each symplectic matrix is produced by exactly `2^n`
    of the tapes of length `tapeLen n` -/
theorem C16_randomClifford_uniform (n : Nat) (rows : List PStr)
    (hl : rows.length = 2 * n) (hr : ∀ r ∈ rows, r.length = n) (hs : Rn.SymS rows) :
    ((allBits (tapeLen n)).filter fun t => randomClifford n t == some (rows, [])).length = 2 ^ n := by
  rw [Sj.tapeLen_eq tapeLen rfl (fun _ => rfl) n]
  exact Sj.uniform n rows hl hr hs

/-- conversely nothing else is ever produced (restating `randomClifford_symS` for the accepted tapes), so the counts above
    account for all `2^(tapeLen n)` tapes that resolve without resampling or they fail -/
theorem C16_randomClifford_image (n : Nat) (t : List Bool) (rows : List PStr) (rest : List Bool)
    (h : randomClifford n t = some (rows, rest)) :
    rows.length = 2 * n ∧ (∀ r ∈ rows, r.length = n) ∧ Rn.SymS rows :=
  Rn.randomClifford_symS n t rows rest h

/-- non-vacuity: the identity matrix on two qubits satisfies the hypotheses -/
example : Rn.SymS [[(true, false), (false, false)], [(false, true), (false, false)],
                   [(false, false), (true, false)], [(false, false), (false, true)]] := by
  intro i j hi hj
  simp only [List.length_cons, List.length_nil] at hi hj
  have hi' : i = 0 ∨ i = 1 ∨ i = 2 ∨ i = 3 := by omega
  have hj' : j = 0 ∨ j = 1 ∨ j = 2 ∨ j = 3 := by omega
  rcases hi' with rfl | rfl | rfl | rfl <;> rcases hj' with rfl | rfl | rfl | rfl <;> decide

end PC
