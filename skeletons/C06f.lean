import PyCliffordModel.Properties.C06e
import PyCliffordModel.Properties.C07f
import PyCliffordModel.Proofs.ListProjectionLemmas
/-!
# C06 / C12 — a whole measurement record, and the projector-product form of a state

`measure(obs_1 … obs_k)` measures the observables in order. With `P_j` the projector onto the reported outcome of `obs_j`,
`P_k ⋯ P_1 ρ P_1 ⋯ P_k = 2^{log2prob} · ρ'`: the reported `log2prob` is the logarithm of the Born probability of the whole record
and `ρ'` is the normalised projected state. Products are the library's `@` on the density-matrix expansion.
Second: the state denoted by a tableau is the product of the projectors of its active stabilizers,
`ρ = 2^{-r} ∏_a (1 + S_a)/2` (what `to_qutip` multiplies out), equal to the group sum `density_matrix`.
-/
namespace PC

/-- sandwich a polynomial between the projectors of a record, first observable innermost -/
def sandwich : List (Pauli × Int) → Poly → Poly
  | [], a => a
  | (O, out) :: rest, a => sandwich rest (polyMatmul (polyMatmul (projPoly O out) a) (projPoly O out))

/-- **the whole record**: projecting onto the reported outcomes in order gives `2^{-nrand}` times the final density matrix, where
    `nrand` is the number of undetermined outcomes the call reports (`log2prob = −nrand`) -/
theorem C06_measure_record_is_projection (st st' : State) (n : Nat) (obs : List Pauli) (coins rest : List Bool)
    (outs : List Int) (nrand : Nat) (h : TabInv st n) (ho : ∀ O ∈ obs, O.g.length = n ∧ O.p % 2 = 0)
    (hm : measure st obs coins = .ok (st', outs, nrand, rest)) (g : PStr) :
    outs.length = obs.length ∧
    coef (sandwich (obs.zip outs) (densityPoly st)) g
      = (⟨1 / (2 : Rat) ^ nrand, 0⟩ : Cx).mul (coef (densityPoly st') g) := by
  have e : ∀ (r : List (Pauli × Int)) (a : Poly), sandwich r a = Lp.sand r a := by
    intro r
    induction r with
    | nil => intro a; rfl
    | cons p r ih => intro a; exact ih _
  obtain ⟨h1, h2⟩ := Lp.measure_record n obs st st' coins rest outs nrand h ho hm
  exact ⟨h1, by rw [e]; exact h2 g⟩

/-- the projector `(1 + S)/2` of a stabilizer with its sign -/
def stabProj (S : Pauli) : Poly := projPoly S 0

/-- **projector-product form**: multiplying out `2^{-r} ∏_a (1 + S_a)/2` over the active stabilizers (in any bracketing from the
    left, as `to_qutip` does) gives the group sum `density_matrix` -/
theorem C12_projector_product_is_density (st : State) (n : Nat) (h : TabInv st n) (g : PStr) :
    coef (polySmul ⟨1 / (2 : Rat) ^ st.r, 0⟩ (st.active.foldl (fun acc S => polyMatmul acc (stabProj S)) (polyIdentity n))) g
      = coef (densityPoly st) g :=
  Lp.projector_product st n h g

end PC
