import PyCliffordModel.Properties.C08
import PyCliffordModel.Properties.C08c
import PyCliffordModel.Properties.C09
import PyCliffordModel.Properties.C12
/-!
# C08 (invariances) — the entropy depends only on the stabilizer group, and not on Clifford gates acting entirely inside
or entirely outside the region
-/
namespace PC

/-- **the entropy does not depend on which generators represent the stabilizer group**: two valid tableaux on the same
    qubits with the same rank and the same stabilizer group report the same entropy for every region -/
theorem C08_entropy_group_only (st1 st2 : State) (N : Nat) (m : List Bool)
    (h1 : TabInv st1 N) (h2 : TabInv st2 N) (hr : st1.r = st2.r) (hm : m.length = N)
    (hG : ∀ P : Pauli, InGroup st1 P ↔ InGroup st2 P) :
    entropyMask st1 m = entropyMask st2 m := by
  sorry

/-- the region a gate acts in: all its qubits are inside the region `m`, or all are outside -/
def GateInsideOrOutside (g : Gate) (m : List Bool) : Prop :=
  (∀ q ∈ g.qubits, m.getD q false = true) ∨ (∀ q ∈ g.qubits, m.getD q false = false)

/-- **the entropy of a region is unchanged by a Clifford gate acting entirely inside or entirely outside the region** -/
theorem C08_entropy_local_gate (st : State) (N : Nat) (m : List Bool) (g : Gate)
    (h : TabInv st N) (hm : m.length = N) (hg : g.WF N) (hio : GateInsideOrOutside g m) :
    entropyMask ⟨st.rows.map (gateAct g N), st.r⟩ m = entropyMask st m := by
  sorry

/-- … hence by any program of such gates -/
theorem C08_entropy_local_program (st : State) (N : Nat) (m : List Bool) (prog : List Gate)
    (h : TabInv st N) (hm : m.length = N) (hg : ∀ g ∈ prog, g.WF N ∧ GateInsideOrOutside g m) :
    entropyMask ⟨st.rows.map (seqAct prog N), st.r⟩ m = entropyMask st m := by
  sorry

end PC
