import PyCliffordModel.Proofs.Transform
/-!
# C03 — applying a valid Clifford map is a phase-exact homomorphism of the Pauli group
-/
namespace PC

/-- the identity goes to the identity -/
theorem C03_transform_one (M : List Pauli) (n : Nat) (hM : M.length = 2 * n) :
    transform M ⟨idStr n, 0⟩ = ⟨idStr n, 0⟩ := by
  sorry

/-- `X_k ↦` row `2k`, `Z_k ↦` row `2k+1` of the map -/
theorem C03_transform_gen (M : List Pauli) (n k : Nat) (hM : ValidMap M n) (hk : k < n) :
    PEq (transform M ⟨unitX n k, 0⟩) (rowAt M (2 * k)) ∧ PEq (transform M ⟨unitZ n k, 0⟩) (rowAt M (2 * k + 1)) := by
  sorry

/-- scalars are fixed: the phase of the input is carried through unchanged -/
theorem C03_transform_phase (M : List Pauli) (P : Pauli) (k : Int) :
    PEq (transform M ⟨P.g, P.p + k⟩) ⟨(transform M P).g, (transform M P).p + k⟩ := by
  sorry

/-- **products go to products with the exact phase** -/
theorem C03_transform_mul (M : List Pauli) (n : Nat) (hM : ValidMap M n) (P Q : Pauli)
    (hP : P.g.length = n) (hQ : Q.g.length = n) :
    PEq (transform M (mul P Q)) (mul (transform M P) (transform M Q)) := by
  sorry

/-- commutation relations are preserved -/
theorem C03_transform_acq (M : List Pauli) (n : Nat) (hM : ValidMap M n) (P Q : Pauli)
    (hP : P.g.length = n) (hQ : Q.g.length = n) :
    acq (transform M P).g (transform M Q).g = acq P.g Q.g := by
  sorry

/-- Hermiticity is preserved: `i^p σ[g]` with `p + p0 g`… the image of a Hermitian operator is Hermitian.
    (`i^p σ[g]` is Hermitian iff `p` is even.) -/
theorem C03_transform_hermitian (M : List Pauli) (n : Nat) (hM : ValidMap M n) (P : Pauli)
    (hP : P.g.length = n) (hp : P.p % 2 = 0) : (transform M P).p % 2 = 0 := by
  sorry

/-- a map applied through a qubit mask acts as the same map embedded among identity wires (any map) -/
theorem C03_transformMasked_eq_embed (M : List Pauli) (m : List Bool) (P : Pauli) (n : Nat)
    (hM : M.length = 2 * n) (hMr : ∀ R ∈ M, R.g.length = n) (hm : maskCount m = n) (hl : m.length = P.g.length) :
    PEq (transformMasked M m P) (transform (embed (idMap P.g.length) M m) P) := by
  sorry

/-- … and leaves every unmasked qubit untouched -/
theorem C03_transformMasked_untouched (M : List Pauli) (m : List Bool) (P : Pauli) (n i : Nat)
    (hM : M.length = 2 * n) (hMr : ∀ R ∈ M, R.g.length = n) (hm : maskCount m = n) (hl : m.length = P.g.length)
    (hi : m.getD i false = false) :
    (transformMasked M m P).g.getD i (false, false) = P.g.getD i (false, false) := by
  sorry

/-- the map built from a rotation generator is valid … -/
theorem C03_rotationMap_valid (G : Pauli) (hG : G.p % 2 = 0) : ValidMap (rotationMap G) G.g.length := by
  sorry

/-- … and acts identically to the rotation itself -/
theorem C03_rotationMap_acts_as_rotate (G P : Pauli) (hG : G.p % 2 = 0) (hl : G.g.length = P.g.length) :
    PEq (transform (rotationMap G) P) (rotate G P) := by
  sorry

end PC
