import PyCliffordModel.Proofs.ParseLemmas
/-!
# C20 — operator descriptions, printing, tokens and indexing round-trip
-/
namespace PC

/-- letters of a string as characters / as integer codes 0..3 / as the dict items of its non-identity qubits -/
def lettersCh (g : PStr) : List Tok := g.map fun q => Tok.ch (reprQ q)
def codeQ (q : Q) : Int := match q with | (false, false) => 0 | (true, false) => 1 | (true, true) => 2 | (false, true) => 3
def lettersCode (g : PStr) : List Tok := g.map fun q => Tok.code (codeQ q)
def dictItems (g : PStr) : List (Int × Tok) :=
  (g.mapIdx fun i q => ((i : Int), Tok.code (codeQ q))).filter fun it => it.2 != Tok.code 0

/-- the phase-code polynomial of `pauli_tokenize` evaluates to 4,6,5,7 on phases 0,1,2,3 -/
theorem C20_tokP_table : tokP 0 = 4 ∧ tokP 1 = 6 ∧ tokP 2 = 5 ∧ tokP 3 = 7 := by
  sorry

/-- per-qubit token codes are 0,1,2,3 for I,X,Y,Z -/
theorem C20_tokQ_table (q : Q) : tokQ q = codeQ q := by
  sorry

/-- **printing then parsing returns the original operator including its phase** (the printed text starts
    with a blank for phases 0 and 2; the parser skips it) -/
theorem C20_parse_repr (P : Pauli) (hp : 0 ≤ P.p ∧ P.p < 4) :
    ∃ cs, reprPauli P = some cs ∧ parseSeq (cs.map Tok.ch) = .ok P := by
  sorry

/-- **tokenizing then parsing returns the original operator including its phase** -/
theorem C20_parse_tokenize (P : Pauli) (hp : 0 ≤ P.p ∧ P.p < 4) :
    parseSeq ((tokenize P).map Tok.code) = .ok P := by
  sorry

/-- strings, code arrays and dicts describing the same operator construct equal objects -/
theorem C20_formats_agree (g : PStr) :
    parseSeq (lettersCh g) = .ok ⟨g, 0⟩ ∧ parseSeq (lettersCode g) = .ok ⟨g, 0⟩ ∧
    parseItems g.length (dictItems g) = .ok ⟨g, 0⟩ := by
  sorry

/-- the accepted sign prefixes: `''`, `+`, `-`, `i`, `+i`, `-i` give phases 0,0,2,1,1,3 -/
theorem C20_prefixes (g : PStr) :
    parseSeq (Tok.ch '+' :: lettersCh g) = .ok ⟨g, 0⟩ ∧
    parseSeq (Tok.ch '-' :: lettersCh g) = .ok ⟨g, 2⟩ ∧
    parseSeq (Tok.ch 'i' :: lettersCh g) = .ok ⟨g, 1⟩ ∧
    parseSeq (Tok.ch '+' :: Tok.ch 'i' :: lettersCh g) = .ok ⟨g, 1⟩ ∧
    parseSeq (Tok.ch '-' :: Tok.ch 'i' :: lettersCh g) = .ok ⟨g, 3⟩ := by
  sorry

/-- negation and multiplication by `1, i, -1, -i` are phase arithmetic -/
theorem C20_neg_smul (P : Pauli) (k : Nat) :
    (neg P).g = P.g ∧ (neg P).p % 4 = (P.p + 2) % 4 ∧
    (smulI k P).g = P.g ∧ (smulI k P).p % 4 = (P.p + (k : Int)) % 4 := by
  sorry

/-- weight counts the non-identity qubits -/
theorem C20_weight (g : PStr) : weight g = (g.filter fun q => q != (false, false)).length := by
  sorry

end PC
