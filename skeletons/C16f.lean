import PyCliffordModel.Properties.C13c
import PyCliffordModel.Properties.C16d
import PyCliffordModel.Proofs.PauliUniformLemmas
/-!
# C16 — random Pauli maps are uniform products of one-qubit Cliffords (pyclifford and the torch port)

`random_pauli(N)` draws one anticommuting one-qubit pair per qubit. As a function of a uniform tape (no resampling), every product
of `N` one-qubit string tables — there are `6^N` of them — is produced by exactly `2^N` of the `12^N` accepted tapes of length
`4N`: the sampler is exactly uniform, and the qubits are independent. The same holds for the batched torch sampler (which draws
all first strings, then all second strings).
-/
namespace PC

/-- a one-qubit string table: two one-qubit strings that anticommute -/
def IsPair (a b : Q) : Prop := acq [a] [b] = 1

/-- the table with the pair `(a_k, b_k)` on qubit `k` (rows `2k`, `2k+1`) -/
def pauliTable (N : Nat) (ps : List (Q × Q)) : List PStr :=
  (ps.mapIdx fun k ab => [placeQ N k ab.1, placeQ N k ab.2]).flatten

/-- **pyclifford `random_pauli`: exactly uniform**. For every choice of `N` one-qubit pairs, exactly `2^N` tapes of length `4N`
    produce that table (and consume the whole tape) -/
theorem C16_randomPauli_uniform (N : Nat) (ps : List (Q × Q)) (hl : ps.length = N) (hp : ∀ ab ∈ ps, IsPair ab.1 ab.2) :
    ((allBits (4 * N)).filter fun t => randomPauli N N t == some (pauliTable N ps, [])).length = 2 ^ N := by
  subst hl
  exact Pu.pauli_count ps.length ps (Nat.le_refl _) hp

/-- **torch `random_pauli` (N ≥ 2, batched draws): exactly uniform** in the same sense -/
theorem C16_torch_randomPauli_uniform (N : Nat) (hN : 2 ≤ N) (ps : List (Q × Q)) (hl : ps.length = N)
    (hp : ∀ ab ∈ ps, IsPair ab.1 ab.2) :
    ((allBits (4 * N)).filter fun t => T.randomPauli N t == some (pauliTable N ps, [])).length = 2 ^ N :=
  Pu.torch_count N hN ps hl hp

/-- nothing else is produced: every output of either sampler is such a table -/
theorem C16_randomPauli_image (N : Nat) (t rest : List Bool) (rows : List PStr) (h : randomPauli N N t = some (rows, rest)) :
    ∃ ps : List (Q × Q), ps.length = N ∧ (∀ ab ∈ ps, IsPair ab.1 ab.2) ∧ rows = pauliTable N ps :=
  Pu.pauli_image N N t rest rows h

end PC
