import PyCliffordModel.Model.Device
import PyCliffordModel.Properties.C09b
import PyCliffordModel.Properties.C06
import PyCliffordModel.Properties.C05b
import PyCliffordModel.Properties.C12
/-!
# C19 (classical shadows) — every snapshot is a valid pure state, stabilized up to sign by the back-evolved
measurement basis, with non-zero overlap with the measured state

`ClassicalShadow(base, circ).snapshots(n)` yields, `n` times, a copy of `base` on which the active stabilizers of
`circ.backward(zero_state(N))` have been measured in order. For a circuit built from a program of deterministic
gates the back-evolved basis is `Z_q` pulled back through the program, `seqActInv prog N Z_q`.
-/
namespace PC

/-- the measurement basis pulled back through the program -/
def pulledZ (prog : List Gate) (N q : Nat) : Pauli := seqActInv prog N ⟨unitZ N q, 0⟩

/-- **the POVM of a circuit** is the back-evolved `|0…0⟩`: it never fails, consumes no randomness, and is a valid pure
    state whose tableau is the zero tableau pulled back through the program (so its stabilizer `q` is `pulledZ … q`) -/
theorem C19_povm_spec (N : Nat) (prog : List Gate) (c : Circ) (rnd : List CMap) (hN : 0 < N)
    (hw : ∀ g ∈ prog, g.WF N) (hbm : ∀ g ∈ prog, g.BmapOK) (hb : buildCirc N prog = .ok c) :
    ∃ c' z, povm1 c rnd = .ok (c', z, rnd) ∧ z.r = 0 ∧ TabInv z N ∧
      RowsPEq' z.rows ((zeroState N).rows.map (seqActInv prog N)) ∧
      (∀ q, q < N → PEq (rowAt z.active q) (pulledZ prog N q)) ∧ z.active.length = N := by
  sorry

/-- **every snapshot is a valid state**: the tableau invariant holds, the rank does not exceed that of the base state,
    one outcome per measured basis element, the random-map supply is untouched; a snapshot can fail only for lack of coins -/
theorem C19_snapshot_valid (N : Nat) (prog : List Gate) (c : Circ) (base : State) (coins : List Bool) (rnd : List CMap)
    (hN : 0 < N) (hw : ∀ g ∈ prog, g.WF N) (hbm : ∀ g ∈ prog, g.BmapOK) (hb : buildCirc N prog = .ok c) (h : TabInv base N) :
    (∀ c' s outs k cs rnd', snapshot1 base c coins rnd = .ok (c', s, outs, k, cs, rnd') →
        TabInv s N ∧ s.r ≤ base.r ∧ outs.length = N ∧ (∀ o ∈ outs, o = 0 ∨ o = 1) ∧ rnd' = rnd ∧ cs.length + k = coins.length) ∧
    (∀ e, snapshot1 base c coins rnd = .error e → e = .coin) ∧
    (N ≤ coins.length → ∃ res, snapshot1 base c coins rnd = .ok res) := by
  sorry

/-- **stabilized up to sign by the back-evolved measurement basis**: for every qubit `q`, the pulled-back `Z_q` with the
    recorded outcome as its sign is in the stabilizer group of the snapshot -/
theorem C19_snapshot_stabilized (N : Nat) (prog : List Gate) (c c' : Circ) (base s : State) (coins cs : List Bool)
    (rnd rnd' : List CMap) (outs : List Int) (k : Nat)
    (hN : 0 < N) (hw : ∀ g ∈ prog, g.WF N) (hbm : ∀ g ∈ prog, g.BmapOK) (hb : buildCirc N prog = .ok c) (h : TabInv base N)
    (hs : snapshot1 base c coins rnd = .ok (c', s, outs, k, cs, rnd')) :
    ∀ q, q < N → InGroup s ⟨(pulledZ prog N q).g, (pulledZ prog N q).p + 2 * outs.getD q 0⟩ := by
  sorry

/-- **every snapshot is pure** (`r = 0`): a full commuting basis has been measured -/
theorem C19_snapshot_pure (N : Nat) (prog : List Gate) (c c' : Circ) (base s : State) (coins cs : List Bool)
    (rnd rnd' : List CMap) (outs : List Int) (k : Nat)
    (hN : 0 < N) (hw : ∀ g ∈ prog, g.WF N) (hbm : ∀ g ∈ prog, g.BmapOK) (hb : buildCirc N prog = .ok c) (h : TabInv base N)
    (hs : snapshot1 base c coins rnd = .ok (c', s, outs, k, cs, rnd')) :
    s.r = 0 := by
  sorry

/-- **non-zero overlap with the measured state**: `Tr(ρ σ) = 0` for stabilizer states exactly when some operator
    stabilizes one and its negative the other; this never happens between the base state and a snapshot -/
theorem C19_snapshot_overlap (N : Nat) (prog : List Gate) (c c' : Circ) (base s : State) (coins cs : List Bool)
    (rnd rnd' : List CMap) (outs : List Int) (k : Nat)
    (hN : 0 < N) (hw : ∀ g ∈ prog, g.WF N) (hbm : ∀ g ∈ prog, g.BmapOK) (hb : buildCirc N prog = .ok c) (h : TabInv base N)
    (hs : snapshot1 base c coins rnd = .ok (c', s, outs, k, cs, rnd')) :
    ∀ P : Pauli, InGroup base P → ¬ InGroup s (neg P) := by
  sorry

/-- measuring a list of pairwise commuting Hermitian observables (the general fact behind the three theorems above):
    every observable, with its recorded outcome as sign, stabilizes the final state; every stabilizer of the initial state
    that commutes with all of them still stabilizes it; and no stabilizer of the initial state is negated -/
theorem C19_measure_commuting (st st' : State) (n : Nat) (obs : List Pauli) (coins cs : List Bool) (outs : List Int) (k : Nat)
    (h : TabInv st n) (ho : ∀ O ∈ obs, O.g.length = n ∧ O.p % 2 = 0)
    (hc : ∀ A ∈ obs, ∀ B ∈ obs, acq A.g B.g = 0)
    (hm : measure st obs coins = .ok (st', outs, k, cs)) :
    (∀ i, i < obs.length → InGroup st' ⟨(rowAt obs i).g, (rowAt obs i).p + 2 * outs.getD i 0⟩) ∧
    (∀ P : Pauli, InGroup st P → (∀ O ∈ obs, acq P.g O.g = 0) → InGroup st' P) ∧
    (∀ P : Pauli, InGroup st P → ¬ InGroup st' (neg P)) := by
  sorry

end PC
