import PyCliffordModel.Properties.C13b
import PyCliffordModel.Properties.C16
import PyCliffordModel.Proofs.TorchLemmas3
/-!
# C13 / C16 (torch, third batch) — the vectorised `stabilizer_project` equals the sequential kernel; the batched samplers are valid

`torchclifford.utils.stabilizer_project` finds all anticommuting rows at once and updates the rows after the pivot in one
vectorised statement; `pyclifford`'s kernel walks the rows one by one. They return the same tableau and rank.
`torchclifford.utils.random_pair(N, L)` draws `L` pairs at once (and, since the repair, resamples exactly the all-zero rows);
`random_pauli(N)` places the `N` one-qubit pairs on their qubits (for `N = 1` the 2×2 table comes out transposed, see
`T.randomPauli`): whatever the tape, the table is a valid product of one-qubit Clifford tables.
-/
namespace PC

/-- **`stabilizer_project`, one observable**: vectorised = sequential -/
theorem C13_project1 (st : State) (obs : PStr) (hl : st.rows.length = 2 * st.N) : T.project1 st obs = project1 st obs :=
  Tk.project1_eq st obs hl

/-- … and for a list of observables -/
theorem C13_project (st : State) (obs : List PStr) (hl : st.rows.length = 2 * st.N) : T.project st obs = project st obs :=
  Tk.project_eq obs st hl

/-- every pair of the batch anticommutes, the first strings are non-identity, all strings have `N` qubits, and exactly `L`
    pairs are returned -/
theorem C16_torch_randomPairs_valid (N L : Nat) (tape rest : List Bool) (pairs : List (PStr × PStr))
    (h : T.randomPairs N L tape = some (pairs, rest)) (hN : 0 < N) :
    pairs.length = L ∧ ∀ ab ∈ pairs, acq ab.1 ab.2 = 1 ∧ ab.1.length = N ∧ ab.2.length = N ∧ anyBit ab.1 = true := by
  have _ := hN   -- not needed: for `N = 0` the sampler only returns when `L = 0`
  exact Tk.randomPairs_spec N L tape rest pairs h

/-- **every table sampled by the torch `random_pauli` is valid**, for every tape and every sign draw -/
theorem C16_torch_randomPauli_valid (n : Nat) (tape rest signs : List Bool) (rows : List PStr)
    (h : T.randomPauli n tape = some (rows, rest)) : ValidMap (signedMap rows signs) n :=
  Tk.randomPauli_valid n tape rest signs rows h

/-- … and a product of one-qubit tables: rows `2k` and `2k+1` act on qubit `k` only -/
theorem C16_torch_randomPauli_onsite (n : Nat) (tape rest : List Bool) (rows : List PStr)
    (h : T.randomPauli n tape = some (rows, rest)) :
    rows.length = 2 * n ∧ ∀ k, k < n → ∃ q1 q2 : Q, rows.getD (2 * k) [] = placeQ n k q1 ∧ rows.getD (2 * k + 1) [] = placeQ n k q2 := by
  obtain ⟨hlen, hk⟩ := Tk.randomPauli_spec n tape rest rows h
  exact ⟨hlen, fun k hk' => let ⟨q1, q2, h1, h2, _⟩ := hk k hk'; ⟨q1, q2, h1, h2⟩⟩

end PC
