import PyCliffordModel.Proofs.PlaceLemmas
import PyCliffordModel.Generated.GateTables
/-!
# C11 (placement), C18 (circuit level), C19 (density expansion), C07 (overlap chain) — corollaries on top of the libraries
-/
namespace PC
open Gen

/-- a named single-qubit gate placed on qubit `q` of an `N`-qubit register -/
def gate1 (table : List Pauli) (q : Nat) : Gate := { qubits := [q], fmap := some table }
/-- a two-qubit gate placed on qubits `a < b` (ascending positions) -/
def gate2 (table : List Pauli) (a b : Nat) : Gate := { qubits := [a, b], fmap := some table }

/-- a one-qubit operator `σ` placed at qubit `q` among identities -/
def at1 (N q : Nat) (s : Q) : PStr := (List.range N).map fun i => if i == q then s else (false, false)
def at2 (N a b : Nat) (s t : Q) : PStr := (List.range N).map fun i => if i == a then s else if i == b then t else (false, false)

/-- **wherever it is placed**, a valid one-qubit gate acts on `σ_q` (any one-qubit Pauli at qubit `q`, any phase) by its
    table and leaves every operator supported off `q` unchanged -/
theorem C11_gate1_anywhere (table : List Pauli) (hv : ValidMap table 1) (N q : Nat) (hq : q < N) (s : Q) (p : Int) :
    PEq (gateAct (gate1 table q) N ⟨at1 N q s, p⟩)
        ⟨at1 N q ((transform table ⟨[s], 0⟩).g.getD 0 (false, false)), p + (transform table ⟨[s], 0⟩).p⟩ := by
  sorry

/-- H on any qubit of any register swaps `X_q` and `Z_q` -/
theorem C11_H_anywhere (N q : Nat) (hq : q < N) :
    PEq (gateAct (gate1 gateH q) N ⟨at1 N q (true, false), 0⟩) ⟨at1 N q (false, true), 0⟩ ∧
    PEq (gateAct (gate1 gateH q) N ⟨at1 N q (false, true), 0⟩) ⟨at1 N q (true, false), 0⟩ := by
  sorry

/-- CNOT with control `c` and target `t`, for either ordering of `c` and `t`, anywhere in a register:
    `X_c ↦ X_c X_t` and `Z_t ↦ Z_c Z_t` -/
theorem C11_CNOT_anywhere (N c t : Nat) (hc : c < N) (ht : t < N) (hct : c ≠ t) :
    let g : Gate := if c < t then gate2 gateCNOT01 c t else gate2 gateCNOT10 t c
    PEq (gateAct g N ⟨at1 N c (true, false), 0⟩) ⟨at2 N c t (true, false) (true, false), 0⟩ ∧
    PEq (gateAct g N ⟨at1 N t (false, true), 0⟩) ⟨at2 N c t (false, true) (false, true), 0⟩ := by
  sorry

/-! ## C18 at circuit level -/

/-- the gate built by `clifford_rotation_gate` from a full-register generator (condensed onto its support) acts as the
    rotation by the full generator -/
theorem C18_rotationGate_acts (G P : Pauli) (hl : G.g.length = P.g.length) (hG : anyBit G.g = true) :
    gateAct (rotationGate G none) P.g.length P = rotate G P := by
  sorry

/-- **`diagonalize(P, i0)`** (non-causal): the returned circuit, run forward, maps the operator to `± Z` on qubit `i0` -/
theorem C18_diagonalizePauli_sound (g : PStr) (p : Int) (i0 : Nat) (c : Circ) (hi : i0 < g.length) (hg : anyBit g = true)
    (hc : diagonalizePauli g i0 false = .ok c) :
    ∃ c' R, c.forward ⟨⟨[⟨g, p⟩], 0, false⟩, [], []⟩ = .ok (c', ⟨⟨[R], 0, false⟩, [], []⟩) ∧
      R.g = unitZ g.length i0 ∧ R.p % 2 = p % 2 := by
  sorry

/-! ## C19: the density-matrix expansion lists every group element exactly once -/
theorem C19_density_complete (st : State) (n : Nat) (h : TabInv st n) :
    (densityRows st).length = 2 ^ (n - st.r) ∧ ((densityRows st).map (·.g)).Nodup ∧
    (∀ R ∈ densityRows st, InGroup st R) ∧ (∀ P : Pauli, InGroup st P → ∃ R ∈ densityRows st, PEq R P) := by
  sorry

/-! ## C07: the overlap is a product of step factors 1, 0, ½ -/
theorem C07_projTrace_chain (st st' : State) (n : Nat) (obs : List Pauli) (t t' : Dy) (h : TabInv st n) (hr : st.r = 0)
    (ho : ∀ O ∈ obs, O.g.length = n ∧ (O.p = 0 ∨ O.p = 2)) (hm : projTrace st obs t = .ok (st', t')) :
    TabInv st' n ∧ st'.r = 0 ∧ t.k ≤ t'.k ∧ t'.k ≤ t.k + obs.length ∧ (t.zero = true → t'.zero = true) ∧
    (t'.zero = false → ∀ O ∈ obs, InGroup st' O) := by
  sorry

end PC
