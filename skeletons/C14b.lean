import PyCliffordModel.Properties.C14
import PyCliffordModel.Properties.C09
/-!
# C14 (circuit level) — a circuit interleaving gates and measurement layers follows the trajectory of its program

A *program* is the sequence of calls `circ.take(gate)` / `circ.measure(*qubits)` that built a `Circuit`. Its meaning is
sequential: each gate acts when it was added, each measurement is a direct `state.measure(Z_q …)` at the point where it
was added, consuming coins in that order. The theorems below show that the layered circuit (gates packed into layers,
never across a measurement layer) runs forward exactly as that sequential meaning, records the outcomes in order,
accumulates the log-probability, and that `backward` hands every measurement layer exactly its own slice of the record,
last layer first.
-/
namespace PC

/-- one call on a `Circuit`: `take(gate)` or `measure(*qubits)` -/
inductive Item
  | gate (g : Gate)
  | meas (qs : List Nat)

/-- build a `Circuit` by replaying the calls of a program -/
def buildProg (N : Nat) (prog : List Item) : Except Err Circ :=
  prog.foldlM (fun c it => match it with
    | .gate g => c.take g
    | .meas qs => c.takeMeas qs) { N := N }

def Item.WF (N : Nat) : Item → Prop
  | .gate g => g.WF N
  | .meas qs => qs ≠ [] ∧ ∀ q ∈ qs, q < N

/-- the sequential meaning of a program on a state: gates act one at a time, measurements are direct measurements of
    `Z` on the listed qubits; returns the final state, the record (`+1/−1`, in order), the number of undetermined
    outcomes, and the unused coins -/
def runItems (N : Nat) : List Item → State → List Bool → Except Err (State × List Int × Nat × List Bool)
  | [], st, coins => .ok (st, [], 0, coins)
  | .gate g :: rest, st, coins => runItems N rest ⟨st.rows.map (gateAct g N), st.r⟩ coins
  | .meas qs :: rest, st, coins =>
    match measure st (measObs N qs) coins with
    | .error e => .error e
    | .ok (st', outs, k, cs) =>
      match runItems N rest st' cs with
      | .error e => .error e
      | .ok (st'', res, k', cs') => .ok (st'', (outs.map fun o => if o % 2 = 0 then (1 : Int) else -1) ++ res, k + k', cs')

/-- measurement does not depend on how the phases of the tableau are represented mod 4 -/
theorem C14_measure_congr (st1 st2 : State) (n : Nat) (obs : List Pauli) (coins : List Bool)
    (h1 : TabInv st1 n) (hr : st1.r = st2.r) (hE : RowsPEq' st1.rows st2.rows) (ho : ∀ O ∈ obs, O.g.length = n) :
    match measure st1 obs coins, measure st2 obs coins with
    | .ok (s1, o1, k1, c1), .ok (s2, o2, k2, c2) => RowsPEq' s1.rows s2.rows ∧ s1.r = s2.r ∧ o1 = o2 ∧ k1 = k2 ∧ c1 = c2
    | .error e1, .error e2 => e1 = e2
    | _, _ => False := by
  sorry

/-- **the trajectory theorem**: for every program of deterministic gates and measurements, the circuit built from it,
    run forward on any valid state with any coins, succeeds exactly when the sequential meaning does, and then yields
    the same state (rows up to the representation of phases mod 4, same rank), the same record in the same order
    (appended to the circuit's record), the same count of undetermined outcomes (accumulated into `nrand`, i.e.
    `log2prob`), and the same unused coins -/
theorem C14_program_trajectory (N : Nat) (prog : List Item) (c : Circ) (st : State) (coins : List Bool) (rnd : List CMap)
    (hw : ∀ it ∈ prog, it.WF N) (hb : buildProg N prog = .ok c) (h : TabInv st N) :
    match c.forward ⟨⟨st.rows, st.r, true⟩, coins, rnd⟩, runItems N prog st coins with
    | .ok (c', x'), .ok (st', res, k, cs) =>
        RowsPEq' x'.obj.rows st'.rows ∧ x'.obj.r = st'.r ∧ x'.coins = cs ∧ x'.rnd = rnd ∧
        (c.unitary = false → c'.results = c.results ++ res ∧ c'.nrand = c.nrand + k) ∧
        (c.unitary = true → res = [] ∧ k = 0)
    | .error _, .error _ => True
    | _, _ => False := by
  sorry

/-- a built circuit is non-unitary exactly when its program contains a measurement; it starts with an empty record, and
    `numMeas` counts the measured qubits -/
theorem C14_buildProg_flags (N : Nat) (prog : List Item) (c : Circ) (hb : buildProg N prog = .ok c) :
    (c.unitary = false ↔ ∃ qs, Item.meas qs ∈ prog) ∧ c.results = [] ∧ c.nrand = 0 ∧
    c.numMeas = (prog.map fun | .meas qs => qs.length | .gate _ => 0).sum ∧ c.N = N := by
  sorry

/-- the sequential meaning keeps the tableau invariant, never increases the rank, records one outcome per measured qubit -/
theorem C14_runItems_inv (N : Nat) (prog : List Item) (st st' : State) (coins cs : List Bool) (res : List Int) (k : Nat)
    (hw : ∀ it ∈ prog, it.WF N) (h : TabInv st N) (hr : runItems N prog st coins = .ok (st', res, k, cs)) :
    TabInv st' N ∧ st'.r ≤ st.r ∧ (∀ v ∈ res, v = 1 ∨ v = -1) ∧
    res.length = (prog.map fun | .meas qs => qs.length | .gate _ => 0).sum ∧ cs.length + k = coins.length := by
  sorry

def measWidth : Layer → Nat
  | .meas qs _ _ => qs.length
  | _ => 0

/-- **`backward` slices the record per layer, last layer first**: with the layers in reverse order, the first (i.e. last)
    layer receives exactly the last `measWidth` entries of the record and the remaining layers the rest -/
theorem C14_backward_slices (N : Nat) (L : Layer) (Ls : List Layer) (x : Run) (rec m : List Int)
    (hm : m.length = measWidth L) :
    layersBackward N (L :: Ls) x (rec ++ m) =
      match L.backward N x (if L.isMeas then some m else none) with
      | .error e => .error e
      | .ok (L', x') =>
        match layersBackward N Ls x' rec with
        | .error e => .error e
        | .ok (Ls', x'') => .ok (L' :: Ls', x'') := by
  sorry

/-- a record of the wrong total length is rejected before anything is applied -/
theorem C14_backward_rejects_length (c : Circ) (x : Run) (m : List Int) (hu : c.unitary = false) (hl : m.length ≠ c.numMeas) :
    c.backward x (some m) = .error .value := by
  sorry

/-- **replaying the own record never fails**: on a pure state, after a measurement layer ran forward, running the same
    layer backward with the outcomes it recorded succeeds and leaves the post-measurement state as it is (every recorded
    outcome now has probability one) -/
theorem C14_measure_then_backward (N : Nat) (qs : List Nat) (a : Option (List Int)) (b : Option Nat)
    (st : State) (coins : List Bool) (rnd : List CMap) (L' : Layer) (x' : Run)
    (h : TabInv st N) (hr : st.r = 0) (hq : ∀ q ∈ qs, q < N)
    (hf : Layer.forward N (.meas qs a b) ⟨⟨st.rows, st.r, true⟩, coins, rnd⟩ = .ok (L', x')) :
    ∃ x'', L'.backward N x' none = .ok (L', x'') ∧ x''.obj.rows = x'.obj.rows ∧ x''.obj.r = 0 := by
  sorry

end PC
